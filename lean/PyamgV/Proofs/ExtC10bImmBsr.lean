import PyamgV.Model.C10
import PyamgV.Proofs.ExtC10bImmCsr
import Mathlib.Algebra.BigOperators.Intervals
import Mathlib.Algebra.BigOperators.Ring.Finset
import Mathlib.Order.Interval.Finset.Nat
import Mathlib.Tactic.Ring

/-! PyamgV (extension E24, property C10): `incomplete_mat_mult_bsr` (`smoothed_aggregation.h`, model
`C10M.incompleteMatMultBsr`, the one the check compares with the kernel by `c10_imm`) adds exactly the
blocks of `A·B` to the stored blocks of `S`.

Precondition of the kernel: the block columns of `S` inside one block row are **distinct** and smaller
than `n_bcol` (the kernel keeps one pointer per block column; the indices of `A`, `B`, `S` need not be
sorted, duplicates in `A` and `B` are summed), the row pointers of `S` ascend and all stored blocks lie
inside `Sx`.

`Acc a out δ`: `out` has the size of `a` and `out[q] = a[q] + δ q` for every position `q`; every loop
of the kernel is an accumulation, and accumulations compose (`Acc.trans`, `acc_range'`). -/
namespace PyamgV.C10b
open PyamgV.C10M Finset

variable {α : Type} [CommRing α]

/-- `out = a + δ` position by position, same size -/
def Acc (a out : Array α) (δ : Nat → α) : Prop :=
  out.size = a.size ∧ ∀ q, out.getD q 0 = a.getD q 0 + δ q

theorem Acc.refl (a : Array α) : Acc a a (fun _ => 0) := ⟨rfl, fun q => by rw [add_zero]⟩

theorem Acc.trans {a b c : Array α} {δ₁ δ₂ : Nat → α} (h₁ : Acc a b δ₁) (h₂ : Acc b c δ₂) :
    Acc a c (fun q => δ₁ q + δ₂ q) :=
  ⟨by rw [h₂.1, h₁.1], fun q => by rw [h₂.2 q, h₁.2 q, add_assoc]⟩

theorem Acc.congr {a b : Array α} {δ δ' : Nat → α} (h : Acc a b δ) (e : ∀ q, δ q = δ' q) : Acc a b δ' :=
  ⟨h.1, fun q => by rw [h.2 q, e q]⟩

/-- one `Sx[sc] += v` -/
theorem acc_set (a : Array α) (sc : Nat) (v : α) (h : sc < a.size) :
    Acc a (a.setIfInBounds sc (a.getD sc 0 + v)) (fun q => if q = sc then v else 0) := by
  refine ⟨Array.size_setIfInBounds, fun q => ?_⟩
  show _ = a.getD q 0 + (if q = sc then v else 0)
  rw [getD_set]
  by_cases hq : sc = q
  · subst hq
    rw [if_pos ⟨rfl, h⟩, if_pos rfl]
  · rw [if_neg (fun e => hq e.1), if_neg (fun e => hq e.symm), add_zero]

/-- a counted loop of accumulations is the accumulation of the sum -/
theorem acc_range' (N : Nat) (step : Array α → Nat → Array α) (δ : Nat → Nat → α) :
    ∀ (len lo : Nat), (∀ t, lo ≤ t → t < lo + len → ∀ s : Array α, s.size = N → Acc s (step s t) (δ t)) →
      ∀ a : Array α, a.size = N →
        Acc a ((List.range' lo len).foldl step a) (fun q => ∑ t ∈ Ico lo (lo + len), δ t q) := by
  intro len
  induction len with
  | zero =>
    intro lo _ a _
    exact (Acc.refl a).congr (fun q => by simp)
  | succ len ih =>
    intro lo h a ha
    rw [List.range'_succ, List.foldl_cons]
    have h0 := h lo (Nat.le_refl _) (by omega) a ha
    have h1 := ih (lo + 1) (fun t ht1 ht2 => h t (by omega) (by omega)) (step a lo) (by rw [h0.1, ha])
    refine (h0.trans h1).congr (fun q => ?_)
    rw [sum_eq_sum_Ico_succ_bot (by omega : lo < lo + (len + 1))]
    have : lo + 1 + len = lo + (len + 1) := by omega
    rw [this]

theorem acc_range (N : Nat) (step : Array α → Nat → Array α) (δ : Nat → Nat → α) (n : Nat)
    (h : ∀ t, t < n → ∀ s : Array α, s.size = N → Acc s (step s t) (δ t)) (a : Array α) (ha : a.size = N) :
    Acc a ((List.range n).foldl step a) (fun q => ∑ t ∈ range n, δ t q) := by
  rw [List.range_eq_range']
  refine (acc_range' N step δ n 0 (fun t _ ht => h t (by omega)) a ha).congr (fun q => ?_)
  rw [Nat.zero_add, range_eq_Ico]

/-! ### index arithmetic of row-major blocks -/

theorem pos_lt (R C i k : Nat) (hi : i < R) (hk : k < C) : i * C + k < R * C := by
  have : (i + 1) * C ≤ R * C := Nat.mul_le_mul_right C hi
  rw [Nat.add_mul, Nat.one_mul] at this
  omega

theorem pos_unique (C i k x : Nat) (hk : k < C) : i * C + k = x ↔ (i = x / C ∧ k = x % C) := by
  have hC : 0 < C := by omega
  constructor
  · intro h
    subst h
    constructor
    · rw [Nat.mul_comm, Nat.mul_add_div hC, Nat.div_eq_of_lt hk, Nat.add_zero]
    · rw [Nat.mul_comm, Nat.mul_add_mod, Nat.mod_eq_of_lt hk]
  · rintro ⟨h1, h2⟩
    rw [h1, h2, Nat.mul_comm]
    exact Nat.div_add_mod x C

/-- positions of different blocks of size `s` are different -/
theorem block_unique (s j j0 x y : Nat) (hx : x < s) (hy : y < s) (h : j * s + x = j0 * s + y) : j = j0 ∧ x = y := by
  have h1 := (pos_unique s j x (j0 * s + y) hx).1 h
  have h2 := (pos_unique s j0 y (j0 * s + y) hy).1 rfl
  exact ⟨by rw [h1.1, ← h2.1], by rw [h1.2, ← h2.2]⟩

/-! ### `gemm` with `B` row major into a row-major block of `S` (`'F'`, `'T'`, `'F'`, no overwrite) -/

/-- what `gemm` adds at position `q` of `Sx`: entry `((q-off)/C, (q-off)%C)` of the `R × C` block product -/
def gemmDelta (A : Array α) (aoff R Acols : Nat) (B : Array α) (boff C off : Nat) (q : Nat) : α :=
  if off ≤ q ∧ q < off + R * C then
    ∑ j ∈ range Acols, A.getD (aoff + (q - off) / C * Acols + j) 0 * B.getD (boff + j * C + (q - off) % C) 0
  else 0

theorem gemm_acc (A : Array α) (aoff R Acols : Nat) (B : Array α) (boff Brows C : Nat) (s : Array α)
    (off Srows : Nat) (h : off + R * C ≤ s.size) :
    Acc s (gemm A aoff R Acols B boff Brows C true s off Srows C false false)
      (gemmDelta A aoff R Acols B boff C off) := by
  have hg : gemm A aoff R Acols B boff Brows C true s off Srows C false false =
      (List.range R).foldl (fun (s : Array α) i =>
        (List.range Acols).foldl (fun (s : Array α) j =>
          (List.range C).foldl (fun (s : Array α) k =>
            s.setIfInBounds (off + i * C + k)
              (s.getD (off + i * C + k) 0 + A.getD (aoff + i * Acols + j) 0 * B.getD (boff + j * C + k) 0)) s) s) s := by
    simp [gemm, rd]
  rw [hg]
  have key := acc_range s.size
    (fun (s : Array α) i => (List.range Acols).foldl (fun (s : Array α) j =>
      (List.range C).foldl (fun (s : Array α) k =>
        s.setIfInBounds (off + i * C + k)
          (s.getD (off + i * C + k) 0 + A.getD (aoff + i * Acols + j) 0 * B.getD (boff + j * C + k) 0)) s) s)
    (fun i q => ∑ j ∈ range Acols, ∑ k ∈ range C,
      if q = off + i * C + k then A.getD (aoff + i * Acols + j) 0 * B.getD (boff + j * C + k) 0 else 0)
    R ?_ s rfl
  · refine key.congr (fun q => ?_)
    unfold gemmDelta
    by_cases hq : off ≤ q ∧ q < off + R * C
    · rw [if_pos hq]
      have hC : 0 < C := by
        rcases Nat.eq_zero_or_pos C with e | e
        · subst e; omega
        · exact e
      have hmod : (q - off) % C < C := Nat.mod_lt _ hC
      have hdiv : (q - off) / C < R := by
        rw [Nat.div_lt_iff_lt_mul hC]; omega
      rw [sum_eq_single ((q - off) / C)]
      · apply sum_congr rfl
        intro j _
        rw [sum_eq_single ((q - off) % C)]
        · rw [if_pos]
          have := Nat.div_add_mod (q - off) C
          rw [Nat.mul_comm] at this
          omega
        · intro k hk hne
          rw [mem_range] at hk
          rw [if_neg]
          intro e
          have := (pos_unique C ((q - off) / C) k (q - off) hk).1 (by omega)
          exact hne this.2
        · intro hn; exact absurd (mem_range.2 hmod) hn
      · intro i _ hne
        apply sum_eq_zero; intro j _
        apply sum_eq_zero; intro k hk
        rw [mem_range] at hk
        rw [if_neg]
        intro e
        have := (pos_unique C i k (q - off) hk).1 (by omega)
        exact hne this.1
      · intro hn; exact absurd (mem_range.2 hdiv) hn
    · rw [if_neg hq]
      apply sum_eq_zero; intro i hi
      apply sum_eq_zero; intro j _
      apply sum_eq_zero; intro k hk
      rw [mem_range] at hi hk
      rw [if_neg]
      intro e
      have := pos_lt R C i k hi hk
      omega
  · intro i hi s' hs'
    refine acc_range s.size _ (fun j q => ∑ k ∈ range C,
      if q = off + i * C + k then A.getD (aoff + i * Acols + j) 0 * B.getD (boff + j * C + k) 0 else 0)
      Acols ?_ s' hs'
    intro j _ s'' hs''
    refine acc_range s.size _ (fun k q =>
      if q = off + i * C + k then A.getD (aoff + i * Acols + j) 0 * B.getD (boff + j * C + k) 0 else 0)
      C ?_ s'' hs''
    intro k hk t ht
    have := pos_lt R C i k hi hk
    exact acc_set t (off + i * C + k) _ (by omega)

/-- with `1 × 1` blocks the scalar branch of the kernel is the `gemm` call -/
theorem gemm_one (ax bx s : Array α) (pa kk off : Nat) :
    gemm ax (pa * 1) 1 1 bx (kk * 1) 1 1 true s off 1 1 false false =
      s.setIfInBounds off (rd s off + rd ax pa * rd bx kk) := by
  simp [gemm, rd]

theorem in_block (s jj jj0 x : Nat) (hx : x < s) :
    (jj * s ≤ jj0 * s + x ∧ jj0 * s + x < jj * s + s) ↔ jj = jj0 := by
  constructor
  · rintro ⟨h1, h2⟩
    have := block_unique s jj jj0 (jj0 * s + x - jj * s) x (by omega) hx (by omega)
    exact this.1
  · intro h; subst h; omega

theorem Ico_fix (lo hi : Nat) : Ico lo (lo + (hi - lo)) = Ico lo hi := by
  ext x; simp only [mem_Ico]; omega

/-! ### the marker array `S` of the kernel (`Option Nat` = pointer into `Sx` or `NULL`) -/

theorem getD_setO (a : Array (Option Nat)) (i j : Nat) (v : Option Nat) :
    (a.setIfInBounds i v).getD j none = if i = j ∧ j < a.size then v else a.getD j none := by
  simp only [Array.getD_eq_getD_getElem?, Array.getElem?_setIfInBounds]
  by_cases h : i = j
  · subst h
    by_cases h2 : i < a.size
    · simp [h2]
    · simp [h2]
  · simp [h]

/-- setting the pointers of one block row -/
theorem mark_spec (sj : Array Nat) (sBS nBcol : Nat) : ∀ (len lo : Nat) (S : Array (Option Nat)),
    S.size = nBcol → (∀ jj, lo ≤ jj → jj < lo + len → rdN sj jj < nBcol) →
    (∀ jj jj', lo ≤ jj → jj < lo + len → lo ≤ jj' → jj' < lo + len → rdN sj jj = rdN sj jj' → jj = jj') →
    ((List.range' lo len).foldl (fun (S : Array (Option Nat)) jj =>
        S.setIfInBounds (rdN sj jj) (some (jj * sBS))) S).size = nBcol ∧
    (∀ jj, lo ≤ jj → jj < lo + len →
      ((List.range' lo len).foldl (fun (S : Array (Option Nat)) jj =>
        S.setIfInBounds (rdN sj jj) (some (jj * sBS))) S).getD (rdN sj jj) none = some (jj * sBS)) ∧
    (∀ k, (∀ jj, lo ≤ jj → jj < lo + len → rdN sj jj ≠ k) →
      ((List.range' lo len).foldl (fun (S : Array (Option Nat)) jj =>
        S.setIfInBounds (rdN sj jj) (some (jj * sBS))) S).getD k none = S.getD k none) := by
  intro len
  induction len with
  | zero =>
    intro lo S hS _ _
    exact ⟨hS, fun jj h1 h2 => by omega, fun k _ => rfl⟩
  | succ len ih =>
    intro lo S hS hb hinj
    rw [List.range'_succ, List.foldl_cons]
    obtain ⟨i1, i2, i3⟩ := ih (lo + 1) (S.setIfInBounds (rdN sj lo) (some (lo * sBS)))
      (by rw [Array.size_setIfInBounds, hS]) (fun jj h1 h2 => hb jj (by omega) (by omega))
      (fun jj jj' h1 h2 h3 h4 => hinj jj jj' (by omega) (by omega) (by omega) (by omega))
    refine ⟨i1, ?_, ?_⟩
    · intro jj h1 h2
      rcases Nat.eq_or_lt_of_le h1 with e | l
      · subst e
        rw [i3 (rdN sj lo) (fun jj' h1' h2' e' => by
          have := hinj jj' lo (by omega) (by omega) (Nat.le_refl _) (by omega) e'; omega)]
        rw [getD_setO, if_pos ⟨rfl, by rw [hS]; exact hb lo (Nat.le_refl _) (by omega)⟩]
      · exact i2 jj (by omega) (by omega)
    · intro k hk
      rw [i3 k (fun jj h1 h2 => hk jj (by omega) (by omega)), getD_setO,
        if_neg (fun e => hk lo (Nat.le_refl _) (by omega) e.1)]

/-- resetting them -/
theorem unmark_spec (sj : Array Nat) : ∀ (len lo : Nat) (S : Array (Option Nat)),
    ((List.range' lo len).foldl (fun (S : Array (Option Nat)) jj => S.setIfInBounds (rdN sj jj) none) S).size = S.size ∧
    ∀ k, (S.getD k none = none ∨ ∃ jj, lo ≤ jj ∧ jj < lo + len ∧ rdN sj jj = k) →
      ((List.range' lo len).foldl (fun (S : Array (Option Nat)) jj => S.setIfInBounds (rdN sj jj) none) S).getD k none = none := by
  intro len
  induction len with
  | zero =>
    intro lo S
    refine ⟨rfl, fun k h => ?_⟩
    rcases h with h | ⟨jj, h1, h2, _⟩
    · exact h
    · omega
  | succ len ih =>
    intro lo S
    rw [List.range'_succ, List.foldl_cons]
    obtain ⟨i1, i2⟩ := ih (lo + 1) (S.setIfInBounds (rdN sj lo) none)
    refine ⟨by rw [i1, Array.size_setIfInBounds], fun k h => ?_⟩
    apply i2
    by_cases hk : rdN sj lo = k
    · left
      rw [getD_setO]
      by_cases hs : k < S.size
      · rw [if_pos ⟨hk, hs⟩]
      · rw [if_neg (fun e => hs e.2)]
        simp [Array.getD_eq_getD_getElem?, Array.getElem?_eq_none (Nat.le_of_not_lt hs)]
    · rcases h with h | ⟨jj, h1, h2, h3⟩
      · left; rw [getD_setO, if_neg (fun e => hk e.1)]; exact h
      · right
        refine ⟨jj, ?_, by omega, h3⟩
        rcases Nat.eq_or_lt_of_le h1 with e | l
        · subst e; exact absurd h3 hk
        · omega

/-! ### one block row, all block rows -/

/-- the body of the loop over the block rows (`incompleteMatMultBsr_eq` is `rfl`) -/
def bsrStep (ap aj : Array Nat) (ax : Array α) (bp bj : Array Nat) (bx : Array α) (sp sj : Array Nat)
    (browA bcolA bcolB : Nat) (st : Array α × Array (Option Nat)) (i : Nat) : Array α × Array (Option Nat) :=
  let aBS := browA * bcolA
  let bBS := bcolA * bcolB
  let sBS := browA * bcolB
  let one := aBS == bBS && bBS == sBS && aBS == 1
  let sjs := List.range' (rdN sp i) (rdN sp (i+1) - rdN sp i)
  let S := sjs.foldl (fun (S : Array (Option Nat)) jj => S.setIfInBounds (rdN sj jj) (some (jj * sBS))) st.2
  let sx := (List.range' (rdN ap i) (rdN ap (i+1) - rdN ap i)).foldl (fun (sx : Array α) jj =>
    let j := rdN aj jj
    (List.range' (rdN bp j) (rdN bp (j+1) - rdN bp j)).foldl (fun (sx : Array α) kk =>
      let k := rdN bj kk
      match S.getD k none with
      | none => sx
      | some off =>
        if one then sx.setIfInBounds off (rd sx off + rd ax jj * rd bx kk)
        else gemm ax (jj * aBS) browA bcolA bx (kk * bBS) bcolA bcolB true sx off browA bcolB false false) sx) st.1
  let S := sjs.foldl (fun (S : Array (Option Nat)) jj => S.setIfInBounds (rdN sj jj) none) S
  (sx, S)

theorem incompleteMatMultBsr_eq (ap aj : Array Nat) (ax : Array α) (bp bj : Array Nat) (bx : Array α)
    (sp sj : Array Nat) (sx : Array α) (nBrow nBcol browA bcolA bcolB : Nat) :
    incompleteMatMultBsr ap aj ax bp bj bx sp sj sx nBrow nBcol browA bcolA bcolB =
      ((List.range nBrow).foldl (bsrStep ap aj ax bp bj bx sp sj browA bcolA bcolB)
        (sx, Array.replicate nBcol none)).1 := rfl

/-- what block row `i` adds at position `q` of `Sx` (no marker array): for every stored block `pa` of
row `i` of `A`, every stored block `kk` of row `Aj[pa]` of `B`, and the stored block `jj` of row `i` of
`S` with the block column of `kk` (at most one): the entry of `A_pa · B_kk` that `q` addresses in block `jj` -/
def rowDelta (ap aj : Array Nat) (ax : Array α) (bp bj : Array Nat) (bx : Array α) (sp sj : Array Nat)
    (browA bcolA bcolB : Nat) (i q : Nat) : α :=
  ∑ pa ∈ Ico (rdN ap i) (rdN ap (i+1)), ∑ kk ∈ Ico (rdN bp (rdN aj pa)) (rdN bp (rdN aj pa + 1)),
    ∑ jj ∈ Ico (rdN sp i) (rdN sp (i+1)),
      if rdN sj jj = rdN bj kk then
        gemmDelta ax (pa * (browA * bcolA)) browA bcolA bx (kk * (bcolA * bcolB)) bcolB (jj * (browA * bcolB)) q
      else 0

theorem bsrStep_spec (ap aj : Array Nat) (ax : Array α) (bp bj : Array Nat) (bx : Array α) (sp sj : Array Nat)
    (browA bcolA bcolB N nBcol i : Nat) (hmono : rdN sp i ≤ rdN sp (i+1))
    (hN : rdN sp (i+1) * (browA * bcolB) ≤ N)
    (hb : ∀ jj, rdN sp i ≤ jj → jj < rdN sp (i+1) → rdN sj jj < nBcol)
    (hinj : ∀ jj jj', rdN sp i ≤ jj → jj < rdN sp (i+1) → rdN sp i ≤ jj' → jj' < rdN sp (i+1) →
      rdN sj jj = rdN sj jj' → jj = jj')
    (st : Array α × Array (Option Nat)) (hs : st.1.size = N) (hS : st.2.size = nBcol)
    (hnone : ∀ k, st.2.getD k none = none) :
    Acc st.1 (bsrStep ap aj ax bp bj bx sp sj browA bcolA bcolB st i).1
      (rowDelta ap aj ax bp bj bx sp sj browA bcolA bcolB i) ∧
    (bsrStep ap aj ax bp bj bx sp sj browA bcolA bcolB st i).2.size = nBcol ∧
    ∀ k, (bsrStep ap aj ax bp bj bx sp sj browA bcolA bcolB st i).2.getD k none = none := by
  have hfix : rdN sp i + (rdN sp (i+1) - rdN sp i) = rdN sp (i+1) := by omega
  obtain ⟨m1, m2, m3⟩ := mark_spec sj (browA * bcolB) nBcol (rdN sp (i+1) - rdN sp i) (rdN sp i) st.2 hS
    (fun jj h1 h2 => hb jj h1 (by omega))
    (fun jj jj' h1 h2 h3 h4 => hinj jj jj' h1 (by omega) h3 (by omega))
  dsimp only [bsrStep]
  generalize hM : (List.range' (rdN sp i) (rdN sp (i+1) - rdN sp i)).foldl
    (fun (S : Array (Option Nat)) jj => S.setIfInBounds (rdN sj jj) (some (jj * (browA * bcolB)))) st.2 = M
    at m1 m2 m3
  -- what the marker says
  have mk_none : ∀ k, M.getD k none = none → ∀ jj, rdN sp i ≤ jj → jj < rdN sp (i+1) → rdN sj jj ≠ k := by
    intro k hk jj h1 h2 e
    have := m2 jj h1 (by omega)
    rw [e, hk] at this
    cases this
  have mk_some : ∀ k off, M.getD k none = some off →
      ∃ jj, rdN sp i ≤ jj ∧ jj < rdN sp (i+1) ∧ rdN sj jj = k ∧ off = jj * (browA * bcolB) := by
    intro k off hk
    by_cases hex : ∃ jj, rdN sp i ≤ jj ∧ jj < rdN sp (i+1) ∧ rdN sj jj = k
    · obtain ⟨jj, h1, h2, h3⟩ := hex
      refine ⟨jj, h1, h2, h3, ?_⟩
      have := m2 jj h1 (by omega)
      rw [h3, hk] at this
      exact Option.some.inj this
    · have := m3 k (fun jj h1 h2 e => hex ⟨jj, h1, by omega, e⟩)
      rw [hk, hnone k] at this
      cases this
  refine ⟨?_, ?_, ?_⟩
  · -- the accumulation
    have key := acc_range' N
      (fun (sx : Array α) pa => (List.range' (rdN bp (rdN aj pa)) (rdN bp (rdN aj pa + 1) - rdN bp (rdN aj pa))).foldl
        (fun (sx : Array α) kk =>
          match M.getD (rdN bj kk) none with
          | none => sx
          | some off =>
            if (browA * bcolA == bcolA * bcolB && bcolA * bcolB == browA * bcolB && browA * bcolA == 1) = true then
              sx.setIfInBounds off (rd sx off + rd ax pa * rd bx kk)
            else gemm ax (pa * (browA * bcolA)) browA bcolA bx (kk * (bcolA * bcolB)) bcolA bcolB true sx off
              browA bcolB false false) sx)
      (fun pa q => ∑ kk ∈ Ico (rdN bp (rdN aj pa)) (rdN bp (rdN aj pa) + (rdN bp (rdN aj pa + 1) - rdN bp (rdN aj pa))),
        ∑ jj ∈ Ico (rdN sp i) (rdN sp (i+1)),
          if rdN sj jj = rdN bj kk then
            gemmDelta ax (pa * (browA * bcolA)) browA bcolA bx (kk * (bcolA * bcolB)) bcolB (jj * (browA * bcolB)) q
          else 0)
      (rdN ap (i+1) - rdN ap i) (rdN ap i) ?_ st.1 hs
    · refine key.congr (fun q => ?_)
      unfold rowDelta
      rw [Ico_fix]
      apply sum_congr rfl
      intro pa _
      rw [Ico_fix]
    · intro pa _ _ s hs'
      refine acc_range' N _ (fun kk q => ∑ jj ∈ Ico (rdN sp i) (rdN sp (i+1)),
          if rdN sj jj = rdN bj kk then
            gemmDelta ax (pa * (browA * bcolA)) browA bcolA bx (kk * (bcolA * bcolB)) bcolB (jj * (browA * bcolB)) q
          else 0) _ _ ?_ s hs'
      intro kk _ _ t ht
      split
      · rename_i hk
        refine (Acc.refl t).congr (fun q => ?_)
        symm
        apply sum_eq_zero
        intro jj hjj
        rw [mem_Ico] at hjj
        rw [if_neg (mk_none _ hk jj hjj.1 hjj.2)]
      · rename_i off hk
        obtain ⟨jj0, h1, h2, h3, h4⟩ := mk_some _ off hk
        have hsum : ∀ q, gemmDelta ax (pa * (browA * bcolA)) browA bcolA bx (kk * (bcolA * bcolB)) bcolB off q =
            ∑ jj ∈ Ico (rdN sp i) (rdN sp (i+1)),
              if rdN sj jj = rdN bj kk then
                gemmDelta ax (pa * (browA * bcolA)) browA bcolA bx (kk * (bcolA * bcolB)) bcolB (jj * (browA * bcolB)) q
              else 0 := by
          intro q
          rw [sum_eq_single jj0]
          · rw [if_pos h3, h4]
          · intro jj hjj hne
            rw [mem_Ico] at hjj
            rw [if_neg (fun e => hne (hinj jj jj0 hjj.1 hjj.2 h1 h2 (by rw [e, h3])))]
          · intro hn; exact absurd (mem_Ico.2 ⟨h1, h2⟩) hn
        have hin : off + browA * bcolB ≤ t.size := by
          have : (jj0 + 1) * (browA * bcolB) ≤ rdN sp (i+1) * (browA * bcolB) := Nat.mul_le_mul_right _ h2
          rw [Nat.add_mul, Nat.one_mul] at this
          omega
        have hg := gemm_acc ax (pa * (browA * bcolA)) browA bcolA bx (kk * (bcolA * bcolB)) bcolA bcolB t off browA hin
        by_cases hone : (browA * bcolA == bcolA * bcolB && bcolA * bcolB == browA * bcolB && browA * bcolA == 1) = true
        · rw [if_pos hone]
          simp only [Bool.and_eq_true, beq_iff_eq] at hone
          obtain ⟨⟨e1, e2⟩, e3⟩ := hone
          have hA : browA = 1 ∧ bcolA = 1 := ⟨Nat.eq_one_of_mul_eq_one_right e3, Nat.eq_one_of_mul_eq_one_left e3⟩
          have hB : bcolB = 1 := by
            have : bcolA * bcolB = 1 := by rw [← e1, e3]
            exact Nat.eq_one_of_mul_eq_one_left this
          obtain ⟨hA1, hA2⟩ := hA
          subst hA1 hA2 hB
          rw [← gemm_one ax bx t pa kk off]
          exact hg.congr hsum
        · rw [if_neg hone]
          exact hg.congr hsum
  · obtain ⟨u1, _⟩ := unmark_spec sj (rdN sp (i+1) - rdN sp i) (rdN sp i) M
    rw [u1, m1]
  · intro k
    obtain ⟨_, u2⟩ := unmark_spec sj (rdN sp (i+1) - rdN sp i) (rdN sp i) M
    apply u2
    by_cases hex : ∃ jj, rdN sp i ≤ jj ∧ jj < rdN sp i + (rdN sp (i+1) - rdN sp i) ∧ rdN sj jj = k
    · exact Or.inr hex
    · left
      rw [m3 k (fun jj h1 h2 e => hex ⟨jj, h1, h2, e⟩)]
      exact hnone k

/-- all block rows: the kernel adds the sum of the row contributions -/
theorem bsr_rows (ap aj : Array Nat) (ax : Array α) (bp bj : Array Nat) (bx : Array α) (sp sj : Array Nat)
    (sx : Array α) (nBrow nBcol browA bcolA bcolB : Nat) (hmono : MonoPtr sp nBrow)
    (hsz : rdN sp nBrow * (browA * bcolB) ≤ sx.size)
    (hb : ∀ i, i < nBrow → ∀ jj, rdN sp i ≤ jj → jj < rdN sp (i+1) → rdN sj jj < nBcol)
    (hinj : ∀ i, i < nBrow → ∀ jj jj', rdN sp i ≤ jj → jj < rdN sp (i+1) → rdN sp i ≤ jj' → jj' < rdN sp (i+1) →
      rdN sj jj = rdN sj jj' → jj = jj') :
    ∀ r, r ≤ nBrow →
      Acc sx ((List.range r).foldl (bsrStep ap aj ax bp bj bx sp sj browA bcolA bcolB) (sx, Array.replicate nBcol none)).1
        (fun q => ∑ i ∈ range r, rowDelta ap aj ax bp bj bx sp sj browA bcolA bcolB i q) ∧
      ((List.range r).foldl (bsrStep ap aj ax bp bj bx sp sj browA bcolA bcolB) (sx, Array.replicate nBcol none)).2.size = nBcol ∧
      ∀ k, ((List.range r).foldl (bsrStep ap aj ax bp bj bx sp sj browA bcolA bcolB) (sx, Array.replicate nBcol none)).2.getD k none = none := by
  intro r
  induction r with
  | zero =>
    intro _
    refine ⟨(Acc.refl sx).congr (fun q => by simp), by simp, fun k => ?_⟩
    simp only [List.range_zero, List.foldl_nil, Array.getD_eq_getD_getElem?, Array.getElem?_replicate]
    split <;> rfl
  | succ r ih =>
    intro hr
    obtain ⟨i1, i2, i3⟩ := ih (by omega)
    rw [List.range_succ, List.foldl_append, List.foldl_cons, List.foldl_nil]
    generalize (List.range r).foldl (bsrStep ap aj ax bp bj bx sp sj browA bcolA bcolB) (sx, Array.replicate nBcol none) = st
      at i1 i2 i3
    have hN : rdN sp (r+1) * (browA * bcolB) ≤ sx.size :=
      Nat.le_trans (Nat.mul_le_mul_right _ (hmono.le nBrow (Nat.le_refl _) (r+1) hr)) hsz
    obtain ⟨s1, s2, s3⟩ := bsrStep_spec ap aj ax bp bj bx sp sj browA bcolA bcolB sx.size nBcol r (hmono r (by omega)) hN
      (hb r (by omega)) (hinj r (by omega)) st i1.1 i2 i3
    refine ⟨(i1.trans s1).congr (fun q => ?_), s2, s3⟩
    rw [sum_range_succ]

theorem gemmDelta_at (A : Array α) (aoff R Acols : Nat) (B : Array α) (boff C jj jj0 a b : Nat)
    (ha : a < R) (hb : b < C) :
    gemmDelta A aoff R Acols B boff C (jj * (R * C)) (jj0 * (R * C) + a * C + b) =
      if jj = jj0 then ∑ c ∈ range Acols, A.getD (aoff + a * Acols + c) 0 * B.getD (boff + c * C + b) 0 else 0 := by
  have hx := pos_lt R C a b ha hb
  unfold gemmDelta
  by_cases e : jj = jj0
  · subst e
    rw [if_pos (by omega), if_pos rfl]
    have h1 : jj * (R * C) + a * C + b - jj * (R * C) = a * C + b := by omega
    obtain ⟨h2, h3⟩ := (pos_unique C a b (a * C + b) hb).1 rfl
    rw [h1, ← h2, ← h3]
  · rw [if_neg e, if_neg]
    intro h
    exact e ((in_block (R * C) jj jj0 (a * C + b) hx).1 ⟨by omega, by omega⟩)

theorem gemmDelta_outside (A : Array α) (aoff R Acols : Nat) (B : Array α) (boff C jj lo hi q : Nat)
    (h1 : lo ≤ jj) (h2 : jj < hi) (hq : q < lo * (R * C) ∨ hi * (R * C) ≤ q) :
    gemmDelta A aoff R Acols B boff C (jj * (R * C)) q = 0 := by
  unfold gemmDelta
  rw [if_neg]
  intro h
  have e1 : lo * (R * C) ≤ jj * (R * C) := Nat.mul_le_mul_right _ h1
  have e2 : (jj + 1) * (R * C) ≤ hi * (R * C) := Nat.mul_le_mul_right _ h2
  rw [Nat.add_mul, Nat.one_mul] at e2
  omega

/-- **`incomplete_mat_mult_bsr`** (the model run by `c10_imm`): `S += A·B` on the stored blocks of `S`.
For ascending row pointers of `S` with all stored blocks inside `Sx`, block columns of `S` that are
smaller than `n_bcol` and distinct inside each block row (nothing is assumed about `A` and `B`):
entry `(a, b)` of the stored block `jj` of block row `i` grows by
`Σ_{pa ∈ row i of A} Σ_{kk ∈ row Aj[pa] of B, Bj[kk] = Sj[jj]} Σ_c A_pa[a,c]·B_kk[c,b]`, positions of `Sx`
outside the `n_brow` block rows are untouched, the size is unchanged. -/
theorem incompleteMatMultBsr_spec (ap aj : Array Nat) (ax : Array α) (bp bj : Array Nat) (bx : Array α)
    (sp sj : Array Nat) (sx : Array α) (nBrow nBcol browA bcolA bcolB : Nat) (hmono : MonoPtr sp nBrow)
    (hsz : rdN sp nBrow * (browA * bcolB) ≤ sx.size)
    (hb : ∀ i, i < nBrow → ∀ jj, rdN sp i ≤ jj → jj < rdN sp (i+1) → rdN sj jj < nBcol)
    (hinj : ∀ i, i < nBrow → ∀ jj jj', rdN sp i ≤ jj → jj < rdN sp (i+1) → rdN sp i ≤ jj' → jj' < rdN sp (i+1) →
      rdN sj jj = rdN sj jj' → jj = jj') :
    (incompleteMatMultBsr ap aj ax bp bj bx sp sj sx nBrow nBcol browA bcolA bcolB).size = sx.size ∧
    (∀ i, i < nBrow → ∀ jj, rdN sp i ≤ jj → jj < rdN sp (i+1) → ∀ a, a < browA → ∀ b, b < bcolB →
      (incompleteMatMultBsr ap aj ax bp bj bx sp sj sx nBrow nBcol browA bcolA bcolB).getD
          (jj * (browA * bcolB) + a * bcolB + b) 0 =
        sx.getD (jj * (browA * bcolB) + a * bcolB + b) 0 +
          ∑ pa ∈ Ico (rdN ap i) (rdN ap (i+1)), ∑ kk ∈ Ico (rdN bp (rdN aj pa)) (rdN bp (rdN aj pa + 1)),
            if rdN bj kk = rdN sj jj then
              ∑ c ∈ range bcolA, ax.getD (pa * (browA * bcolA) + a * bcolA + c) 0 *
                bx.getD (kk * (bcolA * bcolB) + c * bcolB + b) 0
            else 0) ∧
    (∀ q, (q < rdN sp 0 * (browA * bcolB) ∨ rdN sp nBrow * (browA * bcolB) ≤ q) →
      (incompleteMatMultBsr ap aj ax bp bj bx sp sj sx nBrow nBcol browA bcolA bcolB).getD q 0 = sx.getD q 0) := by
  rw [incompleteMatMultBsr_eq]
  obtain ⟨hacc, _, _⟩ := bsr_rows ap aj ax bp bj bx sp sj sx nBrow nBcol browA bcolA bcolB hmono hsz hb hinj
    nBrow (Nat.le_refl _)
  refine ⟨hacc.1, ?_, ?_⟩
  · intro i0 hi0 jj0 hj1 hj2 a ha b hbb
    rw [hacc.2]
    congr 1
    show ∑ i ∈ range nBrow, rowDelta ap aj ax bp bj bx sp sj browA bcolA bcolB i _ = _
    rw [sum_eq_single i0]
    · unfold rowDelta
      apply sum_congr rfl; intro pa _
      apply sum_congr rfl; intro kk _
      rw [sum_eq_single jj0]
      · rw [gemmDelta_at ax _ browA bcolA bx _ bcolB jj0 jj0 a b ha hbb, if_pos rfl]
        by_cases e : rdN bj kk = rdN sj jj0
        · rw [if_pos e, if_pos e.symm]
        · rw [if_neg e, if_neg (fun e' => e e'.symm)]
      · intro jj _ hne
        rw [gemmDelta_at ax _ browA bcolA bx _ bcolB jj jj0 a b ha hbb, if_neg hne]
        split <;> rfl
      · intro hn; exact absurd (mem_Ico.2 ⟨hj1, hj2⟩) hn
    · intro i hi hne
      rw [mem_range] at hi
      unfold rowDelta
      apply sum_eq_zero; intro pa _
      apply sum_eq_zero; intro kk _
      apply sum_eq_zero; intro jj hjj
      rw [mem_Ico] at hjj
      have hjne : jj ≠ jj0 := by
        rcases Nat.lt_or_gt_of_ne hne with l | l
        · have := hmono.le i0 (by omega) (i+1) (by omega)
          omega
        · have := hmono.le i (by omega) (i0+1) (by omega)
          omega
      rw [gemmDelta_at ax _ browA bcolA bx _ bcolB jj jj0 a b ha hbb, if_neg hjne]
      split <;> rfl
    · intro hn; exact absurd (mem_range.2 hi0) hn
  · intro q hq
    rw [hacc.2]
    show _ + ∑ i ∈ range nBrow, rowDelta ap aj ax bp bj bx sp sj browA bcolA bcolB i q = _
    have : ∑ i ∈ range nBrow, rowDelta ap aj ax bp bj bx sp sj browA bcolA bcolB i q = 0 := by
      apply sum_eq_zero; intro i hi
      rw [mem_range] at hi
      unfold rowDelta
      apply sum_eq_zero; intro pa _
      apply sum_eq_zero; intro kk _
      apply sum_eq_zero; intro jj hjj
      rw [mem_Ico] at hjj
      have l1 := hmono.le i (by omega) 0 (Nat.zero_le _)
      have l2 := hmono.le nBrow (Nat.le_refl _) (i+1) (by omega)
      rw [gemmDelta_outside ax _ browA bcolA bx _ bcolB jj (rdN sp 0) (rdN sp nBrow) q (by omega) (by omega) hq]
      split <;> rfl
    rw [this, add_zero]

/-! ### the blocks the arrays denote -/

/-- entry `(a, c)` of block `(i, k)` of a BSR matrix with `R × C` blocks: the sum of the stored blocks of
block row `i` that carry block column `k` (duplicates are summed, as SciPy does) -/
def bsrEntry (p idx : Array Nat) (x : Array α) (R C i k a c : Nat) : α :=
  ∑ q ∈ Ico (rdN p i) (rdN p (i+1)), if rdN idx q = k then x.getD (q * (R * C) + a * C + c) 0 else 0

/-- the increment of `incompleteMatMultBsr_spec` is entry `(a, b)` of block `(i, Sj[jj])` of `A·B`:
`Σ_{j<nK} Σ_{c<bcol_A} A[(i,j),(a,c)]·B[(j,Sj[jj]),(c,b)]` for any `nK` bounding the block columns of
row `i` of `A` -/
theorem bsr_entry_dot (ap aj : Array Nat) (ax : Array α) (bp bj : Array Nat) (bx : Array α)
    (browA bcolA bcolB i col a b nK : Nat)
    (hn : ∀ pa, rdN ap i ≤ pa → pa < rdN ap (i+1) → rdN aj pa < nK) :
    (∑ pa ∈ Ico (rdN ap i) (rdN ap (i+1)), ∑ kk ∈ Ico (rdN bp (rdN aj pa)) (rdN bp (rdN aj pa + 1)),
      if rdN bj kk = col then
        ∑ c ∈ range bcolA, ax.getD (pa * (browA * bcolA) + a * bcolA + c) 0 *
          bx.getD (kk * (bcolA * bcolB) + c * bcolB + b) 0
      else 0) =
    ∑ j ∈ range nK, ∑ c ∈ range bcolA,
      bsrEntry ap aj ax browA bcolA i j a c * bsrEntry bp bj bx bcolA bcolB j col c b := by
  unfold bsrEntry
  symm
  calc ∑ j ∈ range nK, ∑ c ∈ range bcolA,
        (∑ pa ∈ Ico (rdN ap i) (rdN ap (i+1)), if rdN aj pa = j then ax.getD (pa * (browA * bcolA) + a * bcolA + c) 0 else 0) *
        (∑ kk ∈ Ico (rdN bp j) (rdN bp (j+1)), if rdN bj kk = col then bx.getD (kk * (bcolA * bcolB) + c * bcolB + b) 0 else 0)
      = ∑ j ∈ range nK, ∑ pa ∈ Ico (rdN ap i) (rdN ap (i+1)), ∑ c ∈ range bcolA,
          (if rdN aj pa = j then ax.getD (pa * (browA * bcolA) + a * bcolA + c) 0 else 0) *
          (∑ kk ∈ Ico (rdN bp j) (rdN bp (j+1)), if rdN bj kk = col then bx.getD (kk * (bcolA * bcolB) + c * bcolB + b) 0 else 0) := by
        apply sum_congr rfl; intro j _
        rw [sum_comm]
        apply sum_congr rfl; intro c _
        rw [sum_mul]
    _ = ∑ pa ∈ Ico (rdN ap i) (rdN ap (i+1)), ∑ j ∈ range nK, ∑ c ∈ range bcolA,
          (if rdN aj pa = j then ax.getD (pa * (browA * bcolA) + a * bcolA + c) 0 else 0) *
          (∑ kk ∈ Ico (rdN bp j) (rdN bp (j+1)), if rdN bj kk = col then bx.getD (kk * (bcolA * bcolB) + c * bcolB + b) 0 else 0) :=
        sum_comm
    _ = _ := by
        apply sum_congr rfl
        intro pa hpa
        rw [mem_Ico] at hpa
        rw [sum_eq_single (rdN aj pa)]
        · simp only [if_true, mul_sum]
          rw [sum_comm]
          apply sum_congr rfl; intro kk _
          by_cases e : rdN bj kk = col
          · simp only [if_pos e]
          · simp only [if_neg e, mul_zero, sum_const_zero]
        · intro j _ hne
          apply sum_eq_zero; intro c _
          rw [if_neg (fun e => hne e.symm), zero_mul]
        · intro hn'
          exact absurd (mem_range.2 (hn pa hpa.1 hpa.2)) hn'

#print axioms incompleteMatMultBsr_spec
#print axioms bsr_entry_dot
end PyamgV.C10b
