import PyamgV.Proofs.ExtC16Relax

/-! PyamgV (C16, extension E29): non-vacuity of the hypotheses of `relax_jacobi_energy`, `relax_richardson_energy`,
`relax_gs_ne_error`, `relax_gs_nr_residual_csr`, `relax_jacobi_ne_error` on `A = [[2,-1],[-1,2]]`, `b = (1,1)`,
`x* = (1,1)`. -/
namespace PyamgV.C16R
open PyamgV PyamgV.K PyamgV.C16 Finset

theorem A2_op (u : Nat → ℚ) :
    csrOp A2.n (rowOf A2) u 0 = 2 * u 0 - u 1 ∧ csrOp A2.n (rowOf A2) u 1 = 2 * u 1 - u 0 := by
  show csrOp 2 (rowOf A2) u 0 = _ ∧ csrOp 2 (rowOf A2) u 1 = _
  constructor
  · rw [csrOp_apply _ _ _ _ (by norm_num), row0]; simp [rowDot]; ring
  · rw [csrOp_apply _ _ _ _ (by norm_num), row1]; simp [rowDot]; ring

theorem A2_rowsOK : RowsOK A2.n (rowOf A2) := by
  intro i hi
  have : i = 0 ∨ i = 1 := by have : i < 2 := hi; omega
  rcases this with rfl | rfl
  · rw [row0]; exact ⟨by intro cv h; simp at h; rcases h with rfl | rfl <;> decide, by decide⟩
  · rw [row1]; exact ⟨by intro cv h; simp at h; rcases h with rfl | rfl <;> decide, by decide⟩

theorem A2_dinv (i : Nat) (hi : i < 2) : fn (dinvRows id A2) i = 1 / 5 := by
  have h := fn_dinvRows A2 i (show i < A2.n from hi)
  have : i = 0 ∨ i = 1 := by omega
  rcases this with rfl | rfl
  · rw [h, row0]; norm_num
  · rw [h, row1]; norm_num

theorem A2_neOp (v : Nat → ℚ) :
    neOp A2 v 0 = v 0 - 4 / 5 * v 1 ∧ neOp A2 v 1 = v 1 - 4 / 5 * v 0 := by
  have hn : A2.n = 2 := rfl
  unfold neOp cscOp
  simp only [hn, sum_range_succ, sum_range_zero, A2_dinv 0 (by norm_num), A2_dinv 1 (by norm_num)]
  rw [← hn, (A2_op v).1, (A2_op v).2, row0, row1]
  constructor <;> simp [rowVec] <;> ring

/-- the hypotheses of the E29 clauses are satisfiable together on a non-trivial instance:
symmetry, positive semidefiniteness, stored diagonal `2`, the solution `(1,1)` of `A x = (1,1)`, the Jacobi damping
bound for `ω = 2/3` (`omega = 1`, recorded `rho = 3/2`), the Richardson bound for `ω = 1/3` (`rho = 3`), canonical
rows, the `jacobi_ne` bound for `ω = 1/2` -/
theorem relaxR_hyps_satisfiable :
    (∀ u v, (euc ℚ A2.n).a (csrOp A2.n (rowOf A2) u) v = (euc ℚ A2.n).a u (csrOp A2.n (rowOf A2) v)) ∧
    (∀ v, 0 ≤ (euc ℚ A2.n).a (csrOp A2.n (rowOf A2) v) v) ∧
    (∀ i, i < A2.n → HasDiag i (rowOf A2 i) 2) ∧
    csrOp A2.n (rowOf A2) (fun i => if i < 2 then 1 else 0) = fn (#[1, 1] : Array ℚ) ∧
    effOmega ({} : Opts ℚ) (some (3 / 2)) id = some (2 / 3) ∧
    (∀ r, (2 / 3 : ℚ) * (euc ℚ A2.n).a (csrOp A2.n (rowOf A2) (jacDinv A2.n (fun _ => 2) r)) (jacDinv A2.n (fun _ => 2) r) ≤
        2 * (euc ℚ A2.n).a (jacDinv A2.n (fun _ => 2) r) r) ∧
    (∀ r, (1 / 3 : ℚ) * (euc ℚ A2.n).a (csrOp A2.n (rowOf A2) r) r ≤ 2 * (euc ℚ A2.n).a r r) ∧
    RowsOK A2.n (rowOf A2) ∧
    (∀ v, (1 / 2 : ℚ) * (euc ℚ A2.n).en (neOp A2 v) ≤ 2 * (euc ℚ A2.n).a v (neOp A2 v)) := by
  have hn : A2.n = 2 := rfl
  refine ⟨?_, ?_, ?_, ?_, ?_, ?_, ?_, A2_rowsOK, ?_⟩
  · intro u v
    simp only [euc_apply, hn, sum_range_succ, sum_range_zero]
    rw [← hn, (A2_op u).1, (A2_op u).2, (A2_op v).1, (A2_op v).2]
    ring
  · intro v
    simp only [euc_apply, hn, sum_range_succ, sum_range_zero]
    rw [← hn, (A2_op v).1, (A2_op v).2]
    nlinarith [sq_nonneg (v 0 - v 1), sq_nonneg (v 0), sq_nonneg (v 1)]
  · intro i hi
    have : i = 0 ∨ i = 1 := by have : i < 2 := hi; omega
    rcases this with rfl | rfl
    · rw [row0]; simp [HasDiag]
    · rw [row1]; simp [HasDiag]
  · funext i
    by_cases h0 : i = 0
    · subst h0; rw [(A2_op _).1]; simp [fn, rd]; norm_num
    · by_cases h1 : i = 1
      · subst h1; rw [(A2_op _).2]; simp [fn, rd]; norm_num
      · have : ¬ i < 2 := by omega
        simp [csrOp, hn, this, fn, rd]
  · simp [effOmega]
  · intro r
    simp only [euc_apply, hn, sum_range_succ, sum_range_zero]
    rw [← hn, (A2_op _).1, (A2_op _).2]
    simp only [jacDinv, hn, LinearMap.coe_mk, AddHom.coe_mk]
    norm_num
    nlinarith [sq_nonneg (r 0 + r 1), sq_nonneg (r 0), sq_nonneg (r 1), sq_nonneg (r 0 - r 1)]
  · intro r
    simp only [euc_apply, hn, sum_range_succ, sum_range_zero]
    rw [← hn, (A2_op r).1, (A2_op r).2]
    nlinarith [sq_nonneg (r 0 + r 1), sq_nonneg (r 0), sq_nonneg (r 1), sq_nonneg (r 0 - r 1)]
  · intro v
    simp only [EForm.en, euc_apply, hn, sum_range_succ, sum_range_zero]
    rw [(A2_neOp v).1, (A2_neOp v).2]
    nlinarith [sq_nonneg (v 0 + v 1), sq_nonneg (v 0), sq_nonneg (v 1), sq_nonneg (v 0 - v 1)]

end PyamgV.C16R
