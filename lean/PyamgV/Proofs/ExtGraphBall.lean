import PyamgV.Proofs.Bfs
import PyamgV.Proofs.MisParTerm2

/-! PyamgV (C18 extension): distance-`k` neighbourhoods.  `Ball G t i j` (the recursion followed by
`t` rounds of `csr_propagate_max`: own value or a neighbour's) is "some walk of at most `t` edges
leads from `i` to `j`" (`Within`, in terms of `Bfs.Near`), and is symmetric on a symmetric graph.
Also: antisymmetry of the kernel's (weight, index) order `beats`. Core Lean only. -/
namespace PyamgV.Ext
open PyamgV PyamgV.Bfs

/-- `j` is reached from `i` by at most `t` edges: `i` itself, or via a neighbour of `i` -/
def Ball (G : Graph) : Nat → Nat → Nat → Prop
  | 0, i, j => j = i
  | t+1, i, j => Ball G t i j ∨ ∃ m ∈ G.adj i, Ball G t m j

/-- a walk of at most `k` edges leads from `i` to `j` -/
def Within (G : Graph) (k i j : Nat) : Prop := ∃ s, s ≤ k ∧ Near G i s j

theorem near_head (G : Graph) (i : Nat) : ∀ s j, Near G i (s+1) j ↔ ∃ m ∈ G.adj i, Near G m s j := by
  intro s
  induction s with
  | zero =>
    intro j
    constructor
    · rintro ⟨u, hu, hj⟩
      have : u = i := hu
      subst this
      exact ⟨j, hj, rfl⟩
    · rintro ⟨m, hm, hj⟩
      have : j = m := hj
      subst this
      exact ⟨i, rfl, hm⟩
  | succ s ih =>
    intro j
    constructor
    · rintro ⟨u, hu, hj⟩
      obtain ⟨m, hm, hmu⟩ := (ih u).1 hu
      exact ⟨m, hm, u, hmu, hj⟩
    · rintro ⟨m, hm, u, hmu, hj⟩
      exact ⟨u, (ih u).2 ⟨m, hm, hmu⟩, hj⟩

theorem ball_iff (G : Graph) : ∀ t i j, Ball G t i j ↔ Within G t i j := by
  intro t
  induction t with
  | zero =>
    intro i j
    constructor
    · intro h; exact ⟨0, Nat.le_refl _, h⟩
    · rintro ⟨s, hs, h⟩
      have : s = 0 := by omega
      subst this; exact h
  | succ t ih =>
    intro i j
    constructor
    · rintro (h | ⟨m, hm, h⟩)
      · obtain ⟨s, hs, h⟩ := (ih i j).1 h
        exact ⟨s, by omega, h⟩
      · obtain ⟨s, hs, h⟩ := (ih m j).1 h
        exact ⟨s+1, by omega, (near_head G i s j).2 ⟨m, hm, h⟩⟩
    · rintro ⟨s, hs, h⟩
      by_cases hst : s ≤ t
      · exact Or.inl ((ih i j).2 ⟨s, hst, h⟩)
      · have : s = t + 1 := by omega
        subst this
        obtain ⟨m, hm, h⟩ := (near_head G i t j).1 h
        exact Or.inr ⟨m, hm, (ih m j).2 ⟨t, Nat.le_refl _, h⟩⟩

theorem near_symm {G : Graph} (hG : GraphOK G) {i : Nat} (hi : i < G.n) :
    ∀ s j, Near G i s j → Near G j s i := by
  intro s
  induction s with
  | zero => intro j h; exact (show j = i from h).symm
  | succ s ih =>
    intro j h
    obtain ⟨u, hu, hj⟩ := h
    have hun : u < G.n := near_lt ⟨hi, hG.bound⟩ s u hu
    have hjn : j < G.n := hG.bound u hun j hj
    exact (near_head G j s i).2 ⟨u, (hG.symm u j hun hjn).1 hj, ih u hu⟩

theorem ball_self (G : Graph) : ∀ t i, Ball G t i i := by
  intro t
  induction t with
  | zero => intro i; rfl
  | succ t ih => intro i; exact Or.inl (ih i)

theorem ball_lt {G : Graph} (hG : GraphOK G) : ∀ t i j, i < G.n → Ball G t i j → j < G.n := by
  intro t
  induction t with
  | zero => intro i j hi h; rw [show j = i from h]; exact hi
  | succ t ih =>
    intro i j hi h
    rcases h with h | ⟨m, hm, h⟩
    · exact ih i j hi h
    · exact ih m j (hG.bound i hi m hm) h

theorem ball_symm {G : Graph} (hG : GraphOK G) {t i j : Nat} (hi : i < G.n) (h : Ball G t i j) :
    Ball G t j i := by
  obtain ⟨s, hs, h⟩ := (ball_iff G t i j).1 h
  exact (ball_iff G t j i).2 ⟨s, hs, near_symm hG hi s j h⟩

variable {W : Type} [LT W]

theorem beats_refl (y : Nat → W) (i : Nat) : beats y i i := Or.inr ⟨rfl, Nat.le_refl _⟩

theorem beats_antisymm (hW : WOrd W) (y : Nat → W) {i j : Nat} (h1 : beats y i j)
    (h2 : beats y j i) : i = j := by
  unfold beats at h1 h2
  rcases h1 with h1 | ⟨h1, h1'⟩
  · rcases h2 with h2 | ⟨h2, _⟩
    · exact absurd h2 (hW.asym _ _ h1)
    · rw [h2] at h1; exact absurd h1 (hW.irr _)
  · rcases h2 with h2 | ⟨_, h2'⟩
    · rw [h1] at h2; exact absurd h2 (hW.irr _)
    · omega

end PyamgV.Ext
