import PyamgV.Proofs.RsBucket3

/-! PyamgV (C13/C17): one iteration of the main loop of `rs_cf_splitting` preserves the
bucket invariant (now with one position fewer unvisited). -/
namespace PyamgV.RS

structure AllInv (n L top1 : Nat) (s : St) : Prop where
  B : BInv n L top1 s
  V : VInv n top1 s
  spsz : s.sp.size = n

structure SOK (S : Csr) (n : Nat) : Prop where
  bound : ∀ i, i < n → ∀ j ∈ S.row i, j < n

theorem foldl_incr_All (n L top1 : Nat) (hnL : n + 1 ≤ L) : ∀ (l : List Nat) (s : St),
    (∀ k ∈ l, k < n) → AllInv n L top1 s →
    AllInv n L top1 (l.foldl (incr n) s) ∧ (l.foldl (incr n) s).sp = s.sp := by
  intro l; induction l with
  | nil => intro s _ h; exact ⟨h, rfl⟩
  | cons k l ih =>
    intro s hl h
    simp only [List.foldl_cons]
    obtain ⟨b, v, e⟩ := incr_BV n L top1 s k h.B h.V (hl k (by simp)) hnL h.spsz
    have := ih (incr n s k) (fun a ha => hl a (by simp [ha])) ⟨b, v, by rw [e]; exact h.spsz⟩
    exact ⟨this.1, by rw [this.2, e]⟩

theorem foldl_decr_All (n L top1 : Nat) : ∀ (l : List Nat) (s : St),
    (∀ k ∈ l, k < n) → AllInv n L top1 s →
    AllInv n L top1 (l.foldl decr s) ∧ (l.foldl decr s).sp = s.sp := by
  intro l; induction l with
  | nil => intro s _ h; exact ⟨h, rfl⟩
  | cons k l ih =>
    intro s hl h
    simp only [List.foldl_cons]
    obtain ⟨b, v, e⟩ := decr_BV n L top1 s k h.B h.V (hl k (by simp))
    have := ih (decr s k) (fun a ha => hl a (by simp [ha])) ⟨b, v, by rw [e]; exact h.spsz⟩
    exact ⟨this.1, by rw [this.2, e]⟩

/-- changing marks without creating `U` keeps everything -/
theorem AllInv.setsp {n L top1 : Nat} {s : St} (h : AllInv n L top1 s) (sp' : Array Int)
    (hsz : sp'.size = n) (hmono : ∀ k, rdI sp' k = U → rdI s.sp k = U) :
    AllInv n L top1 { s with sp := sp' } := by
  refine ⟨⟨h.B.szl, h.B.szi, h.B.szn, h.B.szp, h.B.szc, h.B.top, h.B.p1, h.B.p2, h.B.lamL,
    h.B.blk, h.B.blk', h.B.sorted⟩, ?_, hsz⟩
  intro p hp1 hp2 hU
  exact h.V p hp1 hp2 (hmono _ hU)

theorem loop1_All (n L top1 : Nat) : ∀ (l : List Nat) (s : St), AllInv n L top1 s →
    AllInv n L top1 (l.foldl (fun s j => if rdI s.sp j = U then { s with sp := wrI s.sp j PF } else s) s) := by
  intro l; induction l with
  | nil => intro s h; exact h
  | cons j l ih =>
    intro s h
    simp only [List.foldl_cons]
    by_cases hU : rdI s.sp j = U
    · rw [if_pos hU]
      apply ih
      apply h.setsp _ (by simp [wrI, h.spsz])
      intro k hk; rw [rdI_wrI] at hk
      split at hk
      · exact absurd hk (by decide)
      · exact hk
    · rw [if_neg hU]; exact ih s h

theorem loop2_All (S : Csr) (n L top1 : Nat) (hn : S.n = n) (hS : SOK S n) (hnL : n + 1 ≤ L) :
    ∀ (l : List Nat) (s : St), (∀ j ∈ l, j < n) → AllInv n L top1 s →
    AllInv n L top1 (l.foldl (fun s j =>
      if rdI s.sp j = PF then
        let s := { s with sp := wrI s.sp j F }
        (S.row j).foldl (incr S.n) s
      else s) s) := by
  intro l; induction l with
  | nil => intro s _ h; exact h
  | cons j l ih =>
    intro s hl h
    simp only [List.foldl_cons]
    by_cases hP : rdI s.sp j = PF
    · rw [if_pos hP]
      apply ih _ (fun a ha => hl a (by simp [ha]))
      have h1 : AllInv n L top1 { s with sp := wrI s.sp j F } := by
        apply h.setsp _ (by simp [wrI, h.spsz])
        intro k hk; rw [rdI_wrI] at hk
        split at hk
        · exact absurd hk (by decide)
        · exact hk
      rw [hn]
      exact (foldl_incr_All n L top1 hnL (S.row j) _ (hS.bound j (hl j (by simp))) h1).1
    · rw [if_neg hP]; exact ih s (fun a ha => hl a (by simp [ha])) h

/-- **main-loop step**: after processing position `top` everything holds with `top` unvisited
positions left. -/
theorem step_All (S T : Csr) (n L top : Nat) (hSn : S.n = n) (hS : SOK S n) (hT : SOK T n)
    (hnL : n + 1 ≤ L) (s s' : St) (h : AllInv n L (top+1) s) (hs : step S T s top = some s') :
    AllInv n L top s' := by
  have htop := h.B.top
  have hB0 := popTop_inv n L top s h.B
  obtain ⟨hin, hn2i⟩ := h.B.p1 top (by omega)
  -- VInv for the popped state, provided the node at `top` is decided
  have hV0 : ∀ sp', (∀ k, rdI sp' k = U → rdI s.sp k = U) → rdI sp' (rdN s.i2n top) ≠ U →
      VInv n top { popTop s top with sp := sp' } := by
    intro sp' hmono hdec p hp1 hp2
    show rdI sp' (rdN s.i2n p) ≠ U
    by_cases hpt : p = top
    · rw [hpt]; exact hdec
    · intro hU; exact h.V p (by omega) hp2 (hmono _ hU)
  unfold step at hs
  simp only at hs
  split at hs
  · exact absurd hs (by simp)
  · split at hs
    · rename_i hU
      simp only [Option.some.injEq] at hs
      subst hs
      refine ⟨hB0, ?_, h.spsz⟩
      have := hV0 s.sp (fun _ hk => hk) hU
      exact this
    · rename_i hU
      simp only [Option.some.injEq] at hs
      subst hs
      have hUe : rdI s.sp (rdN s.i2n top) = U := by simpa using hU
      -- state after marking the node C
      have h1 : AllInv n L top { popTop s top with sp := wrI s.sp (rdN s.i2n top) C } := by
        refine ⟨⟨hB0.szl, hB0.szi, hB0.szn, hB0.szp, hB0.szc, hB0.top, hB0.p1, hB0.p2, hB0.lamL,
          hB0.blk, hB0.blk', hB0.sorted⟩, ?_, by simp [wrI, h.spsz]⟩
        apply hV0
        · intro k hk; rw [rdI_wrI] at hk
          split at hk
          · exact absurd hk (by decide)
          · exact hk
        · rw [rdI_wrI, if_pos ⟨rfl, by rw [h.spsz]; exact hin⟩]; decide
      have h2 := loop1_All n L top (T.row (rdN s.i2n top)) _ h1
      have h3 := loop2_All S n L top hSn hS hnL (T.row (rdN s.i2n top)) _ (hT.bound _ hin) h2
      have h4 := (foldl_decr_All n L top (S.row (rdN s.i2n top)) _ (hS.bound _ hin) h3).1
      exact h4

#print axioms step_All
end PyamgV.RS
