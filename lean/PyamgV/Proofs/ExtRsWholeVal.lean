import PyamgV.Model.ExtRsCk
import PyamgV.Proofs.RsInit

/-! PyamgV (C17/C13, extension E25): the checked model `RS.runCk` of `Model/ExtRsCk.lean` computes
exactly the executable model `RS.run` (`runCk_val`), loop by loop; and the generic rules for the
list loops of the checked model.  No Mathlib. -/
namespace PyamgV.RS
open PyamgV.Ck

/-! ### the monad, pointwise -/
@[simp] theorem bind_val {α β : Type} (x : Ck α) (f : α → Ck β) : (x >>= f).val = (f x.val).val := rfl
@[simp] theorem bind_ok {α β : Type} (x : Ck α) (f : α → Ck β) :
    (x >>= f).ok = (x.ok && (f x.val).ok) := rfl
@[simp] theorem pure_val {α : Type} (a : α) : (pure a : Ck α).val = a := rfl
@[simp] theorem pure_ok {α : Type} (a : α) : (pure a : Ck α).ok = true := rfl
@[simp] theorem rdc_val (a : Array Nat) (i : Nat) : (rdc a i).val = rdN a i := by simp [rdc]
@[simp] theorem wrc_val (a : Array Nat) (i v : Nat) : (wrc a i v).val = wrN a i v := rfl
@[simp] theorem rdcI_val (a : Array Int) (i : Nat) : (rdcI a i).val = rdI a i := by simp [rdcI]
@[simp] theorem wrcI_val (a : Array Int) (i : Nat) (v : Int) : (wrcI a i v).val = wrI a i v := rfl
@[simp] theorem subc_val (a b : Nat) : (subc a b).val = a - b := rfl
@[simp] theorem rdc_ok (a : Array Nat) (i : Nat) : (rdc a i).ok = decide (i < a.size) := rfl
@[simp] theorem wrc_ok (a : Array Nat) (i v : Nat) : (wrc a i v).ok = decide (i < a.size) := rfl
@[simp] theorem rdcI_ok (a : Array Int) (i : Nat) : (rdcI a i).ok = decide (i < a.size) := rfl
@[simp] theorem wrcI_ok (a : Array Int) (i : Nat) (v : Int) : (wrcI a i v).ok = decide (i < a.size) := rfl
@[simp] theorem subc_ok (a b : Nat) : (subc a b).ok = decide (b ≤ a) := rfl
@[simp] theorem size_wrI (a : Array Int) (i : Nat) (v : Int) : (wrI a i v).size = a.size := by simp [wrI]

theorem ite_val {α : Type} (c : Prop) [Decidable c] (x y : Ck α) :
    (if c then x else y).val = if c then x.val else y.val := by split <;> rfl

/-! ### list loops -/
theorem foldCk_val_aux {σ β : Type} (f : σ → β → Ck σ) (l : List β) : ∀ (acc : Ck σ),
    (l.foldl (fun (acc : Ck σ) x => acc >>= fun s => f s x) acc).val
      = l.foldl (fun s x => (f s x).val) acc.val := by
  induction l with
  | nil => intro acc; rfl
  | cons x l ih => intro acc; simp only [List.foldl_cons]; rw [ih]; rfl

@[simp] theorem foldCk_val {σ β : Type} (f : σ → β → Ck σ) (l : List β) (s : σ) :
    (foldCk f l s).val = l.foldl (fun s x => (f s x).val) s := by
  unfold foldCk; rw [foldCk_val_aux]; rfl

theorem foldCk_append {σ β : Type} (f : σ → β → Ck σ) (l : List β) (x : β) (s : σ) :
    foldCk f (l ++ [x]) s = (foldCk f l s >>= fun s => f s x) := by
  unfold foldCk; rw [List.foldl_append]; rfl

theorem foldCk_safe_aux {σ β : Type} (f : σ → β → Ck σ) (Inv : σ → Prop) (l : List β)
    (hstep : ∀ x ∈ l, ∀ s, Inv s → (f s x).ok = true ∧ Inv (f s x).val) : ∀ (acc : Ck σ),
    acc.ok = true → Inv acc.val →
    (l.foldl (fun (acc : Ck σ) x => acc >>= fun s => f s x) acc).ok = true ∧
    Inv (l.foldl (fun (acc : Ck σ) x => acc >>= fun s => f s x) acc).val := by
  induction l with
  | nil => intro acc h1 h2; exact ⟨h1, h2⟩
  | cons x l ih =>
    intro acc h1 h2
    simp only [List.foldl_cons]
    obtain ⟨a1, a2⟩ := hstep x (by simp) acc.val h2
    apply ih (fun y hy => hstep y (by simp [hy]))
    · show (acc.ok && (f acc.val x).ok) = true
      rw [h1, a1]; rfl
    · exact a2

/-- a loop is safe and ends in `Inv` when `Inv` holds at the start and every iteration (with the
loop variable taken from the list) is safe and keeps `Inv` -/
theorem foldCk_safe {σ β : Type} (f : σ → β → Ck σ) (Inv : σ → Prop) (l : List β) (s : σ)
    (h0 : Inv s) (hstep : ∀ x ∈ l, ∀ s, Inv s → (f s x).ok = true ∧ Inv (f s x).val) :
    (foldCk f l s).ok = true ∧ Inv (foldCk f l s).val := by
  unfold foldCk
  exact foldCk_safe_aux f Inv l hstep (pure s) rfl h0

/-- counting loops: the flag is the conjunction of the flags of the iterations at the states the
unchecked loop runs through -/
theorem foldCk_range_ok {σ : Type} (f : σ → Nat → Ck σ) (s : σ) : ∀ n,
    (∀ t, t < n → (f ((List.range t).foldl (fun s x => (f s x).val) s) t).ok = true) →
    (foldCk f (List.range n) s).ok = true := by
  intro n
  induction n with
  | zero => intro _; rfl
  | succ n ih =>
    intro h
    rw [List.range_succ, foldCk_append, bind_ok, ih (fun t ht => h t (by omega)), foldCk_val]
    rw [h n (by omega)]; rfl

/-- row loop: the value -/
theorem forRow_val {σ : Type} (G : Csr) (i : Nat) (body : σ → Nat → Ck σ) (s : σ) :
    (forRow G i body s).val = (G.row i).foldl (fun s j => (body s j).val) s := by
  unfold forRow Csr.row
  simp only [bind_val, rdc_val, foldCk_val, List.foldl_map]

/-! ### the bucket moves and one iteration of the main loop -/
theorem incrCk_val (n : Nat) (s : St) (k : Nat) : (incrCk n s k).val = incr n s k := by
  unfold incrCk incr
  simp only [bind_val, rdcI_val]
  by_cases h1 : rdI s.sp k ≠ U
  · rw [if_pos h1, if_pos h1]; rfl
  · rw [if_neg h1, if_neg h1]
    simp only [bind_val, rdc_val]
    by_cases h2 : rdN s.lam k ≥ n - 1
    · rw [if_pos h2, if_pos h2]; rfl
    · rw [if_neg h2, if_neg h2]; rfl

theorem decrCk_val (s : St) (j : Nat) : (decrCk s j).val = decr s j := by
  unfold decrCk decr
  simp only [bind_val, rdcI_val]
  by_cases h1 : rdI s.sp j ≠ U
  · rw [if_pos h1, if_pos h1]; rfl
  · rw [if_neg h1, if_neg h1]
    simp only [bind_val, rdc_val]
    by_cases h2 : rdN s.lam j = 0
    · rw [if_pos h2, if_pos h2]; rfl
    · rw [if_neg h2, if_neg h2]; rfl

theorem markCk_val (s : St) (j : Nat) :
    (markCk s j).val = if rdI s.sp j = U then { s with sp := wrI s.sp j PF } else s := by
  unfold markCk
  simp only [bind_val, rdcI_val]
  split <;> rfl

theorem bumpCk_val (S : Csr) (s : St) (j : Nat) :
    (bumpCk S s j).val = if rdI s.sp j = PF then
        (S.row j).foldl (incr S.n) { s with sp := wrI s.sp j F } else s := by
  unfold bumpCk
  simp only [bind_val, rdcI_val]
  split
  · simp only [bind_val, wrcI_val, forRow_val, incrCk_val]
  · rfl

theorem stepCk_val (S T : Csr) (s : St) (top : Nat) : (stepCk S T s top).val = step S T s top := by
  unfold stepCk step
  simp only [bind_val, rdc_val, subc_val, wrc_val]
  split
  · rfl
  · simp only [bind_val, rdcI_val]
    split
    · rfl
    · simp only [bind_val, wrcI_val, forRow_val, markCk_val, bumpCk_val, decrCk_val, pure_val]

theorem goCk_val (S T : Csr) : ∀ (fuel top : Nat) (s : St),
    (goCk S T fuel top s).val = run.go S T fuel top s := by
  intro fuel
  induction fuel with
  | zero => intro top s; rfl
  | succ fuel ih =>
    intro top s
    unfold goCk run.go
    simp only [bind_val, stepCk_val]
    cases step S T s top with
    | none => rfl
    | some s' =>
      simp only
      split
      · rfl
      · exact ih _ _

end PyamgV.RS
