import PyamgV.Proofs.ExtC09Block
import PyamgV.Proofs.ExtC05YFlag

/-! PyamgV (extension E36, property C05): **the executed block smoothers are the operators of the adjoint-pair
theorems**.

`applySmY` runs `pyBlockGaussSeidel` / `pyBlockJacobi` of `Model/ExtC09Block.lean` (the array kernels C09 compares with
relaxation.h) on the BSR copy `B` of the level matrix with the stored inverse blocks `Dinv`.  Read through `vec`:

* one block row of `block_gauss_seidel` is `x + blkQ i (b − B x)` (`bgsStep_vec`), `blkQ i` the operator that applies
  the `i`-th inverse block to the `i`-th block of the residual;
* a kernel call over a list of block rows is `x + sweepM B (rows.map blkQ) (b − B x)`; the Python driver
  (`forward` / `backward` / `symmetric`, `iterations = k`) always returns and is
  `x + powM B (sweepM B (dirL sweep steps)) k (b − B x)` with `steps = (range nb).map blkQ` -- the operator `smOpY` of
  `partnerY_adjoint` for the family `.bgs` (`executed_bgs_smoother`);
* `block_jacobi` is `x + powM B (ω • Σ_i blkQ i) k (b − B x)` (`executed_bjac_smoother`);
* `blkQ i` is symmetric when the inverse block is (`blkQ_selfadj`), so forward / backward executed sweeps are an
  adjoint pair, the symmetric sweep and block Jacobi are self-adjoint, whenever the level operator is symmetric
  (`executed_bgs_pair`, `executed_bjac_selfadj`). -/
namespace PyamgV.C05Y
open PyamgV PyamgV.K PyamgV.ExtC09 Finset

set_option linter.unusedSectionVars false

variable {R : Type} [Field R] [LinearOrder R] [IsStrictOrderedRing R] [DecidableEq R]

abbrev OpR (R : Type) [Field R] := (Nat → R) →ₗ[R] (Nat → R)

/-! ## array-level linear iterations -/

/-- `f` maps arrays of size `n` to arrays of size `n` and, read through `vec`, is `x ↦ x + Q (b − A x)` -/
def ArrLin (n : Nat) (A : OpR R) (b : Array R) (f : Array R → Array R) (Q : OpR R) : Prop :=
  ∀ x : Array R, x.size = n → (f x).size = n ∧ vec (f x) = vec x + Q (vec b - A (vec x))

theorem ArrLin.id (n : Nat) (A : OpR R) (b : Array R) : ArrLin n A b (fun x => x) 0 := by
  intro x hx; exact ⟨hx, by simp⟩

theorem ArrLin.comp {n : Nat} {A : OpR R} {b : Array R} {f g : Array R → Array R} {Q₁ Q₂ : OpR R}
    (hf : ArrLin n A b f Q₁) (hg : ArrLin n A b g Q₂) : ArrLin n A b (fun x => g (f x)) (compM A Q₁ Q₂) := by
  intro x hx
  obtain ⟨h1, h2⟩ := hf x hx
  obtain ⟨h3, h4⟩ := hg (f x) h1
  refine ⟨h3, ?_⟩
  rw [h4, h2]
  simp only [compM, LinearMap.add_apply, LinearMap.sub_apply, LinearMap.comp_apply, map_add, map_sub]
  abel

theorem ArrLin.foldl {n : Nat} {A : OpR R} {b : Array R} (step : Array R → Nat → Array R) (Q : Nat → OpR R)
    (rows : List Nat) (h : ∀ i ∈ rows, ArrLin n A b (fun x => step x i) (Q i)) :
    ArrLin n A b (fun x => rows.foldl step x) (sweepM A (rows.map Q)) := by
  induction rows with
  | nil => simpa [sweepM_nil] using ArrLin.id n A b
  | cons i rest ih =>
    have h1 := h i (by simp)
    have h2 := ih (fun j hj => h j (by simp [hj]))
    have := h1.comp h2
    rw [List.map_cons, sweepM_cons]
    exact this

theorem ArrLin.iter {n : Nat} {A : OpR R} {b : Array R} {f : Array R → Array R} {Q : OpR R}
    (hf : ArrLin n A b f Q) (k : Nat) : ArrLin n A b (K.iter f k) (powM A Q k) := by
  induction k with
  | zero =>
    intro x hx
    have := ArrLin.id n A b x hx
    simpa [powM, K.iter] using this
  | succ k ih =>
    have := hf.comp ih
    intro x hx
    rw [powM_succ']
    exact this x hx

/-! ## the operator of a BSR matrix, block operators -/

theorem blkDot_add (A : Bsr R) (js : List Nat) (u v : Nat → R) (l : Nat) :
    blkDot A js (u + v) l = blkDot A js u l + blkDot A js v l := by
  unfold blkDot
  induction js with
  | nil => simp
  | cons jj rest ih =>
    rw [List.map_cons, List.sum_cons, List.map_cons, List.sum_cons, List.map_cons, List.sum_cons, ih]
    have : ∑ m ∈ range A.bs, blkAt A jj l m * (u + v) (rdN A.bj jj * A.bs + m) =
        (∑ m ∈ range A.bs, blkAt A jj l m * u (rdN A.bj jj * A.bs + m)) +
          ∑ m ∈ range A.bs, blkAt A jj l m * v (rdN A.bj jj * A.bs + m) := by
      rw [← Finset.sum_add_distrib]
      apply Finset.sum_congr rfl
      intro m _; rw [Pi.add_apply]; ring
    rw [this]; ring

theorem blkDot_smul (A : Bsr R) (js : List Nat) (c : R) (u : Nat → R) (l : Nat) :
    blkDot A js (c • u) l = c * blkDot A js u l := by
  unfold blkDot
  induction js with
  | nil => simp
  | cons jj rest ih =>
    rw [List.map_cons, List.sum_cons, List.map_cons, List.sum_cons, ih]
    have : ∑ m ∈ range A.bs, blkAt A jj l m * (c • u) (rdN A.bj jj * A.bs + m) =
        c * ∑ m ∈ range A.bs, blkAt A jj l m * u (rdN A.bj jj * A.bs + m) := by
      rw [Finset.mul_sum]
      apply Finset.sum_congr rfl
      intro m _; rw [Pi.smul_apply, smul_eq_mul]; ring
    rw [this]; ring

/-- the linear operator of a BSR matrix (`nb` block rows of block size `bs`) -/
def bsrLin (A : Bsr R) : OpR R where
  toFun u := fun p => if p < A.nb * A.bs then rowDotB A (p / A.bs) u (p % A.bs) else 0
  map_add' u v := by
    funext p
    by_cases h : p < A.nb * A.bs <;> simp [h, rowDotB, blkDot_add]
  map_smul' c u := by
    funext p
    by_cases h : p < A.nb * A.bs <;> simp [h, rowDotB, blkDot_smul]

theorem bsrLin_apply (A : Bsr R) (u : Nat → R) (p : Nat) :
    bsrLin A u p = if p < A.nb * A.bs then rowDotB A (p / A.bs) u (p % A.bs) else 0 := rfl

/-- apply the `i`-th stored inverse block to the `i`-th block of a vector, zero elsewhere -/
def blkQ (bs : Nat) (Dinv : Array R) (i : Nat) : OpR R where
  toFun r := fun p => if p / bs = i then ∑ l ∈ range bs, dinvAt bs Dinv i (p % bs) l * r (i * bs + l) else 0
  map_add' u v := by
    funext p
    by_cases h : p / bs = i <;> simp [h, mul_add, Finset.sum_add_distrib]
  map_smul' c u := by
    funext p
    by_cases h : p / bs = i
    · simp only [h, if_true, Pi.smul_apply, smul_eq_mul, RingHom.id_apply, Finset.mul_sum]
      apply Finset.sum_congr rfl
      intro l _; ring
    · simp [h]

theorem blkQ_apply (bs : Nat) (Dinv : Array R) (i : Nat) (r : Nat → R) (p : Nat) :
    blkQ bs Dinv i r p = if p / bs = i then ∑ l ∈ range bs, dinvAt bs Dinv i (p % bs) l * r (i * bs + l) else 0 := rfl

/-- **one block row of the executed `block_gauss_seidel` is `x + blkQ i (b − B x)`** (`Dinv_i B_ii = I`) -/
theorem bgsStep_vec (A : Bsr R) (b Dinv : Array R) (i : Nat) (hbs : 0 < A.bs) (hL : LeftInv A Dinv i)
    (hi : i < A.nb) : ArrLin (A.nb * A.bs) (bsrLin A) b (fun x => bgsStep A b Dinv x i) (blkQ A.bs Dinv i) := by
  intro x hx
  refine ⟨by rw [bgsStep_size, hx], ?_⟩
  funext p
  show rd (bgsStep A b Dinv x i) p = rd x p + blkQ A.bs Dinv i (vec b - bsrLin A (vec x)) p
  rw [blkQ_apply]
  by_cases hp : p < x.size
  · by_cases hpi : p / A.bs = i
    · rw [bgsStep_splitting A b Dinv x i hbs hL p hp hpi, if_pos hpi]
      congr 1
      apply Finset.sum_congr rfl
      intro l hl
      have hl' := mem_range.1 hl
      have hlt : i * A.bs + l < A.nb * A.bs := by
        have : (i + 1) * A.bs ≤ A.nb * A.bs := Nat.mul_le_mul_right _ hi
        rw [Nat.succ_mul] at this; omega
      simp only [Pi.sub_apply, bsrLin_apply, hlt, if_true, blk_div hbs i l hl', blk_mod i l hl']
      rfl
    · rw [bgsStep_entry A b Dinv x i hbs p hp, if_neg hpi, if_neg hpi, add_zero]
  · have hne : ¬ p / A.bs = i := by
      intro h
      have := ((blk_iff hbs i p).2 h).2
      have h2 : (i + 1) * A.bs ≤ A.nb * A.bs := Nat.mul_le_mul_right _ hi
      rw [Nat.succ_mul] at h2; omega
    rw [if_neg hne, rd_of_le _ _ (by rw [bgsStep_size]; omega), rd_of_le x p (by omega)]
    simp

/-- a kernel call over a list of block rows -/
theorem blockGaussSeidel_vec (A : Bsr R) (b Dinv : Array R) (rows : List Nat) (hbs : 0 < A.bs)
    (hrows : ∀ i ∈ rows, i < A.nb ∧ LeftInv A Dinv i) :
    ArrLin (A.nb * A.bs) (bsrLin A) b (blockGaussSeidel A b Dinv rows)
      (sweepM (bsrLin A) (rows.map (blkQ A.bs Dinv))) :=
  ArrLin.foldl (bgsStep A b Dinv) (blkQ A.bs Dinv) rows
    (fun i hi => bgsStep_vec A b Dinv i hbs (hrows i hi).2 (hrows i hi).1)

/-- the steps of the family `.bgs` on the executed level: the block operators in forward order -/
def bgsSteps (A : Bsr R) (Dinv : Array R) : List (OpR R) := (List.range A.nb).map (blkQ A.bs Dinv)

/-- **the executed `block_gauss_seidel` smoother (forward, backward, symmetric; `iterations = k`) always returns and
is `x + powM B (sweepM B (dirL sweep steps)) k (b − B x)`** -/
theorem executed_bgs_smoother (A : Bsr R) (b Dinv : Array R) (k : Nat) (sw : Sweep) (hbs : 0 < A.bs)
    (hb : b.size = A.nb * A.bs) (hD : Dinv.size = A.nb * (A.bs * A.bs)) (hinv : ∀ i < A.nb, LeftInv A Dinv i)
    (x : Array R) (hx : x.size = A.nb * A.bs) :
    ∃ y, pyBlockGaussSeidel A b Dinv k sw x = some y ∧ y.size = A.nb * A.bs ∧
      vec y = vec x + powM (bsrLin A) (sweepM (bsrLin A) (dirL sw (bgsSteps A Dinv))) k (vec b - bsrLin A (vec x)) := by
  have hf : ArrLin (A.nb * A.bs) (bsrLin A) b (bgsPass A b Dinv false) (sweepM (bsrLin A) (bgsSteps A Dinv)) := by
    have := blockGaussSeidel_vec A b Dinv (List.range A.nb) hbs
      (fun i hi => ⟨List.mem_range.1 hi, hinv i (List.mem_range.1 hi)⟩)
    have e1 : bgsPass A b Dinv false = blockGaussSeidel A b Dinv (List.range A.nb) := by
      funext x; simp [K.bgsPass, K.dirRows]
    rw [e1]; exact this
  have hbk : ArrLin (A.nb * A.bs) (bsrLin A) b (bgsPass A b Dinv true) (sweepM (bsrLin A) (bgsSteps A Dinv).reverse) := by
    have := blockGaussSeidel_vec A b Dinv (List.range A.nb).reverse hbs
      (fun i hi => ⟨List.mem_range.1 (List.mem_reverse.1 hi), hinv i (List.mem_range.1 (List.mem_reverse.1 hi))⟩)
    have e1 : bgsPass A b Dinv true = blockGaussSeidel A b Dinv (List.range A.nb).reverse := by
      funext x; simp [K.bgsPass, K.dirRows]
    rw [e1, bgsSteps, ← List.map_reverse]; exact this
  unfold K.pyBlockGaussSeidel
  rw [if_neg (by simp [hx, hb, hD])]
  cases sw with
  | forward =>
    obtain ⟨h1, h2⟩ := (hf.iter k) x hx
    exact ⟨_, rfl, h1, h2⟩
  | backward =>
    obtain ⟨h1, h2⟩ := (hbk.iter k) x hx
    exact ⟨_, rfl, h1, h2⟩
  | symmetric =>
    have hs := hf.comp hbk
    rw [← sweepM_append] at hs
    obtain ⟨h1, h2⟩ := (hs.iter k) x hx
    exact ⟨_, rfl, h1, h2⟩

/-! ## symmetry of the block operators -/

/-- a sum over `range n` of a function supported on block `i` is the sum over the block -/
theorem sum_block {bs : Nat} (hbs : 0 < bs) (n i : Nat) (hin : i * bs + bs ≤ n) (g : Nat → R) :
    ∑ p ∈ range n, (if p / bs = i then g p else 0) = ∑ k ∈ range bs, g (i * bs + k) := by
  rw [Finset.range_eq_Ico, ← Finset.sum_Ico_consecutive _ (Nat.zero_le (i * bs)) (by omega : i * bs ≤ n),
    ← Finset.sum_Ico_consecutive _ (by omega : i * bs ≤ i * bs + bs) hin]
  have h1 : ∑ p ∈ Ico 0 (i * bs), (if p / bs = i then g p else 0) = 0 := by
    apply Finset.sum_eq_zero
    intro p hp
    have hp' := (Finset.mem_Ico.1 hp).2
    have : ¬ p / bs = i := fun h => by have := ((blk_iff hbs i p).2 h).1; omega
    rw [if_neg this]
  have h3 : ∑ p ∈ Ico (i * bs + bs) n, (if p / bs = i then g p else 0) = 0 := by
    apply Finset.sum_eq_zero
    intro p hp
    have hp' := (Finset.mem_Ico.1 hp).1
    have : ¬ p / bs = i := fun h => by have := ((blk_iff hbs i p).2 h).2; omega
    rw [if_neg this]
  rw [h1, h3, zero_add, add_zero, Finset.sum_Ico_eq_sum_range]
  have : i * bs + bs - i * bs = bs := by omega
  rw [this]
  apply Finset.sum_congr rfl
  intro k hk
  rw [if_pos (blk_div hbs i k (mem_range.1 hk))]

/-- **`blkQ i` is symmetric when the stored inverse block is** -/
theorem blkQ_selfadj (n bs : Nat) (Dinv : Array R) (i : Nat) (hbs : 0 < bs) (hin : i * bs + bs ≤ n)
    (hsym : ∀ k < bs, ∀ l < bs, dinvAt bs Dinv i k l = dinvAt bs Dinv i l k) :
    IsAdj (euc R n) (euc R n) (blkQ bs Dinv i) (blkQ bs Dinv i) := by
  intro u v
  simp only [euc_apply, blkQ_apply]
  have e1 : ∀ p, (if p / bs = i then ∑ l ∈ range bs, dinvAt bs Dinv i (p % bs) l * u (i * bs + l) else 0) * v p =
      if p / bs = i then (∑ l ∈ range bs, dinvAt bs Dinv i (p % bs) l * u (i * bs + l)) * v p else 0 := by
    intro p; split <;> simp
  have e2 : ∀ p, u p * (if p / bs = i then ∑ l ∈ range bs, dinvAt bs Dinv i (p % bs) l * v (i * bs + l) else 0) =
      if p / bs = i then u p * (∑ l ∈ range bs, dinvAt bs Dinv i (p % bs) l * v (i * bs + l)) else 0 := by
    intro p; split <;> simp
  simp only [e1, e2]
  rw [sum_block hbs n i hin, sum_block hbs n i hin]
  have l1 : ∀ k ∈ range bs, (∑ l ∈ range bs, dinvAt bs Dinv i ((i * bs + k) % bs) l * u (i * bs + l)) * v (i * bs + k) =
      ∑ l ∈ range bs, dinvAt bs Dinv i k l * u (i * bs + l) * v (i * bs + k) := by
    intro k hk
    rw [blk_mod i k (mem_range.1 hk), Finset.sum_mul]
  have l2 : ∀ k ∈ range bs, u (i * bs + k) * (∑ l ∈ range bs, dinvAt bs Dinv i ((i * bs + k) % bs) l * v (i * bs + l)) =
      ∑ l ∈ range bs, dinvAt bs Dinv i l k * u (i * bs + k) * v (i * bs + l) := by
    intro k hk
    rw [blk_mod i k (mem_range.1 hk), Finset.mul_sum]
    apply Finset.sum_congr rfl
    intro l hl
    rw [hsym k (mem_range.1 hk) l (mem_range.1 hl)]; ring
  rw [Finset.sum_congr rfl l1, Finset.sum_congr rfl l2, Finset.sum_comm]

/-- the inverse blocks are symmetric -/
def DinvSym (A : Bsr R) (Dinv : Array R) : Prop :=
  ∀ i < A.nb, ∀ k < A.bs, ∀ l < A.bs, dinvAt A.bs Dinv i k l = dinvAt A.bs Dinv i l k

theorem bgsSteps_selfadj (A : Bsr R) (Dinv : Array R) (hbs : 0 < A.bs) (hsym : DinvSym A Dinv) :
    ∀ Q ∈ bgsSteps A Dinv, IsAdj (euc R (A.nb * A.bs)) (euc R (A.nb * A.bs)) Q Q := by
  intro Q hQ
  obtain ⟨i, hi, rfl⟩ := List.mem_map.1 hQ
  have hi' := List.mem_range.1 hi
  apply blkQ_selfadj _ _ _ _ hbs _ (hsym i hi')
  have : (i + 1) * A.bs ≤ A.nb * A.bs := Nat.mul_le_mul_right _ hi'
  rw [Nat.succ_mul] at this; exact this

/-- **the executed forward and backward `block_gauss_seidel` smoothers are an adjoint pair, the executed symmetric
sweep is self-adjoint** (symmetric level operator, symmetric inverse blocks; any `iterations`) -/
theorem executed_bgs_pair (A : Bsr R) (Dinv : Array R) (hbs : 0 < A.bs) (hsym : DinvSym A Dinv)
    (hA : IsAdj (euc R (A.nb * A.bs)) (euc R (A.nb * A.bs)) (bsrLin A) (bsrLin A)) (k : Nat) :
    IsAdj (euc R (A.nb * A.bs)) (euc R (A.nb * A.bs))
      (powM (bsrLin A) (sweepM (bsrLin A) (dirL .forward (bgsSteps A Dinv))) k)
      (powM (bsrLin A) (sweepM (bsrLin A) (dirL .backward (bgsSteps A Dinv))) k) ∧
    IsAdj (euc R (A.nb * A.bs)) (euc R (A.nb * A.bs))
      (powM (bsrLin A) (sweepM (bsrLin A) (dirL .symmetric (bgsSteps A Dinv))) k)
      (powM (bsrLin A) (sweepM (bsrLin A) (dirL .symmetric (bgsSteps A Dinv))) k) := by
  have hst := bgsSteps_selfadj A Dinv hbs hsym
  exact ⟨IsAdj.powM hA (dirL_adj hA _ hst false (by simp) _ _ (SwP.fb false)) k,
    IsAdj.powM hA (dirL_adj hA _ hst false (by simp) _ _ (SwP.ss false)) k⟩

/-! ## block Jacobi -/

/-- the block-diagonal operator `D⁻¹`: the sum of the block operators -/
def bdQ (A : Bsr R) (Dinv : Array R) : OpR R := (bgsSteps A Dinv).sum

theorem sum_blkQ_apply (bs : Nat) (Dinv : Array R) (r : Nat → R) (p : Nat) :
    ∀ nb : Nat, (((List.range nb).map (blkQ bs Dinv)).sum) r p =
      if p / bs < nb then ∑ l ∈ range bs, dinvAt bs Dinv (p / bs) (p % bs) l * r (p / bs * bs + l) else 0 := by
  intro nb
  induction nb with
  | zero => simp
  | succ nb ih =>
    rw [List.range_succ, List.map_append, List.sum_append, LinearMap.add_apply, Pi.add_apply, ih]
    simp only [List.map_cons, List.map_nil, List.sum_cons, List.sum_nil, add_zero, blkQ_apply]
    by_cases h1 : p / bs < nb
    · have h2 : ¬ p / bs = nb := by omega
      have h3 : p / bs < nb + 1 := by omega
      simp [h1, h2, h3]
    · by_cases h2 : p / bs = nb
      · have h3 : p / bs < nb + 1 := by omega
        simp [h1, h3, h2]
      · have h3 : ¬ p / bs < nb + 1 := by omega
        simp [h1, h2, h3]

/-- **one executed `block_jacobi` kernel call over all block rows is `x + ω D⁻¹ (b − B x)`** -/
theorem blockJacobi_vec (ω : R) (A : Bsr R) (b Dinv : Array R) (hbs : 0 < A.bs)
    (hcols : ∀ i < A.nb, ∀ jj ∈ A.jjs i, rdN A.bj jj < A.nb) (hinv : ∀ i < A.nb, LeftInv A Dinv i) :
    ArrLin (A.nb * A.bs) (bsrLin A) b
      (fun x => blockJacobi ω A b Dinv (List.range A.nb) (Array.replicate x.size 0) x) (ω • bdQ A Dinv) := by
  intro x hx
  refine ⟨by rw [blockJacobi_size, hx], ?_⟩
  funext p
  show rd (blockJacobi ω A b Dinv (List.range A.nb) (Array.replicate x.size 0) x) p =
    rd x p + (ω • bdQ A Dinv) (vec b - bsrLin A (vec x)) p
  rw [LinearMap.smul_apply, Pi.smul_apply, smul_eq_mul, bdQ, bgsSteps, sum_blkQ_apply]
  have hclosed : ∀ i ∈ List.range A.nb, ∀ jj ∈ A.jjs i, rdN A.bj jj ∈ List.range A.nb :=
    fun i hi jj hjj => List.mem_range.2 (hcols i (List.mem_range.1 hi) jj hjj)
  by_cases hp : p < x.size
  · have hrow : p / A.bs < A.nb := by
      rw [hx] at hp; exact Nat.div_lt_of_lt_mul (by rwa [Nat.mul_comm] at hp)
    rw [blockJacobi_splitting ω A b Dinv _ x (List.range A.nb) hbs (by simp) hclosed
      (fun i hi => hinv i (List.mem_range.1 hi)) p hp (List.mem_range.2 hrow), if_pos hrow]
    congr 2
    apply Finset.sum_congr rfl
    intro l hl
    have hl' := mem_range.1 hl
    have hlt : p / A.bs * A.bs + l < A.nb * A.bs := by
      have : (p / A.bs + 1) * A.bs ≤ A.nb * A.bs := Nat.mul_le_mul_right _ hrow
      rw [Nat.succ_mul] at this; omega
    simp only [Pi.sub_apply, bsrLin_apply, hlt, if_true, blk_div hbs _ l hl', blk_mod _ l hl']
    rfl
  · have hrow : ¬ p / A.bs < A.nb := by
      intro h
      have h1 := Nat.lt_div_mul_add hbs (a := p)
      have h2 : (p / A.bs + 1) * A.bs ≤ A.nb * A.bs := Nat.mul_le_mul_right _ h
      rw [Nat.succ_mul] at h2; omega
    rw [if_neg hrow, rd_of_le _ _ (by rw [blockJacobi_size]; omega), rd_of_le x p (by omega)]
    simp

/-- **the executed `block_jacobi` smoother (`iterations = k`) always returns and is
`x + powM B (ω D⁻¹) k (b − B x)`** -/
theorem executed_bjac_smoother (ω : R) (A : Bsr R) (b Dinv : Array R) (k : Nat) (hbs : 0 < A.bs)
    (hb : b.size = A.nb * A.bs) (hD : Dinv.size = A.nb * (A.bs * A.bs))
    (hcols : ∀ i < A.nb, ∀ jj ∈ A.jjs i, rdN A.bj jj < A.nb) (hinv : ∀ i < A.nb, LeftInv A Dinv i)
    (x : Array R) (hx : x.size = A.nb * A.bs) :
    ∃ y, pyBlockJacobi ω A b Dinv k x = some y ∧ y.size = A.nb * A.bs ∧
      vec y = vec x + powM (bsrLin A) (ω • bdQ A Dinv) k (vec b - bsrLin A (vec x)) := by
  unfold K.pyBlockJacobi
  rw [if_neg (by simp [hx, hb, hD])]
  obtain ⟨h1, h2⟩ := ((blockJacobi_vec ω A b Dinv hbs hcols hinv).iter k) x hx
  exact ⟨_, rfl, h1, h2⟩

/-- **the executed `block_jacobi` smoother is self-adjoint** (symmetric level operator and inverse blocks) -/
theorem executed_bjac_selfadj (ω : R) (A : Bsr R) (Dinv : Array R) (hbs : 0 < A.bs) (hsym : DinvSym A Dinv)
    (hA : IsAdj (euc R (A.nb * A.bs)) (euc R (A.nb * A.bs)) (bsrLin A) (bsrLin A)) (k : Nat) :
    IsAdj (euc R (A.nb * A.bs)) (euc R (A.nb * A.bs))
      (powM (bsrLin A) (ω • bdQ A Dinv) k) (powM (bsrLin A) (ω • bdQ A Dinv) k) := by
  apply IsAdj.powM hA
  apply isAdj_smul
  have hst := bgsSteps_selfadj A Dinv hbs hsym
  unfold bdQ
  generalize bgsSteps A Dinv = L at hst
  induction L with
  | nil => simpa using IsAdj.zero (euc R (A.nb * A.bs))
  | cons Q rest ih =>
    rw [List.sum_cons]
    exact (hst Q (by simp)).add (ih (fun Q' hQ' => hst Q' (by simp [hQ'])))

end PyamgV.C05Y
