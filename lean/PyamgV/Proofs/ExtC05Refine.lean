import PyamgV.Proofs.C05Sym
import PyamgV.Proofs.C02Model
import PyamgV.Proofs.C03Lin

/-! PyamgV (C05, extension E12, part 1): the EXECUTABLE cycle model `C05.solveLvl` of
`Model/C05Cycle.lean` (arrays, CSR, the kernel models of C09, the drivers of relaxation.py) read as
functions `Nat → R` *is* the abstract recursion `cyc` of `Proofs/Cycle.lean` over the function-level
smoothers `smFn` of `Proofs/C05Sym.lean`:

* `applySm_refines`: `applySm` (Gauss–Seidel / SOR forward, backward, symmetric; Jacobi; cf/fc Jacobi;
  no smoother; any iteration counts) read through `fn` is `smFn`;
* `solveLvl_refines`: `solveLvl` (V and W) read through `fn` is `cyc` on the levels `absLvl L`;
  the coarsest solve enters through the hypothesis `hS` which `Proofs/ExtC05RefineGJ.lean` discharges
  for the Gauss–Jordan elimination `solveDense` the model runs. -/
namespace PyamgV.C05
open PyamgV

set_option linter.unusedSectionVars false
variable {R : Type} [Field R] [LinearOrder R] [IsStrictOrderedRing R] [DecidableEq R]

/-! ### the model's vector operations (identical to the ones of the C02 model) -/

theorem spmv_eq (M : K.Csr R) (x : Array R) : spmv M x = C02.spmv M x := rfl
theorem vadd_eq (x y : Array R) : vadd x y = C02.vadd x y := rfl
theorem vsub_eq (x y : Array R) : vsub x y = C02.vsub x y := rfl
theorem zeros_eq (n : Nat) : (zeros n : Array R) = C02.zeros n := rfl

/-! ### smoothers -/

/-- the F-points `applySm` hands to `cf_jacobi` / `fc_jacobi` -/
def fpts (A : K.Csr R) (C : List Nat) : List Nat :=
  (List.range A.n).filter (fun i => !C.contains i)

theorem fpts_lt (A : K.Csr R) (C : List Nat) : ∀ i ∈ fpts A C, i < A.n := by
  intro i hi
  exact List.mem_range.1 (List.mem_filter.1 hi).1

theorem fpts_nodup (A : K.Csr R) (C : List Nat) : (fpts A C).Nodup :=
  List.Nodup.filter _ List.nodup_range

theorem sorSweepFn_one (rows : Nat → Row R) (b : Nat → R) (order : List Nat) (x : Nat → R) :
    sorSweepFn (1 : R) rows b order x = gsSweepFn rows b order x := by
  unfold sorSweepFn gsSweepFn
  congr 1
  funext x i
  rw [sorRow_eq]
  simp

/-- one directional pass of `relaxation.gauss_seidel` (plain kernel iff `ω = 1`) is an SOR sweep -/
theorem gsPass_refines (ω : R) (A : K.Csr R) (b : Array R) (bw : Bool) (x : Array R)
    (hx : x.size = A.n) :
    (K.gsPass ω A b bw x).size = A.n ∧
    fn (K.gsPass ω A b bw x) = sorSweepFn ω (rowOf A) (fn b) (K.dirRows A.n bw) (fn x) := by
  have hrows : ∀ i ∈ K.dirRows A.n bw, i < x.size := by
    intro i hi
    rw [hx]
    unfold K.dirRows at hi
    split at hi
    · simpa using hi
    · simpa using hi
  unfold K.gsPass
  by_cases hω : ω = 1
  · rw [if_pos hω]
    obtain ⟨h1, h2⟩ := gaussSeidel_refines A b _ x hrows
    refine ⟨by rw [h1, hx], ?_⟩
    rw [h2, hω, sorSweepFn_one]
  · rw [if_neg hω]
    obtain ⟨h1, h2⟩ := sorGaussSeidel_refines ω A b _ x hrows
    exact ⟨by rw [h1, hx], h2⟩

theorem dirRows_false (n : Nat) : K.dirRows n false = List.range n := by simp [K.dirRows]
theorem dirRows_true (n : Nat) : K.dirRows n true = (List.range n).reverse := by simp [K.dirRows]

theorem jacSweepFn_eq (ω : R) (rows : Nat → Row R) (b : Nat → R) (idx : List Nat) (x : Nat → R) :
    jacSweepFn ω rows b idx x = PyamgV.jacSweepFn ω rows b x idx x := rfl

/-- `jacobi_indexed` (frozen copy = the whole of `x`) -/
theorem jacobiIndexed_refines (ω : R) (A : K.Csr R) (b : Array R) (idx : List Nat) (x : Array R)
    (hidx : ∀ i ∈ idx, i < x.size) :
    (K.jacobiIndexed ω A b idx x).size = x.size ∧
    fn (K.jacobiIndexed ω A b idx x) = jacSweepFn ω (rowOf A) (fn b) idx (fn x) := by
  rw [jacSweepFn_eq]
  exact jacLoop_refines ω A b x idx x hidx

/-- **the smoothers of the executable cycle model are the function-level smoothers `smFn`** -/
theorem applySm_refines (ofRat : Rat → R) (hof : ∀ q, ofRat q = (q : R)) (s : Sm) (A : K.Csr R)
    (C : List Nat) (hC : ∀ i ∈ C, i < A.n) (x b : Array R) (hx : x.size = A.n) :
    (applySm ofRat s A C x b).size = A.n ∧
    fn (applySm ofRat s A C x b) = smFn (rowOf A) A.n C (fpts A C) s (fn x) (fn b) := by
  cases s with
  | none => exact ⟨hx, rfl⟩
  | gs ω sw it =>
    show (K.pyGaussSeidel (ofRat ω) A b it sw x).size = A.n ∧
      fn (K.pyGaussSeidel (ofRat ω) A b it sw x) = _
    rw [hof]
    cases sw with
    | forward =>
      exact kiter_refines (K.gsPass (ω : R) A b false) (gsFn (ω : R) (rowOf A) A.n .forward) (fn b) A.n
        (fun x hx => by
          have := gsPass_refines (ω : R) A b false x hx
          rw [dirRows_false] at this
          exact this) it x hx
    | backward =>
      exact kiter_refines (K.gsPass (ω : R) A b true) (gsFn (ω : R) (rowOf A) A.n .backward) (fn b) A.n
        (fun x hx => by
          have := gsPass_refines (ω : R) A b true x hx
          rw [dirRows_true] at this
          exact this) it x hx
    | symmetric =>
      exact kiter_refines (fun x => K.gsPass (ω : R) A b true (K.gsPass (ω : R) A b false x))
        (gsFn (ω : R) (rowOf A) A.n .symmetric) (fn b) A.n
        (fun x hx => by
          obtain ⟨h1, h2⟩ := gsPass_refines (ω : R) A b false x hx
          obtain ⟨h3, h4⟩ := gsPass_refines (ω : R) A b true _ h1
          rw [dirRows_false] at h2
          rw [dirRows_true, h2] at h4
          exact ⟨h3, h4⟩) it x hx
  | jac ω it =>
    show (K.pyJacobi (ofRat ω) A b it x).size = A.n ∧ fn (K.pyJacobi (ofRat ω) A b it x) = _
    rw [hof]
    exact kiter_refines (fun x => K.jacobi (ω : R) A b (List.range A.n) (Array.replicate x.size 0) x)
      (fun x b => jacSweepFn (ω : R) (rowOf A) b (List.range A.n) x) (fn b) A.n
      (fun x hx => jacobi_refines (ω : R) A b x A.n hx) it x hx
  | cfjac cFirst ω it fi ci =>
    show (K.pyCFJacobi cFirst (ofRat ω) A b C (fpts A C) it fi ci x).size = A.n ∧
      fn (K.pyCFJacobi cFirst (ofRat ω) A b C (fpts A C) it fi ci x) = _
    rw [hof]
    have hstep : ∀ (idx : List Nat), (∀ i ∈ idx, i < A.n) → ∀ x : Array R, x.size = A.n →
        (K.jacobiIndexed (ω : R) A b idx x).size = A.n ∧
        fn (K.jacobiIndexed (ω : R) A b idx x) = jacSweepFn (ω : R) (rowOf A) (fn b) idx (fn x) := by
      intro idx hidx x hx
      obtain ⟨h1, h2⟩ := jacobiIndexed_refines (ω : R) A b idx x (fun i hi => by rw [hx]; exact hidx i hi)
      exact ⟨by rw [h1, hx], h2⟩
    have hcs := kiter_refines (K.jacobiIndexed (ω : R) A b C)
      (fun x b => jacSweepFn (ω : R) (rowOf A) b C x) (fn b) A.n (hstep C hC) ci
    have hfs := kiter_refines (K.jacobiIndexed (ω : R) A b (fpts A C))
      (fun x b => jacSweepFn (ω : R) (rowOf A) b (fpts A C) x) (fn b) A.n (hstep _ (fpts_lt A C)) fi
    unfold K.pyCFJacobi
    cases cFirst with
    | true =>
      exact kiter_refines _
        (fun x b => PyamgV.iter (fun x b => jacSweepFn (ω : R) (rowOf A) b (fpts A C) x) b fi
          (PyamgV.iter (fun x b => jacSweepFn (ω : R) (rowOf A) b C x) b ci x)) (fn b) A.n
        (fun x hx => by
          obtain ⟨h1, h2⟩ := hcs x hx
          obtain ⟨h3, h4⟩ := hfs _ h1
          simp only [if_true]
          exact ⟨h3, by rw [h4, h2]⟩) it x hx
    | false =>
      exact kiter_refines _
        (fun x b => PyamgV.iter (fun x b => jacSweepFn (ω : R) (rowOf A) b C x) b ci
          (PyamgV.iter (fun x b => jacSweepFn (ω : R) (rowOf A) b (fpts A C) x) b fi x)) (fn b) A.n
        (fun x hx => by
          obtain ⟨h1, h2⟩ := hfs x hx
          obtain ⟨h3, h4⟩ := hcs _ h1
          simp only [Bool.false_eq_true, if_false]
          exact ⟨h3, by rw [h4, h2]⟩) it x hx

/-! ### the cycle -/

/-- a level of the executable model as a level of the abstract recursion, with the linear parts
`smOp` of its smoothers (diagonal = the stored diagonal `diagFn`) -/
def absLvl (L : Lvl R) : LinLevel R (Nat → R) where
  A := csrOp L.A.n (rowOf L.A)
  P := csrOp L.P.n (rowOf L.P)
  R := csrOp L.R.n (rowOf L.R)
  pre := smFn (rowOf L.A) L.A.n L.C (fpts L.A L.C) L.pre
  post := smFn (rowOf L.A) L.A.n L.C (fpts L.A L.C) L.post
  Qpre := smOp (csrOp L.A.n (rowOf L.A)) (diagFn L.A) L.A.n L.C (fpts L.A L.C) L.pre
  Qpost := smOp (csrOp L.A.n (rowOf L.A)) (diagFn L.A) L.A.n L.C (fpts L.A L.C) L.post

def ctype : Cyc → CType
  | .V => .V
  | .W => .W

/-- shapes: level sizes chain down to the size `nc` of the coarsest problem; the C-points of a level
are rows of that level -/
def Shaped (nc : Nat) : Nat → List (Lvl R) → Prop
  | n, [] => n = nc
  | n, L :: rest => L.A.n = n ∧ L.P.n = n ∧ (∀ i ∈ L.C, i < n) ∧ Shaped nc L.R.n rest

/-- the coarse-grid part of `__solve` as the model runs it -/
def coarseStep (ofRat : Rat → R) (Ac : K.Csr R) (c : Cyc) (rest : List (Lvl R)) (cb : Array R) :
    Option (Array R) :=
  match rest, c with
  | [], _ => solveLvl ofRat Ac c rest (zeros cb.size) cb
  | _ :: _, .V => solveLvl ofRat Ac .V rest (zeros cb.size) cb
  | _ :: _, .W => (solveLvl ofRat Ac .W rest (zeros cb.size) cb).bind
      (fun c1 => solveLvl ofRat Ac .W rest c1 cb)

theorem solveLvl_cons (ofRat : Rat → R) (Ac : K.Csr R) (c : Cyc) (L : Lvl R) (rest : List (Lvl R))
    (x b : Array R) :
    solveLvl ofRat Ac c (L :: rest) x b =
      (coarseStep ofRat Ac c rest
        (spmv L.R (vsub b (spmv L.A (applySm ofRat L.pre L.A L.C x b))))).bind
      (fun cx => some (applySm ofRat L.post L.A L.C
        (vadd (applySm ofRat L.pre L.A L.C x b) (spmv L.P cx)) b)) := by
  cases rest with
  | nil => cases c <;> rfl
  | cons L' rest' =>
    cases c with
    | V => rfl
    | W =>
      rw [solveLvl]
      simp only [coarseStep]
      cases solveLvl ofRat Ac Cyc.W (L' :: rest')
        (zeros (spmv L.R (vsub b (spmv L.A (applySm ofRat L.pre L.A L.C x b)))).size)
        (spmv L.R (vsub b (spmv L.A (applySm ofRat L.pre L.A L.C x b)))) <;> rfl

/-- **the executable cycle model of C05, read as functions, is the abstract recursion `cyc`** (V and
W cycles, any depth), for a coarsest solve that acts as the map `S` -/
theorem solveLvl_refines (ofRat : Rat → R) (hof : ∀ q, ofRat q = (q : R)) (Ac : K.Csr R)
    (S : (Nat → R) → (Nat → R))
    (hS : ∀ b y : Array R, b.size = Ac.n → solveDense Ac.n (denseOfCsr Ac Ac.n) b = some y →
      y.size = Ac.n ∧ fn y = S (fn b)) :
    ∀ (Ls : List (Lvl R)) (c : Cyc) (n : Nat) (x b y : Array R),
      Shaped Ac.n n Ls → x.size = n → b.size = n → solveLvl ofRat Ac c Ls x b = some y →
      y.size = n ∧
      fn y = cyc S (ctype c) (Ls.map (fun L => (absLvl L).toLevel)) (fn x) (fn b) := by
  intro Ls
  induction Ls with
  | nil =>
    intro c n x b y hs hx hb h
    have hn : n = Ac.n := hs
    subst hn
    have h' : solveDense Ac.n (denseOfCsr Ac Ac.n) b = some y := by
      cases c <;> exact h
    obtain ⟨h1, h2⟩ := hS b y hb h'
    exact ⟨h1, by simpa [cyc] using h2⟩
  | cons L rest ih =>
    intro c n x b y hs hx hb h
    obtain ⟨hAn, hPn, hC, hrest⟩ := hs
    rw [solveLvl_cons] at h
    obtain ⟨hx1n, hx1⟩ := applySm_refines ofRat hof L.pre L.A L.C (by rw [hAn]; exact hC) x b
      (by rw [hx, hAn])
    set x1 := applySm ofRat L.pre L.A L.C x b with hx1def
    set residual := vsub b (spmv L.A x1) with hres
    have hresf : fn residual = fn b - csrOp L.A.n (rowOf L.A) (fn x1) := by
      rw [hres, vsub_eq, spmv_eq, vsub_refines _ _ (by rw [spmv_size, hb, hAn]), spmv_refines]
    set cb := spmv L.R residual with hcb
    have hcbs : cb.size = L.R.n := by rw [hcb, spmv_eq]; exact spmv_size _ _
    have hcbf : fn cb = csrOp L.R.n (rowOf L.R) (fn residual) := by
      rw [hcb, spmv_eq]; exact spmv_refines _ _
    have hz : (zeros cb.size : Array R).size = L.R.n := by rw [zeros_eq, zeros_size, hcbs]
    have hzf : fn (zeros cb.size : Array R) = 0 := by rw [zeros_eq]; exact zeros_refines _
    cases hco : coarseStep ofRat Ac c rest cb with
    | none => rw [hco] at h; exact absurd h (by simp)
    | some cx =>
      rw [hco] at h
      have hy : y = applySm ofRat L.post L.A L.C (vadd x1 (spmv L.P cx)) b := by
        simpa using h.symm
      have hcoarse : cx.size = L.R.n ∧
          fn cx = (match ctype c with
            | .V => cyc S .V (rest.map (fun L => (absLvl L).toLevel)) 0 (fn cb)
            | .W => cyc S .W (rest.map (fun L => (absLvl L).toLevel))
                      (cyc S .W (rest.map (fun L => (absLvl L).toLevel)) 0 (fn cb)) (fn cb)
            | .F k => iter (cyc S .V (rest.map (fun L => (absLvl L).toLevel))) (fn cb) k
                        (cyc S (.F k) (rest.map (fun L => (absLvl L).toLevel)) 0 (fn cb))) := by
        cases rest with
        | nil =>
          have h0 : solveLvl ofRat Ac c [] (zeros cb.size) cb = some cx := by
            cases c <;> exact hco
          obtain ⟨h1, h2⟩ := ih c L.R.n _ cb cx hrest hz hcbs h0
          refine ⟨h1, ?_⟩
          rw [h2]
          cases c <;> simp only [ctype, List.map_nil, cyc]
        | cons L' rest' =>
          cases c with
          | V =>
            have h0 : solveLvl ofRat Ac .V (L' :: rest') (zeros cb.size) cb = some cx := hco
            obtain ⟨h1, h2⟩ := ih .V L.R.n _ cb cx hrest hz hcbs h0
            refine ⟨h1, ?_⟩
            rw [h2, hzf]; rfl
          | W =>
            have h0 : (solveLvl ofRat Ac .W (L' :: rest') (zeros cb.size) cb).bind
                (fun c1 => solveLvl ofRat Ac .W (L' :: rest') c1 cb) = some cx := hco
            cases hc1 : solveLvl ofRat Ac .W (L' :: rest') (zeros cb.size) cb with
            | none => rw [hc1] at h0; exact absurd h0 (by simp)
            | some c1 =>
              rw [hc1] at h0
              have h0' : solveLvl ofRat Ac .W (L' :: rest') c1 cb = some cx := by simpa using h0
              obtain ⟨h1, h2⟩ := ih .W L.R.n _ cb c1 hrest hz hcbs hc1
              obtain ⟨h3, h4⟩ := ih .W L.R.n c1 cb cx hrest h1 hcbs h0'
              refine ⟨h3, ?_⟩
              rw [h4, h2, hzf]; rfl
      obtain ⟨hcxs, hcxf⟩ := hcoarse
      set x2 := vadd x1 (spmv L.P cx) with hx2
      have hx2s : x2.size = L.A.n := by rw [hx2, vadd_eq, vadd_size, hx1n]
      have hx2f : fn x2 = fn x1 + csrOp L.P.n (rowOf L.P) (fn cx) := by
        rw [hx2, vadd_eq, spmv_eq, vadd_refines _ _ (by rw [spmv_size, hx1n, hPn, hAn]), spmv_refines]
      obtain ⟨hps, hpf⟩ := applySm_refines ofRat hof L.post L.A L.C (by rw [hAn]; exact hC) x2 b hx2s
      rw [hy]
      refine ⟨by rw [hps, hAn], ?_⟩
      rw [hpf, hx2f, hcxf, hx1, hcbf, hresf, hx1]
      cases c <;> simp only [ctype, List.map_cons, cyc, absLvl]

#print axioms applySm_refines
#print axioms solveLvl_refines
end PyamgV.C05
