import PyamgV.Model.C10
import Mathlib.Algebra.BigOperators.Ring.Finset
import Mathlib.Algebra.BigOperators.Fin
import Mathlib.Algebra.BigOperators.Field
import Mathlib.Algebra.Field.Basic
import Mathlib.Tactic.FieldSimp
import Mathlib.Tactic.Ring

/-! PyamgV (extension E24, property C10): the executable Gauss-Jordan inverse `C10M.Mat.inv` (used by the
dense projection `projectDense`, hence by every energy-minimisation model) is exact:
`Mat.inv M = some Z` implies `Z·M = 1` entry by entry, over every field.

Invariant of the elimination of `[M | 1]` after `c` columns: every row `[l | r]` satisfies `r·M = l`
(`Rel`, preserved by row operations because it is linear in the row), and the first `c` columns of the left
block are unit vectors. -/
namespace PyamgV.C10b
open PyamgV PyamgV.C10M
set_option linter.unusedSectionVars false

variable {K : Type} [Field K] [DecidableEq K]

/-- one column of the elimination (`none`: no pivot) -/
def gjStep (n : Nat) (st : Option (Mat K)) (c : Nat) : Option (Mat K) :=
  match st with
  | none => none
  | some A =>
    match (List.range' c (n - c)).find? (fun r => A.get r c ≠ 0) with
    | none => none
    | some p =>
      let rowp := A.getD p #[]
      let rowc := A.getD c #[]
      let A : Mat K := (A.setIfInBounds p rowc).setIfInBounds c rowp
      let piv := A.get c c
      let rc := (A.getD c #[]).map (fun v => v / piv)
      let A : Mat K := A.setIfInBounds c rc
      some ((Array.range n).map (fun r =>
        if r = c then rc else
          let f := A.get r c
          (Array.range (2 * n)).map (fun j => A.get r j - f * rc.getD j 0)))

theorem inv_eq (M : Mat K) :
    Mat.inv M = ((List.range M.rows).foldl (gjStep M.rows)
      (some (Mat.ofFn M.rows (2 * M.rows) (fun i j => if j < M.rows then M.get i j else if j - M.rows = i then 1 else 0)))).map
      (fun A => Mat.ofFn M.rows M.rows (fun i j => A.get i (M.rows + j))) := rfl

/-! ### array bookkeeping -/

theorem ofFn_size' (r c : Nat) (f : Nat → Nat → K) : (Mat.ofFn r c f).size = r := by simp [Mat.ofFn]

theorem ofFn_getD' (r c : Nat) (f : Nat → Nat → K) (i : Nat) (hi : i < r) :
    (Mat.ofFn r c f).getD i #[] = (Array.range c).map fun j => f i j := by
  simp [Mat.ofFn, Array.getD_eq_getD_getElem?, hi]

theorem ofFn_get' (r c : Nat) (f : Nat → Nat → K) (i j : Nat) (hi : i < r) (hj : j < c) :
    (Mat.ofFn r c f).get i j = f i j := by
  unfold Mat.get
  rw [ofFn_getD' r c f i hi]
  simp [Array.getD_eq_getD_getElem?, hj]

theorem range_map_row (n : Nat) (g : Nat → Array K) (i : Nat) (hi : i < n) :
    ((Array.range n).map g).getD i #[] = g i := by
  simp [Array.getD_eq_getD_getElem?, hi]

theorem range_map_val (m : Nat) (g : Nat → K) (j : Nat) (hj : j < m) :
    ((Array.range m).map g).getD j 0 = g j := by
  simp [Array.getD_eq_getD_getElem?, hj]

theorem map_val (row : Array K) (f : K → K) (j : Nat) (hj : j < row.size) :
    (row.map f).getD j 0 = f (row.getD j 0) := by
  simp [Array.getD_eq_getD_getElem?, hj]

theorem setRow_getD (A : Mat K) (i i' : Nat) (row : Array K) :
    (A.setIfInBounds i row).getD i' #[] = if i = i' ∧ i' < A.size then row else A.getD i' #[] := by
  simp only [Array.getD_eq_getD_getElem?, Array.getElem?_setIfInBounds]
  by_cases e : i = i'
  · subst e
    by_cases hs : i < A.size
    · simp [hs]
    · simp [hs]
  · simp [e]

/-- `n` rows of length `w` -/
def Shaped (n w : Nat) (A : Mat K) : Prop := A.size = n ∧ ∀ i, i < n → (A.getD i #[]).size = w

/-- the rows of `[l | r]` satisfy `r·M = l` -/
def Rel (n : Nat) (M A : Mat K) : Prop :=
  ∀ i j, i < n → j < n → ∑ k ∈ Finset.range n, A.get i (n + k) * M.get k j = A.get i j

/-- the first `c` columns are unit vectors -/
def IdCols (n c : Nat) (A : Mat K) : Prop :=
  ∀ c' i, c' < c → i < n → A.get i c' = if i = c' then 1 else 0

/-- the row the swap puts at position `r` -/
def sw (c p r : Nat) : Nat := if r = c then p else if r = p then c else r

/-- entries after one elimination step -/
theorem gjStep_get (n : Nat) (A : Mat K) (c p : Nat) (hA : Shaped n (2 * n) A) (hc : c < n) (hp : p < n) :
    let A1 : Mat K := (A.setIfInBounds p (A.getD c #[])).setIfInBounds c (A.getD p #[])
    let rc := (A1.getD c #[]).map (fun v => v / A1.get c c)
    let A2 : Mat K := A1.setIfInBounds c rc
    let A' : Mat K := (Array.range n).map (fun r =>
        if r = c then rc else (Array.range (2 * n)).map (fun j => A2.get r j - A2.get r c * rc.getD j 0))
    Shaped n (2 * n) A' ∧
    ∀ r j, r < n → j < 2 * n →
      A'.get r j = if r = c then A.get p j / A.get p c
        else A.get (sw c p r) j - A.get (sw c p r) c * (A.get p j / A.get p c) := by
  intro A1 rc A2 A'
  obtain ⟨hs, hrow⟩ := hA
  have hA1row : ∀ r, r < n → A1.getD r #[] = A.getD (sw c p r) #[] := by
    intro r hr
    show ((A.setIfInBounds p (A.getD c #[])).setIfInBounds c (A.getD p #[])).getD r #[] = _
    rw [setRow_getD, Array.size_setIfInBounds, setRow_getD]
    unfold sw
    by_cases e1 : r = c
    · subst e1
      rw [if_pos ⟨rfl, by rw [hs]; exact hr⟩, if_pos rfl]
    · rw [if_neg (fun e => e1 e.1.symm), if_neg e1]
      by_cases e2 : r = p
      · subst e2
        rw [if_pos ⟨rfl, by rw [hs]; exact hr⟩, if_pos rfl]
      · rw [if_neg (fun e => e2 e.1.symm), if_neg e2]
  have hA1get : ∀ r j, r < n → A1.get r j = A.get (sw c p r) j := by
    intro r j hr
    unfold Mat.get
    rw [hA1row r hr]
  have hswc : sw c p c = p := by unfold sw; rw [if_pos rfl]
  have hpiv : A1.get c c = A.get p c := by rw [hA1get c c hc, hswc]
  have hA1size : A1.size = n := by
    show ((A.setIfInBounds p (A.getD c #[])).setIfInBounds c (A.getD p #[])).size = n
    rw [Array.size_setIfInBounds, Array.size_setIfInBounds, hs]
  have hrcsize : rc.size = 2 * n := by
    show ((A1.getD c #[]).map _).size = _
    rw [Array.size_map, hA1row c hc, hswc, hrow p hp]
  have hrc : ∀ j, j < 2 * n → rc.getD j 0 = A.get p j / A.get p c := by
    intro j hj
    show ((A1.getD c #[]).map (fun v => v / A1.get c c)).getD j 0 = _
    rw [map_val _ _ j (by rw [hA1row c hc, hswc, hrow p hp]; exact hj), hpiv, hA1row c hc, hswc]
    rfl
  have hA2get : ∀ r j, r < n → r ≠ c → A2.get r j = A.get (sw c p r) j := by
    intro r j hr hne
    show (Mat.get (A1.setIfInBounds c rc) r j) = _
    unfold Mat.get
    rw [setRow_getD, if_neg (fun e => hne e.1.symm)]
    exact hA1get r j hr
  have hA'row : ∀ r, r < n → A'.getD r #[] =
      if r = c then rc else (Array.range (2 * n)).map (fun j => A2.get r j - A2.get r c * rc.getD j 0) :=
    fun r hr => range_map_row n _ r hr
  refine ⟨⟨by show ((Array.range n).map _).size = n; simp, ?_⟩, ?_⟩
  · intro r hr
    rw [hA'row r hr]
    by_cases e : r = c
    · rw [if_pos e]; exact hrcsize
    · rw [if_neg e]; simp
  · intro r j hr hj
    unfold Mat.get
    rw [hA'row r hr]
    by_cases e : r = c
    · rw [if_pos e, if_pos e]; exact hrc j hj
    · rw [if_neg e, if_neg e, range_map_val _ _ j hj, hrc j hj, hA2get r j hr e, hA2get r c hr e]
      rfl

theorem sumL_range_sum (f : Nat → K) (n : Nat) :
    sumL ((List.range n).map f) = ∑ b ∈ Finset.range n, f b := by
  unfold sumL
  have : ∀ (l : List K) (x : K), l.foldl (· + ·) x = x + l.sum := by
    intro l
    induction l with
    | nil => intro x; simp
    | cons y l ih => intro x; rw [List.foldl_cons, ih, List.sum_cons, add_assoc]
  rw [this _ 0, zero_add]
  induction n with
  | zero => simp
  | succ n ih => rw [List.range_succ, List.map_append, List.sum_append, ih, Finset.sum_range_succ]; simp

theorem sw_lt (n c p r : Nat) (hc : c < n) (hp : p < n) (hr : r < n) : sw c p r < n := by
  unfold sw; split_ifs <;> assumption

/-- one step keeps the invariant and extends the identity block by one column -/
theorem gjStep_inv (n : Nat) (M A A' : Mat K) (c : Nat) (hc : c < n) (hA : Shaped n (2 * n) A)
    (hR : Rel n M A) (hI : IdCols n c A) (h : gjStep n (some A) c = some A') :
    Shaped n (2 * n) A' ∧ Rel n M A' ∧ IdCols n (c + 1) A' := by
  unfold gjStep at h
  dsimp only at h
  cases hf : (List.range' c (n - c)).find? (fun r => A.get r c ≠ 0) with
  | none => rw [hf] at h; cases h
  | some p =>
    rw [hf] at h
    dsimp only at h
    have hpmem := List.mem_of_find?_eq_some hf
    have hpne : A.get p c ≠ 0 := by simpa using List.find?_some hf
    rw [List.mem_range'_1] at hpmem
    have hp : p < n := by omega
    have hcp : c ≤ p := hpmem.1
    obtain ⟨hsh, hget⟩ := gjStep_get n A c p hA hc hp
    simp only [Option.some.injEq] at h
    rw [h] at hsh hget
    refine ⟨hsh, ?_, ?_⟩
    · -- Rel
      intro i j hi hj
      have hterm : ∀ k, k ∈ Finset.range n → A'.get i (n + k) * M.get k j =
          if i = c then (A.get p (n + k) * M.get k j) / A.get p c
          else A.get (sw c p i) (n + k) * M.get k j -
            A.get (sw c p i) c * ((A.get p (n + k) * M.get k j) / A.get p c) := by
        intro k hk
        rw [Finset.mem_range] at hk
        rw [hget i (n + k) hi (by omega)]
        by_cases e : i = c
        · rw [if_pos e, if_pos e]; ring
        · rw [if_neg e, if_neg e]; ring
      rw [Finset.sum_congr rfl hterm, hget i j hi (by omega)]
      by_cases e : i = c
      · simp only [if_pos e]
        rw [← Finset.sum_div, hR p j hp hj]
      · simp only [if_neg e]
        rw [Finset.sum_sub_distrib, ← Finset.mul_sum, ← Finset.sum_div, hR p j hp hj,
          hR (sw c p i) j (sw_lt n c p i hc hp hi) hj]
    · -- identity columns
      intro c' i hc' hi
      rw [hget i c' hi (by omega)]
      rcases Nat.lt_or_ge c' c with hlt | hge
      · -- an earlier column: row p has a zero there
        have hp0 : A.get p c' = 0 := by
          rw [hI c' p hlt hp, if_neg (by omega)]
        by_cases e : i = c
        · rw [if_pos e, hp0, zero_div, if_neg (by omega)]
        · rw [if_neg e, hp0, zero_div, mul_zero, sub_zero, hI c' (sw c p i) hlt (sw_lt n c p i hc hp hi)]
          unfold sw
          rw [if_neg e]
          by_cases e2 : i = p
          · rw [if_pos e2, if_neg (by omega), if_neg (by omega)]
          · rw [if_neg e2]
      · -- the new column
        have hcc : c' = c := by omega
        subst hcc
        by_cases e : i = c'
        · rw [if_pos e, if_pos e, div_self hpne]
        · rw [if_neg e, if_neg e, div_self hpne, mul_one, sub_self]

theorem gjFold_inv (n : Nat) (M : Mat K) : ∀ (c : Nat) (A0 A' : Mat K), c ≤ n → Shaped n (2 * n) A0 → Rel n M A0 →
    IdCols n 0 A0 → (List.range c).foldl (gjStep n) (some A0) = some A' →
    Shaped n (2 * n) A' ∧ Rel n M A' ∧ IdCols n c A' := by
  intro c
  induction c with
  | zero =>
    intro A0 A' _ h1 h2 h3 h
    simp only [List.range_zero, List.foldl_nil, Option.some.injEq] at h
    rw [← h]; exact ⟨h1, h2, h3⟩
  | succ c ih =>
    intro A0 A' hc h1 h2 h3 h
    rw [List.range_succ, List.foldl_append, List.foldl_cons, List.foldl_nil] at h
    cases hprev : (List.range c).foldl (gjStep n) (some A0) with
    | none => rw [hprev] at h; simp [gjStep] at h
    | some A1 =>
      rw [hprev] at h
      obtain ⟨i1, i2, i3⟩ := ih A0 A1 (by omega) h1 h2 h3 hprev
      exact gjStep_inv n M A1 A' c (by omega) i1 i2 i3 h

/-- **the executable inverse is exact**: `Mat.inv M = some Z` implies `Z·M = 1`, entry by entry with the
executable sum -/
theorem inv_leftInv (M Z : Mat K) (h : Mat.inv M = some Z) :
    ∀ a k, a < M.rows → k < M.rows →
      sumL ((List.range M.rows).map fun b => Z.get a b * M.get b k) = if a = k then 1 else 0 := by
  rw [inv_eq] at h
  generalize hn : M.rows = n at h ⊢
  cases hfold : (List.range n).foldl (gjStep n)
      (some (Mat.ofFn n (2 * n) (fun i j => if j < n then M.get i j else if j - n = i then (1 : K) else 0))) with
  | none => rw [hfold] at h; cases h
  | some A =>
    rw [hfold] at h
    simp only [Option.map_some, Option.some.injEq] at h
    have h0s : Shaped n (2 * n) (Mat.ofFn n (2 * n) (fun i j => if j < n then M.get i j else if j - n = i then (1 : K) else 0)) := by
      refine ⟨ofFn_size' _ _ _, fun i hi => ?_⟩
      rw [ofFn_getD' _ _ _ i hi]; simp
    have h0r : Rel n M (Mat.ofFn n (2 * n) (fun i j => if j < n then M.get i j else if j - n = i then (1 : K) else 0)) := by
      intro i j hi hj
      have e1 : ∀ k ∈ Finset.range n,
          (Mat.ofFn n (2 * n) (fun i j => if j < n then M.get i j else if j - n = i then (1 : K) else 0)).get i (n + k) * M.get k j
          = if k = i then M.get k j else 0 := by
        intro k hk
        have hk' := Finset.mem_range.mp hk
        rw [ofFn_get' _ _ _ i (n + k) hi (by omega), if_neg (by omega)]
        by_cases e : k = i
        · rw [if_pos (by omega), if_pos e, one_mul]
        · rw [if_neg (by omega), if_neg e, zero_mul]
      rw [Finset.sum_congr rfl e1, Finset.sum_ite_eq' (Finset.range n) i, if_pos (Finset.mem_range.mpr hi),
        ofFn_get' _ _ _ i j hi (by omega), if_pos hj]
    obtain ⟨_, hrel, hid⟩ := gjFold_inv n M n _ A (Nat.le_refl n) h0s h0r
      (fun c' i hc' _ => absurd hc' (Nat.not_lt_zero _)) hfold
    intro a k ha hk
    rw [sumL_range_sum, ← hid k a hk ha, ← hrel a k ha hk]
    refine Finset.sum_congr rfl fun b hb => ?_
    rw [← h, ofFn_get' _ _ _ a b ha (Finset.mem_range.mp hb)]

#print axioms inv_leftInv
end PyamgV.C10b
