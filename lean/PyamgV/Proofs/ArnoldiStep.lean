import PyamgV.Proofs.FitCand
import Mathlib.Data.List.GetD

/-! PyamgV (C07, GMRES with modified Gram–Schmidt): one pass of the inner loop of
`_gmres_mgs.py` — `v = M(A v_k)`, orthogonalise against `v_0..v_k` in order recording
`H[k, 0..k]`, `H[k, k+1] = ‖v‖`, normalise unless that norm is zero — keeps the *Arnoldi
invariant*: the basis is orthogonal with norms 0/1 and every processed column satisfies
`B v_j = Σ_l H[j, l] v_l`. List form (`comb` = linear combination); these are exactly the
hypotheses `PyamgV.Gmres.gmres_optimal_of_qr` needs, up to the change of representation from
lists to `Fin`-indexed families. -/
namespace PyamgV.GS

variable {K : Type*} [Field K] [LinearOrder K] [IsStrictOrderedRing K]
variable {V : Type*} [AddCommGroup V] [Module K V]

theorem comb_append_right (c : List K) : ∀ (vs t : List V), c.length ≤ vs.length →
    comb c (vs ++ t) = comb c vs := by
  induction c with
  | nil => intro vs t _; cases vs <;> cases t <;> simp [comb]
  | cons a as ih =>
    intro vs t h
    cases vs with
    | nil => simp at h
    | cons q qs =>
      simp only [List.cons_append, comb]
      rw [ih qs t (by simpa using h)]

theorem comb_snoc (c : List K) : ∀ (vs : List V) (h : K) (v : V), c.length = vs.length →
    comb (c ++ [h]) (vs ++ [v]) = comb c vs + h • v := by
  induction c with
  | nil =>
    intro vs h v hl
    have : vs = [] := List.eq_nil_of_length_eq_zero hl.symm
    subst this; simp [comb]
  | cons a as ih =>
    intro vs h v hl
    cases vs with
    | nil => simp at hl
    | cons q qs =>
      simp only [List.cons_append, comb]
      rw [ih qs h v (by simpa using hl)]; abel

/-- Arnoldi invariant in list form -/
structure ArnL (e : EForm K V) (B : V →ₗ[K] V) (vs : List V) (cols : List (List K)) : Prop where
  onz : ONZ e vs
  len : cols.length + 1 = vs.length
  rel : ∀ j, j < cols.length → B (vs.getD j 0) = comb (cols.getD j []) vs
  clen : ∀ j, j < cols.length → (cols.getD j []).length ≤ vs.length

/-- the inner-loop pass for the last basis vector `vk` -/
def arnoldiStep (e : EForm K V) (sqrt : K → K) (B : V →ₗ[K] V) (vs : List V) (vk : V) :
    V × List K :=
  let o := orth e vs (B vk)
  let c := newCol e sqrt 0 o.1
  (c.1, o.2 ++ [c.2])

theorem arnoldiStep_inv (e : EForm K V) (hdef : ∀ v, e.a v v = 0 → v = 0) (sqrt : K → K)
    (hsq : ∀ a, 0 ≤ a → sqrt a * sqrt a = a) (hsq0 : ∀ a, 0 ≤ sqrt a)
    (B : V →ₗ[K] V) (vs : List V) (cols : List (List K)) (vk : V)
    (hlast : vs.getD cols.length 0 = vk) (h : ArnL e B vs cols) :
    ArnL e B (vs ++ [(arnoldiStep e sqrt B vs vk).1]) (cols ++ [(arnoldiStep e sqrt B vs vk).2]) := by
  have hz : ∀ q ∈ vs, e.a q q = 0 → q = 0 := fun q _ hq => hdef q hq
  obtain ⟨o1, o2, o3⟩ := orth_spec e vs (B vk) h.onz hz
  obtain ⟨c1, c2, c3⟩ := newCol_spec e sqrt hsq 0 (le_refl 0) (orth e vs (B vk)).1 vs o2
  -- the stored norm times the new vector is the remainder, also at breakdown
  have hrem : (newCol e sqrt 0 (orth e vs (B vk)).1).2 • (newCol e sqrt 0 (orth e vs (B vk)).1).1 =
      (orth e vs (B vk)).1 := by
    rcases c3 with h1 | ⟨h1, h2, h3⟩
    · exact h1
    · -- breakdown: ‖rem‖ ≤ 0, so rem = 0
      have hs0 : sqrt (e.a (orth e vs (B vk)).1 (orth e vs (B vk)).1) = 0 :=
        le_antisymm h3 (hsq0 _)
      have hen : e.a (orth e vs (B vk)).1 (orth e vs (B vk)).1 = 0 := by
        have := hsq _ (e.nonneg (orth e vs (B vk)).1)
        rw [hs0] at this; simpa using this.symm
      rw [h1, h2, hdef _ hen]; simp
  unfold arnoldiStep
  simp only
  refine ⟨ONZ_append e vs _ h.onz c1 c2, by simp [h.len], ?_, ?_⟩
  · intro j hj
    rw [List.length_append, List.length_singleton] at hj
    by_cases hjc : j < cols.length
    · have hjv : j < vs.length := by have := h.len; omega
      rw [List.getD_append _ _ _ _ hjv, List.getD_append _ _ _ _ hjc,
        comb_append_right _ _ _ (h.clen j hjc)]
      exact h.rel j hjc
    · have hje : j = cols.length := by omega
      subst hje
      have hjv : cols.length < vs.length := by have := h.len; omega
      rw [List.getD_append _ _ _ _ hjv, hlast, List.getD_append_right _ _ _ _ (Nat.le_refl _)]
      simp only [Nat.sub_self, List.getD_cons_zero]
      rw [comb_snoc _ _ _ _ o3, hrem]
      exact o1
  · intro j hj
    rw [List.length_append, List.length_singleton] at hj
    by_cases hjc : j < cols.length
    · rw [List.getD_append _ _ _ _ hjc, List.length_append]
      have := h.clen j hjc; omega
    · have hje : j = cols.length := by omega
      subst hje
      rw [List.getD_append_right _ _ _ _ (Nat.le_refl _)]
      simp only [Nat.sub_self, List.getD_cons_zero, List.length_append, List.length_singleton]
      omega

#print axioms arnoldiStep_inv
end PyamgV.GS
