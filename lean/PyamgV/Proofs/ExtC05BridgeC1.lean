import PyamgV.Proofs.ExtC05BridgeF4
import Mathlib.Algebra.Star.Basic
import Mathlib.Algebra.Star.BigOperators
import Mathlib.Algebra.Star.Rat

/-! PyamgV (C05, extension E23, complex case, part C1): **Hermitian adjointness over a field with an
involution** (`StarRing F`; the Gaussian rationals with `star = CRat.conj`; `star = id` gives back the real
symmetric theory).

`sdot n u v = Σ_{i<n} star(u_i) v_i` is the Euclidean sesquilinear form on the first `n` coordinates,
`IsAdjS n m M N` means `⟨M u, v⟩_n = ⟨u, N v⟩_m`. The closure lemmas, `MopL_symS` (adjoint smoother pairs,
Hermitian level matrices, `R = Pᴴ`, Hermitian coarsest solve ⇒ `MopL .V`, `MopL .W` self-adjoint), and the
smoother operators: `rowQ` with a real `d`, hence the reversed sweep is the adjoint of the sweep
(`sweepOp_reverse_adjS`), Jacobi is self-adjoint, partners are adjoint (`partner_adjointS`) -- for a
diagonal fixed by `star` and the rational `ω` of the specifications. -/
set_option linter.unusedSectionVars false
namespace PyamgV.CF
open PyamgV PyamgV.C05 Finset

variable {F : Type} [Field F] [DecidableEq F] [StarRing F]

/-- `⟨u, v⟩ = Σ_{i<n} conj(u_i) v_i` -/
def sdot (n : Nat) (u v : Nat → F) : F := ∑ i ∈ range n, star (u i) * v i

theorem sdot_add_left (n : Nat) (u u' v : Nat → F) : sdot n (u + u') v = sdot n u v + sdot n u' v := by
  simp [sdot, add_mul, sum_add_distrib]
theorem sdot_add_right (n : Nat) (u v v' : Nat → F) : sdot n u (v + v') = sdot n u v + sdot n u v' := by
  simp [sdot, mul_add, sum_add_distrib]
theorem sdot_sub_left (n : Nat) (u u' v : Nat → F) : sdot n (u - u') v = sdot n u v - sdot n u' v := by
  simp [sdot, sub_mul, sum_sub_distrib]
theorem sdot_sub_right (n : Nat) (u v v' : Nat → F) : sdot n u (v - v') = sdot n u v - sdot n u v' := by
  simp [sdot, mul_sub, sum_sub_distrib]
theorem sdot_zero_left (n : Nat) (v : Nat → F) : sdot n 0 v = 0 := by simp [sdot]
theorem sdot_zero_right (n : Nat) (u : Nat → F) : sdot n u 0 = 0 := by simp [sdot]

/-- conjugate symmetry -/
theorem sdot_conj (n : Nat) (u v : Nat → F) : star (sdot n u v) = sdot n v u := by
  unfold sdot
  rw [star_sum]
  apply sum_congr rfl
  intro i _
  rw [star_mul', star_star, mul_comm]

theorem sdot_single_right (n i : Nat) (h : i < n) (w : Nat → F) (c : F) :
    sdot n w (c • Pi.single i 1) = star (w i) * c := by
  unfold sdot
  rw [sum_eq_single i]
  · simp
  · intro j _ hj; simp [Pi.single_apply, hj]
  · intro hi; exact absurd (mem_range.2 h) hi

theorem sdot_single_left (n i : Nat) (h : i < n) (w : Nat → F) (c : F) :
    sdot n (c • Pi.single i 1) w = star c * w i := by
  rw [← sdot_conj, sdot_single_right n i h, star_mul', star_star, mul_comm]

/-- `N` is the Hermitian adjoint of `M`: `⟨M u, v⟩_n = ⟨u, N v⟩_m` -/
def IsAdjS (n m : Nat) (M N : Op F) : Prop := ∀ u v, sdot n (M u) v = sdot m u (N v)

theorem IsAdjS.add {n m : Nat} {M N M' N' : Op F} (h : IsAdjS n m M N) (h' : IsAdjS n m M' N') :
    IsAdjS n m (M + M') (N + N') := by
  intro u v
  simp only [LinearMap.add_apply]
  rw [sdot_add_left, sdot_add_right, h u v, h' u v]

theorem IsAdjS.sub {n m : Nat} {M N M' N' : Op F} (h : IsAdjS n m M N) (h' : IsAdjS n m M' N') :
    IsAdjS n m (M - M') (N - N') := by
  intro u v
  simp only [LinearMap.sub_apply]
  rw [sdot_sub_left, sdot_sub_right, h u v, h' u v]

theorem IsAdjS.comp {n m k : Nat} {M N M' N' : Op F} (h : IsAdjS n m M N) (h' : IsAdjS m k M' N') :
    IsAdjS n k (M ∘ₗ M') (N' ∘ₗ N) := by
  intro u v
  simp only [LinearMap.comp_apply]
  rw [h (M' u) v, h' u (N v)]

theorem IsAdjS.flip {n m : Nat} {M N : Op F} (h : IsAdjS n m M N) : IsAdjS m n N M := by
  intro u v
  rw [← sdot_conj, ← h v u, sdot_conj]

theorem IsAdjS.zero (n : Nat) : IsAdjS n n (0 : Op F) 0 := by
  intro u v
  simp [sdot_zero_left, sdot_zero_right]

/-- "first M₁ then M₂" has adjoint "first M₂ᴴ then M₁ᴴ" -/
theorem IsAdjS.compM {n : Nat} {A M₁ M₂ N₁ N₂ : Op F}
    (hA : IsAdjS n n A A) (h₁ : IsAdjS n n M₁ N₁) (h₂ : IsAdjS n n M₂ N₂) :
    IsAdjS n n (compM A M₁ M₂) (compM A N₂ N₁) := by
  unfold PyamgV.compM
  have := (IsAdjS.sub (IsAdjS.add h₁ h₂) (IsAdjS.comp (IsAdjS.comp h₂ hA) h₁))
  intro u v
  have := this u v
  simp only [LinearMap.add_apply, LinearMap.sub_apply, LinearMap.comp_apply] at this ⊢
  rw [this]
  congr 1
  abel

theorem IsAdjS.powM {n : Nat} {A M N : Op F} (hA : IsAdjS n n A A) (h : IsAdjS n n M N) :
    ∀ k, IsAdjS n n (powM A M k) (powM A N k) := by
  intro k
  induction k with
  | zero => exact IsAdjS.zero n
  | succ k ih =>
    rw [show PyamgV.powM A M (k+1) = PyamgV.compM A (PyamgV.powM A M k) M from rfl, powM_succ' A N k]
    exact IsAdjS.compM hA ih h

/-! ### the cycle operator -/

/-- per-level sizes: adjoint smoother pairs, Hermitian level matrices, `R = Pᴴ`, Hermitian coarsest solve -/
def WFSS (S : Op F) : Nat → List Nat → List (LinLevel F (Nat → F)) → Prop
  | n, _, [] => IsAdjS n n S S
  | n, nc :: ns, L :: rest =>
      IsAdjS n n L.A L.A ∧ IsAdjS n n L.Qpre L.Qpost ∧ IsAdjS n nc L.P L.R ∧ WFSS S nc ns rest
  | _, [], _ :: _ => False

/-- **`MopL .V` and `MopL .W` are Hermitian** (`MopL_sym` for a field with involution) -/
theorem MopL_symS (S : Op F) :
    ∀ (Ls : List (LinLevel F (Nat → F))) (n : Nat) (ns : List Nat),
      WFSS S n ns Ls → IsAdjS n n (MopL S .V Ls) (MopL S .V Ls) ∧ IsAdjS n n (MopL S .W Ls) (MopL S .W Ls) := by
  intro Ls
  induction Ls with
  | nil =>
    intro n ns h
    have h' : IsAdjS n n S S := by cases ns <;> simpa [WFSS] using h
    exact ⟨by simpa [MopL] using h', by simpa [MopL] using h'⟩
  | cons L rest ih =>
    intro n ns h
    cases ns with
    | nil => exact absurd h (by simp [WFSS])
    | cons nc ns =>
      obtain ⟨hA, hQ, hP, hrest⟩ := h
      have two : ∀ Mc : Op F, IsAdjS nc nc Mc Mc →
          IsAdjS n n (compM L.A (compM L.A L.Qpre (L.P ∘ₗ Mc ∘ₗ L.R)) L.Qpost)
                    (compM L.A (compM L.A L.Qpre (L.P ∘ₗ Mc ∘ₗ L.R)) L.Qpost) := by
        intro Mc hMc
        have hC : IsAdjS n n (L.P ∘ₗ Mc ∘ₗ L.R) (L.P ∘ₗ Mc ∘ₗ L.R) := by
          have := IsAdjS.comp (IsAdjS.comp hP hMc) (IsAdjS.flip hP)
          simpa [LinearMap.comp_assoc] using this
        have h1 := IsAdjS.compM hA (IsAdjS.compM hA hQ hC) (IsAdjS.flip hQ)
        intro u v
        rw [h1 u v]
        congr 1
        simp only [PyamgV.compM, LinearMap.add_apply, LinearMap.sub_apply, LinearMap.comp_apply,
          map_add, map_sub]
        abel
      obtain ⟨ihV, ihW⟩ := ih nc ns hrest
      cases rest with
      | nil =>
        have hS : IsAdjS nc nc S S := by cases ns <;> simpa [WFSS] using hrest
        exact ⟨by simpa [MopL] using two S hS, by simpa [MopL] using two S hS⟩
      | cons L' rest' =>
        have hA' : IsAdjS nc nc L'.A L'.A := by
          cases ns with
          | nil => exact absurd hrest (by simp [WFSS])
          | cons _ _ => exact hrest.1
        refine ⟨by simpa [MopL] using two _ ihV, ?_⟩
        have : IsAdjS nc nc (compM L'.A (MopL S .W (L' :: rest')) (MopL S .W (L' :: rest')))
            (compM L'.A (MopL S .W (L' :: rest')) (MopL S .W (L' :: rest'))) :=
          IsAdjS.compM hA' ihW ihW
        simpa [MopL] using two _ this

/-! ### the smoother operators -/

/-- one row update with a real `d` is self-adjoint -/
theorem rowQ_selfadjS (n i : Nat) (hi : i < n) (d : F) (hd : star d = d) :
    IsAdjS n n (rowQ i d) (rowQ i d) := by
  intro u v
  simp only [rowQ, LinearMap.coe_mk, AddHom.coe_mk]
  rw [sdot_single_left n i hi, sdot_single_right n i hi, star_div₀, hd]
  ring

/-- **the backward sweep is the Hermitian adjoint of the forward sweep** (A Hermitian, real diagonal) -/
theorem sweepOp_reverse_adjS (n : Nat) (A : Op F) (diag : Nat → F) (hA : IsAdjS n n A A) :
    ∀ (order : List Nat), (∀ i ∈ order, i < n ∧ star (diag i) = diag i) →
      IsAdjS n n (sweepOp A diag order) (sweepOp A diag order.reverse) := by
  intro order
  induction order with
  | nil => intro _; intro u v; simp [sweepOp, sdot_zero_left, sdot_zero_right]
  | cons i rest ih =>
    intro h
    have hi := h i (by simp)
    have h2 := ih (fun j hj => h j (by simp [hj]))
    rw [List.reverse_cons, sweepOp_append]
    exact IsAdjS.compM hA (rowQ_selfadjS n i hi.1 (diag i) hi.2) h2

theorem star_div_rat (d : F) (hd : star d = d) (ω : ℚ) : star (d / (ω : F)) = d / (ω : F) := by
  rw [star_div₀, hd, star_ratCast]

theorem jacOp_selfadjS (n : Nat) (diag : Nat → F) (ω : ℚ) (idx : List Nat)
    (h : ∀ i ∈ idx, i < n ∧ star (diag i) = diag i) :
    IsAdjS n n (jacOp diag (ω : F) idx) (jacOp diag (ω : F) idx) := by
  induction idx with
  | nil => simpa [jacOp] using IsAdjS.zero (F := F) n
  | cons i rest ih =>
    have hi := h i (by simp)
    have h1 := rowQ_selfadjS n i hi.1 (diag i / (ω : F)) (star_div_rat _ hi.2 ω)
    have h2 := ih (fun j hj => h j (by simp [hj]))
    simpa [jacOp] using IsAdjS.add h1 h2

theorem passOp_adjS (n : Nat) (A : Op F) (diag : Nat → F) (ω : ℚ) (hA : IsAdjS n n A A)
    (hd : ∀ i, i < n → star (diag i) = diag i) (bw : Bool) :
    IsAdjS n n (passOp A diag (ω : F) n bw) (passOp A diag (ω : F) n (!bw)) := by
  have hr : ∀ i ∈ List.range n, i < n ∧ star (diag i / (ω : F)) = diag i / (ω : F) :=
    fun i hi => ⟨List.mem_range.1 hi, star_div_rat _ (hd i (List.mem_range.1 hi)) ω⟩
  have hf := sweepOp_reverse_adjS n A (fun i => diag i / (ω : F)) hA (List.range n) hr
  cases bw with
  | false => simpa [passOp] using hf
  | true => simpa [passOp] using IsAdjS.flip hf

/-- **partners are Hermitian adjoints**: Gauss–Seidel/SOR forward–backward (same ω), symmetric–symmetric,
Jacobi–Jacobi (same ω), cf–fc Jacobi (same ω, same inner counts), equal iteration counts; `A` Hermitian with a
diagonal fixed by `star` -/
theorem partner_adjointS (n : Nat) (A : Op F) (diag : Nat → F) (C Fp : List Nat)
    (hA : IsAdjS n n A A) (hd : ∀ i, i < n → star (diag i) = diag i)
    (hC : ∀ i ∈ C, i < n) (hF : ∀ i ∈ Fp, i < n)
    (s t : Sm) (h : Partner s t) :
    IsAdjS n n (smOp A diag n C Fp s) (smOp A diag n C Fp t) := by
  cases h with
  | none => exact IsAdjS.zero _
  | fb ω k => exact IsAdjS.powM hA (passOp_adjS n A diag _ hA hd false) k
  | bf ω k => exact IsAdjS.powM hA (passOp_adjS n A diag _ hA hd true) k
  | ss ω k =>
    exact IsAdjS.powM hA (IsAdjS.compM hA (passOp_adjS n A diag _ hA hd false) (passOp_adjS n A diag _ hA hd true)) k
  | jac ω k =>
    exact IsAdjS.powM hA (jacOp_selfadjS n diag _ _ (fun i hi => ⟨List.mem_range.1 hi, hd i (List.mem_range.1 hi)⟩)) k
  | cf c ω it fi ci =>
    have hCa := IsAdjS.powM hA (jacOp_selfadjS n diag ω C (fun i hi => ⟨hC i hi, hd i (hC i hi)⟩)) ci
    have hFa := IsAdjS.powM hA (jacOp_selfadjS n diag ω Fp (fun i hi => ⟨hF i hi, hd i (hF i hi)⟩)) fi
    cases c with
    | true => exact IsAdjS.powM hA (IsAdjS.compM hA hCa hFa) it
    | false => exact IsAdjS.powM hA (IsAdjS.compM hA hFa hCa) it

#print axioms MopL_symS
#print axioms partner_adjointS
end PyamgV.CF
