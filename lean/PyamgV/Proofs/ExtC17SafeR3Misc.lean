import PyamgV.Model.ExtC17CkR3Misc
import PyamgV.Proofs.ExtC17SafeR3Sa
import PyamgV.Proofs.ExtC17SafeR3Relax

/-! PyamgV (C17, extension E19): bounds-safety (+ termination of the strided loops) for the `Ck` models of
`apply_householders`, `householder_hornerscheme`, `apply_givens` and `floyd_warshall`
(`Model/ExtC17CkR3Misc.lean`).  Core Lean only. -/
namespace PyamgV.C17
open PyamgV.Ck

set_option linter.unusedSectionVars false
set_option linter.unusedVariables false
variable {α : Type} [Inhabited α]

/-- the strided-loop rule with an invariant that depends on the loop index -/
theorem forStride_safe_idx {σ : Type} (Inv : Int → σ → Prop) (n : Nat) (stop step : Int)
    (body : Int → σ → Ck σ)
    (hstep : ∀ i, 0 ≤ i → i < (n : Int) → ∀ st, Inv i st → Safe (body i st) (Inv (i + step))) :
    ∀ (k : Nat) (start : Int), Adm n start stop step k → ∀ fuel, k ≤ fuel →
      ∀ st : Ck σ, Safe st (Inv start) →
        ∃ r, forStride stop step body fuel start st = some r ∧ Safe r (Inv stop) := by
  intro k
  induction k with
  | zero =>
    intro start hadm fuel _ st hst
    have hs : start = stop := by have := hadm.reach; simp at this; exact this.symm
    subst hs
    cases fuel with
    | zero => exact ⟨st, by unfold forStride; rw [if_pos rfl], hst⟩
    | succ f => exact ⟨st, by unfold forStride; rw [if_pos rfl], hst⟩
  | succ k ih =>
    intro start hadm fuel hf st hst
    cases fuel with
    | zero => omega
    | succ f =>
      have hne : start ≠ stop := by
        intro he
        have h1 := hadm.reach
        have h2 : ((k + 1 : Nat) : Int) * step = 0 := by omega
        rcases Int.mul_eq_zero.mp h2 with h3 | h3
        · omega
        · exact hadm.step_ne h3
      have hrow := hadm.rows 0 (by omega)
      have hz0 : start + ((0 : Nat) : Int) * step = start := by simp
      rw [hz0] at hrow
      have hadm' : Adm n (start + step) stop step k := by
        refine ⟨hadm.step_ne, ?_, ?_⟩
        · have := hadm.reach
          rw [this]; push_cast; rw [Int.add_mul]; omega
        · intro j hj
          have := hadm.rows (j+1) (by omega)
          have e : start + step + (j : Int) * step = start + ((j + 1 : Nat) : Int) * step := by
            push_cast; rw [Int.add_mul]; omega
          rw [e]; exact this
      unfold forStride
      rw [if_neg hne]
      exact ih (start + step) hadm' f (by omega) _
        (Safe.bind hst (fun a ha => hstep start hrow.1 hrow.2 a ha))

/-! ### `dot_prod`, `axpy` on (array, offset) -/

theorem dotAt_safe (o : KOps α) (B : Array α) (off : Int) (z : Array α) (n : Nat) (h0 : 0 ≤ off)
    (h1 : off + (n : Int) ≤ (B.size : Int)) (hz : z.size = n) :
    Safe (dotAt o B off z (n : Int)) (fun _ => True) := by
  unfold dotAt
  apply forRange_safe (fun _ => True) _ _ _ _ trivial
  intro i i0 i1 sum _
  refine Safe.bind (rd_ok B _ (by omega) (by omega)) (fun b _ => ?_)
  exact Safe.bind (rd_ok z i i0 (by rw [hz]; exact i1)) (fun zi _ => Safe.pure trivial)

theorem axpyAt_safe (o : KOps α) (z : Array α) (B : Array α) (off : Int) (alpha : α) (n : Nat) (h0 : 0 ≤ off)
    (h1 : off + (n : Int) ≤ (B.size : Int)) (hz : z.size = n) :
    Safe (axpyAt o z B off alpha (n : Int)) (fun z' => z'.size = n) := by
  unfold axpyAt
  apply forRange_safe (fun z' : Array α => z'.size = n) _ _ _ _ hz
  intro i i0 i1 z' hz'
  refine Safe.bind (rd_ok z' i i0 (by rw [hz']; exact i1)) (fun zi _ => ?_)
  refine Safe.bind (rd_ok B _ (by omega) (by omega)) (fun b _ => ?_)
  exact Safe.mono (wr_ok z' i _ i0 (by rw [hz']; exact i1)) (fun a' h => by rw [h, hz'])

theorem hhStep_safe (o : KOps α) (B : Array α) (n : Nat) (step : Int) (st : Array α × Int) (hz : st.1.size = n)
    (h0 : 0 ≤ st.2) (h1 : st.2 + (n : Int) ≤ (B.size : Int)) :
    Safe (hhStep o B (n : Int) step st) (fun st' => st'.1.size = n ∧ st'.2 = st.2 + step * (n : Int)) := by
  unfold hhStep
  refine Safe.bind (dotAt_safe o B st.2 st.1 n h0 h1 hz) (fun alpha _ => ?_)
  refine Safe.bind (axpyAt_safe o st.1 B st.2 _ n h0 h1 hz) (fun z hz' => ?_)
  exact Safe.pure ⟨hz', rfl⟩

/-! ### `apply_householders`, `householder_hornerscheme` -/

/-- **`apply_householders`**: `B` holds `R` reflectors of length `n`, `z` has `n` entries, the range of
reflectors is admissible (`Adm R`): the running `index` is `i*n`, every `dot_prod` / `axpy` stays inside
row `i` of `B`, and the loop terminates -/
theorem applyHouseholders_safe (o : KOps α) (B : Array α) (n R : Nat)
    (hB : (R : Int) * (n : Int) ≤ (B.size : Int)) (start stop step : Int) (k : Nat)
    (hadm : Adm R start stop step k) (fuel : Nat) (hf : k ≤ fuel) (z : Array α) (hz : z.size = n) :
    ∃ r, applyHouseholders o B (n : Int) start stop step fuel z = some r ∧ Safe r (fun st => st.1.size = n) := by
  unfold applyHouseholders
  obtain ⟨r, e, hr⟩ := forStride_safe_idx
    (fun (i : Int) (st : Array α × Int) => st.1.size = n ∧ st.2 = i * (n : Int)) R stop step
    (fun _ st => hhStep o B (n : Int) step st)
    (fun i i0 i1 st hst => by
      have hv := vec_extI (R : Int) (n : Int) i (by omega) i0 i1
      refine Safe.mono (hhStep_safe o B n step st hst.1 (by rw [hst.2]; exact hv.1) (by rw [hst.2]; omega))
        (fun st' h => ⟨h.1, by rw [h.2, hst.2, Int.add_mul]⟩))
    k start hadm fuel hf (pure (z, start * (n : Int))) (Safe.pure ⟨hz, rfl⟩)
  exact ⟨r, e, Safe.mono hr (fun st h => h.1)⟩

/-- **`householder_hornerscheme`**: additionally `z[i] += y[i]` for the visited `i`, so the `R` reflectors
satisfy `R ≤ n` and `R ≤ |y|` -/
theorem hornerScheme_safe (o : KOps α) (B y : Array α) (n R : Nat)
    (hB : (R : Int) * (n : Int) ≤ (B.size : Int)) (hRn : R ≤ n) (hy : R ≤ y.size) (start stop step : Int)
    (k : Nat) (hadm : Adm R start stop step k) (fuel : Nat) (hf : k ≤ fuel) (z : Array α) (hz : z.size = n) :
    ∃ r, hornerScheme o B y (n : Int) start stop step fuel z = some r ∧ Safe r (fun st => st.1.size = n) := by
  unfold hornerScheme
  obtain ⟨r, e, hr⟩ := forStride_safe_idx
    (fun (i : Int) (st : Array α × Int) => st.1.size = n ∧ st.2 = i * (n : Int)) R stop step
    (hornerStep o B y (n : Int) step)
    (fun i i0 i1 st hst => by
      have hv := vec_extI (R : Int) (n : Int) i (by omega) i0 i1
      unfold hornerStep
      refine Safe.bind (rd_ok st.1 i i0 (by rw [hst.1]; omega)) (fun zi _ => ?_)
      refine Safe.bind (rd_ok y i i0 (by omega)) (fun yi _ => ?_)
      refine Safe.bind (wr_ok st.1 i _ i0 (by rw [hst.1]; omega)) (fun z' hz' => ?_)
      refine Safe.mono (hhStep_safe o B n step (z', st.2) (by show z'.size = n; rw [hz', hst.1])
        (by show 0 ≤ st.2; rw [hst.2]; exact hv.1) (by show st.2 + (n : Int) ≤ _; rw [hst.2]; omega))
        (fun st' h => ⟨h.1, by rw [h.2]; show st.2 + step * (n : Int) = (i + step) * (n : Int); rw [hst.2, Int.add_mul]⟩))
    k start hadm fuel hf (pure (z, start * (n : Int))) (Safe.pure ⟨hz, rfl⟩)
  exact ⟨r, e, Safe.mono hr (fun st h => h.1)⟩

/-! ### `apply_givens` -/

/-- **`apply_givens`**: `nrot` rotations need `nrot + 1` entries of `x` and `4·nrot` entries of `B` -/
theorem applyGivens_safe (o : KOps α) (B : Array α) (nrot : Int) (x : Array α) (h0 : 0 ≤ nrot)
    (hx : nrot + 1 ≤ (x.size : Int)) (hB : 4 * nrot ≤ (B.size : Int)) :
    Safe (applyGivens o B nrot x) (fun x' => x'.size = x.size) := by
  unfold applyGivens
  refine Safe.bind (P := fun st : Array α × Int × Int × Int × Int => st.1.size = x.size) ?_ (fun r hr => Safe.pure hr)
  refine Safe.mono (forRange_safe_idx
    (fun (rot : Int) (st : Array α × Int × Int × Int × Int) =>
      st.1.size = x.size ∧ st.2.1 = 4 * rot ∧ st.2.2.1 = 4 * rot + 1 ∧ st.2.2.2.1 = 4 * rot + 2 ∧
        st.2.2.2.2 = 4 * rot + 3)
    0 nrot h0 _ _ ⟨rfl, by show (0 : Int) = 4 * 0; omega, by show (1 : Int) = 4 * 0 + 1; omega,
      by show (2 : Int) = 4 * 0 + 2; omega, by show (3 : Int) = 4 * 0 + 3; omega⟩ ?_) (fun st h => h.1)
  intro rot r0 r1 st hst
  obtain ⟨g0, g1, g2, g3, g4⟩ := hst
  refine Safe.bind (rd_ok st.1 rot r0 (by rw [g0]; omega)) (fun xt _ => ?_)
  refine Safe.bind (rd_ok B _ (by omega) (by omega)) (fun b1 _ => ?_)
  refine Safe.bind (rd_ok B _ (by omega) (by omega)) (fun b2 _ => ?_)
  refine Safe.bind (rd_ok st.1 (rot+1) (by omega) (by rw [g0]; omega)) (fun x1 _ => ?_)
  refine Safe.bind (wr_ok st.1 rot _ r0 (by rw [g0]; omega)) (fun xa hxa => ?_)
  refine Safe.bind (rd_ok B _ (by omega) (by omega)) (fun b3 _ => ?_)
  refine Safe.bind (rd_ok B _ (by omega) (by omega)) (fun b4 _ => ?_)
  refine Safe.bind (rd_ok xa (rot+1) (by omega) (by rw [hxa, g0]; omega)) (fun x1' _ => ?_)
  refine Safe.bind (wr_ok xa (rot+1) _ (by omega) (by rw [hxa, g0]; omega)) (fun xb hxb => ?_)
  exact Safe.pure ⟨by show xb.size = x.size; rw [hxb, hxa, g0], by show st.2.1 + 4 = 4 * (rot + 1); omega,
    by show st.2.2.1 + 4 = 4 * (rot + 1) + 1; omega, by show st.2.2.2.1 + 4 = 4 * (rot + 1) + 2; omega,
    by show st.2.2.2.2 + 4 = 4 * (rot + 1) + 3; omega⟩

/-! ### `floyd_warshall` -/

/-- cluster `a` with `N` members: `C` lists nodes, `L` maps the members of the cluster to `0..N-1` -/
structure WFfw (n : Nat) (C L m : Array Int) (a N : Int) : Prop where
  n0 : 0 ≤ N
  csize : N ≤ (C.size : Int)
  cnodes : IdxIn C n
  lsize : L.size = n
  msize : m.size = n
  local_ : ∀ j, j < n → m.getD j 0 = a → 0 ≤ L.getD j 0 ∧ L.getD j 0 < N

def FWInv (N : Int) (st : FW α) : Prop := (st.1.size : Int) = N * N ∧ (st.2.size : Int) = N * N

/-- **`floyd_warshall`**: `A` a structurally valid `n × n` CSR matrix, the cluster described by `WFfw`, `D` and
`P` dense `N × N` -/
theorem floydWarshall_safe (o : KOps α) (gt : α → α → Bool) (tol : α) (G : Csr α) (hG : WFm G G.n)
    (C L m : Array Int) (a N : Int) (h : WFfw G.n C L m a N) (D : Array α) (P : Array Int)
    (hD : (D.size : Int) = N * N) (hP : (P.size : Int) = N * N) :
    Safe (floydWarshall o gt tol G C L m a N D P) (fun st => st.1.size = D.size ∧ st.2.size = P.size) := by
  have hN := h.n0
  have rdC : ∀ _i : Int, 0 ≤ _i → _i < N → Safe (rd C _i) (fun i => 0 ≤ i ∧ i < (G.n : Int)) := by
    intro _i i0 i1
    have := h.csize
    exact idx_rd_safe C G.n h.cnodes _i i0 (by omega)
  have keep : ∀ st : FW α, FWInv N st → (st.1.size = D.size ∧ st.2.size = P.size) := by
    intro st hst; constructor <;> (have := hst.1; have := hst.2; omega)
  unfold floydWarshall
  refine Safe.bind (P := FWInv N) ?_ (fun st1 hst1 => ?_)
  · apply forRange_safe (FWInv N) _ _ _ _ ⟨hD, hP⟩
    intro _i i0 i1 st hst
    refine Safe.bind (rdC _i i0 i1) (fun i hi => ?_)
    obtain ⟨q1, q2⟩ := rd_ap_safe G hG i hi.1 hi.2
    refine Safe.bind q1 (fun s hs => ?_)
    refine Safe.bind q2 (fun e he => ?_)
    subst hs; subst he
    apply forRange_safe (FWInv N) _ _ _ _ hst
    intro jj j1 j2 st' hst'
    have hr := row_range_m G hG i.toNat (by omega) jj j1 j2
    refine Safe.bind (rd_safe G.aj jj hr.1 hr.2.1) (fun j hj => ?_)
    have hc := col_ok G hG jj hr.1 hr.2.1 j hj
    refine Safe.bind (rd_safe L j hc.1 (by rw [h.lsize]; exact hc.2)) (fun _j h_j => ?_)
    refine Safe.bind (rd_safe m j hc.1 (by rw [h.msize]; exact hc.2)) (fun mj hmj => ?_)
    by_cases hma : mj = a
    · rw [if_pos hma]
      have hmj' : mj = m.getD j.toNat 0 := hmj
      have h_j' : _j = L.getD j.toNat 0 := h_j
      have hl := h.local_ j.toNat hc.2 (by rw [← hmj']; exact hma)
      rw [← h_j'] at hl
      have hix := idx_lt i0 i1 hl.1 hl.2
      refine Safe.bind (rd_safe G.ax jj hr.1 hr.2.2) (fun w _ => ?_)
      refine Safe.bind (wr_ok st'.1 _ w hix.1 (by rw [hst'.1]; exact hix.2)) (fun d hd => ?_)
      refine Safe.bind (wr_ok st'.2 _ i hix.1 (by rw [hst'.2]; exact hix.2)) (fun p hp => ?_)
      exact Safe.pure ⟨by show (d.size : Int) = N * N; rw [hd]; exact hst'.1,
        by show (p.size : Int) = N * N; rw [hp]; exact hst'.2⟩
    · rw [if_neg hma]; exact Safe.pure hst'
  refine Safe.bind (P := FWInv N) ?_ (fun st2 hst2 => ?_)
  · apply forRange_safe (FWInv N) _ _ _ _ hst1
    intro _i i0 i1 st hst
    refine Safe.bind (rdC _i i0 i1) (fun i hi => ?_)
    have hix := idx_lt i0 i1 i0 i1
    refine Safe.bind (wr_ok st.1 _ _ hix.1 (by rw [hst.1]; exact hix.2)) (fun d hd => ?_)
    refine Safe.bind (wr_ok st.2 _ i hix.1 (by rw [hst.2]; exact hix.2)) (fun p hp => ?_)
    exact Safe.pure ⟨by show (d.size : Int) = N * N; rw [hd]; exact hst.1,
      by show (p.size : Int) = N * N; rw [hp]; exact hst.2⟩
  refine Safe.mono (forRange_safe (FWInv N) _ _ _ _ hst2 ?_) keep
  intro k k0 k1 st hst
  apply forRange_safe (FWInv N) _ _ _ _ hst
  intro i i0 i1 st' hst'
  apply forRange_safe (FWInv N) _ _ _ _ hst'
  intro j j0 j1 s hs
  have hij := idx_lt i0 i1 j0 j1
  have hik := idx_lt i0 i1 k0 k1
  have hkj := idx_lt k0 k1 j0 j1
  refine Safe.bind (rd_ok s.1 _ hij.1 (by rw [hs.1]; exact hij.2)) (fun dij _ => ?_)
  refine Safe.bind (rd_ok s.1 _ hik.1 (by rw [hs.1]; exact hik.2)) (fun dik _ => ?_)
  refine Safe.bind (rd_ok s.1 _ hkj.1 (by rw [hs.1]; exact hkj.2)) (fun dkj _ => ?_)
  by_cases hg : gt dij (o.add (o.add dik dkj) tol) = true
  · rw [if_pos hg]
    refine Safe.bind (wr_ok s.1 _ _ hij.1 (by rw [hs.1]; exact hij.2)) (fun d hd => ?_)
    refine Safe.bind (rd_ok s.2 _ hkj.1 (by rw [hs.2]; exact hkj.2)) (fun pkj _ => ?_)
    refine Safe.bind (wr_ok s.2 _ pkj hij.1 (by rw [hs.2]; exact hij.2)) (fun p hp => ?_)
    exact Safe.pure ⟨by show (d.size : Int) = N * N; rw [hd]; exact hs.1,
      by show (p.size : Int) = N * N; rw [hp]; exact hs.2⟩
  · rw [if_neg hg]; exact Safe.pure hs

end PyamgV.C17
