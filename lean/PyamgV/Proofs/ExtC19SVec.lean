import PyamgV.Proofs.ExtC19SLanczos
import PyamgV.Proofs.ExtC07Vec

/-! PyamgV (C19, extension E39): **the instance the driver executes**.  The model of `_approximate_eigenvalues`
commutes with every map `phi : V -> W` that commutes with the vector operations and the vector-by-scalar division
(`aeRun_hom`, purely structural).  With `toFn : Vector K n -> (Fin n -> K)` (`C07.opsHom_vec`) the runs on
`Vector K n` -- the very definitions `approxEigVec` / `approxEigFloat` execute, over an ordered field with an exact
square root instead of binary64 -- are carried onto the runs over the module `K^n` with the Euclidean form: same
columns of `H`, same flag, basis vectors mapped by `toFn`.  Hence (`vec_*`): orthonormal basis, `H = V^T A V`, Ritz
values bounded by the Rayleigh bounds, for both branches (`symmetric=True` needs `A = A^T`). -/
namespace PyamgV.C19S
open PyamgV.C07
set_option linter.unusedSectionVars false
set_option linter.unusedSimpArgs false

section hom
variable {K V W : Type} [Add K] [Sub K] [Mul K] [Div K] [Neg K] [OfNat K 0] [OfNat K 1] [OfNat K 2]
variable (φ : V → W) (ov : Ops K V) (ow : Ops K W) (H : OpsHom φ ov ow)
variable (dv : V → K → V) (dw : W → K → W) (Hd : ∀ v c, φ (dv v c) = dw (φ v) c)

/-- a state carried over -/
def mapAe (s : AeSt K V) : AeSt K W := ⟨s.vs.map φ, s.cols, s.beta, s.brk⟩

include H Hd

theorem arnStep_hom (sqrt : K → K) (lt : K → K → Bool) (isz : K → Bool) (tol : K) (s : AeSt K V) :
    mapAe φ (arnStep ov dv sqrt lt isz tol s) = arnStep ow dw sqrt lt isz tol (mapAe φ s) := by
  unfold arnStep
  by_cases hb : s.brk = true
  · have : (mapAe φ s).brk = true := hb
    rw [if_pos hb, if_pos this]
  · have : ¬ (mapAe φ s).brk = true := hb
    rw [if_neg hb, if_neg this]
    have hl : (mapAe φ s).vs.getLast? = s.vs.getLast?.map φ := by simp [mapAe, List.getLast?_map]
    rw [hl]
    cases hs : s.vs.getLast? with
    | none => rfl
    | some vk =>
      simp only [Option.map_some]
      obtain ⟨h1, h2⟩ := orthO_hom φ ov ow H s.vs (ov.A vk)
      rw [H.A] at h1 h2
      have hn : nrmO ov sqrt (orthO ov s.vs (ov.A vk)).1 = nrmO ow sqrt (orthO ow (s.vs.map φ) (ow.A (φ vk))).1 := by
        simp only [nrmO]; rw [H.dot, h1]
      have hvs : (mapAe φ s).vs = s.vs.map φ := rfl
      rw [hvs, ← hn, ← h2]
      split
      · simp only [mapAe, List.map_append, List.map_cons, List.map_nil]
        split
        · rw [h1]
        · rw [Hd, h1]
      · simp only [mapAe, List.map_append, List.map_cons, List.map_nil]
        rw [Hd, h1]

theorem lanStep_hom (sqrt : K → K) (lt : K → K → Bool) (tol : K) (s : AeSt K V) :
    mapAe φ (lanStep ov dv sqrt lt tol s) = lanStep ow dw sqrt lt tol (mapAe φ s) := by
  unfold lanStep
  by_cases hb : s.brk = true
  · have : (mapAe φ s).brk = true := hb
    rw [if_pos hb, if_pos this]
  · have : ¬ (mapAe φ s).brk = true := hb
    rw [if_neg hb, if_neg this]
    have hr : (mapAe φ s).vs.reverse = s.vs.reverse.map φ := by simp [mapAe, List.map_reverse]
    rw [hr]
    cases hs : s.vs.reverse with
    | nil => rfl
    | cons vk rest =>
      have hc : (mapAe φ s).cols = s.cols := rfl
      have hbeta : (mapAe φ s).beta = s.beta := rfl
      have hvs : (mapAe φ s).vs = s.vs.map φ := rfl
      cases rest with
      | nil =>
        simp only [List.map_cons, List.map_nil, hc, hbeta, hvs, nrmO, ← H.A, ← H.smul, ← H.sub, ← H.dot]
        split <;> rename_i hlt <;>
          simp only [mapAe, hlt, ↓reduceIte, List.map_cons, List.map_nil, Hd, Bool.false_eq_true]
      | cons vp r =>
        by_cases hj : s.cols.length ≥ 1
        · simp only [List.map_cons, hc, hbeta, hvs, nrmO, hj, if_true, ← H.A, ← H.smul, ← H.sub, ← H.dot]
          split <;> rename_i hlt <;>
            simp only [mapAe, hlt, ↓reduceIte, List.map_cons, List.map_nil, Hd, Bool.false_eq_true]
        · simp only [List.map_cons, hc, hbeta, hvs, nrmO, hj, if_false, ← H.A, ← H.smul, ← H.sub, ← H.dot]
          split <;> rename_i hlt <;>
            simp only [mapAe, hlt, ↓reduceIte, List.map_cons, List.map_nil, Hd, Bool.false_eq_true]

theorem aeRun_hom (sqrt : K → K) (lt : K → K → Bool) (isz : K → Bool) (tol : K) (symmetric : Bool) (v0 : V)
    (k : Nat) :
    mapAe φ (aeRun ov dv sqrt lt isz tol symmetric v0 k) = aeRun ow dw sqrt lt isz tol symmetric (φ v0) k := by
  unfold aeRun
  have hinit : mapAe φ (aeInit ov dv sqrt v0) = aeInit ow dw sqrt (φ v0) := by
    simp only [aeInit, mapAe, List.map_cons, List.map_nil, nrmO, Hd, H.dot]
  rw [← hinit]
  cases symmetric
  · exact iter_hom _ _ (mapAe φ) (arnStep_hom φ ov ow H dv dw Hd sqrt lt isz tol) k _
  · exact iter_hom _ _ (mapAe φ) (lanStep_hom φ ov ow H dv dw Hd sqrt lt tol) k _
end hom

/-! ### the `Vector K n` instance -/
variable {K : Type} [Field K] [LinearOrder K] [IsStrictOrderedRing K] {n : Nat}
variable (A : Vector (Vector K n) n) (sqrt : K → K) (tol : K)

/-- elementwise division, as in `approxEigVec` -/
def vDiv (v : Vector K n) (c : K) : Vector K n := v.map (· / c)

theorem vDiv_hom (v : Vector K n) (c : K) : toFn (vDiv v c) = mDiv (toFn v) c := by
  funext i
  simp only [toFn, vDiv, mDiv, Fin.getElem_fin, Vector.getElem_map, Pi.smul_apply, smul_eq_mul]
  ring

/-- the run the driver executes (over `K` instead of `Float`) -/
abbrev vecRun (symmetric : Bool) (v0 : Vector K n) (k : Nat) : AeSt K (Vector K n) :=
  aeRun (vecOps (fun (a : K) => a) A A) vDiv sqrt ltK iszK tol symmetric v0 k

/-- the module-level run it is carried onto -/
abbrev modRun (symmetric : Bool) (v0 : Vector K n) (k : Nat) : AeSt K (Fin n → K) :=
  aeRun (Ops.ofModule (linOf A) (linOf (vctrans (fun a => a) A)) (linOf A) (dotForm K n)) mDiv sqrt ltK iszK tol
    symmetric (toFn v0) k

theorem vecRun_map (symmetric : Bool) (v0 : Vector K n) (k : Nat) :
    mapAe toFn (vecRun A sqrt tol symmetric v0 k) = modRun A sqrt tol symmetric v0 k :=
  aeRun_hom toFn _ _ (opsHom_vec A A) vDiv mDiv vDiv_hom sqrt ltK iszK tol symmetric v0 k

theorem vecRun_cols (symmetric : Bool) (v0 : Vector K n) (k : Nat) :
    (vecRun A sqrt tol symmetric v0 k).cols = (modRun A sqrt tol symmetric v0 k).cols ∧
    (vecRun A sqrt tol symmetric v0 k).brk = (modRun A sqrt tol symmetric v0 k).brk ∧
    (vecRun A sqrt tol symmetric v0 k).vs.map toFn = (modRun A sqrt tol symmetric v0 k).vs := by
  rw [← vecRun_map]; exact ⟨rfl, rfl, rfl⟩

/-- the list-level function the driver calls (`approxEigVec`, instantiated with `Float` in `approxEigFloat`) is the
`Vector` run of `min(n, maxiter)` passes -/
theorem approxEigVec_eq (A : List (List K)) (symmetric : Bool) (maxiter : Nat) (v0 : List K)
    (A' : Vector (Vector K v0.length) v0.length) (v0' : Vector K v0.length)
    (hA : toMat? v0.length A = some A') (hv : toVec? v0.length v0 = some v0') (hm : min v0.length maxiter ≠ 0) :
    approxEigVec sqrt ltK iszK A tol symmetric maxiter v0 =
      some (((vecRun A' sqrt tol symmetric v0' (min v0.length maxiter)).vs.map (·.toList)),
        (vecRun A' sqrt tol symmetric v0' (min v0.length maxiter)).cols,
        (vecRun A' sqrt tol symmetric v0' (min v0.length maxiter)).brk) := by
  simp only [approxEigVec, hA, hv, approxEig, hm, if_false]
  rfl

theorem exact_vec (hsq : ∀ a, 0 ≤ a → sqrt a * sqrt a = a) (htol : 0 < tol) (v0 : Vector K n)
    (hv0 : toFn v0 ≠ 0) : Exact (dotForm K n) sqrt tol (toFn v0) :=
  ⟨dotForm_def, hsq, htol, hv0⟩

/-- the basis of the vector run, read in `K^n` -/
def vecBasis (s : AeSt K (Vector K n)) (i : Nat) : Fin n → K := (s.vs.map toFn).getD i 0

/-- **orthonormal basis and `H = V^T A V` for the `Vector` run** (Arnoldi branch) -/
theorem vec_arnoldi_orthonormal (hsq : ∀ a, 0 ≤ a → sqrt a * sqrt a = a) (htol : 0 < tol) (v0 : Vector K n)
    (hv0 : toFn v0 ≠ 0) (k : Nat) :
    let s := vecRun A sqrt tol false v0 k
    (∀ i j, i ≤ s.cols.length → j ≤ s.cols.length → i ≠ j → (dotForm K n).a (vecBasis s i) (vecBasis s j) = 0) ∧
    (∀ i, i < s.cols.length → (dotForm K n).a (vecBasis s i) (vecBasis s i) = 1) ∧
    (s.brk = false → (dotForm K n).a (vecBasis s s.cols.length) (vecBasis s s.cols.length) = 1) ∧
    (∀ i j, i < s.cols.length → j < s.cols.length →
      (dotForm K n).a (vecBasis s i) (linOf A (vecBasis s j)) = hEntry s.cols i j) := by
  intro s
  obtain ⟨hc, hb, hv⟩ := vecRun_cols A sqrt tol false v0 k
  have hx := exact_vec sqrt tol hsq htol v0 hv0
  obtain ⟨o1, o2, o3, _⟩ := arnoldi_model_orthonormal (linOf A) (linOf (vctrans (fun a => a) A)) (linOf A) hx k
  have hbas : vecBasis s = basisOf (modRun A sqrt tol false v0 k) := by
    funext i; simp only [vecBasis, basisOf]; rw [← hv]
  refine ⟨?_, ?_, ?_, ?_⟩
  · intro i j hi hj hij
    rw [hbas]; exact o1 i j (by rw [← hc]; exact hi) (by rw [← hc]; exact hj) hij
  · intro i hi
    rw [hbas]; exact o2 i (by rw [← hc]; exact hi)
  · intro hbf
    rw [hbas]
    have := o3 (by rw [← hb]; exact hbf)
    rw [← hc] at this; exact this
  · intro i j hi hj
    rw [hbas]
    have := arnoldi_model_H_eq (linOf A) (linOf (vctrans (fun a => a) A)) (linOf A) hx k i j
      (by rw [← hc]; exact hi) (by rw [← hc]; exact hj)
    rw [← hc] at this; exact this

/-- **Ritz values of the `Vector` run, Arnoldi branch**: `|theta| <= rho` and `lo <= theta <= hi` for all Rayleigh
bounds of the matrix -/
theorem vec_arnoldi_ritz (hsq : ∀ a, 0 ≤ a → sqrt a * sqrt a = a) (htol : 0 < tol) (v0 : Vector K n)
    (hv0 : toFn v0 ≠ 0) (k : Nat) (θ : K) (y : Nat → K)
    (hr : ArnF.IsRitz (vecRun A sqrt tol false v0 k).cols.length (hEntry (vecRun A sqrt tol false v0 k).cols) θ y) :
    (∀ ρ, (∀ x, |(dotForm K n).a (linOf A x) x| ≤ ρ * (dotForm K n).a x x) → |θ| ≤ ρ) ∧
    (∀ lo hi, (∀ x, lo * (dotForm K n).a x x ≤ (dotForm K n).a (linOf A x) x) →
      (∀ x, (dotForm K n).a (linOf A x) x ≤ hi * (dotForm K n).a x x) → lo ≤ θ ∧ θ ≤ hi) := by
  obtain ⟨hc, _, _⟩ := vecRun_cols A sqrt tol false v0 k
  have hx := exact_vec sqrt tol hsq htol v0 hv0
  rw [hc] at hr
  exact ⟨fun ρ hray => arnoldi_model_ritz_abs_le (linOf A) (linOf (vctrans (fun a => a) A)) (linOf A) hx k ρ hray θ y hr,
    fun lo hi hlo hhi =>
      arnoldi_model_ritz_between (linOf A) (linOf (vctrans (fun a => a) A)) (linOf A) hx k lo hi hlo hhi θ y hr⟩

/-- **the symmetric branch on `Vector`s** returns the same columns and flag as the general branch when the matrix
is symmetric; its Ritz values obey the same bounds -/
theorem vec_lanczos_eq_arnoldi (hsq : ∀ a, 0 ≤ a → sqrt a * sqrt a = a) (htol : 0 < tol) (v0 : Vector K n)
    (hv0 : toFn v0 ≠ 0) (hA : ∀ x y, (dotForm K n).a (linOf A x) y = (dotForm K n).a x (linOf A y)) (k : Nat) :
    (vecRun A sqrt tol true v0 k).cols = (vecRun A sqrt tol false v0 k).cols ∧
    (vecRun A sqrt tol true v0 k).brk = (vecRun A sqrt tol false v0 k).brk := by
  obtain ⟨hc, hb, _⟩ := vecRun_cols A sqrt tol false v0 k
  obtain ⟨hc', hb', _⟩ := vecRun_cols A sqrt tol true v0 k
  have hx := exact_vec sqrt tol hsq htol v0 hv0
  obtain ⟨h1, h2⟩ := lanczos_cols_eq (A := linOf A) (linOf (vctrans (fun a => a) A)) (linOf A) hx hA k
  exact ⟨by rw [hc, hc']; exact h1, by rw [hb, hb']; exact h2⟩

#print axioms vec_arnoldi_orthonormal
#print axioms vec_arnoldi_ritz
#print axioms vec_lanczos_eq_arnoldi
end PyamgV.C19S
