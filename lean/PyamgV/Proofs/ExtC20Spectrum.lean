import PyamgV.Proofs.ExtC20PoissonPD
import Mathlib.Algebra.Field.Basic
import Mathlib.Data.Rat.Cast.CharZero
import Mathlib.Tactic.SplitIfs

/-! PyamgV (C20, extension E21): **the closed-form spectrum of the FD Poisson matrices, algebraically**.

* `chebU c n` : Chebyshev polynomials of the second kind evaluated at `c`, by the recurrence
  `U_0 = 1, U_1 = 2c, U_{n+2} = 2c U_{n+1} - U_n`, over any commutative ring;
* 1-D: for `tridiag(-1, 2, -1)` of size `n` and `v_j = U_j(c)`: `(A v)_j = (2 - 2c) v_j + [j = n-1] U_n(c)`;
  hence for every root `c` of `U_n` the vector `v` is an eigenvector for `2 - 2c` (`v_0 = 1`, so `v ≠ 0`);
* N-D: by the Kronecker-sum structure of the `stencil_grid` model (`poissonFD_kron`), the product
  `v(p) = Π_i U_{coords_i(p)}(c_i)` with `U_{g_i}(c_i) = 0` is an eigenvector of the model's matrix for
  `Σ_i (2 - 2 c_i)`.  The matrix has rational entries; the roots live in any field `K` of characteristic
  zero (e.g. the reals, `c = cos(k π / (n+1))`), so the matrix acts on `K`-vectors through `Rat.cast`
  (`rowdotK`, which is `rowdot` for `K = Rat`). -/
namespace PyamgV.C20
open PyamgV.Stencil Finset

/-! ## Chebyshev recurrence and the 1-D operator over a commutative ring -/

/-- Chebyshev polynomial of the second kind `U_n` at `c` -/
def chebU {R : Type} [CommRing R] (c : R) : Nat → R
  | 0 => 1
  | 1 => 2 * c
  | n + 2 => 2 * c * chebU c (n + 1) - chebU c n

/-- `tridiag(-1, 2, -1)` over a commutative ring -/
def triR {R : Type} [CommRing R] (c c' : Nat) : R :=
  if c = c' then 2 else if c + 1 = c' ∨ c' + 1 = c then -1 else 0

theorem tri_eq_triR (c c' : Nat) : tri c c' = triR c c' := rfl

/-- the action of `tridiag(-1, 2, -1)` of size `n` on a vector -/
theorem mv_triR {R : Type} [CommRing R] (n : Nat) (v : Nat → R) (j : Nat) (hj : j < n) :
    mv n triR v j = 2 * v j - (if 1 ≤ j then v (j - 1) else 0) - (if j + 1 < n then v (j + 1) else 0) := by
  unfold mv
  have e : ∀ q ∈ range n, (triR j q : R) * v q =
      (if j = q then 2 * v q else 0) + (if j + 1 = q then -v q else 0) + (if q + 1 = j then -v q else 0) := by
    intro q _
    unfold triR
    by_cases h1 : j = q
    · subst h1
      simp
    · by_cases h2 : j + 1 = q
      · have h3 : ¬ q + 1 = j := by omega
        simp [h1, h2, h3]
      · by_cases h3 : q + 1 = j
        · simp [h1, h2, h3]
        · simp [h1, h2, h3]
  rw [Finset.sum_congr rfl e, Finset.sum_add_distrib, Finset.sum_add_distrib, sum_pick n j hj,
    Finset.sum_ite_eq]
  have e3 : (∑ q ∈ range n, if q + 1 = j then -v q else 0) = -(if 1 ≤ j then v (j - 1) else 0) := by
    cases j with
    | zero => simp
    | succ k =>
      have : ∀ q, (q + 1 = k + 1) = (q = k) := fun q => by simp
      simp only [this]
      rw [sum_pick' n k (by omega)]
      simp
  rw [e3]
  simp only [Finset.mem_range]
  split <;> ring

/-- **1-D, residual form**: `(A v)_j = (2 - 2c) v_j + [j = n-1] U_n(c)` for `v_j = U_j(c)` -/
theorem mv_triR_cheb {R : Type} [CommRing R] (n : Nat) (c : R) (j : Nat) (hj : j < n) :
    mv n triR (chebU c) j = (2 - 2 * c) * chebU c j + (if j + 1 = n then chebU c n else 0) := by
  rw [mv_triR n _ j hj]
  cases j with
  | zero =>
    by_cases h : 0 + 1 < n
    · rw [if_pos h, if_neg (by omega), if_neg (by omega)]; simp [chebU]
    · have hn : 0 + 1 = n := by omega
      rw [if_neg h, if_neg (by omega), if_pos hn, ← hn]; simp [chebU]
  | succ k =>
    rw [if_pos (by omega)]
    by_cases h : k + 1 + 1 < n
    · rw [if_pos h, if_neg (by omega)]
      show 2 * chebU c (k + 1) - chebU c k - (2 * c * chebU c (k + 1) - chebU c k) = _
      ring
    · have hn : k + 1 + 1 = n := by omega
      rw [if_neg h, if_pos hn, ← hn]
      show 2 * chebU c (k + 1) - chebU c k - 0 = _ + (2 * c * chebU c (k + 1) - chebU c k)
      ring

/-- **1-D spectrum, algebraic form**: for every root `c` of `U_n`, `v_j = U_j(c)` is an eigenvector of
`tridiag(-1, 2, -1)` of size `n` for the eigenvalue `2 - 2c` -/
theorem mv_triR_cheb_root {R : Type} [CommRing R] (n : Nat) (c : R) (hc : chebU c n = 0) (j : Nat) (hj : j < n) :
    mv n triR (chebU c) j = (2 - 2 * c) * chebU c j := by
  rw [mv_triR_cheb n c j hj, hc]; simp

/-! ## the model's matrix acting on vectors over a field of characteristic zero -/

section field
variable {K : Type} [Field K] [CharZero K]

/-- component `r` of `A v`, `A` read off the triples, `v` with entries in `K` -/
def rowdotK (T : List Triple) (v : Nat → K) (r : Nat) : K :=
  (T.map fun t => if t.1 = r then ((t.2.2 : Rat) : K) * v t.2.1 else 0).sum

theorem rowdotK_rat (T : List Triple) (v : Nat → Rat) (r : Nat) : rowdotK T v r = rowdot T v r := by
  unfold rowdotK rowdot; simp

/-- an entry function cast to `K` -/
def castM (M : Nat → Nat → Rat) : Nat → Nat → K := fun p q => ((M p q : Rat) : K)

omit [CharZero K] in
theorem rowdotK_cons (t : Triple) (T : List Triple) (v : Nat → K) (r : Nat) :
    rowdotK (t :: T) v r = (if t.1 = r then ((t.2.2 : Rat) : K) * v t.2.1 else 0) + rowdotK T v r := by
  simp [rowdotK]

theorem rowdotK_eq_mv (n : Nat) (T : List Triple) (hT : ∀ t ∈ T, t.2.1 < n) (v : Nat → K) (r : Nat) :
    rowdotK T v r = mv n (castM (entry T)) v r := by
  induction T with
  | nil => simp [rowdotK, mv, entry, castM]
  | cons t T ih =>
    rw [rowdotK_cons, ih (fun t' ht' => hT t' (by simp [ht']))]
    unfold mv
    have e : ∀ q ∈ range n, (castM (entry (t :: T)) r q : K) * v q =
        (if t.2.1 = q then (if t.1 = r then ((t.2.2 : Rat) : K) * v q else 0) else 0) + castM (entry T) r q * v q := by
      intro q _
      unfold castM
      rw [entry_cons, Rat.cast_add, add_mul]
      congr 1
      by_cases h1 : t.1 = r <;> by_cases h2 : t.2.1 = q <;> simp [h1, h2]
    rw [Finset.sum_congr rfl e, Finset.sum_add_distrib, sum_pick n t.2.1 (hT t (by simp))]

omit [CharZero K] in
theorem triR_cast (c c' : Nat) : ((tri c c' : Rat) : K) = triR c c' := by
  unfold tri triR
  split_ifs <;> simp

theorem kron_cast (g P : Nat) (M M' : Nat → Nat → Rat) (h : KronSum g P M tri M') :
    KronSum g P (castM M : Nat → Nat → K) triR (castM M') := by
  intro c c' r r' hc hc' hr hr'
  unfold castM
  rw [h c c' r r' hc hc' hr hr', Rat.cast_add]
  congr 1
  · split_ifs
    · exact triR_cast c c'
    · simp
  · split_ifs <;> simp

/-! ## tensor-product eigenvectors -/

/-- `v(p) = Π_i u_i(coords_i(p))` on the row-major grid -/
def tvec : List Nat → List (Nat → K) → Nat → K
  | _ :: gs, u :: us, p => u (p / prod gs) * tvec gs us (p % prod gs)
  | _, _, _ => 1

/-- for every axis `i`: `u_i` is an eigenvector of `tridiag(-1, 2, -1)` of size `g_i` for `l_i` -/
def EigList : List Nat → List (Nat → K) → List K → Prop
  | [], [], [] => True
  | g :: gs, u :: us, l :: ls => (∀ c < g, mv g triR u c = l * u c) ∧ EigList gs us ls
  | _, _, _ => False

/-- **tensor-product lift**: products of 1-D eigenvectors are eigenvectors of the N-D FD Poisson matrix of
the `stencil_grid` model, for the sum of the 1-D eigenvalues -/
theorem fd_tensor_eigen : ∀ (grid : List Nat) (us : List (Nat → K)) (ls : List K), EigList grid us ls →
    ∀ p < prod grid, mv (prod grid) (castM (fdEntry grid)) (tvec grid us) p = ls.sum * tvec grid us p := by
  intro grid
  induction grid with
  | nil =>
    intro us ls h p hp
    cases us with
    | cons u us => cases ls <;> exact absurd h (by simp [EigList])
    | nil =>
      cases ls with
      | cons l ls => exact absurd h (by simp [EigList])
      | nil =>
        have h0 : fdEntry [] 0 0 = 0 := by
          have := poisson_diag [] false 0 (by simp [prod])
          simpa [centre, poissonStencil, fdEntry] using this
        have hp0 : p = 0 := by simp only [prod, List.foldl_nil] at hp; omega
        subst hp0
        simp [mv, prod, castM, h0]
  | cons g gs ih =>
    intro us ls h p hp
    cases us with
    | nil => cases ls <;> exact absurd h (by simp [EigList])
    | cons u us =>
      cases ls with
      | nil => exact absurd h (by simp [EigList])
      | cons l ls =>
        obtain ⟨h1, h2⟩ := h
        rw [Stencil.prod_cons] at hp ⊢
        have hpos : 0 < prod gs := by
          rcases Nat.eq_zero_or_pos (prod gs) with h0 | h0
          · rw [h0] at hp; omega
          · exact h0
        have := mv_kron_eigen g (prod gs) hpos (castM (fdEntry (g :: gs))) triR (castM (fdEntry gs))
          (kron_cast g (prod gs) _ _ (fdEntry_kron g gs)) u (tvec gs us) l ls.sum h1 (ih us ls h2) p hp
        rw [List.sum_cons]
        exact this

omit [CharZero K] in
/-- the eigenvectors are not the zero vector when every factor has `u_i(0) = 1` -/
theorem tvec_zero : ∀ (grid : List Nat) (us : List (Nat → K)), (∀ u ∈ us, u 0 = 1) → tvec grid us 0 = 1 := by
  intro grid
  induction grid with
  | nil => intro us _; cases us <;> rfl
  | cons g gs ih =>
    intro us h
    cases us with
    | nil => rfl
    | cons u us =>
      show u (0 / prod gs) * tvec gs us (0 % prod gs) = 1
      rw [Nat.zero_div, Nat.zero_mod, h u (by simp), ih us (fun u' hu' => h u' (by simp [hu'])), one_mul]

omit [CharZero K] in
theorem eigList_cheb : ∀ (grid : List Nat) (cs : List K), List.Forall₂ (fun g c => chebU c g = 0) grid cs →
    EigList grid (cs.map chebU) (cs.map fun c => 2 - 2 * c) := by
  intro grid cs h
  induction h with
  | nil => simp [EigList]
  | cons h _ ih => exact ⟨fun j hj => mv_triR_cheb_root _ _ h j hj, ih⟩

/-- **closed-form spectrum of the FD Poisson matrix of the model, every dimension and grid shape**:
for roots `c_i` of `U_{g_i}` (one per axis) the vector `v(p) = Π_i U_{coords_i(p)}(c_i)` (nonzero: `v(0) = 1`)
satisfies `A v = (Σ_i (2 - 2 c_i)) v` -/
theorem poissonFD_spectrum (grid : List Nat) (cs : List K)
    (h : List.Forall₂ (fun g c => chebU c g = 0) grid cs) (p : Nat) (hp : p < prod grid) :
    rowdotK (stencilGrid grid (poissonFD grid.length)) (tvec grid (cs.map chebU)) p =
      (cs.map fun c => 2 - 2 * c).sum * tvec grid (cs.map chebU) p := by
  rw [rowdotK_eq_mv (prod grid) _ (fun t ht => (poissonFD_inrange grid t ht).2)]
  exact fd_tensor_eigen grid _ _ (eigList_cheb grid cs h) p hp

omit [CharZero K] in
theorem poissonFD_spectrum_nonzero (grid : List Nat) (cs : List K) : tvec grid (cs.map chebU) 0 = 1 := by
  apply tvec_zero
  intro u hu
  obtain ⟨c, _, rfl⟩ := List.mem_map.1 hu
  rfl

/-- **1-D Poisson spectrum** for the model's `n × n` matrix `tridiag(-1, 2, -1)`: for every root `c` of `U_n`,
`(A v)_j = (2 - 2c) v_j` with `v_j = U_j(c)` -/
theorem poisson1d_spectrum (n : Nat) (c : K) (hc : chebU c n = 0) (j : Nat) (hj : j < n) :
    rowdotK (stencilGrid [n] (poissonFD 1)) (chebU c) j = (2 - 2 * c) * chebU c j := by
  have h := poissonFD_spectrum [n] [c] (List.Forall₂.cons hc List.Forall₂.nil) j (by simpa [prod] using hj)
  have e : tvec [n] ([c].map chebU) = chebU c := by
    funext p
    simp [tvec, prod]
  rw [e] at h
  simpa using h

end field

/-- the tensor-product lift for arbitrary (not necessarily Chebyshev) 1-D eigenpairs, model level -/
theorem poissonFD_tensor_eigen {K : Type} [Field K] [CharZero K] (grid : List Nat) (us : List (Nat → K)) (ls : List K)
    (h : EigList grid us ls) (p : Nat) (hp : p < prod grid) :
    rowdotK (stencilGrid grid (poissonFD grid.length)) (tvec grid us) p = ls.sum * tvec grid us p := by
  rw [rowdotK_eq_mv (prod grid) _ (fun t ht => (poissonFD_inrange grid t ht).2)]
  exact fd_tensor_eigen grid us ls h p hp

end PyamgV.C20
