import Mathlib.Algebra.Order.Field.Basic
import Mathlib.Algebra.Order.AbsoluteValue.Basic
import Mathlib.Algebra.BigOperators.Group.List.Basic
import Mathlib.Algebra.BigOperators.Ring.List
import Mathlib.Tactic.FieldSimp
import Mathlib.Tactic.Linarith
import Mathlib.Tactic.Ring

/-! PyamgV (C11): classical (unmodified) Ruge–Stüben interpolation, one F-row — model of the row
body of `rs_classical_interpolation_pass2` (ruge_stuben.h:1239, `modified = false`), with the
kernel's `1e-15` relative drop test kept as a parameter `eps`. Proved: support (weights only on
strongly connected C-points), the closed formula, and **row sum one** on rows whose entries sum
to zero — under exactly the side conditions the proof forces: every strongly connected F-point
`k` has a non-zero inner denominator (i.e. shares a C-point with `i`: the second-pass condition
of the splitting) and no coupling `a_kj` is dropped by the `eps` test while non-zero. -/
namespace PyamgV.Classical

variable {K : Type*} [Field K] [LinearOrder K] [IsStrictOrderedRing K]

abbrev Row (K : Type*) := List (Nat × K)

/-- `a_kj` by linear search with `break` at the first hit; `0` when absent -/
def lookup (r : Row K) (j : Nat) : K :=
  match r.find? (fun cv => cv.1 == j) with
  | some cv => cv.2
  | none => 0

def strongC (isC : Nat → Bool) (srow : Row K) : Row K := srow.filter (fun cv => isC cv.1)
def strongF (isC : Nat → Bool) (i : Nat) (srow : Row K) : Row K :=
  srow.filter (fun cv => !isC cv.1 && decide (cv.1 ≠ i))

def rsum (r : Row K) : K := (r.map (·.2)).sum

/-- `denominator = Σ_m a_im − Σ_{strong m ≠ i} a_im` -/
def denom (i : Nat) (arow srow : Row K) : K :=
  rsum arow - rsum (srow.filter (fun cv => decide (cv.1 ≠ i)))

/-- `Σ_{l ∈ C_i^s} a_kl` -/
def inner (isC : Nat → Bool) (srow : Row K) (krow : Row K) : K :=
  ((strongC isC srow).map (fun cl => lookup krow cl.1)).sum

/-- contribution of the strong F-neighbour `k` to the numerator of `w_ij` -/
def contrib (eps : K) (isC : Nat → Bool) (srow : Row K) (A : Nat → Row K) (j : Nat)
    (ck : Nat × K) : K :=
  let a_kj := lookup (A ck.1) j
  if |a_kj| > eps * |ck.2| then ck.2 * a_kj / inner isC srow (A ck.1) else 0

def numer (eps : K) (isC : Nat → Bool) (i : Nat) (srow : Row K) (A : Nat → Row K)
    (cj : Nat × K) : K :=
  cj.2 + ((strongF isC i srow).map (contrib eps isC srow A cj.1)).sum

/-- the F-row: (fine column index, weight), in the order of the strength row -/
def classicalRow (eps : K) (isC : Nat → Bool) (i : Nat) (srow : Row K) (A : Nat → Row K) :
    Row K :=
  (strongC isC srow).map (fun cj => (cj.1, -numer eps isC i srow A cj / denom i (A i) srow))

theorem classicalRow_support (eps : K) (isC : Nat → Bool) (i : Nat) (srow : Row K)
    (A : Nat → Row K) :
    ∀ cw ∈ classicalRow eps isC i srow A, isC cw.1 = true ∧ ∃ v, (cw.1, v) ∈ srow := by
  intro cw h
  simp only [classicalRow, List.mem_map] at h
  obtain ⟨cv, hcv, rfl⟩ := h
  have := List.mem_filter.1 hcv
  exact ⟨this.2, cv.2, this.1⟩

/-- interchange of two finite sums -/
theorem sum_comm {α β : Type*} (l1 : List α) (l2 : List β) (f : α → β → K) :
    (l1.map (fun a => (l2.map (f a)).sum)).sum =
    (l2.map (fun b => (l1.map (fun a => f a b)).sum)).sum := by
  induction l1 with
  | nil => simp
  | cons a as ih =>
    simp only [List.map_cons, List.sum_cons]
    rw [ih, ← List.sum_map_add]

theorem sum_mul_left (l : List (Nat × K)) (c : K) (f : Nat × K → K) :
    (l.map (fun x => c * f x)).sum = c * (l.map f).sum := by
  induction l with
  | nil => simp
  | cons a as ih => simp only [List.map_cons, List.sum_cons, ih]; ring

/-- splitting the off-diagonal strong entries of an F-row into C- and F-neighbours -/
theorem offdiag_split (isC : Nat → Bool) (i : Nat) (hi : isC i = false) (srow : Row K) :
    rsum (srow.filter (fun cv => decide (cv.1 ≠ i))) =
      rsum (strongC isC srow) + rsum (strongF isC i srow) := by
  unfold rsum strongC strongF
  induction srow with
  | nil => simp
  | cons a rest ih =>
    by_cases hc : isC a.1 = true
    · have hne : a.1 ≠ i := by intro h; rw [h, hi] at hc; exact Bool.false_ne_true hc
      rw [List.filter_cons_of_pos (by simpa using hne), List.filter_cons_of_pos (p := fun cv : Nat × K => isC cv.1) (by simpa using hc),
        List.filter_cons_of_neg (by simp [hc])]
      simp only [List.map_cons, List.sum_cons]
      rw [ih]; ring
    · have hc' : isC a.1 = false := by simpa using hc
      by_cases hne : a.1 = i
      · rw [List.filter_cons_of_neg (by simp [hne]), List.filter_cons_of_neg (p := fun cv : Nat × K => isC cv.1) (by simpa using hc),
          List.filter_cons_of_neg (by simp [hne])]
        exact ih
      · rw [List.filter_cons_of_pos (by simpa using hne), List.filter_cons_of_neg (p := fun cv : Nat × K => isC cv.1) (by simpa using hc),
          List.filter_cons_of_pos (by simp [hc', hne])]
        simp only [List.map_cons, List.sum_cons]
        rw [ih]; ring

/-- **row sum one**: constants are interpolated exactly on zero-row-sum rows -/
theorem classicalRow_rowsum (eps : K) (isC : Nat → Bool) (i : Nat) (hi : isC i = false)
    (srow : Row K) (A : Nat → Row K)
    (hzero : rsum (A i) = 0)
    (hden : denom i (A i) srow ≠ 0)
    (hinner : ∀ ck ∈ strongF isC i srow, inner isC srow (A ck.1) ≠ 0)
    (hkeep : ∀ ck ∈ strongF isC i srow, ∀ cj ∈ strongC isC srow,
      lookup (A ck.1) cj.1 = 0 ∨ |lookup (A ck.1) cj.1| > eps * |ck.2|) :
    rsum (classicalRow eps isC i srow A) = 1 := by
  -- Σ_j contrib(k, j) = a_ik
  have hk : ∀ ck ∈ strongF isC i srow,
      ((strongC isC srow).map (fun cj => contrib eps isC srow A cj.1 ck)).sum = ck.2 := by
    intro ck hck
    have hin := hinner ck hck
    have h1 : ∀ cj ∈ strongC isC srow, contrib eps isC srow A cj.1 ck =
        ck.2 / inner isC srow (A ck.1) * lookup (A ck.1) cj.1 := by
      intro cj hcj
      unfold contrib
      rcases hkeep ck hck cj hcj with h0 | hgt
      · simp only [h0, mul_zero, zero_div]
        split <;> simp
      · simp only [hgt, if_true]; ring
    rw [List.map_congr_left h1, sum_mul_left]
    show ck.2 / inner isC srow (A ck.1) * inner isC srow (A ck.1) = ck.2
    field_simp
  -- Σ_j numerator_j = Σ_C a_ij + Σ_F a_ik
  have hnum : ((strongC isC srow).map (numer eps isC i srow A)).sum =
      rsum (strongC isC srow) + rsum (strongF isC i srow) := by
    unfold numer
    rw [List.sum_map_add, sum_comm]
    congr 1
    unfold rsum
    exact congrArg List.sum (List.map_congr_left hk)
  have hd : denom i (A i) srow = -(rsum (strongC isC srow) + rsum (strongF isC i srow)) := by
    unfold denom
    rw [hzero, offdiag_split isC i hi]; ring
  unfold rsum classicalRow
  rw [List.map_map]
  have : ((fun cw : Nat × K => cw.2) ∘
      fun cj => (cj.1, -numer eps isC i srow A cj / denom i (A i) srow)) =
      fun cj => (-(denom i (A i) srow)⁻¹) * numer eps isC i srow A cj := by
    funext cj; simp only [Function.comp]; field_simp
  rw [this, sum_mul_left, hnum]
  rw [hd] at hden ⊢
  have hne : rsum (strongC isC srow) + rsum (strongF isC i srow) ≠ 0 := by
    intro h; apply hden; rw [h]; simp
  field_simp

/-- the published formula (De Sterck–Falgout–Nolting–Yang (8)) when no coupling is dropped -/
theorem classicalRow_formula (eps : K) (isC : Nat → Bool) (i : Nat) (srow : Row K)
    (A : Nat → Row K) (cj : Nat × K) (hcj : cj ∈ strongC isC srow)
    (hkeep : ∀ ck ∈ strongF isC i srow,
      lookup (A ck.1) cj.1 = 0 ∨ |lookup (A ck.1) cj.1| > eps * |ck.2|) :
    (cj.1, -(cj.2 + ((strongF isC i srow).map (fun ck =>
        ck.2 * lookup (A ck.1) cj.1 / inner isC srow (A ck.1))).sum) / denom i (A i) srow)
      ∈ classicalRow eps isC i srow A := by
  unfold classicalRow
  rw [List.mem_map]
  refine ⟨cj, hcj, ?_⟩
  unfold numer
  congr 4
  apply congrArg List.sum
  apply List.map_congr_left
  intro ck hck
  unfold contrib
  rcases hkeep ck hck with h0 | hgt
  · simp only [h0, mul_zero, zero_div]
    split <;> simp
  · simp only [hgt, if_true]

#print axioms classicalRow_rowsum
#print axioms classicalRow_formula
end PyamgV.Classical
