import PyamgV.Proofs.ExtC20Dominant
import PyamgV.Proofs.ExtC20PoissonPD

/-! PyamgV (C20, extension E21): **strict positive definiteness of the FE Poisson matrix** (`-1` on the whole
`3^N` box, `3^N - 1` at the centre) produced by the `stencil_grid` model, every dimension `N ≥ 1`, every grid.

Structure: `A_FE = 3^N I - W`, `W = ⊗_i tridiag(1, 1, 1)` (`wsum`: the 0/1 coupling pattern), with the
**Kronecker-product structure** `W_{g::gs} (cP+r) (c'P+r') = J c c' · W_gs r r'` (`wsum_kron`).
Definiteness: `A_FE` is a symmetric Z-matrix with non-negative row sums (theorems of the build round), so
`xᵀ A x = Σ_p rowsum_p x_p² + ½ Σ_{p,q} (-a_pq)(x_p - x_q)² ≥ 0`; the row sum of a point on the face
`c = 0` is `≥ 3^{N-1} > 0` and consecutive points along the first axis are coupled by `-1`, so zero
energy forces `x = 0` line by line. -/
namespace PyamgV.C20
open PyamgV.Stencil Finset

/-- entry function of the FE Poisson matrix of the model -/
def feEntry (grid : List Nat) : Nat → Nat → Rat := entry (stencilGrid grid (poissonFE grid.length))

open Classical in
/-- `W p q` = number of offsets in `{-1,0,1}^N` that carry grid point `p` to grid point `q` (0 or 1) -/
noncomputable def wsum (grid : List Nat) (p q : Nat) : Rat :=
  ((cube grid.length).map fun o =>
    if q < prod grid ∧ p < prod grid ∧ Shift grid o (coordsR grid p) (coordsR grid q) then (1 : Rat) else 0).sum

/-- `tridiag(1, 1, 1)` -/
def triJ (c c' : Nat) : Rat := if c = c' ∨ c + 1 = c' ∨ c' + 1 = c then 1 else 0

theorem sum_map_sub' {α : Type} (l : List α) (f g : α → Rat) :
    (l.map fun a => f a - g a).sum = (l.map f).sum - (l.map g).sum := by
  induction l with
  | nil => simp
  | cons a l ih => simp only [List.map_cons, List.sum_cons, ih]; ring

theorem all_zero_replicate (N : Nat) : (List.replicate N (0 : Int)).all (fun x => decide (x = 0)) = true := by
  simp

open Classical in
/-- `A_FE = 3^N I - W` -/
theorem fe_split (grid : List Nat) (p q : Nat) :
    feEntry grid p q = (if p = q ∧ p < prod grid then (3 : Rat) ^ grid.length else 0) - wsum grid p q := by
  unfold feEntry wsum
  rw [stencilGrid_entry grid _ (poissonFE_len grid.length)]
  unfold poissonFE
  rw [List.map_map]
  have hc : (((3 ^ grid.length - 1 : Nat) : Rat)) = 3 ^ grid.length - 1 := by
    rw [Nat.cast_sub (Nat.one_le_pow _ _ (by norm_num))]; push_cast; ring
  have e : ∀ o ∈ cube grid.length,
      ((fun ov : List Int × Rat => if q < prod grid ∧ p < prod grid ∧ Shift grid ov.1 (coordsR grid p) (coordsR grid q)
          then ov.2 else 0) ∘
        fun o => (o, if o.all (fun x => x = 0) then ((3 ^ grid.length - 1 : Nat) : Rat) else (-1 : Rat))) o =
      (if q < prod grid ∧ p < prod grid ∧ Shift grid o (coordsR grid p) (coordsR grid q) then
          (if o.all (fun x => decide (x = 0)) = true then (3 : Rat) ^ grid.length else 0) else 0) -
        (if q < prod grid ∧ p < prod grid ∧ Shift grid o (coordsR grid p) (coordsR grid q) then (1 : Rat) else 0) := by
    intro o _
    simp only [Function.comp]
    by_cases h1 : q < prod grid ∧ p < prod grid ∧ Shift grid o (coordsR grid p) (coordsR grid q)
    · rw [if_pos h1, if_pos h1, if_pos h1]
      by_cases h2 : o.all (fun x => decide (x = 0)) = true
      · rw [if_pos h2, if_pos h2, hc]
      · rw [if_neg h2, if_neg h2]; ring
    · rw [if_neg h1, if_neg h1, if_neg h1]; ring
  rw [List.map_congr_left e, sum_map_sub']
  congr 1
  rw [cube_sum_zero grid.length]
  · rw [if_pos (all_zero_replicate _)]
    by_cases hpq : p < prod grid ∧ q < prod grid
    · have := shift_zero_iff grid p q hpq.1 hpq.2
      by_cases h : p = q
      · rw [if_pos ⟨hpq.2, hpq.1, this.2 h⟩, if_pos ⟨h, hpq.1⟩]
      · rw [if_neg (fun h' => h (this.1 h'.2.2)), if_neg (fun h' => h h'.1)]
    · rw [if_neg (fun h' => hpq ⟨h'.2.1, h'.1⟩),
        if_neg (fun (h' : p = q ∧ p < prod grid) => hpq ⟨h'.2, h'.1 ▸ h'.2⟩)]
  · intro o ⟨x, hx, hne⟩
    have : ¬ (o.all (fun x => decide (x = 0)) = true) := by
      intro h
      have := (List.all_eq_true.1 h) x hx
      simp only [decide_eq_true_eq] at this
      exact hne this
    rw [if_neg this]
    simp

theorem shift_cons_iff (g : Nat) (gs : List Nat) (h : Int) (t : List Int) (c c' : Nat) (cp cq : List Nat) :
    Shift (g :: gs) (h :: t) (c :: cp) (c' :: cq) ↔ ((c' : Int) = (c : Int) + h ∧ Shift gs t cp cq) :=
  ⟨fun x => x, fun x => x⟩

theorem wsum_nonneg (grid : List Nat) (p q : Nat) : 0 ≤ wsum grid p q := by
  unfold wsum
  apply sum_map_nonneg
  intro o _
  split <;> norm_num

open Classical in
/-- **Kronecker-product structure of the coupling pattern**: `W_{g::gs} = tridiag(1,1,1) ⊗ W_gs` -/
theorem wsum_kron (g : Nat) (gs : List Nat) (c c' r r' : Nat) (hc : c < g) (hc' : c' < g)
    (hr : r < prod gs) (hr' : r' < prod gs) :
    wsum (g :: gs) (c * prod gs + r) (c' * prod gs + r') = triJ c c' * wsum gs r r' := by
  have hp := lt_prod_cons g gs c r hc hr
  have hq := lt_prod_cons g gs c' r' hc' hr'
  unfold wsum
  rw [coordsR_cons g gs c r hr, coordsR_cons g gs c' r' hr']
  have hsplit : ∀ (A : Prop) (d1 : ∀ t : List Int, Decidable (A ∧ Shift gs t (coordsR gs r) (coordsR gs r'))),
      ((cube gs.length).map fun t => @ite Rat (A ∧ Shift gs t (coordsR gs r) (coordsR gs r')) (d1 t) 1 0).sum =
        if A then ((cube gs.length).map fun t => if Shift gs t (coordsR gs r) (coordsR gs r') then (1 : Rat) else 0).sum
        else 0 := by
    intro A d1
    by_cases hA : A
    · rw [if_pos hA]
      congr 1
      apply List.map_congr_left
      intro t _
      by_cases hS : Shift gs t (coordsR gs r) (coordsR gs r')
      · rw [if_pos ⟨hA, hS⟩, if_pos hS]
      · rw [if_neg (fun h => hS h.2), if_neg hS]
    · rw [if_neg hA]
      apply sum_map_eq_zero
      intro t _
      rw [if_neg (fun h => hA h.1)]
  simp only [List.length_cons, cube, List.flatMap_cons, List.flatMap_nil, List.append_nil, List.map_append,
    List.map_map, List.sum_append, Function.comp_def, shift_cons_iff, hp, hq, hr, hr', true_and]
  rw [hsplit, hsplit, hsplit]
  unfold triJ
  by_cases h0 : c = c'
  · subst h0
    rw [if_neg (by omega), if_pos (by omega), if_neg (by omega), if_pos (Or.inl rfl)]; ring
  · by_cases h1 : c + 1 = c'
    · rw [if_neg (by omega), if_neg (by omega), if_pos (by omega), if_pos (Or.inr (Or.inl h1))]; ring
    · by_cases h2 : c' + 1 = c
      · rw [if_pos (by omega), if_neg (by omega), if_neg (by omega), if_pos (Or.inr (Or.inr h2))]; ring
      · rw [if_neg (by omega), if_neg (by omega), if_neg (by omega), if_neg (by omega)]; ring

/-! ## row sums and the coupling along the first axis -/

theorem poissonFE_inrange (grid : List Nat) :
    ∀ t ∈ stencilGrid grid (poissonFE grid.length), t.1 < prod grid ∧ t.2.1 < prod grid := by
  intro t ht
  have := poisson_entries grid true t.1 t.2.1 t.2.2 ht
  exact ⟨this.1, this.2.1⟩

theorem fe_rsum_eq (grid : List Nat) (p : Nat) :
    rsum (prod grid) (feEntry grid) p = rowsum (stencilGrid grid (poissonFE grid.length)) p := by
  rw [rowsum_eq_rowdot, rowdot_eq_mv (prod grid) _ (fun t ht => (poissonFE_inrange grid t ht).2)]
  unfold rsum mv feEntry
  simp

theorem fe_rsum_nonneg (grid : List Nat) (p : Nat) (hp : p < prod grid) : 0 ≤ rsum (prod grid) (feEntry grid) p := by
  rw [fe_rsum_eq]
  exact poisson_rowsum_nonneg grid true p hp

/-- row sums of the coupling pattern are at most `3^N` -/
theorem wsum_row_le (grid : List Nat) (p : Nat) (hp : p < prod grid) :
    (∑ q ∈ range (prod grid), wsum grid p q) ≤ (3 : Rat) ^ grid.length := by
  have h := fe_rsum_nonneg grid p hp
  unfold rsum at h
  have e : ∀ q ∈ range (prod grid), feEntry grid p q =
      (if p = q then (3 : Rat) ^ grid.length else 0) - wsum grid p q := by
    intro q _
    rw [fe_split]
    by_cases hpq : p = q
    · rw [if_pos ⟨hpq, hp⟩, if_pos hpq]
    · rw [if_neg (fun h' => hpq h'.1), if_neg hpq]
  rw [Finset.sum_congr rfl e, Finset.sum_sub_distrib, sum_pick (prod grid) p hp] at h
  linarith

theorem triJ_row0_le (g : Nat) : (∑ c' ∈ range g, triJ 0 c') ≤ 2 := by
  have e : ∀ c' ∈ range g, triJ 0 c' = (if c' = 0 then (1 : Rat) else 0) + (if c' = 1 then (1 : Rat) else 0) := by
    intro c' _
    unfold triJ
    by_cases h0 : c' = 0
    · subst h0; simp
    · by_cases h1 : c' = 1
      · subst h1; simp
      · rw [if_neg (by omega), if_neg h0, if_neg h1]; ring
  rw [Finset.sum_congr rfl e, Finset.sum_add_distrib, Finset.sum_ite_eq', Finset.sum_ite_eq']
  split <;> split <;> norm_num

theorem triJ_nonneg (c c' : Nat) : 0 ≤ triJ c c' := by unfold triJ; split <;> norm_num

/-- the row sum at a point of the face `c = 0` is positive -/
theorem fe_rsum_pos_face (g : Nat) (gs : List Nat) (hg : 0 < g) (r : Nat) (hr : r < prod gs) :
    0 < rsum (g * prod gs) (feEntry (g :: gs)) (0 * prod gs + r) := by
  have hp := lt_prod_cons g gs 0 r hg hr
  rw [prod_cons] at hp
  unfold rsum
  have e : ∀ q ∈ range (g * prod gs), feEntry (g :: gs) (0 * prod gs + r) q =
      (if 0 * prod gs + r = q then (3 : Rat) ^ (gs.length + 1) else 0) - wsum (g :: gs) (0 * prod gs + r) q := by
    intro q _
    rw [fe_split, prod_cons]
    by_cases hpq : 0 * prod gs + r = q
    · rw [if_pos ⟨hpq, hp⟩, if_pos hpq]; rfl
    · rw [if_neg (fun h' => hpq h'.1), if_neg hpq]
  rw [Finset.sum_congr rfl e, Finset.sum_sub_distrib, sum_pick _ _ hp, sum_range_mul]
  have e2 : ∀ c' ∈ range g, (∑ r' ∈ range (prod gs), wsum (g :: gs) (0 * prod gs + r) (c' * prod gs + r')) =
      triJ 0 c' * ∑ r' ∈ range (prod gs), wsum gs r r' := by
    intro c' hc'
    rw [Finset.mul_sum]
    apply Finset.sum_congr rfl
    intro r' hr'
    exact wsum_kron g gs 0 c' r r' hg (Finset.mem_range.1 hc') hr (Finset.mem_range.1 hr')
  rw [Finset.sum_congr rfl e2, ← Finset.sum_mul]
  have b1 := triJ_row0_le g
  have b2 := wsum_row_le gs r hr
  have n1 : 0 ≤ ∑ c' ∈ range g, triJ 0 c' := Finset.sum_nonneg fun c' _ => triJ_nonneg 0 c'
  have n2 : 0 ≤ ∑ r' ∈ range (prod gs), wsum gs r r' := Finset.sum_nonneg fun r' _ => wsum_nonneg gs r r'
  have b3 : (∑ c' ∈ range g, triJ 0 c') * (∑ r' ∈ range (prod gs), wsum gs r r') ≤ 2 * (3 : Rat) ^ gs.length :=
    mul_le_mul b1 b2 n2 (by norm_num)
  have pw : (0 : Rat) < 3 ^ gs.length := by positivity
  have e3 : (3 : Rat) ^ (gs.length + 1) = 3 * 3 ^ gs.length := by ring
  rw [e3]
  linarith

/-- consecutive points along the first axis are coupled by `-1` -/
theorem fe_entry_next (g : Nat) (gs : List Nat) (c r : Nat) (hc : c + 1 < g) (hr : r < prod gs) :
    feEntry (g :: gs) (c * prod gs + r) ((c + 1) * prod gs + r) = -1 := by
  rw [fe_split, wsum_kron g gs c (c + 1) r r (by omega) hc hr hr]
  have hne : ¬ (c * prod gs + r = (c + 1) * prod gs + r ∧ c * prod gs + r < prod (g :: gs)) := by
    rintro ⟨h, _⟩
    rw [Nat.add_mul] at h
    omega
  rw [if_neg hne]
  have hw : wsum gs r r = 1 := by
    have h1 := fe_split gs r r
    have h2 : feEntry gs r r = ((3 ^ gs.length - 1 : Nat) : Rat) := by
      have := poisson_diag gs true r hr
      simpa [centre, poissonStencil, feEntry] using this
    have hc' : (((3 ^ gs.length - 1 : Nat) : Rat)) = 3 ^ gs.length - 1 := by
      rw [Nat.cast_sub (Nat.one_le_pow _ _ (by norm_num))]; push_cast; ring
    rw [h2, hc', if_pos ⟨rfl, hr⟩] at h1
    linarith
  rw [hw]
  simp [triJ]

/-! ## definiteness -/

theorem poissonFE_qform_eq (grid : List Nat) (x : Nat → Rat) :
    qform (stencilGrid grid (poissonFE grid.length)) x = qf (prod grid) (feEntry grid) x :=
  qform_eq_qf (prod grid) _ (poissonFE_inrange grid) x

theorem fe_symm (grid : List Nat) : ∀ p < prod grid, ∀ q < prod grid, feEntry grid p q = feEntry grid q p :=
  fun p _ q _ => poisson_entry_symm grid true p q

theorem fe_zpattern (grid : List Nat) : ∀ p < prod grid, ∀ q < prod grid, p ≠ q → feEntry grid p q ≤ 0 :=
  fun p _ q _ hpq => poisson_offdiag_nonpos grid true p q hpq

/-- **the FE Poisson matrix is positive definite**, in every dimension `≥ 1` and on every grid shape -/
theorem poissonFE_posdef (grid : List Nat) (hne : grid ≠ []) (x : Nat → Rat) :
    0 ≤ qform (stencilGrid grid (poissonFE grid.length)) x ∧
      (qform (stencilGrid grid (poissonFE grid.length)) x = 0 → ∀ p < prod grid, x p = 0) := by
  rw [poissonFE_qform_eq]
  refine ⟨qf_dominant_nonneg _ _ (fe_symm grid) (fe_zpattern grid) (fe_rsum_nonneg grid) x, ?_⟩
  intro h
  obtain ⟨z1, z2⟩ := qf_dominant_zero _ _ (fe_symm grid) (fe_zpattern grid) (fe_rsum_nonneg grid) x h
  cases grid with
  | nil => exact absurd rfl hne
  | cons g gs =>
    intro p hp
    rw [prod_cons] at hp z1 z2
    have hpos : 0 < prod gs := by
      rcases Nat.eq_zero_or_pos (prod gs) with h0 | h0
      · rw [h0] at hp; omega
      · exact h0
    have hc : p / prod gs < g := (Nat.div_lt_iff_lt_mul hpos).2 hp
    have hr : p % prod gs < prod gs := Nat.mod_lt _ hpos
    have key : ∀ c < g, x (c * prod gs + p % prod gs) = 0 := by
      intro c
      induction c with
      | zero =>
        intro hg
        have hlt := lt_prod_cons g gs 0 _ hg hr
        rw [prod_cons] at hlt
        exact z1 _ hlt (fe_rsum_pos_face g gs hg _ hr)
      | succ c ih =>
        intro hc1
        have hlt1 := lt_prod_cons g gs c _ (by omega) hr
        have hlt2 := lt_prod_cons g gs (c + 1) _ hc1 hr
        rw [prod_cons] at hlt1 hlt2
        have := z2 _ hlt1 _ hlt2 (by rw [fe_entry_next g gs c _ hc1 hr]; norm_num)
        rw [← this]
        exact ih (by omega)
    have := key (p / prod gs) hc
    rwa [Nat.div_add_mod'] at this

theorem poissonFE_nonsingular (grid : List Nat) (hne : grid ≠ []) (x : Nat → Rat)
    (h : ∀ p < prod grid, rowdot (stencilGrid grid (poissonFE grid.length)) x p = 0) :
    ∀ p < prod grid, x p = 0 := by
  apply (poissonFE_posdef grid hne x).2
  rw [qform_eq_sum_rowdot (prod grid) _ (fun t ht => (poissonFE_inrange grid t ht).1)]
  apply Finset.sum_eq_zero
  intro p hp
  rw [h p (Finset.mem_range.1 hp)]; ring

/-- **what `poisson(grid, type)` returns is positive definite and nonsingular**, `FD` and `FE` -/
theorem poisson_posdef (grid : List Nat) (fe : Bool) (T : List Triple) (h : poisson grid fe = some T) (x : Nat → Rat) :
    0 ≤ qform T x ∧ (qform T x = 0 → ∀ p < prod grid, x p = 0) ∧
      ((∀ p < prod grid, rowdot T x p = 0) → ∀ p < prod grid, x p = 0) := by
  cases fe
  · exact poisson_fd_posdef grid T h x
  · unfold poisson at h
    split at h
    · exact absurd h (by simp)
    · rename_i hg
      have hne : grid ≠ [] := by
        intro h0; apply hg; left; rw [h0]; decide
      have hT : T = stencilGrid grid (poissonFE grid.length) := by
        simpa [poissonStencil] using (Option.some.inj h).symm
      rw [hT]
      exact ⟨(poissonFE_posdef grid hne x).1, (poissonFE_posdef grid hne x).2, poissonFE_nonsingular grid hne x⟩

end PyamgV.C20
