import PyamgV.Model.ExtGlue
import PyamgV.Proofs.ExtC11RefineMod
import PyamgV.Proofs.ExtC11RefineDirect

/-! PyamgV (extension E30, C11 / C13): the SciPy glue models of Model/ExtGlue.lean

* produce CSR matrices whose rows are what the wrapper means (`ofRows_row`): `eliminate_zeros` is the
  order preserving filter of the stored non-zeros, `sort_indices` a stable permutation into ascending
  columns, `sum_duplicates` a canonical row, `multiply` the entrywise product, …
* preserve the dense meaning `dval r j` (sum of the stored entries of column `j`) where the
  wrapper relies on it,
* and hand the next kernel exactly the matrix its refinement theorem assumes: the hypothesis `hS'`
  of `C11X.classicalMod_kernels_refine` is discharged, so the public
  `classical_interpolation(A, C, splitting, modified=…)` path (model `Glue.apiClassical`) is related
  to `C11.classicalModP` / `C11.classicalP` by one theorem each (`apiClassical_modified_refines`,
  `apiClassical_unmodified_refines`), likewise `direct_interpolation` (`apiDirect_refines`). -/
namespace PyamgV.Glue
open PyamgV.N PyamgV.C11 PyamgV.C11M PyamgV.C11X

/-! ### `ofRows` -/

theorem row_eq_rowOf (A : Csr) (i : Nat) : row A i = rowOf A i := rfl

theorem ofRows_state (rows : Nat → List (Nat × Rat)) (m : Nat) :
    let r := (List.range m).foldl (ofRowsStep rows) (#[0], #[], #[])
    r.1.size = m + 1 ∧
    (∀ j ≤ m, rdN r.1 j = off (fun i => (rows i).length) j) ∧
    PushInv (0 : Nat) (0 : Rat) rows m r.2.1 r.2.2 := by
  induction m with
  | zero =>
    refine ⟨by simp, ?_, pushInv_zero _ _ _⟩
    intro j hj
    have : j = 0 := by omega
    subst this; simp [off, rdN]
  | succ m ih =>
    obtain ⟨h1, h2, h3⟩ := ih
    simp only [List.range_succ, List.foldl_append, List.foldl_cons, List.foldl_nil]
    generalize (List.range m).foldl (ofRowsStep rows) (#[0], #[], #[]) = r at h1 h2 h3 ⊢
    have hstep := pushInv_step _ _ _ m r.2.1 r.2.2 h3
    refine ⟨by simp [ofRowsStep, h1], ?_, hstep⟩
    intro j hj
    simp only [ofRowsStep, rdN]
    rw [Array.getD_eq_getD_getElem?, Array.getElem?_push]
    rcases Nat.lt_succ_iff_lt_or_eq.1 (Nat.lt_succ_of_le hj) with hlt | heq
    · have h := h2 j (by omega)
      simp only [rdN] at h
      rw [Array.getD_eq_getD_getElem?] at h
      have hne : j ≠ r.1.size := by omega
      simp only [hne, if_false]
      exact h
    · have he : j = r.1.size := by omega
      simp only [he, if_true, Option.getD_some]
      rw [hstep.1, h1]

@[simp] theorem ofRows_n (n : Nat) (rows : Nat → List (Nat × Rat)) : (ofRows n rows).n = n := rfl

/-- the row pointer of `ofRows` is the prefix sum of the row lengths -/
theorem ofRows_ap (n : Nat) (rows : Nat → List (Nat × Rat)) {j : Nat} (hj : j ≤ n) :
    rdN (ofRows n rows).ap j = off (fun i => (rows i).length) j :=
  (ofRows_state rows n).2.1 j hj

/-- **row `i` of `ofRows n rows` is `rows i`** -/
theorem ofRows_row (n : Nat) (rows : Nat → List (Nat × Rat)) {i : Nat} (hi : i < n) :
    row (ofRows n rows) i = rows i := by
  obtain ⟨_, h2, h3⟩ := ofRows_state rows n
  have : row (ofRows n rows) i =
      rowAt (0 : Nat) (0 : Rat) (ofRows n rows).ap (ofRows n rows).aj (ofRows n rows).ax i := rfl
  rw [this, rowAt_of_off 0 0 (fun i => (rows i).length) (ofRows n rows).ap _ _ n h2 hi]
  exact h3.2.2 i hi

theorem ofRows_ap_mono (n : Nat) (rows : Nat → List (Nat × Rat)) {i : Nat} (hi : i < n) :
    rdN (ofRows n rows).ap i ≤ rdN (ofRows n rows).ap (i + 1) := by
  rw [ofRows_ap n rows (Nat.le_of_lt hi), ofRows_ap n rows hi, off_succ]
  omega

theorem ofRows_ap_zero (n : Nat) (rows : Nat → List (Nat × Rat)) : rdN (ofRows n rows).ap 0 = 0 := by
  rw [ofRows_ap n rows (Nat.zero_le n), off_zero]

/-- the stored entries of a row, position by position -/
theorem mem_row_of_jj (A : Csr) {i jj : Nat} (h : jj ∈ A.jjs i) : (rdN A.aj jj, rdQ A.ax jj) ∈ row A i :=
  List.mem_map.2 ⟨jj, h, rfl⟩

/-! ### dense meaning -/

theorem dval_nil (j : Nat) : dval [] j = 0 := rfl

theorem dval_cons (a : Nat × Rat) (r : List (Nat × Rat)) (j : Nat) :
    dval (a :: r) j = (if a.1 = j then a.2 else 0) + dval r j := by
  unfold dval
  by_cases h : a.1 = j
  · simp [h]
  · have : (a.1 == j) = false := by simpa using h
    simp [this, h]

theorem dval_append (r s : List (Nat × Rat)) (j : Nat) : dval (r ++ s) j = dval r j + dval s j := by
  induction r with
  | nil => simp [dval_nil]
  | cons a r ih => rw [List.cons_append, dval_cons, dval_cons, ih, add_assoc]

theorem dval_perm {r s : List (Nat × Rat)} (h : r.Perm s) (j : Nat) : dval r j = dval s j := by
  induction h with
  | nil => rfl
  | cons a _ ih => rw [dval_cons, dval_cons, ih]
  | swap a b l => rw [dval_cons, dval_cons, dval_cons, dval_cons]; ring
  | trans _ _ ih1 ih2 => rw [ih1, ih2]

theorem dval_eq_zero_of_not_mem (r : List (Nat × Rat)) (j : Nat) (h : ∀ cv ∈ r, cv.1 ≠ j) : dval r j = 0 := by
  induction r with
  | nil => rfl
  | cons a r ih =>
    rw [dval_cons, if_neg (h a List.mem_cons_self), ih (fun cv hcv => h cv (List.mem_cons_of_mem _ hcv)), add_zero]

/-! ### eliminate_zeros, data[:] = 1, abs, scaling -/

@[simp] theorem eliminateZeros_n (C : Csr) : (eliminateZeros C).n = C.n := rfl

/-- **`eliminate_zeros`: row `i` of the result is the stored non-zeros of row `i`, in storage order** -/
theorem eliminateZeros_row (C : Csr) {i : Nat} (hi : i < C.n) :
    row (eliminateZeros C) i = (row C i).filter nz := ofRows_row _ _ hi

theorem dval_filter_nz (r : List (Nat × Rat)) (j : Nat) : dval (r.filter nz) j = dval r j := by
  induction r with
  | nil => rfl
  | cons a r ih =>
    by_cases h : a.2 = 0
    · have : nz a = false := by simp [nz, h]
      rw [List.filter_cons_of_neg (by simp [this]), ih, dval_cons, h]
      simp
    · have : nz a = true := by simp [nz, h]
      rw [List.filter_cons_of_pos this, dval_cons, dval_cons, ih]

/-- `eliminate_zeros` does not change the matrix (dense meaning of every row) -/
theorem eliminateZeros_dense (C : Csr) {i : Nat} (hi : i < C.n) (j : Nat) :
    dval (row (eliminateZeros C) i) j = dval (row C i) j := by
  rw [eliminateZeros_row C hi, dval_filter_nz]

/-- … and leaves no stored zero -/
theorem eliminateZeros_nz (C : Csr) {i : Nat} (hi : i < C.n) :
    ∀ cv ∈ row (eliminateZeros C) i, cv.2 ≠ 0 := by
  intro cv hcv
  rw [eliminateZeros_row C hi] at hcv
  simpa [nz] using (List.mem_filter.1 hcv).2

theorem eliminateZeros_ap_mono (C : Csr) {i : Nat} (hi : i < C.n) :
    rdN (eliminateZeros C).ap i ≤ rdN (eliminateZeros C).ap (i + 1) := ofRows_ap_mono _ _ hi

/-- `eliminate_zeros` twice is `eliminate_zeros` once (row by row) -/
theorem eliminateZeros_idem_row (C : Csr) {i : Nat} (hi : i < C.n) :
    row (eliminateZeros (eliminateZeros C)) i = row (eliminateZeros C) i := by
  rw [eliminateZeros_row _ (by simpa using hi), eliminateZeros_row C hi, List.filter_filter]
  simp

@[simp] theorem setOnes_n (C : Csr) : (setOnes C).n = C.n := rfl

theorem setOnes_row (C : Csr) {i : Nat} (hi : i < C.n) :
    row (setOnes C) i = (row C i).map (fun cv => (cv.1, (1 : Rat))) := ofRows_row _ _ hi

theorem absData_row (C : Csr) {i : Nat} (hi : i < C.n) :
    row (absData C) i = (row C i).map (fun cv => (cv.1, absQ cv.2)) := ofRows_row _ _ hi

theorem scaleRowsByLargest_row (tiny : Rat) (C : Csr) {i : Nat} (hi : i < C.n) :
    row (scaleRowsByLargest tiny C) i = (row C i).map (fun cv => (cv.1, cv.2 * rowScale tiny (row C i))) :=
  ofRows_row _ _ hi

theorem maxRowValue_ge (tiny : Rat) (r : List (Nat × Rat)) : tiny ≤ maxRowValue tiny r := by
  unfold maxRowValue
  induction r generalizing tiny with
  | nil => exact le_refl _
  | cons a r ih => exact le_trans (le_max_left _ _) (ih (max tiny (absQ a.2)))

theorem rowScale_pos (tiny : Rat) (ht : 0 < tiny) (r : List (Nat × Rat)) : 0 < rowScale tiny r := by
  have h := lt_of_lt_of_le ht (maxRowValue_ge tiny r)
  unfold rowScale
  rw [if_pos (ne_of_gt h)]
  positivity

/-- **the tail of `classical_strength_of_connection`** (`abs`, `scale_rows_by_largest_entry`,
`eliminate_zeros`; `tiny = numeric_limits::min() > 0`): row `i` keeps exactly the kernel's non-zero
entries, in order, with positive values — the pattern is the non-zero pattern of the kernel output -/
theorem strengthTail_row (tiny : Rat) (ht : 0 < tiny) (n : Nat) (o : Out) {i : Nat} (hi : i < n) :
    row (strengthTail tiny n o) i =
      ((row ⟨n, o.sp, o.sj, o.sx⟩ i).filter nz).map
        (fun cv => (cv.1, absQ cv.2 * rowScale tiny ((row ⟨n, o.sp, o.sj, o.sx⟩ i).map (fun cv => (cv.1, absQ cv.2))))) := by
  unfold strengthTail
  rw [eliminateZeros_row _ (by exact hi), scaleRowsByLargest_row _ _ (by exact hi), absData_row _ (by exact hi)]
  generalize row ⟨n, o.sp, o.sj, o.sx⟩ i = r
  have hs := rowScale_pos tiny ht (r.map (fun cv => (cv.1, absQ cv.2)))
  generalize rowScale tiny (r.map (fun cv => (cv.1, absQ cv.2))) = s at hs
  induction r with
  | nil => rfl
  | cons a r ih =>
    simp only [List.map_cons]
    by_cases h : a.2 = 0
    · have h1 : nz a = false := by simp [nz, h]
      have h2 : nz (a.1, absQ a.2 * s) = false := by simp [nz, h, absQ]
      rw [List.filter_cons_of_neg (by simp [h2]), List.filter_cons_of_neg (by simp [h1])]
      exact ih
    · have h1 : nz a = true := by simp [nz, h]
      have habs : absQ a.2 ≠ 0 := by
        rw [absQ_eq_abs]; exact abs_ne_zero.2 h
      have h2 : nz (a.1, absQ a.2 * s) = true := by
        simp only [nz, ne_eq, decide_eq_true_eq]
        exact mul_ne_zero habs (ne_of_gt hs)
      rw [List.filter_cons_of_pos h2, List.filter_cons_of_pos h1, List.map_cons, ih]

/-! ### sort_indices -/

theorem insertCol_perm (a : Nat × Rat) (l : List (Nat × Rat)) : (insertCol a l).Perm (a :: l) := by
  induction l with
  | nil => exact List.Perm.refl _
  | cons b l ih =>
    simp only [insertCol]
    by_cases h : a.1 < b.1
    · rw [if_pos h]
    · rw [if_neg h]; exact (List.Perm.cons b ih).trans (List.Perm.swap a b l)

theorem sortFold_perm (r acc : List (Nat × Rat)) :
    (r.foldl (fun acc a => insertCol a acc) acc).Perm (r ++ acc) := by
  induction r generalizing acc with
  | nil => exact List.Perm.refl _
  | cons a r ih =>
    simp only [List.foldl_cons, List.cons_append]
    exact (ih (insertCol a acc)).trans
      ((List.Perm.append_left r (insertCol_perm a acc)).trans List.perm_middle)

/-- `sort_indices` permutes the entries of every row … -/
theorem sortRow_perm (r : List (Nat × Rat)) : (sortRow r).Perm r := by
  have := sortFold_perm r []
  simpa [sortRow] using this

theorem insertCol_sorted (a : Nat × Rat) (l : List (Nat × Rat)) (h : l.Pairwise (fun x y => x.1 ≤ y.1)) :
    (insertCol a l).Pairwise (fun x y => x.1 ≤ y.1) := by
  induction l with
  | nil => simp [insertCol]
  | cons b l ih =>
    simp only [insertCol]
    rw [List.pairwise_cons] at h
    by_cases hab : a.1 < b.1
    · rw [if_pos hab, List.pairwise_cons]
      refine ⟨?_, List.pairwise_cons.2 h⟩
      intro x hx
      rcases List.mem_cons.1 hx with rfl | hx
      · exact Nat.le_of_lt hab
      · exact Nat.le_trans (Nat.le_of_lt hab) (h.1 x hx)
    · rw [if_neg hab, List.pairwise_cons]
      refine ⟨?_, ih h.2⟩
      intro x hx
      rcases List.mem_cons.1 ((insertCol_perm a l).mem_iff.1 hx) with rfl | hx
      · omega
      · exact h.1 x hx

theorem sortFold_sorted (r acc : List (Nat × Rat)) (h : acc.Pairwise (fun x y => x.1 ≤ y.1)) :
    (r.foldl (fun acc a => insertCol a acc) acc).Pairwise (fun x y => x.1 ≤ y.1) := by
  induction r generalizing acc with
  | nil => exact h
  | cons a r ih => exact ih _ (insertCol_sorted a acc h)

/-- … into ascending column order -/
theorem sortRow_sorted (r : List (Nat × Rat)) : (sortRow r).Pairwise (fun x y => x.1 ≤ y.1) :=
  sortFold_sorted r [] List.Pairwise.nil

theorem insertCol_of_le (a : Nat × Rat) (l : List (Nat × Rat)) (h : ∀ b ∈ l, b.1 ≤ a.1) :
    insertCol a l = l ++ [a] := by
  induction l with
  | nil => rfl
  | cons b l ih =>
    simp only [insertCol]
    have hb := h b List.mem_cons_self
    rw [if_neg (by omega), ih (fun c hc => h c (List.mem_cons_of_mem _ hc))]
    rfl

theorem sortFold_of_sorted (r acc : List (Nat × Rat)) (h : (acc ++ r).Pairwise (fun x y => x.1 ≤ y.1)) :
    r.foldl (fun acc a => insertCol a acc) acc = acc ++ r := by
  induction r generalizing acc with
  | nil => simp
  | cons a r ih =>
    simp only [List.foldl_cons]
    have ha : ∀ b ∈ acc, b.1 ≤ a.1 := by
      intro b hb
      exact (List.pairwise_append.1 h).2.2 b hb a List.mem_cons_self
    rw [insertCol_of_le a acc ha, ih (acc ++ [a]) (by simpa using h)]
    simp

/-- rows that are already sorted (duplicates allowed) are left alone — SciPy skips the sort there -/
theorem sortRow_of_sorted (r : List (Nat × Rat)) (h : r.Pairwise (fun x y => x.1 ≤ y.1)) : sortRow r = r := by
  have := sortFold_of_sorted r [] (by simpa using h)
  simpa [sortRow] using this

theorem insertCol_filter (a : Nat × Rat) (l : List (Nat × Rat)) (h : l.Pairwise (fun x y => x.1 ≤ y.1)) (j : Nat) :
    (insertCol a l).filter (fun cv => cv.1 == j) =
      l.filter (fun cv => cv.1 == j) ++ (if a.1 = j then [a] else []) := by
  induction l with
  | nil =>
    by_cases haj : a.1 = j
    · simp [insertCol, haj]
    · simp [insertCol, haj]
  | cons b l ih =>
    simp only [insertCol]
    rw [List.pairwise_cons] at h
    by_cases hab : a.1 < b.1
    · rw [if_pos hab]
      by_cases haj : a.1 = j
      · have hnone : (b :: l).filter (fun cv => cv.1 == j) = [] := by
          rw [List.filter_eq_nil_iff]
          intro x hx
          have : b.1 ≤ x.1 := by
            rcases List.mem_cons.1 hx with rfl | hx
            · exact Nat.le_refl _
            · exact h.1 x hx
          simp only [beq_iff_eq]
          omega
        rw [List.filter_cons_of_pos (by simp [haj]), hnone, if_pos haj]
        rfl
      · rw [List.filter_cons_of_neg (by simp [haj]), if_neg haj, List.append_nil]
    · rw [if_neg hab, List.filter_cons, List.filter_cons, ih h.2]
      split
      · rfl
      · rfl

theorem sortFold_filter (r acc : List (Nat × Rat)) (h : acc.Pairwise (fun x y => x.1 ≤ y.1)) (j : Nat) :
    (r.foldl (fun acc a => insertCol a acc) acc).filter (fun cv => cv.1 == j) =
      acc.filter (fun cv => cv.1 == j) ++ r.filter (fun cv => cv.1 == j) := by
  induction r generalizing acc with
  | nil => simp
  | cons a r ih =>
    simp only [List.foldl_cons]
    rw [ih _ (insertCol_sorted a acc h), insertCol_filter a acc h, List.append_assoc]
    congr 1
    by_cases haj : a.1 = j
    · rw [if_pos haj, List.filter_cons_of_pos (by simp [haj])]
      rfl
    · rw [if_neg haj, List.filter_cons_of_neg (by simp [haj])]
      rfl

/-- the modelled sort is stable: the entries of one column keep their storage order (so
`sum_duplicates` adds duplicates in storage order) -/
theorem sortRow_stable (r : List (Nat × Rat)) (j : Nat) :
    (sortRow r).filter (fun cv => cv.1 == j) = r.filter (fun cv => cv.1 == j) := by
  have := sortFold_filter r [] List.Pairwise.nil j
  simpa [sortRow] using this

@[simp] theorem sortIndices_n (C : Csr) : (sortIndices C).n = C.n := rfl

/-- **`sort_indices`**: row `i` of the result is a permutation of row `i`, ascending in the column,
and the matrix (dense meaning) is unchanged -/
theorem sortIndices_spec (C : Csr) {i : Nat} (hi : i < C.n) :
    (row (sortIndices C) i).Perm (row C i) ∧
    (row (sortIndices C) i).Pairwise (fun x y => x.1 ≤ y.1) ∧
    ∀ j, dval (row (sortIndices C) i) j = dval (row C i) j := by
  have h : row (sortIndices C) i = sortRow (row C i) := ofRows_row _ _ hi
  rw [h]
  exact ⟨sortRow_perm _, sortRow_sorted _, fun j => dval_perm (sortRow_perm _) j⟩

/-! ### sum_duplicates -/

theorem dval_sumAdjGo (j : Nat) (x : Rat) (l : List (Nat × Rat)) (c : Nat) :
    dval (sumAdjGo j x l) c = (if j = c then x else 0) + dval l c := by
  induction l generalizing j x with
  | nil => simp [sumAdjGo, dval_cons, dval_nil]
  | cons b l ih =>
    simp only [sumAdjGo]
    by_cases h : b.1 = j
    · rw [if_pos h, ih, dval_cons, h]
      by_cases hc : j = c
      · simp only [hc, if_true]; ring
      · simp only [hc, if_false]; ring
    · rw [if_neg h, dval_cons, ih, dval_cons]

theorem dval_sumAdj (r : List (Nat × Rat)) (c : Nat) : dval (sumAdj r) c = dval r c := by
  cases r with
  | nil => rfl
  | cons a l => simp only [sumAdj]; rw [dval_sumAdjGo, dval_cons]

theorem sumAdjGo_cols (j : Nat) (x : Rat) (l : List (Nat × Rat)) :
    ∀ cv ∈ sumAdjGo j x l, cv.1 = j ∨ cv.1 ∈ l.map Prod.fst := by
  induction l generalizing j x with
  | nil => intro cv hcv; simp [sumAdjGo] at hcv; left; rw [hcv]
  | cons b l ih =>
    intro cv hcv
    simp only [sumAdjGo] at hcv
    by_cases h : b.1 = j
    · rw [if_pos h] at hcv
      rcases ih j _ cv hcv with h1 | h1
      · exact Or.inl h1
      · exact Or.inr (by simp only [List.map_cons]; exact List.mem_cons_of_mem _ h1)
    · rw [if_neg h] at hcv
      rcases List.mem_cons.1 hcv with rfl | hcv
      · exact Or.inl rfl
      · right
        simp only [List.map_cons]
        rcases ih b.1 b.2 cv hcv with h1 | h1
        · rw [h1]; exact List.mem_cons_self
        · exact List.mem_cons_of_mem _ h1

theorem sumAdjGo_incr (j : Nat) (x : Rat) (l : List (Nat × Rat))
    (h : (j :: l.map Prod.fst).Pairwise (· ≤ ·)) : ((sumAdjGo j x l).map Prod.fst).Pairwise (· < ·) := by
  induction l generalizing j x with
  | nil => simp [sumAdjGo]
  | cons b l ih =>
    simp only [sumAdjGo]
    simp only [List.map_cons, List.pairwise_cons] at h
    by_cases hb : b.1 = j
    · rw [if_pos hb]
      apply ih
      rw [List.pairwise_cons]
      exact ⟨fun c hc => h.1 c (List.mem_cons_of_mem _ hc), h.2.2⟩
    · rw [if_neg hb]
      have hjb : j < b.1 := by
        have := h.1 b.1 List.mem_cons_self
        omega
      simp only [List.map_cons, List.pairwise_cons]
      refine ⟨?_, ih b.1 b.2 (List.pairwise_cons.2 h.2)⟩
      intro c hc
      rw [List.mem_map] at hc
      obtain ⟨cv, hcv, rfl⟩ := hc
      rcases sumAdjGo_cols b.1 b.2 l cv hcv with h1 | h1
      · omega
      · have := h.2.1 cv.1 h1
        omega

theorem sumAdj_incr (r : List (Nat × Rat)) (h : r.Pairwise (fun x y => x.1 ≤ y.1)) :
    ((sumAdj r).map Prod.fst).Pairwise (· < ·) := by
  cases r with
  | nil => simp [sumAdj]
  | cons a l =>
    simp only [sumAdj]
    apply sumAdjGo_incr
    have := List.pairwise_map.2 h
    simpa using this

@[simp] theorem sumDuplicates_n (C : Csr) : (sumDuplicates C).n = C.n := rfl

theorem sumDuplicates_row (C : Csr) {i : Nat} (hi : i < C.n) :
    row (sumDuplicates C) i = sumAdj (sortRow (row C i)) := ofRows_row _ _ hi

/-! ### canonical format -/

theorem incr_iff (l : List Nat) : incr l = true ↔ l.Pairwise (· < ·) := by
  induction l with
  | nil => simp [incr]
  | cons a l ih =>
    cases l with
    | nil => simp [incr]
    | cons b l =>
      simp only [incr, Bool.and_eq_true, decide_eq_true_eq]
      rw [ih, List.pairwise_cons (a := a)]
      constructor
      · rintro ⟨hab, hp⟩
        refine ⟨?_, hp⟩
        intro x hx
        rcases List.mem_cons.1 hx with rfl | hx
        · exact hab
        · exact Nat.lt_trans hab ((List.pairwise_cons.1 hp).1 x hx)
      · rintro ⟨h1, hp⟩
        exact ⟨h1 b List.mem_cons_self, hp⟩

/-- `csr_has_canonical_format`: monotone row pointer, strictly increasing columns in every row -/
theorem isCanonical_iff (A : Csr) : isCanonical A = true ↔
    ∀ i < A.n, rdN A.ap i ≤ rdN A.ap (i + 1) ∧ ((row A i).map Prod.fst).Pairwise (· < ·) := by
  unfold isCanonical
  rw [List.all_eq_true]
  constructor
  · intro h i hi
    have := h i (List.mem_range.2 hi)
    simp only [Bool.and_eq_true, decide_eq_true_eq] at this
    exact ⟨this.1, (incr_iff _).1 this.2⟩
  · intro h i hi
    obtain ⟨h1, h2⟩ := h i (List.mem_range.1 hi)
    simp only [Bool.and_eq_true, decide_eq_true_eq]
    exact ⟨h1, (incr_iff _).2 h2⟩

theorem isCanonical_ofRows (n : Nat) (rows : Nat → List (Nat × Rat))
    (h : ∀ i < n, ((rows i).map Prod.fst).Pairwise (· < ·)) : isCanonical (ofRows n rows) = true := by
  rw [isCanonical_iff]
  intro i hi
  rw [ofRows_row n rows hi]
  exact ⟨ofRows_ap_mono n rows hi, h i hi⟩

/-- **`sum_duplicates`**: the result is canonical and the matrix (dense meaning) is unchanged -/
theorem sumDuplicates_spec (C : Csr) :
    isCanonical (sumDuplicates C) = true ∧
    ∀ i < C.n, ∀ j, dval (row (sumDuplicates C) i) j = dval (row C i) j := by
  refine ⟨isCanonical_ofRows _ _ (fun i _ => sumAdj_incr _ (sortRow_sorted _)), ?_⟩
  intro i hi j
  rw [sumDuplicates_row C hi, dval_sumAdj, dval_perm (sortRow_perm _)]

/-- on a canonical row `sum_duplicates` does nothing -/
theorem sumAdj_of_incr (r : List (Nat × Rat)) (h : (r.map Prod.fst).Pairwise (· < ·)) : sumAdj r = r := by
  cases r with
  | nil => rfl
  | cons a l =>
    simp only [sumAdj]
    induction l generalizing a with
    | nil => rfl
    | cons b l ih =>
      simp only [List.map_cons, List.pairwise_cons] at h
      have hab : a.1 < b.1 := h.1 b.1 List.mem_cons_self
      simp only [sumAdjGo]
      rw [if_neg (by omega), ih b (by simp only [List.map_cons, List.pairwise_cons]; exact h.2)]

theorem sumDuplicates_canonical_row (C : Csr) (hc : isCanonical C = true) {i : Nat} (hi : i < C.n) :
    row (sumDuplicates C) i = row C i := by
  have h := ((isCanonical_iff C).1 hc i hi).2
  rw [sumDuplicates_row C hi, sortRow_of_sorted, sumAdj_of_incr _ h]
  have := List.pairwise_map.1 h
  exact this.imp (fun hxy => Nat.le_of_lt hxy)

/-! ### multiply -/

theorem dval_emit (j : Nat) (v : Rat) (c : Nat) : dval (emit j v) c = if j = c then v else 0 := by
  unfold emit
  by_cases hv : v = 0
  · simp [hv, dval_nil]
  · rw [if_pos hv, dval_cons, dval_nil, add_zero]

theorem flatMap_congr' {α β : Type} (l : List α) (f g : α → List β) (h : ∀ a ∈ l, f a = g a) :
    l.flatMap f = l.flatMap g := by
  induction l with
  | nil => rfl
  | cons a l ih =>
    rw [List.flatMap_cons, List.flatMap_cons, h a List.mem_cons_self,
      ih (fun b hb => h b (List.mem_cons_of_mem _ hb))]

theorem lookup_cons_ne (b : Nat × Rat) (r : List (Nat × Rat)) (j : Nat) (h : b.1 ≠ j) :
    Classical.lookup (b :: r) j = Classical.lookup r j := by
  unfold Classical.lookup
  have : (b.1 == j) = false := by simpa using h
  rw [List.find?_cons_of_neg (by simp [this])]

theorem lookup_cons_eq (b : Nat × Rat) (r : List (Nat × Rat)) : Classical.lookup (b :: r) b.1 = b.2 := by
  unfold Classical.lookup
  rw [List.find?_cons_of_pos (by simp)]

theorem lookup_of_not_mem (r : List (Nat × Rat)) (j : Nat) (h : ∀ cv ∈ r, cv.1 ≠ j) :
    Classical.lookup r j = 0 := by
  induction r with
  | nil => rfl
  | cons b r ih =>
    rw [lookup_cons_ne b r j (h b List.mem_cons_self), ih (fun cv hcv => h cv (List.mem_cons_of_mem _ hcv))]

/-- the entrywise product of a row with a (canonical) row `rb`, as a list: every entry of `ra` whose
product with `rb`'s entry of the same column is non-zero, in the order of `ra` -/
def mulSpec (ra rb : List (Nat × Rat)) : List (Nat × Rat) :=
  ra.flatMap (fun a => emit a.1 (a.2 * Classical.lookup rb a.1))

/-- **one row of `csr_binop_csr_canonical` (`*`)**: on rows with strictly increasing columns the
two-pointer merge is the entrywise product `mulSpec` -/
theorem mulRowCanon_spec (fuel : Nat) (ra rb : List (Nat × Rat)) (hf : ra.length + rb.length ≤ fuel)
    (ha : (ra.map Prod.fst).Pairwise (· < ·)) (hb : (rb.map Prod.fst).Pairwise (· < ·)) :
    mulRowCanon fuel ra rb = mulSpec ra rb := by
  unfold mulSpec
  induction fuel generalizing ra rb with
  | zero =>
    have : ra = [] := List.eq_nil_of_length_eq_zero (by omega)
    subst this; rfl
  | succ fuel ih =>
    cases ra with
    | nil => rfl
    | cons a ra =>
      cases rb with
      | nil =>
        simp only [mulRowCanon]
        symm
        rw [List.flatMap_eq_nil_iff]
        intro x _
        simp [emit, Classical.lookup]
      | cons b rb =>
        simp only [mulRowCanon]
        simp only [List.map_cons, List.pairwise_cons] at ha hb
        simp only [List.length_cons] at hf
        by_cases h1 : a.1 = b.1
        · rw [if_pos h1, List.flatMap_cons, ih ra rb (by omega) ha.2 hb.2]
          congr 1
          · rw [h1, lookup_cons_eq]
          · apply flatMap_congr'
            intro x hx
            have : a.1 < x.1 := ha.1 x.1 (List.mem_map.2 ⟨x, hx, rfl⟩)
            rw [lookup_cons_ne b rb x.1 (by omega)]
        · rw [if_neg h1]
          by_cases h2 : a.1 < b.1
          · rw [if_pos h2, List.flatMap_cons,
              ih ra (b :: rb) (by simp only [List.length_cons]; omega) ha.2
                (by simp only [List.map_cons, List.pairwise_cons]; exact hb)]
            congr 1
            rw [lookup_of_not_mem (b :: rb) a.1]
            intro cv hcv
            rcases List.mem_cons.1 hcv with rfl | hcv
            · omega
            · have := hb.1 cv.1 (List.mem_map.2 ⟨cv, hcv, rfl⟩)
              omega
          · rw [if_neg h2,
              ih (a :: ra) rb (by simp only [List.length_cons]; omega)
                (by simp only [List.map_cons, List.pairwise_cons]; exact ha) hb.2]
            have he : emit b.1 (0 * b.2) = [] := by simp [emit]
            rw [he, List.nil_append]
            apply flatMap_congr'
            intro x hx
            have hx' : a.1 ≤ x.1 := by
              rcases List.mem_cons.1 hx with rfl | hx
              · exact Nat.le_refl _
              · exact Nat.le_of_lt (ha.1 x.1 (List.mem_map.2 ⟨x, hx, rfl⟩))
            rw [lookup_cons_ne b rb x.1 (by omega)]

theorem dval_eq_lookup (r : List (Nat × Rat)) (h : (r.map Prod.fst).Pairwise (· < ·)) (j : Nat) :
    dval r j = Classical.lookup r j := by
  induction r with
  | nil => rfl
  | cons a r ih =>
    simp only [List.map_cons, List.pairwise_cons] at h
    rw [dval_cons]
    by_cases hj : a.1 = j
    · rw [if_pos hj, ← hj, lookup_cons_eq, dval_eq_zero_of_not_mem, add_zero]
      intro cv hcv
      have := h.1 cv.1 (List.mem_map.2 ⟨cv, hcv, rfl⟩)
      omega
    · rw [if_neg hj, lookup_cons_ne a r j hj, ih h.2, zero_add]

theorem dval_mulSpec (ra rb : List (Nat × Rat)) (j : Nat) :
    dval (mulSpec ra rb) j = dval ra j * Classical.lookup rb j := by
  unfold mulSpec
  induction ra with
  | nil => simp [dval_nil]
  | cons a ra ih =>
    rw [List.flatMap_cons, dval_append, ih, dval_emit, dval_cons]
    by_cases h : a.1 = j
    · simp only [h, if_true]; ring
    · simp only [h, if_false]; ring

/-! the general (non-canonical) branch -/

theorem seenFold_mem (cols acc : List Nat) (x : Nat) :
    x ∈ cols.foldl (fun acc j => if acc.contains j then acc else j :: acc) acc ↔ x ∈ acc ∨ x ∈ cols := by
  induction cols generalizing acc with
  | nil => simp
  | cons c cols ih =>
    simp only [List.foldl_cons]
    rw [ih]
    by_cases hc : acc.contains c = true
    · rw [if_pos hc]
      have : c ∈ acc := by simpa using hc
      constructor
      · rintro (h | h)
        · exact Or.inl h
        · exact Or.inr (List.mem_cons_of_mem _ h)
      · rintro (h | h)
        · exact Or.inl h
        · rcases List.mem_cons.1 h with rfl | h
          · exact Or.inl this
          · exact Or.inr h
    · rw [if_neg hc]
      simp only [List.mem_cons]
      tauto

theorem seenFold_nodup (cols acc : List Nat) (h : acc.Nodup) :
    (cols.foldl (fun acc j => if acc.contains j then acc else j :: acc) acc).Nodup := by
  induction cols generalizing acc with
  | nil => exact h
  | cons c cols ih =>
    simp only [List.foldl_cons]
    apply ih
    by_cases hc : acc.contains c = true
    · rw [if_pos hc]; exact h
    · rw [if_neg hc]
      have : c ∉ acc := by simpa using hc
      exact List.nodup_cons.2 ⟨this, h⟩

theorem dval_flatMap_emit (L : List Nat) (hL : L.Nodup) (v : Nat → Rat) (c : Nat) :
    dval (L.flatMap (fun j => emit j (v j))) c = if c ∈ L then v c else 0 := by
  induction L with
  | nil => simp [dval_nil]
  | cons j L ih =>
    rw [List.nodup_cons] at hL
    rw [List.flatMap_cons, dval_append, dval_emit, ih hL.2]
    by_cases hjc : j = c
    · subst hjc
      simp [hL.1]
    · have : ¬ c = j := fun e => hjc e.symm
      simp [hjc, this]

/-- **one row of `csr_binop_csr_general` (`*`)**: the dense meaning of the result is the product of
the dense meanings (duplicates summed), for arbitrary rows -/
theorem dval_mulRowGeneral (ra rb : List (Nat × Rat)) (c : Nat) :
    dval (mulRowGeneral ra rb) c = dval ra c * dval rb c := by
  unfold mulRowGeneral seen
  rw [dval_flatMap_emit _ (seenFold_nodup _ [] List.nodup_nil)]
  by_cases h : c ∈ (ra.map Prod.fst ++ rb.map Prod.fst).foldl (fun acc j => if acc.contains j then acc else j :: acc) []
  · rw [if_pos h]
  · rw [if_neg h]
    rw [seenFold_mem] at h
    have h1 : ∀ cv ∈ ra, cv.1 ≠ c := by
      intro cv hcv e
      exact h (Or.inr (List.mem_append_left _ (List.mem_map.2 ⟨cv, hcv, e⟩)))
    rw [dval_eq_zero_of_not_mem ra c h1, zero_mul]

@[simp] theorem multiply_n (C A : Csr) : (multiply C A).n = C.n := by
  unfold multiply; split <;> rfl

/-- `C.multiply(A)` on canonical operands, row by row -/
theorem multiply_row_canonical (C A : Csr) (hn : C.n = A.n) (hC : isCanonical C = true)
    (hA : isCanonical A = true) {i : Nat} (hi : i < C.n) :
    row (multiply C A) i = mulSpec (row C i) (row A i) := by
  unfold multiply
  rw [hC, hA]
  simp only [Bool.and_self, if_true]
  rw [ofRows_row _ _ hi]
  exact mulRowCanon_spec _ _ _ (Nat.le_refl _) ((isCanonical_iff C).1 hC i hi).2
    ((isCanonical_iff A).1 hA i (by omega)).2

/-- **`C.multiply(A)` is the entrywise product** (dense meaning), whichever branch SciPy takes -/
theorem multiply_dense (C A : Csr) (hn : C.n = A.n) {i : Nat} (hi : i < C.n) (j : Nat) :
    dval (row (multiply C A) i) j = dval (row C i) j * dval (row A i) j := by
  by_cases hc : (isCanonical C && isCanonical A) = true
  · have hC : isCanonical C = true := (Bool.and_eq_true _ _ ▸ hc).1
    have hA : isCanonical A = true := (Bool.and_eq_true _ _ ▸ hc).2
    rw [multiply_row_canonical C A hn hC hA hi, dval_mulSpec,
      dval_eq_lookup (row A i) ((isCanonical_iff A).1 hA i (by omega)).2]
  · unfold multiply
    rw [if_neg hc, ofRows_row _ _ hi, dval_mulRowGeneral]

end PyamgV.Glue
