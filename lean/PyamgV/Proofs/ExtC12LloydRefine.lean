import PyamgV.Model.ExtC12Lloyd
import PyamgV.Proofs.BellmanFordTerm
import Mathlib.Algebra.Order.Ring.Rat
import Mathlib.Algebra.Field.Rat

/-! PyamgV (C12, E18): the array model of the `bellman_ford` kernel (`N.bellmanFord`, the definition
the driver runs and the checks compare with the rebuilt kernel) refines the function model `BF.loop`
of Proofs/BellmanFord.lean on the edge list of the CSR matrix, whenever the column indices are in
range and the three work arrays have `n` entries. -/
namespace PyamgV.ExtLloyd
open PyamgV.N PyamgV.BF

abbrev AS := Array (Option Rat) × Array Int × Array Int × Bool

/-- stored entries in kernel order -/
def edgesOf (A : Csr) : List (Edge Rat) :=
  (List.range A.n).flatMap (fun i => (A.jjs i).map (fun jj => (i, rdN A.aj jj, rdQ A.ax jj)))

theorem mem_edgesOf {A : Csr} {e : Edge Rat} :
    e ∈ edgesOf A ↔ ∃ i, i < A.n ∧ ∃ jj, jj ∈ A.jjs i ∧ e = (i, rdN A.aj jj, rdQ A.ax jj) := by
  unfold edgesOf
  constructor
  · intro h
    obtain ⟨i, hi, he⟩ := List.mem_flatMap.1 h
    obtain ⟨jj, hjj, rfl⟩ := List.mem_map.1 he
    exact ⟨i, List.mem_range.1 hi, jj, hjj, rfl⟩
  · rintro ⟨i, hi, jj, hjj, rfl⟩
    exact List.mem_flatMap.2 ⟨i, List.mem_range.2 hi, List.mem_map.2 ⟨jj, hjj, rfl⟩⟩

def absS (d : Array (Option Rat)) (m p : Array Int) : St Rat :=
  ⟨fun v => d.getD v none, fun v => m.getD v (-1), fun v => rdI p v⟩

theorem getD_irrel {α : Type} (a : Array α) (v : Nat) (x y : α) (hv : v < a.size) :
    a.getD v x = a.getD v y := by
  simp [Array.getD_eq_getD_getElem?, hv]

theorem getD_set {α : Type} (a : Array α) (j v : Nat) (x dflt : α) (hj : j < a.size) :
    (a.setIfInBounds j x).getD v dflt = if v = j then x else a.getD v dflt := by
  simp only [Array.getD_eq_getD_getElem?, Array.getElem?_setIfInBounds]
  by_cases h : v = j
  · subst h; simp [hj]
  · have : ¬ j = v := fun e => h e.symm
    simp [h, this]

theorem rdI_wrI (a : Array Int) (j v : Nat) (x : Int) (hj : j < a.size) :
    rdI (wrI a j x) v = if v = j then x else rdI a v := getD_set a j v x 0 hj

/-- the body of the kernel's inner loop -/
def aStep (A : Csr) (i : Nat) (s : AS) (jj : Nat) : AS :=
  match s with
  | (d, m, p, _) =>
    let j := rdN A.aj jj
    match d.getD i none with
    | none => s
    | some di =>
      let cand := di + rdQ A.ax jj
      let better := match d.getD j none with | none => true | some dj => decide (cand < dj)
      if better then (d.setIfInBounds j (some cand), wrI m j (rdI m i), wrI p j (Int.ofNat i), false) else s

def aPass (A : Csr) (s : AS) : AS :=
  (List.range A.n).foldl (fun s i => (A.jjs i).foldl (aStep A i) s) s

theorem bellmanFord_eq (A : Csr) (d : Array (Option Rat)) (m p : Array Int) :
    bellmanFord A d m p = bellmanFord.go (aPass A) (A.n + 2) d m p := rfl

structure Rel (n : Nat) (s : AS) (t : St Rat × Bool) : Prop where
  sd : s.1.size = n
  sm : s.2.1.size = n
  sp : s.2.2.1.size = n
  abs : absS s.1 s.2.1 s.2.2.1 = t.1
  flag : s.2.2.2 = !t.2

theorem aStep_rel {A : Csr} {n i jj : Nat} {s : AS} {t : St Rat × Bool} (h : Rel n s t)
    (hi : i < n) (hj : rdN A.aj jj < n) :
    Rel n (aStep A i s jj) (relax t (i, rdN A.aj jj, rdQ A.ax jj)) := by
  obtain ⟨d, m, p, f⟩ := s
  obtain ⟨t, tf⟩ := t
  obtain ⟨sd, sm, sp, habs, hflag⟩ := h
  simp only at sd sm sp habs hflag
  subst habs
  unfold aStep relax
  simp only [absS]
  rcases Option.eq_none_or_eq_some (d.getD i none) with hdi | ⟨di, hdi⟩
  · simp only [hdi, addE, Option.map_none, ltE, if_false]
    exact ⟨sd, sm, sp, rfl, hflag⟩
  · rcases Option.eq_none_or_eq_some (d.getD (rdN A.aj jj) none) with hdj | ⟨dj, hdj⟩
    · simp only [hdi, hdj, addE, Option.map_some, ltE, if_true]
      refine ⟨by simp [sd], by simp [wrI, sm], by simp [wrI, sp], ?_, rfl⟩
      simp only [absS]
      congr 1
      · funext v; exact getD_set d _ v _ none (by omega)
      · funext v
        rw [show m.getD i (-1) = rdI m i from getD_irrel m i _ _ (by omega)]
        exact getD_set m _ v _ (-1) (by omega)
      · funext v; exact rdI_wrI p _ v _ (by omega)
    · by_cases hlt : di + rdQ A.ax jj < dj
      · simp only [hdi, hdj, addE, Option.map_some, ltE, hlt, decide_true, if_true]
        refine ⟨by simp [sd], by simp [wrI, sm], by simp [wrI, sp], ?_, rfl⟩
        simp only [absS]
        congr 1
        · funext v; exact getD_set d _ v _ none (by omega)
        · funext v
          rw [show m.getD i (-1) = rdI m i from getD_irrel m i _ _ (by omega)]
          exact getD_set m _ v _ (-1) (by omega)
        · funext v; exact rdI_wrI p _ v _ (by omega)
      · simp only [hdi, hdj, addE, Option.map_some, ltE, hlt, decide_false, if_false]
        exact ⟨sd, sm, sp, rfl, hflag⟩

theorem fold_rel {A : Csr} {n i : Nat} (hi : i < n) : ∀ (l : List Nat), (∀ jj ∈ l, rdN A.aj jj < n) →
    ∀ (s : AS) (t : St Rat × Bool), Rel n s t →
      Rel n (l.foldl (aStep A i) s) ((l.map (fun jj => (i, rdN A.aj jj, rdQ A.ax jj))).foldl relax t) := by
  intro l
  induction l with
  | nil => intro _ s t h; exact h
  | cons jj js ih =>
    intro hl s t h
    rw [List.foldl_cons, List.map_cons, List.foldl_cons]
    exact ih (fun x hx => hl x (by simp [hx])) _ _ (aStep_rel h hi (hl jj (by simp)))

theorem rows_rel {A : Csr} (hV : ∀ i, i < A.n → ∀ jj ∈ A.jjs i, rdN A.aj jj < A.n) :
    ∀ (l : List Nat), (∀ i ∈ l, i < A.n) → ∀ (s : AS) (t : St Rat × Bool), Rel A.n s t →
      Rel A.n (l.foldl (fun s i => (A.jjs i).foldl (aStep A i) s) s)
        ((l.flatMap (fun i => (A.jjs i).map (fun jj => (i, rdN A.aj jj, rdQ A.ax jj)))).foldl relax t) := by
  intro l
  induction l with
  | nil => intro _ s t h; exact h
  | cons i is ih =>
    intro hl s t h
    rw [List.foldl_cons, List.flatMap_cons, List.foldl_append]
    exact ih (fun x hx => hl x (by simp [hx])) _ _ (fold_rel (hl i (by simp)) _ (hV i (hl i (by simp))) _ _ h)

theorem aPass_rel {A : Csr} (hV : ∀ i, i < A.n → ∀ jj ∈ A.jjs i, rdN A.aj jj < A.n)
    {s : AS} {t : St Rat × Bool} (h : Rel A.n s t) :
    Rel A.n (aPass A s) ((edgesOf A).foldl relax t) :=
  rows_rel hV (List.range A.n) (fun _ hi => List.mem_range.1 hi) s t h

/-- **refinement**: whenever the function model leaves its loop with state `t'`, the array model
returns (with `converged = true`) arrays that represent `t'` -/
theorem go_loop {A : Csr} (hV : ∀ i, i < A.n → ∀ jj ∈ A.jjs i, rdN A.aj jj < A.n) :
    ∀ (fuel : Nat) (d : Array (Option Rat)) (m p : Array Int) (t t' : St Rat),
      Rel A.n (d, m, p, true) (t, false) → loop (edgesOf A) fuel t = some t' →
      ∃ d' m' p', bellmanFord.go (aPass A) fuel d m p = (d', m', p', true) ∧
        Rel A.n (d', m', p', true) (t', false) := by
  intro fuel
  induction fuel with
  | zero => intro d m p t t' _ h; simp [loop] at h
  | succ f ih =>
    intro d m p t t' hR h
    have hP := aPass_rel hV hR
    rw [bellmanFord.go.eq_2]
    simp only [loop] at h
    rcases hp : aPass A (d, m, p, true) with ⟨d', m', p', done⟩
    rw [hp] at hP
    obtain ⟨sd, sm, sp, habs, hflag⟩ := hP
    simp only at sd sm sp habs hflag
    have hpass : pass (edgesOf A) t = (edgesOf A).foldl relax (t, false) := rfl
    by_cases hch : (pass (edgesOf A) t).2 = true
    · rw [if_pos hch] at h
      have hd : done = false := by rw [hflag, ← hpass, hch]; rfl
      simp only [hd]
      exact ih d' m' p' _ t' ⟨sd, sm, sp, by rw [hpass]; exact habs, rfl⟩ h
    · rw [if_neg hch] at h
      have hch' : (pass (edgesOf A) t).2 = false := by simpa using hch
      have hd : done = true := by rw [hflag, ← hpass, hch']; rfl
      simp only [hd, if_true]
      have ht : (pass (edgesOf A) t).1 = t' := by simpa using h
      exact ⟨d', m', p', rfl, sd, sm, sp, by rw [← ht, hpass]; exact habs, rfl⟩

end PyamgV.ExtLloyd
