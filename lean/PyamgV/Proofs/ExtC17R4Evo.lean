import PyamgV.Model.ExtC17R4Evo
import PyamgV.Proofs.ExtC17R4Pinv
import PyamgV.Proofs.ExtC17SafeR3Sa

/-! PyamgV (C17, extension E32, round 4): bounds-safety (and termination of the sweep loops) of the `Ck` models of `svd_solve`
and `evolution_strength_helper` (`Model/ExtC17R4Evo.lean`).  The work arrays are sized by `max_length` (proved to bound every row
length), the packed rows of `BDB` are walked with the offsets `tri` of `calc_BtB` (`Proofs/ExtC17SafeR3Sa.lean`). -/
namespace PyamgV.C17R4
open PyamgV.Ck PyamgV.C17

set_option linter.unusedSectionVars false
set_option linter.unusedVariables false

variable {α : Type} [Inhabited α]

/-! ### `svd_solve` -/

/-- **`svd_solve`** of an `m × n` system: `Ax` holds `m·n` values, `b` at least `max(m, n)`, the region `U` of `work` `max(m·n, n²)`,
`V` `n²`, `x` and `sing_vals` `n` -/
theorem svdSolve_safe (o : SvOps α) (ax : Array α) (m n : Nat) (b : Array α) (sv : SV α) (xw : Array α)
    (hax : (m : Int) * (n : Int) ≤ (ax.size : Int)) (hbm : (m : Int) ≤ (b.size : Int)) (hbn : (n : Int) ≤ (b.size : Int))
    {us vs ss : Nat} (hsv : SVInv us vs ss sv) (hus : (m : Int) * (n : Int) ≤ (us : Int)) (hus2 : (n : Int) * (n : Int) ≤ (us : Int))
    (hvs : (n : Int) * (n : Int) ≤ (vs : Int)) (hss : (n : Int) ≤ (ss : Int)) (hxw : (n : Int) ≤ (xw.size : Int)) :
    Safe (svdSolve o ax m n b sv xw) (fun r => r.1.size = b.size ∧ SVInv us vs ss r.2.1 ∧ r.2.2.size = xw.size) := by
  unfold svdSolve
  refine Safe.bind (svdJacobi_safe o ax 0 sv m n (by omega) (by omega) hsv hus hvs hss) (fun r hr => ?_)
  obtain ⟨r1, r2, r3⟩ := hr
  refine Safe.bind (P := fun U : Array α => U.size = us) ?_ (fun U hU => ?_)
  · apply forRange_safe (fun U : Array α => U.size = us) _ _ _ _ r1
    intro i i0 i1 U h
    refine Safe.bind (rd_ok U i i0 (by rw [h]; omega)) (fun u _ => ?_)
    exact Safe.mono (wr_ok U i _ i0 (by rw [h]; omega)) (fun a' h' => by rw [h', h])
  have enm : (n : Int) * (m : Int) = (m : Int) * (n : Int) := Int.mul_comm _ _
  refine Safe.bind (gemmFF_safe o.toK U 0 n m b 0 m 1 xw 0 n 1 (by omega) (by rw [hU]; omega) (by omega)
    (by push_cast; omega) (by omega) (by push_cast; omega) (Nat.le_refl m) (Int.le_refl _)) (fun x hx => ?_)
  refine Safe.bind (P := fun x' : Array α => x'.size = xw.size) ?_ (fun x2 hx2 => ?_)
  · apply forRange_safe (fun x' : Array α => x'.size = xw.size) _ _ _ _ hx
    intro j j0 j1 x' h
    refine Safe.bind (rd_ok r.1.S j j0 (by rw [r3]; omega)) (fun s _ => ?_)
    split
    · exact Safe.mono (wr_ok x' j o.zero j0 (by rw [h]; omega)) (fun a' h' => by rw [h', h])
    · refine Safe.bind (rd_ok x' j j0 (by rw [h]; omega)) (fun xj _ => ?_)
      exact Safe.mono (wr_ok x' j _ j0 (by rw [h]; omega)) (fun a' h' => by rw [h', h])
  refine Safe.bind (transposeM_safe r.1.V 0 U 0 n n (by omega) (by rw [r2]; omega) (by omega) (by rw [hU]; omega)) (fun U2 hU2 => ?_)
  refine Safe.bind (gemmFF_safe o.toK U2 0 n n x2 0 n 1 b 0 n 1 (by omega) (by rw [hU2, hU]; omega) (by omega)
    (by rw [hx2]; push_cast; omega) (by omega) (by push_cast; omega) (Nat.le_refl n) (Int.le_refl _)) (fun b2 hb2 => ?_)
  exact Safe.pure ⟨hb2, ⟨by show U2.size = us; rw [hU2, hU], r2, r3⟩, hx2⟩

/-! ### `evolution_strength_helper` -/

/-- `max_length` bounds every row -/
theorem esMaxLen_safe {nrows : Nat} {sp sj : Array Int} (hS : WFm (patS nrows sp sj) nrows) :
    Safe (esMaxLen nrows sp) (fun ml => 0 ≤ ml ∧ ∀ k : Nat, k < nrows → sp.getD (k+1) 0 - sp.getD k 0 ≤ ml) := by
  have hsz : sp.size = nrows + 1 := hS.ap_size
  unfold esMaxLen
  refine Safe.mono (forRange_safe_idx
    (fun (i : Int) (mx : Int) => 0 ≤ mx ∧ ∀ k : Nat, (k : Int) < i → sp.getD (k+1) 0 - sp.getD k 0 ≤ mx)
    0 (nrows : Int) (by omega) _ _ ⟨Int.le_refl 0, fun k hk => by omega⟩ ?_) (fun ml h => ⟨h.1, fun k hk => h.2 k (by omega)⟩)
  intro i i0 i1 mx hmx
  refine Safe.bind (rd_safe sp (i+1) (by omega) (by rw [hsz]; omega)) (fun e he => ?_)
  refine Safe.bind (rd_safe sp i i0 (by rw [hsz]; omega)) (fun s hs => ?_)
  have he' : e = sp.getD (i.toNat + 1) 0 := by
    have : (i+1).toNat = i.toNat + 1 := by omega
    rw [this] at he; exact he
  have hs' : s = sp.getD i.toNat 0 := hs
  refine Safe.pure ?_
  by_cases hlt : mx < e - s
  · rw [if_pos hlt]
    refine ⟨by omega, fun k hk => ?_⟩
    by_cases hl : (k : Int) < i
    · have := hmx.2 k hl; omega
    · have : k = i.toNat := by omega
      subst this; rw [← he', ← hs']
  · rw [if_neg hlt]
    refine ⟨hmx.1, fun k hk => ?_⟩
    by_cases hl : (k : Int) < i
    · exact hmx.2 k hl
    · have : k = i.toNat := by omega
      subst this; rw [← he', ← hs']; omega

/-- the lengths of the work arrays: `ml = max_length`, `nd = NullDim` -/
structure EWInv (ml nd : Nat) (w : EW α) : Prop where
  z : w.z.size = ml
  zhat : w.zhat.size = ml
  dbi : w.DBi.size = ml * nd
  bi : w.Bi.size = ml * nd
  lhs : w.LHS.size = (nd + 1) * (nd + 1)
  rhs : w.RHS.size = nd + 1
  sv : SVInv ((nd + 1) * (nd + 1)) ((nd + 1) * (nd + 1)) (nd + 1) w.sv
  xw : w.xw.size = nd + 1

theorem esLhs_safe (o : SvOps α) {nrows : Nat} {sp sj : Array Int} (hS : WFm (patS nrows sp sj) nrows) (i : Int) (i0 : 0 ≤ i)
    (i1 : i < (nrows : Int)) (nd : Nat) (bdbCols : Int) (hc0 : 0 ≤ bdbCols) (hc : tri nd nd ≤ bdbCols) (bdb : Array α)
    (hbdb : (nrows : Int) * bdbCols ≤ (bdb.size : Int)) (lhs : Array α) (hl : lhs.size = (nd + 1) * (nd + 1)) :
    Safe (esLhs o sj (sp.getD i.toNat 0) (sp.getD (i.toNat + 1) 0) nd bdbCols bdb lhs) (fun l => l.size = (nd + 1) * (nd + 1)) := by
  obtain ⟨_, _, hrow⟩ := row_facts hS i i0 i1
  have hP : (((nd + 1) * (nd + 1) : Nat) : Int) = ((nd : Int) + 1) * ((nd : Int) + 1) := by push_cast; rfl
  unfold esLhs
  apply forRange_safe (fun l : Array α => l.size = (nd + 1) * (nd + 1)) _ _ _ _ hl
  intro jj j1 j2 l hls
  refine Safe.bind (hrow jj j1 j2) (fun j hj => ?_)
  obtain ⟨_, hj0, hj1⟩ := hj
  -- the packed row of node `j`
  have hbase : 0 ≤ j * bdbCols ∧ j * bdbCols + bdbCols ≤ (bdb.size : Int) := by
    have a1 : 0 ≤ j * bdbCols := Int.mul_nonneg hj0 hc0
    have a2 : (j + 1) * bdbCols ≤ (nrows : Int) * bdbCols := Int.mul_le_mul_of_nonneg_right (by omega) hc0
    have a3 : (j + 1) * bdbCols = j * bdbCols + bdbCols := by ring
    omega
  refine Safe.bind (P := fun r : Array α × Int × Int => r.1.size = (nd + 1) * (nd + 1)) ?_ (fun r hr => ?_)
  · refine Safe.mono (forRange_safe_idx
      (fun (m : Int) (st : Array α × Int × Int) => st.1.size = (nd + 1) * (nd + 1) ∧ st.2.1 = m * ((nd : Int) + 1) + m ∧
        st.2.2 = j * bdbCols + tri nd m.toNat)
      0 (nd : Int) (by omega) _ _ ⟨hls, by simp, by simp [tri]⟩ ?_) (fun st h => h.1)
    intro m m0 m1 st hst
    obtain ⟨p1, p2, p3⟩ := hst
    have ht := tri_row nd m m0 m1
    have il := idx_lt (i := m) (j := m) (A := (nd : Int) + 1) (B := (nd : Int) + 1) m0 (by omega) m0 (by omega)
    refine Safe.bind (rd_ok st.1 st.2.1 (by rw [p2]; omega) (by rw [p1, hP, p2]; omega)) (fun l0 _ => ?_)
    refine Safe.bind (rd_ok bdb st.2.2 (by rw [p3]; omega) (by rw [p3]; omega)) (fun v _ => ?_)
    refine Safe.bind (wr_ok st.1 st.2.1 _ (by rw [p2]; omega) (by rw [p1, hP, p2]; omega)) (fun l1 hl1 => ?_)
    refine Safe.pure ⟨by show l1.size = _; rw [hl1, p1], ?_, ?_⟩
    · show st.2.1 + ((nd : Int) + 1) + 1 = (m + 1) * ((nd : Int) + 1) + (m + 1)
      rw [p2]; ring
    · show st.2.2 + ((nd : Int) - m) = j * bdbCols + tri nd (m + 1).toNat
      rw [p3, ht.2.1]; ring
  refine Safe.bind (P := fun r : Array α × Int => r.1.size = (nd + 1) * (nd + 1)) ?_ (fun r2 hr2 => Safe.pure hr2)
  refine Safe.mono (forRange_safe_idx
    (fun (m : Int) (st : Array α × Int) => st.1.size = (nd + 1) * (nd + 1) ∧ st.2 = j * bdbCols + tri nd m.toNat)
    0 (nd : Int) (by omega) _ _ ⟨hr, by simp [tri]⟩ ?_) (fun st h => h.1)
  intro m m0 m1 st hst
  obtain ⟨p1, p3⟩ := hst
  have ht := tri_row nd m m0 m1
  refine Safe.bind (P := fun r : Array α × Int => r.1.size = (nd + 1) * (nd + 1)) ?_
    (fun r3 hr3 => Safe.pure ⟨hr3, by show st.2 + ((nd : Int) - m) = j * bdbCols + tri nd (m + 1).toNat; rw [p3, ht.2.1]; ring⟩)
  refine Safe.mono (forRange_safe_idx
    (fun (n : Int) (s2 : Array α × Int) => s2.1.size = (nd + 1) * (nd + 1) ∧ s2.2 = n - m)
    (m + 1) (nd : Int) (by omega) _ _ ⟨p1, by show (1 : Int) = m + 1 - m; omega⟩ ?_) (fun s2 h => h.1)
  intro n n0 n1 s2 hs2
  obtain ⟨q1, q2⟩ := hs2
  have il1 := idx_lt (i := m) (j := n) (A := (nd : Int) + 1) (B := (nd : Int) + 1) m0 (by omega) (by omega) (by omega)
  have il2 := idx_lt (i := n) (j := m) (A := (nd : Int) + 1) (B := (nd : Int) + 1) (by omega) (by omega) m0 (by omega)
  refine Safe.bind (rd_ok bdb (st.2 + s2.2) (by rw [p3, q2]; omega) (by rw [p3, q2]; omega)) (fun el _ => ?_)
  refine Safe.bind (rd_ok s2.1 _ il1.1 (by rw [q1, hP]; exact il1.2)) (fun l1 _ => ?_)
  refine Safe.bind (wr_ok s2.1 _ _ il1.1 (by rw [q1, hP]; exact il1.2)) (fun lh1 hlh1 => ?_)
  have s1 : lh1.size = (nd + 1) * (nd + 1) := by rw [hlh1, q1]
  refine Safe.bind (rd_ok lh1 _ il2.1 (by rw [s1, hP]; exact il2.2)) (fun l2 _ => ?_)
  refine Safe.bind (wr_ok lh1 _ _ il2.1 (by rw [s1, hP]; exact il2.2)) (fun lh2 hlh2 => ?_)
  exact Safe.pure ⟨by show lh2.size = _; rw [hlh2, s1], by show s2.2 + 1 = n + 1 - m; rw [q2]; omega⟩

theorem esBorder_safe (i : Int) (i0 : 0 ≤ i) (nd nrows : Nat) (i1 : i < (nrows : Int)) (B DB : Array α)
    (hB : (nrows : Int) * (nd : Int) ≤ (B.size : Int)) (hDB : (nd : Int) * (nrows : Int) ≤ (DB.size : Int)) (lhs : Array α)
    (hl : lhs.size = (nd + 1) * (nd + 1)) :
    Safe (esBorder i nd nrows B DB lhs) (fun l => l.size = (nd + 1) * (nd + 1)) := by
  have hP : (((nd + 1) * (nd + 1) : Nat) : Int) = ((nd : Int) + 1) * ((nd : Int) + 1) := by push_cast; rfl
  have hsq : ((nd : Int) + 1) * ((nd : Int) + 1) = (nd : Int) * ((nd : Int) + 1) + ((nd : Int) + 1) := by ring
  have hnn : 0 ≤ (nd : Int) * ((nd : Int) + 1) := Int.mul_nonneg (by omega) (by omega)
  unfold esBorder
  simp only
  refine Safe.bind (P := fun r : Array α × Int => r.1.size = (nd + 1) * (nd + 1)) ?_ (fun r hr => ?_)
  · refine Safe.mono (forStep_safe_idx
      (fun (t : Nat) (st : Array α × Int) => st.1.size = (nd + 1) * (nd + 1) ∧ st.2 = i * (nd : Int) + (t : Int))
      _ _ _ (by omega) _ _ ⟨hl, by simp⟩ ?_) (fun st h => by obtain ⟨t, ht⟩ := h; exact ht.1)
    intro t ht st hst
    have htn : (t : Int) < (nd : Int) := by
      by_contra hh
      have : (nd : Int) * ((nd : Int) + 1) ≤ (t : Int) * ((nd : Int) + 1) := Int.mul_le_mul_of_nonneg_right (by omega) (by omega)
      omega
    have h0 : 0 ≤ (t : Int) * ((nd : Int) + 1) := Int.mul_nonneg (by omega) (by omega)
    have ib := idx_lt (i := i) (j := (t : Int)) (A := (nrows : Int)) (B := (nd : Int)) i0 i1 (by omega) htn
    refine Safe.bind (rd_ok B st.2 (by rw [hst.2]; omega) (by rw [hst.2]; omega)) (fun v _ => ?_)
    refine Safe.bind (wr_ok st.1 _ v (by omega) (by rw [hst.1, hP]; omega)) (fun l1 hl1 => ?_)
    exact Safe.pure ⟨by show l1.size = _; rw [hl1, hst.1], by show st.2 + 1 = i * (nd : Int) + ((t + 1 : Nat) : Int); rw [hst.2]; push_cast; ring⟩
  refine Safe.bind (P := fun r : Array α × Int => r.1.size = (nd + 1) * (nd + 1)) ?_ (fun r2 hr2 => Safe.pure hr2)
  refine Safe.mono (forRange_safe_idx
    (fun (j : Int) (st : Array α × Int) => st.1.size = (nd + 1) * (nd + 1) ∧
      st.2 = i + (j - (nd : Int) * ((nd : Int) + 1)) * (nrows : Int))
    _ _ (by omega) _ _ ⟨hr, by simp⟩ ?_) (fun st h => h.1)
  intro j j0 j1 st hst
  have id := idx_lt (i := j - (nd : Int) * ((nd : Int) + 1)) (j := i) (A := (nd : Int)) (B := (nrows : Int)) (by omega) (by omega) i0 i1
  refine Safe.bind (rd_ok DB st.2 (by rw [hst.2]; omega) (by rw [hst.2]; omega)) (fun v _ => ?_)
  refine Safe.bind (wr_ok st.1 j v (by omega) (by rw [hst.1, hP]; omega)) (fun l1 hl1 => ?_)
  exact Safe.pure ⟨by show l1.size = _; rw [hl1, hst.1],
    by show st.2 + (nrows : Int) = i + (j + 1 - (nd : Int) * ((nd : Int) + 1)) * (nrows : Int); rw [hst.2]; ring⟩

theorem esFinish_safe (o : EsOps α) (tol : α) {nrows : Nat} {sp sj : Array Int} (hS : WFm (patS nrows sp sj) nrows) (i : Int)
    (i0 : 0 ≤ i) (i1 : i < (nrows : Int)) (z zhat sx : Array α) (hz : sp.getD (i.toNat + 1) 0 - sp.getD i.toNat 0 ≤ (z.size : Int))
    (hzh : sp.getD (i.toNat + 1) 0 - sp.getD i.toNat 0 ≤ (zhat.size : Int)) (hsx : sp.getD nrows 0 ≤ (sx.size : Int)) :
    Safe (esFinish o tol sj i (sp.getD i.toNat 0) (sp.getD (i.toNat + 1) 0) z zhat sx) (fun sx' => sx'.size = sx.size) := by
  obtain ⟨_, _, hrow⟩ := row_facts hS i i0 i1
  have hmono : sp.getD i.toNat 0 ≤ sp.getD (i.toNat + 1) 0 := hS.mono i.toNat (by show i.toNat < nrows; omega)
  have hpos : ∀ jj, sp.getD i.toNat 0 ≤ jj → jj < sp.getD (i.toNat + 1) 0 → 0 ≤ jj ∧ jj < (sx.size : Int) := by
    intro jj j1 j2
    have a1 : 0 ≤ sp.getD i.toNat 0 := ap_nonneg_m (patS nrows sp sj) hS i.toNat (by show i.toNat ≤ nrows; omega)
    have a2 : sp.getD (i.toNat + 1) 0 ≤ sp.getD nrows 0 :=
      ap_le_last_m (patS nrows sp sj) hS (i.toNat + 1) (by show i.toNat + 1 ≤ nrows; omega)
    omega
  unfold esFinish
  simp only
  refine Safe.bind (P := fun _ => True) ?_ (fun mz _ => ?_)
  · refine Safe.mono (forRange_safe_idx (fun (jj : Int) (st : α × Int) => st.2 = jj - sp.getD i.toNat 0) _ _ hmono _ _
      (by show (0 : Int) = _ - _; omega) ?_) (fun _ _ => trivial)
    intro jj j1 j2 st hst
    refine Safe.bind (rd_ok zhat st.2 (by rw [hst]; omega) (by rw [hst]; omega)) (fun _ _ => ?_)
    exact Safe.pure (by show st.2 + 1 = jj + 1 - _; rw [hst]; omega)
  refine Safe.bind (P := fun r : Array α × Int => r.1.size = zhat.size) ?_ (fun zh hzh2 => ?_)
  · refine Safe.mono (forRange_safe_idx (fun (jj : Int) (st : Array α × Int) => st.1.size = zhat.size ∧ st.2 = jj - sp.getD i.toNat 0)
      _ _ hmono _ _ ⟨rfl, by show (0 : Int) = _ - _; omega⟩ ?_) (fun r h => h.1)
    intro jj j1 j2 st hst
    refine Safe.bind (rd_ok st.1 st.2 (by rw [hst.2]; omega) (by rw [hst.1, hst.2]; omega)) (fun c _ => ?_)
    refine Safe.bind (P := fun zh1 : Array α => zh1.size = zhat.size) ?_ (fun zh1 h1 => ?_)
    · split
      · exact Safe.mono (wr_ok st.1 st.2 _ (by rw [hst.2]; omega) (by rw [hst.1, hst.2]; omega)) (fun a' h' => by rw [h', hst.1])
      · exact Safe.pure hst.1
    refine Safe.bind (rd_ok zh1 st.2 (by rw [hst.2]; omega) (by rw [h1, hst.2]; omega)) (fun c2 _ => ?_)
    refine Safe.bind (P := fun zh2 : Array α => zh2.size = zhat.size) ?_
      (fun zh2 h2 => Safe.pure ⟨h2, by show st.2 + 1 = jj + 1 - _; rw [hst.2]; omega⟩)
    split
    · exact Safe.mono (wr_ok zh1 st.2 _ (by rw [hst.2]; omega) (by rw [h1, hst.2]; omega)) (fun a' h' => by rw [h', h1])
    · exact Safe.pure h1
  refine Safe.bind (P := fun r : Array α × Int => r.1.size = sx.size) ?_ (fun r hr => Safe.pure hr)
  refine Safe.mono (forRange_safe_idx (fun (jj : Int) (st : Array α × Int) => st.1.size = sx.size ∧ st.2 = jj - sp.getD i.toNat 0)
    _ _ hmono _ _ ⟨rfl, by show (0 : Int) = _ - _; omega⟩ ?_) (fun r h => h.1)
  intro jj j1 j2 st hst
  have hp := hpos jj j1 j2
  refine Safe.bind (hrow jj j1 j2) (fun j hj => ?_)
  split
  · refine Safe.bind (wr_ok st.1 jj _ hp.1 (by rw [hst.1]; exact hp.2)) (fun sx1 h1 => ?_)
    exact Safe.pure ⟨by show sx1.size = sx.size; rw [h1, hst.1], by show st.2 + 1 = jj + 1 - _; rw [hst.2]; omega⟩
  · refine Safe.bind (rd_ok zh.1 st.2 (by rw [hst.2]; omega) (by rw [hzh2, hst.2]; omega)) (fun a _ => ?_)
    refine Safe.bind (rd_ok z st.2 (by rw [hst.2]; omega) (by rw [hst.2]; omega)) (fun b _ => ?_)
    refine Safe.bind (rd_ok zh.1 st.2 (by rw [hst.2]; omega) (by rw [hzh2, hst.2]; omega)) (fun a2 _ => ?_)
    refine Safe.bind (rd_ok z st.2 (by rw [hst.2]; omega) (by rw [hst.2]; omega)) (fun b2 _ => ?_)
    refine Safe.bind (wr_ok st.1 jj _ hp.1 (by rw [hst.1]; exact hp.2)) (fun sx1 h1 => ?_)
    exact Safe.pure ⟨by show sx1.size = sx.size; rw [h1, hst.1], by show st.2 + 1 = jj + 1 - _; rw [hst.2]; omega⟩

/-- **one row of `evolution_strength_helper`** with more than `NullDim` entries -/
theorem esRow_safe (o : EsOps α) (tol : α) {nrows : Nat} {sp sj : Array Int} (hS : WFm (patS nrows sp sj) nrows) (nd : Nat)
    (bdbCols : Int) (hc0 : 0 ≤ bdbCols) (hc : tri nd nd ≤ bdbCols) (B DB bdb : Array α)
    (hB : (nrows : Int) * (nd : Int) ≤ (B.size : Int)) (hDB : (nd : Int) * (nrows : Int) ≤ (DB.size : Int))
    (hbdb : (nrows : Int) * bdbCols ≤ (bdb.size : Int)) (i : Int) (i0 : 0 ≤ i) (i1 : i < (nrows : Int)) {ml : Nat}
    (hml : sp.getD (i.toNat + 1) 0 - sp.getD i.toNat 0 ≤ (ml : Int)) {ssz : Nat} (hsx : sp.getD nrows 0 ≤ (ssz : Int))
    (st : Array α × EW α) (h1 : st.1.size = ssz) (hw : EWInv ml nd st.2) :
    Safe (esRow o tol nrows nd bdbCols sj B DB bdb i (sp.getD i.toNat 0) (sp.getD (i.toNat + 1) 0) st)
      (fun r => r.1.size = ssz ∧ EWInv ml nd r.2) := by
  obtain ⟨_, _, hrow⟩ := row_facts hS i i0 i1
  have hmono : sp.getD i.toNat 0 ≤ sp.getD (i.toNat + 1) 0 := hS.mono i.toNat (by show i.toNat < nrows; omega)
  have a1 : 0 ≤ sp.getD i.toNat 0 := ap_nonneg_m (patS nrows sp sj) hS i.toNat (by show i.toNat ≤ nrows; omega)
  have a2 : sp.getD (i.toNat + 1) 0 ≤ sp.getD nrows 0 :=
    ap_le_last_m (patS nrows sp sj) hS (i.toNat + 1) (by show i.toNat + 1 ≤ nrows; omega)
  -- abbreviations: `s`, `e`, `len`
  generalize hs : sp.getD i.toNat 0 = s at *
  generalize he : sp.getD (i.toNat + 1) 0 = e at *
  have hlen0 : 0 ≤ e - s := by omega
  have hlenN : (((e - s).toNat : Nat) : Int) = e - s := by omega
  have hmlnd : (((ml * nd : Nat)) : Int) = (ml : Int) * (nd : Int) := by push_cast; rfl
  have hlnd : (e - s) * (nd : Int) ≤ (ml : Int) * (nd : Int) := Int.mul_le_mul_of_nonneg_right hml (by omega)
  have hP : (((nd + 1) * (nd + 1) : Nat) : Int) = ((nd : Int) + 1) * ((nd : Int) + 1) := by push_cast; rfl
  have hP1 : ((nd + 1 : Nat) : Int) = (nd : Int) + 1 := by push_cast; rfl
  unfold esRow
  simp only
  -- `z`
  refine Safe.bind (P := fun z : Array α => z.size = ml) ?_ (fun z hz => ?_)
  · apply forRange_safe (fun z : Array α => z.size = ml) _ _ _ _ hw.z
    intro t t0 t1 z h
    refine Safe.bind (rd_ok st.1 (s + t) (by omega) (by rw [h1]; omega)) (fun a _ => ?_)
    exact Safe.mono (wr_ok z t a t0 (by rw [h]; omega)) (fun a' h' => by rw [h', h])
  -- `Bi`
  refine Safe.bind (P := fun r : Array α × α × Int => r.1.size = ml * nd) ?_ (fun r hr => ?_)
  · refine Safe.mono (forRange_safe_idx
      (fun (jj : Int) (q : Array α × α × Int) => q.1.size = ml * nd ∧ q.2.2 = (jj - s) * (nd : Int))
      s e hmono _ _ ⟨hw.bi, by simp⟩ ?_) (fun q h => h.1)
    intro jj j1 j2 q hq
    refine Safe.bind (hrow jj j1 j2) (fun j hj => ?_)
    obtain ⟨_, hj0, hj1⟩ := hj
    refine Safe.bind (rd_ok st.1 jj (by omega) (by rw [h1]; omega)) (fun a _ => ?_)
    refine Safe.bind (P := fun p : Array α × Int × Int => p.1.size = ml * nd ∧ p.2.1 = (jj - s) * (nd : Int) + (nd : Int)) ?_
      (fun p hp => Safe.pure ⟨hp.1, by show p.2.1 = (jj + 1 - s) * (nd : Int); rw [hp.2]; ring⟩)
    refine Safe.mono (forRange_safe_idx
      (fun (k : Int) (p : Array α × Int × Int) => p.1.size = ml * nd ∧ p.2.1 = (jj - s) * (nd : Int) + k ∧ p.2.2 = j * (nd : Int) + k)
      0 (nd : Int) (by omega) _ _ ⟨hq.1, by show q.2.2 = _ + 0; rw [hq.2]; ring, by simp⟩ ?_) (fun p h => ⟨h.1, h.2.1⟩)
    intro k k0 k1 p hp
    have ib := idx_lt (i := j) (j := k) (A := (nrows : Int)) (B := (nd : Int)) hj0 hj1 k0 k1
    have ibi := idx_lt (i := jj - s) (j := k) (A := e - s) (B := (nd : Int)) (by omega) (by omega) k0 k1
    refine Safe.bind (rd_ok B p.2.2 (by rw [hp.2.2]; omega) (by rw [hp.2.2]; omega)) (fun b _ => ?_)
    refine Safe.bind (wr_ok p.1 p.2.1 b (by rw [hp.2.1]; omega) (by rw [hp.1, hmlnd, hp.2.1]; omega)) (fun bi hbi => ?_)
    exact Safe.pure ⟨by show bi.size = _; rw [hbi, hp.1], by show p.2.1 + 1 = _ + (k + 1); rw [hp.2.1]; ring,
      by show p.2.2 + 1 = _ + (k + 1); rw [hp.2.2]; ring⟩
  -- `DBi`
  refine Safe.bind (P := fun d : Array α × Int × Int => d.1.size = ml * nd) ?_ (fun d hd => ?_)
  · refine Safe.mono (forRange_safe_idx
      (fun (k : Int) (q : Array α × Int × Int) => q.1.size = ml * nd ∧ q.2.1 = k * (e - s) ∧ q.2.2 = k * (nrows : Int))
      0 (nd : Int) (by omega) _ _ ⟨hw.dbi, by simp, by simp⟩ ?_) (fun q h => h.1)
    intro k k0 k1 q hq
    refine Safe.bind (P := fun p : Array α × Int => p.1.size = ml * nd ∧ p.2 = k * (e - s) + (e - s)) ?_
      (fun p hp => Safe.pure ⟨hp.1, by show p.2 = (k + 1) * (e - s); rw [hp.2]; ring,
        by show q.2.2 + (nrows : Int) = (k + 1) * (nrows : Int); rw [hq.2.2]; ring⟩)
    refine Safe.mono (forRange_safe_idx
      (fun (jj : Int) (p : Array α × Int) => p.1.size = ml * nd ∧ p.2 = k * (e - s) + (jj - s))
      s e hmono _ _ ⟨hq.1, by show q.2.1 = _ + (s - s); rw [hq.2.1]; ring⟩ ?_)
      (fun p h => ⟨h.1, by rw [h.2]⟩)
    intro jj j1 j2 p hp
    refine Safe.bind (hrow jj j1 j2) (fun j hj => ?_)
    obtain ⟨_, hj0, hj1⟩ := hj
    have idb := idx_lt (i := k) (j := j) (A := (nd : Int)) (B := (nrows : Int)) k0 k1 hj0 hj1
    have idbi := idx_lt (i := k) (j := jj - s) (A := (nd : Int)) (B := e - s) k0 k1 (by omega) (by omega)
    have e1 : (nd : Int) * (e - s) = (e - s) * (nd : Int) := Int.mul_comm _ _
    refine Safe.bind (rd_ok DB (q.2.2 + j) (by rw [hq.2.2]; omega) (by rw [hq.2.2]; omega)) (fun b _ => ?_)
    refine Safe.bind (wr_ok p.1 p.2 b (by rw [hp.2]; omega) (by rw [hp.1, hmlnd, hp.2]; omega)) (fun dbi hdbi => ?_)
    exact Safe.pure ⟨by show dbi.size = _; rw [hdbi, hp.1], by show p.2 + 1 = _ + (jj + 1 - s); rw [hp.2]; ring⟩
  -- `LHS`
  refine Safe.bind (P := fun l : Array α => l.size = (nd + 1) * (nd + 1)) ?_ (fun l0 hl0 => ?_)
  · apply forRange_safe (fun l : Array α => l.size = (nd + 1) * (nd + 1)) _ _ _ _ hw.lhs
    intro kk k0 k1 l h
    exact Safe.mono (wr_ok l kk _ k0 (by rw [h, hP]; exact k1)) (fun a' h' => by rw [h', h])
  rw [← hs, ← he]
  refine Safe.bind (esLhs_safe o.sv hS i i0 i1 nd bdbCols hc0 hc bdb hbdb l0 hl0) (fun l1 hl1 => ?_)
  rw [hs, he]
  refine Safe.bind (esBorder_safe i i0 nd nrows i1 B DB hB hDB l1 hl1) (fun l2 hl2 => ?_)
  -- `RHS`
  have e2 : (nd : Int) * (e - s) = (e - s) * (nd : Int) := Int.mul_comm _ _
  refine Safe.bind (gemmFF_safe o.sv.toK d.1 0 nd (e - s).toNat z 0 (e - s).toNat 1 st.2.RHS 0 nd 1 (by omega)
    (by rw [hd, hmlnd, hlenN]; omega) (by omega) (by rw [hz, hlenN]; push_cast; omega) (by omega)
    (by rw [hw.rhs]; push_cast; omega) (Nat.le_refl _) (Int.le_refl _)) (fun rhs hrhs => ?_)
  have hrs : rhs.size = nd + 1 := by rw [hrhs, hw.rhs]
  refine Safe.bind (P := fun r2 : Array α => r2.size = nd + 1) ?_ (fun rhs2 hrhs2 => ?_)
  · apply forRange_safe (fun r2 : Array α => r2.size = nd + 1) _ _ _ _ hrs
    intro j j0 j1 r2 h
    refine Safe.bind (rd_ok r2 j j0 (by rw [h]; omega)) (fun a _ => ?_)
    exact Safe.mono (wr_ok r2 j _ j0 (by rw [h]; omega)) (fun a' h' => by rw [h', h])
  refine Safe.bind (wr_ok rhs2 (nd : Int) r.2.1 (by omega) (by rw [hrhs2]; omega)) (fun rhs3 hrhs3 => ?_)
  have hrs3 : rhs3.size = nd + 1 := by rw [hrhs3, hrhs2]
  -- `svd_solve`
  refine Safe.bind (svdSolve_safe o.sv l2 (nd + 1) (nd + 1) rhs3 st.2.sv st.2.xw (by rw [hl2, hP, hP1]) (by rw [hrs3])
    (by rw [hrs3]) hw.sv (by rw [hP, hP1]) (by rw [hP, hP1]) (by rw [hP, hP1]) (Int.le_refl _) (by rw [hw.xw])) (fun sol hsol => ?_)
  obtain ⟨q1, q2, q3⟩ := hsol
  -- `zhat`
  refine Safe.bind (gemmFF_safe o.sv.toK r.1 0 (e - s).toNat nd sol.1 0 nd 1 st.2.zhat 0 (e - s).toNat 1 (by omega)
    (by rw [hr, hmlnd, hlenN]; omega) (by omega) (by rw [q1, hrs3]; push_cast; omega) (by omega)
    (by rw [hw.zhat, hlenN]; push_cast; omega) (Nat.le_refl _) (Int.le_refl _)) (fun zhat hzhat => ?_)
  rw [← hs, ← he]
  refine Safe.bind (esFinish_safe o tol hS i i0 i1 z zhat st.1 (by rw [hz, hs, he]; exact hml) (by rw [hzhat, hw.zhat, hs, he]; exact hml)
    (by rw [h1]; exact hsx)) (fun sx' hsx' => ?_)
  exact Safe.pure ⟨by rw [hsx', h1], ⟨hz, by rw [hzhat, hw.zhat], hd, hr, hl2, by rw [q1, hrs3], q2, by rw [q3, hw.xw]⟩⟩

/-- **`evolution_strength_helper`**: `S` a structurally valid `nrows × nrows` pattern with `Sx` at least `Sp[nrows]` long, `B` (`x`)
with `nrows·NullDim`, `DB` (`y`) with `NullDim·nrows`, `BDB` (`b`) with `nrows·BDBCols` values, `BDBCols ≥ NullDim(NullDim+1)/2`
(`tri`, closed form `calc_BtB_packed_offsets`), any `NullDim ≥ 0`: no access leaves the arguments or one of the nine work arrays,
every `svd_jacobi` sweep loop terminates -/
theorem evolutionHelper_safe (o : EsOps α) (zv tol : α) (sx : Array α) {nrows : Nat} {sp sj : Array Int}
    (hS : WFm (patS nrows sp sj) nrows) (hsx : sp.getD nrows 0 ≤ (sx.size : Int)) (B DB bdb : Array α) (bdbCols : Int) (nd : Nat)
    (hc0 : 0 ≤ bdbCols) (hc : tri nd nd ≤ bdbCols) (hB : (nrows : Int) * (nd : Int) ≤ (B.size : Int))
    (hDB : (nd : Int) * (nrows : Int) ≤ (DB.size : Int)) (hbdb : (nrows : Int) * bdbCols ≤ (bdb.size : Int)) :
    Safe (evolutionHelper o zv tol sx sp sj nrows B DB bdb bdbCols nd) (fun sx' => sx'.size = sx.size) := by
  unfold evolutionHelper
  refine Safe.bind (esMaxLen_safe hS) (fun ml hml => ?_)
  simp only
  have hmlN : ((ml.toNat : Nat) : Int) = ml := by omega
  refine Safe.bind (P := fun r : Array α × EW α => r.1.size = sx.size ∧ EWInv ml.toNat nd r.2) ?_ (fun r hr => Safe.pure hr.1)
  apply forRange_safe (fun r : Array α × EW α => r.1.size = sx.size ∧ EWInv ml.toNat nd r.2) _ _ _ _
    ⟨rfl, ⟨by simp, by simp, by simp, by simp, by simp, by simp, ⟨by simp, by simp, by simp⟩, by simp⟩⟩
  intro i i0 i1 st hst
  obtain ⟨q1, q2, hrow⟩ := row_facts hS i i0 i1
  refine Safe.bind q1 (fun s hs => ?_)
  refine Safe.bind q2 (fun e he => ?_)
  subst hs; subst he
  have a1 : 0 ≤ sp.getD i.toNat 0 := ap_nonneg_m (patS nrows sp sj) hS i.toNat (by show i.toNat ≤ nrows; omega)
  have a2 : sp.getD (i.toNat + 1) 0 ≤ sp.getD nrows 0 :=
    ap_le_last_m (patS nrows sp sj) hS (i.toNat + 1) (by show i.toNat + 1 ≤ nrows; omega)
  split
  · refine Safe.bind (P := fun sx' : Array α => sx'.size = sx.size) ?_ (fun sx' hsx' => Safe.pure ⟨hsx', hst.2⟩)
    apply forRange_safe (fun sx' : Array α => sx'.size = sx.size) _ _ _ _ hst.1
    intro kk k0 k1 sx' h
    exact Safe.mono (wr_ok sx' kk _ (by omega) (by rw [h]; omega)) (fun a' h' => by rw [h', h])
  · exact esRow_safe o tol hS nd bdbCols hc0 hc B DB bdb hB hDB hbdb i i0 i1
      (by rw [hmlN]; exact hml.2 i.toNat (by omega)) hsx st hst.1 hst.2

end PyamgV.C17R4
