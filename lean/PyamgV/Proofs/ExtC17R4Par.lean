import PyamgV.Proofs.ExtC17R4Graph

/-! PyamgV (C17, extension E32, round 4): bounds-safety of the `Ck` models of `maximal_independent_set_parallel`,
`vertex_coloring_first_fit`, `vertex_coloring_jones_plassmann`, `vertex_coloring_LDF` (`Model/ExtC17R4Graph.lean`).

The interesting access is `mask[x[j]]` in the first-fit pass (`std::vector<bool> mask(K,false)`, unchecked `operator[]`):
it needs `x[j] < K` for every coloured neighbour `j != i` of a node with `x[i] = K`.  This is the separation property of
the parallel independent set (`Sep`: a node marked `C` has no other neighbour marked `C` or still `active`), which holds
after a pass on ANY structurally valid pattern (symmetric or not), together with "all earlier colours are `< K`".
Core Lean only. -/
namespace PyamgV.C17R4
open PyamgV.Ck PyamgV.C17

set_option linter.unusedSectionVars false
set_option linter.unusedVariables false

variable {ρ : Type} [Inhabited ρ]

/-! ### one pass of the parallel independent set -/

/-- a node marked `C` has no neighbour other than itself that is marked `C` or is still `active` -/
def Sep (n : Nat) (ap aj : Array Int) (active C : Int) (x : Array Int) : Prop :=
  ∀ k : Nat, k < n → x.getD k 0 = C → ∀ jj, ap.getD k 0 ≤ jj → jj < ap.getD (k+1) 0 →
    (aj.getD jj.toNat 0).toNat ≠ k →
      x.getD (aj.getD jj.toNat 0).toNat 0 ≠ C ∧ x.getD (aj.getD jj.toNat 0).toNat 0 ≠ active

theorem Sep.upd {n : Nat} {ap aj : Array Int} {active C F : Int} {x x' : Array Int} (h : Sep n ap aj active C x)
    (hu : Upd active F x x') (hFC : F ≠ C) (hFa : F ≠ active) : Sep n ap aj active C x' := by
  intro k hk hkC jj j1 j2 hne
  have hxk : x.getD k 0 = C := by
    rcases hu.2 k with e | ⟨_, e⟩
    · rw [← e]; exact hkC
    · exact absurd (e.symm.trans hkC) hFC
  have := h k hk hxk jj j1 j2 hne
  rcases hu.2 (aj.getD jj.toNat 0).toNat with e | ⟨e1, _⟩
  · rw [e]; exact this
  · exact absurd e1 this.2

/-- entries of the start vector changed only from `active` to `F` or `C` -/
def Upd2 (active F C : Int) (x0 x : Array Int) : Prop :=
  x.size = x0.size ∧ ∀ k, x.getD k 0 = x0.getD k 0 ∨ (x0.getD k 0 = active ∧ (x.getD k 0 = F ∨ x.getD k 0 = C))

theorem Upd2.refl (active F C : Int) (x : Array Int) : Upd2 active F C x x := ⟨rfl, fun _ => Or.inl rfl⟩

theorem Upd2.upd {active F C : Int} {x0 x x' : Array Int} (h : Upd2 active F C x0 x) (hu : Upd active F x x') :
    Upd2 active F C x0 x' := by
  refine ⟨by rw [hu.1, h.1], fun k => ?_⟩
  rcases hu.2 k with e | ⟨e1, e2⟩
  · rw [e]; exact h.2 k
  · rcases h.2 k with e3 | ⟨e3, _⟩
    · exact Or.inr ⟨by rw [← e3]; exact e1, Or.inl e2⟩
    · exact Or.inr ⟨e3, Or.inl e2⟩

/-- the scan loop: at most `x[i]` changed (to `F`); when it ran to the end nothing changed and no neighbour is marked `C` -/
theorem mpScan_safe (w : WOps ρ) {n : Nat} {ap aj : Array Int} (hA : WFm (patS n ap aj) n) (y : Array ρ) (hy : y.size = n)
    (active C F : Int) (i : Int) (i0 : 0 ≤ i) (i1 : i < (n : Int)) (yi : ρ) (x : Array Int) (hx : x.size = n)
    (hxi : x.getD i.toNat 0 = active) :
    Safe (mpScan w aj y active C F i yi (ap.getD i.toNat 0) (ap.getD (i.toNat + 1) 0) x)
      (fun st => Upd active F x st.1 ∧ (st.2 = false → st.1 = x ∧
        ∀ jj, ap.getD i.toNat 0 ≤ jj → jj < ap.getD (i.toNat + 1) 0 → x.getD (aj.getD jj.toNat 0).toNat 0 ≠ C)) := by
  obtain ⟨_, _, hrow⟩ := row_facts hA i i0 i1
  have hmono : ap.getD i.toNat 0 ≤ ap.getD (i.toNat + 1) 0 := hA.mono i.toNat (by show i.toNat < n; omega)
  unfold mpScan
  refine Safe.mono (forRange_safe_idx
    (fun (jj : Int) (st : Array Int × Bool) => Upd active F x st.1 ∧ (st.2 = false → st.1 = x ∧
      ∀ jj', ap.getD i.toNat 0 ≤ jj' → jj' < jj → x.getD (aj.getD jj'.toNat 0).toNat 0 ≠ C))
    _ _ hmono _ _ ⟨Upd.refl _ _ _, fun _ => ⟨rfl, fun jj' h1 h2 => by omega⟩⟩ ?_) (fun st h => h)
  intro jj j1 j2 st hst
  by_cases hb : st.2 = true
  · rw [if_pos hb]
    exact Safe.pure ⟨hst.1, fun h => by rw [hb] at h; cases h⟩
  · rw [if_neg hb]
    have hb' : st.2 = false := by cases h : st.2 <;> simp_all
    obtain ⟨hsx, hprev⟩ := hst.2 hb'
    refine Safe.bind (hrow jj j1 j2) (fun j hj => ?_)
    obtain ⟨hje, hj0, hj1⟩ := hj
    have hs1 : st.1.size = n := by rw [hsx, hx]
    refine Safe.bind (rd_safe st.1 j hj0 (by rw [hs1]; omega)) (fun xj hxj => ?_)
    have hxj' : xj = x.getD j.toNat 0 := by rw [← hsx]; exact hxj
    have hkeep : Upd active F x st.1 ∧ (st.2 = false → st.1 = x ∧
        ∀ jj', ap.getD i.toNat 0 ≤ jj' → jj' < jj + 1 → x.getD (aj.getD jj'.toNat 0).toNat 0 ≠ C) ∨ xj = C := by
      by_cases hC : xj = C
      · exact Or.inr hC
      · refine Or.inl ⟨hst.1, fun _ => ⟨hsx, fun jj' h1 h2 => ?_⟩⟩
        by_cases hl : jj' < jj
        · exact hprev jj' h1 hl
        · have : jj' = jj := by omega
          subst this
          rw [← hje, ← hxj']; exact hC
    have hbrk : ∀ x' : Array Int, x' = st.1 → Upd active F x (x', true).1 ∧ ((x', true).2 = false → (x', true).1 = x ∧
        ∀ jj', ap.getD i.toNat 0 ≤ jj' → jj' < jj + 1 → x.getD (aj.getD jj'.toNat 0).toNat 0 ≠ C) :=
      fun x' e => ⟨by rw [e]; exact hst.1, fun h => by cases h⟩
    by_cases hC : xj = C
    · rw [if_pos hC]
      refine Safe.bind (wr_val st.1 i F i0 (by rw [hs1]; omega)) (fun x' hx' => ?_)
      refine Safe.pure ⟨?_, fun h => by cases h⟩
      show Upd active F x x'
      rw [hx', hsx]; exact Upd.set x i.toNat hxi
    · rw [if_neg hC]
      have hk := hkeep.resolve_right hC
      by_cases hact : xj = active
      · rw [if_pos hact]
        refine Safe.bind (rd_safe y j hj0 (by rw [hy]; omega)) (fun yj _ => ?_)
        by_cases hg : w.gt yj yi = true
        · rw [if_pos hg]; exact Safe.pure (hbrk st.1 rfl)
        · rw [if_neg hg]
          by_cases he : w.eq yj yi = true ∧ j > i
          · rw [if_pos he]; exact Safe.pure (hbrk st.1 rfl)
          · rw [if_neg he]; exact Safe.pure hk
      · rw [if_neg hact]; exact Safe.pure hk

/-- what a pass maintains: the length of `x`, the bookkeeping relation with the vector the pass started from, and
(for three different marks) the separation property -/
def MPInv (n : Nat) (ap aj : Array Int) (active C F : Int) (x0 : Array Int) (st : MPP) : Prop :=
  st.1.size = n ∧ Upd2 active F C x0 st.1 ∧
  (F ≠ C → F ≠ active → Sep n ap aj active C x0 → Sep n ap aj active C st.1)

theorem mpRow_safe (w : WOps ρ) {n : Nat} {ap aj : Array Int} (hA : WFm (patS n ap aj) n) (y : Array ρ) (hy : y.size = n)
    (active C F : Int) (x0 : Array Int) (i : Int) (i0 : 0 ≤ i) (i1 : i < (n : Int)) (st : MPP)
    (hst : MPInv n ap aj active C F x0 st) :
    Safe (mpRow w ap aj y active C F i st) (MPInv n ap aj active C F x0) := by
  obtain ⟨h1, h2, h3⟩ := hst
  have his : i.toNat < st.1.size := by rw [h1]; omega
  unfold mpRow
  refine Safe.bind (rd_safe y i i0 (by rw [hy]; omega)) (fun yi _ => ?_)
  refine Safe.bind (rd_safe st.1 i i0 his) (fun xi hxi => ?_)
  have hxi' : xi = st.1.getD i.toNat 0 := hxi
  by_cases hact : xi ≠ active
  · rw [if_pos hact]; exact Safe.pure ⟨h1, h2, h3⟩
  · rw [if_neg hact]
    have hxa : st.1.getD i.toNat 0 = active := by rw [← hxi']; exact Classical.not_not.mp hact
    obtain ⟨q1, q2, hrow⟩ := row_facts hA i i0 i1
    refine Safe.bind q1 (fun s hs => ?_)
    refine Safe.bind q2 (fun e he => ?_)
    subst hs; subst he
    refine Safe.bind (mpScan_safe w hA y hy active C F i i0 i1 yi st.1 h1 hxa) (fun r hr => ?_)
    obtain ⟨hu1, hend⟩ := hr
    have hr1 : r.1.size = n := by rw [hu1.1, h1]
    by_cases hb : r.2 = true
    · rw [if_pos hb]
      exact Safe.pure ⟨hr1, h2.upd hu1, fun c1 c2 c3 => (h3 c1 c2 c3).upd hu1 c1 c2⟩
    · rw [if_neg hb]
      have hb' : r.2 = false := by cases h : r.2 <;> simp_all
      obtain ⟨hrx, hnoC⟩ := hend hb'
      refine Safe.bind (markRow_safe hA active F i i0 i1 r.1 hr1) (fun x2 hx2 => ?_)
      obtain ⟨hu2, hnoact⟩ := hx2
      rw [hrx] at hu2
      have hx2s : x2.size = n := by rw [hu2.1, h1]
      refine Safe.bind (wr_val x2 i C i0 (by rw [hx2s]; omega)) (fun x3 hx3 => ?_)
      have hx3v : ∀ k, x3.getD k 0 = if i.toNat = k then C else x2.getD k 0 := by
        intro k
        rw [hx3, getD_setInt]
        by_cases hk : i.toNat = k
        · rw [if_pos ⟨hk, by rw [hx2s]; omega⟩, if_pos hk]
        · rw [if_neg (fun h => hk h.1), if_neg hk]
      have h22 := h2.upd hu2
      refine Safe.pure ⟨by show x3.size = n; rw [hx3]; simp [hx2s], ⟨by show x3.size = x0.size; rw [hx3]; simp [h22.1], fun k => ?_⟩,
        fun c1 c2 c3 => ?_⟩
      · show x3.getD k 0 = x0.getD k 0 ∨ (x0.getD k 0 = active ∧ (x3.getD k 0 = F ∨ x3.getD k 0 = C))
        rw [hx3v k]
        by_cases hk : i.toNat = k
        · rw [if_pos hk]
          subst hk
          rcases h2.2 i.toNat with e | ⟨e, _⟩
          · exact Or.inr ⟨by rw [← e]; exact hxa, Or.inr rfl⟩
          · exact Or.inr ⟨e, Or.inr rfl⟩
        · rw [if_neg hk]; exact h22.2 k
      · have hS := h3 c1 c2 c3
        intro k hk hkC jj j1 j2 hne
        show x3.getD (aj.getD jj.toNat 0).toNat 0 ≠ C ∧ x3.getD (aj.getD jj.toNat 0).toNat 0 ≠ active
        have hkC' : (if i.toNat = k then C else x2.getD k 0) = C := by rw [← hx3v k]; exact hkC
        by_cases hki : i.toNat = k
        · subst hki
          rw [hx3v, if_neg (fun h => hne h.symm)]
          refine ⟨?_, hnoact c2 jj j1 j2⟩
          rcases hu2.2 (aj.getD jj.toNat 0).toNat with e | ⟨_, e⟩
          · rw [e]; exact hnoC jj j1 j2
          · rw [e]; exact c1
        · rw [if_neg hki] at hkC'
          have hxk : st.1.getD k 0 = C := by
            rcases hu2.2 k with e | ⟨_, e⟩
            · rw [← e]; exact hkC'
            · exact absurd (e.symm.trans hkC') c1
          have hnb := hS k hk hxk jj j1 j2 hne
          have hji : i.toNat ≠ (aj.getD jj.toNat 0).toNat := by
            intro h
            rw [← h] at hnb
            exact hnb.2 hxa
          rw [hx3v, if_neg hji]
          rcases hu2.2 (aj.getD jj.toNat 0).toNat with e | ⟨e1, _⟩
          · rw [e]; exact hnb
          · exact absurd e1 hnb.2

/-- the invariant of the `while` loop, relative to the vector `x0` the kernel was called with -/
def MPW (n : Nat) (ap aj : Array Int) (active C F : Int) (x0 : Array Int) (s : MP) : Prop :=
  MPInv n ap aj active C F x0 (s.1, s.2.1, s.2.2.2)

/-- **one pass of `maximal_independent_set_parallel`** -/
theorem mpPass_safe (w : WOps ρ) {n : Nat} {ap aj : Array Int} (hA : WFm (patS n ap aj) n) (y : Array ρ) (hy : y.size = n)
    (active C F : Int) (x0 : Array Int) (st : MP) (hst : MPW n ap aj active C F x0 st) :
    Safe (mpPass w n ap aj y active C F st) (fun st' => MPW n ap aj active C F x0 st' ∧ st'.2.2.1 = st.2.2.1 + 1) := by
  unfold mpPass
  refine Safe.bind (forRange_safe (MPInv n ap aj active C F x0) 0 (n : Int) _ _ hst
    (fun i i0 i1 s hs => mpRow_safe w hA y hy active C F x0 i i0 i1 s hs)) (fun r hr => ?_)
  exact Safe.pure ⟨hr, rfl⟩

/-- the `while` loop, any fuel: whenever it returns, every access was in range -/
theorem mpWhile_safe (w : WOps ρ) {n : Nat} {ap aj : Array Int} (hA : WFm (patS n ap aj) n) (y : Array ρ) (hy : y.size = n)
    (active C F maxIters : Int) (x0 : Array Int) :
    ∀ (fuel : Nat) (st : Ck MP), Safe st (MPW n ap aj active C F x0) → ∀ r,
      mpWhile w n ap aj y active C F maxIters fuel st = some r → Safe r (MPW n ap aj active C F x0) := by
  intro fuel
  induction fuel with
  | zero =>
    intro st hst r hr
    unfold mpWhile at hr
    split at hr
    · cases hr
    · cases hr; exact hst
  | succ f ih =>
    intro st hst r hr
    unfold mpWhile at hr
    split at hr
    · exact ih _ (Safe.mono (Safe.bind_val hst.1 (mpPass_safe w hA y hy active C F x0 st.val hst.2)) (fun _ h => h.1)) r hr
    · cases hr; exact hst

/-- with `max_iters >= 0` the loop returns within `max_iters - num_iters` passes -/
theorem mpWhile_bounded (w : WOps ρ) {n : Nat} {ap aj : Array Int} (hA : WFm (patS n ap aj) n) (y : Array ρ) (hy : y.size = n)
    (active C F maxIters : Int) (hm : 0 ≤ maxIters) (x0 : Array Int) :
    ∀ (fuel : Nat) (st : Ck MP), Safe st (MPW n ap aj active C F x0) → (maxIters - st.val.2.2.1).toNat ≤ fuel →
      ∃ r, mpWhile w n ap aj y active C F maxIters fuel st = some r := by
  intro fuel
  induction fuel with
  | zero =>
    intro st hst hf
    unfold mpWhile
    have : ¬ (st.val.2.2.2 = true ∧ (maxIters = -1 ∨ st.val.2.2.1 < maxIters)) := by
      intro h; rcases h.2 with h2 | h2 <;> omega
    rw [if_neg this]; exact ⟨st, rfl⟩
  | succ f ih =>
    intro st hst hf
    unfold mpWhile
    by_cases hc : st.val.2.2.2 = true ∧ (maxIters = -1 ∨ st.val.2.2.1 < maxIters)
    · rw [if_pos hc]
      have hb := Safe.bind_val hst.1 (mpPass_safe w hA y hy active C F x0 st.val hst.2)
      refine ih _ (Safe.mono hb (fun _ h => h.1)) ?_
      have := hb.2.2
      omega
    · rw [if_neg hc]; exact ⟨st, rfl⟩

/-- **`maximal_independent_set_parallel`**: any structurally valid `n × n` pattern, `x`, `y` of length `n`, any marks
`active`, `C`, `F`, any `max_iters`, any number of passes: a run that returns made no access outside `Ap`, `Aj`, `x`, `y`
(termination for `max_iters = -1`: `mis_parallel_total`); entries of `x` only changed from `active` to `F` or `C`, and with
three different marks a node marked `C` has no other neighbour marked `C` or left `active` if that was so at the start -/
theorem misParallel_safe (w : WOps ρ) {n : Nat} {ap aj : Array Int} (hA : WFm (patS n ap aj) n) (active C F : Int)
    (x : Array Int) (hx : x.size = n) (y : Array ρ) (hy : y.size = n) (maxIters : Int) (fuel : Nat) :
    ∀ r, misParallel w n ap aj active C F x y maxIters fuel = some r →
      Safe r (fun out => out.1.size = n ∧ Upd2 active F C x out.1 ∧
        (F ≠ C → F ≠ active → Sep n ap aj active C x → Sep n ap aj active C out.1)) := by
  intro r hr
  unfold misParallel at hr
  cases hw : mpWhile w n ap aj y active C F maxIters fuel (pure (x, 0, 0, true)) with
  | none => rw [hw] at hr; cases hr
  | some r0 =>
    rw [hw] at hr
    have e : r = r0 >>= fun st => pure (st.1, st.2.1) := by
      simp only [Option.map_some] at hr
      exact (Option.some.inj hr).symm
    rw [e]
    exact Safe.bind (mpWhile_safe w hA y hy active C F maxIters x fuel _
      (Safe.pure ⟨hx, Upd2.refl _ _ _ _, fun _ _ h => h⟩) r0 hw) (fun st hs => Safe.pure hs)

/-- … and with `max_iters >= 0` it does return within `max_iters` passes -/
theorem misParallel_bounded (w : WOps ρ) {n : Nat} {ap aj : Array Int} (hA : WFm (patS n ap aj) n) (active C F : Int)
    (x : Array Int) (hx : x.size = n) (y : Array ρ) (hy : y.size = n) (maxIters : Int) (hm : 0 ≤ maxIters) :
    ∃ r, misParallel w n ap aj active C F x y maxIters maxIters.toNat = some r ∧
      Safe r (fun out => out.1.size = n ∧ Upd2 active F C x out.1 ∧
        (F ≠ C → F ≠ active → Sep n ap aj active C x → Sep n ap aj active C out.1)) := by
  obtain ⟨r0, hr0⟩ := mpWhile_bounded w hA y hy active C F maxIters hm x maxIters.toNat (pure (x, 0, 0, true))
    (Safe.pure ⟨hx, Upd2.refl _ _ _ _, fun _ _ h => h⟩) (by show (maxIters - 0).toNat ≤ maxIters.toNat; omega)
  have e : misParallel w n ap aj active C F x y maxIters maxIters.toNat = some (r0 >>= fun st => pure (st.1, st.2.1)) := by
    unfold misParallel; rw [hr0]; rfl
  exact ⟨_, e, misParallel_safe w hA active C F x hx y hy maxIters _ _ e⟩

end PyamgV.C17R4
