import PyamgV.Proofs.ExtC03YGen

/-! PyamgV (extension E55, C03): the recorded `relaxation.schwarz` call of the scalar-polymorphic extended cycle model is a linear
iteration of the level matrix, over any field, for ANY stored blocks `T_d` (Proofs/ExtC03XSchwarz.lean with the scalar as a parameter). -/
set_option linter.unusedSectionVars false
namespace PyamgV.C03Y
open PyamgV PyamgV.K Finset
open PyamgV.C03 (Cyc iterN)

variable {𝕜 : Type} [Field 𝕜] [DecidableEq 𝕜] {conj : 𝕜 → 𝕜}

/-- operator of the step of subdomain `d`: `E_d T_d E_dᵀ` -/
def schwOp (Tx : Array 𝕜) (Tp Sj Sp : Array Nat) (d : Nat) : Fn 𝕜 →ₗ[𝕜] Fn 𝕜 where
  toFun r := fun p => ∑ c ∈ range (ExtC09.sSize Sp d), if ExtC09.sIdx Sj Sp d c = p then
    ∑ c' ∈ range (ExtC09.sSize Sp d), ExtC09.sT Tx Tp Sp d c c' * r (ExtC09.sIdx Sj Sp d c') else 0
  map_add' u v := by
    funext p
    simp only [Pi.add_apply, mul_add, Finset.sum_add_distrib]
    rw [← Finset.sum_add_distrib]
    apply Finset.sum_congr rfl
    intro c _
    split <;> simp
  map_smul' a u := by
    funext p
    simp only [Pi.smul_apply, smul_eq_mul, RingHom.id_apply, Finset.mul_sum]
    apply Finset.sum_congr rfl
    intro c _
    split
    · rw [Finset.mul_sum]; apply Finset.sum_congr rfl; intro c' _; ring
    · simp

def schwF (M : Csr 𝕜) (Tx : Array 𝕜) (Tp Sj Sp : Array Nat) (d : Nat) : Fn 𝕜 → Fn 𝕜 → Fn 𝕜 :=
  fun x b => x + schwOp Tx Tp Sj Sp d (b - ExtC09.csrLin M x)

theorem schw_step_refines (M : Csr 𝕜) (Tx : Array 𝕜) (Tp Sj Sp : Array Nat) (hs : SubOK M Sj Sp) (d : Nat)
    (hd : d < Sp.size - 1) :
    Refines M.n (fun x b => schwarzStep M b Tx Tp Sj Sp x d) (schwF M Tx Tp Sj Sp d) := by
  intro x b hx hb
  refine ⟨by rw [ExtC09.schwarzStep_size, hx], ?_⟩
  have hidx : ∀ c < ExtC09.sSize Sp d, ExtC09.sIdx Sj Sp d c < M.n := fun c hc => hs d hd c hc
  funext p
  unfold schwF
  simp only [Pi.add_apply]
  by_cases hp : p < x.size
  · have := ExtC09.schwarzStep_entry M b Tx Tp Sj Sp x d p hp
    unfold ExtC09.vec at this ⊢
    rw [this]
    congr 1
    simp only [schwOp, LinearMap.coe_mk, AddHom.coe_mk]
    apply Finset.sum_congr rfl
    intro c _
    split
    · unfold ExtC09.sCorr
      apply Finset.sum_congr rfl
      intro c' hc'
      have hlt := hidx c' (mem_range.1 hc')
      simp only [Pi.sub_apply, ExtC09.csrLin_apply, if_pos hlt]
      rfl
    · rfl
  · have h1 : ExtC09.vec (schwarzStep M b Tx Tp Sj Sp x d) p = 0 :=
      ExtC09.rd_of_le _ _ (by rw [ExtC09.schwarzStep_size]; omega)
    have h2 : ExtC09.vec x p = 0 := ExtC09.rd_of_le _ _ (by omega)
    rw [h1, h2, zero_add]
    simp only [schwOp, LinearMap.coe_mk, AddHom.coe_mk]
    symm
    apply Finset.sum_eq_zero
    intro c hc
    have := hidx c (mem_range.1 hc)
    rw [if_neg (by omega)]

def schwPassF (M : Csr 𝕜) (Tx : Array 𝕜) (Tp Sj Sp : Array Nat) (bw : Bool) : Fn 𝕜 → Fn 𝕜 → Fn 𝕜 :=
  fun x b => (dirRows (Sp.size - 1) bw).foldl (fun x d => schwF M Tx Tp Sj Sp d x b) x

def schwPassQ (M : Csr 𝕜) (Tx : Array 𝕜) (Tp Sj Sp : Array Nat) (bw : Bool) : Fn 𝕜 →ₗ[𝕜] Fn 𝕜 :=
  sweepM (ExtC09.csrLin M) ((dirRows (Sp.size - 1) bw).map (schwOp Tx Tp Sj Sp))

theorem schw_pass_isLinIter (M : Csr 𝕜) (Tx : Array 𝕜) (Tp Sj Sp : Array Nat) (bw : Bool) :
    IsLinIter (ExtC09.csrLin M) (schwPassF M Tx Tp Sj Sp bw) (schwPassQ M Tx Tp Sj Sp bw) :=
  isLinIter_foldl _ _ _ _ (fun _ _ _ _ => rfl)

theorem schw_pass_refines (M : Csr 𝕜) (Tx : Array 𝕜) (Tp Sj Sp : Array Nat) (hs : SubOK M Sj Sp) (bw : Bool) :
    Refines M.n (fun x b => schwarzSweep M b Tx Tp Sj Sp (dirRows (Sp.size - 1) bw) x) (schwPassF M Tx Tp Sj Sp bw) :=
  Refines.foldl (fun d x b => schwarzStep M b Tx Tp Sj Sp x d) (fun d => schwF M Tx Tp Sj Sp d) _
    (fun d hd => schw_step_refines M Tx Tp Sj Sp hs d ((mem_dirRows _ _ _).1 hd))

/-- operator of the recorded `schwarz` call -/
noncomputable def schwarzQ (M : Csr 𝕜) (Tx : Array 𝕜) (Tp Sj Sp : Array Nat) (it : Nat) (sw : Sweep) : Fn 𝕜 →ₗ[𝕜] Fn 𝕜 :=
  sweepQ (ExtC09.csrLin M) (schwPassQ M Tx Tp Sj Sp) sw it

theorem schwarz_refines (M : Csr 𝕜) (Tx : Array 𝕜) (Tp Sj Sp : Array Nat) (hs : SubOK M Sj Sp) (it : Nat) (sw : Sweep) :
    Refines M.n (Sm.arr conj (.schwarz M Tx Tp Sj Sp it sw)) (sweepF (schwPassF M Tx Tp Sj Sp) sw it) := by
  have := sweep_refines (fun bw x b => schwarzSweep M b Tx Tp Sj Sp (dirRows (Sp.size - 1) bw) x) _
    (fun bw => schw_pass_refines M Tx Tp Sj Sp hs bw) sw it
  intro x b hx hb
  have h2 := this x b hx hb
  cases sw <;> exact h2

/-- **multiplicative Schwarz with recorded subdomain blocks in the extended cycle model is a linear iteration of the
level matrix**, operator: the `compM`-product of `E_d T_d E_dᵀ` over the sweep -/
theorem schwarz_semLin (M : Csr 𝕜) (Tx : Array 𝕜) (Tp Sj Sp : Array Nat) (it : Nat) (sw : Sweep) (hc : ColsOK M)
    (hs : SubOK M Sj Sp) :
    SemLin (csrDense M) (viaArr M.n (Sm.arr conj (.schwarz M Tx Tp Sj Sp it sw)))
      (Tn M.n ∘ₗ schwarzQ M Tx Tp Sj Sp it sw ∘ₗ Tn M.n) :=
  semLin_csr M hc _ _ _ (schwarz_refines M Tx Tp Sj Sp hs it sw)
    (sweep_isLinIter _ _ _ (fun bw => schw_pass_isLinIter M Tx Tp Sj Sp bw) sw it)

end PyamgV.C03Y
