import PyamgV.Proofs.ExtC09Block
import PyamgV.Proofs.GsEnergy
import PyamgV.Proofs.Kaczmarz

/-! PyamgV (extension E15, property C09): the row step of the executable `gauss_seidel_ne` model and the column
step of the executable `gauss_seidel_nr` model ARE the damped orthogonal projections of `Proofs/Kaczmarz.lean`
(real scalars, Euclidean form on the first `n` coordinates): with `Dinv_i = 1/⟨a_i,a_i⟩` the error (NE) resp. the
residual (NR) is projected along the row resp. column, hence its Euclidean norm does not increase for
`0 ≤ ω ≤ 2`. -/
namespace PyamgV.ExtC09
open PyamgV PyamgV.K Finset

set_option linter.unusedSectionVars false

variable {F : Type} [Field F] [LinearOrder F] [IsStrictOrderedRing F] [DecidableEq F]

/-- stored line `i` of the structure as a vector: row `i` of a CSR matrix, column `i` of a CSC matrix -/
def lineVec (A : Csr F) (i : Nat) : Nat → F := fun p => csrEntry A i p

theorem csrRow_congr (A : Csr F) (i : Nat) (u v : Nat → F) (h : ∀ jj ∈ A.jjs i, u (rdN A.aj jj) = v (rdN A.aj jj)) :
    csrRow A i u = csrRow A i v := by
  unfold csrRow
  congr 1
  apply List.map_congr_left
  intro jj hjj; rw [h jj hjj]

/-- `⟨a_i, u⟩ = Σ_jj a_jj u_{col jj}` when the columns of line `i` are below `n` -/
theorem euc_lineVec (A : Csr F) (i n : Nat) (hcols : ∀ jj ∈ A.jjs i, rdN A.aj jj < n) (u : Nat → F) :
    (euc F n).a (lineVec A i) u = csrRow A i u := by
  rw [euc_apply]
  have := csrRow_supported A i n (fun c => c) u
  unfold lineVec
  rw [← this]
  apply csrRow_congr
  intro jj hjj
  simp [Finset.sum_ite_eq', hcols jj hjj]

theorem lineVec_zero (A : Csr F) (i n : Nat) (hcols : ∀ jj ∈ A.jjs i, rdN A.aj jj < n) (p : Nat) (hp : n ≤ p) :
    lineVec A i p = 0 := by
  unfold lineVec csrEntry
  have : (A.jjs i).filter (fun jj => decide (rdN A.aj jj = p)) = [] := by
    apply List.filter_eq_nil_iff.2
    intro jj hjj
    have := hcols jj hjj
    simp; omega
  rw [this]; simp

/-- the NE row step of the executable model, as a vector identity: `x' = x + δ a_i` -/
theorem neStep_vec (ω : F) (A : Csr F) (b Dinv x : Array F) (i n : Nat) (hx : x.size = n)
    (hcols : ∀ jj ∈ A.jjs i, rdN A.aj jj < n) :
    vec (neStep id ω A b Dinv x i) =
      vec x + ((rd b i - (euc F n).a (lineVec A i) (vec x)) * rd Dinv i * ω) • lineVec A i := by
  funext p
  rw [euc_lineVec A i n hcols]
  simp only [Pi.add_apply, Pi.smul_apply, smul_eq_mul]
  by_cases hp : p < x.size
  · have := neStep_entry id ω A b Dinv x i p hp
    unfold vec
    rw [this]
    have h : conjEntry id A i p = lineVec A i p := rfl
    rw [h]; unfold vec; ring
  · unfold vec
    rw [rd_of_le _ _ (by rw [neStep_size]; omega), rd_of_le _ _ (by omega), lineVec_zero A i n hcols p (by omega)]
    ring

/-- **Kaczmarz**: with `Dinv_i = 1/⟨a_i,a_i⟩` the row step projects the error `x* − x` along `a_i`, damped by `ω`
(the statement `ne_row_error` of Proofs/Kaczmarz.lean, now about the executable kernel model) -/
theorem neStep_error_projection (ω : F) (A : Csr F) (b Dinv x : Array F) (i n : Nat) (hx : x.size = n)
    (hcols : ∀ jj ∈ A.jjs i, rdN A.aj jj < n)
    (hD : rd Dinv i = 1 / (euc F n).a (lineVec A i) (lineVec A i))
    (xs : Nat → F) (hxs : (euc F n).a (lineVec A i) xs = rd b i) :
    xs - vec (neStep id ω A b Dinv x i) =
      (xs - vec x) - (ω * (euc F n).a (lineVec A i) (xs - vec x) /
        (euc F n).a (lineVec A i) (lineVec A i)) • lineVec A i := by
  rw [neStep_vec ω A b Dinv x i n hx hcols, hD]
  exact ne_row_error (euc F n) (lineVec A i) (vec x) xs (rd b i) ω hxs

/-- ... hence the Euclidean norm of the error does not increase, `0 ≤ ω ≤ 2` -/
theorem neStep_error_nonexp (ω : F) (h0 : 0 ≤ ω) (h2 : ω ≤ 2) (A : Csr F) (b Dinv x : Array F) (i n : Nat)
    (hx : x.size = n) (hcols : ∀ jj ∈ A.jjs i, rdN A.aj jj < n)
    (hne : (euc F n).a (lineVec A i) (lineVec A i) ≠ 0)
    (hD : rd Dinv i = 1 / (euc F n).a (lineVec A i) (lineVec A i))
    (xs : Nat → F) (hxs : (euc F n).a (lineVec A i) xs = rd b i) :
    (euc F n).en (xs - vec (neStep id ω A b Dinv x i)) ≤ (euc F n).en (xs - vec x) := by
  rw [neStep_error_projection ω A b Dinv x i n hx hcols hD xs hxs]
  exact proj_step_nonexp (euc F n) (lineVec A i) (xs - vec x) ω h0 h2 hne

/-- the NR column step of the executable model on the residual: `r' = r − (ω⟨c_i,r⟩/⟨c_i,c_i⟩) c_i`, `c_i = A e_i` -/
theorem nrStep_residual_projection (ω : F) (A : Csr F) (Dinv x r : Array F) (i m : Nat) (hr : r.size = m)
    (hrows : ∀ jj ∈ A.jjs i, rdN A.aj jj < m)
    (hD : rd Dinv i = 1 / (euc F m).a (lineVec A i) (lineVec A i)) :
    vec (nrStep id ω A Dinv (x, r) i).2 =
      vec r - (ω * (euc F m).a (lineVec A i) (vec r) / (euc F m).a (lineVec A i) (lineVec A i)) • lineVec A i := by
  funext q
  simp only [Pi.sub_apply, Pi.smul_apply, smul_eq_mul]
  have hdelta : nrDelta id ω A Dinv r i =
      ω * (euc F m).a (lineVec A i) (vec r) / (euc F m).a (lineVec A i) (lineVec A i) := by
    unfold nrDelta
    have : ((A.jjs i).map (fun k => id (rd A.ax k) * rd r (rdN A.aj k))).sum = csrRow A i (vec r) := rfl
    rw [foldl_add, zero_add, this, hD, euc_lineVec A i m hrows (vec r)]; ring
  by_cases hq : q < r.size
  · have := nrStep_r id ω A Dinv x r i q hq
    unfold vec
    rw [this, hdelta]
    rfl
  · unfold vec
    rw [rd_of_le _ _ (by rw [(nrStep_sizes id ω A Dinv (x, r) i).2]; simpa using hq), rd_of_le _ _ (by omega),
      lineVec_zero A i m hrows q (by omega)]
    ring

/-- ... hence the Euclidean norm of the residual does not increase, `0 ≤ ω ≤ 2` -/
theorem nrStep_residual_nonexp (ω : F) (h0 : 0 ≤ ω) (h2 : ω ≤ 2) (A : Csr F) (Dinv x r : Array F) (i m : Nat)
    (hr : r.size = m) (hrows : ∀ jj ∈ A.jjs i, rdN A.aj jj < m)
    (hne : (euc F m).a (lineVec A i) (lineVec A i) ≠ 0)
    (hD : rd Dinv i = 1 / (euc F m).a (lineVec A i) (lineVec A i)) :
    (euc F m).en (vec (nrStep id ω A Dinv (x, r) i).2) ≤ (euc F m).en (vec r) := by
  rw [nrStep_residual_projection ω A Dinv x r i m hr hrows hD]
  exact proj_step_nonexp (euc F m) (lineVec A i) (vec r) ω h0 h2 hne

end PyamgV.ExtC09
