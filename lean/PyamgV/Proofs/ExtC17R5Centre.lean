import PyamgV.Proofs.ExtC17R5Fw

/-! PyamgV (C17, extension E46, round 5): **`center_nodes` never leaves its arrays** -- the `none` (= fault) branch of E34's
executable model `BalLloyd.centerNodes` is unreachable for well-formed inputs.

Well-formed (`centerNodes_no_fault`): a structurally valid matrix with non-negative weights -- ANY pattern, symmetric or not,
clusters connected or not --; the bookkeeping invariant `KInv` the Lloyd loop keeps (cluster ids in range, exact size array, centres
inside their clusters -- proved for every call site by E34); every node assigned; no cluster larger than `max_size` (both are
checked by `balanced_lloyd_cluster` right before the call and raise `ValueError`s); predecessors `p[j]` are nodes.

Ingredients: the counting sort stays inside `Cptr`/`C`/`L` (`ExtC17R5Bucket`); Floyd–Warshall keeps "`D[ij]` finite → `P[ij]` is a
node" (`ExtC17R5Fw`); the selection only meets nodes of the cluster (so `L[i]` is initialised and `< N`), and a NEW centre `i` has
`q[i] < q[old] - tol`, hence a finite `q[i] = sum_j D[ij]^2`, hence every `D[ij]` finite, hence every `P[ij]` a node: the update loop
reads `pc[p[j]]` and `pc[P[ij]]` with both indices nodes even when the cluster is not strongly connected (`P[ij] = -1` entries are
never reached). -/
namespace PyamgV.C17R5
open PyamgV.Bal PyamgV.BalLloyd

/-- predecessors are nodes -/
def PRange (n : Nat) (st : St) : Prop := ∀ j, j < n → 0 ≤ rdI st.p j ∧ rdI st.p j < (n : Int)

/-! ### the selection -/

/-- a finite `q[_i] = sum_j D[_i, j]^2` means that the whole row `_i` of `D` is finite -/
theorem qOf_fin {D : Array (Option Rat)} {N _i : Nat} {x : Rat} (h : qOf D N _i = some x) :
    ∀ j, j < N → ∃ y, rdO D (_i * N + j) = some y := by
  unfold qOf at h
  have key := foldl_range_inv (fun acc _j => addO acc (sqO (rdO D (_i * N + _j))))
    (fun J (acc : Option Rat) => ∀ x, acc = some x → ∀ j, j < J → ∃ y, rdO D (_i * N + j) = some y)
    N (some 0) (fun _ _ j hj => by omega) (by
      intro J acc _ hI x hx j hj
      cases hacc : acc with
      | none => rw [hacc] at hx; simp [addO] at hx
      | some a0 =>
        cases hd : rdO D (_i * N + J) with
        | none => rw [hacc, hd] at hx; simp [addO, sqO] at hx
        | some y =>
          by_cases hjJ : j = J
          · subst hjJ; exact ⟨y, hd⟩
          · exact hI a0 hacc j (by omega))
  exact key x h

theorem select_no_fault {tol : Rat} {A : Csr} {glob : Nat → Option Nat} {l : OArr} {m : Array Int} {a : Int} {N : Nat}
    (hL : Local A glob l m a N) (q : Nat → Option Rat) {c0 : Nat} (hc0 : c0 < A.n) (hmc : rdI m c0 = a) :
    ∃ i, select tol q glob l N c0 = some i ∧ i < A.n ∧ rdI m i = a ∧
      (i = c0 ∨ ∃ t, t < N ∧ glob t = some i ∧ ∃ x, q t = some x) := by
  unfold select
  refine foldlM_range_some _
    (fun _ i => i < A.n ∧ rdI m i = a ∧ (i = c0 ∨ ∃ t, t < N ∧ glob t = some i ∧ ∃ x, q t = some x))
    N c0 ⟨hc0, hmc, Or.inl rfl⟩ ?_
  intro _j i h_j hi
  obtain ⟨li, hli, hl, _⟩ := hL.back i hi.1 hi.2.1
  simp only [hl]
  rw [if_pos hli]
  by_cases hlt : ltTol tol (q _j) (q li) = true
  · rw [if_pos hlt]
    obtain ⟨g, hg, hgn, hgm⟩ := hL.slot _j h_j
    refine ⟨g, hg, hgn, hgm, Or.inr ⟨_j, h_j, hg, ?_⟩⟩
    cases hq : q _j with
    | some x => exact ⟨x, rfl⟩
    | none => rw [hq] at hlt; simp [ltTol] at hlt
  · rw [if_neg hlt]
    exact ⟨i, rfl, hi⟩

/-! ### the update of `d`, `p`, `pc` -/

theorem moveCentre_no_fault {A : Csr} {glob : Nat → Option Nat} {l : OArr} {m : Array Int} {a : Int} {N : Nat}
    (hL : Local A glob l m a N) {fw : FW} (hok : FwOK N A.n fw) {_i : Nat} (h_i : _i < N)
    (hfin : ∀ j, j < N → Fin fw (_i * N + j)) {st : St} (hd : st.d.size = A.n) (hp : st.p.size = A.n) (hpc : st.pc.size = A.n)
    (hpr : PRange A.n st) :
    ∃ st', moveCentre fw glob N _i st = some st' ∧ PRange A.n st' := by
  unfold moveCentre
  obtain ⟨r, hr, hI⟩ := foldlM_range_some (moveStep fw glob N _i)
    (fun _ (s : St) => s.d.size = A.n ∧ s.p.size = A.n ∧ s.pc.size = A.n ∧ PRange A.n s) N st ⟨hd, hp, hpc, hpr⟩ (by
      intro _j s h_j ⟨sd, sp, spc, spr⟩
      obtain ⟨j, hj, hjn, _⟩ := hL.slot _j h_j
      unfold moveStep
      simp only [hj]
      rw [if_pos ⟨by rw [sd]; exact hjn, by rw [sp]; exact hjn⟩]
      obtain ⟨kp, hkp⟩ := idx_ok (spr j hjn).1 (show rdI s.p j < (s.pc.size : Int) by rw [spc]; exact (spr j hjn).2)
      simp only [hkp]
      have hpn := hok.finP (_i * N + _j) (idx2_lt h_i h_j) (hfin _j h_j)
      obtain ⟨kn, hkn⟩ := idx_ok hpn.1
        (show rdI fw.P (_i * N + _j) < ((wrI s.pc kp (rdI s.pc kp - 1)).size : Int) by rw [size_wrI, spc]; exact hpn.2)
      simp only [hkn]
      refine ⟨_, rfl, by simp only [size_wrO]; exact sd, by simp only [size_wrI]; exact sp,
        by simp only [size_wrI]; exact spc, ?_⟩
      intro j' hj'
      show 0 ≤ rdI (wrI s.p j (rdI fw.P (_i * N + _j))) j' ∧ rdI (wrI s.p j (rdI fw.P (_i * N + _j))) j' < (A.n : Int)
      rw [rdI_wrI]
      by_cases hjj : j = j' ∧ j < s.p.size
      · rw [if_pos hjj]; exact hpn
      · rw [if_neg hjj]; exact spr j' hj')
  exact ⟨r, hr, hI.2.2.2⟩

/-! ### one cluster -/

theorem wf_cols {A : Csr} (hwf : A.wf = true) : ∀ i, i < A.n → ∀ jj ∈ A.jjs i, rdN A.aj jj < A.n := by
  intro i hi jj hjj
  exact (entries_bound A hwf _ (entry_mem A hi hjj)).2

/-- the bucket of cluster `a` after the counting sort -/
theorem local_of_buckets {A : Csr} (hwf : A.wf = true) {k : Nat} {m s cptr : Array Int} {cc l : OArr}
    (hs : ∀ a, a < k → rdI s a = cnt A.n m a) (hB : Buckets A.n k m s cptr cc) (hLO : LOK k s cptr cc l) {a : Nat} (ha : a < k) :
    Local A (globOf cptr cc a) l m (Int.ofNat a) (rdI s a).toNat := by
  refine ⟨?_, ?_, wf_cols hwf⟩
  · intro t ht
    obtain ⟨g, e, hg, hm, _⟩ := hB a t ha (by omega)
    exact ⟨g, e, hg, hm⟩
  · intro g hg hm
    obtain ⟨t, ht, e⟩ := buckets_surj hs hB hg ha hm
    exact ⟨t, by omega, hLO a t ha ht g e, e⟩

theorem clusterStep_no_fault {tol : Rat} {A : Csr} (hwf : A.wf = true) {maxsize k : Nat} {cptr : Array Int} {cc l : OArr}
    {acc : St × Array Nat × Bool} (hB : Buckets A.n k acc.1.m acc.1.s cptr cc) (hLO : LOK k acc.1.s cptr cc l)
    {a : Nat} (ha : a < k) (hK : KInv A.n k acc.2.1 acc.1) (hmax : rdI acc.1.s a ≤ (maxsize : Int))
    (hpr : PRange A.n acc.1) :
    ∃ acc', clusterStep tol A maxsize cptr cc l acc a = some acc' ∧ PRange A.n acc'.1 := by
  have hL := local_of_buckets hwf hK.cnt hB hLO ha
  have hloc : ∀ t, t < (rdI acc.1.s a).toNat → ∀ g, globOf cptr cc a t = some g → rdU l g = some t :=
    fun t ht g e => hLO a t ha (by omega) g e
  obtain ⟨fw, efw, hok, _⟩ := fwRun_ok (tol := tol) (maxsize := maxsize) hL (by omega) hloc
  obtain ⟨c1, c2, c3⟩ := hK.cen a ha
  obtain ⟨i, esel, hin, him, hnew⟩ := select_no_fault (tol := tol) hL (qOf fw.D (rdI acc.1.s a).toNat) c1 c3
  unfold clusterStep
  simp only [efw, esel]
  by_cases hic : i = rdN acc.2.1 a
  · rw [if_pos hic]; exact ⟨acc, rfl, hpr⟩
  · rw [if_neg hic]
    obtain ⟨t, ht, hgt, x, hqx⟩ := hnew.resolve_left hic
    have hl_i := hloc t ht i hgt
    simp only [hl_i]
    obtain ⟨st', emv, hpr'⟩ := moveCentre_no_fault hL hok ht (fun j hj => qOf_fin hqx j hj) hK.sd hK.sp hK.spc hpr
    simp only [emv]
    exact ⟨_, rfl, hpr'⟩

/-! ### the kernel -/

/-- **`center_nodes` makes no out-of-bounds access and reads no uninitialised work-array entry** (the `none` branch of
`BalLloyd.centerNodes` is unreachable), and the state it returns satisfies the hypotheses of the next call again (`KInv`, cluster ids
unchanged, predecessors are nodes) -/
theorem centerNodes_no_fault {tol : Rat} (h0 : 0 < tol) {A : Csr} (hwf : A.wf = true) (hW : ∀ e ∈ A.entries, 0 ≤ e.2.2)
    {maxsize k : Nat} {x : LSt} (hK : KInv A.n k x.c x.st) (hcc : x.cc.size = A.n) (hl : x.l.size = A.n)
    (hasg : ∀ j, j < A.n → 0 ≤ rdI x.st.m j)
    (hmax : ∀ a, a < k → rdI x.st.s a ≤ (maxsize : Int))
    (hpr : PRange A.n x.st) :
    ∃ y ch, centerNodes tol A maxsize x = some (y, ch) ∧
      KInv A.n k y.c y.st ∧ y.st.m = x.st.m ∧ y.st.s = x.st.s ∧ y.cc.size = A.n ∧ y.l.size = A.n ∧ PRange A.n y.st := by
  have hm : ∀ i, i < A.n → 0 ≤ rdI x.st.m i ∧ rdI x.st.m i < (k : Int) := fun i hi => ⟨hasg i hi, (hK.ids i hi).2⟩
  obtain ⟨f, ef⟩ := fill_no_fault hK.ss hK.cnt hm hcc
  obtain ⟨hB, hfs⟩ := fill_spec hK.ss hK.cnt hcc ef
  obtain ⟨l, el⟩ := setL_no_fault hK.ss hB hl
  obtain ⟨hLO, hls⟩ := setL_spec hK.ss hB el
  obtain ⟨r, er, hI⟩ := foldlM_range_some (clusterStep tol A maxsize (prefixSums x.st.s) f.2 l)
    (fun _ (acc : St × Array Nat × Bool) =>
      KInv A.n k acc.2.1 acc.1 ∧ acc.1.m = x.st.m ∧ acc.1.s = x.st.s ∧ PRange A.n acc.1)
    k (x.st, x.c, false) ⟨hK, rfl, rfl, hpr⟩ (by
      intro a acc ha ⟨aK, am, as, apr⟩
      obtain ⟨acc', e, hpr'⟩ := clusterStep_no_fault (tol := tol) hwf (maxsize := maxsize) (acc := acc)
        (by rw [am, as]; exact hB) (by rw [as]; exact hLO) ha aK (by rw [as]; exact hmax a ha) apr
      obtain ⟨s1, s2, s3⟩ := clusterStep_spec h0 hW hB hLO ha aK am as e
      exact ⟨acc', e, s1, s2, s3, hpr'⟩)
  refine ⟨{ st := r.1, c := r.2.1, cptr := prefixSums x.st.s, cc := f.2, l := l }, r.2.2, ?_,
    hI.1, hI.2.1, hI.2.2.1, hfs, by rw [hls]; exact hl, hI.2.2.2⟩
  unfold centerNodes
  rw [if_pos (by rw [hK.ss, hK.sc])]
  simp only [ef, el]
  rw [hK.sc]
  simp only [er]

/-- the fault branch is unreachable -/
theorem centerNodes_ne_none {tol : Rat} (h0 : 0 < tol) {A : Csr} (hwf : A.wf = true) (hW : ∀ e ∈ A.entries, 0 ≤ e.2.2)
    {maxsize k : Nat} {x : LSt} (hK : KInv A.n k x.c x.st) (hcc : x.cc.size = A.n) (hl : x.l.size = A.n)
    (hasg : ∀ j, j < A.n → 0 ≤ rdI x.st.m j)
    (hmax : ∀ a, a < k → rdI x.st.s a ≤ (maxsize : Int))
    (hpr : PRange A.n x.st) :
    centerNodes tol A maxsize x ≠ none := by
  obtain ⟨y, ch, e, _⟩ := centerNodes_no_fault h0 hwf hW hK hcc hl hasg hmax hpr
  rw [e]; exact fun h => by cases h

end PyamgV.C17R5
