import PyamgV.Model.ExtC07Restart
import PyamgV.Proofs.C07GmresKry

/-! PyamgV (C07, extension E11): restarted GMRES(MGS).  The callback log of the restarted model
(`gmresRestart`, `Model/ExtC07Restart.lean`) is cut into cycles; entry `j·r + m` is iterate `m+1` of the cycle
started at the restart point `x^(j)`, and by the single-cycle theorem `gmres_mgs_model_optimal_krylov`
it minimises the 2-norm of the preconditioned residual over `x^(j) + K_{m+1}(MA, M(b − A x^(j)))`
(`gmres_restart_optimal`).  Consequences: the preconditioned residual norm does not increase inside a cycle
(`gmres_restart_step_mono`), never exceeds the one of the restart point (`gmres_restart_le_start`), and is
non-increasing from restart point to restart point (`gmres_restart_points_mono`,
`gmres_restart_points_le_initial`). -/
namespace PyamgV.C07
open Finset

variable {K : Type} [Field K] [LinearOrder K] [IsStrictOrderedRing K]
variable {V : Type} [AddCommGroup V] [Module K V]
variable (A AH M : V →ₗ[K] V) (e : EForm K V) (sqrt : K → K) (n : Nat) (b x0 : V)

/-! ### list facts -/

theorem flatMap_block {α : Type} (f : Nat → List α) (r : Nat) (hf : ∀ j, (f j).length = r) :
    ∀ c j m, j < c → m < r → ((List.range c).flatMap f)[j * r + m]? = (f j)[m]? := by
  have hlen : ∀ c, ((List.range c).flatMap f).length = c * r := by
    intro c
    induction c with
    | zero => simp
    | succ c ih => rw [List.range_succ, List.flatMap_append, List.length_append, ih]; simp [hf]; ring
  intro c
  induction c with
  | zero => intro j m hj; omega
  | succ c ih =>
    intro j m hj hm
    rw [List.range_succ, List.flatMap_append]
    by_cases hjc : j < c
    · rw [List.getElem?_append_left (by
        rw [hlen c]
        calc j * r + m < j * r + r := by omega
          _ = (j + 1) * r := by ring
          _ ≤ c * r := Nat.mul_le_mul_right r (by omega))]
      exact ih j m hjc hm
    · have : j = c := by omega
      subst this
      rw [List.getElem?_append_right (by rw [hlen j]; omega), hlen j]
      simp

/-! ### the iterates recorded by one cycle -/

local notation "St" => gmSeq A AH M e sqrt nzK n b x0

theorem xs_succ (hsq : ∀ a, 0 ≤ a → sqrt a * sqrt a = a) (k : Nat) :
    ∃ x, (St (k+1)).xs = (St k).xs ++ [x] :=
  ⟨_, gmSeq_xs_succ A AH M e sqrt n b x0 k (givInv_all A AH M e sqrt n b x0 hsq k).lcols⟩

theorem xs_length (hsq : ∀ a, 0 ≤ a → sqrt a * sqrt a = a) : ∀ k, (St k).xs.length = k
  | 0 => rfl
  | k+1 => by
    obtain ⟨x, hx⟩ := xs_succ A AH M e sqrt n b x0 hsq k
    rw [hx, List.length_append, xs_length hsq k]; rfl

/-- iterates, once recorded, stay where they are -/
theorem xs_stable (hsq : ∀ a, 0 ≤ a → sqrt a * sqrt a = a) (m : Nat) :
    ∀ d, (St (m + 1 + d)).xs[m]? = (St (m + 1)).xs[m]?
  | 0 => rfl
  | d+1 => by
    obtain ⟨x, hx⟩ := xs_succ A AH M e sqrt n b x0 hsq (m + 1 + d)
    have : m + 1 + (d + 1) = (m + 1 + d) + 1 := by omega
    rw [this, hx, List.getElem?_append_left (by rw [xs_length A AH M e sqrt n b x0 hsq]; omega)]
    exact xs_stable hsq m d

theorem xs_getElem_last (hsq : ∀ a, 0 ≤ a → sqrt a * sqrt a = a) (m k : Nat) (h : m < k) :
    (St k).xs[m]? = (St (m + 1)).xs.getLast? := by
  have h1 := xs_stable A AH M e sqrt n b x0 hsq m (k - (m + 1))
  have e1 : m + 1 + (k - (m + 1)) = k := by omega
  rw [e1] at h1
  rw [h1, List.getLast?_eq_getElem?, xs_length A AH M e sqrt n b x0 hsq]
  rfl

/-- "no breakdown in the first `k` inner iterations of the cycle started at `x0`": the hypotheses of
`gmres_mgs_model_optimal_krylov` -/
def NoBreakdown (k : Nat) : Prop :=
  sqrt (e.a (M (b - A x0)) (M (b - A x0))) ≠ 0 ∧
  (∀ i, i ≤ k → e.a ((St k).vs.getD i 0) ((St k).vs.getD i 0) ≠ 0) ∧
  (∀ i, i < k → Rent (St k).rcols i i ≠ 0)

variable (r : Nat)

/-- the restart points of the model over the module -/
def restartPt (j : Nat) : V := gmresRestartPt (Ops.ofModule A AH M e) sqrt posK nzK n b x0 r j

/-- the callback log of the restarted model over the module -/
def restartLog (cycles : Nat) : List V := gmresRestart (Ops.ofModule A AH M e) sqrt posK nzK n b x0 r cycles

local notation "Pt" => restartPt A AH M e sqrt n b x0 r

theorem restartLog_getElem (hsq : ∀ a, 0 ≤ a → sqrt a * sqrt a = a) (cycles j m : Nat)
    (hj : j < cycles) (hm : m < r) :
    (restartLog A AH M e sqrt n b x0 r cycles)[j * r + m]? =
      (gmSeq A AH M e sqrt nzK n b (Pt j) (m + 1)).xs.getLast? := by
  refine (flatMap_block (fun i => (gmSeq A AH M e sqrt nzK n b (Pt i) r).xs) r
    (fun i => xs_length A AH M e sqrt n b _ hsq r) cycles j m hj hm).trans ?_
  exact xs_getElem_last A AH M e sqrt n b _ hsq m r hm

theorem restartPt_succ (hsq : ∀ a, 0 ≤ a → sqrt a * sqrt a = a) (j : Nat) (hr : 0 < r) :
    some (Pt (j + 1)) = (gmSeq A AH M e sqrt nzK n b (Pt j) r).xs.getLast? := by
  have hl := xs_length A AH M e sqrt n b (Pt j) hsq r
  show some ((gmSeq A AH M e sqrt nzK n b (Pt j) r).xs.getLast?.getD (Pt j)) = _
  cases h : (gmSeq A AH M e sqrt nzK n b (Pt j) r).xs.getLast? with
  | none =>
    rw [List.getLast?_eq_none_iff] at h
    rw [h] at hl; simp at hl; omega
  | some x => rfl

variable (hdef : ∀ v, e.a v v = 0 → v = 0) (hsq : ∀ a, 0 ≤ a → sqrt a * sqrt a = a) (hsq0 : ∀ a, 0 ≤ sqrt a)

include hdef hsq hsq0 in
/-- **restarted GMRES(MGS)**: entry `j·r + m` of the callback log (iterate `m+1` of cycle `j`, `m < r`,
`m + 1 < n`, no breakdown in that cycle so far) lies in `x^(j) + K_{m+1}(MA, M(b − A x^(j)))`, `x^(j)` the
restart point, and minimises the 2-norm of the preconditioned residual over it -/
theorem gmres_restart_optimal (cycles j m : Nat) (hj : j < cycles) (hm : m < r) (hmn : m + 1 < n)
    (hnb : NoBreakdown A AH M e sqrt n b (Pt j) (m + 1)) :
    ∃ xk, (restartLog A AH M e sqrt n b x0 r cycles)[j * r + m]? = some xk ∧
      xk - Pt j ∈ PCG.kry A M e b (Pt j) (m + 1) ∧
      ∀ x', x' - Pt j ∈ PCG.kry A M e b (Pt j) (m + 1) →
        e.en (M b - (M ∘ₗ A) xk) ≤ e.en (M b - (M ∘ₗ A) x') := by
  obtain ⟨xk, h1, h2, h3⟩ := gmres_mgs_model_optimal_krylov A AH M e sqrt n b (Pt j) hdef hsq hsq0 m hmn
    hnb.1 hnb.2.1 hnb.2.2
  exact ⟨xk, by rw [restartLog_getElem A AH M e sqrt n b x0 r hsq cycles j m hj hm, h1], h2, h3⟩

include hdef hsq hsq0 in
/-- … hence its preconditioned residual is not larger than the one of the restart point -/
theorem gmres_restart_le_start (cycles j m : Nat) (hj : j < cycles) (hm : m < r) (hmn : m + 1 < n)
    (hnb : NoBreakdown A AH M e sqrt n b (Pt j) (m + 1)) :
    ∃ xk, (restartLog A AH M e sqrt n b x0 r cycles)[j * r + m]? = some xk ∧
      e.en (M b - (M ∘ₗ A) xk) ≤ e.en (M b - (M ∘ₗ A) (Pt j)) := by
  obtain ⟨xk, h1, _, h3⟩ := gmres_restart_optimal A AH M e sqrt n b x0 r hdef hsq hsq0 cycles j m hj hm hmn hnb
  exact ⟨xk, h1, h3 _ (by rw [sub_self]; exact Submodule.zero_mem _)⟩

include hdef hsq hsq0 in
/-- … and the preconditioned residual norm does not increase from one inner iteration to the next -/
theorem gmres_restart_step_mono (cycles j m : Nat) (hj : j < cycles) (hm : m + 1 < r) (hmn : m + 2 < n)
    (hnb : NoBreakdown A AH M e sqrt n b (Pt j) (m + 1))
    (hnb' : NoBreakdown A AH M e sqrt n b (Pt j) (m + 2)) :
    ∃ xk xk', (restartLog A AH M e sqrt n b x0 r cycles)[j * r + m]? = some xk ∧
      (restartLog A AH M e sqrt n b x0 r cycles)[j * r + (m + 1)]? = some xk' ∧
      e.en (M b - (M ∘ₗ A) xk') ≤ e.en (M b - (M ∘ₗ A) xk) := by
  obtain ⟨xk, h1, h2, _⟩ := gmres_restart_optimal A AH M e sqrt n b x0 r hdef hsq hsq0 cycles j m hj
    (by omega) (by omega) hnb
  obtain ⟨xk', h1', _, h3'⟩ := gmres_restart_optimal A AH M e sqrt n b x0 r hdef hsq hsq0 cycles j (m + 1) hj
    hm hmn hnb'
  exact ⟨xk, xk', h1, h1', h3' xk (PCG.kry_mono (by omega) h2)⟩

include hdef hsq hsq0 in
/-- **monotonicity across restarts**: the preconditioned residual norm at restart point `j+1` is at most the
one at restart point `j` (cycle length `0 < r < n`, no breakdown in cycle `j`) -/
theorem gmres_restart_points_mono (j : Nat) (hr : 0 < r) (hrn : r < n)
    (hnb : NoBreakdown A AH M e sqrt n b (Pt j) r) :
    e.en (M b - (M ∘ₗ A) (Pt (j + 1))) ≤ e.en (M b - (M ∘ₗ A) (Pt j)) := by
  obtain ⟨m, hm⟩ : ∃ m, r = m + 1 := ⟨r - 1, by omega⟩
  have hnb' : NoBreakdown A AH M e sqrt n b (Pt j) (m + 1) := hm ▸ hnb
  obtain ⟨xk, h1, _, h3⟩ := gmres_mgs_model_optimal_krylov A AH M e sqrt n b (Pt j) hdef hsq hsq0 m
    (by omega) hnb'.1 hnb'.2.1 hnb'.2.2
  have hp : some (Pt (j + 1)) = (gmSeq A AH M e sqrt nzK n b (Pt j) (m + 1)).xs.getLast? := by
    rw [← hm]; exact restartPt_succ A AH M e sqrt n b x0 r hsq j hr
  rw [h1] at hp
  rw [Option.some.inj hp]
  exact h3 _ (by rw [sub_self]; exact Submodule.zero_mem _)

include hdef hsq hsq0 in
/-- … so after any number of breakdown-free cycles it is at most the initial one -/
theorem gmres_restart_points_le_initial (hr : 0 < r) (hrn : r < n) :
    ∀ j, (∀ i, i < j → NoBreakdown A AH M e sqrt n b (Pt i) r) →
      e.en (M b - (M ∘ₗ A) (Pt j)) ≤ e.en (M b - (M ∘ₗ A) x0) := by
  intro j
  induction j with
  | zero => intro _; exact le_refl _
  | succ j ih =>
    intro h
    exact le_trans (gmres_restart_points_mono A AH M e sqrt n b x0 r hdef hsq hsq0 j hr hrn (h j (by omega)))
      (ih (fun i hi => h i (by omega)))

#print axioms gmres_restart_optimal
#print axioms gmres_restart_points_le_initial
end PyamgV.C07
