import PyamgV.Proofs.StencilSym
import PyamgV.Model.C20Gallery

/-! PyamgV (C20): the Poisson stencils (`FD`, `FE`) in every dimension `N`: every offset has length `N`,
the stencil is closed under negation of offsets (⇒ symmetric matrix), the centre carries `2N` resp.
`3^N - 1` and every other entry is `-1` (⇒ Z-matrix with positive diagonal). Core only. -/
namespace PyamgV.C20
open PyamgV.Stencil

def negv (o : List Int) : List Int := o.map (fun x => -x)

theorem unitVec_length (N i : Nat) (s : Int) : (unitVec N i s).length = N := by simp [unitVec]

theorem unitVec_neg (N i : Nat) (s : Int) : negv (unitVec N i s) = unitVec N i (-s) := by
  unfold negv unitVec
  rw [List.map_map]
  apply List.map_congr_left
  intro k _
  simp only [Function.comp]
  split <;> simp

theorem replicate_neg (N : Nat) : negv (List.replicate N (0 : Int)) = List.replicate N 0 := by
  simp [negv]

theorem mem_poissonFD (N : Nat) (ov : List Int × Rat) :
    ov ∈ poissonFD N ↔ ov = (List.replicate N 0, ((2 * N : Nat) : Rat)) ∨
      ∃ i, i < N ∧ (ov = (unitVec N i (-1), -1) ∨ ov = (unitVec N i 1, -1)) := by
  unfold poissonFD
  simp only [List.mem_cons, List.mem_flatMap, List.mem_range, List.not_mem_nil, or_false]

theorem poissonFD_len (N : Nat) : ∀ ov ∈ poissonFD N, ov.1.length = N := by
  intro ov h
  rcases (mem_poissonFD N ov).1 h with rfl | ⟨i, _, rfl | rfl⟩
  · simp
  · exact unitVec_length _ _ _
  · exact unitVec_length _ _ _

theorem poissonFD_neg (N : Nat) : ∀ ov ∈ poissonFD N, (ov.1.map (fun o => -o), ov.2) ∈ poissonFD N := by
  intro ov h
  rw [mem_poissonFD] at h ⊢
  rcases h with rfl | ⟨i, hi, rfl | rfl⟩
  · left; show (negv _, _) = _; rw [replicate_neg]
  · right; refine ⟨i, hi, Or.inr ?_⟩; show (negv _, _) = _; rw [unitVec_neg]; rfl
  · right; refine ⟨i, hi, Or.inl ?_⟩; show (negv _, _) = _; rw [unitVec_neg]

/-! FE -/

theorem mem_cube_succ (n : Nat) (o : List Int) :
    o ∈ cube (n + 1) ↔ ∃ h t, (h = -1 ∨ h = 0 ∨ h = 1) ∧ t ∈ cube n ∧ o = h :: t := by
  simp only [cube, List.mem_flatMap, List.mem_cons, List.not_mem_nil, or_false, List.mem_map]
  constructor
  · rintro ⟨h, hh, t, ht, rfl⟩; exact ⟨h, t, hh, ht, rfl⟩
  · rintro ⟨h, t, hh, ht, rfl⟩; exact ⟨h, hh, t, ht, rfl⟩

theorem cube_len : ∀ (n : Nat) (o : List Int), o ∈ cube n → o.length = n := by
  intro n
  induction n with
  | zero => intro o h; simp [cube] at h; simp [h]
  | succ n ih =>
    intro o h
    obtain ⟨h0, t, _, ht, rfl⟩ := (mem_cube_succ n o).1 h
    simp [ih t ht]

theorem cube_neg : ∀ (n : Nat) (o : List Int), o ∈ cube n → negv o ∈ cube n := by
  intro n
  induction n with
  | zero => intro o h; simp [cube] at h; simp [h, negv, cube]
  | succ n ih =>
    intro o h
    obtain ⟨h0, t, hh, ht, rfl⟩ := (mem_cube_succ n _).1 h
    rw [mem_cube_succ]
    refine ⟨-h0, negv t, ?_, ih t ht, by simp [negv]⟩
    rcases hh with rfl | rfl | rfl <;> simp

theorem all_zero_neg (o : List Int) : (negv o).all (fun x => x = 0) = o.all (fun x => x = 0) := by
  induction o with
  | nil => rfl
  | cons a l ih =>
    have ih' : (List.map (fun x => -x) l).all (fun x => x = 0) = l.all (fun x => x = 0) := ih
    simp only [negv, List.map_cons, List.all_cons, ih']
    congr 1
    simp

theorem poissonFE_len (N : Nat) : ∀ ov ∈ poissonFE N, ov.1.length = N := by
  intro ov h
  unfold poissonFE at h
  simp only [List.mem_map] at h
  obtain ⟨o, ho, rfl⟩ := h
  exact cube_len N o ho

theorem poissonFE_neg (N : Nat) : ∀ ov ∈ poissonFE N, (ov.1.map (fun o => -o), ov.2) ∈ poissonFE N := by
  intro ov h
  unfold poissonFE at h ⊢
  simp only [List.mem_map] at h ⊢
  obtain ⟨o, ho, rfl⟩ := h
  refine ⟨negv o, cube_neg N o ho, ?_⟩
  show (negv o, _) = (negv o, _)
  rw [all_zero_neg]

/-- **the Poisson matrices are symmetric** (every dimension, every grid shape, FD and FE) -/
theorem poisson_symm (grid : List Nat) (fe : Bool) (p q : Nat) (w : Rat) :
    (p, q, w) ∈ stencilGrid grid (poissonStencil fe grid.length) →
      (q, p, w) ∈ stencilGrid grid (poissonStencil fe grid.length) := by
  cases fe
  · exact stencilGrid_symm grid _ (poissonFD_len _) (poissonFD_neg _) p q w
  · exact stencilGrid_symm grid _ (poissonFE_len _) (poissonFE_neg _) p q w

/-! sign pattern -/

theorem shift_zero : ∀ (grid : List Nat) (off : List Int) (cp cq : List Nat),
    Shift grid off cp cq → (∀ o ∈ off, o = 0) → cp = cq := by
  intro grid
  induction grid with
  | nil =>
    intro off cp cq h _
    cases off <;> cases cp <;> cases cq <;> simp [Shift] at h ⊢
  | cons g gs ih =>
    intro off cp cq h hz
    cases off with
    | nil => cases cp <;> cases cq <;> simp [Shift] at h
    | cons o os =>
      cases cp with
      | nil => cases cq <;> simp [Shift] at h
      | cons a as =>
        cases cq with
        | nil => simp [Shift] at h
        | cons b bs =>
          simp only [Shift] at h
          have ho : o = 0 := hz o (by simp)
          have hab : a = b := by omega
          rw [hab, ih os as bs h.2 (fun o' ho' => hz o' (by simp [ho']))]

theorem shift_self : ∀ (grid : List Nat) (off : List Int) (cp : List Nat),
    Shift grid off cp cp → ∀ o ∈ off, o = 0 := by
  intro grid
  induction grid with
  | nil =>
    intro off cp h
    cases off <;> cases cp <;> simp [Shift] at h ⊢
  | cons g gs ih =>
    intro off cp h
    cases off with
    | nil => cases cp <;> simp [Shift] at h
    | cons o os =>
      cases cp with
      | nil => simp [Shift] at h
      | cons a as =>
        simp only [Shift] at h
        intro o' ho'
        simp only [List.mem_cons] at ho'
        rcases ho' with rfl | ho'
        · omega
        · exact ih os as h.2 o' ho'

/-- value at the centre of the stencil -/
def centre (fe : Bool) (N : Nat) : Rat := if fe then ((3 ^ N - 1 : Nat) : Rat) else ((2 * N : Nat) : Rat)

/-- every entry of a Poisson stencil: zero offset with the centre value, or a nonzero offset with `-1` -/
theorem poissonStencil_cases (fe : Bool) (N : Nat) (ov : List Int × Rat) (h : ov ∈ poissonStencil fe N) :
    ov.1.length = N ∧ (((∀ o ∈ ov.1, o = 0) ∧ ov.2 = centre fe N) ∨ ((∃ o ∈ ov.1, o ≠ 0) ∧ ov.2 = -1)) := by
  cases fe
  · refine ⟨poissonFD_len N ov h, ?_⟩
    rcases (mem_poissonFD N ov).1 h with rfl | ⟨i, hi, rfl | rfl⟩
    · left; exact ⟨fun o ho => (List.mem_replicate.1 ho).2, by simp [centre]⟩
    · right; refine ⟨⟨-1, ?_, by decide⟩, rfl⟩
      simp only [unitVec, List.mem_map, List.mem_range]; exact ⟨i, hi, by simp⟩
    · right; refine ⟨⟨1, ?_, by decide⟩, rfl⟩
      simp only [unitVec, List.mem_map, List.mem_range]; exact ⟨i, hi, by simp⟩
  · refine ⟨poissonFE_len N ov h, ?_⟩
    simp only [poissonStencil, if_true, poissonFE, List.mem_map] at h
    obtain ⟨o, _, rfl⟩ := h
    by_cases hz : o.all (fun x => x = 0) = true
    · left
      refine ⟨fun x hx => by simpa using (List.all_eq_true.1 hz) x hx, by simp [hz, centre]⟩
    · right
      simp only [hz]
      refine ⟨?_, by simp⟩
      rw [List.all_eq_true] at hz
      simp only [decide_eq_true_eq] at hz
      apply Classical.byContradiction
      intro hne
      apply hz
      intro x hx
      apply Classical.byContradiction
      intro hx0
      exact hne ⟨x, hx, hx0⟩

/-- **sign pattern of the Poisson matrices**: every generated entry lies inside the matrix; diagonal
entries carry the (positive) centre value `2N` resp. `3^N - 1`, off-diagonal entries are `-1` -/
theorem poisson_entries (grid : List Nat) (fe : Bool) (p q : Nat) (w : Rat)
    (h : (p, q, w) ∈ stencilGrid grid (poissonStencil fe grid.length)) :
    p < prod grid ∧ q < prod grid ∧ (p = q → w = centre fe grid.length) ∧ (p ≠ q → w = -1) := by
  rw [stencilGrid_eq] at h
  simp only [List.mem_flatMap] at h
  obtain ⟨ov, hov, hmem⟩ := h
  obtain ⟨hlen, hcase⟩ := poissonStencil_cases fe grid.length ov hov
  obtain ⟨hw, hq, hp, hs⟩ := (contrib_mem grid ov.1 ov.2 hlen p q w).1 hmem
  refine ⟨hp, hq, ?_, ?_⟩
  · intro hpq
    subst hpq
    rcases hcase with ⟨_, hv⟩ | ⟨⟨o, ho, hne⟩, _⟩
    · rw [hw, hv]
    · exact absurd (shift_self grid ov.1 _ hs o ho) hne
  · intro hpq
    rcases hcase with ⟨hz, _⟩ | ⟨_, hv⟩
    · exfalso
      apply hpq
      have e := shift_zero grid ov.1 _ _ hs hz
      have e1 := (lin_coordsR grid p hp).2
      have e2 := (lin_coordsR grid q hq).2
      rw [← e1, ← e2, e]
    · rw [hw, hv]

end PyamgV.C20
