import PyamgV.Model.C19Utils
import Mathlib.Algebra.Order.Ring.Rat

/-! PyamgV (C19): row truncation.  `truncate_rows_csr` sorts a long row with a hand-written quicksort
and zeroes its head.  The sort is not proved correct in general; instead every run certifies each
instance: `truncCheck` (decided in the driver on the very rows the real kernel is compared on) says
that the model's sort returned a permutation whose head is dominated by its tail, and
`truncateRow_spec` turns that certificate into the specification of the truncated row. -/
namespace PyamgV.C19

variable {α : Type} [Add α] [Sub α] [Mul α] [Div α] [OfNat α 0] [OfNat α 1] [DecidableEq α]

/-- specification of `truncate_rows` on one row `r` (stored entries, any order): short rows are
unchanged; a long row becomes a rearrangement `a` of its stored entries with the first
`len - k` entries zeroed, none of which is larger in modulus than any of the `k` kept ones -/
def TruncSpec (nsq : α → Rat) (k : Nat) (r out : RowOf α) : Prop :=
  if r.length ≤ k then out = r else
    ∃ a : RowOf α, a.Perm r ∧
      out = a.mapIdx (fun t cv => if t < r.length - k then (cv.1, (0 : α)) else cv) ∧
      ∀ t u, t < r.length - k → r.length - k ≤ u → u < r.length →
        nsq (a.getD t (0, 0)).2 ≤ nsq (a.getD u (0, 0)).2

theorem truncateRow_spec (nsq : α → Rat) (k : Nat) (r : RowOf α) (h : truncCheck nsq k r = true) :
    TruncSpec nsq k r (truncateRow nsq k r) := by
  unfold TruncSpec truncateRow
  by_cases hk : r.length ≤ k
  · have : ¬ r.length > k := Nat.not_lt.mpr hk
    rw [if_pos hk, if_neg this]
  · have hk' : r.length > k := Nat.lt_of_not_le hk
    rw [if_neg hk, if_pos hk']
    unfold truncCheck at h
    rw [if_pos hk'] at h
    simp only [Bool.and_eq_true, List.all_eq_true, decide_eq_true_eq, List.mem_range, List.mem_range'_1] at h
    obtain ⟨hperm, hdom⟩ := h
    refine ⟨sortedRow nsq r, List.isPerm_iff.mp hperm, rfl, ?_⟩
    intro t u ht hu hul
    exact hdom t ht u ⟨hu, by omega⟩

#print axioms truncateRow_spec
end PyamgV.C19
