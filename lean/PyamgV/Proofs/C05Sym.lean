import PyamgV.Proofs.C05Adj
import PyamgV.Proofs.Jacobi

/-! PyamgV (C05): **flag `True` ⇒ symmetric V- and W-cycle preconditioner**, end to end for the
smoothers of the cycle model: decision table (`flag_sound`) ⇒ partner smoothers on every level
(`levelOk_partner`) ⇒ adjoint smoother operators (`partner_adjoint`) ⇒ `Mop .V`, `Mop .W`
self-adjoint (`Mop_sym`). Also: the operators `smOp` are the linear parts of the function-level
kernel models (`gs_isLinIter`), which the array kernels refine (`gaussSeidel_refines`). -/
namespace PyamgV.C05
open PyamgV

variable {K : Type*} [Field K] [LinearOrder K] [IsStrictOrderedRing K] [DecidableEq K]

/-- per-level data of a CSR level: size, diagonal, coarse/fine index lists -/
structure LvlData (K : Type*) where
  n : Nat
  diag : Nat → K
  C : List Nat
  F : List Nat

/-- hierarchy whose smoothers are the ones `change_smoothers(ml, pre, post)` installs (level `i` gets
`preAt pre i` / `postAt post i`, both inside the cycle model), with symmetric level matrices,
`R` the adjoint of `P`, and a symmetric coarsest solve `S` -/
def WFFlag (S : Op K) (pre post : List Cfg) :
    Nat → LvlData K → List (LvlData K) → List (LinLevel K (Nat → K)) → Prop
  | _, d, _, [] => IsAdj (euc K d.n) (euc K d.n) S S
  | i, d, dc :: ds, L :: rest =>
      IsAdj (euc K d.n) (euc K d.n) L.A L.A ∧
      (∀ j ∈ d.C, j < d.n) ∧ (∀ j ∈ d.F, j < d.n) ∧
      (∃ s t, smOf (preAt pre i) = some s ∧ smOf (postAt post i) = some t ∧
          L.Qpre = smOp L.A d.diag d.n d.C d.F s ∧ L.Qpost = smOp L.A d.diag d.n d.C d.F t) ∧
      IsAdj (euc K d.n) (euc K dc.n) L.P L.R ∧
      WFFlag S pre post (i+1) dc ds rest
  | _, _, [], _ :: _ => False

theorem wfflag_wfs (S : Op K) (pre post : List Cfg) :
    ∀ (Ls : List (LinLevel K (Nat → K))) (i : Nat) (d : LvlData K) (ds : List (LvlData K)),
      (∀ j, i ≤ j → j < i + Ls.length → levelOk (preAt pre j) (postAt post j) = true) →
      WFFlag S pre post i d ds Ls →
      WFS S (euc K d.n) (ds.map (fun d => euc K d.n)) Ls := by
  intro Ls
  induction Ls with
  | nil =>
    intro i d ds _ h
    cases ds <;> simpa [WFFlag, WFS] using h
  | cons L rest ih =>
    intro i d ds hok h
    cases ds with
    | nil => exact absurd h (by simp [WFFlag])
    | cons dc ds =>
      obtain ⟨hA, hC, hF, ⟨s, t, hs, ht, hQ1, hQ2⟩, hP, hrest⟩ := h
      have hl := hok i (Nat.le_refl i) (by simp)
      have hpart := levelOk_partner _ _ hl s t hs ht
      have hadj := partner_adjoint d.n L.A d.diag d.C d.F hA hC hF s t hpart
      refine ⟨hA, ?_, hP, ?_⟩
      · rw [hQ1, hQ2]; exact hadj
      · exact ih (i+1) dc ds (fun j h1 h2 => hok j (by omega) (by simp only [List.length_cons]; omega)) hrest

/-- **C05, real symmetric case, smoothers of the cycle model**: when `change_smoothers` reports
`symmetric_smoothing = True` for the lists `pre`, `post` on a hierarchy with `nl` smoothing levels
(level matrices symmetric, `R = Pᵀ`, symmetric coarsest solve), the operators of the V-cycle and of
the W-cycle are symmetric: `⟨M u, v⟩ = ⟨u, M v⟩` for all `u`, `v`. -/
theorem flag_cycle_symmetric (S : Op K) (pre post : List Cfg) (nl : Nat)
    (hp : 1 ≤ pre.length) (hq : 1 ≤ post.length)
    (hflag : flag pre post nl = some true)
    (Ls : List (LinLevel K (Nat → K))) (hlen : Ls.length = nl)
    (d : LvlData K) (ds : List (LvlData K))
    (hwf : WFFlag S pre post 0 d ds Ls) :
    (∀ u v, (euc K d.n).a (Mop S .V Ls u) v = (euc K d.n).a u (Mop S .V Ls v)) ∧
    (∀ u v, (euc K d.n).a (Mop S .W Ls u) v = (euc K d.n).a u (Mop S .W Ls v)) := by
  have hok := flag_sound pre post nl hp hq hflag
  have hwfs := wfflag_wfs S pre post Ls 0 d ds
    (fun j _ h2 => hok j (by omega)) hwf
  exact Mop_sym S Ls (euc K d.n) _ hwfs

/-! ### the operators `smOp` belong to the kernel models -/

/-- function-level `gauss_seidel(A, x, b, sweep, omega)` pass (one iteration) over the kernel rows -/
def gsFn (ω : K) (rows : Nat → Row K) (n : Nat) : PyamgV.K.Sweep → (Nat → K) → (Nat → K) → (Nat → K)
  | .forward => fun x b => sorSweepFn ω rows b (List.range n) x
  | .backward => fun x b => sorSweepFn ω rows b (List.range n).reverse x
  | .symmetric => fun x b =>
      sorSweepFn ω rows b (List.range n).reverse (sorSweepFn ω rows b (List.range n) x)

/-- `iterations` Gauss–Seidel/SOR passes in any of the three sweep modes are the linear iteration
`x + M (b − A x)` with `M = smOp … (.gs ω sweep iterations)` -/
theorem gs_isLinIter (ω : Rat) (n : Nat) (rows : Nat → Row K) (diag : Nat → K)
    (hdiag : ∀ i, i < n → HasDiag i (rows i) (diag i) ∧ diag i ≠ 0)
    (C F : List Nat) (sw : PyamgV.K.Sweep) (k : Nat) :
    IsLinIter (csrOp n rows) (fun x b => PyamgV.iter (gsFn (ω : K) rows n sw) b k x)
      (smOp (csrOp n rows) diag n C F (.gs ω sw k)) := by
  have hr : ∀ i ∈ List.range n, i < n := fun i hi => List.mem_range.1 hi
  have hr' : ∀ i ∈ (List.range n).reverse, i < n := fun i hi => List.mem_range.1 (List.mem_reverse.1 hi)
  have hf := sorSweep_isLinIter (ω : K) n rows diag hdiag (List.range n) hr
  have hb := sorSweep_isLinIter (ω : K) n rows diag hdiag (List.range n).reverse hr'
  cases sw with
  | forward => simpa [smOp, passOp, gsFn] using hf.pow k
  | backward => simpa [smOp, passOp, gsFn] using hb.pow k
  | symmetric => simpa [smOp, passOp, gsFn] using (hf.comp hb).pow k

end PyamgV.C05

namespace PyamgV.C05
open PyamgV

variable {K : Type*} [Field K] [LinearOrder K] [IsStrictOrderedRing K] [DecidableEq K]

/-- function-level `jacobi` / `jacobi_indexed` kernel: every listed row reads the frozen copy `x` -/
def jacSweepFn (ω : K) (rows : Nat → Row K) (b : Nat → K) (idx : List Nat) (x : Nat → K) : Nat → K :=
  idx.foldl (fun acc i => jacRowFn ω i (rows i) b x acc) x

theorem jacOp_apply (diag : Nat → K) (ω : K) (idx : List Nat) (hnd : idx.Nodup) (r : Nat → K) (j : Nat) :
    jacOp diag ω idx r j = if j ∈ idx then ω * (r j / diag j) else 0 := by
  induction idx with
  | nil => simp [jacOp]
  | cons i rest ih =>
    have hi : i ∉ rest := (List.nodup_cons.1 hnd).1
    have ih' := ih (List.nodup_cons.1 hnd).2
    have hcons : jacOp diag ω (i :: rest) r j = rowQ i (diag i / ω) r j + jacOp diag ω rest r j := by
      simp [jacOp]
    rw [hcons, ih', rowQ_scale]
    simp only [rowQ, LinearMap.coe_mk, AddHom.coe_mk, Pi.smul_apply, smul_eq_mul, Pi.single_apply]
    by_cases hj : j = i
    · subst hj; simp [hi]
    · have : j ∈ i :: rest ↔ j ∈ rest := by simp [hj]
      by_cases hr : j ∈ rest <;> simp [hj, hr]

theorem jacSweepFn_apply (ω : K) (n : Nat) (rows : Nat → Row K) (diag : Nat → K)
    (hdiag : ∀ i, i < n → HasDiag i (rows i) (diag i) ∧ diag i ≠ 0) (b x : Nat → K) :
    ∀ (idx : List Nat), (∀ i ∈ idx, i < n) → ∀ (acc : Nat → K) (j : Nat),
      idx.foldl (fun acc i => jacRowFn ω i (rows i) b x acc) acc j =
        if j ∈ idx then x j + ω * ((b j - rowDot (rows j) x) / diag j) else acc j := by
  intro idx
  induction idx with
  | nil => intro _ acc j; simp
  | cons i rest ih =>
    intro h acc j
    have hi := h i (by simp)
    obtain ⟨f1, f2⟩ := jacRow_formula ω i (rows i) b x acc (diag i) (hdiag i hi).1 (hdiag i hi).2
    rw [List.foldl_cons, ih (fun k hk => h k (by simp [hk]))]
    by_cases hr : j ∈ rest
    · simp [hr]
    · by_cases hj : j = i
      · subst hj; simp [hr, f1]
      · simp [hr, hj, f2 j hj]

/-- a weighted Jacobi step over pairwise distinct rows `idx` (all rows: `jacobi`; the C- or F-points:
`jacobi_indexed`) is the linear iteration `x + M (b − A x)` with `M = jacOp diag ω idx` -/
theorem jac_isLinIter (ω : K) (n : Nat) (rows : Nat → Row K) (diag : Nat → K)
    (hdiag : ∀ i, i < n → HasDiag i (rows i) (diag i) ∧ diag i ≠ 0)
    (idx : List Nat) (hidx : ∀ i ∈ idx, i < n) (hnd : idx.Nodup) :
    IsLinIter (csrOp n rows) (fun x b => jacSweepFn ω rows b idx x) (jacOp diag ω idx) := by
  intro x b
  funext j
  show jacSweepFn ω rows b idx x j = x j + jacOp diag ω idx (b - csrOp n rows x) j
  unfold jacSweepFn
  rw [jacSweepFn_apply ω n rows diag hdiag b x idx hidx x j, jacOp_apply diag ω idx hnd]
  by_cases hj : j ∈ idx
  · simp [hj, csrOp_apply n rows x j (hidx j hj)]
  · simp [hj]

end PyamgV.C05

namespace PyamgV.C05
open PyamgV

variable {K : Type*} [Field K] [LinearOrder K] [IsStrictOrderedRing K] [DecidableEq K]

/-- function-level model of the smoother `s` on a CSR level given by its rows: the drivers of
relaxation.py (`gauss_seidel`/`sor`, `jacobi`, `cf_jacobi`/`fc_jacobi`) over the kernel row updates -/
def smFn (rows : Nat → Row K) (n : Nat) (C F : List Nat) : Sm → (Nat → K) → (Nat → K) → (Nat → K)
  | .none => fun x _ => x
  | .gs ω sw k => fun x b => PyamgV.iter (gsFn (ω : K) rows n sw) b k x
  | .jac ω k => fun x b => PyamgV.iter (fun x b => jacSweepFn (ω : K) rows b (List.range n) x) b k x
  | .cfjac true ω it fi ci => fun x b =>
      PyamgV.iter (fun x b =>
        PyamgV.iter (fun x b => jacSweepFn (ω : K) rows b F x) b fi
          (PyamgV.iter (fun x b => jacSweepFn (ω : K) rows b C x) b ci x)) b it x
  | .cfjac false ω it fi ci => fun x b =>
      PyamgV.iter (fun x b =>
        PyamgV.iter (fun x b => jacSweepFn (ω : K) rows b C x) b ci
          (PyamgV.iter (fun x b => jacSweepFn (ω : K) rows b F x) b fi x)) b it x

/-- **every smoother of the cycle model is the linear iteration `x + smOp (b − A x)`** -/
theorem sm_isLinIter (n : Nat) (rows : Nat → Row K) (diag : Nat → K)
    (hdiag : ∀ i, i < n → HasDiag i (rows i) (diag i) ∧ diag i ≠ 0)
    (C F : List Nat) (hC : ∀ i ∈ C, i < n) (hF : ∀ i ∈ F, i < n) (hCn : C.Nodup) (hFn : F.Nodup) (s : Sm) :
    IsLinIter (csrOp n rows) (smFn rows n C F s) (smOp (csrOp n rows) diag n C F s) := by
  have hjC := fun (ω : Rat) => jac_isLinIter (ω : K) n rows diag hdiag C hC hCn
  have hjF := fun (ω : Rat) => jac_isLinIter (ω : K) n rows diag hdiag F hF hFn
  cases s with
  | none => intro x b; simp [smFn, smOp]
  | gs ω sw k => exact gs_isLinIter ω n rows diag hdiag C F sw k
  | jac ω k =>
    have h := jac_isLinIter (ω : K) n rows diag hdiag (List.range n)
      (fun i hi => List.mem_range.1 hi) List.nodup_range
    simpa [smFn, smOp] using h.pow k
  | cfjac c ω it fi ci =>
    cases c with
    | true => simpa [smFn, smOp] using (((hjC ω).pow ci).comp ((hjF ω).pow fi)).pow it
    | false => simpa [smFn, smOp] using (((hjF ω).pow fi).comp ((hjC ω).pow ci)).pow it

end PyamgV.C05

namespace PyamgV.C05
open PyamgV

variable {K : Type*} [Field K] [LinearOrder K] [IsStrictOrderedRing K] [DecidableEq K]

/-- **C05 for the recursion itself**: on a hierarchy whose smoothers are linear iterations with the
operators installed by `change_smoothers(ml, pre, post)` (`WFL`, `WFFlag`) and whose flag is `True`,
one V- or W-cycle of `__solve` is `x ↦ x + M (b − A x)` with a *symmetric* `M`. -/
theorem flag_cycle_preconditioner (S : Op K) (pre post : List Cfg) (nl : Nat)
    (hp : 1 ≤ pre.length) (hq : 1 ≤ post.length) (hflag : flag pre post nl = some true)
    (L : LinLevel K (Nat → K)) (Ls : List (LinLevel K (Nat → K))) (hlen : (L :: Ls).length = nl)
    (A : Op K) (hwl : WFL A (L :: Ls))
    (d : LvlData K) (ds : List (LvlData K)) (hwf : WFFlag S pre post 0 d ds (L :: Ls)) :
    (IsLinIter A (cyc (fun b => S b) .V ((L :: Ls).map (·.toLevel))) (Mop S .V (L :: Ls)) ∧
      ∀ u v, (euc K d.n).a (Mop S .V (L :: Ls) u) v = (euc K d.n).a u (Mop S .V (L :: Ls) v)) ∧
    (IsLinIter A (cyc (fun b => S b) .W ((L :: Ls).map (·.toLevel))) (Mop S .W (L :: Ls)) ∧
      ∀ u v, (euc K d.n).a (Mop S .W (L :: Ls) u) v = (euc K d.n).a u (Mop S .W (L :: Ls) v)) := by
  obtain ⟨hV, hW⟩ := flag_cycle_symmetric S pre post nl hp hq hflag (L :: Ls) hlen d ds hwf
  exact ⟨⟨cyc_isLinIter S Ls .V L A hwl, hV⟩, ⟨cyc_isLinIter S Ls .W L A hwl, hW⟩⟩

end PyamgV.C05
