import PyamgV.Proofs.ExtC05BridgeC3

/-! PyamgV (C05, extension E23): non-vacuity of `flag_denseM_hermitian_checked_crat` -- a two-level complex
Hermitian hierarchy over the Gaussian rationals, `A = [[2, i], [−i, 2]]`, `P = [1, −i]ᵀ`, `R = Pᴴ = [1, i]`,
`Ac = R A P = [6]`, forward / backward Gauss–Seidel: the Boolean `c05Check CRat.conj` evaluates to `true`
(kernel evaluation), the flag is `True`, `denseM` returns a matrix; with `R = Pᵀ` instead of `Pᴴ` the
checker says `false`. -/
namespace PyamgV.C05ExC
open PyamgV PyamgV.C05

def pre : List Cfg := [⟨some "gauss_seidel", [("sweep", .str "forward")]⟩]
def post : List Cfg := [⟨some "gauss_seidel", [("sweep", .str "backward")]⟩]
def A2 : K.Csr CRat := ⟨2, #[0, 2, 4], #[0, 1, 0, 1], #[⟨2, 0⟩, ⟨0, 1⟩, ⟨0, -1⟩, ⟨2, 0⟩]⟩
def P2 : K.Csr CRat := ⟨2, #[0, 1, 2], #[0, 0], #[⟨1, 0⟩, ⟨0, -1⟩]⟩
def R2 : K.Csr CRat := ⟨1, #[0, 2], #[0, 1], #[⟨1, 0⟩, ⟨0, 1⟩]⟩
def Rt : K.Csr CRat := ⟨1, #[0, 2], #[0, 1], #[⟨1, 0⟩, ⟨0, -1⟩]⟩
def Ac1 : K.Csr CRat := ⟨1, #[0, 1], #[0], #[⟨6, 0⟩]⟩
def L2 : Lvl CRat := ⟨A2, P2, R2, [0], .gs 1 .forward 1, .gs 1 .backward 1⟩

theorem flagC : flag pre post [L2].length = some true := by decide
theorem checkC : c05Check CRat.conj pre post Ac1 [L2] = true := by decide +kernel
theorem checkC_rejects :
    c05Check CRat.conj pre post Ac1 [⟨A2, P2, Rt, [0], .gs 1 .forward 1, .gs 1 .backward 1⟩] = false := by
  decide +kernel

/-- `denseM` returns a matrix on the example (kernel evaluation) -/
theorem denseMC_isSome :
    (denseM CRat.ofRat Ac1 .V [L2]).isSome = true ∧ (denseM CRat.ofRat Ac1 .W [L2]).isSome = true := by
  decide +kernel

/-- the executed complex V- and W-cycle matrices of the example are Hermitian, no hypothesis left -/
theorem example_denseM_hermitian (c : Cyc) (M : Mat CRat) (h : denseM CRat.ofRat Ac1 c [L2] = some M) :
    M.size = 2 ∧ ∀ i j, i < 2 → j < 2 → mget M i j = CRat.conj (mget M j i) :=
  PyamgV.CF.C05.flag_denseM_hermitian_checked_crat pre post Ac1 [L2] flagC checkC c M h

#print axioms checkC
#print axioms denseMC_isSome
#print axioms example_denseM_hermitian
end PyamgV.C05ExC
