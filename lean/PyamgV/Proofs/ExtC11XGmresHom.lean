import PyamgV.Model.ExtC11XGmres
import PyamgV.Proofs.ExtC07Hom

/-! PyamgV (C11, extension E49): the Krylov part of the `dense_GMRES` model commutes with every map that
commutes with the vector operations (`C07.OpsHom`) — purely structural; used with
`toFn : Vector K n → (Fin n → K)` to carry `dgCore_solves` to the instance the driver executes. -/
namespace PyamgV.C11XG
open PyamgV.C07
set_option linter.unusedSectionVars false

variable {K V W : Type} [Add K] [Sub K] [Mul K] [Div K] [Neg K] [OfNat K 0] [OfNat K 1] [OfNat K 2]
variable (φ : V → W) (ov : Ops K V) (ow : Ops K W) (H : OpsHom φ ov ow)

def mapArn (s : ArnSt K V) : ArnSt K W := ⟨s.vs.map φ, s.cols, s.stop, s.rank⟩

include H in
theorem arnStep_hom (sqrt : K → K) (small : K → Bool) (m : Nat) (d : V) (s : ArnSt K V) :
    mapArn φ (arnStep ov sqrt small m d s) = arnStep ow sqrt small m (φ d) (mapArn φ s) := by
  obtain ⟨h1, h2⟩ := orthO_hom φ ov ow H s.vs (ov.A (s.vs.getLast?.getD d))
  rw [H.A, ← getLast_map φ s.vs d] at h1 h2
  unfold arnStep
  cases hs : s.stop
  · simp only [mapArn, hs, Bool.false_eq_true, if_false]
    rw [← h1, ← h2, ← H.dot]
    cases small (sqrt (ov.dot (orthO ov s.vs (ov.A (s.vs.getLast?.getD d))).1
      (orthO ov s.vs (ov.A (s.vs.getLast?.getD d))).1))
    · simp only [Bool.false_eq_true, if_false]
      by_cases hj : s.cols.length + 1 < m
      · simp only [hj, if_true, List.map_append, List.map_cons, List.map_nil, H.smul]
      · simp only [hj, if_false]
    · simp only [if_true]
  · simp only [mapArn, hs, if_true]

include H in
theorem dgCore_hom (sqrt absK : K → K) (small isZero : K → Bool) (n m : Nat) (b : V) (normb : K) :
    φ (dgCore ov sqrt absK small isZero n m b normb) = dgCore ow sqrt absK small isZero n m (φ b) normb := by
  unfold dgCore
  have hit := iter_hom (arnStep ov sqrt small m b) (arnStep ow sqrt small m (φ b)) (mapArn φ)
    (arnStep_hom φ ov ow H sqrt small m b) m ⟨[ov.smul (1 / normb) b], [], false, m⟩
  have h0 : mapArn φ (⟨[ov.smul (1 / normb) b], [], false, m⟩ : ArnSt K V) =
      ⟨[ow.smul (1 / normb) (φ b)], [], false, m⟩ := by
    simp only [mapArn, List.map_cons, List.map_nil, H.smul]
  rw [h0] at hit
  simp only
  rw [combO_hom φ ov ow H, H.smul, ← hit]
  rfl

end PyamgV.C11XG
