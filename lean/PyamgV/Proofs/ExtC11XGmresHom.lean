import PyamgV.Model.ExtC11XGmres
import PyamgV.Proofs.ExtC07Hom

/-! PyamgV (C11, extension E49): the Krylov part of the `dense_GMRES` model commutes with every map that
commutes with the vector operations (`C07.OpsHom`) — purely structural; used with
`toFn : Vector K n → (Fin n → K)` to carry `dgCore_solves` to the instance the driver executes. -/
namespace PyamgV.C11XG
open PyamgV.C07
set_option linter.unusedSectionVars false

variable {K V W : Type} [Add K] [Sub K] [Mul K] [Div K] [Neg K] [OfNat K 0] [OfNat K 1] [OfNat K 2]
variable (φ : V → W) (ov : Ops K V) (ow : Ops K W) (H : OpsHom φ ov ow)
  (sdv : V → K → V) (sdw : W → K → W) (Hd : ∀ v a, φ (sdv v a) = sdw (φ v) a)

def mapArn (s : ArnSt K V) : ArnSt K W := ⟨s.vs.map φ, s.cols, s.stop, s.rank⟩

include H Hd in
theorem arnStep_hom (sqrt : K → K) (small : K → Bool) (m : Nat) (d : V) (s : ArnSt K V) :
    mapArn φ (arnStep ov sdv sqrt small m d s) = arnStep ow sdw sqrt small m (φ d) (mapArn φ s) := by
  obtain ⟨h1, h2⟩ := orthO_hom φ ov ow H s.vs (ov.A (s.vs.getLast?.getD d))
  rw [H.A, ← getLast_map φ s.vs d] at h1 h2
  unfold arnStep
  cases hs : s.stop
  · simp only [mapArn, hs, Bool.false_eq_true, if_false]
    rw [← h1, ← h2, ← H.dot]
    cases small (sqrt (ov.dot (orthO ov s.vs (ov.A (s.vs.getLast?.getD d))).1
      (orthO ov s.vs (ov.A (s.vs.getLast?.getD d))).1))
    · simp only [Bool.false_eq_true, if_false]
      by_cases hj : s.cols.length + 1 < m
      · simp only [hj, if_true, List.map_append, List.map_cons, List.map_nil, Hd]
      · simp only [hj, if_false]
    · simp only [if_true]
  · simp only [mapArn, hs, if_true]

include H Hd in
theorem dgCore_hom (sqrt absK : K → K) (small isZero : K → Bool) (n m : Nat) (b : V) (normb : K) :
    φ (dgCore ov sdv sqrt absK small isZero n m b normb) = dgCore ow sdw sqrt absK small isZero n m (φ b) normb := by
  unfold dgCore
  have hit := iter_hom (arnStep ov sdv sqrt small m b) (arnStep ow sdw sqrt small m (φ b)) (mapArn φ)
    (arnStep_hom φ ov ow H sdv sdw Hd sqrt small m b) m ⟨[sdv b normb], [], false, m⟩
  have h0 : mapArn φ (⟨[sdv b normb], [], false, m⟩ : ArnSt K V) =
      ⟨[sdw (φ b) normb], [], false, m⟩ := by
    simp only [mapArn, List.map_cons, List.map_nil, Hd]
  rw [h0] at hit
  simp only
  rw [combO_hom φ ov ow H, H.smul, ← hit]
  rfl

end PyamgV.C11XG
