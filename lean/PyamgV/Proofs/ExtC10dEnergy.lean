import PyamgV.Model.ExtC10dEnergy
import PyamgV.Proofs.ExtC10dProject
import PyamgV.Proofs.ExtC10cCG

/-! PyamgV (extension E53, property C10): the property for the composed model of
`energy_prolongation_smoother` (`C10dM.energyFull`, `energyFullCG`, `energyFullGmres`): pattern selection
(`degree`, `prefilter`, root rows), optional `filter_operator` pass, Krylov loop, `postfilter` + second pass.

* `energyPattern_patIn`, `rootPat_patIn`, `nzPat_patIn`: every pattern the model selects lies inside the matrix;
* `fitted_of_filter`, `fitted_rel`: `filter_operator` + root reset produce a prolongator with `P·B_c = B` on the
  rows whose pattern row is non-empty, zero outside the pattern, identity rows at the roots, and a Krylov run
  keeps all three;
* `energyFull_property`: for every Krylov parameter that satisfies `C10c.Rel` (`kryCG_ok`, `kryGmres_ok`):
  without a fitting pass `(P − T)·B_c = 0` on the non-root rows and `supp(P − T)` inside the selected
  (pre-filtered) pattern; with a fitting pass or a post-filter pass `P·B_c = B` row by row, `supp(P)` inside the
  pattern of the last pass, identity rows at the roots;
* `energyFullCG_precond` / `energyFullGmres_precond`: the block-diagonal preconditioner is always built with the
  row block size of the pattern (the input test `T.blocksize[0] != A.blocksize[0]` rejects every other call). -/
namespace PyamgV.C10d
open PyamgV PyamgV.C10M PyamgV.C10bM PyamgV.C10b PyamgV.C10c PyamgV.C10dM Matrix
set_option linter.unusedSectionVars false

variable {K : Type} [Field K] [DecidableEq K] {n m : Nat}

/-! ### the selected patterns lie inside the matrix -/

theorem rangeFilter_patIn (k ncb cpb : Nat) (p : Nat → Nat → Bool) (h : ncb * cpb ≤ m) :
    PatIn m cpb ((Array.range k).map fun I => ((List.range ncb).filter (p I)).toArray) := by
  intro ib hib jb hjb
  rw [Array.size_map, Array.size_range] at hib
  have e : ((Array.range k).map fun I => ((List.range ncb).filter (p I)).toArray).getD ib #[] =
      ((List.range ncb).filter (p ib)).toArray := by
    simp [Array.getD_eq_getD_getElem?, hib]
  rw [e] at hjb
  simp only [List.mem_filter, List.mem_range] at hjb
  calc (jb + 1) * cpb ≤ ncb * cpb := Nat.mul_le_mul_right _ hjb.1
    _ ≤ m := h

theorem patOf_patIn (nbr ncb rpb' cpb' cpb : Nat) (rows : PyamgV.C19.Rows K) (h : ncb * cpb ≤ m) :
    PatIn m cpb (patOf nbr ncb rpb' cpb' rows) :=
  rangeFilter_patIn nbr ncb cpb _ h

theorem nzPat_patIn (nbr ncb rpb' cpb' cpb : Nat) (T : Mat K) (h : ncb * cpb ≤ m) :
    PatIn m cpb (nzPat nbr ncb rpb' cpb' T) :=
  rangeFilter_patIn nbr ncb cpb _ h

theorem rootPat_patIn (ncb rpb cpb : Nat) (cpts : Array Nat) (pat : Pat) (h : ncb * cpb ≤ m) :
    PatIn m cpb (rootPat ncb rpb cpb cpts pat) :=
  rangeFilter_patIn pat.size ncb cpb _ h

theorem div_mul_le' (m cpb : Nat) : m / cpb * cpb ≤ m := Nat.div_mul_le_self m cpb

/-- **the pattern of the first pass lies inside the matrix**, whatever the options and the inputs -/
theorem energyPattern_patIn (nsq : K → Rat) (degree : Nat) (pre : Filt) (root : Bool) (n m rpb cpb : Nat)
    (atilde : PyamgV.C19.Rows K) (tpat : Pat) (T : Mat K) (cpts : Array Nat) :
    PatIn m cpb (energyPattern nsq degree pre root n m rpb cpb atilde tpat T cpts) := by
  unfold energyPattern
  dsimp only
  cases root with
  | true =>
    simp only [if_true]
    exact rootPat_patIn _ _ _ _ _ (div_mul_le' m cpb)
  | false =>
    simp only [Bool.false_eq_true, if_false]
    by_cases hd : degree = 0
    · rw [if_pos hd]; exact patOf_patIn _ _ _ _ _ _ (div_mul_le' m cpb)
    · rw [if_neg hd]; exact patOf_patIn _ _ _ _ _ _ (div_mul_le' m cpb)

/-! ### prolongators fitted to the candidates -/

/-- `P·B_c = Bf` on the non-root rows whose pattern row is non-empty, `P` zero outside the pattern on the
non-root rows, identity rows at the root dofs -/
def Fitted (n m nd rpb cpb : Nat) (pat : Pat) (cpts : Array Nat) (B Bf P : Mat K) : Prop :=
  Dim n m P ∧
  (∀ i : Fin n, rootIdx cpts i.val = none →
    (¬ (pat.getD (i.val / rpb) #[]).isEmpty = true →
      ∀ c : Fin nd, (toMx n m P * toMx m nd B) i c = Bf.get i.val c.val) ∧
    (∀ j : Fin m, ¬ ((pat.getD (i.val / rpb) #[]).contains (j.val / cpb) = true) → toMx n m P i j = 0)) ∧
  (∀ (i : Fin n) (k : Nat), rootIdx cpts i.val = some k → ∀ j : Fin m, toMx n m P i j = if k = j.val then 1 else 0)

/-- `filter_operator` followed by `I_F·T + P_I` -/
theorem fitted_of_filter (conj : K → K) (rpb cpb nd : Nat) (pat : Pat) (cpts : Array Nat) (A B Bf A' : Mat K)
    (hn : 0 < n) (hr : 0 < rpb) (hc : 0 < cpb) (hA : Dim n m A) (hB : B.cols = nd) (hpat : PatIn m cpb pat)
    (h : filterOperator conj rpb cpb nd pat A B Bf = some A') :
    Fitted n m nd rpb cpb pat cpts B Bf (resetRoots cpts A') := by
  obtain ⟨s1, s2, s3⟩ := filterOperator_spec conj rpb cpb nd pat A B Bf A' n m hn hr hc hA hB hpat h
  have hA' : Dim n m A' := shaped_dim A' hn s1
  have hget : ∀ (i : Fin n) (j : Fin m), toMx n m (resetRoots cpts A') i j =
      match rootIdx cpts i.val with
      | some k => if k = j.val then 1 else 0
      | none => A'.get i.val j.val := fun i j => reset_get cpts A' hA' i.val j.val i.isLt j.isLt
  refine ⟨dim_reset cpts A' hn hA', ?_, ?_⟩
  · intro i hroot
    refine ⟨fun hne c => ?_, fun j hj => ?_⟩
    · rw [Matrix.mul_apply]
      have := s2 i.val i.isLt hne c.val c.isLt
      rw [← sumL_eq, sumL_range_fin] at this
      rw [← this]
      apply Finset.sum_congr rfl
      intro q _
      rw [hget i q, hroot]
      rfl
    · rw [hget i j, hroot]
      exact s3 i.val j.val i.isLt j.isLt hj
  · intro i k hroot j
    rw [hget i j, hroot]

/-- a Krylov run that satisfies `Rel` keeps a fitted prolongator fitted -/
theorem fitted_rel (nd rpb cpb : Nat) (pat : Pat) (cpts : Array Nat) (B Bf T P : Mat K)
    (hT : Fitted n m nd rpb cpb pat cpts B Bf T) (hP : Rel n m nd rpb cpb pat cpts B T P) :
    Fitted n m nd rpb cpb pat cpts B Bf P := by
  refine ⟨hP.1, ?_, ?_⟩
  · intro i hroot
    obtain ⟨r1, r2⟩ := hP.2.1 i hroot
    obtain ⟨t1, t2⟩ := hT.2.1 i hroot
    exact ⟨fun hne c => by rw [r1 c]; exact t1 hne c, fun j hj => by rw [r2 j hj]; exact t2 j hj⟩
  · intro i k hroot j
    rcases hP.2.2 i k hroot with h | h
    · rw [h j]; exact hT.2.2 i k hroot j
    · exact h j

/-! ### the composed model -/

/-- what `energyFull` needs from its Krylov parameter: the conclusion of `cg_run_rel` -/
def KryOK {ι : Type} (n m nd rpb cpb : Nat) (cpts : Array Nat) (B : Mat K)
    (kry : Pat → Mat K → Nat → K → Option (Mat K × ι)) : Prop :=
  ∀ (pat : Pat) (T : Mat K) (it : Nat) (tol : K) (P : Mat K) (i : ι), PatIn m cpb pat → Dim n m T →
    kry pat T it tol = some (P, i) → Rel n m nd rpb cpb pat cpts B T P

theorem postFilter_dim (nsq : K → Rat) (post : Filt) (rpb cpb : Nat) (T : Mat K) (hn : 0 < n) (hT : Dim n m T) :
    Dim n m (postFilter nsq post n m rpb cpb T) := by
  unfold postFilter
  dsimp only
  cases post.thetaEff with
  | none =>
    cases post.k with
    | none => exact hT
    | some k => exact dim_ofFn n m hn _
  | some θ =>
    cases post.k with
    | none => exact dim_ofFn n m hn _
    | some k => exact shaped_dim _ hn (mask_shaped rpb cpb _ T hT)

/-- **the composed model of `energy_prolongation_smoother`, every input on which it returns**.
`out.pat1` is the selected pattern of the first pass (`energyPattern`: `Atilde^degree·pattern(T)` pre-filtered,
root rows), `out.pat` the pattern of the pass that produced `out.P` (after a post-filter: the blocks of the
filtered prolongator, root rows).

* no fitting pass (`fitted = false`, `second = false`): `C10c.Rel`: on the non-root rows `(P·B_c)_i = (T·B_c)_i`
  and `P` differs from `T` inside the selected pattern only; a root row is untouched or an identity row;
* otherwise `Fitted`: `(P·B_c)_i = Bf_i` on the non-root rows with a non-empty pattern row, `P` vanishes outside
  the pattern there, the root rows are identity rows. -/
theorem energyFull_property {ι : Type} (nsq : K → Rat) (conj : K → K)
    (kry : Pat → Mat K → Nat → K → Option (Mat K × ι)) (o : Opts) (nd rpb cpb : Nat)
    (atilde : PyamgV.C19.Rows K) (tpat : Pat) (T B Bf : Mat K) (cpts : Array Nat) (tol tol2 : K) (out : Out K ι)
    (hn : 0 < n) (hr : 0 < rpb) (hc : 0 < cpb) (hT : Dim n m T) (hB : B.cols = nd)
    (hk : KryOK n m nd rpb cpb cpts B kry)
    (h : energyFull nsq conj kry o n m nd rpb cpb atilde tpat T B Bf cpts tol tol2 = .ok out) :
    out.pat1 = energyPattern nsq o.degree o.pre o.root n m rpb cpb atilde tpat T cpts ∧
    PatIn m cpb out.pat1 ∧ PatIn m cpb out.pat ∧
    (out.second = true → out.pat2 = rootPat (m / cpb) rpb cpb cpts
      (nzPat (n / rpb) (m / cpb) rpb cpb (postFilter nsq o.post n m rpb cpb out.P1))) ∧
    (out.fitted = false → out.second = false → Rel n m nd rpb cpb out.pat cpts B T out.P) ∧
    ((out.fitted = true ∨ out.second = true) → Fitted n m nd rpb cpb out.pat cpts B Bf out.P) := by
  have hp1 := energyPattern_patIn nsq o.degree o.pre o.root n m rpb cpb atilde tpat T cpts
  unfold energyFull at h
  dsimp only at h
  split at h
  · cases h
  · -- the prolongator of the first run
    have hT1 : ∀ T1, (if (o.root && decide (nd > rpb)) = true then
          (filterOperator conj rpb cpb nd (energyPattern nsq o.degree o.pre o.root n m rpb cpb atilde tpat T cpts) T B Bf).map
            (resetRoots cpts)
        else some T) = some T1 →
        Dim n m T1 ∧ ((o.root && decide (nd > rpb)) = false → T1 = T) ∧
        ((o.root && decide (nd > rpb)) = true → Fitted n m nd rpb cpb
          (energyPattern nsq o.degree o.pre o.root n m rpb cpb atilde tpat T cpts) cpts B Bf T1) := by
      intro T1 hT1
      by_cases hf : (o.root && decide (nd > rpb)) = true
      · rw [if_pos hf, Option.map_eq_some_iff] at hT1
        obtain ⟨A', hA', rfl⟩ := hT1
        have := fitted_of_filter conj rpb cpb nd _ cpts T B Bf A' hn hr hc hT hB hp1 hA'
        exact ⟨this.1, fun hff => absurd hf (by rw [hff]; simp), fun _ => this⟩
      · rw [if_neg hf] at hT1
        simp only [Option.some.injEq] at hT1
        subst hT1
        exact ⟨hT, fun _ => rfl, fun hff => absurd hff hf⟩
    split at h
    · cases h
    · rename_i T1 hT1eq
      obtain ⟨d1, e1, f1⟩ := hT1 T1 hT1eq
      split at h
      · cases h
      · rename_i P1 i1 hk1
        have hrel1 := hk _ T1 _ _ P1 i1 hp1 d1 hk1
        split at h
        · -- single pass
          simp only [Except.ok.injEq] at h
          subst h
          refine ⟨rfl, hp1, ?_, fun hs => (by cases hs), ?_, ?_⟩
          · show PatIn m cpb (if false = true then _ else _)
            simp only [Bool.false_eq_true, if_false]; exact hp1
          · intro hf _
            show Rel n m nd rpb cpb (if false = true then _ else _) cpts B T P1
            simp only [Bool.false_eq_true, if_false]
            have e := e1 hf
            subst e
            exact hrel1
          · intro hf
            show Fitted n m nd rpb cpb (if false = true then _ else _) cpts B Bf P1
            simp only [Bool.false_eq_true, if_false]
            rcases hf with hf | hf
            · exact fitted_rel nd rpb cpb _ cpts B Bf T1 P1 (f1 hf) hrel1
            · cases hf
        · -- post-filter and second pass
          have hp2 : PatIn m cpb (rootPat (m / cpb) rpb cpb cpts
              (nzPat (n / rpb) (m / cpb) rpb cpb (postFilter nsq o.post n m rpb cpb P1))) :=
            rootPat_patIn _ _ _ _ _ (div_mul_le' m cpb)
          have dTf : Dim n m (postFilter nsq o.post n m rpb cpb P1) := postFilter_dim nsq o.post rpb cpb P1 hn hrel1.1
          split at h
          · cases h
          · rename_i T2 hT2
            rw [Option.map_eq_some_iff] at hT2
            obtain ⟨A', hA', rfl⟩ := hT2
            have hfit2 := fitted_of_filter conj rpb cpb nd _ cpts _ B Bf A' hn hr hc dTf hB hp2 hA'
            split at h
            · cases h
            · rename_i P i2 hk2
              have hrel2 := hk _ _ _ _ P i2 hp2 hfit2.1 hk2
              simp only [Except.ok.injEq] at h
              subst h
              refine ⟨rfl, hp1, ?_, fun _ => rfl, fun _ hs => (by cases hs), fun _ => ?_⟩
              · show PatIn m cpb (if true = true then _ else _)
                simp only [if_true]; exact hp2
              · show Fitted n m nd rpb cpb (if true = true then _ else _) cpts B Bf P
                simp only [if_true]
                exact fitted_rel nd rpb cpb _ cpts B Bf _ P hfit2 hrel2


/-! ### the Krylov loops satisfy `KryOK` -/

theorem kryCG_ok (conj : K → K) (lt : K → K → Bool) (cgnr : Bool) (rpb cpb nd : Nat) (A : Mat K) (pre : Precond K)
    (B : Mat K) (cpts : Array Nat) (hn : 0 < n) (hr : 0 < rpb) (hc : 0 < cpb) (hA : Dim n n A) (hB : B.cols = nd)
    (hpre : PreOK rpb pre) :
    KryOK n m nd rpb cpb cpts B (kryCG conj lt cgnr rpb cpb nd A pre B cpts) := by
  intro pat T it tol P i hpat hT h
  unfold kryCG at h
  dsimp only at h
  split at h
  · simp only [Option.some.injEq, Prod.mk.injEq] at h
    obtain ⟨rfl, _⟩ := h
    exact cg_run_rel conj lt cgnr rpb cpb nd pat A pre T B it tol cpts hn hr hc hA hT hB hpat hpre
  · cases h

theorem fold_dim (hn : 0 < n) : ∀ (ups : List (K × Mat K)) (T : Mat K), Dim n m T →
    Dim n m (ups.foldl (fun T u => Mat.add T (Mat.smul u.1 u.2)) T) := by
  intro ups
  induction ups with
  | nil => intro T hT; exact hT
  | cons u ups ih => intro T hT; rw [List.foldl_cons]; exact ih _ (dim_add n m hn _ _ hT)

/-- the result of the gmres model before the root-node reset has the shape of `T` -/
theorem energyGmres_dimT (sc : SOps K) (rpb cpb nd : Nat) (pat : Pat) (A : Mat K) (pre : Precond K) (T B : Mat K)
    (maxiter : Nat) (tol : K) (cpts : Array Nat) (out : EnergyGmresOut K) (hn : 0 < n) (hT : Dim n m T)
    (hrun : energyGmres sc rpb cpb nd pat A pre T B maxiter tol cpts = some out) : Dim n m out.core.T := by
  unfold energyGmres at hrun
  dsimp only at hrun
  by_cases hz : (pat.foldl (fun acc J => acc + J.size) 0) * rpb * cpb = 0
  · rw [if_pos hz] at hrun; cases hrun
  · rw [if_neg hz] at hrun
    cases hR : satisfyDense sc.conj rpb cpb nd pat (pre.apply (Mat.neg (maskDense rpb cpb pat (Mat.mul A T)))) B with
    | none => rw [hR] at hrun; cases hrun
    | some R =>
      rw [hR] at hrun
      simp only [Option.some.injEq] at hrun
      subst hrun
      dsimp only
      have h2 : (gmresCore (matOps sc.conj) sc (gmresOp sc.conj rpb cpb nd pat A pre B) R T maxiter tol).T =
          (gmresCore (matOps sc.conj) sc (gmresOp sc.conj rpb cpb nd pat A pre B) R T maxiter tol).ups.foldl
            (fun T u => Mat.add T (Mat.smul u.1 u.2)) T := rfl
      rw [h2]
      exact fold_dim hn _ T hT

theorem kryGmres_ok (sc : SOps K) (rpb cpb nd : Nat) (A : Mat K) (pre : Precond K) (B : Mat K) (cpts : Array Nat)
    (hn : 0 < n) (hr : 0 < rpb) (hc : 0 < cpb) (hA : A.rows = n) (hB : B.cols = nd) (hpre : PreOK rpb pre) :
    KryOK n m nd rpb cpb cpts B (kryGmres sc rpb cpb nd A pre B cpts) := by
  intro pat T it tol P i hpat hT h
  unfold kryGmres at h
  split at h
  · simp only [Option.some.injEq, Prod.mk.injEq] at h
    obtain ⟨rfl, _⟩ := h
    exact rel_refl nd rpb cpb pat cpts B T hT
  · rw [Option.map_eq_some_iff] at h
    obtain ⟨out, hrun, he⟩ := h
    simp only [Prod.mk.injEq] at he
    obtain ⟨rfl, _⟩ := he
    obtain ⟨g1, g2, g3⟩ := gmres_run_property sc rpb cpb nd pat A pre T B it tol cpts out hn hr hc hA hT hB hpat hpre hrun
    have dT := energyGmres_dimT sc rpb cpb nd pat A pre T B it tol cpts out hn hT hrun
    have hget : ∀ (i : Fin n) (j : Fin m), toMx n m out.T i j =
        match rootIdx cpts i.val with
        | some k => if k = j.val then 1 else 0
        | none => out.core.T.get i.val j.val := by
      intro i j
      show out.T.get i.val j.val = _
      rw [g3]
      exact reset_get cpts out.core.T dT i.val j.val i.isLt j.isLt
    refine ⟨by rw [g3]; exact dim_reset cpts _ hn dT, ?_, ?_⟩
    · intro i hroot
      refine ⟨fun c => ?_, fun j hj => ?_⟩
      · have := congrFun (congrFun g1 i) c
        rw [← this, Matrix.mul_apply, Matrix.mul_apply]
        apply Finset.sum_congr rfl
        intro q _
        rw [hget i q, hroot]
        rfl
      · rw [hget i j, hroot]
        exact g2 i j hj
    · intro i k hroot
      right
      intro j
      rw [hget i j, hroot]

/-! ### the two instances: preconditioner block size, property -/

/-- **the preconditioner of a cg / cgnr call that passes the input tests** is built by `mkPrecond` with `A`'s
block size, which *is* the row block size of the pattern: `PreOK` holds (no call with a block-diagonal
preconditioner of another block size is ever made) -/
theorem energyFullCG_precond (nsq : K → Rat) (conj : K → K) (lt : K → K → Bool) (cgnr : Bool) (wt bsA : Nat)
    (aux : Array K) (o : Opts) (nd rpb cpb : Nat) (atilde : PyamgV.C19.Rows K) (tpat : Pat) (A T B Bf : Mat K)
    (cpts : Array Nat) (tol tol2 : K) (out : Out K (EnergyOut K))
    (h : energyFullCG nsq conj lt cgnr wt bsA aux o n m nd rpb cpb atilde tpat A T B Bf cpts tol tol2 = .ok out) :
    rpb = bsA ∧ ∃ pre, mkPrecond (effWt wt bsA) bsA A aux = some pre ∧ PreOK rpb pre ∧
      energyFull nsq conj (kryCG conj lt cgnr rpb cpb nd A pre B cpts) o n m nd rpb cpb atilde tpat T B Bf cpts tol tol2 =
        .ok out := by
  unfold energyFullCG at h
  split at h
  · cases h
  · rename_i hb
    have hb' : rpb = bsA := by
      by_contra hne
      exact hb hne
    split at h
    · cases h
    · rename_i pre hpre
      exact ⟨hb', pre, hpre, by rw [hb']; exact mkPrecond_ok _ _ _ _ _ hpre, h⟩

theorem energyFullGmres_precond (nsq : K → Rat) (sc : SOps K) (wt bsA : Nat)
    (aux : Array K) (o : Opts) (nd rpb cpb : Nat) (atilde : PyamgV.C19.Rows K) (tpat : Pat) (A T B Bf : Mat K)
    (cpts : Array Nat) (tol tol2 : K) (out : Out K (Option (EnergyGmresOut K)))
    (h : energyFullGmres nsq sc wt bsA aux o n m nd rpb cpb atilde tpat A T B Bf cpts tol tol2 = .ok out) :
    rpb = bsA ∧ ∃ pre, mkPrecond (effWt wt bsA) bsA A aux = some pre ∧ PreOK rpb pre ∧
      energyFull nsq sc.conj (kryGmres sc rpb cpb nd A pre B cpts) o n m nd rpb cpb atilde tpat T B Bf cpts tol tol2 =
        .ok out := by
  unfold energyFullGmres at h
  split at h
  · cases h
  · rename_i hb
    have hb' : rpb = bsA := by
      by_contra hne
      exact hb hne
    split at h
    · cases h
    · rename_i pre hpre
      exact ⟨hb', pre, hpre, by rw [hb']; exact mkPrecond_ok _ _ _ _ _ hpre, h⟩

/-- the conclusion of `energyFull_property` -/
def FullProp {ι : Type} (nsq : K → Rat) (o : Opts) (n m nd rpb cpb : Nat) (atilde : PyamgV.C19.Rows K) (tpat : Pat)
    (T B Bf : Mat K) (cpts : Array Nat) (out : Out K ι) : Prop :=
  out.pat1 = energyPattern nsq o.degree o.pre o.root n m rpb cpb atilde tpat T cpts ∧
  PatIn m cpb out.pat1 ∧ PatIn m cpb out.pat ∧
  (out.second = true → out.pat2 = rootPat (m / cpb) rpb cpb cpts
    (nzPat (n / rpb) (m / cpb) rpb cpb (postFilter nsq o.post n m rpb cpb out.P1))) ∧
  (out.fitted = false → out.second = false → Rel n m nd rpb cpb out.pat cpts B T out.P) ∧
  ((out.fitted = true ∨ out.second = true) → Fitted n m nd rpb cpb out.pat cpts B Bf out.P)

/-- **`energy_prolongation_smoother(krylov = 'cg' | 'cgnr')`, composed model, every input on which it returns** -/
theorem energyFullCG_property (nsq : K → Rat) (conj : K → K) (lt : K → K → Bool) (cgnr : Bool) (wt bsA : Nat)
    (aux : Array K) (o : Opts) (nd rpb cpb : Nat) (atilde : PyamgV.C19.Rows K) (tpat : Pat) (A T B Bf : Mat K)
    (cpts : Array Nat) (tol tol2 : K) (out : Out K (EnergyOut K))
    (hn : 0 < n) (hr : 0 < rpb) (hc : 0 < cpb) (hA : Dim n n A) (hT : Dim n m T) (hB : B.cols = nd)
    (h : energyFullCG nsq conj lt cgnr wt bsA aux o n m nd rpb cpb atilde tpat A T B Bf cpts tol tol2 = .ok out) :
    FullProp nsq o n m nd rpb cpb atilde tpat T B Bf cpts out := by
  obtain ⟨_, pre, _, hpre, hfull⟩ := energyFullCG_precond nsq conj lt cgnr wt bsA aux o nd rpb cpb atilde tpat A T B Bf
    cpts tol tol2 out h
  exact energyFull_property nsq conj _ o nd rpb cpb atilde tpat T B Bf cpts tol tol2 out hn hr hc hT hB
    (kryCG_ok conj lt cgnr rpb cpb nd A pre B cpts hn hr hc hA hB hpre) hfull

/-- **`energy_prolongation_smoother(krylov = 'gmres')`, composed model, every input on which it returns** -/
theorem energyFullGmres_property (nsq : K → Rat) (sc : SOps K) (wt bsA : Nat)
    (aux : Array K) (o : Opts) (nd rpb cpb : Nat) (atilde : PyamgV.C19.Rows K) (tpat : Pat) (A T B Bf : Mat K)
    (cpts : Array Nat) (tol tol2 : K) (out : Out K (Option (EnergyGmresOut K)))
    (hn : 0 < n) (hr : 0 < rpb) (hc : 0 < cpb) (hA : A.rows = n) (hT : Dim n m T) (hB : B.cols = nd)
    (h : energyFullGmres nsq sc wt bsA aux o n m nd rpb cpb atilde tpat A T B Bf cpts tol tol2 = .ok out) :
    FullProp nsq o n m nd rpb cpb atilde tpat T B Bf cpts out := by
  obtain ⟨_, pre, _, hpre, hfull⟩ := energyFullGmres_precond nsq sc wt bsA aux o nd rpb cpb atilde tpat A T B Bf
    cpts tol tol2 out h
  exact energyFull_property nsq sc.conj _ o nd rpb cpb atilde tpat T B Bf cpts tol tol2 out hn hr hc hT hB
    (kryGmres_ok sc rpb cpb nd A pre B cpts hn hr hc hA hB hpre) hfull

end PyamgV.C10d
