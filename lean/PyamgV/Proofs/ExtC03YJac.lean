import PyamgV.Proofs.ExtC03YPoly
import PyamgV.Proofs.ExtC02XComplex
import PyamgV.Proofs.ExtC05BridgeF2

/-! PyamgV (extension E55, C03): the recorded `gauss_seidel` / `sor`, `jacobi` and `cf_jacobi` / `fc_jacobi` calls of the
scalar-polymorphic extended cycle model are linear iterations of the level matrix when every row stores exactly one, non-zero,
diagonal entry (`DiagOK`), over any field (Proofs/ExtC03XJac.lean with the scalar as a parameter; the kernels do not conjugate). -/
set_option linter.unusedSectionVars false
namespace PyamgV.C03Y
open PyamgV
open PyamgV.C03 (Cyc iterN)

variable {𝕜 : Type} [Field 𝕜] [DecidableEq 𝕜] {conj : 𝕜 → 𝕜}

theorem hasDiag_of_diagOK (M : K.Csr 𝕜) (hd : DiagOK M) :
    ∀ i, i < M.n → HasDiag i (rowOf M i) (diagFn M i) ∧ diagFn M i ≠ 0 := by
  intro i hi
  obtain ⟨hlen, hne⟩ := hd i hi
  have hfil : (rowOf M i).filter (fun cv => cv.1 = i) =
      ((M.jjs i).filter (fun jj => K.rdN M.aj jj = i)).map (fun jj => (K.rdN M.aj jj, K.rd M.ax jj)) := by
    unfold rowOf
    rw [List.filter_map]
    rfl
  obtain ⟨jj, hjj⟩ := List.length_eq_one_iff.1 hlen
  have hmem : jj ∈ (M.jjs i).filter (fun jj => K.rdN M.aj jj = i) := by rw [hjj]; simp
  rw [List.mem_filter] at hmem
  have hcol : K.rdN M.aj jj = i := by simpa using hmem.2
  have hH : HasDiag i (rowOf M i) (K.rd M.ax jj) := by
    unfold HasDiag
    rw [hfil, hjj]; simp
  have := CF.hasDiag_diagFn M i _ hH
  rw [this]
  exact ⟨hH, hne jj hmem.1 hcol⟩

/-! ## `gauss_seidel` / `sor` -/

/-- operator of the recorded `gauss_seidel` call (`omega ≠ 1`: the SOR kernel) -/
noncomputable def gsQ (ω : 𝕜) (M : K.Csr 𝕜) (it : Nat) (sw : K.Sweep) : Fn 𝕜 →ₗ[𝕜] Fn 𝕜 :=
  if ω = 1 then sweepOp (ExtC09.csrLin M) (diagFn M) (pyOrder M.n it sw)
  else sweepOp (ExtC09.csrLin M) (fun i => diagFn M i / ω) (pyOrder M.n it sw)

theorem gs_refines (ω : 𝕜) (M : K.Csr 𝕜) (it : Nat) (sw : K.Sweep) :
    Refines M.n (Sm.arr conj (.gs ω M it sw)) (smF (.gs ω sw it) M) := by
  intro x b hx _
  obtain ⟨h1, h2⟩ := C02X.sm_refines_field (C02.Sm.gs ω sw it) M b x hx
  exact ⟨by rw [← hx]; exact h1, h2⟩

theorem gs_isLinIter (ω : 𝕜) (M : K.Csr 𝕜) (hd : DiagOK M) (it : Nat) (sw : K.Sweep) :
    IsLinIter (ExtC09.csrLin M) (smF (.gs ω sw it) M) (gsQ ω M it sw) := by
  rw [csrLin_eq_csrOp]
  unfold gsQ
  rw [csrLin_eq_csrOp]
  by_cases h : ω = 1
  · rw [if_pos h]
    have := CF.gsSweep_isLinIter M.n (rowOf M) (diagFn M) (hasDiag_of_diagOK M hd) (pyOrder M.n it sw) (pyOrder_lt _ _ _)
    intro x b
    simp only [smF, if_pos h]
    exact this x b
  · rw [if_neg h]
    have := CF.sorSweep_isLinIter ω M.n (rowOf M) (diagFn M) (hasDiag_of_diagOK M hd) (pyOrder M.n it sw) (pyOrder_lt _ _ _)
    intro x b
    simp only [smF, if_neg h]
    exact this x b

/-- **Gauss-Seidel / SOR (kernel model) in the extended cycle model is a linear iteration of the level matrix** -/
theorem gs_semLin (ω : 𝕜) (M : K.Csr 𝕜) (it : Nat) (sw : K.Sweep) (hc : ColsOK M) (hd : DiagOK M) :
    SemLin (csrDense M) (viaArr M.n (Sm.arr conj (.gs ω M it sw))) (Tn M.n ∘ₗ gsQ ω M it sw ∘ₗ Tn M.n) :=
  semLin_csr M hc _ _ _ (gs_refines ω M it sw) (gs_isLinIter ω M hd it sw)

/-! ## `jacobi` -/

/-- the Jacobi kernel call is `x + ω D⁻¹ (b − A x)` (Proofs/C02Jacobi.lean `jacSweep_eq_operator`, any field) -/
theorem jacSweep_eq_operator' (ω : 𝕜) (n : Nat) (rows : Nat → Row 𝕜) (diag : Nat → 𝕜)
    (hdiag : ∀ i, i < n → HasDiag i (rows i) (diag i) ∧ diag i ≠ 0) (b x : Nat → 𝕜) :
    jacSweepFn ω rows b x (List.range n) x = x + ω • jacDinv n diag (b - CF.csrOp n rows x) := by
  funext j
  rw [C02X.jacSweep_formula ω n rows diag hdiag b x (List.range n) (fun i hi => by simpa using hi) x j]
  by_cases hj : j < n
  · have : j ∈ List.range n := by simpa using hj
    simp [this, jacDinv, hj, CF.csrOp_apply n rows x j hj]
  · have : j ∉ List.range n := by simpa using hj
    simp [this, jacDinv, hj]

noncomputable def jacQ (ω : 𝕜) (M : K.Csr 𝕜) (it : Nat) : Fn 𝕜 →ₗ[𝕜] Fn 𝕜 :=
  powM (ExtC09.csrLin M) (ω • jacDinv M.n (diagFn M)) it

theorem jac_refines (ω : 𝕜) (M : K.Csr 𝕜) (it : Nat) :
    Refines M.n (Sm.arr conj (.jac ω M it)) (smF (.jac ω it) M) := by
  intro x b hx _
  obtain ⟨h1, h2⟩ := C02X.sm_refines_field (C02.Sm.jac ω it) M b x hx
  exact ⟨by rw [← hx]; exact h1, h2⟩

theorem jac_isLinIter (ω : 𝕜) (M : K.Csr 𝕜) (hd : DiagOK M) (it : Nat) :
    IsLinIter (ExtC09.csrLin M) (smF (.jac ω it) M) (jacQ ω M it) := by
  unfold jacQ
  rw [csrLin_eq_csrOp]
  have h1 : IsLinIter (CF.csrOp M.n (rowOf M)) (fun x b => jacSweepFn ω (rowOf M) b x (List.range M.n) x)
      (ω • jacDinv M.n (diagFn M)) := by
    intro x b
    show jacSweepFn ω (rowOf M) b x (List.range M.n) x = _
    rw [jacSweep_eq_operator' ω M.n (rowOf M) (diagFn M) (hasDiag_of_diagOK M hd) b x]
    simp
  exact CF.IsLinIter.pow h1 it

/-- **weighted Jacobi (kernel model) in the extended cycle model is `x ← x + ω D⁻¹ (b − A x)`, `iterations` times** -/
theorem jac_semLin (ω : 𝕜) (M : K.Csr 𝕜) (it : Nat) (hc : ColsOK M) (hd : DiagOK M) :
    SemLin (csrDense M) (viaArr M.n (Sm.arr conj (.jac ω M it))) (Tn M.n ∘ₗ jacQ ω M it ∘ₗ Tn M.n) :=
  semLin_csr M hc _ _ _ (jac_refines ω M it) (jac_isLinIter ω M hd it)

/-! ## `cf_jacobi` / `fc_jacobi` -/

/-- `D⁻¹` on the coordinates listed in `idx` -/
def idxDinv (M : K.Csr 𝕜) (idx : List Nat) : Fn 𝕜 →ₗ[𝕜] Fn 𝕜 where
  toFun r := fun j => if j ∈ idx then r j / diagFn M j else 0
  map_add' u v := by funext j; by_cases h : j ∈ idx <;> simp [h, add_div]
  map_smul' c u := by funext j; by_cases h : j ∈ idx <;> simp [h, mul_div_assoc]

def jacIdxF (ω : 𝕜) (M : K.Csr 𝕜) (idx : List Nat) : Fn 𝕜 → Fn 𝕜 → Fn 𝕜 :=
  fun x b => x + ω • idxDinv M idx (b - ExtC09.csrLin M x)

theorem jacIdx_refines (ω : 𝕜) (M : K.Csr 𝕜) (hd : DiagOK M) (idx : List Nat) (hidx : ∀ i ∈ idx, i < M.n) :
    Refines M.n (fun x b => K.jacobiIndexed ω M b idx x) (jacIdxF ω M idx) := by
  intro x b hx _
  obtain ⟨hsz, hfn⟩ := CF.C05.jacobiIndexed_refines ω M b idx x (fun i hi => by rw [hx]; exact hidx i hi)
  refine ⟨by rw [hsz, hx], ?_⟩
  funext j
  change fn (K.jacobiIndexed ω M b idx x) j = _
  rw [hfn]
  have := CF.C05.jacSweepFn_apply ω M.n (rowOf M) (diagFn M) (hasDiag_of_diagOK M hd) (fn b) (fn x) idx hidx (fn x) j
  change C05.jacSweepFn ω (rowOf M) (fn b) idx (fn x) j = _ at this
  rw [this]
  unfold jacIdxF
  simp only [Pi.add_apply, Pi.smul_apply, smul_eq_mul, idxDinv, LinearMap.coe_mk, AddHom.coe_mk]
  by_cases hj : j ∈ idx
  · rw [if_pos hj, if_pos hj]
    have hjn := hidx j hj
    simp only [Pi.sub_apply, ExtC09.csrLin_apply, if_pos hjn]
    have : ExtC09.csrRow M j (ExtC09.vec x) = rowDot (rowOf M j) (fn x) := by
      unfold ExtC09.csrRow rowDot rowOf
      rw [List.map_map]; rfl
    rw [this]; rfl
  · rw [if_neg hj, if_neg hj]; simp; rfl

theorem jacIdx_isLinIter (ω : 𝕜) (M : K.Csr 𝕜) (idx : List Nat) :
    IsLinIter (ExtC09.csrLin M) (jacIdxF ω M idx) (ω • idxDinv M idx) :=
  jacobi_isLinIter (ExtC09.csrLin M) (idxDinv M idx) ω

/-- one iteration of `cf_jacobi` (`cFirst`) / `fc_jacobi`: `c_iterations` sweeps over the C points and `f_iterations`
sweeps over the F points, in the stated order -/
def cfStepF (cf : Bool) (ω : 𝕜) (M : K.Csr 𝕜) (C Fp : List Nat) (fIt cIt : Nat) : Fn 𝕜 → Fn 𝕜 → Fn 𝕜 :=
  fun x b =>
    if cf then iter (jacIdxF ω M Fp) b fIt (iter (jacIdxF ω M C) b cIt x)
    else iter (jacIdxF ω M C) b cIt (iter (jacIdxF ω M Fp) b fIt x)

noncomputable def cfStepQ (cf : Bool) (ω : 𝕜) (M : K.Csr 𝕜) (C Fp : List Nat) (fIt cIt : Nat) : Fn 𝕜 →ₗ[𝕜] Fn 𝕜 :=
  if cf then compM (ExtC09.csrLin M) (powM (ExtC09.csrLin M) (ω • idxDinv M C) cIt)
      (powM (ExtC09.csrLin M) (ω • idxDinv M Fp) fIt)
  else compM (ExtC09.csrLin M) (powM (ExtC09.csrLin M) (ω • idxDinv M Fp) fIt)
      (powM (ExtC09.csrLin M) (ω • idxDinv M C) cIt)

noncomputable def cfjacQ (cf : Bool) (ω : 𝕜) (M : K.Csr 𝕜) (C Fp : List Nat) (it fIt cIt : Nat) : Fn 𝕜 →ₗ[𝕜] Fn 𝕜 :=
  powM (ExtC09.csrLin M) (cfStepQ cf ω M C Fp fIt cIt) it

theorem cfStep_isLinIter (cf : Bool) (ω : 𝕜) (M : K.Csr 𝕜) (C Fp : List Nat) (fIt cIt : Nat) :
    IsLinIter (ExtC09.csrLin M) (cfStepF cf ω M C Fp fIt cIt) (cfStepQ cf ω M C Fp fIt cIt) := by
  have hc := CF.IsLinIter.pow (jacIdx_isLinIter ω M C) cIt
  have hf := CF.IsLinIter.pow (jacIdx_isLinIter ω M Fp) fIt
  cases cf
  · have := CF.IsLinIter.comp hf hc
    intro x b
    simpa [cfStepF, cfStepQ] using this x b
  · have := CF.IsLinIter.comp hc hf
    intro x b
    simpa [cfStepF, cfStepQ] using this x b

theorem cfjac_refines (cf : Bool) (ω : 𝕜) (M : K.Csr 𝕜) (hd : DiagOK M) (C Fp : List Nat)
    (hC : ∀ i ∈ C, i < M.n) (hF : ∀ i ∈ Fp, i < M.n) (it fIt cIt : Nat) :
    Refines M.n (Sm.arr conj (.cfjac cf ω M C Fp it fIt cIt)) (fun x b => iter (cfStepF cf ω M C Fp fIt cIt) b it x) := by
  have hc := (jacIdx_refines ω M hd C hC).iter cIt
  have hf := (jacIdx_refines ω M hd Fp hF).iter fIt
  cases cf
  · have := (hf.comp hc).iter it
    intro x b hx hb
    exact this x b hx hb
  · have := (hc.comp hf).iter it
    intro x b hx hb
    exact this x b hx hb

/-- **CF / FC Jacobi in the extended cycle model is a linear iteration of the level matrix** -/
theorem cfjac_semLin (cf : Bool) (ω : 𝕜) (M : K.Csr 𝕜) (C Fp : List Nat) (it fIt cIt : Nat) (hc : ColsOK M)
    (hd : DiagOK M) (hC : ∀ i ∈ C, i < M.n) (hF : ∀ i ∈ Fp, i < M.n) :
    SemLin (csrDense M) (viaArr M.n (Sm.arr conj (.cfjac cf ω M C Fp it fIt cIt)))
      (Tn M.n ∘ₗ cfjacQ cf ω M C Fp it fIt cIt ∘ₗ Tn M.n) :=
  semLin_csr M hc _ _ _ (cfjac_refines cf ω M hd C Fp hC hF it fIt cIt)
    (CF.IsLinIter.pow (cfStep_isLinIter cf ω M C Fp fIt cIt) it)

end PyamgV.C03Y
