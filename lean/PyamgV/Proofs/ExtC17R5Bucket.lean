import PyamgV.Proofs.ExtC12BalCentre

/-! PyamgV (C17, extension E46, round 5): `center_nodes` never leaves its arrays, part 1 -- the counting sort.

E34's executable model `BalLloyd.centerNodes` (`Model/ExtC12Bal.lean`) returns `none` on every out-of-bounds index and on every read
of an uninitialised entry of the `np.empty` work arrays `C`, `L`.  This file shows that the prefix sums, the bucket fill of `C` and
the local indices `L` never do so when the size array is exact and every node is assigned: `Cptr[m[i]]` stays below `n` because the
cluster sizes add up to at most `n`; every member of a cluster is found in its bucket (surjectivity of the fill), which is what
makes `L[j]` initialised for every neighbour `j` inside the cluster.  Imports Mathlib's finite sums through E34's file only. -/
namespace PyamgV.C17R5
open PyamgV.Bal PyamgV.BalLloyd

/-! ### monadic folds that cannot fail -/

theorem foldlM_range_some {β : Type} (f : β → Nat → Option β) (Inv : Nat → β → Prop) :
    ∀ (m : Nat) (b0 : β), Inv 0 b0 →
      (∀ i b, i < m → Inv i b → ∃ b', f b i = some b' ∧ Inv (i + 1) b') →
      ∃ r, (List.range m).foldlM f b0 = some r ∧ Inv m r := by
  intro m
  induction m with
  | zero =>
    intro b0 h0 _
    exact ⟨b0, by simp only [List.range_zero, List.foldlM_nil]; rfl, h0⟩
  | succ m ih =>
    intro b0 h0 hstep
    obtain ⟨r1, h1, hI⟩ := ih b0 h0 (fun i b hi => hstep i b (by omega))
    obtain ⟨r2, h2, hI2⟩ := hstep m r1 (by omega) hI
    refine ⟨r2, ?_, hI2⟩
    rw [List.range_succ, List.foldlM_append, h1]
    simp only [Option.bind_eq_bind, Option.bind_some, List.foldlM_cons, List.foldlM_nil]
    rw [h2]
    rfl

theorem foldlM_list_some {α β : Type} (f : β → α → Option β) (P : β → Prop) :
    ∀ (l : List α) (b : β), P b → (∀ x ∈ l, ∀ b, P b → ∃ b', f b x = some b' ∧ P b') →
      ∃ r, l.foldlM f b = some r ∧ P r := by
  intro l
  induction l with
  | nil => intro b hb _; exact ⟨b, rfl, hb⟩
  | cons x xs ih =>
    intro b hb hstep
    obtain ⟨b1, h1, hb1⟩ := hstep x (by simp) b hb
    obtain ⟨r, hr, hP⟩ := ih b1 hb1 (fun y hy => hstep y (by simp [hy]))
    refine ⟨r, ?_, hP⟩
    rw [List.foldlM_cons, h1]
    exact hr

/-! ### the cluster sizes add up to at most `n` -/

theorem ind_sum_le_one (v : Int) (k : Nat) :
    (∑ a ∈ Finset.range k, (if v = (a : Int) then (1 : Int) else 0)) ≤ 1 := by
  by_cases h : ∃ a, a < k ∧ v = (a : Int)
  · obtain ⟨a0, ha0, hv⟩ := h
    rw [Finset.sum_eq_single a0]
    · rw [if_pos hv]
    · intro b _ hb
      rw [if_neg]
      intro hvb
      apply hb
      omega
    · intro hn
      exact absurd (Finset.mem_range.2 ha0) hn
  · rw [Finset.sum_eq_zero]
    · decide
    · intro a ha
      rw [if_neg]
      intro hv
      exact h ⟨a, Finset.mem_range.1 ha, hv⟩

theorem cnt_sum_le (m : Array Int) (k : Nat) : ∀ i : Nat, (∑ a ∈ Finset.range k, cnt i m a) ≤ (i : Int) := by
  intro i
  induction i with
  | zero => simp [cnt]
  | succ i ih =>
    have e : (∑ a ∈ Finset.range k, cnt (i + 1) m a)
        = (∑ a ∈ Finset.range k, cnt i m a) + ∑ a ∈ Finset.range k, (if rdI m i = (a : Int) then (1 : Int) else 0) := by
      rw [← Finset.sum_add_distrib]
      exact Finset.sum_congr rfl (fun a _ => cnt_succ i m a)
    rw [e]
    have := ind_sum_le_one (rdI m i) k
    push_cast
    omega

theorem pre_total_le {n k : Nat} {m s : Array Int} (hs : ∀ a, a < k → rdI s a = cnt n m a) : pre s k ≤ (n : Int) := by
  have e : pre s k = ∑ a ∈ Finset.range k, cnt n m a :=
    Finset.sum_congr rfl (fun a ha => hs a (Finset.mem_range.1 ha))
  rw [e]
  exact cnt_sum_le m k n

theorem s_nonneg {n k : Nat} {m s : Array Int} (hs : ∀ a, a < k → rdI s a = cnt n m a) :
    ∀ b, b < k → 0 ≤ rdI s b := fun b hb => by rw [hs b hb]; exact cnt_nonneg n m b

/-- slot `t` of bucket `a` lies inside `C` -/
theorem slot_lt {n k : Nat} {m s : Array Int} (hs : ∀ a, a < k → rdI s a = cnt n m a) {a : Nat} (ha : a < k) {t : Int}
    (ht0 : 0 ≤ t) (ht : t < rdI s a) : 0 ≤ pre s a + t ∧ pre s a + t < (n : Int) := by
  have h1 := pre_nonneg (s_nonneg hs) (show a ≤ k by omega)
  have h2 := pre_mono (s_nonneg hs) (show a + 1 ≤ k by omega) (Nat.le_refl k)
  rw [pre_succ] at h2
  have h3 := pre_total_le hs
  omega

/-! ### the fill, the local indices -/

/-- **the bucket fill stays inside `Cptr` and `C`** -/
theorem fill_no_fault {n k : Nat} {m s : Array Int} (hss : s.size = k) (hs : ∀ a, a < k → rdI s a = cnt n m a)
    (hm : ∀ i, i < n → 0 ≤ rdI m i ∧ rdI m i < (k : Int)) {cc : OArr} (hcc : cc.size = n) :
    ∃ f, fill n m (prefixSums s) cc = some f := by
  obtain ⟨p1, p2⟩ := prefixSums_spec s
  rw [hss] at p1 p2
  have h0 : FInv n k m s 0 (prefixSums s, cc) := by
    refine ⟨p1, fun a ha => by rw [p2 a ha]; simp [cnt], ?_, hcc⟩
    intro a t _ ht
    simp [cnt] at ht
    omega
  obtain ⟨r, hr, _⟩ := foldlM_range_some (fillStep m) (fun i acc => FInv n k m s i acc) n (prefixSums s, cc) h0 (by
    intro i acc hi hI
    have hstep : ∃ b', fillStep m acc i = some b' := by
      unfold fillStep
      obtain ⟨hm0, hm1⟩ := hm i hi
      obtain ⟨a, ha⟩ := idx_ok hm0 (show rdI m i < (acc.1.size : Int) by rw [hI.sz]; exact hm1)
      rw [ha]
      obtain ⟨hma, hak⟩ := idx_some ha
      rw [hI.sz] at hak
      have hlt := cnt_lt hi m a hma
      have hc0 := cnt_nonneg i m a
      have hsl := slot_lt hs hak hc0 (by rw [hs a hak]; exact hlt)
      obtain ⟨pos, hpos⟩ := idx_ok (show 0 ≤ rdI acc.1 a by rw [hI.ptr a hak]; exact hsl.1)
        (show rdI acc.1 a < (acc.2.size : Int) by rw [hI.ptr a hak, hI.csz]; exact hsl.2)
      simp only [hpos]
      exact ⟨_, rfl⟩
    obtain ⟨b', hb'⟩ := hstep
    exact ⟨b', hb', fillStep_inv hs hi hI hb'⟩)
  exact ⟨r, hr⟩

/-- **the loop that sets `L` only reads initialised slots of `C` and writes inside `L`** -/
theorem setL_no_fault {n k : Nat} {m s cptr : Array Int} {cc l : OArr} (hss : s.size = k)
    (hB : Buckets n k m s cptr cc) (hl : l.size = n) : ∃ l', setL cptr s cc l = some l' := by
  unfold setL
  rw [hss]
  obtain ⟨r, hr, _⟩ := foldlM_range_some
    (fun (l : OArr) a => (List.range (rdI s a).toNat).foldlM (fun (l : OArr) _j =>
      match globOf cptr cc a _j with
      | none => none
      | some g => if g < l.size then some (l.setIfInBounds g (some _j)) else none) l)
    (fun _ (l1 : OArr) => l1.size = n) k l hl (by
      intro a l1 ha hl1
      obtain ⟨r2, hr2, hs2⟩ := foldlM_range_some
        (fun (l : OArr) _j =>
          match globOf cptr cc a _j with
          | none => none
          | some g => if g < l.size then some (l.setIfInBounds g (some _j)) else none)
        (fun _ (l2 : OArr) => l2.size = n) (rdI s a).toNat l1 hl1 (by
          intro t l2 ht hl2
          obtain ⟨g, hg, hgn, _, _⟩ := hB a t ha (by omega)
          refine ⟨l2.setIfInBounds g (some t), ?_, by simp [hl2]⟩
          simp only [hg]
          rw [if_pos (by rw [hl2]; exact hgn)])
      exact ⟨r2, hr2, hs2⟩)
  exact ⟨r, hr⟩

/-! ### every member of a cluster sits in its bucket -/

theorem cnt_inj {n : Nat} {m : Array Int} {a g g' : Nat} (hg : g < n) (hg' : g' < n) (hmg : rdI m g = (a : Int))
    (hmg' : rdI m g' = (a : Int)) (hc : cnt g m a = cnt g' m a) : g = g' := by
  rcases Nat.lt_trichotomy g g' with h | h | h
  · have := cnt_lt h m a hmg; omega
  · exact h
  · have := cnt_lt h m a hmg'; omega

theorem buckets_surj {n k : Nat} {m s cptr : Array Int} {cc : OArr} (hs : ∀ a, a < k → rdI s a = cnt n m a)
    (hB : Buckets n k m s cptr cc) {g a : Nat} (hg : g < n) (ha : a < k) (hmg : rdI m g = (a : Int)) :
    ∃ t : Nat, (t : Int) < rdI s a ∧ globOf cptr cc a t = some g := by
  have hc0 := cnt_nonneg g m a
  have hlt := cnt_lt hg m a hmg
  have ht : (((cnt g m a).toNat : Nat) : Int) < rdI s a := by rw [hs a ha]; omega
  obtain ⟨g', e1, hg', hm', hc'⟩ := hB a (cnt g m a).toNat ha ht
  have : g = g' := cnt_inj hg hg' hmg hm' (by omega)
  subst this
  exact ⟨_, ht, e1⟩

end PyamgV.C17R5
