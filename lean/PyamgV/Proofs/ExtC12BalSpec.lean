import PyamgV.Proofs.ExtC12BalCentre
import PyamgV.Proofs.ExtC12LloydAgg

/-! PyamgV (C12, extension E34): balanced Lloyd clustering / aggregation returns a valid partition.

`BalLloyd.cluster` (the model of `balanced_lloyd_cluster` run by the driver op `ext_c12_ballloyd`) and
`BalLloyd.aggregation` (`balanced_lloyd_aggregation`, op `ext_c12_ballloyd_agg`): whenever the routine
returns, with distinct initial centres, `maxiter >= 1`, and weights `>= tol > 0`:
every node carries a cluster id in `0..k-1` (every node is assigned), every returned centre is a node of
the cluster it names (so no cluster is empty and the centres are distinct), and the AggOp arrays hold one
unit entry `(i, clusters[i])` per node.  The proof follows the structure of the routine: the bookkeeping
invariant `KInv` holds after the re-initialisation of every rebalance round (`reinit_kinv`), is kept by
`bellman_ford_balanced` (`kernel_kinv`) and by `center_nodes` (`centerNodes_spec`); the `ValueError`
check `m.min() < 0` after the last Bellman–Ford pass gives "every node assigned"; `center_nodes`, which runs
after that pass, moves centres only inside their clusters. -/
namespace PyamgV.BalLloyd
open PyamgV.Bal

/-! ### the re-initialisation of a rebalance round -/

theorem fold_wr_size (cs : List Nat) (f : Nat → Int) : ∀ (p0 : Array Int),
    (cs.foldl (fun p c => wrI p c (f c)) p0).size = p0.size := by
  induction cs with
  | nil => intro p0; rfl
  | cons c cs ih => intro p0; rw [List.foldl_cons, ih]; simp

theorem rdN_toList (c : Array Nat) {a : Nat} (ha : a < c.size) : c.toList[a]? = some (rdN c a) := by
  simp [rdN, Array.getD_eq_getD_getElem?, ha]

structure Cen (n k : Nat) (c : Array Nat) : Prop where
  sz : c.size = k
  nd : c.toList.Nodup
  lt : ∀ a, a < k → rdN c a < n

theorem initM_centre {n k : Nat} {c : Array Nat} (hc : Cen n k c) {a : Nat} (ha : a < k) :
    rdI (initM n c.toList) (rdN c a) = (a : Int) := by
  have hmem : rdN c a ∈ c.toList := List.mem_of_getElem? (rdN_toList c (by rw [hc.sz]; exact ha))
  obtain ⟨k', h1, h2⟩ := initM_label n c.toList (rdN c a) hmem (hc.lt a ha)
  have h3 := rdN_toList c (show a < c.size by rw [hc.sz]; exact ha)
  have : k' = a := by
    have hk' : k' < c.toList.length := by
      by_contra hn
      rw [List.getElem?_eq_none (by omega)] at h1
      cases h1
    have ha' : a < c.toList.length := by simp [hc.sz, ha]
    rw [List.getElem?_eq_getElem hk'] at h1
    rw [List.getElem?_eq_getElem ha'] at h3
    injection h1 with h1
    injection h3 with h3
    exact (List.Nodup.getElem_inj_iff hc.nd).1 (h1.trans h3.symm)
  rw [h2, this]

theorem initM_range {n k : Nat} {c : Array Nat} (hc : Cen n k c) {j : Nat} (hj : j < n) :
    rdI (initM n c.toList) j = -1 ∨ ∃ a, a < k ∧ rdN c a = j ∧ rdI (initM n c.toList) j = (a : Int) := by
  obtain ⟨_, h2, h3⟩ := initM_fold c.toList.zipIdx (Array.replicate n (-1)) j
  by_cases hmem : j ∈ c.toList.zipIdx.map Prod.fst
  · obtain ⟨ck, hck, e1, e2⟩ := h2 hmem (by simpa using hj)
    have := List.mem_zipIdx_iff_getElem?.1 (show (ck.1, ck.2) ∈ c.toList.zipIdx from hck)
    have hlt : ck.2 < c.toList.length := by
      by_contra hn
      rw [List.getElem?_eq_none (by omega)] at this
      cases this
    have hlt' : ck.2 < c.size := by simpa using hlt
    have h4 := rdN_toList c hlt'
    rw [this] at h4
    injection h4 with h4
    exact Or.inr ⟨ck.2, by rw [← hc.sz]; exact hlt', by rw [← h4, e1], e2⟩
  · left
    unfold initM
    rw [h3 hmem, rdI_replicate n (-1) j hj]

theorem initD_val (n : Nat) (cs : List Nat) (j : Nat) :
    rdO (initD n cs) j = if j ∈ cs ∧ j < n then some 0 else none := by
  have := (initD_fold cs (Array.replicate n none) j).2
  unfold initD
  rw [this]
  simp only [Array.size_replicate]
  by_cases hj : j ∈ cs ∧ j < n
  · rw [if_pos hj, if_pos hj]
  · rw [if_neg hj, if_neg hj]
    simp only [rdO, Array.getD_eq_getD_getElem?, Array.getElem?_replicate]
    split <;> rfl

theorem reinit_kinv {n k : Nat} {c : Array Nat} (hc : Cen n k c) : KInv n k c (reinit n c.toList) := by
  refine ⟨?_, ?_, ?_, ?_, ?_, hc.sz, ?_, ?_, ?_, ?_⟩
  · show (initD n c.toList).size = n
    unfold initD
    rw [(initD_fold c.toList _ 0).1]; simp
  · show (initM n c.toList).size = n
    unfold initM
    rw [(initM_fold c.toList.zipIdx _ 0).1]; simp
  · show (initP n c.toList).size = n
    unfold initP
    rw [fold_wr_size c.toList (fun c => Int.ofNat c)]; simp
  · show (initPc n c.toList).size = n
    unfold initPc
    rw [fold_wr_size c.toList (fun _ => 1)]; simp
  · show (Array.replicate c.toList.length (1 : Int)).size = k
    simp [hc.sz]
  · intro j hj
    show -1 ≤ rdI (initM n c.toList) j ∧ rdI (initM n c.toList) j < (k : Int)
    rcases initM_range hc hj with h | ⟨a, ha, _, h⟩
    · rw [h]; omega
    · rw [h]; omega
  · intro a ha
    show rdI (Array.replicate c.toList.length (1 : Int)) a = cnt n (initM n c.toList) a
    rw [rdI_replicate _ _ _ (by simp [hc.sz, ha])]
    unfold cnt
    rw [Finset.sum_eq_single (rdN c a)]
    · rw [if_pos (initM_centre hc ha)]
    · intro j hj hne
      rw [if_neg]
      intro he
      rcases initM_range hc (Finset.mem_range.1 hj) with h | ⟨a', ha', h1, h2⟩
      · rw [h] at he; omega
      · rw [h2] at he
        have : a' = a := by omega
        subst this
        exact hne h1.symm
    · intro hn
      exact absurd (Finset.mem_range.2 (hc.lt a ha)) hn
  · intro j x hx
    show (0 : Rat) ≤ x
    have : rdO (initD n c.toList) j = some x := hx
    rw [initD_val] at this
    split at this
    · injection this with this; rw [← this]
    · cases this
  · intro a ha
    have hmem : rdN c a ∈ c.toList := List.mem_of_getElem? (rdN_toList c (by rw [hc.sz]; exact ha))
    refine ⟨hc.lt a ha, ?_, initM_centre hc ha⟩
    show rdO (initD n c.toList) (rdN c a) = some 0
    rw [initD_val, if_pos ⟨hmem, hc.lt a ha⟩]

/-! ### the Lloyd loop of one round -/

def Assigned (n : Nat) (st : St) : Prop := ∀ j, j < n → 0 ≤ rdI st.m j

theorem any_neg_false {m : Array Int} (h : m.any (fun v => decide (v < 0)) = false) (j : Nat) :
    0 ≤ rdI m j := by
  by_cases hj : j < m.size
  · have := Array.any_eq_false.1 h j hj
    simp only [decide_eq_true_eq, not_lt] at this
    simpa [rdI, Array.getD_eq_getD_getElem?, hj] using this
  · simp [rdI, Array.getD_eq_getD_getElem?, Array.getElem?_eq_none (Nat.le_of_not_lt hj)]

variable {tol : Rat} {tb : Bool} {A : Csr} {maxsize k : Nat}

theorem innerLoop_step (h0 : 0 < tol) (hW : ∀ e ∈ A.entries, tol ≤ e.2.2) :
    ∀ (f : Nat) (x : LSt) (ch : Bool) (x' : LSt), KInv A.n k x.c x.st → x.cc.size = A.n →
      innerLoop tol tb A maxsize f x ch = .ok x' →
      KInv A.n k x'.c x'.st ∧ x'.cc.size = A.n ∧
        ((f = 0 ∨ ch = false) ∧ x' = x ∨ Assigned A.n x'.st) := by
  intro f
  induction f with
  | zero =>
    intro x ch x' hK hcc hf
    unfold innerLoop at hf
    injection hf with hf
    subst hf
    exact ⟨hK, hcc, Or.inl ⟨Or.inl rfl, rfl⟩⟩
  | succ f ih =>
    intro x ch x' hK hcc hf
    unfold innerLoop at hf
    split at hf
    · rename_i hch
      injection hf with hf
      subst hf
      refine ⟨hK, hcc, Or.inl ⟨Or.inr ?_, rfl⟩⟩
      cases ch <;> simp at hch ⊢
    · cases hk : kernel tol tb A x.st with
      | fault => rw [hk] at hf; cases hf
      | tooMany => rw [hk] at hf; cases hf
      | ok st1 ch1 =>
        rw [hk] at hf
        simp only at hf
        split at hf
        · cases hf
        · split at hf
          · cases hf
          · rename_i hchk
            have hK1 := kernel_kinv h0 A tb hW hK hk
            have hneg : st1.m.any (fun v => decide (v < 0)) = false := by
              cases hb : st1.m.any (fun v => decide (v < 0)) with
              | false => rfl
              | true => rw [hb] at hchk; simp at hchk
            have hA1 : Assigned A.n st1 := fun j _ => any_neg_false hneg j
            cases hcn : centerNodes tol A maxsize { x with st := st1 } with
            | none => rw [hcn] at hf; cases hf
            | some r =>
              obtain ⟨x2, ch2⟩ := r
              rw [hcn] at hf
              simp only at hf
              have hW0 : ∀ e ∈ A.entries, 0 ≤ e.2.2 := fun e he => le_trans (le_of_lt h0) (hW e he)
              obtain ⟨hK2, hm2, hcc2⟩ := centerNodes_spec (x := { x with st := st1 }) h0 hW0 hK1 hcc hcn
              obtain ⟨r1, r2, r3⟩ := ih x2 (ch1 || ch2) x' hK2 hcc2 hf
              refine ⟨r1, r2, Or.inr ?_⟩
              rcases r3 with ⟨_, r3⟩ | r3
              · rw [r3]
                intro j hj
                rw [hm2]
                exact hA1 j hj
              · exact r3

theorem innerLoop_spec (h0 : 0 < tol) (hW : ∀ e ∈ A.entries, tol ≤ e.2.2) {maxiter : Nat} (h1 : 1 ≤ maxiter)
    {x x' : LSt} (hK : KInv A.n k x.c x.st) (hcc : x.cc.size = A.n)
    (hf : innerLoop tol tb A maxsize maxiter x true = .ok x') :
    KInv A.n k x'.c x'.st ∧ x'.cc.size = A.n ∧ Assigned A.n x'.st := by
  obtain ⟨r1, r2, r3⟩ := innerLoop_step h0 hW maxiter x true x' hK hcc hf
  refine ⟨r1, r2, ?_⟩
  rcases r3 with ⟨h | h, _⟩ | r3
  · omega
  · cases h
  · exact r3

/-! ### rebalancing without a swap returns the old centres -/

theorem rbLoop_unchanged {A : Csr} {m : Array Int} {E S : Array Ext} {IJ : Array (Option (Nat × Nat))}
    {eo so : Array Nat} {k : Nat} {c0 : Array Nat} :
    ∀ (fuel : Nat) (r r' : RB), (r.changed = false → r.newc = c0) →
      rbLoop A m E S IJ eo so k fuel r = some (.ok r') → (r'.changed = false → r'.newc = c0) := by
  intro fuel
  induction fuel with
  | zero => intro r r' _ hf; unfold rbLoop at hf; cases hf
  | succ f ih =>
    intro r r' hr hf
    unfold rbLoop at hf
    split at hf
    · simp only at hf
      split at hf
      · exact ih { r with iE := r.iE + 1 } r' hr hf
      · split at hf
        · exact ih { r with iS := r.iS - 1 } r' hr hf
        · split at hf
          · injection hf with hf
            injection hf with hf
            subst hf
            exact hr
          · split at hf
            · cases hf
            · exact ih _ r' (fun h => by cases h) hf
    · injection hf with hf
      injection hf with hf
      subst hf
      exact hr

theorem rbRun_unchanged {A : Csr} {m : Array Int} {c newc : Array Nat} {E S : Array Ext}
    {IJ : Array (Option (Nat × Nat))} {eo so : Array Nat}
    (hf : rbRun A m c E S IJ eo so = .ok (newc, false)) : newc = c := by
  unfold rbRun at hf
  split at hf
  · split at hf
    · cases hf
    · cases hf
    · rename_i r hrb
      injection hf with hf
      injection hf with hf1 hf2
      have := rbLoop_unchanged (c0 := c) _ _ r (fun _ => rfl) hrb hf2
      rw [← hf1]; exact this
  · cases hf

theorem rebalance_unchanged {A : Csr} {st : St} {c newc : Array Nat} {dist : Array (Array (Option Rat))}
    {ord : Option (Array Nat × Array Nat)} (hf : rebalance A st c dist ord = .ok (newc, false)) :
    newc = c := by
  unfold rebalance at hf
  split at hf
  · exact rbRun_unchanged hf
  · cases hf

/-! ### `balanced_lloyd_cluster` -/

/-- the partition contract of the property for a clustering `(clusters, centres)` with `k` clusters:
every node carries an id in `0..k-1` (every node is assigned), every centre is a node of the cluster it
names (hence no cluster is empty and the centres are distinct) -/
structure BalSpec (n k : Nat) (cl : Array Int) (ce : Array Nat) : Prop where
  size_cl : cl.size = n
  size_ce : ce.size = k
  ids : ∀ v, v < n → 0 ≤ rdI cl v ∧ rdI cl v < (k : Int)
  root : ∀ a, a < k → rdN ce a < n ∧ rdI cl (rdN ce a) = (a : Int)

theorem BalSpec.centres_distinct {n k : Nat} {cl : Array Int} {ce : Array Nat} (h : BalSpec n k cl ce)
    {a b : Nat} (ha : a < k) (hb : b < k) (hab : rdN ce a = rdN ce b) : a = b := by
  have h1 := (h.root a ha).2
  have h2 := (h.root b hb).2
  rw [hab] at h1
  omega

theorem balSpec_of {n k : Nat} {x : LSt} (hK : KInv n k x.c x.st) (hA : Assigned n x.st) :
    BalSpec n k x.st.m x.c :=
  ⟨hK.sm, hK.sc, fun v hv => ⟨hA v hv, (hK.ids v hv).2⟩, fun a ha => ⟨(hK.cen a ha).1, (hK.cen a ha).2.2⟩⟩

theorem all_lt {c : Array Nat} {n : Nat} (h : c.all (fun v => decide (v < n)) = true) (a : Nat)
    (ha : a < c.size) : rdN c a < n := by
  have := Array.all_eq_true.1 h a ha
  simp only [decide_eq_true_eq] at this
  simpa [rdN, Array.getD_eq_getD_getElem?, ha] using this

theorem outer_spec {maxiter : Nat} (h0 : 0 < tol) (hW : ∀ e ∈ A.entries, tol ≤ e.2.2) (h1 : 1 ≤ maxiter) :
    ∀ (r : Nat) (x : LSt) (ords : List (Array Nat × Array Nat)) (cl : Array Int) (ce : Array Nat),
      Cen A.n k x.c → x.cc.size = A.n →
      outer tol tb A maxiter maxsize r x ords = .ok (cl, ce) → BalSpec A.n k cl ce := by
  intro r
  induction r with
  | zero =>
    intro x ords cl ce hc hcc hf
    unfold outer at hf
    split at hf
    · cases hf
    · rename_i x1 hin
      obtain ⟨hK, _, hA⟩ := innerLoop_spec (x := { x with st := reinit A.n x.c.toList }) h0 hW h1
        (reinit_kinv hc) hcc hin
      split at hf
      · cases hf
      · injection hf with hf
        injection hf with hf1 hf2
        subst hf1; subst hf2
        exact balSpec_of hK hA
  | succ r ih =>
    intro x ords cl ce hc hcc hf
    unfold outer at hf
    split at hf
    · cases hf
    · rename_i x1 hin
      obtain ⟨hK, hcc1, hA⟩ := innerLoop_spec (x := { x with st := reinit A.n x.c.toList }) h0 hW h1
        (reinit_kinv hc) hcc hin
      split at hf
      · cases hf
      · simp only at hf
        split at hf
        · injection hf with hf
          injection hf with hf1 hf2
          subst hf1; subst hf2
          exact balSpec_of hK hA
        · split at hf
          · cases hf
          · split at hf
            · cases hf
            · split at hf
              · cases hf
              · rename_i newc ch hrb
                split at hf
                · rename_i hch
                  subst hch
                  split at hf
                  · rename_i hok
                    refine ih { x1 with c := newc } ords.tail cl ce ?_ hcc1 hf
                    exact ⟨hok.1.trans hK.sc, hok.2.1, fun a ha => all_lt hok.2.2 a (by rw [hok.1, hK.sc]; exact ha)⟩
                  · cases hf
                · rename_i hch
                  have hch' : ch = false := by cases ch <;> simp at hch ⊢
                  subst hch'
                  have := rebalance_unchanged hrb
                  subst this
                  injection hf with hf
                  injection hf with hf1 hf2
                  subst hf1; subst hf2
                  exact balSpec_of hK hA

theorem toNat_nodup {l : List Int} (hnn : ∀ v ∈ l, 0 ≤ v) (hnd : l.Nodup) : (l.map Int.toNat).Nodup := by
  refine List.Nodup.map_on ?_ hnd
  intro a ha b hb hab
  have := hnn a ha
  have := hnn b hb
  omega

/-- **`balanced_lloyd_cluster` returns a valid partition** (model `BalLloyd.cluster`): distinct initial
centres, `maxiter >= 1`, weights `>= tol > 0`, any pattern, any `rebalance_iters`, any `tiebreaking`, any
recorded sort orders: whenever the routine returns, every node is assigned to one of the `k` clusters and
every returned centre lies in the cluster it names -/
theorem cluster_spec (h0 : 0 < tol) (hW : ∀ e ∈ A.entries, tol ≤ e.2.2) {centers : Array Int}
    (hnd : centers.toList.Nodup) {maxiter reb : Nat} (h1 : 1 ≤ maxiter)
    {ords : List (Array Nat × Array Nat)} {cl : Array Int} {ce : Array Nat}
    (hf : cluster tol tb A centers maxiter reb ords = .ok (cl, ce)) :
    BalSpec A.n centers.size cl ce := by
  unfold cluster at hf
  split at hf
  · cases hf
  · split at hf
    · cases hf
    · split at hf
      · cases hf
      · split at hf
        · cases hf
        · rename_i hrange
          split at hf
          · cases hf
          · simp only at hf
            have hr : ∀ v ∈ centers.toList, 0 ≤ v ∧ v < (A.n : Int) := by
              intro v hv
              have hfalse : centers.any (fun v => decide (v < 0 ∨ (A.n : Int) ≤ v)) = false := by
                cases hb : centers.any (fun v => decide (v < 0 ∨ (A.n : Int) ≤ v)) with
                | false => rfl
                | true => exact absurd hb hrange
              obtain ⟨i, hi, rfl⟩ := List.getElem_of_mem hv
              have := Array.any_eq_false.1 hfalse i (by simpa using hi)
              simp only [decide_eq_true_eq, not_or, not_lt, not_le] at this
              simpa using this
            refine outer_spec (k := centers.size) h0 hW h1 reb _ ords cl ce ?_ (by simp) hf
            refine ⟨by simp, ?_, ?_⟩
            · simp only [Array.toList_map]
              exact toNat_nodup (fun v hv => (hr v hv).1) hnd
            · intro a ha
              simp only [rdN, Array.getD_eq_getD_getElem?, Array.getElem?_map]
              have hm : centers[a] ∈ centers.toList := by simp
              have := hr _ hm
              simp only [Array.getElem?_eq_getElem ha, Option.map_some, Option.getD_some]
              omega

/-- **`balanced_lloyd_aggregation` returns a valid aggregation** (model `BalLloyd.aggregation`; `perm` is the
replayed `numpy.random.permutation(n)`): whenever the routine returns, the clustering behind the returned
`AggOp` satisfies `BalSpec` with `k = min(naggs, n)` clusters and the CSR arrays of `AggOp` hold exactly one
unit entry `(i, clusters[i])` per node -/
theorem aggregation_spec (h0 : 0 < tol) {measure : String} {ratio : Rat} {perm : Array Int}
    (hperm : perm.toList.Nodup)
    (hW : ∀ x, ExtLloyd.applyMeasure measure A.ax = some x →
      ∀ e ∈ ({ A with ax := x } : Csr).entries, tol ≤ e.2.2)
    {maxiter reb : Nat} (h1 : 1 ≤ maxiter) {ords : List (Array Nat × Array Nat)}
    {agg : Array Nat × Array Nat × Array Int} {ce : Array Nat}
    (hf : aggregation tol A measure ratio perm maxiter reb ords = .ok (agg, ce)) :
    ∃ cl, BalSpec A.n (min (ExtLloyd.naggs ratio A.n) perm.size) cl ce ∧
      ExtLloyd.AggSpec cl agg.1 agg.2.1 agg.2.2 := by
  unfold aggregation at hf
  split at hf
  · cases hf
  · split at hf
    · cases hf
    · rename_i x hx
      split at hf
      · cases hf
      · split at hf
        · cases hf
        · rename_i cl ce' hcl
          injection hf with hf
          injection hf with hf1 hf2
          subst hf1; subst hf2
          refine ⟨cl, ?_, ExtLloyd.aggOp_spec cl⟩
          have hnd : (perm.extract 0 (ExtLloyd.naggs ratio A.n)).toList.Nodup := by
            rw [Array.toList_extract, List.extract_eq_take_drop]
            exact (hperm.sublist (List.drop_sublist _ _)).sublist (List.take_sublist _ _)
          have := cluster_spec (A := { A with ax := x }) h0 (hW x hx) hnd h1 hcl
          simpa using this

end PyamgV.BalLloyd
