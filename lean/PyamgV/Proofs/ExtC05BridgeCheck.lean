import PyamgV.Model.C05Cycle

/-! PyamgV (C05, extension E23): **Boolean checkers on the concrete CSR data of a model hierarchy**
(import-free apart from the models, so that the driver evaluates exactly these definitions; op
`ext_c05_symh` of `Driver/ExtE23.lean`). `Proofs/ExtC05Bridge.lean` proves them sound:

* `colsOk A cols`: every stored column index of the first `A.n` rows is `< cols`;
* `diagOk A`: every one of the first `A.n` rows stores exactly one diagonal entry and it is non-zero;
* `nodupB C`: the C-points are pairwise distinct;
* `shapedB`: level sizes chain down to the coarsest size, `P` has as many rows as `A`, C-points are rows;
* `installedB pre post`: level `i` carries the smoothers `smOf (preAt pre i)`, `smOf (postAt post i)`;
* `inRangeH`: `colsOk` for every `A`, `P`, `R` and the coarsest matrix with the widths the cycle uses;
* `hermitianHierarchy conj` (the definition of `Model/C05Cycle.lean` the driver already evaluates):
  the dense copies satisfy `A = Aᴴ`, `R = Pᴴ` on every level and `Ac = Acᴴ`;
* `dataOk conj` / `c05Check conj`: the conjunctions (`conj = id`: real symmetric case). -/
namespace PyamgV.C05
open PyamgV.K

variable {α : Type} [Add α] [Sub α] [Mul α] [Div α] [OfNat α 0] [OfNat α 1] [DecidableEq α]

/-- every stored column index of the first `A.n` rows is `< cols` -/
def colsOk (A : Csr α) (cols : Nat) : Bool :=
  (List.range A.n).all (fun i => (A.jjs i).all (fun jj => decide (rdN A.aj jj < cols)))

/-- every one of the first `A.n` rows stores exactly one diagonal entry, and it is non-zero -/
def diagOk (A : Csr α) : Bool :=
  (List.range A.n).all (fun i =>
    match (A.jjs i).filter (fun jj => decide (rdN A.aj jj = i)) with
    | [jj] => decide (rd A.ax jj ≠ 0)
    | _ => false)

/-- pairwise distinct -/
def nodupB : List Nat → Bool
  | [] => true
  | a :: l => !l.contains a && nodupB l

/-- distinct C-points, one stored non-zero diagonal entry per row of the level matrix -/
def lvlOkB (L : Lvl α) : Bool := nodupB L.C && diagOk L.A

/-- shapes: level sizes chain down to the size `nc` of the coarsest problem; `P` has the rows of `A`;
the C-points of a level are rows of that level -/
def shapedB (nc : Nat) : Nat → List (Lvl α) → Bool
  | n, [] => decide (n = nc)
  | n, L :: rest => decide (L.A.n = n) && decide (L.P.n = n) && L.C.all (fun i => decide (i < n)) &&
      shapedB nc L.R.n rest

/-- the size of the finest problem -/
def topSize (Ac : Csr α) : List (Lvl α) → Nat
  | [] => Ac.n
  | L :: _ => L.A.n

/-- level `i` carries `smOf (preAt pre i)` and `smOf (postAt post i)` -/
def installedB (pre post : List Cfg) : Nat → List (Lvl α) → Bool
  | _, [] => true
  | i, L :: rest => decide (smOf (preAt pre i) = some L.pre) && decide (smOf (postAt post i) = some L.post) &&
      installedB pre post (i+1) rest

/-- in-range column indices: `A : n × n`, `P : n × nc`, `R : nc × n` on every level, `Ac : nc × nc` -/
def inRangeH (Ac : Csr α) (Ls : List (Lvl α)) : Bool :=
  Ls.all (fun L => colsOk L.A L.A.n && colsOk L.P L.R.n && colsOk L.R L.A.n) && colsOk Ac Ac.n

/-- everything `flag_denseM_symmetric` assumes about the matrices of the hierarchy, as one Boolean -/
def dataOk (conj : α → α) (Ac : Csr α) (Ls : List (Lvl α)) : Bool :=
  shapedB Ac.n (topSize Ac Ls) Ls && Ls.all lvlOkB && inRangeH Ac Ls && hermitianHierarchy conj Ac Ls

/-- … and about the smoother lists -/
def c05Check (conj : α → α) (pre post : List Cfg) (Ac : Csr α) (Ls : List (Lvl α)) : Bool :=
  decide (1 ≤ pre.length) && decide (1 ≤ post.length) && installedB pre post 0 Ls && dataOk conj Ac Ls

/-- the components, for diagnostics: shapes, C-points/diagonals, in-range, Hermitian data, installed -/
def c05CheckParts (conj : α → α) (pre post : List Cfg) (Ac : Csr α) (Ls : List (Lvl α)) : List Bool :=
  [shapedB Ac.n (topSize Ac Ls) Ls, Ls.all lvlOkB, inRangeH Ac Ls, hermitianHierarchy conj Ac Ls,
   decide (1 ≤ pre.length) && decide (1 ≤ post.length) && installedB pre post 0 Ls]

end PyamgV.C05
