import PyamgV.Proofs.CljpRefine
import Mathlib.Algebra.Order.Field.Basic
import Mathlib.Tactic.Linarith

/-! The weight laws `WLaw` hold in every ordered field with exact `+1`, `-1`, `<` (in particular
over ℚ, the scalar type the driver can execute) — a non-vacuity witness for `cljp_model_cover`.
For IEEE doubles the same laws follow from monotonicity of rounding and exact representability of
small integers; that instance is part of the trusted base, not proved. -/
namespace PyamgV.KCljp

variable {K : Type} [Field K] [LinearOrder K] [IsStrictOrderedRing K]

noncomputable def fieldOps (K : Type) [Field K] [LinearOrder K] : WOps K :=
  ⟨fun a b => decide (a < b), fun a => a + 1, fun a => a - 1, 1⟩

theorem fieldLaw : WLaw (fieldOps K) (fun w k => (k : K) ≤ w) := by
  refine ⟨?_, ?_, ?_, ?_⟩
  · intro w k h
    show ((k + 1 : Nat) : K) ≤ w + 1
    push_cast; linarith
  · intro w k h
    show (k : K) ≤ w - 1
    have : ((k + 1 : Nat) : K) ≤ w := h
    push_cast at this; linarith
  · intro w h
    show decide (w < 1) = false
    have : ((1 : Nat) : K) ≤ w := h
    push_cast at this
    simp [not_lt.2 this]
  · intro w k h
    have : ((k + 1 : Nat) : K) ≤ w := h
    push_cast at this
    show (k : K) ≤ w
    linarith

#print axioms fieldLaw
end PyamgV.KCljp
