import PyamgV.Proofs.ExtC19FilterOp
import Mathlib.Tactic.FieldSimp

/-! PyamgV (C19, extension E9): the executable Gauss-Jordan inverse `Mat.inv` is exact.

`Mat.inv M = some Z` implies `Z M = 1` entry by entry (`IsLeftInv`), for every matrix over a field.
Invariant of the reduction of `[M | 1]`: the right block times `M` is the left block; when every
column produced a pivot the left block is the identity. -/
namespace PyamgV.C19
set_option linter.unusedSectionVars false

variable {K : Type} [Field K] [DecidableEq K]

/-- one pivot step of `Mat.rref` (row `p` swapped to `rk`, normalised, column `c` eliminated) -/
def pivStep (n : Nat) (A : Mat K) (rk p c : Nat) : Mat K :=
  let rowp := A.getD p #[]
  let rowk := A.getD rk #[]
  let A : Mat K := (A.setIfInBounds p rowk).setIfInBounds rk rowp
  let pv := A.get rk c
  let rc := (A.getD rk #[]).map fun v => v / pv
  (Array.range n).map fun r =>
    if r = rk then rc else
      let f := A.get r c
      (Array.range rc.size).map fun j => A.get r j - f * rc.getD j 0

def rrefStep (n : Nat) (st : Mat K × Nat × List Nat) (c : Nat) : Mat K × Nat × List Nat :=
  match (List.range' st.2.1 (n - st.2.1)).find? (fun r => st.1.get r c ≠ 0) with
  | none => st
  | some p => (pivStep n st.1 st.2.1 p c, st.2.1 + 1, st.2.2 ++ [c])

theorem rref_eq (M : Mat K) (w : Nat) :
    Mat.rref M w = (((List.range w).foldl (rrefStep M.rows) (M, 0, [])).1,
      ((List.range w).foldl (rrefStep M.rows) (M, 0, [])).2.2) := rfl

/-- `n` rows of width `w` -/
def Shaped (n w : Nat) (A : Mat K) : Prop := A.size = n ∧ ∀ i, i < n → (A.getD i #[]).size = w

/-- row swap used by the pivot step -/
def swRow (rk p i : Nat) : Nat := if i = rk then p else if i = p then rk else i

theorem swap_getD (A : Mat K) (rk p : Nat) (hrk : rk < A.size) (hp : p < A.size) (i : Nat) :
    ((A.setIfInBounds p (A.getD rk #[])).setIfInBounds rk (A.getD p #[])).getD i #[]
      = A.getD (swRow rk p i) #[] := by
  unfold swRow
  simp only [Array.getD_eq_getD_getElem?, Array.getElem?_setIfInBounds, Array.size_setIfInBounds]
  by_cases h1 : i = rk
  · subst h1
    simp [hrk]
  · have h1' : ¬ rk = i := fun h => h1 h.symm
    rw [if_neg h1', if_neg h1]
    by_cases h2 : i = p
    · subst h2
      simp [hp]
    · have h2' : ¬ p = i := fun h => h2 h.symm
      rw [if_neg h2', if_neg h2]

theorem swRow_lt (n rk p i : Nat) (hrk : rk < n) (hp : p < n) (hi : i < n) : swRow rk p i < n := by
  unfold swRow
  split_ifs <;> assumption

theorem map_getD0 (row : Array K) (f : K → K) (j : Nat) (hj : j < row.size) :
    (row.map f).getD j 0 = f (row.getD j 0) := by
  simp [Array.getD_eq_getD_getElem?, hj]

theorem range_map_getD0 (m : Nat) (g : Nat → K) (j : Nat) (hj : j < m) :
    ((Array.range m).map g).getD j 0 = g j := by
  simp [Array.getD_eq_getD_getElem?, hj]

theorem range_map_getDrow (n : Nat) (g : Nat → Array K) (i : Nat) (hi : i < n) :
    ((Array.range n).map g).getD i #[] = g i := by
  simp [Array.getD_eq_getD_getElem?, hi]

/-- entries after a pivot step -/
theorem pivStep_spec (n w : Nat) (A : Mat K) (rk p c : Nat) (hA : Shaped n w A) (hrk : rk < n)
    (hp : p < n) :
    Shaped n w (pivStep n A rk p c) ∧
    ∀ i j, i < n → j < w → (pivStep n A rk p c).get i j =
      if i = rk then A.get p j / A.get p c
      else A.get (swRow rk p i) j - A.get (swRow rk p i) c * (A.get p j / A.get p c) := by
  obtain ⟨hs, hw⟩ := hA
  have hsw := swap_getD A rk p (by omega) (by omega)
  have hrkrow : swRow rk p rk = p := by simp [swRow]
  unfold pivStep
  simp only [Mat.get, hsw, hrkrow]
  generalize hrow : A.getD p #[] = rowp
  have hrs : rowp.size = w := by rw [← hrow]; exact hw p hp
  generalize rowp.getD c 0 = pv
  have hrc : (rowp.map fun v => v / pv).size = w := by rw [Array.size_map, hrs]
  refine ⟨⟨by simp, ?_⟩, ?_⟩
  · intro i hi
    rw [range_map_getDrow n _ i hi]
    by_cases e : i = rk
    · rw [if_pos e]; exact hrc
    · rw [if_neg e]; simp [hrs]
  · intro i j hi hj
    rw [range_map_getDrow n _ i hi]
    by_cases e : i = rk
    · rw [if_pos e, if_pos e, map_getD0 rowp _ j (by omega)]
    · rw [if_neg e, if_neg e, range_map_getD0 _ _ j (by omega), map_getD0 rowp _ j (by omega)]

/-- right block times `M` = left block -/
def RelInv (n : Nat) (M A : Mat K) : Prop :=
  ∀ i j, i < n → j < n → ∑ k ∈ Finset.range n, A.get i (n + k) * M.get k j = A.get i j

/-- invariant of the reduction of `[M | 1]` before column `c` -/
structure RInv (n : Nat) (M : Mat K) (c : Nat) (st : Mat K × Nat × List Nat) : Prop where
  shaped : Shaped n (2 * n) st.1
  rk_le : st.2.1 ≤ c
  piv_len : st.2.2.length = st.2.1
  rel : RelInv n M st.1
  ident : st.2.1 = c → ∀ i j, i < n → j < c → st.1.get i j = if i = j then 1 else 0

theorem rrefStep_inv (n : Nat) (M : Mat K) (c : Nat) (hc : c < n) (st : Mat K × Nat × List Nat)
    (h : RInv n M c st) : RInv n M (c + 1) (rrefStep n st c) := by
  obtain ⟨A, rk, piv⟩ := st
  obtain ⟨hsh, hrk, hpl, hrel, hid⟩ := h
  simp only at hsh hrk hpl hrel hid
  unfold rrefStep
  simp only
  cases hf : (List.range' rk (n - rk)).find? (fun r => A.get r c ≠ 0) with
  | none =>
    exact ⟨hsh, by show rk ≤ c + 1; omega, hpl, hrel, fun (e : rk = c + 1) => by omega⟩
  | some p =>
    have hmem := List.mem_of_find?_eq_some hf
    have hpv : A.get p c ≠ 0 := by
      have := List.find?_some hf
      simpa using this
    rw [List.mem_range'_1] at hmem
    have hp : p < n := by omega
    have hrkn : rk < n := by omega
    obtain ⟨hsh', hget⟩ := pivStep_spec n (2 * n) A rk p c hsh hrkn hp
    refine ⟨hsh', by show rk + 1 ≤ c + 1; omega, by show (piv ++ [c]).length = rk + 1; simp [hpl], ?_, ?_⟩
    · -- the linear relation is preserved by row operations
      intro i j hi hj
      show ∑ k ∈ Finset.range n, (pivStep n A rk p c).get i (n + k) * M.get k j = (pivStep n A rk p c).get i j
      have e1 : ∀ k ∈ Finset.range n, (pivStep n A rk p c).get i (n + k) * M.get k j =
          (if i = rk then A.get p (n + k) / A.get p c
            else A.get (swRow rk p i) (n + k) - A.get (swRow rk p i) c * (A.get p (n + k) / A.get p c)) * M.get k j := by
        intro k hk
        rw [hget i (n + k) hi (by have := Finset.mem_range.mp hk; omega)]
      rw [Finset.sum_congr rfl e1, hget i j hi (by omega)]
      by_cases e : i = rk
      · simp only [if_pos e]
        rw [← hrel p j hp hj, div_eq_mul_inv, Finset.sum_mul]
        refine Finset.sum_congr rfl fun k _ => ?_
        ring
      · simp only [if_neg e]
        have hs := swRow_lt n rk p i hrkn hp hi
        rw [← hrel p j hp hj, ← hrel (swRow rk p i) j hs hj]
        rw [div_eq_mul_inv, Finset.sum_mul, Finset.mul_sum, ← Finset.sum_sub_distrib]
        refine Finset.sum_congr rfl fun k _ => ?_
        ring
    · -- with a pivot in every column so far, the processed columns are unit vectors
      intro (e : rk + 1 = c + 1) i j hi hj
      have erk : rk = c := by omega
      subst erk
      have hid' := hid rfl
      show (pivStep n A rk p rk).get i j = _
      rw [hget i j hi (by omega)]
      have hpj : ∀ j, j < rk → A.get p j = 0 := by
        intro j hj
        rw [hid' p j hp hj, if_neg (by omega)]
      by_cases ei : i = rk
      · rw [if_pos ei]
        by_cases ej : j = rk
        · rw [ej, div_self hpv, if_pos (by omega)]
        · rw [hpj j (by omega), zero_div, if_neg (by omega)]
      · rw [if_neg ei]
        have hs := swRow_lt n rk p i hrkn hp hi
        by_cases ej : j = rk
        · rw [ej, div_self hpv, mul_one, sub_self, if_neg ei]
        · have hj' : j < rk := by omega
          rw [hpj j hj', zero_div, mul_zero, sub_zero, hid' _ j hs hj']
          unfold swRow
          rw [if_neg ei]
          by_cases eip : i = p
          · rw [if_pos eip, if_neg (by omega), if_neg (by omega)]
          · rw [if_neg eip]

theorem rrefFold_inv (n : Nat) (M : Mat K) (st0 : Mat K × Nat × List Nat) (h0 : RInv n M 0 st0) :
    ∀ c, c ≤ n → RInv n M c ((List.range c).foldl (rrefStep n) st0) := by
  intro c
  induction c with
  | zero => intro _; exact h0
  | succ c ih =>
    intro hc
    rw [List.range_succ, List.foldl_append, List.foldl_cons, List.foldl_nil]
    exact rrefStep_inv n M c (by omega) _ (ih (by omega))

/-- **the executable inverse is exact**: `Mat.inv M = some Z` implies `Z M = 1` entry by entry -/
theorem Mat.inv_leftInv (M Z : Mat K) (h : Mat.inv M = some Z) : IsLeftInv M.rows Z M := by
  unfold Mat.inv at h
  simp only at h
  generalize hn : M.rows = n at h
  generalize haug : (Mat.ofFn n (2 * n) fun i j => if j < n then M.get i j else if j - n = i then (1 : K) else 0) = aug at h
  rw [rref_eq] at h
  have hrows : aug.rows = n := by rw [← haug]; exact Mat.ofFn_rows _ _ _
  rw [hrows] at h
  have h0 : RInv n M 0 (aug, 0, []) := by
    refine ⟨?_, Nat.le_refl 0, rfl, ?_, fun _ i j _ hj => absurd hj (Nat.not_lt_zero j)⟩
    · rw [← haug]
      refine ⟨Mat.ofFn_size _ _ _, fun i hi => ?_⟩
      rw [Mat.ofFn_getD _ _ _ i hi]; simp
    · intro i j hi hj
      rw [← haug]
      have e1 : ∀ k ∈ Finset.range n,
          (Mat.ofFn n (2 * n) fun i j => if j < n then M.get i j else if j - n = i then (1 : K) else 0).get i (n + k) * M.get k j
          = if k = i then M.get k j else 0 := by
        intro k hk
        have hk' := Finset.mem_range.mp hk
        rw [Mat.ofFn_get _ _ _ i (n + k) hi (by omega), if_neg (by omega)]
        by_cases e : k = i
        · rw [if_pos (by omega), if_pos e, one_mul]
        · rw [if_neg (by omega), if_neg e, zero_mul]
      rw [Finset.sum_congr rfl e1, Finset.sum_ite_eq' (Finset.range n) i, if_pos (Finset.mem_range.mpr hi),
        Mat.ofFn_get _ _ _ i j hi (by omega), if_pos hj]
  have hfin := rrefFold_inv n M (aug, 0, []) h0 n (Nat.le_refl n)
  generalize (List.range n).foldl (rrefStep n) (aug, 0, []) = st at h hfin
  obtain ⟨A, rk, piv⟩ := st
  obtain ⟨hsh, hrk, hpl, hrel, hid⟩ := hfin
  simp only at hsh hrk hpl hrel hid h
  by_cases hp : piv.length = n
  · rw [if_pos hp] at h
    have hZ : Z = Mat.ofFn n n fun i j => A.get i (n + j) := (Option.some.inj h).symm
    have hrkn : rk = n := by omega
    intro a k ha hk
    rw [sumL_range, ← hid hrkn a k ha hk, ← hrel a k ha hk]
    refine Finset.sum_congr rfl fun b hb => ?_
    rw [hZ, Mat.ofFn_get _ _ _ a b ha (Finset.mem_range.mp hb)]
  · rw [if_neg hp] at h
    cases h

#print axioms Mat.inv_leftInv

/-! ### `filterOp` without any per-instance hypothesis -/

/-- **`filter_operator`, executable model, every input**: every scalar row `i = ib * rpb + t` of a
block row that `filterOp` flags (non-empty pattern, regular local Gram matrix) satisfies the
constraint `sum_c F[i, c] B[c, k] = Bf[i, k]`, `k < nd`, exactly.  Only shape hypotheses remain. -/
theorem filterOp_constraint (conj : K → K) (rpb cpb nd : Nat) (pat : Pat) (A B Bf : Mat K)
    (ib t : Nat) (hib : ib < pat.size) (ht : t < rpb) (hi : ib * rpb + t < A.rows)
    (hpat : ∀ jb ∈ (pat.getD ib #[]).toList, (jb + 1) * cpb ≤ A.cols) (hB : nd ≤ B.cols)
    (hflag : (filterOp conj rpb cpb nd pat A B Bf).2.getD ib false = true) (k : Nat) (hk : k < nd) :
    sumL ((List.range A.cols).map fun c =>
      (filterOp conj rpb cpb nd pat A B Bf).1.get (ib * rpb + t) c * B.get c k) = Bf.get (ib * rpb + t) k := by
  refine filterOp_flagged_constraint conj rpb cpb nd pat A B Bf ib t hib ht hi hpat hB hflag ?_ k hk
  intro Z hz
  have := Mat.inv_leftInv _ Z hz
  rw [show (fGram conj nd B (fCols cpb pat ib)).rows = nd from Mat.ofFn_rows _ _ _] at this
  exact this

theorem filterOp_shape (conj : K → K) (rpb cpb nd : Nat) (pat : Pat) (A B Bf : Mat K)
    (hr : 0 < rpb) (hA : 0 < A.rows) :
    (filterOp conj rpb cpb nd pat A B Bf).1.rows = A.rows ∧
    (filterOp conj rpb cpb nd pat A B Bf).1.cols = A.cols := by
  rw [filterOp_eq]
  obtain ⟨_, h2, h3⟩ := fLoop_spec conj rpb cpb nd pat B
    (Mat.sub (Mat.mul (fMask rpb cpb pat A) B) Bf) (fMask rpb cpb pat A) pat.size
  refine ⟨by show Array.size _ = _; rw [h2, fMask_size], ?_⟩
  unfold Mat.cols
  have h0 := h3 0 0 hr (by rw [fMask_size]; omega)
  simp only [Nat.zero_mul, Nat.add_zero] at h0
  rw [h0]
  have hm := fMask_row_size rpb cpb pat A 0 hA
  by_cases c : 0 < pat.size
  · rw [if_pos c]
    unfold fOutRow
    cases fInv conj cpb nd pat B 0 with
    | none => exact hm
    | some Z => exact (fRow_size _ _ _ _ _ _ (nodup_fCols cpb pat 0)).trans hm
  · rw [if_neg c]; exact hm

/-- the quantity the driver used to decide per instance (`constraint-ok`): the residual
`F B - Bf` of the executable model vanishes on every flagged row -/
theorem filterOp_residual_zero (conj : K → K) (rpb cpb nd : Nat) (pat : Pat) (A B Bf : Mat K)
    (ib t : Nat) (hib : ib < pat.size) (ht : t < rpb) (hi : ib * rpb + t < A.rows)
    (hpat : ∀ jb ∈ (pat.getD ib #[]).toList, (jb + 1) * cpb ≤ A.cols) (hB : nd ≤ B.cols)
    (hflag : (filterOp conj rpb cpb nd pat A B Bf).2.getD ib false = true) (k : Nat) (hk : k < nd) :
    (Mat.sub (Mat.mul (filterOp conj rpb cpb nd pat A B Bf).1 B) Bf).get (ib * rpb + t) k = 0 := by
  have hc := filterOp_constraint conj rpb cpb nd pat A B Bf ib t hib ht hi hpat hB hflag k hk
  obtain ⟨hr, hcl⟩ := filterOp_shape conj rpb cpb nd pat A B Bf (by omega) (by omega)
  generalize (filterOp conj rpb cpb nd pat A B Bf).1 = F at hc hr hcl
  have hmr : (Mat.mul F B).rows = A.rows := by unfold Mat.mul; rw [Mat.ofFn_rows, hr]
  have hmc : (Mat.mul F B).cols = B.cols := by
    unfold Mat.mul; rw [Mat.ofFn_cols _ _ _ (by rw [hr]; omega)]
  unfold Mat.sub
  rw [Mat.ofFn_get _ _ _ _ k (by rw [hmr]; exact hi) (by rw [hmc]; omega)]
  unfold Mat.mul
  rw [Mat.ofFn_get _ _ _ _ k (by rw [hr]; exact hi) (by omega), hcl, hc, sub_self]

#print axioms filterOp_constraint
#print axioms filterOp_residual_zero

end PyamgV.C19
