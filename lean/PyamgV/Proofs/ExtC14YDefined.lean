import PyamgV.Proofs.ExtC14YEvol
import PyamgV.Proofs.ExtC19bInst
import PyamgV.Proofs.ExtC14XModulus

/-! PyamgV (C14, extension E44): the model of `evolution_strength_of_connection` never fails.

`Model/ExtC14YEvol.lean` solves the local problems of `evolution_strength_helper` with the exact Moore-Penrose inverse
`C19.Mat.pinv` (an `Option`: the candidate is checked against the four Penrose equations) and, for `block_flag`, inverts the
diagonal blocks with `C19.blockDiagInv`.  By `pinv_total` / `blockDiagInv_total` (`Proofs/ExtC19bPinv.lean`,
`Proofs/ExtC19bBlock.lean`) neither can fail over a field with a positive definite conjugation: the model is total on the
rationals (`conj = id`) and on the Gaussian rationals, for EVERY candidate matrix `B` -- rank-deficient local problems
included.  Also here: the two scalar readings have non-negative moduli, and the `k = 1` pattern (`A^T`, the known finding
`evolution-k1-transposed-pattern`). -/
namespace PyamgV.C14Y
open PyamgV PyamgV.N PyamgV.C14
open PyamgV.C19 (IsConj pinv_total blockDiagInv_total Mat.ofFn_shaped isConj_id_rat isConj_crat)

set_option linter.unusedSectionVars false

section total
variable {K : Type} [Field K] [DecidableEq K]

/-- `svd_solve` of the model is defined for every local problem -/
theorem solveOf_lhs_isSome (S : Scal K) (hc : IsConj S.conj) (dA : Nat → K) (B : DMat K) (k i : Nat) (cols : List Nat)
    (R : DMat K) : ∃ x, solveOf S (lhsOf S dA B k i cols) R = some x := by
  obtain ⟨X, hX, _⟩ := pinv_total S.conj hc (k + 1) (k + 1) (lhsOf S dA B k i cols) (Mat.ofFn_shaped _ _ _)
    (Nat.succ_pos k) (Nat.succ_pos k)
  exact ⟨_, by unfold solveOf; rw [hX]; rfl⟩

/-- what `svd_solve` is modelled by: `X · RHS` with `X` THE Moore-Penrose inverse of the local matrix (it passes the four
Penrose equations on the executable product and is the only `(K+1) x (K+1)` matrix doing so) -/
theorem solveOf_lhs_spec (S : Scal K) (hc : IsConj S.conj) (dA : Nat → K) (B : DMat K) (k i : Nat) (cols : List Nat)
    (R : DMat K) :
    ∃ X, solveOf S (lhsOf S dA B k i cols) R = some (C19.Mat.mul X R) ∧
      C19.Mat.isPenrose S.conj (lhsOf S dA B k i cols) X = true ∧
      ∀ Y, C19.Shaped (k + 1) (k + 1) Y → C19.Mat.isPenrose S.conj (lhsOf S dA B k i cols) Y = true → Y = X := by
  obtain ⟨X, hX, h1, _, h2⟩ := pinv_total S.conj hc (k + 1) (k + 1) (lhsOf S dA B k i cols) (Mat.ofFn_shaped _ _ _)
    (Nat.succ_pos k) (Nat.succ_pos k)
  exact ⟨X, by unfold solveOf; rw [hX]; rfl, h1, h2⟩

/-- **`evolution_strength_helper`, model, every row, every `B`**: the exact pseudo-inverse never fails -/
theorem helperRow_isSome (S : Scal K) (hc : IsConj S.conj) (P : Par) (dA : Nat → K) (B : DMat K) (k i : Nat)
    (p : RowOf K) : ∃ r, helperRow S P dA B k i p = some r := by
  unfold helperRow
  by_cases hl : p.length ≤ k
  · rw [if_pos hl]; exact ⟨_, rfl⟩
  · rw [if_neg hl]
    obtain ⟨x, hx⟩ := solveOf_lhs_isSome S hc dA B k i (p.map (·.1)) (rhsOf S dA B k i p)
    rw [hx]
    exact ⟨_, rfl⟩

theorem allRows_isSome : ∀ (l : List (Option C14.Row)), (∀ o ∈ l, ∃ r, o = some r) → ∃ m, allRows l = some m
  | [], _ => ⟨[], rfl⟩
  | none :: t, h => by
    obtain ⟨r, hr⟩ := h none List.mem_cons_self
    cases hr
  | some r :: t, h => by
    obtain ⟨m, hm⟩ := allRows_isSome t (fun o ho => h o (List.mem_cons_of_mem _ ho))
    exact ⟨r :: m, by simp [allRows, hm]⟩

theorem measureOf_isSome (S : Scal K) (hc : IsConj S.conj) (P : Par) (A B : DMat K) (k : Nat) (atl : List (RowOf K)) :
    ∃ m, measureOf S P A B k atl = some m := by
  unfold measureOf
  by_cases hK : k = 1
  · rw [if_pos hK]; exact ⟨_, rfl⟩
  · rw [if_neg hK]
    apply allRows_isSome
    intro o ho
    obtain ⟨pi, _, rfl⟩ := List.mem_map.1 ho
    exact helperRow_isSome S hc P _ B k pi.2 pi.1

/-- `Dinv_A` is defined: point scaling always, block scaling for a positive block size -/
theorem dinvAOf_isSome (S : Scal K) (hc : IsConj S.conj) (P : Par) (hbs : P.blockFlag = true → 0 < P.bs) (n : Nat)
    (A : DMat K) : ∃ DA, dinvAOf S P n A = some DA := by
  unfold dinvAOf
  by_cases hb : P.blockFlag = true
  · rw [if_pos hb]
    obtain ⟨bl, hbl, _⟩ := blockDiagInv_total S.conj hc P.bs (hbs hb) A
    unfold C19.scaleBlockInverse
    rw [hbl]
    exact ⟨_, rfl⟩
  · rw [if_neg hb]; exact ⟨_, rfl⟩

/-- **the model of the whole call is total** (CSR input): for every matrix, every candidate matrix, every parameter set -/
theorem evolFullG_isSome (S : Scal K) (hc : IsConj S.conj) (P : Par) (hbs : P.blockFlag = true → 0 < P.bs) (B : DMat K)
    (k : Nat) (rows : List (RowOf K)) : ∃ out, evolFullG S P B k rows = some out := by
  obtain ⟨DA, hDA⟩ := dinvAOf_isSome S hc P hbs rows.length (denseG rows.length rows)
  obtain ⟨m, hm⟩ := measureOf_isSome S hc P (denseG rows.length rows) B k
    (atildeRows P rows.length (powLit P.k (oneStep S P.c rows.length DA)) rows)
  refine ⟨tailO P.big P.tiny P.eps P.symm m, ?_⟩
  unfold evolFullG evMeasureG atildeOf
  simp only [hDA, Option.map_some, Option.bind_some, hm]

/-- … and on BSR input -/
theorem evolFullBsr_isSome (S : Scal K) (hc : IsConj S.conj) (P : Par) (hbs : P.blockFlag = true → 0 < P.bs) (B : DMat K)
    (k : Nat) (X : Spmm.Bsr K) : ∃ out, evolFullBsr S P B k X = some out := by
  obtain ⟨DA, hDA⟩ := dinvAOf_isSome S hc P hbs (C14X.scalarRows X).length
    (denseG (C14X.scalarRows X).length (C14X.scalarRows X))
  obtain ⟨m, hm⟩ := measureOf_isSome S hc P (denseG (C14X.scalarRows X).length (C14X.scalarRows X)) B k
    (atildeRows P (C14X.scalarRows X).length (powLit P.k (oneStep S P.c (C14X.scalarRows X).length DA))
      (C14X.scalarRows X))
  refine ⟨tailBsr P.big P.tiny P.eps P.symm P.bs m, ?_⟩
  unfold evolFullBsr evMeasureG atildeOf
  simp only [hDA, Option.map_some, Option.bind_some, hm]

/-! ### `k = 1` on CSR input: the pattern of `A^T` -/

theorem ofFn_get' (r c : Nat) (f : Nat → Nat → K) (i j : Nat) (hi : i < r) (hj : j < c) :
    (C19.Mat.ofFn r c f).get i j = f i j := by
  unfold C19.Mat.get C19.Mat.ofFn
  simp [Array.getD_eq_getD_getElem?, hi, hj]

theorem ent_ne_zero (rows : List (RowOf K)) (i j : Nat) (h : ent rows i j ≠ 0) :
    ∃ v, (j, v) ∈ rows.getD i [] ∧ v ≠ 0 := by
  unfold ent at h
  cases hf : (rows.getD i []).find? (fun cv => cv.1 == j) with
  | none => rw [hf] at h; simp at h
  | some cv =>
    rw [hf] at h
    simp only [Option.map_some, Option.getD_some] at h
    have h1 := List.mem_of_find?_eq_some hf
    have h2 := List.find?_some hf
    simp only [beq_iff_eq] at h2
    exact ⟨cv.2, by rw [← h2]; exact h1, h⟩

/-- **`k = 1`, CSR input, point scaling**: no mask is applied and an off-diagonal entry `(i, j)` of `Atilde` comes from a
stored non-zero entry `(j, i)` of `A` -- the pattern of `A^T` (finding `evolution-k1-transposed-pattern`) -/
theorem oneStep_pattern (S : Scal K) (c : Rat) (rows : List (RowOf K)) (i j : Nat) (hi : i < rows.length)
    (hj : j < rows.length) (hij : i ≠ j)
    (h : (oneStep S c rows.length (dinvA rows.length (denseG rows.length rows))).get i j ≠ 0) :
    ∃ v, (i, v) ∈ rows.getD j [] ∧ v ≠ 0 := by
  unfold oneStep at h
  rw [ofFn_get' _ _ _ i j hi hj, if_neg hij] at h
  have h1 : (dinvA rows.length (denseG rows.length rows)).get j i ≠ 0 := by
    intro h0; apply h; rw [h0]; ring
  unfold dinvA at h1
  rw [ofFn_get' _ _ _ j i hj hi] at h1
  have h2 : (denseG rows.length rows).get j i ≠ 0 := by
    intro h0; apply h1; rw [h0]; ring
  unfold denseG at h2
  rw [ofFn_get' _ _ _ j i hj hi] at h2
  exact ent_ne_zero rows j i h2

/-! ### the three time-stepping branches compute the same power -/

theorem iterN_sq_spec (n : Nat) (hn : 0 < n) : ∀ (s : Nat) (M : DMat K), C19.Shaped n n M →
    C19.Shaped n n (iterN (fun M => C19.Mat.mul M M) s M) ∧
    C19.toMx n n (iterN (fun M => C19.Mat.mul M M) s M) = (C19.toMx n n M) ^ (2 ^ s)
  | 0, M, hM => ⟨hM, by simp [iterN]⟩
  | s + 1, M, hM => by
    obtain ⟨h1, h2⟩ := C19.Mat.mul_spec n n n M M hM hM hn hn
    obtain ⟨h3, h4⟩ := iterN_sq_spec n hn s (C19.Mat.mul M M) h1
    refine ⟨h3, ?_⟩
    show C19.toMx n n (iterN (fun M => C19.Mat.mul M M) s (C19.Mat.mul M M)) = _
    rw [h4, h2, ← pow_two, ← pow_mul, pow_succ 2 s, Nat.mul_comm]

theorem iterN_mul_spec (n : Nat) (hn : 0 < n) (T : DMat K) (hT : C19.Shaped n n T) : ∀ (t : Nat) (M : DMat K),
    C19.Shaped n n M →
    C19.Shaped n n (iterN (fun M => C19.Mat.mul M T) t M) ∧
    C19.toMx n n (iterN (fun M => C19.Mat.mul M T) t M) = C19.toMx n n M * (C19.toMx n n T) ^ t
  | 0, M, hM => ⟨hM, by simp [iterN]⟩
  | t + 1, M, hM => by
    obtain ⟨h1, h2⟩ := C19.Mat.mul_spec n n n M T hM hT hn hn
    obtain ⟨h3, h4⟩ := iterN_mul_spec n hn T hT t (C19.Mat.mul M T) h1
    refine ⟨h3, ?_⟩
    show C19.toMx n n (iterN (fun M => C19.Mat.mul M T) t (C19.Mat.mul M T)) = _
    rw [h4, h2, mul_assoc, ← pow_succ']

/-- **time stepping**: whatever the branch (`k = 1`; `k` not a power of two: squarings then single steps; `k = 2^m`: squarings,
the last one on the mask), the dense matrix whose masked entries are handed to the strength computation is the `k`-th power
of the one-step matrix `(I - (1/ρ) D⁻¹A)ᵀ` -/
theorem powLit_spec (n : Nat) (hn : 0 < n) (k : Nat) (hk : k ≠ 0) (T : DMat K) (hT : C19.Shaped n n T) :
    C19.Shaped n n (powLit k T) ∧ C19.toMx n n (powLit k T) = (C19.toMx n n T) ^ k := by
  unfold powLit
  simp only
  obtain ⟨h1, h2⟩ := iterN_sq_spec n hn (Nat.log2 k) T hT
  obtain ⟨h3, h4⟩ := iterN_mul_spec n hn T hT (k - 2 ^ Nat.log2 k) _ h1
  refine ⟨h3, ?_⟩
  rw [h4, h2, ← pow_add, Nat.add_sub_cancel' (Nat.log2_self_le hk)]

theorem oneStep_shaped (S : Scal K) (c : Rat) (n : Nat) (DA : DMat K) : C19.Shaped n n (oneStep S c n DA) :=
  C19.Mat.ofFn_shaped _ _ _

theorem powLit_one (T : DMat K) : powLit 1 T = T := by
  unfold powLit
  have : Nat.log2 1 = 0 := by decide
  simp [this, iterN]

end total

/-! ### the two scalar readings of the driver -/

theorem scalQ_md_nonneg : ∀ a, 0 ≤ scalQ.md a := absQ_nonneg
theorem scalC_md_nonneg (sq : Rat → Rat) (hs : C14X.SqrtLike sq) : ∀ a, 0 ≤ (scalC sq).md a :=
  (C14X.cmodS_isModulus sq hs).nonneg
theorem scalQ_conj : IsConj scalQ.conj := isConj_id_rat
theorem scalC_conj (sq : Rat → Rat) : IsConj (scalC sq).conj := isConj_crat

/-- the real and the complex run of the driver are defined on every input -/
theorem evolFull_real_defined (P : Par) (hbs : P.blockFlag = true → 0 < P.bs) (B : DMat Rat) (k : Nat)
    (rows : List (RowOf Rat)) : ∃ out, evolFullG scalQ P B k rows = some out :=
  evolFullG_isSome scalQ scalQ_conj P hbs B k rows

theorem evolFull_complex_defined (sq : Rat → Rat) (P : Par) (hbs : P.blockFlag = true → 0 < P.bs) (B : DMat CRat) (k : Nat)
    (rows : List (RowOf CRat)) : ∃ out, evolFullG (scalC sq) P B k rows = some out :=
  evolFullG_isSome (scalC sq) (scalC_conj sq) P hbs B k rows

#print axioms evolFullG_isSome
#print axioms evolFull_complex_defined
#print axioms oneStep_pattern
#print axioms powLit_spec

end PyamgV.C14Y
