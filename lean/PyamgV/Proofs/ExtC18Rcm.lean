import PyamgV.Model.ExtC18Rcm
import PyamgV.Proofs.Bfs
import Mathlib.Data.List.Perm.Subperm
import Mathlib.Data.List.Nodup
import Mathlib.Data.List.Range

/-! PyamgV (C18, extension E20): `symmetric_rcm` (graph.py) returns a permutation.

About the validated executable model `Model/ExtC18Rcm.lean` (`Rcm.ppn`, `Rcm.compLoop`,
`Rcm.rcmPerm`, driver ops `ext_c18_ppn`, `ext_c18_rcm`), which calls the validated kernel model
`G.bfs`.  Steps: `G.bfs.go` is the level-synchronous traversal of `Proofs/Bfs.lean` that also keeps
the order (`bfs_go_eq`); the order lists exactly the labelled nodes, once each (`goO_O`), which are
the nodes reachable from the seed (`Bfs.bfs_total`), and `order[:count_nonzero(level >= 0)]` is that
list (`count_reached`); on a symmetric graph a traversal started outside a union of earlier
traversals never enters it (`near_avoids`), so the component loop keeps the list duplicate free, adds
at least the new seed per round and ends with all `n` nodes (`compLoop_spec`);
`pseudo_peripheral_node` always finds its node `y` and stops because its `delta` grows and levels
are bounded (`ppn_spec`).  Result: `rcm_total`. -/
namespace PyamgV.Rcm
open PyamgV PyamgV.G

theorem rdI_eq (a : Array Int) (v : Nat) : G.rdI a v = PyamgV.rd a v := rfl

/-- proof-side graph of a CSR graph -/
def pg (Gc : G.Graph) : PyamgV.Graph := ⟨Gc.n, Gc.row⟩

/-- the traversal of `G.bfs` with the level-synchronous step of `Proofs/Bfs.lean` -/
def goO (P : PyamgV.Graph) : Nat → List Nat → Nat → List Nat → Array Int → List Nat × Array Int
  | 0, _, _, order, level => (order, level)
  | f+1, F, L, order, level =>
    if F.isEmpty then (order, level) else
      goO P f (Bfs.levelStep P (L : Int) F level).1 (L+1) (order ++ (Bfs.levelStep P (L : Int) F level).1)
        (Bfs.levelStep P (L : Int) F level).2

theorem bfs_go_eq (Gc : G.Graph) : ∀ (fuel : Nat) (F : List Nat) (L : Nat) (order : List Nat) (level : Array Int),
    G.bfs.go Gc fuel F (L : Int) order level = goO (pg Gc) fuel F L order level := by
  intro fuel
  induction fuel with
  | zero => intro F L order level; rfl
  | succ f ih =>
    intro F L order level
    unfold G.bfs.go goO
    by_cases hF : F.isEmpty = true
    · rw [if_pos hF, if_pos hF]
    · rw [if_neg hF, if_neg hF]
      have := ih (Bfs.levelStep (pg Gc) (L : Int) F level).1 (L+1)
        (order ++ (Bfs.levelStep (pg Gc) (L : Int) F level).1) (Bfs.levelStep (pg Gc) (L : Int) F level).2
      rw [← this]
      rfl

/-! ### what one level-synchronous round adds to the order -/

/-- state of a round: `acc.1` = nodes discovered so far in this round -/
structure J (n : Nat) (lvl : Int) (level0 : Array Int) (acc : List Nat × Array Int) : Prop where
  size : acc.2.size = n
  nodup : acc.1.Nodup
  mem : ∀ v, v ∈ acc.1 → v < n ∧ rd level0 v = -1 ∧ rd acc.2 v = lvl
  rest : ∀ v, v ∉ acc.1 → rd acc.2 v = rd level0 v

theorem visit_J {n : Nat} {lvl : Int} (hl : lvl ≠ -1) {level0 : Array Int} {acc : List Nat × Array Int}
    (hJ : J n lvl level0 acc) (j : Nat) : J n lvl level0 (Bfs.visit lvl acc j) := by
  unfold Bfs.visit
  by_cases hj : rd acc.2 j = -1
  · rw [if_pos hj]
    have hjn : j ∉ acc.1 := fun hm => hl (by rw [← (hJ.mem j hm).2.2, hj])
    have hjlt : j < n := by
      by_contra hge
      have : rd acc.2 j = 0 := by
        unfold rd
        rw [Array.getD_eq_getD_getElem?, Array.getElem?_eq_none (by rw [hJ.size]; omega)]
        rfl
      rw [this] at hj
      omega
    refine ⟨by simp only [size_wr]; exact hJ.size, ?_, ?_, ?_⟩
    · exact List.nodup_append.2 ⟨hJ.nodup, List.nodup_singleton j,
        fun a ha b hb => by rw [List.mem_singleton.1 hb]; exact fun hh => hjn (hh ▸ ha)⟩
    · intro v hv
      simp only
      rw [rd_wr]
      rcases List.mem_append.1 hv with hv | hv
      · obtain ⟨h1, h2, h3⟩ := hJ.mem v hv
        refine ⟨h1, h2, ?_⟩
        split
        · rfl
        · exact h3
      · have hvj : v = j := List.mem_singleton.1 hv
        subst hvj
        refine ⟨hjlt, by rw [← hJ.rest v hjn]; exact hj, ?_⟩
        rw [if_pos ⟨rfl, by rw [hJ.size]; exact hjlt⟩]
    · intro v hv
      simp only
      have hv1 : v ∉ acc.1 := fun hh => hv (List.mem_append_left _ hh)
      have hvj : j ≠ v := fun hh => hv (List.mem_append_right _ (by rw [hh]; exact List.mem_singleton_self v))
      rw [rd_wr, if_neg (fun hh => hvj hh.1)]
      exact hJ.rest v hv1
  · rw [if_neg hj]; exact hJ

theorem visit_fold_J {n : Nat} {lvl : Int} (hl : lvl ≠ -1) {level0 : Array Int} :
    ∀ (js : List Nat) (acc : List Nat × Array Int), J n lvl level0 acc →
      J n lvl level0 (js.foldl (Bfs.visit lvl) acc) := by
  intro js
  induction js with
  | nil => intro acc h; exact h
  | cons j js ih => intro acc h; rw [List.foldl_cons]; exact ih _ (visit_J hl h j)

theorem levelStep_J {n : Nat} (P : PyamgV.Graph) {lvl : Int} (hl : lvl ≠ -1) (F : List Nat)
    (level0 : Array Int) (hs : level0.size = n) :
    J n lvl level0 (Bfs.levelStep P lvl F level0) := by
  unfold Bfs.levelStep
  have h0 : J n lvl level0 ([], level0) :=
    ⟨hs, List.nodup_nil, fun v hv => (by cases hv), fun v _ => rfl⟩
  suffices h : ∀ (F : List Nat) (acc : List Nat × Array Int), J n lvl level0 acc →
      J n lvl level0 (F.foldl (Bfs.expand P lvl) acc) from h F _ h0
  intro F
  induction F with
  | nil => intro acc h; exact h
  | cons i F ih =>
    intro acc h
    rw [List.foldl_cons]
    exact ih _ (visit_fold_J hl _ _ h)

/-! ### the order produced by the traversal -/

/-- `order` lists exactly the labelled nodes, once each; all labels are below the current level -/
structure O (n : Nat) (L : Nat) (order : List Nat) (level : Array Int) : Prop where
  size : level.size = n
  nodup : order.Nodup
  mem : ∀ v, v ∈ order ↔ (v < n ∧ rd level v ≠ -1)
  below : ∀ v, rd level v < (L : Int)

theorem round_O {n : Nat} (P : PyamgV.Graph) {L : Nat} (hL : 1 ≤ L) (F : List Nat) {order : List Nat}
    {level : Array Int} (hO : O n L order level) :
    O n (L+1) (order ++ (Bfs.levelStep P (L : Int) F level).1) (Bfs.levelStep P (L : Int) F level).2 := by
  have hl : (L : Int) ≠ -1 := by omega
  have hJ := levelStep_J (n := n) P hl F level hO.size
  have hkeep : ∀ v, rd level v ≠ -1 → rd (Bfs.levelStep P (L : Int) F level).2 v = rd level v := by
    intro v hv
    apply hJ.rest
    intro hm
    exact hv (hJ.mem v hm).2.1
  refine ⟨hJ.size, ?_, ?_, ?_⟩
  · refine List.nodup_append.2 ⟨hO.nodup, hJ.nodup, fun a ha b hb hab => ?_⟩
    subst hab
    exact ((hO.mem a).1 ha).2 (hJ.mem a hb).2.1
  · intro v
    constructor
    · intro hv
      rcases List.mem_append.1 hv with hv | hv
      · obtain ⟨h1, h2⟩ := (hO.mem v).1 hv
        exact ⟨h1, by rw [hkeep v h2]; exact h2⟩
      · obtain ⟨h1, _, h3⟩ := hJ.mem v hv
        exact ⟨h1, by rw [h3]; exact hl⟩
    · rintro ⟨h1, h2⟩
      by_cases hm : v ∈ (Bfs.levelStep P (L : Int) F level).1
      · exact List.mem_append_right _ hm
      · rw [hJ.rest v hm] at h2
        exact List.mem_append_left _ ((hO.mem v).2 ⟨h1, h2⟩)
  · intro v
    by_cases hm : v ∈ (Bfs.levelStep P (L : Int) F level).1
    · rw [(hJ.mem v hm).2.2]; push_cast; omega
    · rw [hJ.rest v hm]; have := hO.below v; push_cast; omega

theorem goO_O {n : Nat} (P : PyamgV.Graph) : ∀ (fuel : Nat) (F : List Nat) (L : Nat) (order : List Nat)
    (level : Array Int), 1 ≤ L → O n L order level →
      O n (L + fuel) (goO P fuel F L order level).1 (goO P fuel F L order level).2 := by
  intro fuel
  induction fuel with
  | zero => intro F L order level _ h; exact h
  | succ f ih =>
    intro F L order level hL hO
    unfold goO
    by_cases hF : F.isEmpty = true
    · rw [if_pos hF]
      exact ⟨hO.size, hO.nodup, hO.mem, fun v => by have := hO.below v; push_cast; omega⟩
    · rw [if_neg hF]
      have := ih (Bfs.levelStep P (L : Int) F level).1 (L+1) _ _ (by omega) (round_O P hL F hO)
      rw [show L + (f + 1) = L + 1 + f by omega]
      exact this

theorem goO_level (P : PyamgV.Graph) : ∀ (fuel : Nat) (F : List Nat) (L : Nat) (order : List Nat)
    (level : Array Int), (goO P fuel F L order level).2 = (Bfs.go P fuel F L level).1 := by
  intro fuel
  induction fuel with
  | zero => intro F L order level; rfl
  | succ f ih =>
    intro F L order level
    unfold goO Bfs.go
    by_cases hF : F.isEmpty = true
    · rw [if_pos hF, if_pos hF]
    · rw [if_neg hF, if_neg hF]
      exact ih _ _ _ _

/-! ### the facts about one call of `breadth_first_search` used by the RCM proof -/

/-- the breadth-first order of the validated kernel model (a list of nodes) -/
def bfsOrd (Gc : G.Graph) (s : Nat) : List Nat :=
  (goO (pg Gc) (Gc.n + 1) [s] 1 [s] (wr (Array.replicate Gc.n (-1)) s 0)).1

theorem bfs_eq (Gc : G.Graph) (s : Nat) :
    G.bfs Gc s = (((bfsOrd Gc s).map (Int.ofNat ·)).toArray ++
        Array.replicate (Gc.n - (bfsOrd Gc s).length) (-9),
      (goO (pg Gc) (Gc.n + 1) [s] 1 [s] (wr (Array.replicate Gc.n (-1)) s 0)).2) := by
  have := bfs_go_eq Gc (Gc.n + 1) [s] 1 [s] (wr (Array.replicate Gc.n (-1)) s 0)
  unfold G.bfs bfsOrd
  rw [← this]
  rfl

theorem toList_eq_range_map (level : Array Int) :
    level.toList = (List.range level.size).map (fun v => rd level v) := by
  apply List.ext_getElem
  · simp
  · intro i h1 h2
    simp only [List.getElem_map, List.getElem_range, Array.getElem_toList]
    unfold rd
    rw [Array.getD_eq_getD_getElem?, Array.getElem?_eq_getElem (by simpa using h1)]
    rfl

theorem count_reached {n : Nat} (level : Array Int) (ord : List Nat) (hs : level.size = n)
    (hnd : ord.Nodup) (hm : ∀ v, v ∈ ord ↔ v < n ∧ 0 ≤ rd level v) :
    reachedCount level = ord.length := by
  unfold reachedCount
  rw [toList_eq_range_map, List.countP_map, List.countP_eq_length_filter, hs]
  apply List.Perm.length_eq
  apply (List.perm_ext_iff_of_nodup (List.nodup_range.filter _) hnd).2
  intro v
  rw [List.mem_filter, List.mem_range, hm v]
  simp

structure BfsFacts (Gc : G.Graph) (s : Nat) : Prop where
  pre : reachedPrefix (G.bfs Gc s).1 (G.bfs Gc s).2 = (bfsOrd Gc s).map (Int.ofNat ·)
  nodup : (bfsOrd Gc s).Nodup
  mem : ∀ v, v ∈ bfsOrd Gc s ↔ ∃ k, Bfs.Near (pg Gc) s k v
  lt : ∀ v, v ∈ bfsOrd Gc s → v < Gc.n
  size : (G.bfs Gc s).2.size = Gc.n
  lev : ∀ v, v < Gc.n → (0 ≤ rd (G.bfs Gc s).2 v ↔ v ∈ bfsOrd Gc s)
  below : ∀ v, rd (G.bfs Gc s).2 v < (Gc.n : Int) + 2

theorem bfs_facts (Gc : G.Graph) (hG : GraphOK (pg Gc)) {s : Nat} (hs : s < Gc.n) : BfsFacts Gc s := by
  have hGOK : Bfs.GOK (pg Gc) s := ⟨hs, hG.bound⟩
  have hO0 : O Gc.n 1 [s] (wr (Array.replicate Gc.n (-1)) s 0) := by
    refine ⟨by simp, List.nodup_singleton s, ?_, ?_⟩
    · intro v
      rw [rd_wr]
      constructor
      · intro hv
        have : v = s := List.mem_singleton.1 hv
        subst this
        exact ⟨hs, by rw [if_pos ⟨rfl, by simpa using hs⟩]; omega⟩
      · rintro ⟨h1, h2⟩
        by_cases h3 : s = v ∧ s < (Array.replicate Gc.n (-1 : Int)).size
        · rw [h3.1]; exact List.mem_singleton_self v
        · rw [if_neg h3] at h2
          exfalso; apply h2
          simp [rd, h1]
    · intro v
      rw [rd_wr]
      split
      · omega
      · by_cases hv : v < Gc.n
        · simp [rd, hv]
        · simp [rd, hv]
  have hO := goO_O (n := Gc.n) (pg Gc) (Gc.n + 1) [s] 1 [s] _ (le_refl 1) hO0
  have hlev := goO_level (pg Gc) (Gc.n + 1) [s] 1 [s] (wr (Array.replicate Gc.n (-1)) s 0)
  obtain ⟨_, hC⟩ := Bfs.bfs_total hGOK
  have hC' : Bfs.Correct (pg Gc) s (goO (pg Gc) (Gc.n + 1) [s] 1 [s] (wr (Array.replicate Gc.n (-1)) s 0)).2 := by
    rw [hlev]; exact hC
  have hb := bfs_eq Gc s
  have hlvl : (G.bfs Gc s).2 = (goO (pg Gc) (Gc.n + 1) [s] 1 [s] (wr (Array.replicate Gc.n (-1)) s 0)).2 := by
    rw [hb]
  have hord : ∀ v, v ∈ bfsOrd Gc s ↔ (v < Gc.n ∧ rd (G.bfs Gc s).2 v ≠ -1) := by
    intro v; rw [hlvl]; exact hO.mem v
  have hnn : ∀ v, v < Gc.n → (0 ≤ rd (G.bfs Gc s).2 v ↔ rd (G.bfs Gc s).2 v ≠ -1) := by
    intro v hv
    rw [hlvl]
    rcases hC'.2 v hv with ⟨h1, _⟩ | ⟨k, h1, _⟩
    · rw [h1]; omega
    · rw [h1]; omega
  have hlev2 : ∀ v, v < Gc.n → (0 ≤ rd (G.bfs Gc s).2 v ↔ v ∈ bfsOrd Gc s) := by
    intro v hv
    rw [hnn v hv, hord v]
    exact ⟨fun h => ⟨hv, h⟩, fun h => h.2⟩
  have hsize : (G.bfs Gc s).2.size = Gc.n := by rw [hlvl]; exact hO.size
  refine ⟨?_, hO.nodup, ?_, fun v hv => ((hord v).1 hv).1, hsize, hlev2, ?_⟩
  · unfold reachedPrefix
    rw [count_reached (G.bfs Gc s).2 (bfsOrd Gc s) hsize hO.nodup ?_]
    · rw [hb]
      simp
    · intro v
      constructor
      · intro hv
        have h1 := ((hord v).1 hv).1
        exact ⟨h1, (hlev2 v h1).2 hv⟩
      · rintro ⟨h1, h2⟩
        exact (hlev2 v h1).1 h2
  · intro v
    rw [hord v, hlvl]
    constructor
    · rintro ⟨hv, hne⟩
      rcases hC'.2 v hv with ⟨h1, _⟩ | ⟨k, _, hd⟩
      · exact absurd h1 hne
      · exact ⟨k, hd.1⟩
    · rintro ⟨k, hk⟩
      have hv := Bfs.near_lt hGOK k v hk
      refine ⟨hv, ?_⟩
      rcases hC'.2 v hv with ⟨_, h2⟩ | ⟨k', h1, _⟩
      · exact absurd hk (h2 k)
      · rw [h1]; omega
  · intro v
    rw [hlvl]
    have := hO.below v
    push_cast at this
    omega

theorem bfs_closed (Gc : G.Graph) (hG : GraphOK (pg Gc)) {s : Nat} (hs : s < Gc.n) :
    ∀ u, u ∈ bfsOrd Gc s → ∀ v, v ∈ Gc.row u → v ∈ bfsOrd Gc s := by
  intro u hu v hv
  have F := bfs_facts Gc hG hs
  obtain ⟨k, hk⟩ := (F.mem u).1 hu
  exact (F.mem v).2 ⟨k + 1, u, hk, hv⟩

theorem bfs_seed_mem (Gc : G.Graph) (hG : GraphOK (pg Gc)) {s : Nat} (hs : s < Gc.n) : s ∈ bfsOrd Gc s :=
  ((bfs_facts Gc hG hs).mem s).2 ⟨0, rfl⟩

/-- on a symmetric graph a traversal started outside a set closed under adjacency never enters it -/
theorem near_avoids (Gc : G.Graph) (hG : GraphOK (pg Gc)) {s : Nat} (hs : s < Gc.n) (R : List Nat)
    (hlt : ∀ v ∈ R, v < Gc.n) (hcl : ∀ u ∈ R, ∀ v ∈ Gc.row u, v ∈ R) (hsR : s ∉ R) :
    ∀ k v, Bfs.Near (pg Gc) s k v → v ∉ R := by
  have hGOK : Bfs.GOK (pg Gc) s := ⟨hs, hG.bound⟩
  intro k
  induction k with
  | zero => intro v hv; rw [show v = s from hv]; exact hsR
  | succ k ih =>
    intro v hv hvR
    obtain ⟨u, hu, hvu⟩ := hv
    have hun : u < Gc.n := Bfs.near_lt hGOK k u hu
    have hvn : v < Gc.n := hlt v hvR
    have huv : u ∈ (pg Gc).adj v := (hG.symm u v hun hvn).1 hvu
    exact ih u hu (hcl v hvR u huv)

/-! ### the component loop -/

theorem getD_map_range (m : Nat) (f : Nat → Bool) (v : Nat) :
    (((List.range m).map f).toArray).getD v false = if v < m then f v else false := by
  rw [Array.getD_eq_getD_getElem?]
  by_cases hv : v < m
  · rw [if_pos hv, Array.getElem?_eq_getElem (by simpa using hv)]
    simp
  · rw [if_neg hv, Array.getElem?_eq_none (by simpa using hv)]
    rfl

/-- state of the component loop: `ordN` lists exactly the reached nodes, once each, and the reached
set is closed under adjacency -/
structure C (Gc : G.Graph) (ordN : List Nat) (reached : Array Bool) : Prop where
  rsize : reached.size = Gc.n
  nodup : ordN.Nodup
  mem : ∀ v, v ∈ ordN ↔ (v < Gc.n ∧ reached.getD v false = true)
  closed : ∀ u ∈ ordN, ∀ v ∈ Gc.row u, v ∈ ordN

theorem compLoop_spec (Gc : G.Graph) (hG : GraphOK (pg Gc)) :
    ∀ (fuel : Nat) (ordN : List Nat) (reached : Array Bool), C Gc ordN reached →
      Gc.n - ordN.length < fuel →
      ∃ q : List Nat, compLoop Gc fuel (ordN.map (Int.ofNat ·)) reached = some (q.map (Int.ofNat ·)) ∧
        q.Perm (List.range Gc.n) := by
  intro fuel
  induction fuel with
  | zero => intro _ _ _ h; omega
  | succ f ih =>
    intro ordN reached hC hf
    have hsub : ordN.Subperm (List.range Gc.n) :=
      List.subperm_of_subset hC.nodup (fun v hv => List.mem_range.2 ((hC.mem v).1 hv).1)
    unfold compLoop
    by_cases hlen : Gc.n ≤ (ordN.map (Int.ofNat ·)).length
    · rw [if_pos hlen]
      refine ⟨ordN, rfl, hsub.perm_of_length_le ?_⟩
      simpa using hlen
    · rw [if_neg hlen]
      have hlen' : ordN.length < Gc.n := by simpa using hlen
      cases hfind : (List.range Gc.n).find? (fun v => !(reached.getD v false)) with
      | none =>
        exfalso
        have hall := List.find?_eq_none.1 hfind
        have : (List.range Gc.n).Subperm ordN := by
          apply List.subperm_of_subset List.nodup_range
          intro v hv
          have := hall v hv
          exact (hC.mem v).2 ⟨List.mem_range.1 hv, by simpa using this⟩
        have := this.length_le
        simp at this
        omega
      | some seed =>
        simp only
        have hsn : seed < Gc.n := List.mem_range.1 (List.mem_of_find?_eq_some hfind)
        have hsr : (!(reached.getD seed false)) = true :=
          List.find?_some (p := fun v => !(reached.getD v false)) hfind
        have hsR : seed ∉ ordN := by
          intro hm
          have := ((hC.mem seed).1 hm).2
          rw [this] at hsr
          cases hsr
        have F := bfs_facts Gc hG hsn
        have havoid := near_avoids Gc hG hsn ordN (fun v hv => ((hC.mem v).1 hv).1) hC.closed hsR
        rw [F.pre, ← List.map_append]
        have hC' : C Gc (ordN ++ bfsOrd Gc seed) (orReached reached (G.bfs Gc seed).2) := by
          refine ⟨by simp [orReached, hC.rsize], ?_, ?_, ?_⟩
          · refine List.nodup_append.2 ⟨hC.nodup, F.nodup, fun a ha b hb hab => ?_⟩
            subst hab
            obtain ⟨k, hk⟩ := (F.mem a).1 hb
            exact havoid k a hk ha
          · intro v
            unfold orReached
            rw [getD_map_range, hC.rsize]
            constructor
            · intro hv
              rcases List.mem_append.1 hv with hv | hv
              · obtain ⟨h1, h2⟩ := (hC.mem v).1 hv
                exact ⟨h1, by rw [if_pos h1, h2]; rfl⟩
              · have h1 := F.lt v hv
                refine ⟨h1, ?_⟩
                rw [if_pos h1]
                have : decide (0 ≤ rdI (G.bfs Gc seed).2 v) = true :=
                  decide_eq_true ((F.lev v h1).2 hv)
                rw [this]; simp
            · rintro ⟨h1, h2⟩
              rw [if_pos h1] at h2
              rcases Bool.or_eq_true_iff.1 h2 with h3 | h3
              · exact List.mem_append_left _ ((hC.mem v).2 ⟨h1, h3⟩)
              · exact List.mem_append_right _ ((F.lev v h1).1 (of_decide_eq_true h3))
          · intro u hu v hv
            rcases List.mem_append.1 hu with hu | hu
            · exact List.mem_append_left _ (hC.closed u hu v hv)
            · exact List.mem_append_right _ (bfs_closed Gc hG hsn u hu v hv)
        have hpos : 1 ≤ (bfsOrd Gc seed).length :=
          List.length_pos_of_mem (bfs_seed_mem Gc hG hsn)
        exact ih _ _ hC' (by rw [List.length_append]; omega)

/-! ### `pseudo_peripheral_node` -/

theorem foldl_max_mem : ∀ (l : List Int) (init : Int), l.foldl max init = init ∨ l.foldl max init ∈ l := by
  intro l
  induction l with
  | nil => intro init; exact Or.inl rfl
  | cons a l ih =>
    intro init
    rw [List.foldl_cons]
    rcases ih (max init a) with h | h
    · rw [h, Int.max_def]
      split
      · exact Or.inr List.mem_cons_self
      · exact Or.inl rfl
    · exact Or.inr (List.mem_cons_of_mem _ h)

theorem foldl_min_mem (f : Nat → Int) : ∀ (l : List Nat) (init : Int),
    l.foldl (fun mn w => min mn (f w)) init = init ∨
      ∃ w ∈ l, l.foldl (fun mn w => min mn (f w)) init = f w := by
  intro l
  induction l with
  | nil => intro init; exact Or.inl rfl
  | cons a l ih =>
    intro init
    rw [List.foldl_cons]
    rcases ih (min init (f a)) with h | ⟨w, hw, h⟩
    · rw [h, Int.min_def]
      split
      · exact Or.inl rfl
      · exact Or.inr ⟨a, List.mem_cons_self, rfl⟩
    · exact Or.inr ⟨w, List.mem_cons_of_mem _ hw, h⟩

theorem pick_some (Gc : G.Graph) (level : Array Int) (hs : level.size = Gc.n) (hn : 0 < Gc.n) :
    ∃ y, pick Gc level = some y ∧ y < Gc.n := by
  -- the last level is not empty
  have hne : ∃ v, v ∈ lastNodes Gc level := by
    have h0 : rdI level 0 ∈ level.toList := by
      rw [toList_eq_range_map, hs]
      exact List.mem_map.2 ⟨0, List.mem_range.2 hn, rfl⟩
    have hmax : maxLevel level ∈ level.toList := by
      unfold maxLevel
      rcases foldl_max_mem level.toList (rdI level 0) with h | h
      · rw [h]; exact h0
      · exact h
    rw [toList_eq_range_map, hs] at hmax
    obtain ⟨v, hv, hve⟩ := List.mem_map.1 hmax
    refine ⟨v, ?_⟩
    unfold lastNodes
    rw [List.mem_filter]
    exact ⟨hv, decide_eq_true hve⟩
  unfold pick
  cases hl : lastNodes Gc level with
  | nil => obtain ⟨v, hv⟩ := hne; rw [hl] at hv; cases hv
  | cons v0 vs =>
    simp only [minValence]
    have hmem : ∃ w ∈ v0 :: vs, vs.foldl (fun mn w => min mn (valence Gc w)) (valence Gc v0) = valence Gc w := by
      rcases foldl_min_mem (valence Gc) vs (valence Gc v0) with h | ⟨w, hw, h⟩
      · exact ⟨v0, List.mem_cons_self, h⟩
      · exact ⟨w, List.mem_cons_of_mem _ hw, h⟩
    obtain ⟨w, hw, hwe⟩ := hmem
    cases hf : (v0 :: vs).find? (fun v => decide (valence Gc v =
        vs.foldl (fun mn w => min mn (valence Gc w)) (valence Gc v0))) with
    | none =>
      have := List.find?_eq_none.1 hf w hw
      simp only [decide_eq_true_eq] at this
      exact absurd hwe.symm this
    | some y =>
      refine ⟨y, rfl, ?_⟩
      have hy : y ∈ lastNodes Gc level := by rw [hl]; exact List.mem_of_find?_eq_some hf
      unfold lastNodes at hy
      exact List.mem_range.1 (List.mem_filter.1 hy).1

theorem ppn_spec (Gc : G.Graph) (hG : GraphOK (pg Gc)) :
    ∀ (fuel x : Nat) (delta : Int), x < Gc.n → ((Gc.n : Int) + 2 - delta).toNat < fuel →
      ∃ x', x' < Gc.n ∧ ppn Gc fuel x delta = some (x', (G.bfs Gc x').1, (G.bfs Gc x').2) := by
  intro fuel
  induction fuel with
  | zero => intro _ _ _ h; omega
  | succ f ih =>
    intro x delta hx hf
    have F := bfs_facts Gc hG hx
    obtain ⟨y, hy, hyn⟩ := pick_some Gc (G.bfs Gc x).2 F.size (by omega)
    unfold ppn
    rw [hy]
    simp only
    by_cases hgt : rdI (G.bfs Gc x).2 y > delta
    · rw [if_pos hgt]
      apply ih y _ hyn
      have := F.below y
      have h2 : rdI (G.bfs Gc x).2 y = rd (G.bfs Gc x).2 y := rfl
      omega
    · rw [if_neg hgt]
      exact ⟨x, hx, rfl⟩

/-! ### `symmetric_rcm` -/

/-- **RCM returns a permutation**: for every CSR graph with a symmetric pattern (connected or not,
self loops and repeated entries allowed) and every start node `x0 < n` the model of `symmetric_rcm`
returns (no refusal, no exhausted fuel) an index vector `p` that is a permutation of `0 … n-1`; the
result `A[p, :][:, p]` is therefore a symmetric permutation of the input. -/
theorem rcm_total (Gc : G.Graph) (hG : GraphOK (pg Gc)) {x0 : Nat} (hx : x0 < Gc.n) :
    ∃ q : List Nat, rcmPerm Gc x0 = some (q.map (Int.ofNat ·)) ∧ q.Perm (List.range Gc.n) := by
  unfold rcmPerm
  rw [if_neg (by omega)]
  obtain ⟨x', hx', hp⟩ := ppn_spec Gc hG (Gc.n + 3) x0 0 hx (by omega)
  rw [hp]
  simp only
  have F := bfs_facts Gc hG hx'
  rw [F.pre]
  have hC : C Gc (bfsOrd Gc x') ((List.range Gc.n).map (fun v => decide (0 ≤ rdI (G.bfs Gc x').2 v))).toArray := by
    refine ⟨by simp, F.nodup, ?_, bfs_closed Gc hG hx'⟩
    intro v
    rw [getD_map_range]
    constructor
    · intro hv
      have h1 := F.lt v hv
      exact ⟨h1, by rw [if_pos h1]; exact decide_eq_true ((F.lev v h1).2 hv)⟩
    · rintro ⟨h1, h2⟩
      rw [if_pos h1] at h2
      exact (F.lev v h1).1 (of_decide_eq_true h2)
  obtain ⟨q, hq, hperm⟩ := compLoop_spec Gc hG (Gc.n + 1) _ _ hC (by omega)
  rw [hq]
  refine ⟨q.reverse, by simp, (List.reverse_perm q).trans hperm⟩

end PyamgV.Rcm
