import PyamgV.Proofs.C02Model

/-! PyamgV (C02): soundness of the cheap exact checkers of the driver with respect to the semantic
hypotheses of `model_cycle_nonexp` (the matrix-level checkers -- symmetry, Galerkin, transposes,
positive pivots -- are not proved sound). -/
namespace PyamgV

variable {R : Type} [Field R] [LinearOrder R] [IsStrictOrderedRing R] [DecidableEq R]

/-- `uniqueDiag` decides the `HasDiag` hypothesis: every row has exactly one stored diagonal entry -/
theorem uniqueDiag_sound (A : K.Csr R) (h : C02.uniqueDiag A = true) :
    ∃ diag : Nat → R, ∀ i, i < A.n → HasDiag i (rowOf A i) (diag i) := by
  refine ⟨fun i => (((rowOf A i).filter (fun cv => cv.1 = i)).map (·.2)).sum, ?_⟩
  intro i hi
  unfold C02.uniqueDiag at h
  rw [List.all_eq_true] at h
  have hlen := h i (by simpa using hi)
  simp only [decide_eq_true_eq] at hlen
  unfold HasDiag
  have hf : ((rowOf A i).filter (fun cv => cv.1 = i)) =
      ((A.jjs i).filter (fun jj => K.rdN A.aj jj = i)).map (fun jj => (K.rdN A.aj jj, K.rd A.ax jj)) := by
    unfold rowOf
    rw [List.filter_map]
    rfl
  obtain ⟨jj, hjj⟩ := List.length_eq_one_iff.1 hlen
  simp only [hf, hjj, List.map_cons, List.map_nil, List.sum_cons, List.sum_nil, add_zero]

/-- the Gauss-Seidel / SOR part of `Sm.admissible` decides `smOK` -/
theorem admissible_gs_sound (Ad : C02.Dense R) (n : Nat) (ω : R) (sw : K.Sweep) (it : Nat) (A : K.Csr R)
    (diag : Nat → R) (h : (C02.Sm.gs ω sw it).admissible Ad n = true) : smOK (C02.Sm.gs ω sw it) A diag := by
  simp only [C02.Sm.admissible, Bool.and_eq_true, decide_eq_true_eq] at h
  refine ⟨h.1, ?_⟩
  have : (1 : R) + 1 = 2 := by norm_num
  rw [← this]; exact h.2

end PyamgV
