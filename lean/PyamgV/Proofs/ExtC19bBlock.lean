import PyamgV.Proofs.ExtC19bPinv

/-! PyamgV (C19, extension E26): `get_block_diag(inv_flag=True)` and `scale_block_inverse`, every input.

With `pinv_total` the models `blockDiagInv` / `scaleBlockInverse` never fail:
* `blockDiagInv_total`: the result lists, for every diagonal block `B_k` of `A`, the matrix `X_k` that
  `Mat.pinv` returns, `X_k` passes the four Penrose equations for `B_k` and is the only `bs x bs`
  matrix doing so (the Moore-Penrose inverse of the block);
* `pinv_of_inverse`: for a regular block it is the inverse;
* `scaleBlockInverse_spec`: the result is `(D A, D)` with `D` the block-diagonal matrix of the `X_k`. -/
namespace PyamgV.C19
set_option linter.unusedSectionVars false
open Matrix

variable {K : Type} [Field K] [DecidableEq K]

/-- `mapM` of an `Option`-valued function that succeeds on every element -/
theorem mapM_option_total {α β : Type} (f : α → Option β) (d : β) :
    ∀ (l : List α) (Q : Nat → β → Prop),
      (∀ k (hk : k < l.length), ∃ y, f l[k] = some y ∧ Q k y) →
      ∃ ys, l.mapM f = some ys ∧ ys.length = l.length ∧ ∀ k, k < l.length → Q k (ys.getD k d) := by
  intro l
  induction l with
  | nil => intro Q _; exact ⟨[], rfl, rfl, fun k hk => absurd hk (Nat.not_lt_zero k)⟩
  | cons a l ih =>
    intro Q h
    obtain ⟨y, hy, hQ⟩ := h 0 (Nat.zero_lt_succ _)
    obtain ⟨ys, hys, hlen, hall⟩ := ih (fun k => Q (k + 1)) (fun k hk => by
      have := h (k + 1) (Nat.succ_lt_succ hk)
      simpa using this)
    refine ⟨y :: ys, ?_, by simp [hlen], ?_⟩
    · rw [List.mapM_cons]
      simp at hy
      simp [hy, hys]
    · intro k hk
      cases k with
      | zero => simpa using hQ
      | succ k => simpa using hall k (by simpa using hk)

/-- diagonal block `k` of `A` (block size `bs`), as `blockDiag` builds it -/
def diagBlock (bs : Nat) (A : Mat K) (k : Nat) : Mat K :=
  Mat.ofFn bs bs fun a b => A.get (k * bs + a) (k * bs + b)

theorem blockDiag_length (bs : Nat) (A : Mat K) : (blockDiag bs A).length = A.rows / bs := by
  simp [blockDiag]

theorem blockDiag_getElem (bs : Nat) (A : Mat K) (k : Nat) (hk : k < (blockDiag bs A).length) :
    (blockDiag bs A)[k] = diagBlock bs A k := by
  simp [blockDiag, diagBlock]

/-- **`get_block_diag(A, bs, inv_flag=True)`, model, every input**: it never fails; entry `k` of the
result is what `Mat.pinv` returns for the diagonal block `k`, it satisfies the four Penrose equations
for that block (decided on the executable product) and is the unique `bs x bs` matrix doing so -/
theorem blockDiagInv_total (conj : K → K) (hc : IsConj conj) (bs : Nat) (hbs : 0 < bs) (A : Mat K) :
    ∃ bl, blockDiagInv conj bs A = some bl ∧ bl.length = A.rows / bs ∧
      ∀ k, k < A.rows / bs →
        Mat.pinv conj (diagBlock bs A k) = some (bl.getD k #[]) ∧
        Mat.isPenrose conj (diagBlock bs A k) (bl.getD k #[]) = true ∧
        Shaped bs bs (bl.getD k #[]) ∧
        ∀ Y, Shaped bs bs Y → Mat.isPenrose conj (diagBlock bs A k) Y = true → Y = bl.getD k #[] := by
  unfold blockDiagInv
  obtain ⟨ys, h1, h2, h3⟩ := mapM_option_total (Mat.pinv conj) (#[] : Mat K) (blockDiag bs A)
    (fun k X => Mat.pinv conj (diagBlock bs A k) = some X ∧
        Mat.isPenrose conj (diagBlock bs A k) X = true ∧ Shaped bs bs X ∧
        ∀ Y, Shaped bs bs Y → Mat.isPenrose conj (diagBlock bs A k) Y = true → Y = X)
    (fun k hk => by
      rw [blockDiag_getElem bs A k hk]
      obtain ⟨X, e1, e2, e3, e4⟩ := pinv_total conj hc bs bs (diagBlock bs A k) (Mat.ofFn_shaped _ _ _) hbs hbs
      exact ⟨X, e1, e1, e2, e3, e4⟩)
  rw [blockDiag_length] at h2 h3
  exact ⟨ys, h1, h2, h3⟩

/-- for a regular matrix the model pseudo-inverse is the inverse -/
theorem pinv_of_inverse (conj : K → K) (hc : IsConj conj) (n : Nat) (hn : 0 < n) (A Y : Mat K)
    (hA : Shaped n n A) (hY : Shaped n n Y) (h : toMx n n A * toMx n n Y = 1) :
    Mat.pinv conj A = some Y := by
  let _ := hc.starRing
  obtain ⟨X, h1, _, _, h4⟩ := pinv_total conj hc n n A hA hn hn
  have hp : IsPenrose (toMx n n A) (toMx n n Y) := penrose_of_inverse _ _ h (mul_eq_one_comm.mp h)
  have := h4 Y hY ((isPenrose_toMx n n A Y hA hY hn hn).mpr hp)
  rw [this]
  exact h1

/-- **`scale_block_inverse`, model, every square input**: never fails; returns `(D A, D)` where `D` is
block diagonal with diagonal blocks the entries of `blockDiagInv` (the Moore-Penrose inverses of the
diagonal blocks of `A`, by `blockDiagInv_total`) and `D A` is the matrix product -/
theorem scaleBlockInverse_spec (conj : K → K) (hc : IsConj conj) (bs : Nat) (hbs : 0 < bs) (n : Nat)
    (hn : 0 < n) (A : Mat K) (hA : Shaped n n A) :
    ∃ bl DA D, blockDiagInv conj bs A = some bl ∧ scaleBlockInverse conj bs A = some (DA, D) ∧
      Shaped n n D ∧ Shaped n n DA ∧
      (∀ i j, i < n → j < n → D.get i j =
        if i / bs = j / bs then (bl.getD (i / bs) #[]).get (i % bs) (j % bs) else 0) ∧
      toMx n n DA = toMx n n D * toMx n n A := by
  obtain ⟨bl, hbl, _, _⟩ := blockDiagInv_total conj hc bs hbs A
  have hrows : A.rows = n := hA.rows_eq
  have hD : Shaped n n (Mat.ofFn n n fun i j =>
      if i / bs = j / bs then (bl.getD (i / bs) #[]).get (i % bs) (j % bs) else (0 : K)) := Mat.ofFn_shaped _ _ _
  obtain ⟨s1, e1⟩ := Mat.mul_spec n n n _ A hD hA hn hn
  refine ⟨bl, _, _, hbl, ?_, hD, s1, fun i j hi hj => Mat.ofFn_get _ _ _ i j hi hj, e1⟩
  unfold scaleBlockInverse
  rw [hbl, hrows]
  rfl

#print axioms blockDiagInv_total
#print axioms pinv_of_inverse
#print axioms scaleBlockInverse_spec

end PyamgV.C19
