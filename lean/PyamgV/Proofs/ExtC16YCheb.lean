import PyamgV.Proofs.ExtC16Relax
import PyamgV.Proofs.ExtSmoothers

/-! PyamgV (C16, extension E51): **energy clause for `chebyshev`** as relaxation-type coarse solver.

`relaxSolveR "chebyshev"` is `iterations` steps of `relaxation.polynomial` with the recorded coefficients
(`relaxSolveR_chebyshev`, `polyStep_refines`), i.e. `x ← x + p(A)(b − A x)`.  Under the spectral condition
`|1 − λ p(λ)| ≤ 1` on the spectrum of `A` (E22 `polynomial_nonexp_of_spectrum`; evaluated per instance by the check)
the energy norm of the error does not increase.

The C16 statements live on `ℕ → R` with the form `euc R n` that only sees the first `n` coordinates, so the eigenvectors
can only span modulo vectors vanishing on `[0, n)`: `polynomial_nonexp_of_spectrum_rad` is the E22 theorem with the span
hypothesis taken modulo the radical of the form. -/
set_option linter.unusedSectionVars false
set_option linter.unusedVariables false
namespace PyamgV.C16Y
open PyamgV PyamgV.K PyamgV.C16 PyamgV.C16R Finset

section Abstract
variable {K : Type*} [Field K] [LinearOrder K] [IsStrictOrderedRing K]
variable {V : Type*} [AddCommGroup V] [Module K V]
variable {ι : Type*} [Fintype ι] [DecidableEq ι]

/-- a self-adjoint operator does not see the radical of the form: `e(T (s + t), s + t) = e(T s, s)` -/
theorem quad_mod_rad (e : EForm K V) (T : V →ₗ[K] V) (hT : IsAdj e e T T) (s t : V) (ht : ∀ w, e.a t w = 0) :
    e.a (T (s + t)) (s + t) = e.a (T s) s := by
  have h1 : e.a (T s) t = 0 := by rw [e.symm]; exact ht _
  have h2 : e.a (T t) s = 0 := by rw [hT t s]; exact ht _
  have h3 : e.a (T t) t = 0 := by rw [e.symm]; exact ht _
  simp only [map_add, LinearMap.add_apply, h1, h2, h3]; ring

/-- **`polynomial` (Chebyshev, Richardson) under `|1 − λ p(λ)| ≤ 1` on the spectrum**, the eigenvectors spanning the
space modulo the radical of the form `e` (for `euc R n` on `ℕ → R`: modulo the coordinates `≥ n`) -/
theorem polynomial_nonexp_of_spectrum_rad (e : EForm K V) (A : V →ₗ[K] V) (hs : IsAdj e e A A)
    (hp : ∀ v, 0 ≤ e.a (A v) v) (c0 : K) (cs : List K) (lam : ι → K) (u : ι → V)
    (heig : ∀ i, A (u i) = lam i • u i) (horth : ∀ i j, i ≠ j → e.a (u i) (u j) = 0)
    (hspan : ∀ v, ∃ c : ι → K, ∃ t, v = (∑ i, c i • u i) + t ∧ ∀ w, e.a t w = 0)
    (hbound : ∀ i, |1 - lam i * polyScalar c0 cs (lam i)| ≤ 1) :
    NonExp (e.ofOp A hs hp) A (polyFn A c0 cs) := by
  set P := polyOp A c0 cs with hP
  set Bop : V →ₗ[K] V := A ∘ₗ P ∘ₗ A with hB
  have hPadj : IsAdj e e P P := polyOp_adj e A hs c0 cs
  have hBadj : IsAdj e e Bop Bop := by
    intro a b
    show e.a (A (P (A a))) b = e.a a (A (P (A b)))
    rw [hs (P (A a)) b, hPadj (A a) (A b), hs a (P (A b))]
  have heigB : ∀ i, Bop (u i) = (lam i * polyScalar c0 cs (lam i) * lam i) • u i := by
    intro i
    show A (P (A (u i))) = _
    rw [heig i, map_smul, polyOp_eigen A c0 cs (u i) (lam i) (heig i), map_smul, map_smul, heig i, smul_smul, smul_smul]
  have hq : ∀ i, 0 ≤ lam i * polyScalar c0 cs (lam i) ∧ lam i * polyScalar c0 cs (lam i) ≤ 2 := by
    intro i
    have := abs_le.1 (hbound i)
    constructor <;> linarith [this.1, this.2]
  have hw : ∀ i, 0 ≤ lam i * e.a (u i) (u i) := by
    intro i
    have := hp (u i); rw [heig, map_smul, LinearMap.smul_apply, smul_eq_mul] at this; exact this
  apply polynomial_nonexp e A hs hp c0 cs
  · intro v
    obtain ⟨c, t, hv, ht⟩ := hspan v
    show 0 ≤ e.a (Bop v) v
    rw [hv, quad_mod_rad e Bop hBadj _ t ht, eigen_energy e Bop _ u heigB horth c]
    apply Finset.sum_nonneg
    intro i _
    have : lam i * polyScalar c0 cs (lam i) * lam i * e.a (u i) (u i) =
        (lam i * polyScalar c0 cs (lam i)) * (lam i * e.a (u i) (u i)) := by ring
    rw [this]
    exact mul_nonneg (mul_self_nonneg _) (mul_nonneg (hq i).1 (hw i))
  · intro v
    obtain ⟨c, t, hv, ht⟩ := hspan v
    show e.a (Bop v) v ≤ 2 * e.a (A v) v
    rw [hv, quad_mod_rad e Bop hBadj _ t ht, quad_mod_rad e A hs _ t ht, eigen_energy e Bop _ u heigB horth c,
      eigen_energy e A lam u heig horth c, Finset.mul_sum]
    apply Finset.sum_le_sum
    intro i _
    have hcc : 0 ≤ c i * c i := mul_self_nonneg _
    have h1 : c i * c i * (lam i * polyScalar c0 cs (lam i) * lam i * e.a (u i) (u i)) =
        (lam i * polyScalar c0 cs (lam i)) * (c i * c i * (lam i * e.a (u i) (u i))) := by ring
    rw [h1]
    have hnn : 0 ≤ c i * c i * (lam i * e.a (u i) (u i)) := mul_nonneg hcc (hw i)
    nlinarith [(hq i).2]

end Abstract

variable {R : Type} [Field R] [LinearOrder R] [IsStrictOrderedRing R] [DecidableEq R]

/-- one step of the model's `relaxation.polynomial` is the function-level `polyFn` of E22 -/
theorem polyStep_is_polyFn (A : Csr R) (b : Array R) (hb : b.size = A.n) (c0 : R) (cs : List R)
    (x : Array R) (hx : x.size = A.n) :
    (C16R.polyStep A b (c0 :: cs) x).size = A.n ∧
    fn (C16R.polyStep A b (c0 :: cs) x) = polyFn (csrOp A.n (rowOf A)) c0 cs (fn x) (fn b) := by
  obtain ⟨s, f⟩ := polyStep_refines A b hb (c0 :: cs) (by simp) x hx
  refine ⟨s, ?_⟩
  rw [f, polynomial_isLinIter (csrOp A.n (rowOf A)) c0 cs (fn x) (fn b)]
  congr 1
  exact polyHorner_eq (csrOp A.n (rowOf A)) c0 cs _

/-- **energy clause, chebyshev** (`('chebyshev', {degree, lower_bound, upper_bound, iterations})`): with
`c0 :: cs = -coefficients[:-1]` the recorded polynomial `p`, on a symmetric positive semidefinite matrix with eigenpairs
`(lam i, u i)` (Euclidean-orthogonal, spanning the first `A.n` coordinates) such that `|1 − λ p(λ)| ≤ 1` for every
eigenvalue, the result `x` from the zero guess satisfies `‖x* − x‖_A ≤ ‖x*‖_A` -/
theorem relax_chebyshev_energy {ι : Type} [Fintype ι] [DecidableEq ι]
    (conj : R → R) (o : Opts R) (ri : Rec R) (A : Csr R)
    (hs : o.sweep = none) (hr : o.withrho = none) (ho : o.omega = none)
    (c0 : R) (cs : List R) (hc : chebCoeffs ri.cheb = c0 :: cs) (b : Array R) (hb : b.size = A.n)
    (hsym : ∀ u v, (euc R A.n).a (csrOp A.n (rowOf A) u) v = (euc R A.n).a u (csrOp A.n (rowOf A) v))
    (hpsd : ∀ v, 0 ≤ (euc R A.n).a (csrOp A.n (rowOf A) v) v)
    (lam : ι → R) (u : ι → Nat → R) (heig : ∀ i, csrOp A.n (rowOf A) (u i) = lam i • u i)
    (horth : ∀ i j, i ≠ j → (euc R A.n).a (u i) (u j) = 0)
    (hspan : ∀ v : Nat → R, ∃ c : ι → R, ∀ p, p < A.n → v p = (∑ i, c i • u i) p)
    (hbound : ∀ i, |1 - lam i * polyScalar c0 cs (lam i)| ≤ 1)
    (xs : Nat → R) (hxs : csrOp A.n (rowOf A) xs = fn b) :
    ∃ x, relaxSolveR conj "chebyshev" o ri A b = .ok x ∧ x.size = b.size ∧
      (energy A.n (rowOf A) hsym hpsd).en (xs - fn x) ≤ (energy A.n (rowOf A) hsym hpsd).en xs := by
  have hsolve := relaxSolveR_chebyshev conj o ri A b hb hs hr ho (by rw [hc]; simp)
  rw [hc] at hsolve
  refine ⟨_, hsolve, ?_⟩
  have hk := kiter_refines (C16R.polyStep A b (c0 :: cs)) (polyFn (csrOp A.n (rowOf A)) c0 cs) (fn b) A.n
    (fun x hx => polyStep_is_polyFn A b hb c0 cs x hx) (o.iterations.getD 10) (x0 b) (by simp [hb])
  refine ⟨by rw [hk.1, hb], ?_⟩
  rw [hk.2, fn_x0]
  have hspan' : ∀ v : Nat → R, ∃ c : ι → R, ∃ t, v = (∑ i, c i • u i) + t ∧ ∀ w, (euc R A.n).a t w = 0 := by
    intro v
    obtain ⟨c, hcv⟩ := hspan v
    refine ⟨c, v - ∑ i, c i • u i, by abel, ?_⟩
    intro w
    rw [euc_apply]
    apply Finset.sum_eq_zero
    intro p hp'
    rw [Pi.sub_apply, hcv p (mem_range.1 hp')]; ring
  have := (polynomial_nonexp_of_spectrum_rad (euc R A.n) (csrOp A.n (rowOf A)) hsym hpsd c0 cs lam u heig horth
    hspan' hbound).iter (o.iterations.getD 10) 0 (fn b) xs hxs
  rw [sub_zero] at this
  exact this

end PyamgV.C16Y
