import Mathlib.Algebra.BigOperators.Group.List.Basic
import Mathlib.Tactic.Push
import PyamgV.Proofs.C20ElasticPsd
import PyamgV.Model.C20Read

/-! PyamgV (C20): the assembled Q1 operator. The matrix denoted by a list of triples (duplicates add)
is described by `entry`, `rowdot` (one component of `A v`) and `qform` (`xᵀ A x`). -/
namespace PyamgV.C20

theorem sum_map_zero' {α : Type} (l : List α) : (l.map fun _ => (0 : Rat)).sum = 0 := by
  induction l with
  | nil => rfl
  | cons a l ih => simp [ih]

theorem sum_flatMap' {α β : Type} (l : List α) (f : α → List β) (g : β → Rat) :
    ((l.flatMap f).map g).sum = (l.map fun e => ((f e).map g).sum).sum := by
  induction l with
  | nil => rfl
  | cons a l ih => simp [List.flatMap_cons, ih]

theorem sum_swap {α β : Type} (l1 : List α) (l2 : List β) (f : α → β → Rat) :
    (l1.map fun a => (l2.map fun b => f a b).sum).sum = (l2.map fun b => (l1.map fun a => f a b).sum).sum := by
  induction l1 with
  | nil => simp [sum_map_zero']
  | cons a l ih => simp only [List.map_cons, List.sum_cons, ih, List.sum_map_add]

theorem sum_ite_const {α : Type} (l : List α) (c : Prop) [Decidable c] (f : α → Rat) :
    (l.map fun a => if c then f a else 0).sum = if c then (l.map f).sum else 0 := by
  by_cases h : c <;> simp [h, sum_map_zero']

theorem sum_elem (X : Nat) (K : Nat → Nat → Rat) (base : Nat) (g : Triple → Rat) :
    ((elemTriples X K base).map g).sum =
      ((List.range 8).map fun a => ((List.range 8).map fun b => g (base + off X b, base + off X a, K a b)).sum).sum := by
  unfold elemTriples
  rw [sum_flatMap']
  simp [List.map_map, Function.comp_def]

theorem node_mod (X j i : Nat) (h : i ≤ X) : (j * (X + 1) + i) % (X + 1) = i := by
  rw [Nat.mul_comm, Nat.mul_add_mod]; exact Nat.mod_eq_of_lt (by omega)

theorem node_div (X j i : Nat) (h : i ≤ X) : (j * (X + 1) + i) / (X + 1) = j := by
  rw [Nat.mul_comm, Nat.mul_add_div (by omega)]; rw [Nat.div_eq_of_lt (by omega)]; rfl

theorem mode_at (X Y : Nat) (DX DY : Rat) (m t ii jj : Nat) (hii : ii ≤ X) (htn : t / 2 = jj * (X + 1) + ii) :
    mode X Y DX DY m t =
      if t % 2 = 0 then pick3 m 1 0 (-(((jj : Rat) - (Y : Rat) / 2) * DY))
      else pick3 m 0 1 (((ii : Rat) - (X : Rat) / 2) * DX) := by
  unfold mode ptx pty
  rw [htn, node_mod _ _ _ hii, node_div _ _ _ hii]

/-- the global rigid-body field restricted to the dofs of element `(i, j)` is the local field -/
theorem mode_local (X Y : Nat) (DX DY : Rat) (i j : Nat) (hi : i < X) (m a : Nat) (ha : a < 8) :
    mode X Y DX DY m (2 * (j * (X + 1) + i) + off X a) =
      vloc DX DY (((i : Rat) - (X : Rat) / 2) * DX) (((j : Rat) - (Y : Rat) / 2) * DY) m a := by
  have e : (j + 1) * (X + 1) = j * (X + 1) + X + 1 := by ring
  interval_cases a
  · rw [mode_at X Y DX DY m _ i j (by omega) (by simp only [off, offs, List.getD_cons_zero]; omega)]
    have h1 : (2 * (j * (X + 1) + i) + off X 0) % 2 = 0 := by simp only [off, offs, List.getD_cons_zero]; omega
    rcases m with _ | _ | m <;> simp [h1, vloc, pick3, dxn, dyn]
  · rw [mode_at X Y DX DY m _ i j (by omega) (by simp only [off, offs, List.getD_cons_succ, List.getD_cons_zero]; omega)]
    have h1 : (2 * (j * (X + 1) + i) + off X 1) % 2 = 1 := by simp only [off, offs, List.getD_cons_succ, List.getD_cons_zero]; omega
    rcases m with _ | _ | m <;> simp [h1, vloc, pick3, dxn, dyn]
  · rw [mode_at X Y DX DY m _ (i + 1) j (by omega) (by simp only [off, offs, List.getD_cons_succ, List.getD_cons_zero]; omega)]
    have h1 : (2 * (j * (X + 1) + i) + off X 2) % 2 = 0 := by simp only [off, offs, List.getD_cons_succ, List.getD_cons_zero]; omega
    rcases m with _ | _ | m <;> simp [h1, vloc, pick3, dxn, dyn]
  · rw [mode_at X Y DX DY m _ (i + 1) j (by omega) (by simp only [off, offs, List.getD_cons_succ, List.getD_cons_zero]; omega)]
    have h1 : (2 * (j * (X + 1) + i) + off X 3) % 2 = 1 := by simp only [off, offs, List.getD_cons_succ, List.getD_cons_zero]; omega
    rcases m with _ | _ | m <;> simp [h1, vloc, pick3, dxn, dyn] <;> ring
  · rw [mode_at X Y DX DY m _ (i + 1) (j + 1) (by omega) (by simp only [off, offs, List.getD_cons_succ, List.getD_cons_zero]; omega)]
    have h1 : (2 * (j * (X + 1) + i) + off X 4) % 2 = 0 := by simp only [off, offs, List.getD_cons_succ, List.getD_cons_zero]; omega
    rcases m with _ | _ | m <;> simp [h1, vloc, pick3, dxn, dyn] <;> ring
  · rw [mode_at X Y DX DY m _ (i + 1) (j + 1) (by omega) (by simp only [off, offs, List.getD_cons_succ, List.getD_cons_zero]; omega)]
    have h1 : (2 * (j * (X + 1) + i) + off X 5) % 2 = 1 := by simp only [off, offs, List.getD_cons_succ, List.getD_cons_zero]; omega
    rcases m with _ | _ | m <;> simp [h1, vloc, pick3, dxn, dyn] <;> ring
  · rw [mode_at X Y DX DY m _ i (j + 1) (by omega) (by simp only [off, offs, List.getD_cons_succ, List.getD_cons_zero]; omega)]
    have h1 : (2 * (j * (X + 1) + i) + off X 6) % 2 = 0 := by simp only [off, offs, List.getD_cons_succ, List.getD_cons_zero]; omega
    rcases m with _ | _ | m <;> simp [h1, vloc, pick3, dxn, dyn] <;> ring
  · rw [mode_at X Y DX DY m _ i (j + 1) (by omega) (by simp only [off, offs, List.getD_cons_succ, List.getD_cons_zero]; omega)]
    have h1 : (2 * (j * (X + 1) + i) + off X 7) % 2 = 1 := by simp only [off, offs, List.getD_cons_succ, List.getD_cons_zero]; omega
    rcases m with _ | _ | m <;> simp [h1, vloc, pick3, dxn, dyn]

theorem mem_elems (X Y base : Nat) (h : base ∈ elems X Y) :
    ∃ j i, j < Y ∧ i < X ∧ base = 2 * (j * (X + 1) + i) := by
  unfold elems at h
  simp only [List.mem_flatMap, List.mem_map, List.mem_range] at h
  obtain ⟨j, hj, i, hi, rfl⟩ := h
  exact ⟨j, i, hj, hi, rfl⟩

theorem sum_map_eq_zero {α : Type} (l : List α) (f : α → Rat) (h : ∀ e ∈ l, f e = 0) : (l.map f).sum = 0 := by
  induction l with
  | nil => rfl
  | cons a l ih =>
    simp only [List.map_cons, List.sum_cons]
    rw [h a (by simp), ih (fun e he => h e (by simp [he]))]; simp

/-- one element's contribution to `(A v)_r` vanishes for a rigid-body field `v` -/
theorem elem_rowdot_mode (X Y : Nat) (DX DY lame mu : Rat) (hDX : DX ≠ 0) (hDY : DY ≠ 0) (m : Nat) (hm : m < 3)
    (r i j : Nat) (hi : i < X) :
    ((elemTriples X (kloc (M2.inv ⟨DX, 0, 0, DY⟩) lame mu) (2 * (j * (X + 1) + i))).map
      fun t => if t.1 = r then t.2.2 * mode X Y DX DY m t.2.1 else 0).sum = 0 := by
  rw [sum_elem, sum_swap]
  apply sum_map_eq_zero
  intro b hb
  simp only
  rw [sum_ite_const]
  split
  · have hcongr : (List.range 8).map (fun a => kloc (M2.inv ⟨DX, 0, 0, DY⟩) lame mu a b *
          mode X Y DX DY m (2 * (j * (X + 1) + i) + off X a)) =
        (List.range 8).map (fun a => kloc (M2.inv ⟨DX, 0, 0, DY⟩) lame mu a b *
          vloc DX DY (((i : Rat) - (X : Rat) / 2) * DX) (((j : Rat) - (Y : Rat) / 2) * DY) m a) := by
      apply List.map_congr_left
      intro a ha
      rw [mode_local X Y DX DY i j hi m a (List.mem_range.1 ha)]
    rw [hcongr]
    exact kloc_rigid DX DY lame mu _ _ hDX hDY m b hm (List.mem_range.1 hb)
  · rfl

/-- **rigid-body modes lie in the nullspace of the unconstrained operator**: every component of
`A_free · B[:, m]` vanishes, for every grid shape, spacing and pair of Lame parameters -/
theorem assemble_rigid (X Y : Nat) (DX DY lame mu : Rat) (hDX : DX ≠ 0) (hDY : DY ≠ 0) (m : Nat) (hm : m < 3) (r : Nat) :
    rowdot (assemble X Y (kloc (M2.inv ⟨DX, 0, 0, DY⟩) lame mu)) (mode X Y DX DY m) r = 0 := by
  unfold rowdot assemble
  rw [sum_flatMap']
  apply sum_map_eq_zero
  intro base hbase
  obtain ⟨j, i, _, hi, rfl⟩ := mem_elems X Y base hbase
  exact elem_rowdot_mode X Y DX DY lame mu hDX hDY m hm r i j hi

/-- **the assembled operator is symmetric** whenever the element matrix is -/
theorem assemble_symm (X Y : Nat) (K : Nat → Nat → Rat) (hK : ∀ a b, a < 8 → b < 8 → K a b = K b a) (r c : Nat) :
    entry (assemble X Y K) r c = entry (assemble X Y K) c r := by
  unfold entry assemble
  rw [sum_flatMap', sum_flatMap']
  congr 1
  apply List.map_congr_left
  intro base _
  rw [sum_elem, sum_elem]
  conv_rhs => rw [sum_swap]
  congr 1
  apply List.map_congr_left
  intro a ha
  congr 1
  apply List.map_congr_left
  intro b hb
  simp only
  rw [hK a b (List.mem_range.1 ha) (List.mem_range.1 hb)]
  by_cases h : base + off X b = r ∧ base + off X a = c
  · rw [if_pos h, if_pos ⟨h.2, h.1⟩]
  · rw [if_neg h, if_neg (fun h' => h ⟨h'.2, h'.1⟩)]

/-- **the assembled operator is positive semi-definite** whenever the element matrix is -/
theorem assemble_psd (X Y : Nat) (K : Nat → Nat → Rat)
    (hK : ∀ y : Nat → Rat, 0 ≤ ((List.range 8).map fun a => ((List.range 8).map fun b => y b * K a b * y a).sum).sum)
    (x : Nat → Rat) : 0 ≤ qform (assemble X Y K) x := by
  unfold qform assemble
  rw [sum_flatMap']
  apply sum_map_nonneg
  intro base _
  rw [sum_elem]
  exact hK (fun a => x (base + off X a))

end PyamgV.C20
