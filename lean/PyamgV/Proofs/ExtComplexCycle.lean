import PyamgV.Proofs.ExtComplex
import PyamgV.Proofs.C02Thm
import PyamgV.Proofs.Pd

/-! PyamgV (extension E5, properties C05/C02): the cycle theorems for **complex Hermitian** hierarchies,
obtained from the real theorems `Mop_sym`, `cyc_isLinIter`, `cycle_nonexp_of_galerkin`, `precond_psd`
through the realification bridge of `Proofs/ExtComplex.lean`.

* `Mop_isCLin`   : the cycle operator of a hierarchy of C-linear pieces is C-linear (V, W, F(k)).
* `Mop_herm`     : C-linear pieces, `A_l = A_lᴴ`, `Qpost_l = Qpre_lᴴ`, `R_l = P_lᴴ`, Hermitian coarsest solve
                   ⇒ `⟨M u, v⟩ = ⟨u, M v⟩` (as complex numbers) for the V- and the W-cycle operator `M = Mop`.
* `Mop_herm_parts` : the same with every operator given by its real and imaginary part; the conclusion is
                   `M = cx Mr Mi` with `Mr` symmetric and `Mi` antisymmetric.
* `ccycle_nonexp` : Hermitian PSD `A`, `R = Pᴴ`, Galerkin coarse operators, smoothers non-expansive in the
                   complex energy norm `⟨e, A e⟩`, exact coarsest solve ⇒ every V/W/F(k)-cycle is
                   non-expansive in the complex energy norm.
* `cprecond_psd` : `⟨M r, r⟩ ≥ 0` (and real) on the range of `A` for a non-expansive Hermitian cycle. -/
set_option linter.unusedSectionVars false
namespace PyamgV

variable {K : Type*} [Field K] [LinearOrder K] [IsStrictOrderedRing K]
variable {V : Type*} [AddCommGroup V] [Module K V]

/-! ### the cycle operator is C-linear -/

/-- every linear piece of the hierarchy commutes with multiplication by `i` -/
def CLinH (S : (V × V) →ₗ[K] (V × V)) (Ls : List (LinLevel K (V × V))) : Prop :=
  IsCLin S ∧ ∀ L ∈ Ls, IsCLin L.A ∧ IsCLin L.P ∧ IsCLin L.R ∧ IsCLin L.Qpre ∧ IsCLin L.Qpost

theorem Mop_isCLin (S : (V × V) →ₗ[K] (V × V)) :
    ∀ (Ls : List (LinLevel K (V × V))), CLinH S Ls → ∀ c, IsCLin (Mop S c Ls) := by
  intro Ls
  induction Ls with
  | nil => intro h c; simpa [Mop] using h.1
  | cons L rest ih =>
    intro h c
    obtain ⟨hS, hL⟩ := h
    obtain ⟨hA, hP, hR, hQ, hQ'⟩ := hL L (by simp)
    have hrest : CLinH S rest := ⟨hS, fun L' hL' => hL L' (by simp [hL'])⟩
    have ihc := ih hrest
    have hAc : IsCLin (L.R ∘ₗ L.A ∘ₗ L.P) := hR.comp (hA.comp hP)
    have two : ∀ Mc : (V × V) →ₗ[K] (V × V), IsCLin Mc →
        IsCLin (compM L.A (compM L.A L.Qpre (L.P ∘ₗ Mc ∘ₗ L.R)) L.Qpost) :=
      fun Mc hMc => IsCLin.compM hA (IsCLin.compM hA hQ (hP.comp (hMc.comp hR))) hQ'
    cases rest with
    | nil => cases c <;> simpa [Mop] using two S hS
    | cons L' rest' =>
      cases c with
      | V => simpa [Mop] using two _ (ihc .V)
      | W => simpa [Mop] using two _ (IsCLin.compM hAc (ihc .W) (ihc .W))
      | F k => simpa [Mop] using two _ (IsCLin.iterM hAc (ihc .V) k _ (ihc (.F k)))

/-! ### Hermitian cycle operator -/

/-- complex well-formedness for the symmetry theorem: Hermitian level operators, post-smoother the
Hermitian adjoint of the pre-smoother, `R = Pᴴ`, Hermitian coarsest solve.  `e`, `es` are the real
Euclidean forms of the levels (`⟨u, v⟩ = Σ conj(uᵢ) vᵢ` is `cip e`). -/
def CWFS (S : (V × V) →ₗ[K] (V × V)) :
    EForm K V → List (EForm K V) → List (LinLevel K (V × V)) → Prop
  | e, _, [] => IsCAdj e e S S
  | e, ec :: es, L :: rest =>
      IsCAdj e e L.A L.A ∧ IsCAdj e e L.Qpre L.Qpost ∧ IsCAdj e ec L.P L.R ∧ CWFS S ec es rest
  | _, [], _ :: _ => False

theorem CWFS.toWFS (S : (V × V) →ₗ[K] (V × V)) :
    ∀ (Ls : List (LinLevel K (V × V))) (e : EForm K V) (es : List (EForm K V)),
      CWFS S e es Ls → WFS S e.realify (es.map EForm.realify) Ls := by
  intro Ls
  induction Ls with
  | nil =>
    intro e es h
    have h' : IsCAdj e e S S := by cases es <;> simpa [CWFS] using h
    cases es <;> simpa [WFS] using h'.isAdj
  | cons L rest ih =>
    intro e es h
    cases es with
    | nil => exact absurd h (by simp [CWFS])
    | cons ec es =>
      obtain ⟨hA, hQ, hP, hrest⟩ := h
      exact ⟨hA.isAdj, hQ.isAdj, hP.isAdj, ih ec es hrest⟩

/-- **C05 for complex Hermitian hierarchies**: the V- and the W-cycle operator is Hermitian,
`⟨M u, v⟩ = ⟨u, M v⟩` with the complex inner product. -/
theorem Mop_herm (S : (V × V) →ₗ[K] (V × V)) (Ls : List (LinLevel K (V × V))) (e : EForm K V)
    (es : List (EForm K V)) (hlin : CLinH S Ls) (h : CWFS S e es Ls) :
    IsCAdj e e (Mop S .V Ls) (Mop S .V Ls) ∧ IsCAdj e e (Mop S .W Ls) (Mop S .W Ls) := by
  have := Mop_sym S Ls e.realify (es.map EForm.realify) (CWFS.toWFS S Ls e es h)
  exact ⟨IsAdj.isCAdj (Mop_isCLin S Ls hlin .V) this.1, IsAdj.isCAdj (Mop_isCLin S Ls hlin .W) this.2⟩

/-- the recursion of `__solve` on such a hierarchy is `x ↦ x + M (b − A x)` with C-linear Hermitian `M` -/
theorem ccycle_preconditioner (S : (V × V) →ₗ[K] (V × V)) (Ls : List (LinLevel K (V × V)))
    (L : LinLevel K (V × V)) (e : EForm K V) (es : List (EForm K V))
    (hwf : WFL L.A (L :: Ls)) (hlin : CLinH S (L :: Ls)) (h : CWFS S e es (L :: Ls)) :
    (IsLinIter L.A (cyc (fun b => S b) .V ((L :: Ls).map (·.toLevel))) (Mop S .V (L :: Ls)) ∧
      IsCLin (Mop S .V (L :: Ls)) ∧ IsCAdj e e (Mop S .V (L :: Ls)) (Mop S .V (L :: Ls))) ∧
    (IsLinIter L.A (cyc (fun b => S b) .W ((L :: Ls).map (·.toLevel))) (Mop S .W (L :: Ls)) ∧
      IsCLin (Mop S .W (L :: Ls)) ∧ IsCAdj e e (Mop S .W (L :: Ls)) (Mop S .W (L :: Ls))) := by
  have hh := Mop_herm S (L :: Ls) e es hlin h
  exact ⟨⟨cyc_isLinIter S Ls .V L L.A hwf, Mop_isCLin S _ hlin .V, hh.1⟩,
         ⟨cyc_isLinIter S Ls .W L L.A hwf, Mop_isCLin S _ hlin .W, hh.2⟩⟩

/-! ### the same, every operator given by its real and imaginary part -/

/-- one level in parts: `A = Ar + i Ai`, `P`, `R`, pre-smoother operator `Q`, post-smoother operator `T` -/
structure CParts (K V : Type*) [Field K] [AddCommGroup V] [Module K V] where
  Ar : V →ₗ[K] V
  Ai : V →ₗ[K] V
  Pr : V →ₗ[K] V
  Pi : V →ₗ[K] V
  Rr : V →ₗ[K] V
  Ri : V →ₗ[K] V
  Qr : V →ₗ[K] V
  Qi : V →ₗ[K] V
  Tr : V →ₗ[K] V
  Ti : V →ₗ[K] V
  pre : V × V → V × V → V × V
  post : V × V → V × V → V × V

/-- the realified level -/
def CParts.toLin (L : CParts K V) : LinLevel K (V × V) :=
  { A := cx L.Ar L.Ai, P := cx L.Pr L.Pi, R := cx L.Rr L.Ri, pre := L.pre, post := L.post,
    Qpre := cx L.Qr L.Qi, Qpost := cx L.Tr L.Ti }

/-- symmetric real part, antisymmetric imaginary part -/
def HermParts (e : EForm K V) (Mr Mi : V →ₗ[K] V) : Prop :=
  IsAdj e e Mr Mr ∧ ∀ u v, e.a (Mi u) v = - e.a u (Mi v)

/-- `N = Mᴴ` in parts: `Nr = Mrᵀ`, `Ni = -Miᵀ` -/
def AdjParts (e₁ e₂ : EForm K V) (Mr Mi Nr Ni : V →ₗ[K] V) : Prop :=
  IsAdj e₁ e₂ Mr Nr ∧ ∀ u v, e₁.a (Mi u) v = - e₂.a u (Ni v)

def PWFS (Sr Si : V →ₗ[K] V) : EForm K V → List (EForm K V) → List (CParts K V) → Prop
  | e, _, [] => HermParts e Sr Si
  | e, ec :: es, L :: rest =>
      HermParts e L.Ar L.Ai ∧ AdjParts e e L.Qr L.Qi L.Tr L.Ti ∧ AdjParts e ec L.Pr L.Pi L.Rr L.Ri ∧
      PWFS Sr Si ec es rest
  | _, [], _ :: _ => False

theorem PWFS.toCWFS (Sr Si : V →ₗ[K] V) :
    ∀ (Ls : List (CParts K V)) (e : EForm K V) (es : List (EForm K V)),
      PWFS Sr Si e es Ls → CWFS (cx Sr Si) e es (Ls.map CParts.toLin) := by
  intro Ls
  induction Ls with
  | nil =>
    intro e es h
    have h' : HermParts e Sr Si := by cases es <;> simpa [PWFS] using h
    have := (isCAdj_cx_iff e e Sr Si Sr Si).2 h'
    cases es <;> simpa [CWFS] using this
  | cons L rest ih =>
    intro e es h
    cases es with
    | nil => exact absurd h (by simp [PWFS])
    | cons ec es =>
      obtain ⟨hA, hQ, hP, hrest⟩ := h
      exact ⟨(isCAdj_cx_iff e e _ _ _ _).2 hA, (isCAdj_cx_iff e e _ _ _ _).2 hQ,
             (isCAdj_cx_iff e ec _ _ _ _).2 hP, ih ec es hrest⟩

theorem CParts.clinH (Sr Si : V →ₗ[K] V) (Ls : List (CParts K V)) :
    CLinH (cx Sr Si) (Ls.map CParts.toLin) := by
  refine ⟨cx_isCLin _ _, ?_⟩
  intro L hL
  obtain ⟨L0, _, rfl⟩ := List.mem_map.1 hL
  exact ⟨cx_isCLin _ _, cx_isCLin _ _, cx_isCLin _ _, cx_isCLin _ _, cx_isCLin _ _⟩

/-- **C05, complex Hermitian, in real and imaginary parts**: level matrices with symmetric real and
antisymmetric imaginary part, `Tr = Qrᵀ`, `Ti = -Qiᵀ` (post-smoother = pre-smootherᴴ), `Rr = Prᵀ`,
`Ri = -Piᵀ` (`R = Pᴴ`), Hermitian coarsest solve ⇒ the V- and W-cycle operators are `Mr + i Mi` with
`Mr` symmetric and `Mi` antisymmetric. -/
theorem Mop_herm_parts (Sr Si : V →ₗ[K] V) (Ls : List (CParts K V)) (e : EForm K V)
    (es : List (EForm K V)) (h : PWFS Sr Si e es Ls) :
    (∃ Mr Mi, Mop (cx Sr Si) .V (Ls.map CParts.toLin) = cx Mr Mi ∧ HermParts e Mr Mi) ∧
    (∃ Mr Mi, Mop (cx Sr Si) .W (Ls.map CParts.toLin) = cx Mr Mi ∧ HermParts e Mr Mi) := by
  have hlin := CParts.clinH Sr Si Ls
  have hh := Mop_herm (cx Sr Si) _ e es hlin (PWFS.toCWFS Sr Si Ls e es h)
  constructor
  · obtain ⟨Mr, Mi, hM⟩ := (isCLin_iff_cx _).1 (Mop_isCLin _ _ hlin .V)
    refine ⟨Mr, Mi, hM, ?_⟩
    have := hh.1; rw [hM] at this
    exact (isCAdj_cx_iff e e Mr Mi Mr Mi).1 this
  · obtain ⟨Mr, Mi, hM⟩ := (isCLin_iff_cx _).1 (Mop_isCLin _ _ hlin .W)
    refine ⟨Mr, Mi, hM, ?_⟩
    have := hh.2; rw [hM] at this
    exact (isCAdj_cx_iff e e Mr Mi Mr Mi).1 this

/-! ### non-expansive cycles in the complex energy norm -/

/-- the complex energy `⟨w, A w⟩` (real for Hermitian `A`, see `cEnergy_en`) of the error never increases -/
def CNonExp (e : EForm K V) (A : (V × V) →ₗ[K] (V × V)) (f : V × V → V × V → V × V) : Prop :=
  ∀ x b xs, A xs = b →
    (cip e (A (xs - f x b)) (xs - f x b)).1 ≤ (cip e (A (xs - x)) (xs - x)).1

theorem cNonExp_iff (e : EForm K V) (A : (V × V) →ₗ[K] (V × V)) (hH hp)
    (f : V × V → V × V → V × V) : CNonExp e A f ↔ NonExp (cEnergy e A hH hp) A f := Iff.rfl

/-- complex Galerkin hierarchy below a level with Euclidean form `e` and matrix `A`: `R = Pᴴ`, coarse
matrix `R A P`, smoothers non-expansive in the level's own complex energy norm, solvable coarse problems,
coarsest solve exact in the energy norm -/
def CWFG (solve : V × V → V × V) :
    EForm K V → ((V × V) →ₗ[K] (V × V)) → List (EForm K V × Level K (V × V)) → Prop
  | e, A, [] => ∀ b xs, A xs = b → (cip e (A (xs - solve b)) (xs - solve b)).1 = 0
  | e, A, (ec, L) :: rest =>
      L.A = A ∧ IsCAdj e ec L.P L.R ∧ CNonExp e A L.pre ∧ CNonExp e A L.post ∧
      (∀ r, ∃ w, (L.R ∘ₗ A ∘ₗ L.P) w = L.R r) ∧
      CWFG solve ec (L.R ∘ₗ A ∘ₗ L.P) rest

theorem CWFG.toWFG (solve : V × V → V × V) :
    ∀ (Ls : List (EForm K V × Level K (V × V))) (e : EForm K V) (A : (V × V) →ₗ[K] (V × V)),
      CWFG solve e A Ls →
      WFG solve e.realify A (Ls.map (fun p => (p.1.realify, p.2))) := by
  intro Ls
  induction Ls with
  | nil => intro e A h; exact h
  | cons eL rest ih =>
    obtain ⟨ec, L⟩ := eL
    intro e A h
    obtain ⟨hA, hadj, hpre, hpost, hsolv, hrest⟩ := h
    exact ⟨hA, hadj.isAdj, fun _ _ => hpre, fun _ _ => hpost, hsolv, ih ec _ hrest⟩

/-- **C02 for complex Hermitian positive semidefinite problems**: every V-, W-, F(k)-cycle of any depth
is non-expansive in the complex energy norm, for every `b` and `x`. -/
theorem ccycle_nonexp (solve : V × V → V × V) (c : CType)
    (Ls : List (EForm K V × Level K (V × V))) (e : EForm K V) (A : (V × V) →ₗ[K] (V × V))
    (hH : IsCAdj e e A A) (hp : ∀ w, 0 ≤ (cip e (A w) w).1) (h : CWFG solve e A Ls) :
    CNonExp e A (cyc solve c (Ls.map Prod.snd)) := by
  have := cycle_nonexp_of_galerkin solve c _ e.realify A hH.isAdj hp (CWFG.toWFG solve Ls e A h)
  have hm : (Ls.map (fun p => (p.1.realify, p.2))).map Prod.snd = Ls.map Prod.snd := by
    simp [List.map_map, Function.comp_def]
  rw [hm] at this
  exact this

/-- the Galerkin coarse operator of a Hermitian PSD operator is Hermitian PSD (`R = Pᴴ`) -/
theorem cgalerkin_herm_psd (e ec : EForm K V) (A P R : (V × V) →ₗ[K] (V × V))
    (hH : IsCAdj e e A A) (hp : ∀ w, 0 ≤ (cip e (A w) w).1) (hadj : IsCAdj e ec P R) :
    IsCAdj ec ec (R ∘ₗ A ∘ₗ P) (R ∘ₗ A ∘ₗ P) ∧ ∀ w, 0 ≤ (cip ec ((R ∘ₗ A ∘ₗ P) w) w).1 := by
  constructor
  · have := (hadj.flip.comp hH).comp hadj
    simpa [LinearMap.comp_assoc] using this
  · exact galerkin_psd e.realify ec.realify A P R hp hadj.isAdj

/-- definiteness through the bridge: a non-expansive linear iteration has `⟨M r, r⟩ ≥ 0` for `r = A w`;
for C-linear Hermitian `M` this complex number is real (`cip_herm_self_im`). -/
theorem cprecond_psd (e : EForm K V) (A M : (V × V) →ₗ[K] (V × V)) (f : V × V → V × V → V × V)
    (hH : IsCAdj e e A A) (hp : ∀ w, 0 ≤ (cip e (A w) w).1)
    (hlin : IsLinIter A f M) (hne : CNonExp e A f) (w : V × V) :
    0 ≤ (cip e (M (A w)) (A w)).1 := by
  have h := precond_psd (cEnergy e A hH hp) A M f hlin hne w
  have h2 : (cEnergy e A hH hp).a (M (A w)) w = (cip e (M (A w)) (A w)).1 :=
    cEnergy_apply e A hH hp (M (A w)) w
  rw [h2] at h; exact h

#print axioms Mop_herm
#print axioms Mop_herm_parts
#print axioms ccycle_nonexp
#print axioms cprecond_psd
end PyamgV
