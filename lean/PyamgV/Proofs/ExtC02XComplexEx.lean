import PyamgV.Proofs.ExtC02XComplex
import PyamgV.Proofs.C02Example
import Mathlib.Tactic.NormNum

/-! PyamgV (extension E35, property C02): a concrete two-level **complex Hermitian** hierarchy over the Gaussian
rationals -- `A = [[2, i], [−i, 2]]`, `P = (1, i)ᵀ`, `R = Pᴴ = (1, −i)`, exact Galerkin matrix `A_c = (2)`,
Gauss-Seidel pre-smoothing, symmetric SOR(3/2) post-smoothing, exact coarse solve -- satisfies every hypothesis of
`cmodel_cycle_nonexp`: the hypotheses are jointly satisfiable on an instance with genuinely complex data, and the
conclusion holds for the arrays the driver computes. -/
set_option linter.unusedSectionVars false
set_option linter.unusedVariables false
namespace PyamgV.C02X.CEx
open PyamgV PyamgV.C02X

def A2 : K.Csr CRat := ⟨2, #[0, 2, 4], #[0, 1, 0, 1], #[⟨2, 0⟩, ⟨0, 1⟩, ⟨0, -1⟩, ⟨2, 0⟩]⟩
def P2 : K.Csr CRat := ⟨2, #[0, 1, 2], #[0, 0], #[⟨1, 0⟩, ⟨0, 1⟩]⟩
def R2 : K.Csr CRat := ⟨1, #[0, 2], #[0, 1], #[⟨1, 0⟩, ⟨0, -1⟩]⟩
def Ac1 : K.Csr CRat := ⟨1, #[0, 1], #[0], #[⟨2, 0⟩]⟩
def L2 : C02.Lvl CRat := ⟨A2, P2, R2, .gs 1 .forward 1, .gs ⟨3/2, 0⟩ .symmetric 1⟩

/-- the exact coarse solve `A_c⁻¹ = (1/2)` on arrays … -/
def solveArr (b : Array CRat) : Array CRat := #[⟨(K.rd b 0).re / 2, (K.rd b 0).im / 2⟩]
/-- … and on pairs of real functions -/
def solveF (g : CPair) : CPair :=
  (fun i => if i = 0 then g.1 0 / 2 else 0, fun i => if i = 0 then g.2 0 / 2 else 0)

theorem rowA0 : rowOf A2 0 = [(0, ⟨2, 0⟩), (1, ⟨0, 1⟩)] := by decide +kernel
theorem rowA1 : rowOf A2 1 = [(0, ⟨0, -1⟩), (1, ⟨2, 0⟩)] := by decide +kernel
theorem rowP0 : rowOf P2 0 = [(0, ⟨1, 0⟩)] := by decide +kernel
theorem rowP1 : rowOf P2 1 = [(0, ⟨0, 1⟩)] := by decide +kernel
theorem rowR0 : rowOf R2 0 = [(0, ⟨1, 0⟩), (1, ⟨0, -1⟩)] := by decide +kernel
theorem rowAc0 : rowOf Ac1 0 = [(0, ⟨2, 0⟩)] := by decide +kernel

theorem csr1 (rows : Nat → Row ℚ) (u : Nat → ℚ) (i : Nat) :
    csrOp 1 rows u i = if i = 0 then rowDot (rows 0) u else 0 := by
  rcases i with _ | i <;> simp [csrOp]

/-- the four operators in real and imaginary parts, entry by entry -/
theorem opA (w : CPair) (i : Nat) :
    (ccsrOp 2 (rowOf A2) w).1 i = (if i = 0 then 2 * w.1 0 - w.2 1 else if i = 1 then 2 * w.1 1 + w.2 0 else 0) ∧
    (ccsrOp 2 (rowOf A2) w).2 i = (if i = 0 then w.1 1 + 2 * w.2 0 else if i = 1 then 2 * w.2 1 - w.1 0 else 0) := by
  simp only [ccsrOp, cx_apply, Pi.sub_apply, Pi.add_apply, C02Ex.csr2, rowA0, rowA1, rowDot, reRow, imRow]
  rcases i with _ | _ | i <;> simp <;> ring

theorem opP (w : CPair) (i : Nat) :
    (ccsrOp 2 (rowOf P2) w).1 i = (if i = 0 then w.1 0 else if i = 1 then - w.2 0 else 0) ∧
    (ccsrOp 2 (rowOf P2) w).2 i = (if i = 0 then w.2 0 else if i = 1 then w.1 0 else 0) := by
  simp only [ccsrOp, cx_apply, Pi.sub_apply, Pi.add_apply, C02Ex.csr2, rowP0, rowP1, rowDot, reRow, imRow]
  rcases i with _ | _ | i <;> simp

theorem opR (w : CPair) (i : Nat) :
    (ccsrOp 1 (rowOf R2) w).1 i = (if i = 0 then w.1 0 + w.2 1 else 0) ∧
    (ccsrOp 1 (rowOf R2) w).2 i = (if i = 0 then w.2 0 - w.1 1 else 0) := by
  simp only [ccsrOp, cx_apply, Pi.sub_apply, Pi.add_apply, csr1, rowR0, rowDot, reRow, imRow]
  rcases i with _ | i <;> simp <;> ring

theorem opAc (w : CPair) (i : Nat) :
    (ccsrOp 1 (rowOf Ac1) w).1 i = (if i = 0 then 2 * w.1 0 else 0) ∧
    (ccsrOp 1 (rowOf Ac1) w).2 i = (if i = 0 then 2 * w.2 0 else 0) := by
  simp only [ccsrOp, cx_apply, Pi.sub_apply, Pi.add_apply, csr1, rowAc0, rowDot, reRow, imRow]
  rcases i with _ | i <;> simp

theorem adjPR : IsCAdj (euc ℚ 2) (euc ℚ 1) (ccsrOp 2 (rowOf P2)) (ccsrOp 1 (rowOf R2)) := by
  intro u v
  ext
  · rw [cip_re, cip_re]
    simp only [euc_apply, Finset.sum_range_succ, Finset.sum_range_zero, (opP u _).1, (opP u _).2,
      (opR v _).1, (opR v _).2]
    simp; ring
  · rw [cip_im, cip_im]
    simp only [euc_apply, Finset.sum_range_succ, Finset.sum_range_zero, (opP u _).1, (opP u _).2,
      (opR v _).1, (opR v _).2]
    simp; ring

theorem galerkin2 :
    ccsrOp 1 (rowOf Ac1) = ccsrOp 1 (rowOf R2) ∘ₗ ccsrOp 2 (rowOf A2) ∘ₗ ccsrOp 2 (rowOf P2) := by
  apply LinearMap.ext; intro w
  apply Prod.ext
  · funext i
    simp only [LinearMap.comp_apply, (opAc w i).1, (opR _ i).1, (opA _ _).1, (opA _ _).2, (opP w _).1, (opP w _).2]
    rcases i with _ | i <;> simp; ring
  · funext i
    simp only [LinearMap.comp_apply, (opAc w i).2, (opR _ i).2, (opA _ _).1, (opA _ _).2, (opP w _).1, (opP w _).2]
    rcases i with _ | i <;> simp; ring

theorem hermA : IsCAdj (euc ℚ 2) (euc ℚ 2) (ccsrOp 2 (rowOf A2)) (ccsrOp 2 (rowOf A2)) := by
  intro u v
  ext
  · rw [cip_re, cip_re]
    simp only [euc_apply, Finset.sum_range_succ, Finset.sum_range_zero, (opA u _).1, (opA u _).2,
      (opA v _).1, (opA v _).2]
    simp; ring
  · rw [cip_im, cip_im]
    simp only [euc_apply, Finset.sum_range_succ, Finset.sum_range_zero, (opA u _).1, (opA u _).2,
      (opA v _).1, (opA v _).2]
    simp; ring

theorem psdA : ∀ w, 0 ≤ (cip (euc ℚ 2) (ccsrOp 2 (rowOf A2) w) w).1 := by
  intro w
  rw [cip_re]
  simp only [euc_apply, Finset.sum_range_succ, Finset.sum_range_zero, (opA w _).1, (opA w _).2]
  simp
  nlinarith [sq_nonneg (w.1 0 - w.2 1), sq_nonneg (w.1 1 + w.2 0), sq_nonneg (w.1 0), sq_nonneg (w.1 1),
    sq_nonneg (w.2 0), sq_nonneg (w.2 1)]

theorem solve_ok : ∀ b : Array CRat, b.size = Ac1.n →
    (solveArr b).size = Ac1.n ∧ cread.ρ (solveArr b) = solveF (cread.ρ b) := by
  intro b _
  refine ⟨rfl, ?_⟩
  apply Prod.ext
  · funext i
    rcases i with _ | i <;> simp [solveArr, solveF, cread, toPair, fn, K.rd]
  · funext i
    rcases i with _ | i <;> simp [solveArr, solveF, cread, toPair, fn, K.rd]

theorem shaped2 : Shaped Ac1.n (nextA Ac1 [L2]).n [L2] := ⟨rfl, rfl, rfl⟩

theorem wf2 : CWFModel solveF Ac1 [L2] := by
  refine ⟨adjPR, rfl, galerkin2, ⟨fun _ => ⟨2, 0⟩, ?_, ?_, ?_⟩, ?_, ?_⟩
  · intro i hi
    have hi2 : i < 2 := hi
    show HasDiag i (rowOf A2 i) ⟨2, 0⟩
    rcases i with _ | _ | i
    · rw [rowA0]; simp [HasDiag]
    · rw [rowA1]; simp [HasDiag]
    · omega
  · show (1 : CRat).im = 0 ∧ (0 : ℚ) ≤ (1 : CRat).re ∧ (1 : CRat).re ≤ 2
    simp
  · show (0 : ℚ) = 0 ∧ (0 : ℚ) ≤ 3/2 ∧ (3/2 : ℚ) ≤ 2
    norm_num
  · intro r
    refine ⟨solveF (ccsrOp 1 (rowOf R2) r), ?_⟩
    show (ccsrOp 1 (rowOf R2) ∘ₗ ccsrOp 2 (rowOf A2) ∘ₗ ccsrOp 2 (rowOf P2)) _ = ccsrOp 1 (rowOf R2) r
    rw [← galerkin2]
    apply Prod.ext
    · funext i
      rw [(opAc _ i).1]
      rcases i with _ | i
      · simp [solveF]; ring
      · simp [(opR r _).1]
    · funext i
      rw [(opAc _ i).2]
      rcases i with _ | i
      · simp [solveF]; ring
      · simp [(opR r _).2]
  · intro b xs hb
    change ccsrOp 1 (rowOf Ac1) xs = b at hb
    show (cip (euc ℚ 1) (ccsrOp 1 (rowOf Ac1) (xs - solveF b)) (xs - solveF b)).1 = 0
    have h0 : (xs - solveF b).1 0 = 0 := by
      rw [← hb]; simp [solveF, (opAc xs 0).1]
    have h1 : (xs - solveF b).2 0 = 0 := by
      rw [← hb]; simp [solveF, (opAc xs 0).2]
    rw [cip_re]
    simp only [euc_apply, Finset.sum_range_succ, Finset.sum_range_zero, (opAc _ _).1, (opAc _ _).2]
    simp [h0, h1]

/-- the instance of `cmodel_cycle_nonexp`: for **every** `x, b ∈ ℚ(i)²`, every cycle type and every solution `x*`,
one cycle of the executable complex model on this hierarchy does not increase the complex energy of the error -/
theorem example_ccycle_nonexp (c : C02.Cyc) (cpl : Nat) (x b : Array CRat) (hx : x.size = 2) (hb : b.size = 2)
    (xs : CPair) (hxs : ccsrOp 2 (rowOf A2) xs = cread.ρ b) :
    (cEnergy (euc ℚ 2) (ccsrOp 2 (rowOf A2)) hermA psdA).en (xs - cread.ρ (C02.cycle solveArr c cpl [L2] x b)) ≤
    (cEnergy (euc ℚ 2) (ccsrOp 2 (rowOf A2)) hermA psdA).en (xs - cread.ρ x) :=
  cmodel_cycle_nonexp solveArr solveF Ac1 [L2] solve_ok shaped2 wf2 hermA psdA c cpl x b hx hb xs hxs

#print axioms example_ccycle_nonexp
end PyamgV.C02X.CEx
