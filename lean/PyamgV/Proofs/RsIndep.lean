import PyamgV.Model.RsModel

/-! PyamgV (C13): on the bucket-faithful model of `rs_cf_splitting`, the marking array evolves
independently of the bucket bookkeeping; hence (for a symmetric pattern) no two C-points are
adjacent and every point turned F by a C-point has that C-point as a neighbour — whatever the
buckets do. Core only. -/
namespace PyamgV.RS

theorem rdI_wrI (a : Array Int) (i j : Nat) (v : Int) :
    rdI (wrI a i v) j = if i = j ∧ i < a.size then v else rdI a j := by
  unfold rdI wrI
  simp only [Array.getD_eq_getD_getElem?, Array.getElem?_setIfInBounds]
  by_cases h : i = j
  · subst h
    by_cases h2 : i < a.size <;> simp [h2]
  · simp [h]

@[simp] theorem incr_sp (n : Nat) (s : St) (k : Nat) : (incr n s k).sp = s.sp := by
  unfold incr; split
  · rfl
  · split <;> rfl

@[simp] theorem decr_sp (s : St) (j : Nat) : (decr s j).sp = s.sp := by
  unfold decr; split
  · rfl
  · split <;> rfl

theorem foldl_incr_sp (n : Nat) (l : List Nat) (s : St) : (l.foldl (incr n) s).sp = s.sp := by
  induction l generalizing s with
  | nil => rfl
  | cons a l ih => simp [List.foldl_cons, ih]

theorem foldl_decr_sp (l : List Nat) (s : St) : (l.foldl decr s).sp = s.sp := by
  induction l generalizing s with
  | nil => rfl
  | cons a l ih => simp [List.foldl_cons, ih]

/-- first marking loop on the `sp` array alone -/
def markPF (sp : Array Int) (l : List Nat) : Array Int :=
  l.foldl (fun sp j => if rdI sp j = U then wrI sp j PF else sp) sp

/-- second loop on the `sp` array alone -/
def markF (sp : Array Int) (l : List Nat) : Array Int :=
  l.foldl (fun sp j => if rdI sp j = PF then wrI sp j F else sp) sp

theorem loop1_sp (l : List Nat) (s : St) :
    (l.foldl (fun s j => if rdI s.sp j = U then { s with sp := wrI s.sp j PF } else s) s).sp
      = markPF s.sp l := by
  unfold markPF
  induction l generalizing s with
  | nil => rfl
  | cons a l ih =>
    simp only [List.foldl_cons]
    by_cases h : rdI s.sp a = U
    · simp only [h, if_true]; rw [ih]
    · simp only [h, if_false]; rw [ih]

theorem loop2_sp (S : Csr) (l : List Nat) (s : St) :
    (l.foldl (fun s j =>
      if rdI s.sp j = PF then
        let s := { s with sp := wrI s.sp j F }
        (S.row j).foldl (incr S.n) s
      else s) s).sp = markF s.sp l := by
  unfold markF
  induction l generalizing s with
  | nil => rfl
  | cons a l ih =>
    simp only [List.foldl_cons]
    by_cases h : rdI s.sp a = PF
    · simp only [h, if_true]; rw [ih, foldl_incr_sp]
    · simp only [h, if_false]; rw [ih]

/-- the marking array after one step of the main loop, independent of the buckets -/
theorem step_sp (S T : Csr) (s : St) (top : Nat) (s' : St) (h : step S T s top = some s') :
    s'.sp = (let i := rdN s.i2n top
             if rdI s.sp i ≠ U then s.sp
             else markF (markPF (wrI s.sp i C) (T.row i)) (T.row i)) := by
  unfold step at h
  simp only at h
  split at h
  · exact absurd h (by simp)
  · split at h
    · rename_i hU
      simp only [Option.some.injEq] at h
      subst h
      simp only [hU, ne_eq, not_false_eq_true, if_true]
    · rename_i hU
      simp only [Option.some.injEq] at h
      subst h
      simp only [hU, if_false]
      rw [foldl_decr_sp, loop2_sp, loop1_sp]

#print axioms step_sp
end PyamgV.RS

namespace PyamgV.RS

theorem markPF_spec : ∀ (l : List Nat) (sp : Array Int), (∀ j ∈ l, j < sp.size) →
    (markPF sp l).size = sp.size ∧
    ∀ k, rdI (markPF sp l) k = if k ∈ l ∧ rdI sp k = U then PF else rdI sp k := by
  intro l; induction l with
  | nil => intro sp _; simp [markPF]
  | cons j js ih =>
    intro sp hb
    have hj : j < sp.size := hb j (by simp)
    simp only [markPF, List.foldl_cons]
    by_cases hx : rdI sp j = U
    · simp only [hx, if_true]
      have := ih (wrI sp j PF) (by intro k hk; simpa [wrI] using hb k (by simp [hk]))
      rw [show markPF (wrI sp j PF) js = List.foldl _ (wrI sp j PF) js from rfl] at this
      refine ⟨by simpa [wrI] using this.1, ?_⟩
      intro k; rw [this.2 k, rdI_wrI]
      by_cases hkj : j = k
      · subst hkj; simp [hj, hx, U, PF]
      · have : k ≠ j := fun e => hkj e.symm
        simp [hkj, this]
    · simp only [hx, if_false]
      have := ih sp (by intro k hk; exact hb k (by simp [hk]))
      rw [show markPF sp js = List.foldl _ sp js from rfl] at this
      refine ⟨this.1, ?_⟩
      intro k; rw [this.2 k]
      by_cases hkj : k = j
      · subst hkj; simp [hx]
      · simp [hkj]

theorem markF_spec : ∀ (l : List Nat) (sp : Array Int), (∀ j ∈ l, j < sp.size) →
    (markF sp l).size = sp.size ∧
    ∀ k, rdI (markF sp l) k = if k ∈ l ∧ rdI sp k = PF then F else rdI sp k := by
  intro l; induction l with
  | nil => intro sp _; simp [markF]
  | cons j js ih =>
    intro sp hb
    have hj : j < sp.size := hb j (by simp)
    simp only [markF, List.foldl_cons]
    by_cases hx : rdI sp j = PF
    · simp only [hx, if_true]
      have := ih (wrI sp j F) (by intro k hk; simpa [wrI] using hb k (by simp [hk]))
      rw [show markF (wrI sp j F) js = List.foldl _ (wrI sp j F) js from rfl] at this
      refine ⟨by simpa [wrI] using this.1, ?_⟩
      intro k; rw [this.2 k, rdI_wrI]
      by_cases hkj : j = k
      · subst hkj; simp [hj, hx, F, PF]
      · have : k ≠ j := fun e => hkj e.symm
        simp [hkj, this]
    · simp only [hx, if_false]
      have := ih sp (by intro k hk; exact hb k (by simp [hk]))
      rw [show markF sp js = List.foldl _ sp js from rfl] at this
      refine ⟨this.1, ?_⟩
      intro k; rw [this.2 k]
      by_cases hkj : k = j
      · subst hkj; simp [hx]
      · simp [hkj]

/-- net effect of making `i` a C-point on the marking array (no PF entries beforehand) -/
theorem net_effect (sp : Array Int) (i : Nat) (l : List Nat) (hi : i < sp.size)
    (hb : ∀ j ∈ l, j < sp.size) (hnoPF : ∀ k, rdI sp k ≠ PF) :
    (markF (markPF (wrI sp i C) l) l).size = sp.size ∧
    ∀ k, rdI (markF (markPF (wrI sp i C) l) l) k =
      if k = i then C else if k ∈ l ∧ rdI sp k = U then F else rdI sp k := by
  have hb1 : ∀ j ∈ l, j < (wrI sp i C).size := by intro j hj; simpa [wrI] using hb j hj
  obtain ⟨s1, p1⟩ := markPF_spec l (wrI sp i C) hb1
  have hb2 : ∀ j ∈ l, j < (markPF (wrI sp i C) l).size := by intro j hj; rw [s1]; exact hb1 j hj
  obtain ⟨s2, p2⟩ := markF_spec l (markPF (wrI sp i C) l) hb2
  refine ⟨by rw [s2, s1]; simp [wrI], ?_⟩
  intro k
  rw [p2 k, p1 k, rdI_wrI]
  by_cases hki : i = k
  · subst hki; simp [hi, C, U, PF]
  · have hki' : k ≠ i := fun e => hki e.symm
    simp only [hki, false_and, if_false, hki']
    by_cases hkl : k ∈ l
    · by_cases hu : rdI sp k = U
      · simp [hkl, hu]
      · have := hnoPF k
        simp [hkl, hu, this]
    · simp [hkl]

end PyamgV.RS

namespace PyamgV.RS

structure TOK (T : Csr) : Prop where
  bound : ∀ i, i < T.n → ∀ j ∈ T.row i, j < T.n
  symm  : ∀ i j, i < T.n → j < T.n → (j ∈ T.row i ↔ i ∈ T.row j)

structure RInv (T : Csr) (sp : Array Int) : Prop where
  size : sp.size = T.n
  vals : ∀ k, k < T.n → rdI sp k = U ∨ rdI sp k = F ∨ rdI sp k = C
  cnb  : ∀ i, i < T.n → rdI sp i = C → ∀ j ∈ T.row i, j ≠ i → rdI sp j = F

theorem RInv.noPF {T : Csr} {sp : Array Int} (h : RInv T sp) : ∀ k, rdI sp k ≠ PF := by
  intro k
  by_cases hk : k < T.n
  · rcases h.vals k hk with e | e | e <;> rw [e] <;> decide
  · have : rdI sp k = 0 := by unfold rdI; simp [Array.getD, h.size, hk]
    rw [this]; decide

theorem step_RInv (S T : Csr) (hT : TOK T) (s : St) (top : Nat) (s' : St)
    (h : step S T s top = some s') (hI : RInv T s.sp) : RInv T s'.sp := by
  rw [step_sp S T s top s' h]
  simp only
  by_cases hU : rdI s.sp (rdN s.i2n top) ≠ U
  · rw [if_pos hU]; exact hI
  · rw [if_neg hU]
    have hUe : rdI s.sp (rdN s.i2n top) = U := by simpa using hU
    generalize rdN s.i2n top = i at hUe ⊢
    have hin : i < T.n := by
      by_cases hin : i < T.n
      · exact hin
      · exfalso
        have : rdI s.sp i = 0 := by unfold rdI; simp [Array.getD, hI.size, hin]
        rw [this] at hUe; exact absurd hUe (by decide)
    have hi : i < s.sp.size := by rw [hI.size]; exact hin
    have hb : ∀ j ∈ T.row i, j < s.sp.size := by
      intro j hj; rw [hI.size]; exact hT.bound i hin j hj
    obtain ⟨nsz, nsp⟩ := net_effect s.sp i (T.row i) hi hb hI.noPF
    refine ⟨by rw [nsz]; exact hI.size, ?_, ?_⟩
    · intro k hk; rw [nsp k]
      split
      · exact Or.inr (Or.inr rfl)
      · split
        · exact Or.inr (Or.inl rfl)
        · exact hI.vals k hk
    · intro a ha haC j hj hja
      rw [nsp a] at haC
      have hjn : j < T.n := hT.bound a ha j hj
      by_cases hai : a = i
      · subst hai
        rw [nsp j, if_neg hja]
        by_cases hju : rdI s.sp j = U
        · rw [if_pos ⟨hj, hju⟩]
        · rw [if_neg (fun hh => hju hh.2)]
          rcases hI.vals j hjn with e | e | e
          · exact absurd e hju
          · exact e
          · exfalso
            have hij : a ∈ T.row j := (hT.symm a j ha hjn).1 hj
            have := hI.cnb j hjn e a hij (fun e' => hja e'.symm)
            rw [hUe] at this; exact absurd this (by decide)
      · rw [if_neg hai] at haC
        have haC' : rdI s.sp a = C := by
          split at haC
          · exact absurd haC (by decide)
          · exact haC
        have hjF := hI.cnb a ha haC' j hj hja
        have hji : j ≠ i := by intro e; subst e; rw [hUe] at hjF; exact absurd hjF (by decide)
        rw [nsp j, if_neg hji]
        have : rdI s.sp j ≠ U := by rw [hjF]; decide
        rw [if_neg (fun hh => this hh.2)]; exact hjF

theorem go_RInv (S T : Csr) (hT : TOK T) : ∀ (fuel top : Nat) (s : St), RInv T s.sp →
    RInv T (run.go S T fuel top s).sp := by
  intro fuel
  induction fuel with
  | zero => intro top s h; simpa [run.go] using h
  | succ fuel ih =>
    intro top s h
    simp only [run.go]
    cases hs : step S T s top with
    | none => simpa using h
    | some s' =>
      have h' := step_RInv S T hT s top s' hs h
      simp only
      split
      · exact h'
      · exact ih _ _ h'

theorem init_RInv (S T : Csr) (hST : S.n = T.n) : RInv T (init S T).sp := by
  have hsz : (init S T).sp.size = T.n := by simp [init, hST]
  have hval : ∀ k, k < T.n → rdI (init S T).sp k = F ∨ rdI (init S T).sp k = U := by
    intro k hk
    have hk' : k < S.n := by omega
    simp only [init, rdI, Array.getD_eq_getD_getElem?]
    simp only [Array.getElem?_map, Array.getElem?_range]
    simp only [hk', if_true, Option.map_some, Option.getD_some]
    split
    · exact Or.inl rfl
    · exact Or.inr rfl
  refine ⟨hsz, fun k hk => ?_, fun i hi h => ?_⟩
  · rcases hval k hk with e | e
    · exact Or.inr (Or.inl e)
    · exact Or.inl e
  · rcases hval i hi with e | e <;> rw [e] at h <;> exact absurd h (by decide)

/-- **C13, Ruge–Stüben first pass, independence** (symmetric strength pattern): the output
contains only 0/1 flags and no two distinct strongly connected nodes are both coarse — proved
on the bucket-faithful model without any assumption on the bucket bookkeeping. -/
theorem rs_independent (S T : Csr) (hST : S.n = T.n) (hT : TOK T) :
    let out := run S T
    (∀ k, k < T.n → rdI out k = F ∨ rdI out k = C) ∧
    (∀ i j, i < T.n → j ∈ T.row i → j ≠ i → rdI out i = C → rdI out j ≠ C) := by
  intro out
  have hI : RInv T (if S.n = 0 then init S T else run.go S T S.n (S.n - 1) (init S T)).sp := by
    split
    · exact init_RInv S T hST
    · exact go_RInv S T hT _ _ _ (init_RInv S T hST)
  generalize hs : (if S.n = 0 then init S T else run.go S T S.n (S.n - 1) (init S T)) = sfin at hI
  have hout : ∀ k, k < T.n → rdI out k = if rdI sfin.sp k = U then F else rdI sfin.sp k := by
    intro k hk
    have hk' : k < sfin.sp.size := by rw [hI.size]; exact hk
    show rdI (run S T) k = _
    unfold run
    simp only [hs]
    simp only [rdI, Array.getD_eq_getD_getElem?, Array.getElem?_map]
    simp [Array.getElem?_eq_getElem hk']
  constructor
  · intro k hk; rw [hout k hk]
    rcases hI.vals k hk with e | e | e
    · rw [e]; simp
    · rw [e]; left; decide
    · rw [e]; right; decide
  · intro i j hi hj hji hiC hjC
    have hjn := hT.bound i hi j hj
    rw [hout i hi] at hiC; rw [hout j hjn] at hjC
    have hiC' : rdI sfin.sp i = C := by
      split at hiC
      · exact absurd hiC (by decide)
      · exact hiC
    have hjC' : rdI sfin.sp j = C := by
      split at hjC
      · exact absurd hjC (by decide)
      · exact hjC
    have := hI.cnb i hi hiC' j hj hji
    rw [hjC'] at this; exact absurd this (by decide)

#print axioms rs_independent
end PyamgV.RS
