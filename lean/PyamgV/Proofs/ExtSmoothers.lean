import PyamgV.Proofs.C02Thm
import PyamgV.Proofs.C05Adj
import Mathlib.Algebra.Order.BigOperators.Group.Finset
import Mathlib.Algebra.BigOperators.Group.Finset.Basic
import Mathlib.Algebra.Order.AbsoluteValue.Basic

/-! PyamgV (extension E22, C02/C03): the smoothers that were hypotheses / probed matrices.

Function-level models (`V` any module over an ordered field, `A : V →ₗ V`):

* `polyFn A c0 cs`   -- `relaxation.polynomial(A, x, b, coefficients = c0 :: cs)`, one iteration: the residual
  (`b` itself when `x = 0`, as the code does), the Horner loop `h = c0 r; for c in cs: h = c r + A h`, `x += h`;
  `chebyshev` is `polynomial` with the Chebyshev coefficients, `richardson` is the one-coefficient case.
* `x + ω • Dinv (b − A x)` -- weighted Jacobi / block Jacobi (`blockJacobiFn` is the kernel's formula
  `(1−ω) x + ω Dinv (b − N x)`, `A = D + N`).

Results: each is a linear iteration `IsLinIter A f Q` with an explicit `Q` (`polyOp` = `p(A)`,
`ω • Dinv`), hence has the exact solution as a fixed point; a linear iteration is energy
non-expansive **iff** `‖Q A v‖²_A ≤ 2 a(Q A v, v)` for all `v` (`linIter_nonexp_iff`); this follows
(without spectral theory, `sym_bounded_quadratic`) when `T = Q A` is `a`-symmetric and
`0 ≤ a(T v, v) ≤ 2 a(v, v)`; for a polynomial `Q = p(A)` symmetry is automatic (`polyOp_adj`), so
`0 ≤ a(p(A) A v, v) ≤ 2 a(v, v)` suffices (`polynomial_nonexp`), and on an orthogonal eigenbasis this is
`|1 − λ p(λ)| ≤ 1` on the spectrum (`polynomial_nonexp_of_spectrum`). -/
namespace PyamgV

variable {K : Type*} [Field K] [LinearOrder K] [IsStrictOrderedRing K]
variable {V : Type*} [AddCommGroup V] [Module K V]

/-! ## linear iterations: identity, lists of steps, fixed point, error propagation -/

theorem IsLinIter.id (A : V →ₗ[K] V) : IsLinIter A (fun x _ => x) (0 : V →ₗ[K] V) := by
  intro x b; simp

/-- operator of a list of steps applied one after the other -/
def sweepM (A : V →ₗ[K] V) (Qs : List (V →ₗ[K] V)) : V →ₗ[K] V := Qs.foldl (compM A) 0

/-- a list of linear iterations applied one after the other (a sweep of row / block / subdomain steps,
a list of smoothers) is a linear iteration; its operator is the `compM`-fold of the steps' operators -/
theorem IsLinIter.foldl (A : V →ₗ[K] V) (steps : List ((V → V → V) × (V →ₗ[K] V)))
    (h : ∀ s ∈ steps, IsLinIter A s.1 s.2) :
    IsLinIter A (fun x b => steps.foldl (fun x s => s.1 x b) x) (sweepM A (steps.map Prod.snd)) := by
  have gen : ∀ (steps : List ((V → V → V) × (V →ₗ[K] V))), (∀ s ∈ steps, IsLinIter A s.1 s.2) →
      ∀ (g : V → V → V) (M0 : V →ₗ[K] V), IsLinIter A g M0 →
        IsLinIter A (fun x b => steps.foldl (fun x s => s.1 x b) (g x b))
          ((steps.map Prod.snd).foldl (compM A) M0) := by
    intro steps
    induction steps with
    | nil => intro _ g M0 hg; simpa using hg
    | cons s rest ih =>
      intro hs g M0 hg
      have := ih (fun t ht => hs t (by simp [ht])) (fun x b => s.1 (g x b) b) (compM A M0 s.2)
        (hg.comp (hs s (by simp)))
      simpa using this
  exact gen steps h (fun x _ => x) 0 (IsLinIter.id A)

/-- the exact solution is a fixed point of every linear iteration -/
theorem IsLinIter.fixed_point {A : V →ₗ[K] V} {f : V → V → V} {Q : V →ₗ[K] V} (hf : IsLinIter A f Q)
    (xs b : V) (hb : A xs = b) : f xs b = xs := by
  rw [hf xs b, hb]; simp

/-- error propagation `e ↦ e − Q A e` -/
theorem IsLinIter.error {A : V →ₗ[K] V} {f : V → V → V} {Q : V →ₗ[K] V} (hf : IsLinIter A f Q)
    (x xs b : V) (hb : A xs = b) : xs - f x b = (xs - x) - Q (A (xs - x)) := by
  rw [hf x b, ← hb]; simp only [map_sub]; abel

/-! ## when is a linear iteration non-expansive? -/

theorem en_sub_expand (E : EForm K V) (v w : V) :
    E.en (v - w) = E.en v - 2 * E.a w v + E.en w := by
  unfold EForm.en
  simp only [map_sub, LinearMap.sub_apply]
  rw [E.symm v w]; ring

/-- **exact characterisation**: `x ← x + Q (b − A x)` never increases the `E`-norm of the error iff
`‖Q A v‖²_E ≤ 2 E(Q A v, v)` for every `v` (`E` any symmetric PSD form, `Q` any linear map) -/
theorem linIter_nonexp_iff (E : EForm K V) {A Q : V →ₗ[K] V} {f : V → V → V} (hf : IsLinIter A f Q) :
    NonExp E A f ↔ ∀ v, E.en (Q (A v)) ≤ 2 * E.a (Q (A v)) v := by
  constructor
  · intro h v
    have := h 0 (A v) v rfl
    rw [hf.error 0 v (A v) rfl, sub_zero, en_sub_expand] at this
    linarith
  · intro h x b xs hb
    rw [hf.error x xs b hb, en_sub_expand]
    have := h (xs - x)
    linarith

/-- **no spectral theory needed**: if `T` is symmetric for the form `E` and `0 ≤ E(T v, v) ≤ 2 E(v, v)`
(`0 ≤ T ≤ 2` as quadratic forms) then `E(T v, T v) ≤ 2 E(T v, v)` (`T² ≤ 2T`).
Proof: `2 T (2 − T) = (2 − T) T (2 − T) + T (2 − T) T`. -/
theorem sym_bounded_quadratic (E : EForm K V) (T : V →ₗ[K] V)
    (hsym : ∀ u v, E.a (T u) v = E.a u (T v))
    (h0 : ∀ v, 0 ≤ E.a (T v) v) (h2 : ∀ v, E.a (T v) v ≤ 2 * E.a v v) (v : V) :
    E.en (T v) ≤ 2 * E.a (T v) v := by
  have hw := h0 ((2 : K) • v - T v)
  have hu := h2 (T v)
  have e1 : E.a (T (T v)) v = E.a (T v) (T v) := hsym (T v) v
  have e2 : E.a v (T v) = E.a (T v) v := E.symm _ _
  have e3 : E.a (T v) (T (T v)) = E.a (T (T v)) (T v) := E.symm _ _
  simp only [map_sub, map_smul, LinearMap.sub_apply, LinearMap.smul_apply, smul_eq_mul] at hw
  rw [e1] at hw
  unfold EForm.en
  linarith [hw, hu, e2, e3]

/-- a linear iteration whose error operator `I − Q A` has `T = Q A` symmetric for `E` with
`0 ≤ E(T v, v) ≤ 2 E(v, v)` is non-expansive -/
theorem linIter_nonexp_of_bounds (E : EForm K V) {A Q : V →ₗ[K] V} {f : V → V → V} (hf : IsLinIter A f Q)
    (hsym : ∀ u v, E.a (Q (A u)) v = E.a u (Q (A v)))
    (h0 : ∀ v, 0 ≤ E.a (Q (A v)) v) (h2 : ∀ v, E.a (Q (A v)) v ≤ 2 * E.a v v) :
    NonExp E A f :=
  (linIter_nonexp_iff E hf).2 (fun v => sym_bounded_quadratic E (Q ∘ₗ A) hsym h0 h2 v)

/-- energy-norm version: `A` symmetric PSD for the Euclidean form `e`, `Q` symmetric for `e` (no commutation
hypothesis is needed), `0 ≤ a(Q A v, v) ≤ 2 a(v, v)` with `a(u, v) = e(A u, v)` -/
theorem sym_linIter_energy_nonexp (e : EForm K V) {A Q : V →ₗ[K] V} {f : V → V → V} (hs hp)
    (hf : IsLinIter A f Q) (hQ : IsAdj e e Q Q)
    (h0 : ∀ v, 0 ≤ e.a (A (Q (A v))) v) (h2 : ∀ v, e.a (A (Q (A v))) v ≤ 2 * e.a (A v) v) :
    NonExp (e.ofOp A hs hp) A f := by
  apply linIter_nonexp_of_bounds (e.ofOp A hs hp) hf
  · intro u v
    show e.a (A (Q (A u))) v = e.a (A u) (Q (A v))
    rw [hs (Q (A u)) v, hQ (A u) (A v)]
  · exact h0
  · exact h2

/-! ## 1. the `polynomial` smoother (Chebyshev, Richardson) -/

/-- the Horner loop of `relaxation.polynomial`: `h = c0*r; for c in cs: h = c*r + A@h` -/
def polyHorner (A : V →ₗ[K] V) (c0 : K) (cs : List K) (r : V) : V :=
  cs.foldl (fun h c => c • r + A h) (c0 • r)

open Classical in
/-- `residual = b if norm(x) == 0 else b - A@x` -/
noncomputable def polyResidual (A : V →ₗ[K] V) (x b : V) : V := if x = 0 then b else b - A x

/-- one iteration of `polynomial(A, x, b, coefficients = c0 :: cs)` -/
noncomputable def polyFn (A : V →ₗ[K] V) (c0 : K) (cs : List K) (x b : V) : V :=
  x + polyHorner A c0 cs (polyResidual A x b)

/-- `p(A)` for the coefficient list `c0 :: cs` (descending powers), built as the code builds it -/
def polyOp (A : V →ₗ[K] V) (c0 : K) (cs : List K) : V →ₗ[K] V :=
  cs.foldl (fun H c => c • LinearMap.id + A ∘ₗ H) (c0 • LinearMap.id)

/-- `p(t)` for a scalar `t`, same Horner loop -/
def polyScalar (c0 : K) (cs : List K) (t : K) : K := cs.foldl (fun h c => c + t * h) c0

theorem polyResidual_eq (A : V →ₗ[K] V) (x b : V) : polyResidual A x b = b - A x := by
  unfold polyResidual
  split
  · next h => rw [h]; simp
  · rfl

theorem polyHorner_eq (A : V →ₗ[K] V) (c0 : K) (cs : List K) (r : V) :
    polyHorner A c0 cs r = polyOp A c0 cs r := by
  unfold polyHorner polyOp
  have gen : ∀ (cs : List K) (h : V) (H : V →ₗ[K] V), h = H r →
      cs.foldl (fun h c => c • r + A h) h = (cs.foldl (fun H c => c • LinearMap.id + A ∘ₗ H) H) r := by
    intro cs
    induction cs with
    | nil => intro h H hh; simpa using hh
    | cons c rest ih =>
      intro h H hh
      simp only [List.foldl_cons]
      apply ih
      simp [hh]
  exact gen cs _ _ (by simp)

theorem polyOp_snoc (A : V →ₗ[K] V) (c0 : K) (cs : List K) (c : K) :
    polyOp A c0 (cs ++ [c]) = c • LinearMap.id + A ∘ₗ polyOp A c0 cs := by
  simp [polyOp, List.foldl_append]

theorem polyScalar_snoc (c0 : K) (cs : List K) (c t : K) :
    polyScalar c0 (cs ++ [c]) t = c + t * polyScalar c0 cs t := by
  simp [polyScalar, List.foldl_append]

/-- `polyOp` really is the polynomial: `p(A) = Σ_k coefficients[k] · A^(deg − k)` -/
theorem polyOp_eq_sum (A : V →ₗ[K] V) (c0 : K) (cs : List K) :
    polyOp A c0 cs = (((c0 :: cs).reverse.zipIdx).map (fun ck => ck.1 • A ^ ck.2)).sum := by
  have shift : ∀ (l : List K) (n : Nat),
      ((l.zipIdx (n + 1)).map (fun ck => ck.1 • A ^ ck.2)).sum =
        A * ((l.zipIdx n).map (fun ck => ck.1 • A ^ ck.2)).sum := by
    intro l
    induction l with
    | nil => intro n; simp
    | cons a rest ih =>
      intro n
      simp only [List.zipIdx_cons, List.map_cons, List.sum_cons, mul_add]
      rw [ih (n + 1), pow_succ', mul_smul_comm]
  induction cs using List.reverseRecOn with
  | nil => simp [polyOp, Module.End.one_eq_id]
  | append_singleton cs c ih =>
    rw [polyOp_snoc, ih]
    rw [show c0 :: (cs ++ [c]) = (c0 :: cs) ++ [c] from rfl, List.reverse_append]
    simp only [List.reverse_singleton, List.singleton_append, List.zipIdx_cons, List.map_cons, List.sum_cons,
      pow_zero, zero_add]
    rw [shift]
    rfl

/-- `p(A)` commutes with `A` -/
theorem polyOp_comm (A : V →ₗ[K] V) (c0 : K) (cs : List K) :
    A ∘ₗ polyOp A c0 cs = polyOp A c0 cs ∘ₗ A := by
  induction cs using List.reverseRecOn with
  | nil => ext v; simp [polyOp]
  | append_singleton cs c ih =>
    rw [polyOp_snoc]
    ext v
    have := LinearMap.congr_fun ih v
    simp only [LinearMap.comp_apply] at this
    simp [this]

/-- `p(A)` is symmetric when `A` is -/
theorem polyOp_adj (e : EForm K V) (A : V →ₗ[K] V) (hs : IsAdj e e A A) (c0 : K) (cs : List K) :
    IsAdj e e (polyOp A c0 cs) (polyOp A c0 cs) := by
  induction cs using List.reverseRecOn with
  | nil => intro u v; simp [polyOp]
  | append_singleton cs c ih =>
    rw [polyOp_snoc]
    intro u v
    have hc := LinearMap.congr_fun (polyOp_comm A c0 cs) v
    simp only [LinearMap.comp_apply] at hc
    simp only [LinearMap.add_apply, LinearMap.smul_apply, LinearMap.id_apply, LinearMap.comp_apply, map_add,
      map_smul, smul_eq_mul]
    rw [hs (polyOp A c0 cs u) v, ih u (A v), hc]

/-- on an eigenvector, `p(A) u = p(λ) u` -/
theorem polyOp_eigen (A : V →ₗ[K] V) (c0 : K) (cs : List K) (u : V) (t : K) (hu : A u = t • u) :
    polyOp A c0 cs u = polyScalar c0 cs t • u := by
  induction cs using List.reverseRecOn with
  | nil => simp [polyOp, polyScalar]
  | append_singleton cs c ih =>
    rw [polyOp_snoc, polyScalar_snoc]
    simp only [LinearMap.add_apply, LinearMap.smul_apply, LinearMap.id_apply, LinearMap.comp_apply]
    rw [ih, map_smul, hu, add_smul, mul_smul, smul_comm]

/-- **`polynomial` is the linear iteration `x ← x + p(A)(b − A x)`** (the `x = 0` shortcut included) -/
theorem polynomial_isLinIter (A : V →ₗ[K] V) (c0 : K) (cs : List K) :
    IsLinIter A (polyFn A c0 cs) (polyOp A c0 cs) := by
  intro x b
  unfold polyFn
  rw [polyResidual_eq, polyHorner_eq]

/-- `iterations = k` -/
theorem polynomial_iter_isLinIter (A : V →ₗ[K] V) (c0 : K) (cs : List K) (k : Nat) :
    IsLinIter A (fun x b => iter (polyFn A c0 cs) b k x) (powM A (polyOp A c0 cs) k) :=
  (polynomial_isLinIter A c0 cs).pow k

theorem polynomial_fixed_point (A : V →ₗ[K] V) (c0 : K) (cs : List K) (xs b : V) (hb : A xs = b) :
    polyFn A c0 cs xs b = xs :=
  (polynomial_isLinIter A c0 cs).fixed_point xs b hb

/-- the error is multiplied by `I − p(A) A` -/
theorem polynomial_error (A : V →ₗ[K] V) (c0 : K) (cs : List K) (x xs b : V) (hb : A xs = b) :
    xs - polyFn A c0 cs x b = (xs - x) - polyOp A c0 cs (A (xs - x)) :=
  (polynomial_isLinIter A c0 cs).error x xs b hb

/-- **`I − p(A)A` is energy non-expansive iff `‖p(A)A v‖²_A ≤ 2 a(p(A)A v, v)` for all `v`** -/
theorem polynomial_nonexp_iff (e : EForm K V) (A : V →ₗ[K] V) (hs hp) (c0 : K) (cs : List K) :
    NonExp (e.ofOp A hs hp) A (polyFn A c0 cs) ↔
      ∀ v, (e.ofOp A hs hp).en (polyOp A c0 cs (A v)) ≤ 2 * (e.ofOp A hs hp).a (polyOp A c0 cs (A v)) v :=
  linIter_nonexp_iff _ (polynomial_isLinIter A c0 cs)

/-- **sufficient condition**: `A` symmetric PSD for `e`; `0 ≤ a(p(A)A v, v) ≤ 2 a(v, v)` with
`a(u, v) = e(A u, v)`, i.e. `0 ≤ λ p(λ) ≤ 2`, i.e. `|1 − λ p(λ)| ≤ 1`, as quadratic forms -/
theorem polynomial_nonexp (e : EForm K V) (A : V →ₗ[K] V) (hs hp) (c0 : K) (cs : List K)
    (h0 : ∀ v, 0 ≤ e.a (A (polyOp A c0 cs (A v))) v)
    (h2 : ∀ v, e.a (A (polyOp A c0 cs (A v))) v ≤ 2 * e.a (A v) v) :
    NonExp (e.ofOp A hs hp) A (polyFn A c0 cs) :=
  sym_linIter_energy_nonexp e hs hp (polynomial_isLinIter A c0 cs) (polyOp_adj e A hs c0 cs) h0 h2

/-- `iterations = k` -/
theorem polynomial_iter_nonexp (e : EForm K V) (A : V →ₗ[K] V) (hs hp) (c0 : K) (cs : List K)
    (h0 : ∀ v, 0 ≤ e.a (A (polyOp A c0 cs (A v))) v)
    (h2 : ∀ v, e.a (A (polyOp A c0 cs (A v))) v ≤ 2 * e.a (A v) v) (k : Nat) :
    NonExp (e.ofOp A hs hp) A (fun x b => iter (polyFn A c0 cs) b k x) :=
  fun x b xs hb => (polynomial_nonexp e A hs hp c0 cs h0 h2).iter k x b xs hb

/-! ### the spectral form of the hypothesis -/

section spectrum
variable {ι : Type*} [Fintype ι] [DecidableEq ι]

/-- energy of a combination of `e`-orthogonal eigenvectors -/
theorem eigen_energy (e : EForm K V) (A : V →ₗ[K] V) (lam : ι → K) (u : ι → V)
    (heig : ∀ i, A (u i) = lam i • u i) (horth : ∀ i j, i ≠ j → e.a (u i) (u j) = 0) (c : ι → K) :
    e.a (A (∑ i, c i • u i)) (∑ i, c i • u i) = ∑ i, c i * c i * (lam i * e.a (u i) (u i)) := by
  simp only [map_sum, map_smul, LinearMap.sum_apply, LinearMap.smul_apply, smul_eq_mul, heig]
  apply Finset.sum_congr rfl
  intro i _
  rw [Finset.sum_eq_single i]
  · ring
  · intro j _ hj; rw [horth j i hj]; ring
  · intro h; exact absurd (Finset.mem_univ i) h

/-- **the hypothesis the check verifies per level**: if `A` has an `e`-orthogonal eigenbasis `u i`
(eigenvalues `lam i`; this is what the spectral theorem provides for symmetric `A`) and
`|1 − λ p(λ)| ≤ 1` for every eigenvalue, then `polynomial` (Chebyshev, Richardson) never increases the energy
norm of the error -/
theorem polynomial_nonexp_of_spectrum (e : EForm K V) (A : V →ₗ[K] V) (hs hp) (c0 : K) (cs : List K)
    (lam : ι → K) (u : ι → V)
    (heig : ∀ i, A (u i) = lam i • u i) (horth : ∀ i j, i ≠ j → e.a (u i) (u j) = 0)
    (hspan : ∀ v, ∃ c : ι → K, v = ∑ i, c i • u i)
    (hbound : ∀ i, |1 - lam i * polyScalar c0 cs (lam i)| ≤ 1) :
    NonExp (e.ofOp A hs hp) A (polyFn A c0 cs) := by
  intro x b xs hb
  rw [polynomial_error A c0 cs x xs b hb]
  obtain ⟨c, hc⟩ := hspan (xs - x)
  set q : ι → K := fun i => 1 - lam i * polyScalar c0 cs (lam i) with hq
  have hnew : (xs - x) - polyOp A c0 cs (A (xs - x)) = ∑ i, (c i * q i) • u i := by
    rw [hc]
    simp only [map_sum, map_smul, heig, polyOp_eigen A c0 cs _ _ (heig _)]
    rw [← Finset.sum_sub_distrib]
    apply Finset.sum_congr rfl
    intro i _
    simp only [hq, smul_smul, ← sub_smul]
    congr 1; ring
  rw [hnew]
  show e.a (A _) _ ≤ e.a (A _) _
  rw [hc, eigen_energy e A lam u heig horth, eigen_energy e A lam u heig horth]
  apply Finset.sum_le_sum
  intro i _
  have hle : 0 ≤ lam i * e.a (u i) (u i) := by
    have := hp (u i); rw [heig, map_smul, LinearMap.smul_apply, smul_eq_mul] at this; exact this
  have hq2 : q i * q i ≤ 1 := by
    have := abs_le.1 (hbound i)
    have h1 : -1 ≤ q i := this.1
    have h2 : q i ≤ 1 := this.2
    nlinarith
  have hcc : 0 ≤ c i * c i := mul_self_nonneg _
  have : c i * q i * (c i * q i) * (lam i * e.a (u i) (u i)) =
      (q i * q i) * (c i * c i * (lam i * e.a (u i) (u i))) := by ring
  rw [this]
  have hnn : 0 ≤ c i * c i * (lam i * e.a (u i) (u i)) := mul_nonneg hcc hle
  nlinarith

end spectrum

/-! ## 2. Richardson, weighted Jacobi, block Jacobi -/

/-- **Richardson is the polynomial smoother of degree 0** (`richardson(A, x, b, omega)` with coefficient
`ω = omega/ρ`) -/
theorem richardson_is_polynomial (A : V →ₗ[K] V) (ω : K) (x b : V) :
    polyFn A ω [] x b = x + ω • (b - A x) := by
  rw [polynomial_isLinIter A ω [] x b]; simp [polyOp]

theorem richardson_isLinIter (A : V →ₗ[K] V) (ω : K) :
    IsLinIter A (fun x b => x + ω • (b - A x)) (ω • LinearMap.id) := by
  intro x b; simp

/-- Richardson through the polynomial theorem: `0 ≤ ω` and `ω a(A v, v) ≤ 2 a(v, v)` -/
theorem richardson_polynomial_nonexp (e : EForm K V) (A : V →ₗ[K] V) (hs hp) (ω : K) (h0 : 0 ≤ ω)
    (hD : ∀ r, ω * e.a (A r) r ≤ 2 * e.a r r) :
    NonExp (e.ofOp A hs hp) A (polyFn A ω []) := by
  have := richardson_nonexp e A hs hp ω h0 hD
  intro x b xs hb
  rw [richardson_is_polynomial]
  exact this x b xs hb

/-- weighted Jacobi / block Jacobi `x ← x + ω Dinv (b − A x)` is a linear iteration with `Q = ω Dinv` -/
theorem jacobi_isLinIter (A Dinv : V →ₗ[K] V) (ω : K) :
    IsLinIter A (fun x b => x + ω • Dinv (b - A x)) (ω • Dinv) := by
  intro x b; simp

theorem jacobi_op_fixed_point (A Dinv : V →ₗ[K] V) (ω : K) (xs b : V) (hb : A xs = b) :
    xs + ω • Dinv (b - A xs) = xs :=
  (jacobi_isLinIter A Dinv ω).fixed_point xs b hb

/-- **weighted / block Jacobi under `ω A ≤ 2 D`**: `Dinv` a right inverse of the (block) diagonal `D`,
`0 ≤ ω`, `ω e(A w, w) ≤ 2 e(D w, w)` for all `w` -/
theorem jacobi_nonexp_of_bound (e : EForm K V) (A D Dinv : V →ₗ[K] V) (hs hp) (ω : K) (h0 : 0 ≤ ω)
    (hinv : ∀ r, D (Dinv r) = r) (hb : ∀ w, ω * e.a (A w) w ≤ 2 * e.a (D w) w) :
    NonExp (e.ofOp A hs hp) A (fun x b => x + ω • Dinv (b - A x)) := by
  apply jacobi_nonexp e A Dinv hs hp ω h0
  intro r
  have := hb (Dinv r)
  rw [hinv r, e.symm r (Dinv r)] at this
  exact this

/-- the formula the `block_jacobi` (and `jacobi`) kernel evaluates per block row:
`x_i ← (1−ω) x_i + ω Dinv_i (b_i − Σ_{j≠i} A_ij x_j)`, with `N` the off-(block-)diagonal part -/
def blockJacobiFn (N Dinv : V →ₗ[K] V) (ω : K) (x b : V) : V := (1 - ω) • x + ω • Dinv (b - N x)

/-- ... is `x + ω Dinv (b − A x)` when `A = D + N` and `Dinv D = I` -/
theorem blockJacobi_eq_operator (A D N Dinv : V →ₗ[K] V) (ω : K) (hA : A = D + N)
    (hinv : ∀ x, Dinv (D x) = x) (x b : V) :
    blockJacobiFn N Dinv ω x b = x + ω • Dinv (b - A x) := by
  unfold blockJacobiFn
  have : b - N x = (b - A x) + D x := by rw [hA, LinearMap.add_apply]; abel
  rw [this, map_add, hinv, smul_add, sub_smul, one_smul]; abel

theorem blockJacobi_isLinIter (A D N Dinv : V →ₗ[K] V) (ω : K) (hA : A = D + N)
    (hinv : ∀ x, Dinv (D x) = x) : IsLinIter A (blockJacobiFn N Dinv ω) (ω • Dinv) := by
  intro x b
  rw [blockJacobi_eq_operator A D N Dinv ω hA hinv]
  exact jacobi_isLinIter A Dinv ω x b

theorem blockJacobi_nonexp (e : EForm K V) (A D N Dinv : V →ₗ[K] V) (hs hp) (ω : K) (h0 : 0 ≤ ω)
    (hA : A = D + N) (hl : ∀ x, Dinv (D x) = x) (hr : ∀ r, D (Dinv r) = r)
    (hb : ∀ w, ω * e.a (A w) w ≤ 2 * e.a (D w) w) :
    NonExp (e.ofOp A hs hp) A (blockJacobiFn N Dinv ω) := by
  intro x b xs hxs
  rw [blockJacobi_eq_operator A D N Dinv ω hA hl]
  exact jacobi_nonexp_of_bound e A D Dinv hs hp ω h0 hr hb x b xs hxs

#print axioms polynomial_nonexp
#print axioms polynomial_nonexp_of_spectrum
#print axioms polyOp_eq_sum
#print axioms blockJacobi_nonexp
end PyamgV
