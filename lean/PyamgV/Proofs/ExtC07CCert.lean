import PyamgV.Proofs.ExtC07CRat
import PyamgV.Model.ExtC07CCert

/-! PyamgV (C07, extension E37): the complex certificate checker `certVH` of `Model/ExtC07CCert.lean` is sound -- the
oracle of the failing-input search does not have to be trusted for complex systems either: whatever produced
`(d, y)`, if `certVH star G vs t x0 d y = true` (`y = x0 + Σ d_i v_i` and `v_iᴴ G (t − y) = 0` for every `i`, decided
exactly over the field) and `G` is Hermitian positive semidefinite, then `y` minimises `re ((t − y)ᴴ G (t − y))` over
`x0 + span_K{v_i}`.  Complex counterpart of `Proofs/C07Cert.lean`; `certVH_crat_sound` is the instance the driver
runs (op `ext_c07c_argmin`), `isHermV_sound` the Hermitian test it performs on `G`. -/
set_option linter.unusedSectionVars false
namespace PyamgV.C07.CH
open PyamgV.CHerm PyamgV.C07

variable {K F : Type} [Field K] [StarRing K] [DecidableEq K] [Field F] [LinearOrder F] [IsStrictOrderedRing F] {n : Nat}

/-- `x + Σ c_i v_i` in a module -/
def combM {V : Type} [AddCommGroup V] [Module K V] : V → List K → List V → V
  | x, c :: cs, v :: vs => combM (x + c • v) cs vs
  | x, [], _ => x
  | x, _ :: _, [] => x

theorem toFn_combV' (x : Vector K n) (d : List K) (vs : List (Vector K n)) :
    toFn (combV x d vs) = combM (toFn x) d (vs.map toFn) := by
  induction d generalizing x vs with
  | nil => cases vs <;> simp [combV, combM]
  | cons c cs ih =>
    cases vs with
    | nil => simp [combV, combM]
    | cons v vs =>
      simp only [combV, combM, List.map_cons]
      rw [ih, toFn_add, toFn_smul]

theorem combM_mem {V : Type} [AddCommGroup V] [Module K V] (x : V) (d : List K) (vs : List V) :
    combM x d vs - x ∈ Submodule.span K {v | v ∈ vs} := by
  induction d generalizing x vs with
  | nil => cases vs <;> simp [combM]
  | cons c cs ih =>
    cases vs with
    | nil => simp [combM]
    | cons v vs =>
      simp only [combM]
      have h1 : combM (x + c • v) cs vs - (x + c • v) ∈ Submodule.span K {w | w ∈ v :: vs} :=
        Submodule.span_mono (fun w hw => List.mem_cons_of_mem v hw) (ih (x + c • v) vs)
      have h2 : c • v ∈ Submodule.span K {w | w ∈ v :: vs} :=
        Submodule.smul_mem _ _ (Submodule.subset_span (List.mem_cons_self))
      have : combM (x + c • v) cs vs - x = (combM (x + c • v) cs vs - (x + c • v)) + c • v := by abel
      rw [this]; exact Submodule.add_mem _ h1 h2

/-- **soundness of the complex certificate**: an accepted `(d, y)` lies in `x0 + span_K{v_i}` and minimises
`re ((t − ·)ᴴ G (t − ·))` over it -/
theorem certVH_sound (R : ReMap K F) (G : Vector (Vector K n) n) (vs : List (Vector K n)) (t x0 : Vector K n)
    (d : List K) (y : Vector K n) (hG : IsHerm G) (hpsd : ∀ v, 0 ≤ R.re ((dotH R n).h (linOf G v) v))
    (h : certVH star G vs t x0 d y = true) :
    toFn y - toFn x0 ∈ Submodule.span K {w | w ∈ vs.map toFn} ∧
    ∀ z : Vector K n, toFn z - toFn x0 ∈ Submodule.span K {w | w ∈ vs.map toFn} →
      energyH R G (subV t y) ≤ energyH R G (subV t z) := by
  unfold certVH at h
  rw [Bool.and_eq_true, decide_eq_true_eq, List.all_eq_true] at h
  obtain ⟨hy, horth⟩ := h
  have hs := linOf_herm R hG
  let E := (dotH R n).aForm (linOf G) hs hpsd
  set W := Submodule.span K {w | w ∈ vs.map toFn} with hW
  have hperp : ∀ w ∈ W, E.h (toFn t - toFn y) w = 0 := by
    apply E.orth_span
    intro w hw
    obtain ⟨v, hv, rfl⟩ := List.mem_map.mp hw
    have h0 := horth v hv
    rw [decide_eq_true_eq, vdot_conj_eq, toFn_vmv, toFn_sub] at h0
    exact (dotH R n).orth_symm h0
  have hy' : toFn y - toFn x0 ∈ W := by
    rw [← hy, toFn_combV']; exact combM_mem _ _ _
  refine ⟨hy', fun z hz => ?_⟩
  have key := E.proj_optimal (toFn t) (toFn x0) (toFn y) W hy' hperp (toFn z) hz
  rw [energyH_eq, energyH_eq, toFn_subH, toFn_subH]
  exact key

/-- … in particular against every explicit combination `x0 + Σ d'_i v_i` -/
theorem certVH_sound_comb (R : ReMap K F) (G : Vector (Vector K n) n) (vs : List (Vector K n)) (t x0 : Vector K n)
    (d : List K) (y : Vector K n) (hG : IsHerm G) (hpsd : ∀ v, 0 ≤ R.re ((dotH R n).h (linOf G v) v))
    (h : certVH star G vs t x0 d y = true) (d' : List K) :
    energyH R G (subV t y) ≤ energyH R G (subV t (combV x0 d' vs)) :=
  (certVH_sound R G vs t x0 d y hG hpsd h).2 _ (by rw [toFn_combV']; exact combM_mem _ _ _)

/-- the Hermitian test of the driver decides `IsHerm` -/
theorem isHermV_sound (G : Vector (Vector K n) n) (h : isHermV star G = true) : IsHerm G := by
  intro i j
  unfold isHermV at h
  rw [List.all_eq_true] at h
  have h1 := h i (List.mem_finRange i)
  rw [List.all_eq_true] at h1
  have h2 := h1 j (List.mem_finRange j)
  exact of_decide_eq_true h2

/-- a Gram matrix is positive semidefinite: if `G` acts as `Bᴴ B` then `0 ≤ re (vᴴ G v)` -/
theorem gram_psd (R : ReMap K F) (G B : Vector (Vector K n) n)
    (hGB : ∀ v, linOf G v = linOf (vctrans star B) (linOf B v)) (v : Fin n → K) :
    0 ≤ R.re ((dotH R n).h (linOf G v) v) := by
  rw [hGB, linOf_adjH R B]
  exact (dotH R n).nonneg _

/-- **the instance the driver runs** (Gaussian rationals, op `ext_c07c_argmin`) -/
theorem certVH_crat_sound (G : Vector (Vector CRat n) n) (vs : List (Vector CRat n)) (t x0 : Vector CRat n)
    (d : List CRat) (y : Vector CRat n) (hG : isHermV CRat.conj G = true)
    (hpsd : ∀ v, 0 ≤ ((dotH cratRe n).h (linOf G v) v).re)
    (h : certVH CRat.conj G vs t x0 d y = true) :
    toFn y - toFn x0 ∈ Submodule.span CRat {w | w ∈ vs.map toFn} ∧
    ∀ z : Vector CRat n, toFn z - toFn x0 ∈ Submodule.span CRat {w | w ∈ vs.map toFn} →
      energyC G (subV t y) ≤ energyC G (subV t z) :=
  certVH_sound cratRe G vs t x0 d y (isHermV_sound G hG) hpsd h

#print axioms certVH_sound
#print axioms certVH_crat_sound
#print axioms isHermV_sound
end PyamgV.C07.CH
