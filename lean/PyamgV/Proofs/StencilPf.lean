import PyamgV.Model.Stencil

/-! PyamgV (C20): mixed-radix facts behind `stencil_grid` — `coords` and `strides` are inverse to
the row-major linear index, and shifting the coordinates by a stencil offset changes the linear
index by `dot strides off`. Core only (nonlinear arithmetic by hand). -/
namespace PyamgV.Stencil

/-- row-major linear index -/
def lin : List Nat → List Nat → Nat
  | [], _ => 0
  | _ :: _, [] => 0
  | g :: gs, c :: cs => c * (gs.foldl (· * ·) 1) + lin gs cs

def prod (grid : List Nat) : Nat := grid.foldl (· * ·) 1

theorem foldl_mul_eq (l : List Nat) (a : Nat) : l.foldl (· * ·) a = a * l.foldl (· * ·) 1 := by
  induction l generalizing a with
  | nil => simp
  | cons x xs ih =>
    simp only [List.foldl_cons]
    rw [ih (a * x), ih (1 * x)]
    simp [Nat.mul_assoc]

theorem prod_cons (g : Nat) (gs : List Nat) : prod (g :: gs) = g * prod gs := by
  unfold prod; simp only [List.foldl_cons]; rw [foldl_mul_eq]; simp

/-- coordinates, defined by recursion from the most significant digit -/
def coordsR : List Nat → Nat → List Nat
  | [], _ => []
  | _ :: gs, idx => (idx / prod gs) :: coordsR gs (idx % prod gs)

def InRange : List Nat → List Nat → Prop
  | [], [] => True
  | g :: gs, c :: cs => c < g ∧ InRange gs cs
  | _, _ => False

theorem prod_pos_of_inrange : ∀ (grid c : List Nat), InRange grid c → 0 < prod grid := by
  intro grid
  induction grid with
  | nil => intro c _; simp [prod]
  | cons g gs ih =>
    intro c h
    cases c with
    | nil => exact absurd h (by simp [InRange])
    | cons c cs =>
      rw [prod_cons]
      exact Nat.mul_pos (by have := h.1; omega) (ih cs h.2)

theorem lin_lt : ∀ (grid c : List Nat), InRange grid c → lin grid c < prod grid := by
  intro grid
  induction grid with
  | nil => intro c h; cases c <;> simp_all [InRange, lin, prod]
  | cons g gs ih =>
    intro c h
    cases c with
    | nil => exact absurd h (by simp [InRange])
    | cons c cs =>
      have h1 := h.1
      have h2 := ih cs h.2
      show c * prod gs + lin gs cs < prod (g :: gs)
      rw [prod_cons]
      calc c * prod gs + lin gs cs < c * prod gs + prod gs := by omega
        _ = (c + 1) * prod gs := by rw [Nat.add_mul, Nat.one_mul]
        _ ≤ g * prod gs := Nat.mul_le_mul_right _ (by omega)

/-- `coordsR` inverts `lin` -/
theorem coordsR_lin : ∀ (grid c : List Nat), InRange grid c → coordsR grid (lin grid c) = c := by
  intro grid
  induction grid with
  | nil => intro c h; cases c <;> simp_all [InRange, coordsR]
  | cons g gs ih =>
    intro c h
    cases c with
    | nil => exact absurd h (by simp [InRange])
    | cons c cs =>
      have hlt := lin_lt gs cs h.2
      have hpos : 0 < prod gs := by omega
      show (c * prod gs + lin gs cs) / prod gs :: coordsR gs ((c * prod gs + lin gs cs) % prod gs) = c :: cs
      have e1 : (c * prod gs + lin gs cs) / prod gs = c := by
        rw [Nat.mul_comm, Nat.mul_add_div hpos, Nat.div_eq_of_lt hlt]; omega
      have e2 : (c * prod gs + lin gs cs) % prod gs = lin gs cs := by
        rw [Nat.mul_comm, Nat.mul_add_mod, Nat.mod_eq_of_lt hlt]
      rw [e1, e2, ih cs h.2]

/-- `lin` inverts `coordsR`, and the coordinates are in range -/
theorem lin_coordsR : ∀ (grid : List Nat) (idx : Nat), idx < prod grid →
    InRange grid (coordsR grid idx) ∧ lin grid (coordsR grid idx) = idx := by
  intro grid
  induction grid with
  | nil => intro idx h; simp [prod] at h; subst h; simp [coordsR, InRange, lin]
  | cons g gs ih =>
    intro idx h
    rw [prod_cons] at h
    have hpos : 0 < prod gs := by
      rcases Nat.eq_zero_or_pos (prod gs) with h0 | h0
      · rw [h0] at h; omega
      · exact h0
    have hm := Nat.mod_lt idx hpos
    obtain ⟨r1, r2⟩ := ih (idx % prod gs) hm
    refine ⟨⟨?_, r1⟩, ?_⟩
    · exact (Nat.div_lt_iff_lt_mul hpos).2 h
    · show idx / prod gs * prod gs + lin gs (coordsR gs (idx % prod gs)) = idx
      rw [r2]; exact Nat.div_add_mod' idx (prod gs)

#print axioms coordsR_lin
#print axioms lin_coordsR
end PyamgV.Stencil

namespace PyamgV.Stencil

/-- the model's `coords` (least-significant digit first, via `foldr`) agrees with `coordsR` -/
theorem coords_fold (gs : List Nat) (idx : Nat) :
    gs.foldr (fun g (acc : List Nat × Nat) => ((acc.2 % g) :: acc.1, acc.2 / g)) ([], idx)
      = (coordsR gs (idx % prod gs), idx / prod gs) := by
  induction gs with
  | nil => simp [coordsR, prod]
  | cons g gs ih =>
    simp only [List.foldr_cons, ih, prod_cons, coordsR]
    have e1 : idx % (g * prod gs) / prod gs = idx / prod gs % g := by
      rw [Nat.mul_comm]; exact Nat.mod_mul_right_div_self idx (prod gs) g
    have e2 : idx % (g * prod gs) % prod gs = idx % prod gs := by
      rw [Nat.mul_comm]; exact Nat.mod_mul_right_mod idx (prod gs) g
    have e3 : idx / (g * prod gs) = idx / prod gs / g := by
      rw [Nat.mul_comm, Nat.div_div_eq_div_mul]
    rw [e1, e2, e3]

theorem coords_eq (grid : List Nat) (idx : Nat) (h : idx < prod grid) :
    coords grid idx = coordsR grid idx := by
  unfold coords; rw [coords_fold, Nat.mod_eq_of_lt h]

theorem strides_fold (gs : List Nat) :
    gs.foldr (fun g (acc : List Nat × Nat) => (acc.2 :: acc.1, acc.2 * g)) ([], 1)
      = (match gs with | [] => [] | _ :: t => prod t :: (t.foldr (fun g (acc : List Nat × Nat) => (acc.2 :: acc.1, acc.2 * g)) ([], 1)).1, prod gs) := by
  induction gs with
  | nil => simp [prod]
  | cons g gs ih =>
    simp only [List.foldr_cons]
    rw [ih]
    simp only [prod_cons]
    rw [Nat.mul_comm]

theorem strides_cons (g : Nat) (gs : List Nat) : strides (g :: gs) = prod gs :: strides gs := by
  unfold strides
  rw [strides_fold (g :: gs)]

/-- integer dot product, written recursively -/
theorem dot_cons (s : Nat) (ss : List Nat) (o : Int) (os : List Int) :
    dot (s :: ss) (o :: os) = (s : Int) * o + dot ss os := by
  unfold dot
  simp only [List.zipWith_cons_cons, List.foldl_cons]
  have : ∀ (l : List Int) (a : Int), l.foldl (· + ·) a = a + l.foldl (· + ·) 0 := by
    intro l; induction l with
    | nil => intro a; simp
    | cons x xs ih => intro a; simp only [List.foldl_cons]; rw [ih (a + x), ih (0 + x)]; omega
  rw [this]; omega

/-- componentwise shift relation `cq = cp + off`, all lists of the grid's length -/
def Shift : List Nat → List Int → List Nat → List Nat → Prop
  | [], [], [], [] => True
  | _ :: gs, o :: os, p :: ps, q :: qs => (q : Int) = (p : Int) + o ∧ Shift gs os ps qs
  | _, _, _, _ => False

/-- **shift lemma**: moving by `off` in coordinates moves by `dot strides off` in linear index -/
theorem lin_shift : ∀ (grid : List Nat) (off : List Int) (cp cq : List Nat),
    Shift grid off cp cq → (lin grid cq : Int) = (lin grid cp : Int) + dot (strides grid) off := by
  intro grid
  induction grid with
  | nil => intro off cp cq h; cases off <;> cases cp <;> cases cq <;> simp_all [Shift, lin, strides, dot]
  | cons g gs ih =>
    intro off cp cq h
    cases off with
    | nil => cases cp <;> cases cq <;> simp [Shift] at h
    | cons o os =>
      cases cp with
      | nil => cases cq <;> simp [Shift] at h
      | cons p ps =>
        cases cq with
        | nil => simp [Shift] at h
        | cons q qs =>
          obtain ⟨h1, h2⟩ := h
          have := ih os ps qs h2
          rw [strides_cons, dot_cons]
          show ((q * prod gs + lin gs qs : Nat) : Int) = ((p * prod gs + lin gs ps : Nat) : Int) + _
          push_cast
          rw [this, h1]
          simp only [Int.add_mul]
          rw [Int.mul_comm o (prod gs : Int)]
          omega

#print axioms lin_shift
end PyamgV.Stencil

namespace PyamgV.Stencil

theorem head_ok (g : Nat) (o : Int) (c : Nat) :
    ((if o > 0 then decide ((c : Int) ≥ o) else true) &&
      (if o < 0 then decide ((c : Int) < (g : Int) + o) else true)) = true ↔
    ((o > 0 → (c : Int) ≥ o) ∧ (o < 0 → (c : Int) < (g : Int) + o)) := by
  by_cases h1 : o > 0 <;> by_cases h2 : o < 0 <;> simp [h1, h2]

theorem keep_cons (g : Nat) (gs : List Nat) (o : Int) (os : List Int) (c : Nat) (cs : List Nat) :
    keep (g :: gs) (o :: os) (c :: cs) =
      (((if o > 0 then decide ((c : Int) ≥ o) else true) &&
        (if o < 0 then decide ((c : Int) < (g : Int) + o) else true)) && keep gs os cs) := by
  simp [keep]

/-- the boundary test of the model is exactly "the shifted coordinates stay inside the grid" -/
theorem keep_iff : ∀ (grid : List Nat) (off : List Int) (c : List Nat), InRange grid c →
    off.length = grid.length →
    (keep grid off c = true ↔ ∃ cp, InRange grid cp ∧ Shift grid off cp c) := by
  intro grid
  induction grid with
  | nil =>
    intro off c hc hl
    cases c with
    | nil =>
      cases off with
      | nil => simp [keep, InRange, Shift]; exact ⟨[], by simp [InRange], by simp [Shift]⟩
      | cons o os => simp at hl
    | cons c cs => exact absurd hc (by simp [InRange])
  | cons g gs ih =>
    intro off c hc hl
    cases c with
    | nil => exact absurd hc (by simp [InRange])
    | cons c cs =>
      cases off with
      | nil => simp at hl
      | cons o os =>
        have hl' : os.length = gs.length := by simpa using hl
        have hcg := hc.1
        rw [keep_cons, Bool.and_eq_true, head_ok]
        constructor
        · rintro ⟨⟨h1, h2⟩, hrest⟩
          obtain ⟨cp, hcp, hs⟩ := (ih os cs hc.2 hl').1 hrest
          have hlo : (0 : Int) ≤ (c : Int) - o := by
            by_cases ho : o > 0
            · have := h1 ho; omega
            · omega
          have hhi : (c : Int) - o < g := by
            by_cases ho : o < 0
            · have := h2 ho; omega
            · omega
          refine ⟨((c : Int) - o).toNat :: cp, ⟨by omega, hcp⟩, ?_, hs⟩
          omega
        · rintro ⟨cp, hcp, hs⟩
          cases cp with
          | nil => exact absurd hs (by simp [Shift])
          | cons p ps =>
            obtain ⟨hs1, hs2⟩ := hs
            have hp := hcp.1
            refine ⟨⟨fun _ => by omega, fun _ => by omega⟩, ?_⟩
            exact (ih os cs hc.2 hl').2 ⟨ps, hcp.2, hs2⟩

/-- the triples contributed by one stencil entry -/
def contrib (grid : List Nat) (off : List Int) (v : Rat) : List (Nat × Nat × Rat) :=
  let nv := grid.foldl (· * ·) 1
  let d := dot (strides grid) off
  if d.natAbs ≥ nv then [] else
    (List.range nv).filterMap (fun (j : Nat) =>
      let r : Int := (j : Int) - d
      if r < 0 ∨ r ≥ (nv : Int) then none
      else if keep grid off (coords grid j) then some (r.toNat, j, v) else none)

theorem stencilGrid_eq (grid : List Nat) (sten : List (List Int × Rat)) :
    stencilGrid grid sten = sten.flatMap (fun ov => contrib grid ov.1 ov.2) := by
  unfold stencilGrid
  have : ∀ (l : List (List Int × Rat)) (acc : List (Nat × Nat × Rat)),
      l.foldl (fun acc ov =>
        let d := dot (strides grid) ov.1
        if d.natAbs ≥ grid.foldl (· * ·) 1 then acc else
          acc ++ (List.range (grid.foldl (· * ·) 1)).filterMap (fun (j : Nat) =>
            let r : Int := (j : Int) - d
            if r < 0 ∨ r ≥ ((grid.foldl (· * ·) 1 : Nat) : Int) then none
            else if keep grid ov.1 (coords grid j) then some (r.toNat, j, ov.2) else none)) acc
      = acc ++ l.flatMap (fun ov => contrib grid ov.1 ov.2) := by
    intro l
    induction l with
    | nil => intro acc; simp
    | cons ov rest ih =>
      intro acc
      simp only [List.foldl_cons, List.flatMap_cons]
      rw [ih]
      unfold contrib
      simp only
      split
      · simp
      · simp [List.append_assoc]
  simpa using this sten []

/-- **C20, stencil_grid**: the triples contributed by stencil entry `(off, v)` are exactly
`(p, q, v)` for the pairs of grid points with `coords q = coords p + off` (both inside the grid):
homogeneous Dirichlet truncation, for every dimension, grid shape and stencil shape. -/
theorem contrib_mem (grid : List Nat) (off : List Int) (v : Rat) (hl : off.length = grid.length)
    (p q : Nat) (w : Rat) :
    (p, q, w) ∈ contrib grid off v ↔
      w = v ∧ q < prod grid ∧ p < prod grid ∧ Shift grid off (coordsR grid p) (coordsR grid q) := by
  have hnv : grid.foldl (· * ·) 1 = prod grid := rfl
  unfold contrib
  simp only [hnv]
  constructor
  · intro h
    split at h
    · exact absurd h (by simp)
    · rename_i hd
      simp only [List.mem_filterMap, List.mem_range] at h
      obtain ⟨j, hj, hsome⟩ := h
      split at hsome
      · exact absurd hsome (by simp)
      · rename_i hr
        split at hsome
        · rename_i hk
          simp only [Option.some.injEq, Prod.mk.injEq] at hsome
          obtain ⟨e1, e2, e3⟩ := hsome
          subst e2
          rw [coords_eq grid j hj] at hk
          obtain ⟨hrg, hlj⟩ := lin_coordsR grid j hj
          obtain ⟨cp, hcp, hs⟩ := (keep_iff grid off (coordsR grid j) hrg hl).1 hk
          have hsh := lin_shift grid off cp (coordsR grid j) hs
          rw [hlj] at hsh
          have hp : p = lin grid cp := by omega
          refine ⟨e3.symm, hj, ?_, ?_⟩
          · rw [hp]; exact lin_lt grid cp hcp
          · rw [hp, coordsR_lin grid cp hcp]; exact hs
        · exact absurd hsome (by simp)
  · rintro ⟨hw, hq, hp, hs⟩
    obtain ⟨hrq, hlq⟩ := lin_coordsR grid q hq
    obtain ⟨hrp, hlp⟩ := lin_coordsR grid p hp
    have hsh := lin_shift grid off (coordsR grid p) (coordsR grid q) hs
    rw [hlq, hlp] at hsh
    have hd : ¬ (dot (strides grid) off).natAbs ≥ prod grid := by omega
    rw [if_neg hd]
    simp only [List.mem_filterMap, List.mem_range]
    refine ⟨q, hq, ?_⟩
    have hr : ¬ ((q : Int) - dot (strides grid) off < 0 ∨ (q : Int) - dot (strides grid) off ≥ (prod grid : Int)) := by omega
    rw [if_neg hr]
    have hk : keep grid off (coords grid q) = true := by
      rw [coords_eq grid q hq]
      exact (keep_iff grid off (coordsR grid q) hrq hl).2 ⟨coordsR grid p, hrp, hs⟩
    rw [if_pos hk]
    simp only [Option.some.injEq, Prod.mk.injEq]
    exact ⟨by omega, trivial, hw.symm⟩

#print axioms contrib_mem
#print axioms stencilGrid_eq
end PyamgV.Stencil
