import PyamgV.Proofs.FitCand
import Mathlib.Algebra.BigOperators.Ring.Finset
import Mathlib.Algebra.Order.BigOperators.Ring.Finset
import Mathlib.Algebra.BigOperators.Pi
import Mathlib.Algebra.Module.Pi

/-! PyamgV (C10): assembly of the per-aggregate Gram–Schmidt blocks of `fit_candidates` into the
tentative prolongator `T`.

Unknowns (dofs) `ι`, aggregates `α`, `agg : ι → Option α` (`none` = the unknown belongs to a node the
aggregation left out; nodal blocks only matter for the memory layout, every dof of a node has the
node's aggregate).  The kernel copies the rows of `B` that belong to aggregate `a` and runs the
modified Gram–Schmidt loop `GS.mgs` on them; here the local vectors are the *masked* candidates
`fun i => if agg i = some a then B i c else 0` in `ι → K` with the Euclidean form `dotForm`, which is
the same computation (rows outside the aggregate are zero and stay zero, `masked_support`).
Column `(a, c)` of `T` is `(fitAgg … a).q[c]`, the coarse candidates `B_c[(a, c'), c]` are the entries
of `(fitAgg … a).r`. -/
namespace PyamgV.C10
open PyamgV PyamgV.GS

variable {K : Type*} [Field K] [LinearOrder K] [IsStrictOrderedRing K]
variable {ι : Type*} [Fintype ι]

/-- the Euclidean inner product on `ι → K` -/
def dotForm : EForm K (ι → K) where
  a := LinearMap.mk₂ K (fun u v => ∑ i, u i * v i)
    (fun u u' v => by simp [add_mul, Finset.sum_add_distrib])
    (fun c u v => by simp [Finset.mul_sum, mul_assoc])
    (fun u v v' => by simp [mul_add, Finset.sum_add_distrib])
    (fun c u v => by simp [Finset.mul_sum, mul_left_comm])
  symm := fun u v => by simp [LinearMap.mk₂_apply, mul_comm]
  nonneg := fun v => by
    simp only [LinearMap.mk₂_apply]
    exact Finset.sum_nonneg (fun i _ => mul_self_nonneg (v i))

theorem dotForm_apply (u v : ι → K) : (dotForm (K := K)).a u v = ∑ i, u i * v i := by
  simp [dotForm, LinearMap.mk₂_apply]

theorem dotForm_definite (v : ι → K) (h : (dotForm (K := K)).a v v = 0) : v = 0 := by
  rw [dotForm_apply] at h
  have h' := (Finset.sum_eq_zero_iff_of_nonneg (fun i _ => mul_self_nonneg (v i))).1 h
  funext i
  exact mul_self_eq_zero.1 (h' i (Finset.mem_univ i))

variable {α : Type*} [DecidableEq α]

/-- candidate column `c` restricted to aggregate `a` -/
def masked (agg : ι → Option α) (B : ι → Nat → K) (a : α) (c : Nat) : ι → K :=
  fun i => if agg i = some a then B i c else 0

/-- what the kernel does for aggregate `a` with `K2` candidates -/
def fitAgg (sqrt : K → K) (tol : K) (agg : ι → Option α) (B : ι → Nat → K) (K2 : Nat) (a : α) :
    GS.Out K (ι → K) :=
  GS.mgs dotForm sqrt tol ((List.range K2).map (masked agg B a)) []

/-- vanishing outside aggregate `a` -/
def SuppIn (agg : ι → Option α) (a : α) (v : ι → K) : Prop := ∀ i, agg i ≠ some a → v i = 0

theorem suppIn_masked (agg : ι → Option α) (B : ι → Nat → K) (a : α) (c : Nat) :
    SuppIn agg a (masked agg B a c) := by
  intro i hi; simp [masked, hi]

theorem suppIn_sub_smul (agg : ι → Option α) (a : α) (u v : ι → K) (d : K)
    (hu : SuppIn agg a u) (hv : SuppIn agg a v) : SuppIn agg a (u - d • v) := by
  intro i hi; simp [hu i hi, hv i hi]

theorem orth_supp (agg : ι → Option α) (a : α) (e : EForm K (ι → K)) :
    ∀ (qs : List (ι → K)) (v : ι → K), (∀ q ∈ qs, SuppIn agg a q) → SuppIn agg a v →
      SuppIn agg a (orth e qs v).1 := by
  intro qs
  induction qs with
  | nil => intro v _ hv; simpa [orth] using hv
  | cons q qs ih =>
    intro v hq hv
    simp only [orth]
    exact ih _ (fun p hp => hq p (List.mem_cons_of_mem _ hp))
      (suppIn_sub_smul agg a v q _ hv (hq q (List.mem_cons_self ..)))

theorem newCol_supp (agg : ι → Option α) (a : α) (e : EForm K (ι → K)) (sqrt : K → K) (thr : K)
    (rem : ι → K) (h : SuppIn agg a rem) : SuppIn agg a (newCol e sqrt thr rem).1 := by
  intro i hi
  unfold newCol
  by_cases hn : sqrt (e.a rem rem) > thr
  · simp only [if_pos hn]; simp [h i hi]
  · simp only [if_neg hn]; rfl

/-- every column the loop produces vanishes outside the aggregate -/
theorem mgs_supp (agg : ι → Option α) (a : α) (e : EForm K (ι → K)) (sqrt : K → K) (tol : K) :
    ∀ (bs qs : List (ι → K)), (∀ b ∈ bs, SuppIn agg a b) → (∀ q ∈ qs, SuppIn agg a q) →
      ∀ q ∈ (mgs e sqrt tol bs qs).q, SuppIn agg a q := by
  intro bs
  induction bs with
  | nil => intro qs _ _ q hq; simp [mgs] at hq
  | cons b bs ih =>
    intro qs hb hq q hmem
    have hrem := orth_supp agg a e qs b hq (hb b (List.mem_cons_self ..))
    have hc := newCol_supp agg a e sqrt (tol * sqrt (e.a b b)) _ hrem
    simp only [mgs, List.mem_cons] at hmem
    rcases hmem with rfl | hmem
    · exact hc
    · refine ih (qs ++ [_]) (fun b' hb' => hb b' (List.mem_cons_of_mem _ hb')) ?_ q hmem
      intro p hp
      rcases List.mem_append.1 hp with hp | hp
      · exact hq p hp
      · have : p = (newCol e sqrt (tol * sqrt (e.a b b)) (orth e qs b).1).1 := by simpa using hp
        rw [this]; exact hc

/-- **pattern(T) = AggOp ⊗ block, unaggregated rows zero**: a column of aggregate `a` is zero on
every unknown outside `a` (in particular on the unknowns of no aggregate) -/
theorem fit_support (sqrt : K → K) (tol : K) (agg : ι → Option α) (B : ι → Nat → K) (K2 : Nat) (a : α) :
    ∀ q ∈ (fitAgg sqrt tol agg B K2 a).q, ∀ i, agg i ≠ some a → q i = 0 := by
  intro q hq
  refine mgs_supp agg a dotForm sqrt tol _ [] ?_ (by simp) q hq
  intro b hb
  obtain ⟨c, _, rfl⟩ := List.mem_map.1 hb
  exact suppIn_masked agg B a c

/-- columns of different aggregates are orthogonal (disjoint supports) -/
theorem fit_cross_orthogonal (sqrt : K → K) (tol : K) (agg : ι → Option α) (B : ι → Nat → K) (K2 : Nat)
    (a a' : α) (h : a ≠ a') (q : ι → K) (hq : q ∈ (fitAgg sqrt tol agg B K2 a).q)
    (q' : ι → K) (hq' : q' ∈ (fitAgg sqrt tol agg B K2 a').q) :
    (dotForm (K := K)).a q q' = 0 := by
  rw [dotForm_apply]
  apply Finset.sum_eq_zero
  intro i _
  by_cases hi : agg i = some a
  · have : agg i ≠ some a' := by rw [hi]; intro e; exact h (Option.some.inj e)
    rw [fit_support sqrt tol agg B K2 a' q' hq' i this, mul_zero]
  · rw [fit_support sqrt tol agg B K2 a q hq i hi, zero_mul]

/-- columns of one aggregate: pairwise orthogonal, squared norm `1` or `0`; exactly `K2` of them;
`B` restricted to the aggregate is reproduced column by column up to the discarded remainders,
each of which is zero or has norm at most `tol` times the norm of its candidate -/
theorem fit_local (sqrt : K → K) (hsq : ∀ x, 0 ≤ x → sqrt x * sqrt x = x) (hsq0 : ∀ x, 0 ≤ sqrt x)
    (tol : K) (htol : 0 ≤ tol) (agg : ι → Option α) (B : ι → Nat → K) (K2 : Nat) (a : α) :
    let o := fitAgg sqrt tol agg B K2 a
    ONZ dotForm o.q ∧ o.q.length = K2 ∧
    recon [] o.q o.r o.drop = (List.range K2).map (masked agg B a) ∧
    (∀ d ∈ o.drop, d = 0 ∨ ∃ c < K2, sqrt ((dotForm (K := K)).a d d) ≤
      tol * sqrt ((dotForm (K := K)).a (masked agg B a c) (masked agg B a c))) := by
  have h := mgs_spec (dotForm (K := K) (ι := ι)) dotForm_definite sqrt hsq hsq0 tol htol
    ((List.range K2).map (masked agg B a)) [] trivial
  obtain ⟨h1, h2, h3, h4⟩ := h
  refine ⟨by simpa [fitAgg] using h1, by simpa [fitAgg] using h2, h3, ?_⟩
  intro d hd
  rcases h4 d hd with h0 | ⟨b, hb, hle⟩
  · exact Or.inl h0
  · obtain ⟨c, hc, rfl⟩ := List.mem_map.1 hb
    exact Or.inr ⟨c, List.mem_range.1 hc, hle⟩

/-! ### the product `T·B_c` as a sum over all coarse unknowns -/

theorem mgs_lengths (e : EForm K (ι → K)) (sqrt : K → K) (tol : K) :
    ∀ (bs qs : List (ι → K)), (mgs e sqrt tol bs qs).r.length = bs.length ∧
      (mgs e sqrt tol bs qs).drop.length = bs.length ∧ (mgs e sqrt tol bs qs).q.length = bs.length := by
  intro bs
  induction bs with
  | nil => intro qs; simp [mgs]
  | cons b bs ih =>
    intro qs
    obtain ⟨h1, h2, h3⟩ := ih (qs ++ [(newCol e sqrt (tol * sqrt (e.a b b)) (orth e qs b).1).1])
    simp only [mgs, List.length_cons]
    exact ⟨by rw [h1], by rw [h2], by rw [h3]⟩

/-- column `j` of the reconstruction: the combination of the earlier columns with the stored
off-diagonal entries of `R`, plus the diagonal entry times column `j`, plus the discarded remainder -/
theorem recon_getD : ∀ (cs : List (ι → K)) (qs : List (ι → K)) (rs : List (List K × K)) (drs : List (ι → K)),
    rs.length = cs.length → drs.length = cs.length → ∀ j, j < cs.length →
    (recon qs cs rs drs).getD j 0 =
      comb (rs.getD j ([], 0)).1 (qs ++ cs.take j) + (rs.getD j ([], 0)).2 • cs.getD j 0 + drs.getD j 0 := by
  intro cs
  induction cs with
  | nil => intro qs rs drs _ _ j hj; simp at hj
  | cons c cs ih =>
    intro qs rs drs hr hd j hj
    cases rs with
    | nil => simp at hr
    | cons r rs =>
      cases drs with
      | nil => simp at hd
      | cons dr drs =>
        obtain ⟨co, d⟩ := r
        cases j with
        | zero => simp [recon]
        | succ j =>
          have hr' : rs.length = cs.length := by simpa using hr
          have hd' : drs.length = cs.length := by simpa using hd
          have hj' : j < cs.length := by simpa using hj
          have := ih (qs ++ [c]) rs drs hr' hd' j hj'
          simp only [recon, List.getD_cons_succ, List.take_succ_cons]
          rw [this, List.append_assoc]
          rfl

theorem comb_supp (agg : ι → Option α) (a : α) : ∀ (cs : List K) (qs : List (ι → K)),
    (∀ q ∈ qs, SuppIn agg a q) → SuppIn agg a (comb cs qs) := by
  intro cs
  induction cs with
  | nil => intro qs _ i _; cases qs <;> simp [comb]
  | cons c cs ih =>
    intro qs hq i hi
    cases qs with
    | nil => simp [comb]
    | cons q qs =>
      simp only [comb, Pi.add_apply, Pi.smul_apply, smul_eq_mul]
      rw [hq q (List.mem_cons_self ..) i hi, ih qs (fun p hp => hq p (List.mem_cons_of_mem _ hp)) i hi]
      simp

/-- column `c` of `T_a · R_a` (the part of `T·B_c` that comes from aggregate `a`) -/
def colTR (o : GS.Out K (ι → K)) (c : Nat) : ι → K :=
  comb (o.r.getD c ([], 0)).1 (o.q.take c) + (o.r.getD c ([], 0)).2 • o.q.getD c 0

theorem colTR_supp (sqrt : K → K) (tol : K) (agg : ι → Option α) (B : ι → Nat → K) (K2 : Nat) (a : α)
    (c : Nat) : SuppIn agg a (colTR (fitAgg sqrt tol agg B K2 a) c) := by
  have hs := fit_support sqrt tol agg B K2 a
  intro i hi
  have h1 : SuppIn agg a (comb ((fitAgg sqrt tol agg B K2 a).r.getD c ([], 0)).1 ((fitAgg sqrt tol agg B K2 a).q.take c)) :=
    comb_supp agg a _ _ (fun q hq => hs q (List.mem_of_mem_take hq))
  have h2 : (fitAgg sqrt tol agg B K2 a).q.getD c 0 i = 0 := by
    by_cases hc : c < (fitAgg sqrt tol agg B K2 a).q.length
    · have : (fitAgg sqrt tol agg B K2 a).q.getD c 0 ∈ (fitAgg sqrt tol agg B K2 a).q := by
        have e : (fitAgg sqrt tol agg B K2 a).q.getD c 0 = (fitAgg sqrt tol agg B K2 a).q[c] := by
          simp [List.getD_eq_getElem?_getD, hc]
        rw [e]; exact List.getElem_mem hc
      exact hs _ this i hi
    · have e : (fitAgg sqrt tol agg B K2 a).q.getD c 0 = 0 := by
        simp [List.getD_eq_getElem?_getD, Nat.le_of_not_lt hc]
      rw [e]; rfl
  simp only [colTR, Pi.add_apply, Pi.smul_apply, smul_eq_mul]
  rw [h1 i hi, h2]; simp

/-- **`T · B_c = B` on every aggregated unknown** (up to the remainders the drop rule discarded):
summing the contributions of all aggregates at an unknown `i` of aggregate `a` gives
`B i c − drop_{a,c} i`; `drop` is zero unless candidate `c` was (numerically) dependent on the earlier
ones inside aggregate `a`, and then its norm is at most `tol ‖B_{a,c}‖` (`fit_local`) -/
theorem fit_reproduces [Fintype α] (sqrt : K → K) (hsq : ∀ x, 0 ≤ x → sqrt x * sqrt x = x)
    (hsq0 : ∀ x, 0 ≤ sqrt x) (tol : K) (htol : 0 ≤ tol) (agg : ι → Option α) (B : ι → Nat → K)
    (K2 : Nat) (a : α) (i : ι) (hi : agg i = some a) (c : Nat) (hc : c < K2) :
    ∑ a' : α, colTR (fitAgg sqrt tol agg B K2 a') c i =
      B i c - (fitAgg sqrt tol agg B K2 a).drop.getD c 0 i := by
  rw [Finset.sum_eq_single a]
  · obtain ⟨_, hlen, hrec, _⟩ := fit_local sqrt hsq hsq0 tol htol agg B K2 a
    obtain ⟨hr, hd, _⟩ := mgs_lengths (dotForm (K := K) (ι := ι)) sqrt tol ((List.range K2).map (masked agg B a)) []
    have hq : (fitAgg sqrt tol agg B K2 a).q.length = K2 := hlen
    have hr' : (fitAgg sqrt tol agg B K2 a).r.length = (fitAgg sqrt tol agg B K2 a).q.length := by
      rw [hq]; simpa [fitAgg] using hr
    have hd' : (fitAgg sqrt tol agg B K2 a).drop.length = (fitAgg sqrt tol agg B K2 a).q.length := by
      rw [hq]; simpa [fitAgg] using hd
    have := recon_getD (fitAgg sqrt tol agg B K2 a).q [] (fitAgg sqrt tol agg B K2 a).r
      (fitAgg sqrt tol agg B K2 a).drop hr' hd' c (by rw [hq]; exact hc)
    rw [hrec] at this
    have hb : ((List.range K2).map (masked agg B a)).getD c 0 = masked agg B a c := by
      simp [List.getD_eq_getElem?_getD, hc]
    rw [hb, List.nil_append] at this
    have hi' := congrFun this i
    simp only [masked, hi, if_true, Pi.add_apply] at hi'
    simp only [colTR, Pi.add_apply]
    rw [hi']; ring
  · intro a' _ hne
    exact colTR_supp sqrt tol agg B K2 a' c i (by rw [hi]; intro e; exact hne (Option.some.inj e).symm)
  · intro h; exact absurd (Finset.mem_univ a) h

end PyamgV.C10
