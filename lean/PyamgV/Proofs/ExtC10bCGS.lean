import PyamgV.Proofs.ExtComplex
import PyamgV.Proofs.FitCand

/-! PyamgV (extension E24, property C10): the per-aggregate modified Gram-Schmidt of
`fit_candidates_common` for **complex** candidates (`dot(a, b) = conj(b)·a`, real norms, real scaling).

A complex vector is a pair `(re, im) : V × V` over an ordered field `K` (`Proofs/ExtComplex.lean`), a
complex scalar a pair `(re, im) : K × K`; `csmul d w = d·w`, `cip e u v = Σ conj(uᵢ) vᵢ` is the
conjugated dot product of the kernel (`d = Σ_p dot(Ax[pj], Ax[pi]) = ⟨q_bi, v⟩`), the squared norm is the
realified form `e.realify`.  The loop is the real one with complex projections:

* `corth` / `corth_spec`: orthogonalising against `q₁ … q_k` with complex coefficients is the real
  orthogonalisation against `q₁, i q₁, …, q_k, i q_k` (`corth_eq`), so the real `orth_spec` applies;
* `cmgs` / `cmgs_spec`: the whole loop of one aggregate: the columns are pairwise orthogonal for the
  complex inner product with squared norm 0 or 1, `B = Q R` up to the discarded remainders. -/
namespace PyamgV.CGS
open PyamgV PyamgV.GS

variable {K : Type*} [Field K] [LinearOrder K] [IsStrictOrderedRing K]
variable {V : Type*} [AddCommGroup V] [Module K V]

/-- complex scalar times complex vector: `(a + i b)(u + i v)` -/
def csmul (d : K × K) (w : V × V) : V × V := d.1 • w + d.2 • Jop K w

theorem csmul_fst (d : K × K) (w : V × V) : (csmul d w).1 = d.1 • w.1 - d.2 • w.2 := by
  simp [csmul, sub_eq_add_neg]

theorem csmul_snd (d : K × K) (w : V × V) : (csmul d w).2 = d.1 • w.2 + d.2 • w.1 := by
  simp [csmul]

/-! ### the realified form and multiplication by `i` -/

theorem eR_J_self (e : EForm K V) (q : V × V) : e.realify.a (Jop K q) q = 0 := by
  simp only [EForm.realify_apply, Jop_apply, map_neg, LinearMap.neg_apply]
  rw [e.symm q.2 q.1]; ring

theorem eR_J_J (e : EForm K V) (u v : V × V) : e.realify.a (Jop K u) (Jop K v) = e.realify.a u v := by
  simp only [EForm.realify_apply, Jop_apply, map_neg, LinearMap.neg_apply]
  ring

theorem eR_J_left (e : EForm K V) (u v : V × V) : e.realify.a (Jop K u) v = - e.realify.a u (Jop K v) := by
  simp only [EForm.realify_apply, Jop_apply, map_neg, LinearMap.neg_apply]
  ring

theorem cip_eq (e : EForm K V) (u v : V × V) : cip e u v = (e.realify.a u v, e.realify.a (Jop K u) v) := rfl

theorem cip_eq_zero_iff (e : EForm K V) (u v : V × V) :
    cip e u v = 0 ↔ e.realify.a u v = 0 ∧ e.realify.a (Jop K u) v = 0 := by
  rw [cip_eq, Prod.mk_eq_zero]

theorem Jop_eq_zero (q : V × V) (h : q = 0) : Jop K q = 0 := by subst h; simp

/-! ### inner loop -/

/-- orthogonalise `v` against the computed columns with the complex coefficients `⟨q, v⟩` -/
def corth (e : EForm K V) : List (V × V) → V × V → (V × V) × List (K × K)
  | [], v => (v, [])
  | q :: qs, v =>
    let d := cip e q v
    let r := corth e qs (v - csmul d q)
    (r.1, d :: r.2)

/-- complex linear combination `Σ cᵢ qᵢ` -/
def ccomb : List (K × K) → List (V × V) → V × V
  | c :: cs, q :: qs => csmul c q + ccomb cs qs
  | _, _ => 0

/-- pairwise orthogonal for the complex inner product, squared norms 0 or 1 -/
def CONZ (e : EForm K V) : List (V × V) → Prop
  | [] => True
  | q :: qs => (e.realify.a q q = 0 ∨ e.realify.a q q = 1) ∧ (∀ p ∈ qs, cip e q p = 0) ∧ CONZ e qs

variable (K) in
/-- `q₁, i q₁, q₂, i q₂, …` -/
def inter : List (V × V) → List (V × V)
  | [] => []
  | q :: qs => q :: Jop K q :: inter qs

/-- real and imaginary parts of the coefficients, in the order of `inter` -/
def flat : List (K × K) → List K
  | [] => []
  | d :: ds => d.1 :: d.2 :: flat ds

theorem mem_inter (qs : List (V × V)) (p : V × V) :
    p ∈ inter K qs ↔ ∃ q ∈ qs, p = q ∨ p = Jop K q := by
  induction qs with
  | nil => simp [inter]
  | cons q qs ih =>
    simp only [inter, List.mem_cons, ih]
    constructor
    · rintro (h | h | ⟨q', hq', h⟩)
      · exact ⟨q, Or.inl rfl, Or.inl h⟩
      · exact ⟨q, Or.inl rfl, Or.inr h⟩
      · exact ⟨q', Or.inr hq', h⟩
    · rintro ⟨q', (rfl | hq'), h⟩
      · rcases h with h | h
        · exact Or.inl h
        · exact Or.inr (Or.inl h)
      · exact Or.inr (Or.inr ⟨q', hq', h⟩)

/-- the complex inner loop is the real inner loop against `q₁, i q₁, …` -/
theorem corth_eq (e : EForm K V) : ∀ (qs : List (V × V)) (v : V × V),
    (corth e qs v).1 = (orth e.realify (inter K qs) v).1 ∧
    flat (corth e qs v).2 = (orth e.realify (inter K qs) v).2 := by
  intro qs
  induction qs with
  | nil => intro v; exact ⟨rfl, rfl⟩
  | cons q qs ih =>
    intro v
    have hd2 : e.realify.a (Jop K q) (v - e.realify.a q v • q) = e.realify.a (Jop K q) v := by
      rw [map_sub, map_smul, eR_J_self, smul_zero, sub_zero]
    have hv : v - e.realify.a q v • q - e.realify.a (Jop K q) v • Jop K q = v - csmul (cip e q v) q := by
      rw [cip_eq, csmul, sub_sub]
    obtain ⟨i1, i2⟩ := ih (v - csmul (cip e q v) q)
    simp only [corth, inter, orth, flat]
    rw [hd2, hv]
    exact ⟨i1, by rw [i2]; rfl⟩

theorem ccomb_inter : ∀ (ds : List (K × K)) (qs : List (V × V)),
    comb (flat ds) (inter K qs) = ccomb ds qs := by
  intro ds
  induction ds with
  | nil => intro qs; cases qs <;> simp [flat, comb, ccomb, inter]
  | cons d ds ih =>
    intro qs
    cases qs with
    | nil => simp [flat, comb, ccomb, inter]
    | cons q qs =>
      simp only [flat, inter, comb, ccomb, csmul]
      rw [ih qs, add_assoc]

theorem CONZ_inter (e : EForm K V) : ∀ qs : List (V × V), CONZ e qs → ONZ e.realify (inter K qs) := by
  intro qs
  induction qs with
  | nil => intro _; trivial
  | cons q qs ih =>
    rintro ⟨h1, h2, h3⟩
    have hq : ∀ p ∈ inter K qs, e.realify.a q p = 0 ∧ e.realify.a (Jop K q) p = 0 := by
      intro p hp
      obtain ⟨q', hq', hp'⟩ := (mem_inter qs p).1 hp
      obtain ⟨r1, r2⟩ := (cip_eq_zero_iff e q q').1 (h2 q' hq')
      rcases hp' with rfl | rfl
      · exact ⟨r1, r2⟩
      · constructor
        · have := eR_J_left e q q'
          rw [r2] at this
          exact neg_eq_zero.1 this.symm
        · rw [eR_J_J]; exact r1
    refine ⟨h1, ?_, ?_, ?_, ih h3⟩
    · intro p hp
      rcases List.mem_cons.1 hp with rfl | hp
      · rw [e.realify.symm]; exact eR_J_self e q
      · exact (hq p hp).1
    · rw [eR_J_J]; exact h1
    · intro p hp; exact (hq p hp).2

theorem corth_length (e : EForm K V) : ∀ (qs : List (V × V)) (v : V × V),
    (corth e qs v).2.length = qs.length := by
  intro qs
  induction qs with
  | nil => intro v; rfl
  | cons q qs ih => intro v; simp [corth, ih]

/-- inner loop: `v = Σ ⟨qᵢ, v'⟩ qᵢ + rem` with complex coefficients (the entries of `R`), and the
remainder is orthogonal to every column for the complex inner product -/
theorem corth_spec (e : EForm K V) (qs : List (V × V)) (v : V × V) (h : CONZ e qs)
    (hz : ∀ q ∈ qs, e.realify.a q q = 0 → q = 0) :
    v = ccomb (corth e qs v).2 qs + (corth e qs v).1 ∧
    (∀ q ∈ qs, cip e q (corth e qs v).1 = 0) ∧
    (∀ p ∈ inter K qs, e.realify.a p (corth e qs v).1 = 0) ∧
    (corth e qs v).2.length = qs.length := by
  have hz' : ∀ p ∈ inter K qs, e.realify.a p p = 0 → p = 0 := by
    intro p hp h0
    obtain ⟨q, hq, hp'⟩ := (mem_inter qs p).1 hp
    rcases hp' with rfl | rfl
    · exact hz p hq h0
    · rw [eR_J_J] at h0
      exact Jop_eq_zero q (hz q hq h0)
  obtain ⟨o1, o2, _⟩ := orth_spec e.realify (inter K qs) v (CONZ_inter e qs h) hz'
  obtain ⟨c1, c2⟩ := corth_eq e qs v
  rw [← c1] at o2
  refine ⟨?_, ?_, o2, corth_length e qs v⟩
  · rw [← ccomb_inter, c2, c1]; exact o1
  · intro q hq
    rw [cip_eq_zero_iff]
    exact ⟨o2 q ((mem_inter qs q).2 ⟨q, hq, Or.inl rfl⟩), o2 _ ((mem_inter qs _).2 ⟨q, hq, Or.inr rfl⟩)⟩

/-! ### the loop over the candidates of one aggregate -/

/-- result for one aggregate: new columns, `R` column by column (complex off-diagonal part, real
diagonal entry), what was discarded -/
structure COut (K V : Type*) where
  q : List (V × V)
  r : List (List (K × K) × K)
  drop : List (V × V)

/-- the loop of `fit_candidates_common` for one aggregate, complex data: norms, threshold and scaling
are real (`GS.newCol` on the realified form) -/
def cmgs (e : EForm K V) (sqrt : K → K) (tol : K) : List (V × V) → List (V × V) → COut K V
  | [], _ => ⟨[], [], []⟩
  | b :: bs, qs =>
    let o := corth e qs b
    let c := newCol e.realify sqrt (tol * sqrt (e.realify.a b b)) o.1
    let rest := cmgs e sqrt tol bs (qs ++ [c.1])
    ⟨c.1 :: rest.q, (o.2, c.2) :: rest.r, (o.1 - c.2 • c.1) :: rest.drop⟩

/-- reconstruction `T·R` column by column -/
def crecon : List (V × V) → List (V × V) → List (List (K × K) × K) → List (V × V) → List (V × V)
  | qs, c :: cs, (co, d) :: rs, dr :: drs => (ccomb co qs + d • c + dr) :: crecon (qs ++ [c]) cs rs drs
  | _, _, _, _ => []

theorem CONZ_append (e : EForm K V) (qs : List (V × V)) (c : V × V) (h : CONZ e qs)
    (hc : e.realify.a c c = 0 ∨ e.realify.a c c = 1) (hq : ∀ q ∈ qs, cip e c q = 0) : CONZ e (qs ++ [c]) := by
  induction qs with
  | nil => exact ⟨hc, fun p hp => by simp at hp, trivial⟩
  | cons q qs ih =>
    obtain ⟨h1, h2, h3⟩ := h
    refine ⟨h1, ?_, ih h3 (fun p hp => hq p (by simp [hp]))⟩
    intro p hp
    rcases List.mem_append.1 hp with hp | hp
    · exact h2 p hp
    · have : p = c := by simpa using hp
      rw [this, cip_conj_symm e c q, hq q (by simp)]
      simp

/-- **the whole loop of one aggregate, complex candidates, any number of them**: orthogonal columns of
squared norm 0 or 1 (complex inner product), as many as candidates, `B = Q·R + drop` column by column,
every discarded remainder is zero or has norm at most `tol` times the norm of its candidate -/
theorem cmgs_spec (e : EForm K V) (hdef : ∀ v, e.realify.a v v = 0 → v = 0) (sqrt : K → K)
    (hsq : ∀ a, 0 ≤ a → sqrt a * sqrt a = a) (hsq0 : ∀ a, 0 ≤ sqrt a) (tol : K) (htol : 0 ≤ tol) :
    ∀ (bs qs : List (V × V)), CONZ e qs →
      CONZ e (qs ++ (cmgs e sqrt tol bs qs).q) ∧
      (cmgs e sqrt tol bs qs).q.length = bs.length ∧
      crecon qs (cmgs e sqrt tol bs qs).q (cmgs e sqrt tol bs qs).r (cmgs e sqrt tol bs qs).drop = bs ∧
      (∀ d ∈ (cmgs e sqrt tol bs qs).drop, d = 0 ∨
        ∃ b ∈ bs, sqrt (e.realify.a d d) ≤ tol * sqrt (e.realify.a b b)) := by
  intro bs
  induction bs with
  | nil => intro qs h; simp [cmgs, crecon, h]
  | cons b bs ih =>
    intro qs h
    obtain ⟨o1, _, o3, _⟩ := corth_spec e qs b h (fun q _ hq => hdef q hq)
    have hthr : 0 ≤ tol * sqrt (e.realify.a b b) := mul_nonneg htol (hsq0 _)
    obtain ⟨c1, c2, c3⟩ := newCol_spec e.realify sqrt hsq (tol * sqrt (e.realify.a b b)) hthr
      (corth e qs b).1 (inter K qs) o3
    have c2' : ∀ q ∈ qs, cip e (newCol e.realify sqrt (tol * sqrt (e.realify.a b b)) (corth e qs b).1).1 q = 0 := by
      intro q hq
      rw [cip_eq_zero_iff]
      refine ⟨c2 q ((mem_inter qs q).2 ⟨q, hq, Or.inl rfl⟩), ?_⟩
      rw [eR_J_left, c2 _ ((mem_inter qs _).2 ⟨q, hq, Or.inr rfl⟩), neg_zero]
    have hON := CONZ_append e qs _ h c1 c2'
    obtain ⟨i1, i2, i3, i4⟩ := ih (qs ++ [(newCol e.realify sqrt (tol * sqrt (e.realify.a b b)) (corth e qs b).1).1]) hON
    simp only [cmgs]
    refine ⟨?_, ?_, ?_, ?_⟩
    · rw [List.append_assoc] at i1; exact i1
    · rw [List.length_cons, List.length_cons, i2]
    · simp only [crecon]
      rw [i3]
      congr 1
      conv_rhs => rw [o1]
      abel
    · intro d hd
      rcases List.mem_cons.1 hd with hd | hd
      · subst hd
        rcases c3 with h1 | ⟨h1, h2, h3⟩
        · left; rw [h1]; simp
        · right
          refine ⟨b, by simp, ?_⟩
          rw [h1, h2]; simpa using h3
      · rcases i4 d hd with h0 | ⟨b', hb', hle⟩
        · exact Or.inl h0
        · exact Or.inr ⟨b', by simp [hb'], hle⟩

theorem cmgs_lengths (e : EForm K V) (sqrt : K → K) (tol : K) :
    ∀ (bs qs : List (V × V)), (cmgs e sqrt tol bs qs).r.length = bs.length ∧
      (cmgs e sqrt tol bs qs).drop.length = bs.length ∧ (cmgs e sqrt tol bs qs).q.length = bs.length := by
  intro bs
  induction bs with
  | nil => intro qs; simp [cmgs]
  | cons b bs ih =>
    intro qs
    obtain ⟨h1, h2, h3⟩ := ih (qs ++ [(newCol e.realify sqrt (tol * sqrt (e.realify.a b b)) (corth e qs b).1).1])
    simp only [cmgs, List.length_cons]
    exact ⟨by rw [h1], by rw [h2], by rw [h3]⟩

/-- column `j` of the reconstruction -/
theorem crecon_getD : ∀ (cs : List (V × V)) (qs : List (V × V)) (rs : List (List (K × K) × K)) (drs : List (V × V)),
    rs.length = cs.length → drs.length = cs.length → ∀ j, j < cs.length →
    (crecon qs cs rs drs).getD j 0 =
      ccomb (rs.getD j ([], 0)).1 (qs ++ cs.take j) + (rs.getD j ([], 0)).2 • cs.getD j 0 + drs.getD j 0 := by
  intro cs
  induction cs with
  | nil => intro qs rs drs _ _ j hj; simp at hj
  | cons c cs ih =>
    intro qs rs drs hr hd j hj
    cases rs with
    | nil => simp at hr
    | cons r rs =>
      cases drs with
      | nil => simp at hd
      | cons dr drs =>
        obtain ⟨co, d⟩ := r
        cases j with
        | zero => simp [crecon]
        | succ j =>
          have hr' : rs.length = cs.length := by simpa using hr
          have hd' : drs.length = cs.length := by simpa using hd
          have hj' : j < cs.length := by simpa using hj
          have := ih (qs ++ [c]) rs drs hr' hd' j hj'
          simp only [crecon, List.getD_cons_succ, List.take_succ_cons]
          rw [this, List.append_assoc]
          rfl

#print axioms cmgs_spec
end PyamgV.CGS
