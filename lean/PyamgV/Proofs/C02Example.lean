import PyamgV.Proofs.C02Model
import Mathlib.Tactic.NormNum
import Mathlib.Tactic.Positivity

/-! PyamgV (C02): a concrete two-level hierarchy over ℚ (3-point Poisson matrix, linear interpolation,
`R = Pᵀ`, exact Galerkin matrix, two damped Jacobi(2/3) pre-smoothing steps, symmetric SOR(3/2)
post-smoothing, exact
coarse solve) satisfies every hypothesis of `model_cycle_nonexp` -- the hypotheses are jointly
satisfiable on a non-trivial instance, and the conclusion holds for the arrays the driver computes. -/
namespace PyamgV.C02Ex
open PyamgV

def A3 : K.Csr ℚ := ⟨3, #[0, 2, 5, 7], #[0, 1, 0, 1, 2, 1, 2], #[2, -1, -1, 2, -1, -1, 2]⟩
def P3 : K.Csr ℚ := ⟨3, #[0, 1, 3, 4], #[0, 0, 1, 1], #[1, 1/2, 1/2, 1]⟩
def R3 : K.Csr ℚ := ⟨2, #[0, 2, 4], #[0, 1, 1, 2], #[1, 1/2, 1/2, 1]⟩
def Ac3 : K.Csr ℚ := ⟨2, #[0, 2, 4], #[0, 1, 0, 1], #[3/2, -1/2, -1/2, 3/2]⟩
def L3 : C02.Lvl ℚ := ⟨A3, P3, R3, .jac (2/3) 2, .gs (3/2) .symmetric 1⟩

/-- the exact coarse solve `A_c⁻¹ = [[3/4, 1/4], [1/4, 3/4]]` on arrays … -/
def solveArr (b : Array ℚ) : Array ℚ :=
  #[3/4 * K.rd b 0 + 1/4 * K.rd b 1, 1/4 * K.rd b 0 + 3/4 * K.rd b 1]
/-- … and on functions -/
def solveF (g : Nat → ℚ) : Nat → ℚ := fun i =>
  if i = 0 then 3/4 * g 0 + 1/4 * g 1 else if i = 1 then 1/4 * g 0 + 3/4 * g 1 else 0

theorem rowA0 : rowOf A3 0 = [(0, 2), (1, -1)] := by decide +kernel
theorem rowA1 : rowOf A3 1 = [(0, -1), (1, 2), (2, -1)] := by decide +kernel
theorem rowA2 : rowOf A3 2 = [(1, -1), (2, 2)] := by decide +kernel
theorem rowP0 : rowOf P3 0 = [(0, 1)] := by decide +kernel
theorem rowP1 : rowOf P3 1 = [(0, 1/2), (1, 1/2)] := by decide +kernel
theorem rowP2 : rowOf P3 2 = [(1, 1)] := by decide +kernel
theorem rowR0 : rowOf R3 0 = [(0, 1), (1, 1/2)] := by decide +kernel
theorem rowR1 : rowOf R3 1 = [(1, 1/2), (2, 1)] := by decide +kernel
theorem rowAc0 : rowOf Ac3 0 = [(0, 3/2), (1, -1/2)] := by decide +kernel
theorem rowAc1 : rowOf Ac3 1 = [(0, -1/2), (1, 3/2)] := by decide +kernel

theorem csr3 (rows : Nat → Row ℚ) (u : Nat → ℚ) (i : Nat) :
    csrOp 3 rows u i = if i = 0 then rowDot (rows 0) u else if i = 1 then rowDot (rows 1) u
      else if i = 2 then rowDot (rows 2) u else 0 := by
  rcases i with _ | _ | _ | i <;> simp [csrOp]
theorem csr2 (rows : Nat → Row ℚ) (u : Nat → ℚ) (i : Nat) :
    csrOp 2 rows u i = if i = 0 then rowDot (rows 0) u else if i = 1 then rowDot (rows 1) u else 0 := by
  rcases i with _ | _ | i <;> simp [csrOp]

theorem adjPR : IsAdj (euc ℚ 3) (euc ℚ 2) (csrOp 3 (rowOf P3)) (csrOp 2 (rowOf R3)) := by
  intro u v
  simp only [euc_apply, Finset.sum_range_succ, Finset.sum_range_zero, csr3, csr2, rowP0, rowP1, rowP2,
    rowR0, rowR1, rowDot]
  simp
  ring

theorem galerkin3 :
    csrOp 2 (rowOf Ac3) = csrOp 2 (rowOf R3) ∘ₗ csrOp 3 (rowOf A3) ∘ₗ csrOp 3 (rowOf P3) := by
  apply LinearMap.ext; intro u; funext i
  simp only [LinearMap.comp_apply, csr3, csr2, rowA0, rowA1, rowA2, rowP0, rowP1, rowP2, rowR0, rowR1,
    rowAc0, rowAc1, rowDot]
  rcases i with _ | _ | i <;> simp <;> ring

theorem symA : IsAdj (euc ℚ 3) (euc ℚ 3) (csrOp 3 (rowOf A3)) (csrOp 3 (rowOf A3)) := by
  intro u v
  simp only [euc_apply, Finset.sum_range_succ, Finset.sum_range_zero, csr3, rowA0, rowA1, rowA2, rowDot]
  simp
  ring

theorem psdA : ∀ v, 0 ≤ (euc ℚ 3).a (csrOp 3 (rowOf A3) v) v := by
  intro v
  simp only [euc_apply, Finset.sum_range_succ, Finset.sum_range_zero, csr3, rowA0, rowA1, rowA2, rowDot]
  simp
  nlinarith [sq_nonneg (v 0), sq_nonneg (v 0 - v 1), sq_nonneg (v 1 - v 2), sq_nonneg (v 2)]

theorem solve_ok : ∀ b : Array ℚ, b.size = Ac3.n →
    (solveArr b).size = Ac3.n ∧ fn (solveArr b) = solveF (fn b) := by
  intro b _
  refine ⟨rfl, ?_⟩
  funext i
  rcases i with _ | _ | i <;> simp [solveArr, solveF, fn, K.rd]

theorem shaped3 : Shaped Ac3.n (nextA Ac3 [L3]).n [L3] :=
  ⟨rfl, rfl, rfl⟩

theorem wf3 : WFModel solveF Ac3 [L3] := by
  refine ⟨adjPR, rfl, galerkin3, ⟨fun _ => 2, ?_, ?_, ?_⟩, ?_, ?_⟩
  · intro i hi
    have hi3 : i < 3 := hi
    show HasDiag i (rowOf A3 i) 2
    rcases i with _ | _ | _ | i
    · rw [rowA0]; simp [HasDiag]
    · rw [rowA1]; simp [HasDiag]
    · rw [rowA2]; simp [HasDiag]
    · omega
  · -- Jacobi(2/3): 0 ≤ ω, non-zero diagonal, and the damping bound (2/3)·A ≤ 2·D with D = 2I
    refine ⟨by norm_num, fun _ _ => by norm_num, ?_⟩
    intro r
    show (2/3 : ℚ) * (euc ℚ 3).a (csrOp 3 (rowOf A3) (jacDinv 3 (fun _ => 2) r)) (jacDinv 3 (fun _ => 2) r) ≤
      2 * (euc ℚ 3).a (jacDinv 3 (fun _ => 2) r) r
    simp only [euc_apply, Finset.sum_range_succ, Finset.sum_range_zero, csr3, rowA0, rowA1, rowA2, rowDot, jacDinv]
    simp
    nlinarith [sq_nonneg (r 0), sq_nonneg (r 1), sq_nonneg (r 2), sq_nonneg (r 0 + r 1), sq_nonneg (r 1 + r 2)]
  · show (0 : ℚ) ≤ 3/2 ∧ (3/2 : ℚ) ≤ 2
    norm_num
  · intro r
    refine ⟨solveF (csrOp 2 (rowOf R3) r), ?_⟩
    show (csrOp 2 (rowOf R3) ∘ₗ csrOp 3 (rowOf A3) ∘ₗ csrOp 3 (rowOf P3)) _ = csrOp 2 (rowOf R3) r
    rw [← galerkin3]
    funext i
    simp only [csr2, rowAc0, rowAc1, rowR0, rowR1, rowDot, solveF]
    rcases i with _ | _ | i <;> simp <;> ring
  · intro b xs hb
    change csrOp 2 (rowOf Ac3) xs = b at hb
    show (euc ℚ 2).a (csrOp 2 (rowOf Ac3) (xs - solveF b)) (xs - solveF b) = 0
    have h0 : (xs - solveF b) 0 = 0 := by
      rw [← hb]; simp only [Pi.sub_apply, solveF, csr2, rowAc0, rowAc1, rowDot]; simp; ring
    have h1 : (xs - solveF b) 1 = 0 := by
      rw [← hb]; simp only [Pi.sub_apply, solveF, csr2, rowAc0, rowAc1, rowDot]; simp; ring
    simp only [euc_apply, Finset.sum_range_succ, Finset.sum_range_zero, csr2, rowAc0, rowAc1, rowDot]
    simp [h0, h1]

/-- the instance of `model_cycle_nonexp`: for **every** `x, b ∈ ℚ³`, every cycle type and every
solution `x*`, one cycle of the executable model on this hierarchy does not increase the energy -/
theorem example_cycle_nonexp (c : C02.Cyc) (cpl : Nat) (x b : Array ℚ) (hx : x.size = 3) (hb : b.size = 3)
    (xs : Nat → ℚ) (hxs : csrOp 3 (rowOf A3) xs = fn b) :
    ((euc ℚ 3).ofOp _ symA psdA).en (xs - fn (C02.cycle solveArr c cpl [L3] x b)) ≤
    ((euc ℚ 3).ofOp _ symA psdA).en (xs - fn x) :=
  model_cycle_nonexp solveArr solveF Ac3 [L3] solve_ok shaped3 wf3 symA psdA c cpl x b hx hb xs hxs

end PyamgV.C02Ex
