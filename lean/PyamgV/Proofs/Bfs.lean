import PyamgV.Proofs.Mis

/-! PyamgV (C18): `breadth_first_search` (graph.h:1075) computes hop counts.

Model = the level-synchronous loop of the kernel in the shape of the validated executable model
(`PyamgV.G.bfs`): a frontier list, a `level` array initialised to -1, neighbours of frontier nodes
marked with the current level when still -1. Spec: `level[v] = k ≥ 0` iff `k` is the length of a
shortest walk from the seed to `v`, and `level[v] = -1` iff no walk exists. Core Lean only. -/
namespace PyamgV.Bfs
open PyamgV

/-- walks of length `k` from `s` -/
def Near (G : Graph) (s : Nat) : Nat → Nat → Prop
  | 0, v => v = s
  | k+1, v => ∃ u, Near G s k u ∧ v ∈ G.adj u

/-- `v` is at hop distance exactly `L` -/
def Dist (G : Graph) (s : Nat) (L : Nat) (v : Nat) : Prop :=
  Near G s L v ∧ ∀ k, k < L → ¬ Near G s k v

structure GOK (G : Graph) (s : Nat) : Prop where
  seed : s < G.n
  adj : ∀ i, i < G.n → ∀ j ∈ G.adj i, j < G.n

theorem near_lt {G : Graph} {s : Nat} (h : GOK G s) : ∀ k v, Near G s k v → v < G.n := by
  intro k
  induction k with
  | zero => intro v hv; rw [show v = s from hv]; exact h.seed
  | succ k ih =>
    intro v hv
    obtain ⟨u, hu, hj⟩ := hv
    exact h.adj u (ih u hu) v hj

/-- a node at distance `L+1` has a predecessor at distance `L` -/
theorem dist_pred {G : Graph} {s L v : Nat} (h : Dist G s (L+1) v) :
    ∃ u, Dist G s L u ∧ v ∈ G.adj u := by
  obtain ⟨⟨u, hu, hj⟩, hmin⟩ := h
  refine ⟨u, ⟨hu, ?_⟩, hj⟩
  intro k hk hn
  exact hmin (k+1) (by omega) ⟨u, hn, hj⟩

theorem dist_down {G : Graph} {s : Nat} : ∀ (d m : Nat) (v : Nat), Dist G s (m + d) v →
    ∃ w, Dist G s m w := by
  intro d
  induction d with
  | zero => intro m v h; exact ⟨v, h⟩
  | succ d ih =>
    intro m v h
    obtain ⟨u, hu, _⟩ := dist_pred (L := m + d) h
    exact ih m u hu

/-- every reachable node has a distance -/
theorem near_dist {G : Graph} {s : Nat} : ∀ k v, Near G s k v → ∃ k', k' ≤ k ∧ Dist G s k' v := by
  intro k
  induction k using Nat.strongRecOn with
  | _ k ih =>
    intro v hv
    by_cases hmin : ∀ j, j < k → ¬ Near G s j v
    · exact ⟨k, Nat.le_refl k, hv, hmin⟩
    · have : ∃ j, j < k ∧ Near G s j v := by
        apply Classical.byContradiction
        intro hne
        apply hmin
        intro j hj hn
        exact hne ⟨j, hj, hn⟩
      obtain ⟨j, hj, hn⟩ := this
      obtain ⟨k', hk', hd⟩ := ih j hj v hn
      exact ⟨k', by omega, hd⟩

/-! ### the model -/

def visit (lvl : Int) (acc : List Nat × Array Int) (j : Nat) : List Nat × Array Int :=
  if rd acc.2 j = -1 then (acc.1 ++ [j], wr acc.2 j lvl) else acc

def expand (G : Graph) (lvl : Int) (acc : List Nat × Array Int) (i : Nat) :
    List Nat × Array Int :=
  (G.adj i).foldl (visit lvl) acc

def levelStep (G : Graph) (lvl : Int) (frontier : List Nat) (level : Array Int) :
    List Nat × Array Int :=
  frontier.foldl (expand G lvl) ([], level)

/-- `while(level_begin < level_end)`; second component: the loop exited by itself -/
def go (G : Graph) : Nat → List Nat → Nat → Array Int → Array Int × Bool
  | 0, frontier, _, level => (level, frontier.isEmpty)
  | fuel+1, frontier, L, level =>
    if frontier.isEmpty then (level, true)
    else
      let r := levelStep G (L : Int) frontier level
      go G fuel r.1 (L+1) r.2

def bfs (G : Graph) (s : Nat) (fuel : Nat) : Array Int × Bool :=
  go G fuel [s] 1 (wr (Array.replicate G.n (-1)) s 0)

/-! ### invariants -/

/-- state while level `L` is being filled: `D` = targets already looked at in this round -/
structure J (G : Graph) (s : Nat) (L : Nat) (next : List Nat) (level : Array Int)
    (D : Nat → Prop) : Prop where
  size : level.size = G.n
  cls : ∀ v, v < G.n →
    (rd level v = -1 ∧ ∀ k, k < L → ¬ Near G s k v) ∨
    (∃ k, k < L ∧ rd level v = (k : Int) ∧ Dist G s k v) ∨
    (rd level v = (L : Int) ∧ Dist G s L v ∧ v ∈ next)
  nxt : ∀ v, v ∈ next → Dist G s L v
  done : ∀ v, D v → v < G.n → rd level v ≠ -1

theorem visit_inv {G : Graph} {s L : Nat} (hG : GOK G s) (hL : 1 ≤ L)
    {next : List Nat} {level : Array Int} {D : Nat → Prop}
    (hJ : J G s L next level D) (j : Nat) (hj : j < G.n)
    (hu : ∃ u, Dist G s (L-1) u ∧ j ∈ G.adj u) :
    J G s L (visit (L : Int) (next, level) j).1 (visit (L : Int) (next, level) j).2
      (fun v => D v ∨ v = j) := by
  unfold visit
  by_cases hneg : rd level j = -1
  · rw [if_pos hneg]
    -- j gets distance L
    have hnear : ∀ k, k < L → ¬ Near G s k j := by
      rcases hJ.cls j hj with h | h | h
      · exact h.2
      · obtain ⟨k, _, hk, _⟩ := h; rw [hneg] at hk; omega
      · rw [hneg] at h; omega
    obtain ⟨u, hdu, hadj⟩ := hu
    have hdist : Dist G s L j := by
      refine ⟨?_, hnear⟩
      have : L = (L-1) + 1 := by omega
      rw [this]; exact ⟨u, hdu.1, hadj⟩
    refine ⟨by simpa using hJ.size, ?_, ?_, ?_⟩
    · intro v hv
      show _ ∨ _ ∨ (rd (wr level j (L:Int)) v = (L:Int) ∧ Dist G s L v ∧ v ∈ next ++ [j])
      rw [rd_wr]
      by_cases hvj : j = v
      · subst hvj
        right; right
        rw [if_pos ⟨rfl, by rw [hJ.size]; exact hj⟩]
        exact ⟨rfl, hdist, by simp⟩
      · rw [if_neg (fun h => hvj h.1)]
        rcases hJ.cls v hv with h | h | h
        · exact Or.inl h
        · exact Or.inr (Or.inl h)
        · exact Or.inr (Or.inr ⟨h.1, h.2.1, by simp [h.2.2]⟩)
    · intro v hv
      show Dist G s L v
      have : v ∈ next ++ [j] := hv
      rw [List.mem_append] at this
      rcases this with h | h
      · exact hJ.nxt v h
      · have : v = j := by simpa using h
        rw [this]; exact hdist
    · intro v hD hv
      show rd (wr level j (L:Int)) v ≠ -1
      rw [rd_wr]
      by_cases hvj : j = v
      · rw [if_pos ⟨hvj, by rw [hJ.size]; exact hj⟩]; omega
      · rw [if_neg (fun h => hvj h.1)]
        rcases hD with h | h
        · exact hJ.done v h hv
        · exact absurd h.symm hvj
  · rw [if_neg hneg]
    refine ⟨hJ.size, hJ.cls, hJ.nxt, ?_⟩
    intro v hD hv
    rcases hD with h | h
    · exact hJ.done v h hv
    · show rd level v ≠ -1
      rw [h]; exact hneg

theorem expand_inv {G : Graph} {s L : Nat} (hG : GOK G s) (hL : 1 ≤ L) (u : Nat)
    (hu : Dist G s (L-1) u) :
    ∀ (l : List Nat), (∀ j ∈ l, j ∈ G.adj u) →
    ∀ (acc : List Nat × Array Int) (D : Nat → Prop), J G s L acc.1 acc.2 D →
      J G s L (l.foldl (visit (L:Int)) acc).1 (l.foldl (visit (L:Int)) acc).2
        (fun v => D v ∨ v ∈ l) := by
  intro l
  induction l with
  | nil =>
    intro _ acc D hJ
    refine ⟨hJ.size, hJ.cls, hJ.nxt, ?_⟩
    intro v hD hv
    rcases hD with h | h
    · exact hJ.done v h hv
    · simp at h
  | cons j js ih =>
    intro hsub acc D hJ
    have hjadj : j ∈ G.adj u := hsub j (by simp)
    have hun : u < G.n := near_lt hG _ _ hu.1
    have hj : j < G.n := hG.adj u hun j hjadj
    have h1 := visit_inv hG hL (next := acc.1) (level := acc.2) hJ j hj ⟨u, hu, hjadj⟩
    have h2 := ih (fun a ha => hsub a (by simp [ha])) _ _ h1
    rw [List.foldl_cons]
    refine ⟨h2.size, h2.cls, h2.nxt, ?_⟩
    intro v hD hv
    apply h2.done v _ hv
    rcases hD with h | h
    · exact Or.inl (Or.inl h)
    · rw [List.mem_cons] at h
      rcases h with h | h
      · exact Or.inl (Or.inr h)
      · exact Or.inr h

theorem levelStep_inv {G : Graph} {s L : Nat} (hG : GOK G s) (hL : 1 ≤ L) :
    ∀ (Fs : List Nat), (∀ u ∈ Fs, Dist G s (L-1) u) →
    ∀ (acc : List Nat × Array Int) (D : Nat → Prop), J G s L acc.1 acc.2 D →
      J G s L (Fs.foldl (expand G (L:Int)) acc).1 (Fs.foldl (expand G (L:Int)) acc).2
        (fun v => D v ∨ ∃ u ∈ Fs, v ∈ G.adj u) := by
  intro Fs
  induction Fs with
  | nil =>
    intro _ acc D hJ
    refine ⟨hJ.size, hJ.cls, hJ.nxt, ?_⟩
    intro v hD hv
    rcases hD with h | ⟨u, hu, _⟩
    · exact hJ.done v h hv
    · simp at hu
  | cons u us ih =>
    intro hF acc D hJ
    have h1 := expand_inv hG hL u (hF u (by simp)) (G.adj u) (fun _ h => h) acc D hJ
    have h2 := ih (fun a ha => hF a (by simp [ha])) _ _ h1
    rw [List.foldl_cons]
    refine ⟨h2.size, h2.cls, h2.nxt, ?_⟩
    intro v hD hv
    apply h2.done v _ hv
    rcases hD with h | ⟨w, hw, hvw⟩
    · exact Or.inl (Or.inl h)
    · rw [List.mem_cons] at hw
      rcases hw with hw | hw
      · subst hw; exact Or.inl (Or.inr hvw)
      · exact Or.inr ⟨w, hw, hvw⟩

/-- state at the start of round `L`: everything at distance `< L` is labelled, the frontier is
exactly the set of nodes at distance `L-1` -/
structure I (G : Graph) (s : Nat) (L : Nat) (F : List Nat) (level : Array Int) : Prop where
  size : level.size = G.n
  cls : ∀ v, v < G.n →
    (rd level v = -1 ∧ ∀ k, k < L → ¬ Near G s k v) ∨
    (∃ k, k < L ∧ rd level v = (k : Int) ∧ Dist G s k v)
  front : ∀ v, v ∈ F ↔ Dist G s (L-1) v

theorem round_inv {G : Graph} {s L : Nat} (hG : GOK G s) (hL : 1 ≤ L)
    {F : List Nat} {level : Array Int} (hI : I G s L F level) :
    I G s (L+1) (levelStep G (L:Int) F level).1 (levelStep G (L:Int) F level).2 := by
  have hJ0 : J G s L (([] : List Nat), level).1 (([] : List Nat), level).2 (fun _ => False) := by
    refine ⟨hI.size, ?_, ?_, ?_⟩
    · intro v hv
      rcases hI.cls v hv with h | h
      · exact Or.inl h
      · exact Or.inr (Or.inl h)
    · intro v hv; simp at hv
    · intro v hD; exact absurd hD id
  have hJ := levelStep_inv hG hL F (fun u hu => (hI.front u).mp hu) _ _ hJ0
  unfold levelStep
  generalize List.foldl (expand G (L:Int)) ([], level) F = r at hJ
  -- an unlabelled node cannot be at distance L
  have hnoL : ∀ v, v < G.n → rd r.2 v = -1 → ¬ Near G s L v := by
    intro v hv hneg hn
    have hLe : L = (L-1) + 1 := by omega
    rw [hLe] at hn
    obtain ⟨u, hu, hadj⟩ := hn
    have hmin : ∀ k, k < L → ¬ Near G s k v := by
      rcases hJ.cls v hv with h | h | h
      · exact h.2
      · obtain ⟨k, _, hk, _⟩ := h; rw [hneg] at hk; omega
      · rw [hneg] at h; omega
    have hdu : Dist G s (L-1) u := by
      refine ⟨hu, ?_⟩
      intro k hk hnk
      exact hmin (k+1) (by omega) ⟨u, hnk, hadj⟩
    have hF : u ∈ F := (hI.front u).mpr hdu
    exact hJ.done v (Or.inr ⟨u, hF, hadj⟩) hv hneg
  refine ⟨hJ.size, ?_, ?_⟩
  · intro v hv
    rcases hJ.cls v hv with h | h | h
    · left
      refine ⟨h.1, ?_⟩
      intro k hk
      by_cases hkL : k = L
      · rw [hkL]; exact hnoL v hv h.1
      · exact h.2 k (by omega)
    · obtain ⟨k, hk, h1, h2⟩ := h
      exact Or.inr ⟨k, by omega, h1, h2⟩
    · exact Or.inr ⟨L, by omega, h.1, h.2.1⟩
  · intro v
    show v ∈ r.1 ↔ Dist G s (L + 1 - 1) v
    rw [Nat.add_sub_cancel]
    constructor
    · exact hJ.nxt v
    · intro hd
      have hv : v < G.n := near_lt hG _ _ hd.1
      rcases hJ.cls v hv with h | h | h
      · exact absurd hd.1 (hnoL v hv h.1)
      · obtain ⟨k, hk, _, h2⟩ := h
        exact absurd h2.1 (hd.2 k hk)
      · exact h.2.2

theorem init_inv {G : Graph} {s : Nat} (hG : GOK G s) :
    I G s 1 [s] (wr (Array.replicate G.n (-1)) s 0) := by
  refine ⟨by simp, ?_, ?_⟩
  · intro v hv
    rw [rd_wr]
    by_cases hsv : s = v
    · right
      rw [if_pos ⟨hsv, by simpa using hG.seed⟩]
      refine ⟨0, by omega, rfl, hsv.symm, ?_⟩
      intro k hk; omega
    · left
      rw [if_neg (fun h => hsv h.1)]
      refine ⟨by simp [rd, hv], ?_⟩
      intro k hk
      have : k = 0 := by omega
      rw [this]; intro h; exact hsv h.symm
  · intro v
    simp only [List.mem_singleton]
    constructor
    · intro h; exact ⟨h, fun k hk => by omega⟩
    · intro h; exact h.1

/-- final labelling -/
def Correct (G : Graph) (s : Nat) (level : Array Int) : Prop :=
  level.size = G.n ∧ ∀ v, v < G.n →
    (rd level v = -1 ∧ ∀ k, ¬ Near G s k v) ∨ (∃ k : Nat, rd level v = (k : Int) ∧ Dist G s k v)

theorem go_correct {G : Graph} {s : Nat} (hG : GOK G s) :
    ∀ (fuel : Nat) (F : List Nat) (L : Nat) (level : Array Int), 1 ≤ L → I G s L F level →
      (go G fuel F L level).2 = true → Correct G s (go G fuel F L level).1 := by
  have hfin : ∀ (F : List Nat) (L : Nat) (level : Array Int), 1 ≤ L → I G s L F level →
      F.isEmpty = true → Correct G s level := by
    intro F L level hL hI hE
    have hF : F = [] := by simpa using hE
    refine ⟨hI.size, ?_⟩
    intro v hv
    rcases hI.cls v hv with h | h
    · left
      refine ⟨h.1, ?_⟩
      intro k hn
      obtain ⟨k', _, hd⟩ := near_dist k v hn
      have hk' : L ≤ k' := by
        apply Classical.byContradiction
        intro hlt; exact h.2 k' (by omega) hd.1
      have : k' = (L-1) + (k' - (L-1)) := by omega
      rw [this] at hd
      obtain ⟨w, hw⟩ := dist_down _ _ _ hd
      have := (hI.front w).mpr hw
      rw [hF] at this; simp at this
    · obtain ⟨k, _, h1, h2⟩ := h
      exact Or.inr ⟨k, h1, h2⟩
  intro fuel
  induction fuel with
  | zero =>
    intro F L level hL hI hdone
    exact hfin F L level hL hI hdone
  | succ fuel ih =>
    intro F L level hL hI hdone
    unfold go at hdone ⊢
    by_cases hE : F.isEmpty = true
    · rw [if_pos hE]; exact hfin F L level hL hI hE
    · rw [if_neg hE] at hdone ⊢
      exact ih _ (L+1) _ (by omega) (round_inv hG hL hI) hdone

/-- **C18, breadth-first levels = hop counts**: whenever the loop exits by itself, `level[v]` is
the length of a shortest walk from the seed, or `-1` when `v` is unreachable. -/
theorem bfs_correct {G : Graph} {s : Nat} (hG : GOK G s) (fuel : Nat)
    (hdone : (bfs G s fuel).2 = true) : Correct G s (bfs G s fuel).1 :=
  go_correct hG fuel [s] 1 _ (Nat.le_refl 1) (init_inv hG) hdone

/-! ### termination: `n + 1` rounds always suffice -/

/-- number of still unlabelled nodes -/
def unl (n : Nat) (level : Array Int) : Nat :=
  (List.range n).countP (fun v => rd level v = -1)

theorem countP_lt {l : List Nat} {p q : Nat → Bool} (himp : ∀ v ∈ l, p v = true → q v = true)
    (v0 : Nat) (h0 : v0 ∈ l) (hq : q v0 = true) (hp : p v0 = false) :
    l.countP p < l.countP q := by
  induction l with
  | nil => simp at h0
  | cons a as ih =>
    rw [List.countP_cons, List.countP_cons]
    have hle : as.countP p ≤ as.countP q :=
      List.countP_mono_left (fun x hx => himp x (by simp [hx]))
    rw [List.mem_cons] at h0
    rcases h0 with h0 | h0
    · subst h0
      rw [hq, hp]; simp; omega
    · have := ih (fun x hx => himp x (by simp [hx])) h0
      have hpa : (if p a = true then 1 else 0) ≤ (if q a = true then 1 else 0) := by
        by_cases h : p a = true
        · rw [if_pos h, if_pos (himp a (by simp) h)]; exact Nat.le_refl _
        · rw [if_neg h]; exact Nat.zero_le _
      omega

theorem round_decreases {G : Graph} {s L : Nat} (hG : GOK G s) {F next : List Nat}
    {level level' : Array Int} (hI : I G s L F level) (hI' : I G s (L+1) next level') (hne : next ≠ []) :
    unl G.n level' < unl G.n level := by
  obtain ⟨v0, rest, hv0⟩ := List.exists_cons_of_ne_nil hne
  have hmem : v0 ∈ next := by rw [hv0]; simp
  have hd : Dist G s L v0 := by
    have := (hI'.front v0).mp hmem
    rwa [Nat.add_sub_cancel] at this
  unfold unl
  -- the labelled stay labelled; v0 becomes labelled
  have hmono : ∀ v, v < G.n → rd level' v = -1 → rd level v = -1 := by
    intro v hv hneg
    rcases hI.cls v hv with h | h
    · exact h.1
    · obtain ⟨k, hk, _, hdk⟩ := h
      rcases hI'.cls v hv with h' | h'
      · exact absurd hdk.1 (h'.2 k (by omega))
      · obtain ⟨k', _, hk', _⟩ := h'; rw [hneg] at hk'; omega
  apply countP_lt (v0 := v0)
  · intro v hv hp
    rw [List.mem_range] at hv
    simpa using hmono v hv (by simpa using hp)
  · rw [List.mem_range]; exact near_lt hG _ _ hd.1
  · have hv : v0 < G.n := near_lt hG _ _ hd.1
    rcases hI.cls v0 hv with h | h
    · simpa using h.1
    · obtain ⟨k, hk, _, hdk⟩ := h
      exact absurd hdk.1 (hd.2 k hk)
  · have hv : v0 < G.n := near_lt hG _ _ hd.1
    rcases hI'.cls v0 hv with h | h
    · exact absurd hd.1 (h.2 L (by omega))
    · obtain ⟨k, _, hk, _⟩ := h
      have : rd level' v0 ≠ -1 := by rw [hk]; omega
      simpa using this

theorem go_terminates {G : Graph} {s : Nat} (hG : GOK G s) :
    ∀ (fuel : Nat) (F : List Nat) (L : Nat) (level : Array Int), 1 ≤ L → I G s L F level →
      unl G.n level + 1 ≤ fuel → (go G fuel F L level).2 = true := by
  intro fuel
  induction fuel with
  | zero => intro F L level _ _ h; omega
  | succ fuel ih =>
    intro F L level hL hI hf
    unfold go
    by_cases hE : F.isEmpty = true
    · rw [if_pos hE]
    · rw [if_neg hE]
      have hI' := round_inv hG hL hI
      by_cases hn : (levelStep G (L:Int) F level).1 = []
      · -- the next frontier is empty: the recursive call exits at once
        show (go G fuel (levelStep G (L:Int) F level).1 (L+1) (levelStep G (L:Int) F level).2).2 = true
        rw [hn]
        cases fuel with
        | zero => rfl
        | succ f => unfold go; rfl
      · have hdec := round_decreases hG hI hI' hn
        exact ih _ (L+1) _ (by omega) hI' (by omega)

theorem unl_le (n : Nat) (level : Array Int) : unl n level ≤ n := by
  unfold unl
  have := List.countP_le_length (p := fun v => decide (rd level v = -1)) (l := List.range n)
  simpa using this

/-- **BFS terminates and is correct**: with `n + 1` rounds of fuel the loop always exits by
itself, so the fuel is not a restriction, and the levels are the hop counts. -/
theorem bfs_total {G : Graph} {s : Nat} (hG : GOK G s) :
    (bfs G s (G.n + 1)).2 = true ∧ Correct G s (bfs G s (G.n + 1)).1 := by
  have ht : (bfs G s (G.n + 1)).2 = true :=
    go_terminates hG (G.n + 1) [s] 1 _ (Nat.le_refl 1) (init_inv hG)
      (by have := unl_le G.n (wr (Array.replicate G.n (-1)) s 0); omega)
  exact ⟨ht, bfs_correct hG _ ht⟩

#print axioms bfs_total

#print axioms bfs_correct
end PyamgV.Bfs
