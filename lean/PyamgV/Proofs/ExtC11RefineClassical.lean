import PyamgV.Proofs.ExtC11RefineBase
import PyamgV.Proofs.Classical
import PyamgV.Proofs.ClassicalMod

/-! PyamgV (C11, extension E6): **the array model of `rs_classical_interpolation_pass2`
(`C11M.classicalPass2`, `modified` off and on) is the proof-side operator `C11.classicalP` /
the row body `Classical.classicalRowM`.**

The model writes positionally into preallocated arrays, returns `none` where the C++ divides by
zero and renumbers the columns at the end; the proof-side rows compute in the field.
`cOptRow` / `cOptRowM` are the proof-side rows with exactly the kernel's division-by-zero guard. -/
namespace PyamgV.C11X
open PyamgV.N PyamgV.C11 PyamgV.C11M

/-! ### positional writes of one row -/

/-- write the entries of `row` at positions `s, s+1, …` -/
def writeList {α β : Type} (row : List (α × β)) (acc : Array α × Array β) (s : Nat) :
    (Array α × Array β) × Nat :=
  row.foldl (fun st cv => ((st.1.1.setIfInBounds st.2 cv.1, st.1.2.setIfInBounds st.2 cv.2), st.2 + 1)) (acc, s)

theorem writeList_cons {α β : Type} (c : α × β) (rest : List (α × β)) (acc : Array α × Array β) (s : Nat) :
    writeList (c :: rest) acc s =
      writeList rest (acc.1.setIfInBounds s c.1, acc.2.setIfInBounds s c.2) (s + 1) := rfl

theorem writeList_size {α β : Type} (row : List (α × β)) (acc : Array α × Array β) (s : Nat) :
    (writeList row acc s).1.1.size = acc.1.size ∧ (writeList row acc s).1.2.size = acc.2.size := by
  induction row generalizing acc s with
  | nil => exact ⟨rfl, rfl⟩
  | cons c rest ih =>
    rw [writeList_cons]
    obtain ⟨h1, h2⟩ := ih (acc.1.setIfInBounds s c.1, acc.2.setIfInBounds s c.2) (s + 1)
    exact ⟨by rw [h1]; simp, by rw [h2]; simp⟩

theorem writeList_outside {α β : Type} (row : List (α × β)) (acc : Array α × Array β) (s k : Nat)
    (hk : k < s ∨ s + row.length ≤ k) :
    (writeList row acc s).1.1[k]? = acc.1[k]? ∧ (writeList row acc s).1.2[k]? = acc.2[k]? := by
  induction row generalizing acc s with
  | nil => exact ⟨rfl, rfl⟩
  | cons c rest ih =>
    rw [writeList_cons]
    have hk' : k < s + 1 ∨ s + 1 + rest.length ≤ k := by
      simp only [List.length_cons] at hk
      omega
    obtain ⟨h1, h2⟩ := ih (acc.1.setIfInBounds s c.1, acc.2.setIfInBounds s c.2) (s + 1) hk'
    have hne : s ≠ k := by
      simp only [List.length_cons] at hk
      omega
    rw [h1, h2]
    simp only [Array.getElem?_setIfInBounds, hne, if_false]
    exact ⟨trivial, trivial⟩

theorem writeList_inside {α β : Type} (row : List (α × β)) (acc : Array α × Array β) (s t : Nat)
    (ht : t < row.length) (h1 : s + row.length ≤ acc.1.size) (h2 : s + row.length ≤ acc.2.size) :
    (writeList row acc s).1.1[s + t]? = some (row[t]).1 ∧
    (writeList row acc s).1.2[s + t]? = some (row[t]).2 := by
  induction row generalizing acc s t with
  | nil => simp at ht
  | cons c rest ih =>
    rw [writeList_cons]
    simp only [List.length_cons] at h1 h2 ht
    cases t with
    | zero =>
      obtain ⟨e1, e2⟩ := writeList_outside rest (acc.1.setIfInBounds s c.1, acc.2.setIfInBounds s c.2)
        (s + 1) s (Or.inl (Nat.lt_succ_self s))
      simp only [Nat.add_zero]
      rw [e1, e2]
      simp only [Array.getElem?_setIfInBounds, if_true, List.getElem_cons_zero]
      have hs1 : s < acc.1.size := by omega
      have hs2 : s < acc.2.size := by omega
      simp [hs1, hs2]
    | succ t =>
      have := ih (acc.1.setIfInBounds s c.1, acc.2.setIfInBounds s c.2) (s + 1) t (by omega)
        (by simp; omega) (by simp; omega)
      have e : s + (t + 1) = s + 1 + t := by omega
      rw [e]
      simpa using this

/-- a conditional positional write loop is `writeList` of the filtered, mapped list -/
theorem writeLoop_eq {α β γ : Type} (l : List γ) (p : γ → Bool) (f : γ → α) (g : γ → β)
    (acc : Array α × Array β) (s : Nat) :
    l.foldl (fun (st : (Array α × Array β) × Nat) x =>
      if p x = true then ((st.1.1.setIfInBounds st.2 (f x), st.1.2.setIfInBounds st.2 (g x)), st.2 + 1)
      else st) (acc, s) =
    writeList ((l.filter p).map (fun x => (f x, g x))) acc s := by
  rw [foldl_filter_eq l p (fun (st : (Array α × Array β) × Nat) x =>
    ((st.1.1.setIfInBounds st.2 (f x), st.1.2.setIfInBounds st.2 (g x)), st.2 + 1))]
  unfold writeList
  rw [List.foldl_map]

/-! ### `Option` accumulation: `none` is absorbing -/

theorem oadd_none (b : Option Rat) : oadd none b = none := by cases b <;> rfl

theorem ofold_none {γ : Type} (l : List γ) (t : γ → Prop) [DecidablePred t] (x d : γ → Rat) :
    l.foldl (fun (num : Option Rat) k => if t k then oadd num (odiv (some (x k)) (d k)) else num) none
      = none := by
  induction l with
  | nil => rfl
  | cons a rest ih =>
    simp only [List.foldl_cons]
    by_cases h : t a
    · rw [if_pos h, oadd_none]; exact ih
    · rw [if_neg h]; exact ih

/-- a guarded sum of quotients -/
theorem ofold_spec {γ : Type} (l : List γ) (t : γ → Prop) [DecidablePred t] (x d : γ → Rat) (a : Rat) :
    l.foldl (fun (num : Option Rat) k => if t k then oadd num (odiv (some (x k)) (d k)) else num)
        (some a) =
      if l.any (fun k => decide (t k) && decide (d k = 0)) = true then none
      else some (a + (l.map (fun k => if t k then x k / d k else 0)).sum) := by
  induction l generalizing a with
  | nil => simp
  | cons k rest ih =>
    simp only [List.foldl_cons, List.any_cons, List.map_cons, List.sum_cons]
    by_cases h : t k
    · rw [if_pos h]
      by_cases hd : d k = 0
      · have : oadd (some a) (odiv (some (x k)) (d k)) = none := by simp [odiv, hd, oadd]
        rw [this, ofold_none]
        simp [h, hd]
      · have : oadd (some a) (odiv (some (x k)) (d k)) = some (a + x k / d k) := by simp [odiv, hd, oadd]
        rw [this, ih]
        simp only [h, hd, decide_false, Bool.and_false, Bool.false_or, if_true]
        by_cases hr : rest.any (fun k => decide (t k) && decide (d k = 0)) = true
        · rw [if_pos hr, if_pos hr]
        · rw [if_neg hr, if_neg hr]; congr 1; ring
    · rw [if_neg h, ih]
      simp only [h, decide_false, Bool.false_and, Bool.false_or, if_false, zero_add]

theorem odiv_map_neg (num : Option Rat) (den : Rat) :
    odiv (num.map (fun x => -x)) den = if den = 0 then none else num.map (fun x => -x / den) := by
  cases num with
  | none => simp [odiv]
  | some v =>
    by_cases h : den = 0
    · simp [odiv, h]
    · simp [odiv, h]

/-! ### the model, taken apart -/

/-- the weight the kernel stores for the strong C-entry at position `jj` of the F-row `i` (literal copy) -/
def cWLit (eps : Rat) (modified : Bool) (A S : Csr) (split : Array Int) (i jj : Nat) : Option Rat :=
  let den0 : Rat := (A.jjs i).foldl (fun d mm => d + rdQ A.ax mm) 0
  let den : Rat := (S.jjs i).foldl (fun d mm => if rdN S.aj mm ≠ i then d - rdQ S.ax mm else d) den0
  let j := rdN S.aj jj
  let num : Option Rat := (S.jjs i).foldl (fun (num : Option Rat) kk =>
    if isF split (rdN S.aj kk) ∧ rdN S.aj kk ≠ i then
      let k := rdN S.aj kk
      let aik := rdQ S.ax kk
      let (akj0, akk) := searchRow modified A k j
      let akj := if modified ∧ signof akj0 = signof akk then 0 else akj0
      if absQ akj > eps * absQ aik then
        oadd num (odiv (some (aik * akj)) (innerDen modified A S split i k akk))
      else num
    else num) (some (rdQ S.ax jj))
  odiv (num.map (fun x => -x)) den

/-- the entries (fine column, weight) the kernel writes for row `i` -/
def cModelRow (eps : Rat) (modified : Bool) (A S : Csr) (split : Array Int) (i : Nat) :
    List (Int × Option Rat) :=
  if isC split i then [(Int.ofNat i, some 1)]
  else ((S.jjs i).filter (fun jj => isC split (rdN S.aj jj))).map
    (fun jj => (Int.ofNat (rdN S.aj jj), cWLit eps modified A S split i jj))

def cStep (eps : Rat) (modified : Bool) (A S : Csr) (split : Array Int) (pp : Array Nat)
    (acc : Array Int × Array (Option Rat)) (i : Nat) : Array Int × Array (Option Rat) :=
  (writeList (cModelRow eps modified A S split i) acc (rdN pp i)).1

def cRenum (n : Nat) (split : Array Int) (g : Int) : Int :=
  if g < 0 then g else (cmapArr n split).getD g.toNat (-1)

theorem classicalPass2_unfold (eps : Rat) (modified : Bool) (A S : Csr) (split : Array Int) (pp : Array Nat) :
    classicalPass2 eps modified A S split pp =
      (((List.range A.n).foldl (cStep eps modified A S split pp)
          (Array.replicate (rdN pp A.n) (-1), Array.replicate (rdN pp A.n) none)).1.map (cRenum A.n split),
       ((List.range A.n).foldl (cStep eps modified A S split pp)
          (Array.replicate (rdN pp A.n) (-1), Array.replicate (rdN pp A.n) none)).2) := by
  unfold classicalPass2
  simp only
  have hstep : (fun (acc : Array Int × Array (Option Rat)) i =>
      if isC split i = true then
        (acc.1.setIfInBounds (rdN pp i) (Int.ofNat i), acc.2.setIfInBounds (rdN pp i) (some 1))
      else
        ((S.jjs i).foldl (fun (st : (Array Int × Array (Option Rat)) × Nat) jj =>
          if isC split (rdN S.aj jj) = true then
            ((st.1.1.setIfInBounds st.2 (Int.ofNat (rdN S.aj jj)),
              st.1.2.setIfInBounds st.2 (cWLit eps modified A S split i jj)), st.2 + 1)
          else st) (acc, rdN pp i)).1) = cStep eps modified A S split pp := by
    funext acc i
    unfold cStep cModelRow
    by_cases hC : isC split i = true
    · rw [if_pos hC, if_pos hC]; rfl
    · rw [if_neg hC, if_neg hC, writeLoop_eq]
  rw [← hstep]
  rfl

/-! ### the loop over the rows -/

theorem writeRows_state {α β : Type} (da : α) (db : β) (rows : Nat → List (α × β)) (pp : Array Nat) (n : Nat)
    (hpp : ∀ j ≤ n, rdN pp j = off (fun i => (rows i).length) j) (init : Array α × Array β)
    (h1 : init.1.size = rdN pp n) (h2 : init.2.size = rdN pp n) (m : Nat) (hm : m ≤ n) :
    let r := (List.range m).foldl (fun acc i => (writeList (rows i) acc (rdN pp i)).1) init
    r.1.size = rdN pp n ∧ r.2.size = rdN pp n ∧
    ∀ i < m, seg da db r.1 r.2 (off (fun i => (rows i).length) i) (rows i).length = rows i := by
  induction m with
  | zero => exact ⟨h1, h2, fun i hi => absurd hi (Nat.not_lt_zero i)⟩
  | succ m ih =>
    obtain ⟨s1, s2, s3⟩ := ih (by omega)
    simp only [List.range_succ, List.foldl_append, List.foldl_cons, List.foldl_nil]
    generalize (List.range m).foldl (fun acc i => (writeList (rows i) acc (rdN pp i)).1) init = r
      at s1 s2 s3 ⊢
    obtain ⟨z1, z2⟩ := writeList_size (rows m) r (rdN pp m)
    refine ⟨z1.trans s1, z2.trans s2, ?_⟩
    intro i hi
    have hpm := hpp m (by omega)
    have hle : off (fun i => (rows i).length) (m + 1) ≤ rdN pp n := by
      rw [hpp n (Nat.le_refl n)]; exact off_mono _ hm
    rw [off_succ] at hle
    rcases Nat.lt_succ_iff_lt_or_eq.1 hi with hlt | heq
    · rw [← s3 i hlt, seg_length]
      apply seg_congr
      intro k _ hk2
      have hle2 : off (fun i => (rows i).length) (i + 1) ≤ off (fun i => (rows i).length) m :=
        off_mono _ hlt
      rw [off_succ] at hle2
      obtain ⟨e1, e2⟩ := writeList_outside (rows m) r (rdN pp m) k (Or.inl (by omega))
      rw [Array.getD_eq_getD_getElem?, Array.getD_eq_getD_getElem?, Array.getD_eq_getD_getElem?,
        Array.getD_eq_getD_getElem?, e1, e2]
      exact ⟨rfl, rfl⟩
    · subst heq
      apply seg_eq_of_get
      intro t ht
      obtain ⟨e1, e2⟩ := writeList_inside (rows i) r (rdN pp i) t ht (by omega) (by omega)
      rw [← hpm, Array.getD_eq_getD_getElem?, Array.getD_eq_getD_getElem?, e1, e2]
      exact ⟨rfl, rfl⟩

theorem seg_map_left {α β : Type} (da : α) (db : β) (f : α → α) (pj : Array α) (px : Array β) (s len : Nat)
    (h : s + len ≤ pj.size) :
    seg da db (pj.map f) px s len = (seg da db pj px s len).map (fun cv => (f cv.1, cv.2)) := by
  unfold seg
  rw [List.map_map]
  apply List.map_congr_left
  intro k hk
  rw [List.mem_range'_1] at hk
  have hk' : k < pj.size := by omega
  simp [Array.getD_eq_getD_getElem?, hk']

/-- the fine column `j < n` is renumbered to `cidx j` -/
theorem cRenum_ofNat (n : Nat) (split : Array Int) (hv : Valid split n) {j : Nat} (hj : j < n) :
    cRenum n split (Int.ofNat j) = (cidx (isC split) j : Int) := by
  unfold cRenum
  have : ¬ (Int.ofNat j < 0) := by
    have : (0 : Int) ≤ Int.ofNat j := Int.natCast_nonneg _
    omega
  rw [if_neg this]
  exact cmapArr_spec split n hv hj

/-- **rows of the model's output**: under a row pointer that is the prefix sum of the row lengths,
row `i` of `classicalPass2` is `cModelRow i` with renumbered columns -/
theorem classicalPass2_rows (eps : Rat) (modified : Bool) (A S : Csr) (split : Array Int) (pp : Array Nat)
    (hpp : ∀ j ≤ A.n, rdN pp j = off (fun i => (cModelRow eps modified A S split i).length) j)
    {i : Nat} (hi : i < A.n) :
    rowAt (-1 : Int) (none : Option Rat) pp (classicalPass2 eps modified A S split pp).1
        (classicalPass2 eps modified A S split pp).2 i =
      (cModelRow eps modified A S split i).map (fun cv => (cRenum A.n split cv.1, cv.2)) := by
  rw [classicalPass2_unfold]
  have hst := writeRows_state (-1 : Int) (none : Option Rat) (cModelRow eps modified A S split) pp A.n hpp
    (Array.replicate (rdN pp A.n) (-1), Array.replicate (rdN pp A.n) none) (by simp) (by simp) A.n
    (Nat.le_refl _)
  simp only at hst
  obtain ⟨s1, _, s3⟩ := hst
  rw [rowAt_of_off _ _ _ _ _ _ A.n hpp hi]
  simp only
  have hle : off (fun i => (cModelRow eps modified A S split i).length) (i + 1) ≤ rdN pp A.n := by
    rw [hpp A.n (Nat.le_refl _)]; exact off_mono _ hi
  rw [off_succ] at hle
  have := seg_map_left (-1 : Int) (none : Option Rat) (cRenum A.n split)
    ((List.range A.n).foldl (cStep eps modified A S split pp)
      (Array.replicate (rdN pp A.n) (-1), Array.replicate (rdN pp A.n) none)).1
    ((List.range A.n).foldl (cStep eps modified A S split pp)
      (Array.replicate (rdN pp A.n) (-1), Array.replicate (rdN pp A.n) none)).2
    (off (fun i => (cModelRow eps modified A S split i).length) i)
    (cModelRow eps modified A S split i).length (by
      show _ ≤ ((List.range A.n).foldl (fun acc i => (writeList (cModelRow eps modified A S split i) acc (rdN pp i)).1) _).1.size
      rw [s1]; exact hle)
  rw [this]
  congr 1
  exact s3 i hi

/-- the row lengths are those of pass 1 -/
theorem cModelRow_length (eps : Rat) (modified : Bool) (A S : Csr) (split : Array Int) (i : Nat) :
    (cModelRow eps modified A S split i).length = rowLen S split i := by
  unfold cModelRow rowLen
  by_cases hC : isC split i = true
  · simp [hC]
  · have hC' : isC split i = false := by simpa using hC
    simp only [hC', Bool.false_eq_true, if_false, List.length_map]
    congr 1
    apply List.filter_congr
    intro jj _
    simp only [strongCjj]
    by_cases h : rdN S.aj jj = i
    · simp [h, hC']
    · simp [h]

theorem classicalPass1_off (eps : Rat) (modified : Bool) (A S : Csr) (split : Array Int) :
    ∀ j ≤ A.n, rdN (classicalPass1 A.n S split) j =
      off (fun i => (cModelRow eps modified A S split i).length) j := by
  intro j hj
  have := (classicalPass1_spec S split A.n).2 j hj
  simp only [rdN]
  rw [this]
  unfold off
  congr 1
  apply List.map_congr_left
  intro i _
  exact (cModelRow_length eps modified A S split i).symm

/-! ### the stored weight in closed form -/

theorem foldl_filter_prop {σ γ : Type} (l : List γ) (p : γ → Prop) [DecidablePred p] (f : σ → γ → σ) (s : σ) :
    l.foldl (fun s x => if p x then f s x else s) s = (l.filter (fun x => decide (p x))).foldl f s := by
  induction l generalizing s with
  | nil => rfl
  | cons x rest ih =>
    simp only [List.foldl_cons, List.filter_cons]
    by_cases h : p x
    · simp only [h, if_true, decide_true, List.foldl_cons]; exact ih _
    · simp only [h, if_false, decide_false, Bool.false_eq_true]; exact ih _

/-- `a_kj` as the kernel uses it (after the sign test of the modified variant) -/
def mAkj (modified : Bool) (A : Csr) (k j : Nat) : Rat :=
  if modified = true ∧ signof (searchRow modified A k j).1 = signof (searchRow modified A k j).2 then 0
  else (searchRow modified A k j).1

/-- the inner denominator the kernel divides by for the strong F-neighbour `k` and the column `j` -/
def mInn (modified : Bool) (A S : Csr) (split : Array Int) (i k j : Nat) : Rat :=
  innerDen modified A S split i k (searchRow modified A k j).2

/-- positions of the strong F-neighbours `≠ i` in the strength row -/
def cF (S : Csr) (split : Array Int) (i : Nat) : List Nat :=
  (S.jjs i).filter (fun kk => decide (isF split (rdN S.aj kk) = true ∧ rdN S.aj kk ≠ i))

def cTest (eps : Rat) (modified : Bool) (A S : Csr) (j kk : Nat) : Prop :=
  absQ (mAkj modified A (rdN S.aj kk) j) > eps * absQ (rdQ S.ax kk)

instance (eps : Rat) (modified : Bool) (A S : Csr) (j kk : Nat) : Decidable (cTest eps modified A S j kk) := by
  unfold cTest; infer_instance

/-- the outer denominator -/
def cDen (A S : Csr) (i : Nat) : Rat :=
  (S.jjs i).foldl (fun d mm => if rdN S.aj mm ≠ i then d - rdQ S.ax mm else d)
    ((A.jjs i).foldl (fun d mm => d + rdQ A.ax mm) 0)

theorem cWLit_eq (eps : Rat) (modified : Bool) (A S : Csr) (split : Array Int) (i jj : Nat) :
    cWLit eps modified A S split i jj =
      if cDen A S i = 0 then none
      else if (cF S split i).any (fun kk => decide (cTest eps modified A S (rdN S.aj jj) kk) &&
          decide (mInn modified A S split i (rdN S.aj kk) (rdN S.aj jj) = 0)) = true then none
      else some (-(rdQ S.ax jj + ((cF S split i).map (fun kk =>
          if cTest eps modified A S (rdN S.aj jj) kk then
            rdQ S.ax kk * mAkj modified A (rdN S.aj kk) (rdN S.aj jj) /
              mInn modified A S split i (rdN S.aj kk) (rdN S.aj jj)
          else 0)).sum) / cDen A S i) := by
  unfold cWLit
  simp only
  rw [foldl_filter_prop (S.jjs i) (fun kk => isF split (rdN S.aj kk) = true ∧ rdN S.aj kk ≠ i)]
  have hstep : (fun (num : Option Rat) kk =>
      match searchRow modified A (rdN S.aj kk) (rdN S.aj jj) with
      | (akj0, akk) =>
        if absQ (if modified = true ∧ signof akj0 = signof akk then 0 else akj0) > eps * absQ (rdQ S.ax kk) then
          oadd num (odiv (some (rdQ S.ax kk * (if modified = true ∧ signof akj0 = signof akk then 0 else akj0)))
            (innerDen modified A S split i (rdN S.aj kk) akk))
        else num) =
      (fun (num : Option Rat) kk => if cTest eps modified A S (rdN S.aj jj) kk then
        oadd num (odiv (some (rdQ S.ax kk * mAkj modified A (rdN S.aj kk) (rdN S.aj jj)))
          (mInn modified A S split i (rdN S.aj kk) (rdN S.aj jj))) else num) := by
    funext num kk
    rfl
  rw [hstep]
  show odiv (Option.map (fun x => -x) (List.foldl _ _ (cF S split i))) (cDen A S i) = _
  rw [ofold_spec, odiv_map_neg]
  by_cases hd : cDen A S i = 0
  · rw [if_pos hd, if_pos hd]
  · rw [if_neg hd, if_neg hd]
    split
    · rfl
    · rfl

/-! ### the guarded proof-side rows -/

/-- unguarded generic row: `-(a_ij + Σ_k [test] a_ik a_kj / inn_k) / den` on the strong C-entries -/
def gRow (eps den : Rat) (stC stF : Classical.Row Rat) (akj : Nat → Nat → Rat) (inn : Nat → Rat) :
    Classical.Row Rat :=
  stC.map (fun cj => (cj.1, -(cj.2 + (stF.map (fun ck =>
    if |akj ck.1 cj.1| > eps * |ck.2| then ck.2 * akj ck.1 cj.1 / inn ck.1 else 0)).sum) / den))

/-- some division of the kernel is by zero when it computes the weight for column `j` -/
def gBad (eps den : Rat) (stF : Classical.Row Rat) (akj : Nat → Nat → Rat) (inn : Nat → Rat) (j : Nat) : Bool :=
  decide (den = 0) || stF.any (fun ck => decide (|akj ck.1 j| > eps * |ck.2|) && decide (inn ck.1 = 0))

/-- the generic row with the kernel's division-by-zero guard -/
def gOptRow (eps den : Rat) (stC stF : Classical.Row Rat) (akj : Nat → Nat → Rat) (inn : Nat → Rat) :
    List (Nat × Option Rat) :=
  stC.map (fun cj => (cj.1, if gBad eps den stF akj inn cj.1 = true then none
    else some (-(cj.2 + (stF.map (fun ck =>
      if |akj ck.1 cj.1| > eps * |ck.2| then ck.2 * akj ck.1 cj.1 / inn ck.1 else 0)).sum) / den)))

theorem gOptRow_forall₂ (eps den : Rat) (stC stF : Classical.Row Rat) (akj : Nat → Nat → Rat) (inn : Nat → Rat) :
    List.Forall₂ (fun (m : Nat × Option Rat) (p : Nat × Rat) => m.1 = p.1 ∧ ∀ x, m.2 = some x → x = p.2)
      (gOptRow eps den stC stF akj inn) (gRow eps den stC stF akj inn) := by
  unfold gOptRow gRow
  rw [List.forall₂_map_left_iff, List.forall₂_map_right_iff]
  apply List.forall₂_same.2
  intro cv _
  refine ⟨rfl, ?_⟩
  intro x hx
  by_cases hb : gBad eps den stF akj inn cv.1 = true
  · rw [if_pos hb] at hx; exact absurd hx (by simp)
  · rw [if_neg hb] at hx; exact (Option.some.inj hx).symm

theorem gOptRow_defined (eps den : Rat) (stC stF : Classical.Row Rat) (akj : Nat → Nat → Rat) (inn : Nat → Rat)
    (hden : den ≠ 0) (hinn : ∀ ck ∈ stF, inn ck.1 ≠ 0) :
    gOptRow eps den stC stF akj inn = (gRow eps den stC stF akj inn).map (fun p => (p.1, some p.2)) := by
  unfold gOptRow gRow
  rw [List.map_map]
  apply List.map_congr_left
  intro cj _
  have hb : ¬ gBad eps den stF akj inn cj.1 = true := by
    unfold gBad
    simp only [Bool.or_eq_true, decide_eq_true_eq, List.any_eq_true, Bool.and_eq_true, not_or, not_exists,
      not_and]
    exact ⟨hden, fun ck hck _ => hinn ck hck⟩
  simp [hb]

/-- unmodified: `a_kj` by first-match lookup, inner denominator `Classical.inner` -/
def cOptRow (eps : Rat) (isC : Nat → Bool) (i : Nat) (srow : Classical.Row Rat) (A : Nat → Classical.Row Rat) :
    List (Nat × Option Rat) :=
  gOptRow eps (Classical.denom i (A i) srow) (Classical.strongC isC srow) (Classical.strongF isC i srow)
    (fun k j => Classical.lookup (A k) j) (fun k => Classical.inner isC srow (A k))

/-- `a_kj` of the modified kernel: last match, ignored when its sign is the sign of `a_kk` -/
def akjM (A : Nat → Classical.Row Rat) (k j : Nat) : Rat :=
  if Classical.signof (Classical.lookupLast (A k) j) = Classical.signof (Classical.lookupLast (A k) k) then 0
  else Classical.lookupLast (A k) j

/-- modified: sign-filtered `a_kj` and inner denominator `Classical.innerM` -/
def cOptRowM (eps : Rat) (isC : Nat → Bool) (i : Nat) (srow : Classical.Row Rat) (A : Nat → Classical.Row Rat) :
    List (Nat × Option Rat) :=
  gOptRow eps (Classical.denom i (A i) srow) (Classical.strongC isC srow) (Classical.strongF isC i srow)
    (akjM A) (fun k => Classical.innerM isC srow (A k) (Classical.lookupLast (A k) k))

theorem classicalRow_eq_gRow (eps : Rat) (isC : Nat → Bool) (i : Nat) (srow : Classical.Row Rat)
    (A : Nat → Classical.Row Rat) :
    Classical.classicalRow eps isC i srow A =
      gRow eps (Classical.denom i (A i) srow) (Classical.strongC isC srow) (Classical.strongF isC i srow)
        (fun k j => Classical.lookup (A k) j) (fun k => Classical.inner isC srow (A k)) := rfl

theorem classicalRowM_eq_gRow (eps : Rat) (isC : Nat → Bool) (i : Nat) (srow : Classical.Row Rat)
    (A : Nat → Classical.Row Rat) :
    Classical.classicalRowM eps isC i srow A =
      gRow eps (Classical.denom i (A i) srow) (Classical.strongC isC srow) (Classical.strongF isC i srow)
        (akjM A) (fun k => Classical.innerM isC srow (A k) (Classical.lookupLast (A k) k)) := rfl

/-- **the guarded unmodified row is `Classical.classicalRow` wherever it is defined** -/
theorem cOptRow_forall₂ (eps : Rat) (isC : Nat → Bool) (i : Nat) (srow : Classical.Row Rat)
    (A : Nat → Classical.Row Rat) :
    List.Forall₂ (fun (m : Nat × Option Rat) (p : Nat × Rat) => m.1 = p.1 ∧ ∀ x, m.2 = some x → x = p.2)
      (cOptRow eps isC i srow A) (Classical.classicalRow eps isC i srow A) := by
  rw [classicalRow_eq_gRow]; exact gOptRow_forall₂ _ _ _ _ _ _

/-- … and it is defined under the non-degeneracy hypotheses of `classicalRow_rowsum` -/
theorem cOptRow_defined (eps : Rat) (isC : Nat → Bool) (i : Nat) (srow : Classical.Row Rat)
    (A : Nat → Classical.Row Rat) (hden : Classical.denom i (A i) srow ≠ 0)
    (hinner : ∀ ck ∈ Classical.strongF isC i srow, Classical.inner isC srow (A ck.1) ≠ 0) :
    cOptRow eps isC i srow A = (Classical.classicalRow eps isC i srow A).map (fun p => (p.1, some p.2)) := by
  rw [classicalRow_eq_gRow]; exact gOptRow_defined _ _ _ _ _ _ hden hinner

theorem cOptRowM_forall₂ (eps : Rat) (isC : Nat → Bool) (i : Nat) (srow : Classical.Row Rat)
    (A : Nat → Classical.Row Rat) :
    List.Forall₂ (fun (m : Nat × Option Rat) (p : Nat × Rat) => m.1 = p.1 ∧ ∀ x, m.2 = some x → x = p.2)
      (cOptRowM eps isC i srow A) (Classical.classicalRowM eps isC i srow A) := by
  rw [classicalRowM_eq_gRow]; exact gOptRow_forall₂ _ _ _ _ _ _

theorem cOptRowM_defined (eps : Rat) (isC : Nat → Bool) (i : Nat) (srow : Classical.Row Rat)
    (A : Nat → Classical.Row Rat) (hden : Classical.denom i (A i) srow ≠ 0)
    (hinner : ∀ ck ∈ Classical.strongF isC i srow,
      Classical.innerM isC srow (A ck.1) (Classical.lookupLast (A ck.1) ck.1) ≠ 0) :
    cOptRowM eps isC i srow A = (Classical.classicalRowM eps isC i srow A).map (fun p => (p.1, some p.2)) := by
  rw [classicalRowM_eq_gRow]; exact gOptRow_defined _ _ _ _ _ _ hden hinner

end PyamgV.C11X
