import PyamgV.Proofs.ExtC03XGen
import PyamgV.Proofs.ExtSmoothersNE
import Mathlib.LinearAlgebra.Pi

/-! PyamgV (extension E38, C03): the recorded `gauss_seidel_ne` (Kaczmarz) and `jacobi_ne` calls of the extended cycle
model are linear iterations of the level matrix. -/
namespace PyamgV.C03X
open PyamgV PyamgV.C03 PyamgV.K Finset

/-! ## `gauss_seidel_ne` -/

/-- row `i` of the CSR arrays as a vector -/
def lineV (M : Csr Rat) (i : Nat) : F := fun p => ExtC09.csrEntry M i p

theorem lineV_zero (M : Csr Rat) (hc : ColsOK M) (i : Nat) (hi : i < M.n) (p : Nat) (hp : M.n ≤ p) : lineV M i p = 0 := by
  unfold lineV ExtC09.csrEntry
  have : (M.jjs i).filter (fun jj => decide (rdN M.aj jj = p)) = [] := by
    apply List.filter_eq_nil_iff.2
    intro jj hjj
    have := hc i hi jj hjj
    simp; omega
  rw [this]; simp

/-- one Kaczmarz row step on functions: `x + ω D_i (b_i − ⟨a_i, x⟩) a_i` -/
def neF (M : Csr Rat) (D : F) (ω : Rat) (i : Nat) : F → F → F :=
  fun x b => x + ((b i - ExtC09.csrRow M i x) * D i * ω) • lineV M i

/-- its rank-one operator -/
def neOp (M : Csr Rat) (D : F) (ω : Rat) (i : Nat) : F →ₗ[Rat] F :=
  (D i * ω) • (LinearMap.proj i : F →ₗ[Rat] Rat).smulRight (lineV M i)

theorem ne_step_isLinIter (M : Csr Rat) (D : F) (ω : Rat) (i : Nat) (hi : i < M.n) :
    IsLinIter (ExtC09.csrLin M) (neF M D ω i) (neOp M D ω i) := by
  intro x b
  unfold neF neOp
  rw [LinearMap.smul_apply, LinearMap.smulRight_apply, smul_smul]
  simp only [LinearMap.proj_apply, Pi.sub_apply, ExtC09.csrLin_apply, if_pos hi]
  congr 2; ring

theorem ne_step_refines (M : Csr Rat) (hc : ColsOK M) (Dinv : Array Rat) (ω : Rat) (i : Nat) (hi : i < M.n) :
    Refines M.n (fun x b => ExtC09.neStep id ω M b Dinv x i) (neF M (ExtC09.vec Dinv) ω i) := by
  intro x b hx hb
  refine ⟨by rw [ExtC09.neStep_size, hx], ?_⟩
  funext p
  unfold neF
  simp only [Pi.add_apply, Pi.smul_apply, smul_eq_mul]
  by_cases hp : p < x.size
  · have := ExtC09.neStep_entry id ω M b Dinv x i p hp
    unfold ExtC09.vec at this ⊢
    rw [this]
    have h : ExtC09.conjEntry id M i p = lineV M i p := rfl
    rw [h]; ring
  · have h1 : ExtC09.vec (ExtC09.neStep id ω M b Dinv x i) p = 0 :=
      ExtC09.rd_of_le _ _ (by rw [ExtC09.neStep_size]; omega)
    have h2 : ExtC09.vec x p = 0 := ExtC09.rd_of_le _ _ (by omega)
    rw [h1, h2, lineV_zero M hc i hi p (by omega)]; ring

/-- one directional pass over all rows -/
def nePassF (M : Csr Rat) (D : F) (ω : Rat) (bw : Bool) : F → F → F :=
  fun x b => (dirRows M.n bw).foldl (fun x i => neF M D ω i x b) x

def nePassQ (M : Csr Rat) (D : F) (ω : Rat) (bw : Bool) : F →ₗ[Rat] F :=
  sweepM (ExtC09.csrLin M) ((dirRows M.n bw).map (neOp M D ω))

theorem ne_pass_isLinIter (M : Csr Rat) (D : F) (ω : Rat) (bw : Bool) :
    IsLinIter (ExtC09.csrLin M) (nePassF M D ω bw) (nePassQ M D ω bw) :=
  isLinIter_foldl _ _ _ _ (fun i hi => ne_step_isLinIter M D ω i ((mem_dirRows _ _ _).1 hi))

theorem ne_pass_refines (M : Csr Rat) (hc : ColsOK M) (Dinv : Array Rat) (ω : Rat) (bw : Bool) :
    Refines M.n (fun x b => gsnePass id ω M b Dinv bw x) (nePassF M (ExtC09.vec Dinv) ω bw) := by
  intro x b hx hb
  have := Refines.foldl (fun i x b => ExtC09.neStep id ω M b Dinv x i) (fun i => neF M (ExtC09.vec Dinv) ω i)
    (dirRows M.n bw) (fun i hi => ne_step_refines M hc Dinv ω i ((mem_dirRows _ _ _).1 hi)) x b hx hb
  show (gsnePass id ω M b Dinv bw x).size = M.n ∧ ExtC09.vec (gsnePass id ω M b Dinv bw x) = _
  unfold K.gsnePass
  rw [ExtC09.gaussSeidelNE_eq, hx]
  exact this

/-- operator of the recorded `gauss_seidel_ne` call -/
noncomputable def gsneQ (ω : Rat) (M : Csr Rat) (it : Nat) (sw : Sweep) : F →ₗ[Rat] F :=
  sweepQ (ExtC09.csrLin M) (nePassQ M (ExtC09.vec (normInv id M)) ω) sw it

theorem gsne_refines (ω : Rat) (M : Csr Rat) (hc : ColsOK M) (it : Nat) (sw : Sweep) :
    Refines M.n (Sm.arr (.gsne ω M it sw)) (sweepF (nePassF M (ExtC09.vec (normInv id M)) ω) sw it) := by
  have := sweep_refines (fun bw x b => gsnePass id ω M b (normInv id M) bw x) _
    (fun bw => ne_pass_refines M hc (normInv id M) ω bw) sw it
  intro x b hx hb
  have h2 := this x b hx hb
  cases sw <;> exact h2

/-- **Kaczmarz (`gauss_seidel_ne`) in the extended cycle model is a linear iteration of the level matrix** -/
theorem gsne_semLin (ω : Rat) (M : Csr Rat) (it : Nat) (sw : Sweep) (hc : ColsOK M) :
    SemLin (csrDense M) (viaArr M.n (Sm.arr (.gsne ω M it sw))) (Tn M.n ∘ₗ gsneQ ω M it sw ∘ₗ Tn M.n) :=
  semLin_csr M hc _ _ _ (gsne_refines ω M hc it sw)
    (sweep_isLinIter _ _ _ (fun bw => ne_pass_isLinIter M _ ω bw) sw it)

/-! ## `jacobi_ne` -/

/-- `diag(A Aᵀ)⁻¹` on the first `n` coordinates (`get_diagonal(A, norm_eq=2, inv=True)`) -/
def neDinv (M : Csr Rat) : F →ₗ[Rat] F where
  toFun r := fun i => if i < M.n then ExtC09.rowNormInv id M i * r i else 0
  map_add' u v := by funext i; by_cases h : i < M.n <;> simp [h, mul_add]
  map_smul' c u := by funext i; by_cases h : i < M.n <;> simp [h, mul_left_comm]

/-- `Aᵀ` -/
def csrT (M : Csr Rat) : F →ₗ[Rat] F where
  toFun v := fun p => if p < M.n then ∑ i ∈ range M.n, ExtC09.csrEntry M i p * v i else 0
  map_add' u v := by
    funext p; by_cases h : p < M.n <;> simp [h, mul_add, Finset.sum_add_distrib]
  map_smul' c u := by
    funext p; by_cases h : p < M.n
    · simp only [h, if_true, Pi.smul_apply, smul_eq_mul, RingHom.id_apply, Finset.mul_sum]
      apply Finset.sum_congr rfl; intro i _; ring
    · simp [h]

def jacneF (ω : Rat) (M : Csr Rat) : F → F → F :=
  fun x b => x + ω • csrT M (neDinv M (b - ExtC09.csrLin M x))

theorem jacne_step_refines (ω : Rat) (M : Csr Rat) :
    Refines M.n (fun x b => jacobiNE id ω M (neDelta M b (normInv id M) x) (List.range M.n) x) (jacneF ω M) := by
  intro x b hx hb
  refine ⟨by rw [ExtC09.jacobiNE_size, hx], ?_⟩
  funext p
  unfold jacneF
  simp only [Pi.add_apply, Pi.smul_apply, smul_eq_mul]
  by_cases hp : p < x.size
  · have hpn : p < M.n := by omega
    have := ExtC09.pyJacobiNE_step_entry id ω M b x p hp hpn
    change ExtC09.vec (jacobiNE id ω M (neDelta M b (normInv id M) x) (List.range M.n) x) p = _ at this
    rw [this]
    show ExtC09.vec x p + _ = ExtC09.vec x p + ω * (csrT M (neDinv M (ExtC09.vec b - ExtC09.csrLin M (ExtC09.vec x)))) p
    congr 1
    simp only [csrT, neDinv, LinearMap.coe_mk, AddHom.coe_mk, if_pos hpn, Finset.mul_sum]
    apply Finset.sum_congr rfl
    intro i hi
    have hin : i < M.n := mem_range.1 hi
    simp only [if_pos hin, Pi.sub_apply, ExtC09.csrLin_apply]
    have h : ExtC09.conjEntry id M i p = ExtC09.csrEntry M i p := rfl
    rw [h]
    unfold ExtC09.vec
    ring
  · have h1 : ExtC09.vec (jacobiNE id ω M (neDelta M b (normInv id M) x) (List.range M.n) x) p = 0 :=
      ExtC09.rd_of_le _ _ (by rw [ExtC09.jacobiNE_size]; omega)
    have h2 : ExtC09.vec x p = 0 := ExtC09.rd_of_le _ _ (by omega)
    have h3 : ¬ p < M.n := by omega
    rw [h1, h2]
    simp [csrT, h3]

/-- operator of the recorded `jacobi_ne` call: `ω Aᵀ diag(A Aᵀ)⁻¹`, `iterations` times -/
noncomputable def jacneQ (ω : Rat) (M : Csr Rat) (it : Nat) : F →ₗ[Rat] F :=
  powM (ExtC09.csrLin M) (ω • (csrT M ∘ₗ neDinv M)) it

theorem jacne_refines (ω : Rat) (M : Csr Rat) (it : Nat) :
    Refines M.n (Sm.arr (.jacne ω M it)) (fun x b => iter (jacneF ω M) b it x) :=
  (jacne_step_refines ω M).iter it

/-- **`jacobi_ne` in the extended cycle model is `x ← x + ω Aᵀ diag(A Aᵀ)⁻¹ (b − A x)`, `iterations` times** -/
theorem jacne_semLin (ω : Rat) (M : Csr Rat) (it : Nat) (hc : ColsOK M) :
    SemLin (csrDense M) (viaArr M.n (Sm.arr (.jacne ω M it))) (Tn M.n ∘ₗ jacneQ ω M it ∘ₗ Tn M.n) :=
  semLin_csr M hc _ _ _ (jacne_refines ω M it)
    ((jacobi_ne_isLinIter (ExtC09.csrLin M) (csrT M) (neDinv M) ω).pow it)

end PyamgV.C03X
