import PyamgV.Proofs.C02Refine
import PyamgV.Proofs.Jacobi

/-! PyamgV (C02 glue): the executable weighted-Jacobi kernel model (`K.jacobi`, `K.pyJacobi`) read as
functions is `x ← x + ω D⁻¹ (b − A x)` on the first `n` coordinates — the operator form
`jacobi_nonexp` is about. -/
namespace PyamgV

variable {R : Type} [Field R] [LinearOrder R] [IsStrictOrderedRing R] [DecidableEq R]

/-- the copy phase `temp[i] = x[i]` over the swept rows -/
theorem copy_refines (x : Array R) :
    ∀ (rows : List Nat) (t : Array R), t.size = x.size → (∀ i ∈ rows, i < x.size) →
      (rows.foldl (fun t i => K.wr t i (K.rd x i)) t).size = x.size ∧
      ∀ j, fn (rows.foldl (fun t i => K.wr t i (K.rd x i)) t) j = if j ∈ rows then fn x j else fn t j := by
  intro rows
  induction rows with
  | nil => intro t ht _; exact ⟨ht, fun j => by simp⟩
  | cons i rest ih =>
    intro t ht hrows
    have hi : i < t.size := by rw [ht]; exact hrows i (by simp)
    have hsz : (K.wr t i (K.rd x i)).size = x.size := by simp [K.wr, ht]
    obtain ⟨h1, h2⟩ := ih (K.wr t i (K.rd x i)) hsz (fun j hj => hrows j (by simp [hj]))
    rw [List.foldl_cons]
    refine ⟨h1, fun j => ?_⟩
    rw [h2 j, fn_wr _ _ _ hi]
    by_cases hjr : j ∈ rest
    · simp [hjr]
    · by_cases hji : j = i
      · subst hji; simp [hjr, fn]
      · simp [hjr, hji, Function.update_of_ne hji]

/-- one row of the executable Jacobi kernel = `jacRowFn` -/
theorem jacStep_refines (ω : R) (A : K.Csr R) (b temp x : Array R) (i : Nat) (hi : i < x.size) :
    fn ((fun (x : Array R) (i : Nat) =>
      let (rsum, diag) := (A.jjs i).foldl (fun (acc : R × R) jj =>
        let j := K.rdN A.aj jj
        if i = j then (acc.1, K.rd A.ax jj) else (acc.1 + K.rd A.ax jj * K.rd temp j, acc.2))
        ((0:R), (0:R))
      if diag = 0 then x else K.wr x i ((1 - ω) * K.rd temp i + ω * ((K.rd b i - rsum) / diag))) x i) =
    jacRowFn ω i (rowOf A i) (fn b) (fn temp) (fn x) := by
  have hscan : (A.jjs i).foldl (fun (acc : R × R) jj =>
        let j := K.rdN A.aj jj
        if i = j then (acc.1, K.rd A.ax jj) else (acc.1 + K.rd A.ax jj * K.rd temp j, acc.2))
        ((0:R), (0:R)) = rowScan i (rowOf A i) (fn temp) := by
    unfold rowScan rowOf
    rw [List.foldl_map]
    apply List.foldl_ext
    intro acc jj _
    by_cases h : i = K.rdN A.aj jj
    · simp only [h, if_true]
    · have h' : ¬ K.rdN A.aj jj = i := fun e => h e.symm
      simp only [h, h', if_false]
      rfl
  simp only
  rw [hscan]
  unfold jacRowFn
  rw [show rowScan i (rowOf A i) (fn temp) = ((rowScan i (rowOf A i) (fn temp)).1,
    (rowScan i (rowOf A i) (fn temp)).2) from rfl]
  simp only
  by_cases hd : (rowScan i (rowOf A i) (fn temp)).2 = 0
  · rw [if_pos hd, if_pos hd]
  · rw [if_neg hd, if_neg hd, fn_wr _ _ _ hi]
    rfl

/-- the row loop of the Jacobi kernel with the frozen copy `temp` -/
def jacSweepFn (ω : R) (rows : Nat → Row R) (b temp : Nat → R) (order : List Nat) (x : Nat → R) :
    Nat → R :=
  order.foldl (fun y i => jacRowFn ω i (rows i) b temp y) x

theorem jacLoop_refines (ω : R) (A : K.Csr R) (b temp : Array R) :
    ∀ (rows : List Nat) (x : Array R), (∀ i ∈ rows, i < x.size) →
      (rows.foldl (fun x i =>
        let (rsum, diag) := (A.jjs i).foldl (fun (acc : R × R) jj =>
          let j := K.rdN A.aj jj
          if i = j then (acc.1, K.rd A.ax jj) else (acc.1 + K.rd A.ax jj * K.rd temp j, acc.2))
          ((0:R), (0:R))
        if diag = 0 then x else K.wr x i ((1 - ω) * K.rd temp i + ω * ((K.rd b i - rsum) / diag))) x).size
        = x.size ∧
      fn (rows.foldl (fun x i =>
        let (rsum, diag) := (A.jjs i).foldl (fun (acc : R × R) jj =>
          let j := K.rdN A.aj jj
          if i = j then (acc.1, K.rd A.ax jj) else (acc.1 + K.rd A.ax jj * K.rd temp j, acc.2))
          ((0:R), (0:R))
        if diag = 0 then x else K.wr x i ((1 - ω) * K.rd temp i + ω * ((K.rd b i - rsum) / diag))) x) =
      jacSweepFn ω (rowOf A) (fn b) (fn temp) rows (fn x) := by
  intro rows
  induction rows with
  | nil => intro x _; exact ⟨rfl, rfl⟩
  | cons i rows ih =>
    intro x hrows
    have hi : i < x.size := hrows i (by simp)
    unfold jacSweepFn
    rw [List.foldl_cons, List.foldl_cons]
    have hstep := jacStep_refines ω A b temp x i hi
    simp only at hstep
    have hsz : ((fun (x : Array R) (i : Nat) =>
        let (rsum, diag) := (A.jjs i).foldl (fun (acc : R × R) jj =>
          let j := K.rdN A.aj jj
          if i = j then (acc.1, K.rd A.ax jj) else (acc.1 + K.rd A.ax jj * K.rd temp j, acc.2))
          ((0:R), (0:R))
        if diag = 0 then x else K.wr x i ((1 - ω) * K.rd temp i + ω * ((K.rd b i - rsum) / diag))) x i).size
          = x.size := by
      simp only
      split
      · rfl
      · simp [K.wr]
    have := ih _ (fun j hj => by rw [hsz]; exact hrows j (by simp [hj]))
    unfold jacSweepFn at this
    refine ⟨this.1.trans hsz, ?_⟩
    rw [this.2, hstep]

/-- the whole kernel call `jacobi(Ap, Aj, Ax, x, b, temp, 0, n, 1, omega)` with `x.size = n` -/
theorem jacobi_refines (ω : R) (A : K.Csr R) (b x : Array R) (n : Nat) (hx : x.size = n) :
    (K.jacobi ω A b (List.range n) (Array.replicate x.size 0) x).size = n ∧
    fn (K.jacobi ω A b (List.range n) (Array.replicate x.size 0) x) =
      jacSweepFn ω (rowOf A) (fn b) (fn x) (List.range n) (fn x) := by
  have hrows : ∀ i ∈ List.range n, i < x.size := fun i hi => by rw [hx]; simpa using hi
  obtain ⟨_, hc2⟩ := copy_refines x (List.range n) (Array.replicate x.size 0) (by simp) hrows
  have htemp : fn ((List.range n).foldl (fun t i => K.wr t i (K.rd x i)) (Array.replicate x.size 0)) = fn x := by
    funext j
    rw [hc2 j]
    by_cases hj : j ∈ List.range n
    · simp [hj]
    · have : x.size ≤ j := by rw [hx]; simpa using hj
      rw [if_neg hj, fn_zero_of_size x j this]
      exact fn_zero_of_size _ j (by simpa using this)
  unfold K.jacobi
  simp only
  obtain ⟨h1, h2⟩ := jacLoop_refines ω A b
    ((List.range n).foldl (fun t i => K.wr t i (K.rd x i)) (Array.replicate x.size 0)) (List.range n) x hrows
  refine ⟨by rw [h1, hx], ?_⟩
  rw [h2, htemp]

/-- the stored diagonal entry of row `i` (sum of the stored diagonal entries) -/
def diagFn (A : K.Csr R) (i : Nat) : R :=
  (((rowOf A i).filter (fun cv => cv.1 = i)).map (·.2)).sum

theorem hasDiag_diagFn (A : K.Csr R) (i : Nat) (d : R) (h : HasDiag i (rowOf A i) d) : diagFn A i = d := by
  unfold diagFn; unfold HasDiag at h; rw [h]; simp

/-- `r ↦ D⁻¹ r` on the first `n` coordinates -/
def jacDinv (n : Nat) (diag : Nat → R) : (Nat → R) →ₗ[R] (Nat → R) where
  toFun r := fun i => if i < n then r i / diag i else 0
  map_add' u v := by funext i; by_cases h : i < n <;> simp [h, add_div]
  map_smul' c u := by funext i; by_cases h : i < n <;> simp [h, mul_div_assoc]

/-- with one stored non-zero diagonal per row, a sweep over rows `< n` writes the Jacobi values on the
swept rows and leaves the others -/
theorem jacSweep_formula (ω : R) (n : Nat) (rows : Nat → Row R) (diag : Nat → R)
    (hdiag : ∀ i, i < n → HasDiag i (rows i) (diag i) ∧ diag i ≠ 0) (b temp : Nat → R) :
    ∀ (order : List Nat), (∀ i ∈ order, i < n) → ∀ (y : Nat → R) (j : Nat),
      jacSweepFn ω rows b temp order y j =
        if j ∈ order then temp j + ω * ((b j - rowDot (rows j) temp) / diag j) else y j := by
  intro order
  induction order with
  | nil => intro _ y j; simp [jacSweepFn]
  | cons i rest ih =>
    intro horder y j
    have hi : i < n := horder i (by simp)
    obtain ⟨f1, f2⟩ := jacRow_formula ω i (rows i) b temp y (diag i) (hdiag i hi).1 (hdiag i hi).2
    have := ih (fun k hk => horder k (by simp [hk])) (jacRowFn ω i (rows i) b temp y) j
    unfold jacSweepFn at this ⊢
    rw [List.foldl_cons, this]
    by_cases hjr : j ∈ rest
    · simp [hjr]
    · by_cases hji : j = i
      · subst hji; simp [hjr, f1]
      · simp [hjr, hji, f2 j hji]

/-- **the Jacobi kernel call is `x + ω D⁻¹ (b − A x)`** -/
theorem jacSweep_eq_operator (ω : R) (n : Nat) (rows : Nat → Row R) (diag : Nat → R)
    (hdiag : ∀ i, i < n → HasDiag i (rows i) (diag i) ∧ diag i ≠ 0) (b x : Nat → R) :
    jacSweepFn ω rows b x (List.range n) x = x + ω • jacDinv n diag (b - csrOp n rows x) := by
  funext j
  rw [jacSweep_formula ω n rows diag hdiag b x (List.range n) (fun i hi => by simpa using hi) x j]
  by_cases hj : j < n
  · have : j ∈ List.range n := by simpa using hj
    simp [this, jacDinv, hj, csrOp_apply n rows x j hj]
  · have : j ∉ List.range n := by simpa using hj
    simp [this, jacDinv, hj]

end PyamgV
