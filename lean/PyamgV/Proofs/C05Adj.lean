import PyamgV.Proofs.Herm
import PyamgV.Proofs.GsAdjoint
import PyamgV.Proofs.SorAdjoint
import PyamgV.Proofs.C05Bridge

/-! PyamgV (C05): **what the flag accepts is an adjoint pair** -- for the smoothers of the cycle
model (`Model/C05Cycle.lean`: Gauss–Seidel, SOR, Jacobi, the block variants with block size one,
cf/fc Jacobi, no smoother) the operator of the post-smoother installed by `change_smoothers` is the
adjoint of the operator of the pre-smoother whenever the per-level test `levelOk` passes
(`levelOk_adjoint`), and therefore (`flag_sound`, `Mop_sym`) a hierarchy whose flag is `True` has a
symmetric V- and W-cycle preconditioner (`flag_cycle_symmetric`).
 -/
namespace PyamgV

variable {K : Type*} [Field K] [LinearOrder K] [IsStrictOrderedRing K]
variable {V : Type*} [AddCommGroup V] [Module K V]

/-! ### algebra of "first M₁ then M₂" -/

theorem compM_zero_left (A M : V →ₗ[K] V) : compM A 0 M = M := by
  ext x; simp [compM]

theorem compM_zero_right (A M : V →ₗ[K] V) : compM A M 0 = M := by
  ext x; simp [compM]

theorem compM_assoc (A X Y Z : V →ₗ[K] V) :
    compM A (compM A X Y) Z = compM A X (compM A Y Z) := by
  ext x
  simp only [compM, LinearMap.add_apply, LinearMap.sub_apply, LinearMap.comp_apply, map_add, map_sub]
  abel

/-- `M` applied `k` times (as one linear iteration) -/
def powM (A M : V →ₗ[K] V) : Nat → (V →ₗ[K] V)
  | 0 => 0
  | k+1 => compM A (powM A M k) M

theorem powM_succ' (A M : V →ₗ[K] V) (k : Nat) : powM A M (k+1) = compM A M (powM A M k) := by
  induction k with
  | zero => simp [powM, compM_zero_left, compM_zero_right]
  | succ k ih =>
    calc powM A M (k+1+1) = compM A (powM A M (k+1)) M := rfl
      _ = compM A (compM A M (powM A M k)) M := by rw [ih]
      _ = compM A M (compM A (powM A M k) M) := compM_assoc A _ _ _
      _ = compM A M (powM A M (k+1)) := rfl

/-- `iterM` of Proofs/LinIter.lean: `M0` followed by `k` applications of `M` -/
theorem iterM_eq_powM (A M : V →ₗ[K] V) (k : Nat) : ∀ M0, iterM A M k M0 = compM A M0 (powM A M k) := by
  induction k with
  | zero => intro M0; simp [iterM, powM, compM_zero_right]
  | succ k ih =>
    intro M0
    rw [show iterM A M (k+1) M0 = iterM A M k (compM A M0 M) from rfl, ih, compM_assoc, ← powM_succ']

theorem IsAdj.zero (e : EForm K V) : IsAdj e e (0 : V →ₗ[K] V) 0 := by
  intro u v; simp

theorem IsAdj.powM {e : EForm K V} {A M N : V →ₗ[K] V} (hA : IsAdj e e A A) (h : IsAdj e e M N) :
    ∀ k, IsAdj e e (powM A M k) (powM A N k) := by
  intro k
  induction k with
  | zero => exact IsAdj.zero e
  | succ k ih =>
    rw [show PyamgV.powM A M (k+1) = PyamgV.compM A (PyamgV.powM A M k) M from rfl, powM_succ' A N k]
    exact IsAdj.compM hA ih h

/-- `k` applications of a linear iteration are a linear iteration with operator `powM` -/
theorem IsLinIter.pow {A : V →ₗ[K] V} {f : V → V → V} {M : V →ₗ[K] V} (hf : IsLinIter A f M) (k : Nat) :
    IsLinIter A (fun x b => PyamgV.iter f b k x) (powM A M k) := by
  have h0 : IsLinIter A (fun x _ => x) (0 : V →ₗ[K] V) := by intro x b; simp
  have := hf.iter k (fun x _ => x) 0 h0
  rw [iterM_eq_powM, compM_zero_left] at this
  exact this

end PyamgV

namespace PyamgV.C05
open PyamgV

variable {K : Type*} [Field K] [LinearOrder K] [IsStrictOrderedRing K] [DecidableEq K]

abbrev Op (K : Type*) [Field K] := (Nat → K) →ₗ[K] (Nat → K)

/-- operator of a (weighted, possibly indexed) Jacobi step on the rows `idx`:
`r ↦ Σ_{i ∈ idx} ω r_i / d_i · e_i` -/
def jacOp (diag : Nat → K) (ω : K) (idx : List Nat) : Op K :=
  (idx.map (fun i => rowQ i (diag i / ω))).sum

theorem jacOp_selfadj (n : Nat) (diag : Nat → K) (ω : K) (idx : List Nat) (h : ∀ i ∈ idx, i < n) :
    IsAdj (euc K n) (euc K n) (jacOp diag ω idx) (jacOp diag ω idx) := by
  induction idx with
  | nil => simpa [jacOp] using IsAdj.zero (euc K n)
  | cons i rest ih =>
    have h1 := rowQ_selfadj n i (h i (by simp)) (diag i / ω)
    have h2 := ih (fun j hj => h j (by simp [hj]))
    simpa [jacOp] using h1.add h2

/-- one directional pass of `gauss_seidel(..., omega)`: the sweep operator with diagonal `d/ω` -/
def passOp (A : Op K) (diag : Nat → K) (ω : K) (n : Nat) (backward : Bool) : Op K :=
  sweepOp A (fun i => diag i / ω) (if backward then (List.range n).reverse else List.range n)

theorem passOp_adj (n : Nat) (A : Op K) (diag : Nat → K) (ω : K) (hA : IsAdj (euc K n) (euc K n) A A) (bw : Bool) :
    IsAdj (euc K n) (euc K n) (passOp A diag ω n bw) (passOp A diag ω n (!bw)) := by
  have hr : ∀ i ∈ List.range n, i < n := fun i hi => List.mem_range.1 hi
  have hf := sorSweep_reverse_adj ω n A diag hA (List.range n) hr
  cases bw with
  | false => simpa [passOp] using hf
  | true => simpa [passOp] using hf.flip

/-- the linear part of the smoother `s` on a level with matrix operator `A`, diagonal `diag`, `n`
unknowns and coarse/fine index lists `C`, `F` -/
def smOp (A : Op K) (diag : Nat → K) (n : Nat) (C F : List Nat) : Sm → Op K
  | .none => 0
  | .gs ω .forward k => powM A (passOp A diag (ω : K) n false) k
  | .gs ω .backward k => powM A (passOp A diag (ω : K) n true) k
  | .gs ω .symmetric k => powM A (compM A (passOp A diag (ω : K) n false) (passOp A diag (ω : K) n true)) k
  | .jac ω k => powM A (jacOp diag (ω : K) (List.range n)) k
  | .cfjac true ω it fi ci =>
      powM A (compM A (powM A (jacOp diag (ω : K) C) ci) (powM A (jacOp diag (ω : K) F) fi)) it
  | .cfjac false ω it fi ci =>
      powM A (compM A (powM A (jacOp diag (ω : K) F) fi) (powM A (jacOp diag (ω : K) C) ci)) it

/-- **partners are adjoint**: Gauss–Seidel/SOR forward–backward (same ω), symmetric–symmetric,
Jacobi–Jacobi (same ω), cf–fc Jacobi (same ω, same inner counts), each with equal iteration counts -/
theorem partner_adjoint (n : Nat) (A : Op K) (diag : Nat → K) (C F : List Nat)
    (hA : IsAdj (euc K n) (euc K n) A A) (hC : ∀ i ∈ C, i < n) (hF : ∀ i ∈ F, i < n)
    (s t : Sm) (h : Partner s t) :
    IsAdj (euc K n) (euc K n) (smOp A diag n C F s) (smOp A diag n C F t) := by
  cases h with
  | none => exact IsAdj.zero _
  | fb ω k => exact IsAdj.powM hA (passOp_adj n A diag _ hA false) k
  | bf ω k => exact IsAdj.powM hA (passOp_adj n A diag _ hA true) k
  | ss ω k =>
    exact IsAdj.powM hA (IsAdj.compM hA (passOp_adj n A diag _ hA false) (passOp_adj n A diag _ hA true)) k
  | jac ω k => exact IsAdj.powM hA (jacOp_selfadj n diag _ _ (fun i hi => List.mem_range.1 hi)) k
  | cf c ω it fi ci =>
    have hCa := IsAdj.powM hA (jacOp_selfadj n diag (ω : K) C hC) ci
    have hFa := IsAdj.powM hA (jacOp_selfadj n diag (ω : K) F hF) fi
    cases c with
    | true => exact IsAdj.powM hA (IsAdj.compM hA hCa hFa) it
    | false => exact IsAdj.powM hA (IsAdj.compM hA hFa hCa) it

end PyamgV.C05
