import PyamgV.Proofs.ExtC07CPcg

/-! PyamgV (extension E37, property C07): CGNR, CGNE and CR of `pyamg/krylov/` in the **Hermitian setting**, as
simulations of the preconditioned CG of `Proofs/ExtC07CPcg.lean` on a transformed problem (complex counterpart of
`Proofs/KrylovSim.lean`):

* CGNR  = PCG on `AᴴA x = Aᴴb`                       → minimises `‖b − A x‖`                (`cgnr_optimal`)
* CGNE  = PCG on `AAᴴ y = b − A x₀`, `x = x₀ + Aᴴy`   → minimises `‖x* − x‖`                 (`cgne_optimal`)
* CR with preconditioner `M` = PCG for `A`, `M` in the inner product `⟨A·,·⟩` → minimises `‖b − A x‖` over
  `x₀ + K_k(MA, M r₀)` **provided `M A = A M`** (`cr_optimal`): the recurrence `α = ⟨r, A z⟩ / ⟨A p, A p⟩` of
  `_cr.py` is PCG in the `A`-inner product for any `M` (`cr_sim`), but `M` is Hermitian for that inner product only
  when it commutes with `A` (`M = I`, `c I + d A`, any polynomial in `A`).  This also settles the *real*
  preconditioned case (`K = F`, trivial involution), which `Proofs/KrylovSim.lean` has for `M = I` only.

The sides of the conjugations are those of the code: `dot u v = ⟨u, v⟩` is conjugate-linear in `u`. -/
namespace PyamgV.CHerm
namespace CKSim

variable {K F V : Type*} [Field K] [StarRing K] [Field F] [LinearOrder F] [IsStrictOrderedRing F]
  [AddCommGroup V] [Module K V]

structure St (K V : Type*) where
  x : V
  r : V
  p : V
  zr : K

/-- `AH` is the adjoint of `A` for the form `E` -/
def Adj (E : HForm K F V) (A AH : V →ₗ[K] V) : Prop := ∀ u v, E.h (AH u) v = E.h u (A v)

theorem Adj.flip {E : HForm K F V} {A AH : V →ₗ[K] V} (h : Adj E A AH) (u v : V) :
    E.h (A u) v = E.h u (AH v) := by
  rw [E.conj_symm v (A u), ← h, ← E.conj_symm]

/-! ### CGNR (`_cgnr.py`) -/

def nrInit (A AH M : V →ₗ[K] V) (E : HForm K F V) (b x0 : V) : St K V :=
  let r := b - A x0
  let rhat := AH r
  let z := M rhat
  ⟨x0, r, z, E.h z rhat⟩

def nrStep (A AH M : V →ₗ[K] V) (E : HForm K F V) (s : St K V) : St K V :=
  let w := A s.p
  let alpha := s.zr / E.h w w
  let x' := s.x + alpha • s.p
  let r' := s.r - alpha • w
  let rhat := AH r'
  let z := M rhat
  let new := E.h z rhat
  let beta := new / s.zr
  ⟨x', r', z + beta • s.p, new⟩

def nrSeq (A AH M : V →ₗ[K] V) (E : HForm K F V) (b x0 : V) : Nat → St K V
  | 0 => nrInit A AH M E b x0
  | k+1 => nrStep A AH M E (nrSeq A AH M E b x0 k)

theorem nr_sim {A AH M : V →ₗ[K] V} {E : HForm K F V} (hadj : Adj E A AH)
    (hM : ∀ u v, E.h (M u) v = E.h u (M v)) (b x0 : V) (k : Nat) :
    (CPCG.seq (AH ∘ₗ A) M E (AH b) x0 k).x = (nrSeq A AH M E b x0 k).x ∧
    (CPCG.seq (AH ∘ₗ A) M E (AH b) x0 k).r = AH (nrSeq A AH M E b x0 k).r ∧
    (CPCG.seq (AH ∘ₗ A) M E (AH b) x0 k).p = (nrSeq A AH M E b x0 k).p ∧
    (CPCG.seq (AH ∘ₗ A) M E (AH b) x0 k).rz = (nrSeq A AH M E b x0 k).zr := by
  induction k with
  | zero =>
    refine ⟨rfl, ?_, ?_, ?_⟩
    · simp [CPCG.seq, CPCG.init, nrSeq, nrInit]
    · simp [CPCG.seq, CPCG.init, nrSeq, nrInit]
    · show E.h (AH b - (AH ∘ₗ A) x0) (M (AH b - (AH ∘ₗ A) x0)) =
        E.h (M (AH (b - A x0))) (AH (b - A x0))
      have : AH b - (AH ∘ₗ A) x0 = AH (b - A x0) := by simp
      rw [this, hM]
  | succ k ih =>
    obtain ⟨hx, hr, hp, hz⟩ := ih
    have hpAp : E.h ((AH ∘ₗ A) (CPCG.seq (AH ∘ₗ A) M E (AH b) x0 k).p)
        (CPCG.seq (AH ∘ₗ A) M E (AH b) x0 k).p =
        E.h (A (nrSeq A AH M E b x0 k).p) (A (nrSeq A AH M E b x0 k).p) := by
      rw [hp, LinearMap.comp_apply, hadj]
    have hr' : (CPCG.seq (AH ∘ₗ A) M E (AH b) x0 (k+1)).r =
        AH (nrSeq A AH M E b x0 (k+1)).r := by
      show (CPCG.step _ _ _ _).r = AH (nrStep _ _ _ _ _).r
      simp only [CPCG.step, nrStep]
      rw [hpAp, hr, hp, hz]
      simp only [LinearMap.comp_apply, map_sub, map_smul]
    have hz' : (CPCG.seq (AH ∘ₗ A) M E (AH b) x0 (k+1)).rz =
        (nrSeq A AH M E b x0 (k+1)).zr := by
      have h1 : (CPCG.seq (AH ∘ₗ A) M E (AH b) x0 (k+1)).rz =
          E.h (CPCG.seq (AH ∘ₗ A) M E (AH b) x0 (k+1)).r
            (M (CPCG.seq (AH ∘ₗ A) M E (AH b) x0 (k+1)).r) := rfl
      have h2 : (nrSeq A AH M E b x0 (k+1)).zr =
          E.h (M (AH (nrSeq A AH M E b x0 (k+1)).r)) (AH (nrSeq A AH M E b x0 (k+1)).r) := rfl
      rw [h1, h2, hr', hM]
    refine ⟨?_, hr', ?_, hz'⟩
    · show (CPCG.step _ _ _ _).x = (nrStep _ _ _ _ _).x
      simp only [CPCG.step, nrStep]
      rw [hpAp, hx, hp, hz]
    · have h1 : (CPCG.seq (AH ∘ₗ A) M E (AH b) x0 (k+1)).p =
          M (CPCG.seq (AH ∘ₗ A) M E (AH b) x0 (k+1)).r +
            ((CPCG.seq (AH ∘ₗ A) M E (AH b) x0 (k+1)).rz /
              (CPCG.seq (AH ∘ₗ A) M E (AH b) x0 k).rz) •
              (CPCG.seq (AH ∘ₗ A) M E (AH b) x0 k).p := rfl
      have h2 : (nrSeq A AH M E b x0 (k+1)).p =
          M (AH (nrSeq A AH M E b x0 (k+1)).r) +
            ((nrSeq A AH M E b x0 (k+1)).zr / (nrSeq A AH M E b x0 k).zr) •
              (nrSeq A AH M E b x0 k).p := rfl
      rw [h1, h2, hr', hz', hz, hp]

/-- the hypotheses of PCG hold for the normal equations -/
theorem nr_hyp {A AH M : V →ₗ[K] V} {E : HForm K F V} (hadj : Adj E A AH)
    (hM : ∀ u v, E.h (M u) v = E.h u (M v))
    (hdef : ∀ v, E.h v v = 0 → v = 0) (hinj : ∀ v, A v = 0 → v = 0) :
    CPCG.Hyp (AH ∘ₗ A) M E := by
  refine ⟨?_, hM, ?_, ?_⟩
  · intro u v
    simp only [LinearMap.comp_apply]
    rw [hadj, hadj.flip]
  · intro v h
    simp only [LinearMap.comp_apply] at h
    rw [hadj] at h
    exact hinj v (hdef _ h)
  · intro v
    simp only [LinearMap.comp_apply]
    rw [hadj]; exact E.nonneg _

/-- **CGNR minimises the residual norm** over `x₀ + K_k(M AᴴA, M Aᴴ r₀)`, Hermitian setting -/
theorem cgnr_optimal {A AH M : V →ₗ[K] V} {E : HForm K F V} (hadj : Adj E A AH)
    (hM : ∀ u v, E.h (M u) v = E.h u (M v))
    (hdef : ∀ v, E.h v v = 0 → v = 0) (hinj : ∀ v, A v = 0 → v = 0)
    (b x0 xs : V) (hxs : A xs = b) (k : Nat)
    (hnb : ∀ j, j < k → (nrSeq A AH M E b x0 j).zr ≠ 0) :
    (nrSeq A AH M E b x0 k).x - x0 ∈ CPCG.kry (AH ∘ₗ A) M E (AH b) x0 k ∧
    ∀ y, y - x0 ∈ CPCG.kry (AH ∘ₗ A) M E (AH b) x0 k →
      E.en (b - A (nrSeq A AH M E b x0 k).x) ≤ E.en (b - A y) := by
  have hH := nr_hyp hadj hM hdef hinj
  have hnb' : ∀ j, j < k → (CPCG.seq (AH ∘ₗ A) M E (AH b) x0 j).rz ≠ 0 := by
    intro j hj; rw [(nr_sim hadj hM b x0 j).2.2.2]; exact hnb j hj
  have hxs' : (AH ∘ₗ A) xs = AH b := by simp [hxs]
  obtain ⟨h1, h2⟩ := CPCG.cpcg_optimal_krylov hH xs hxs' k hnb'
  rw [(nr_sim hadj hM b x0 k).1] at h1 h2
  refine ⟨h1, ?_⟩
  intro y hy
  have key : ∀ w, CPCG.enA (AH ∘ₗ A) E (xs - w) = E.en (b - A w) := by
    intro w
    unfold CPCG.enA HForm.en
    simp only [LinearMap.comp_apply]
    rw [hadj, map_sub, hxs]
  have := h2 y hy
  rw [key, key] at this
  exact this

/-! ### CGNE (`_cgne.py`) -/

def neInit (A AH M : V →ₗ[K] V) (E : HForm K F V) (b x0 : V) : St K V :=
  let r := b - A x0
  let z := M r
  ⟨x0, r, AH z, E.h z r⟩

def neStep (A AH M : V →ₗ[K] V) (E : HForm K F V) (s : St K V) : St K V :=
  let alpha := s.zr / E.h s.p s.p
  let x' := s.x + alpha • s.p
  let r' := s.r - alpha • A s.p
  let z := M r'
  let new := E.h z r'
  let beta := new / s.zr
  ⟨x', r', AH z + beta • s.p, new⟩

def neSeq (A AH M : V →ₗ[K] V) (E : HForm K F V) (b x0 : V) : Nat → St K V
  | 0 => neInit A AH M E b x0
  | k+1 => neStep A AH M E (neSeq A AH M E b x0 k)

/-- CGNE is PCG for `A Aᴴ y = b − A x₀` started at `y = 0`, with `x = x₀ + Aᴴ y` -/
theorem ne_sim {A AH M : V →ₗ[K] V} {E : HForm K F V} (hadj : Adj E A AH)
    (hM : ∀ u v, E.h (M u) v = E.h u (M v)) (b x0 : V) (k : Nat) :
    (neSeq A AH M E b x0 k).x = x0 + AH (CPCG.seq (A ∘ₗ AH) M E (b - A x0) 0 k).x ∧
    (neSeq A AH M E b x0 k).r = (CPCG.seq (A ∘ₗ AH) M E (b - A x0) 0 k).r ∧
    (neSeq A AH M E b x0 k).p = AH (CPCG.seq (A ∘ₗ AH) M E (b - A x0) 0 k).p ∧
    (neSeq A AH M E b x0 k).zr = (CPCG.seq (A ∘ₗ AH) M E (b - A x0) 0 k).rz := by
  induction k with
  | zero =>
    refine ⟨?_, ?_, ?_, ?_⟩
    · simp [CPCG.seq, CPCG.init, neSeq, neInit]
    · simp [CPCG.seq, CPCG.init, neSeq, neInit]
    · simp [CPCG.seq, CPCG.init, neSeq, neInit]
    · simp only [CPCG.seq, CPCG.init, neSeq, neInit, map_zero, sub_zero]
      rw [hM]
  | succ k ih =>
    obtain ⟨hx, hr, hp, hz⟩ := ih
    have hpp : E.h (neSeq A AH M E b x0 k).p (neSeq A AH M E b x0 k).p =
        E.h ((A ∘ₗ AH) (CPCG.seq (A ∘ₗ AH) M E (b - A x0) 0 k).p)
          (CPCG.seq (A ∘ₗ AH) M E (b - A x0) 0 k).p := by
      rw [hp, LinearMap.comp_apply, hadj.flip]
    have hr' : (neSeq A AH M E b x0 (k+1)).r =
        (CPCG.seq (A ∘ₗ AH) M E (b - A x0) 0 (k+1)).r := by
      show (neStep _ _ _ _ _).r = (CPCG.step _ _ _ _).r
      simp only [CPCG.step, neStep]
      rw [hpp, hr, hp, hz]
      simp only [LinearMap.comp_apply]
    have hz' : (neSeq A AH M E b x0 (k+1)).zr =
        (CPCG.seq (A ∘ₗ AH) M E (b - A x0) 0 (k+1)).rz := by
      have h1 : (CPCG.seq (A ∘ₗ AH) M E (b - A x0) 0 (k+1)).rz =
          E.h (CPCG.seq (A ∘ₗ AH) M E (b - A x0) 0 (k+1)).r
            (M (CPCG.seq (A ∘ₗ AH) M E (b - A x0) 0 (k+1)).r) := rfl
      have h2 : (neSeq A AH M E b x0 (k+1)).zr =
          E.h (M (neSeq A AH M E b x0 (k+1)).r) (neSeq A AH M E b x0 (k+1)).r := rfl
      rw [h1, h2, hr', hM]
    refine ⟨?_, hr', ?_, hz'⟩
    · show (neStep _ _ _ _ _).x = x0 + AH (CPCG.step _ _ _ _).x
      simp only [CPCG.step, neStep]
      rw [hpp, hx, hp, hz]
      simp only [map_add, map_smul]
      abel
    · have h1 : (CPCG.seq (A ∘ₗ AH) M E (b - A x0) 0 (k+1)).p =
          M (CPCG.seq (A ∘ₗ AH) M E (b - A x0) 0 (k+1)).r +
            ((CPCG.seq (A ∘ₗ AH) M E (b - A x0) 0 (k+1)).rz /
              (CPCG.seq (A ∘ₗ AH) M E (b - A x0) 0 k).rz) •
              (CPCG.seq (A ∘ₗ AH) M E (b - A x0) 0 k).p := rfl
      have h2 : (neSeq A AH M E b x0 (k+1)).p =
          AH (M (neSeq A AH M E b x0 (k+1)).r) +
            ((neSeq A AH M E b x0 (k+1)).zr / (neSeq A AH M E b x0 k).zr) •
              (neSeq A AH M E b x0 k).p := rfl
      rw [h1, h2, hr', hz', hz, hp]
      simp only [map_add, map_smul]

theorem ne_hyp {A AH M : V →ₗ[K] V} {E : HForm K F V} (hadj : Adj E A AH)
    (hM : ∀ u v, E.h (M u) v = E.h u (M v))
    (hdef : ∀ v, E.h v v = 0 → v = 0) (hinj : ∀ v, AH v = 0 → v = 0) :
    CPCG.Hyp (A ∘ₗ AH) M E := by
  refine ⟨?_, hM, ?_, ?_⟩
  · intro u v
    simp only [LinearMap.comp_apply]
    rw [hadj.flip, hadj]
  · intro v h
    simp only [LinearMap.comp_apply] at h
    rw [hadj.flip] at h
    exact hinj v (hdef _ h)
  · intro v
    simp only [LinearMap.comp_apply]
    rw [hadj.flip]; exact E.nonneg _

/-- **CGNE minimises the 2-norm of the error** over `x₀ + Aᴴ K_k(M AAᴴ, M r₀)`, Hermitian setting -/
theorem cgne_optimal {A AH M : V →ₗ[K] V} {E : HForm K F V} (hadj : Adj E A AH)
    (hM : ∀ u v, E.h (M u) v = E.h u (M v))
    (hdef : ∀ v, E.h v v = 0 → v = 0) (hinj : ∀ v, AH v = 0 → v = 0)
    (b x0 ys : V) (hys : A (AH ys) = b - A x0) (k : Nat)
    (hnb : ∀ j, j < k → (neSeq A AH M E b x0 j).zr ≠ 0) :
    (∃ y, y ∈ CPCG.kry (A ∘ₗ AH) M E (b - A x0) 0 k ∧ (neSeq A AH M E b x0 k).x = x0 + AH y) ∧
    ∀ y, y ∈ CPCG.kry (A ∘ₗ AH) M E (b - A x0) 0 k →
      E.en ((x0 + AH ys) - (neSeq A AH M E b x0 k).x) ≤ E.en ((x0 + AH ys) - (x0 + AH y)) := by
  have hH := ne_hyp hadj hM hdef hinj
  have hnb' : ∀ j, j < k → (CPCG.seq (A ∘ₗ AH) M E (b - A x0) 0 j).rz ≠ 0 := by
    intro j hj; rw [← (ne_sim hadj hM b x0 j).2.2.2]; exact hnb j hj
  obtain ⟨h1, h2⟩ := CPCG.cpcg_optimal_krylov hH ys hys k hnb'
  refine ⟨⟨_, by simpa using h1, (ne_sim hadj hM b x0 k).1⟩, ?_⟩
  intro y hy
  have key : ∀ w, CPCG.enA (A ∘ₗ AH) E (ys - w) = E.en ((x0 + AH ys) - (x0 + AH w)) := by
    intro w
    unfold CPCG.enA HForm.en
    simp only [LinearMap.comp_apply]
    have : x0 + AH ys - (x0 + AH w) = AH (ys - w) := by rw [map_sub]; abel
    rw [this, hadj.flip]
  have := h2 y (by simpa using hy)
  rw [key, key, ← (ne_sim hadj hM b x0 k).1] at this
  exact this

/-! ### CR (`_cr.py`) with a preconditioner -/

structure CRSt (K V : Type*) where
  x : V
  r : V
  p : V
  Ap : V
  rAz : K

def crInit (A M : V →ₗ[K] V) (E : HForm K F V) (b x0 : V) : CRSt K V :=
  let r := b - A x0
  let z := M r
  let Az := A z
  ⟨x0, r, z, A z, E.h r Az⟩

def crStep (A M : V →ₗ[K] V) (E : HForm K F V) (s : CRSt K V) : CRSt K V :=
  let alpha := s.rAz / E.h s.Ap s.Ap
  let x' := s.x + alpha • s.p
  let r' := s.r - alpha • s.Ap
  let z := M r'
  let Az := A z
  let new := E.h r' Az
  let beta := new / s.rAz
  ⟨x', r', z + beta • s.p, Az + beta • s.Ap, new⟩

def crSeq (A M : V →ₗ[K] V) (E : HForm K F V) (b x0 : V) : Nat → CRSt K V
  | 0 => crInit A M E b x0
  | k+1 => crStep A M E (crSeq A M E b x0 k)

/-- the recurrence of `_cr.py` with any preconditioner `M` is PCG for `A`, `M` in the inner product `⟨A·,·⟩` -/
theorem cr_sim {A M : V →ₗ[K] V} {E : HForm K F V} (hs : ∀ u v, E.h (A u) v = E.h u (A v))
    (hp : ∀ v, 0 ≤ E.re (E.h (A v) v)) (b x0 : V) (k : Nat) :
    (crSeq A M E b x0 k).x = (CPCG.seq A M (E.aForm A hs hp) b x0 k).x ∧
    (crSeq A M E b x0 k).r = (CPCG.seq A M (E.aForm A hs hp) b x0 k).r ∧
    (crSeq A M E b x0 k).p = (CPCG.seq A M (E.aForm A hs hp) b x0 k).p ∧
    (crSeq A M E b x0 k).Ap = A (CPCG.seq A M (E.aForm A hs hp) b x0 k).p ∧
    (crSeq A M E b x0 k).rAz = (CPCG.seq A M (E.aForm A hs hp) b x0 k).rz := by
  induction k with
  | zero =>
    refine ⟨rfl, rfl, rfl, rfl, ?_⟩
    show E.h (b - A x0) (A (M (b - A x0))) = E.h (A (b - A x0)) (M (b - A x0))
    rw [hs]
  | succ k ih =>
    obtain ⟨hx, hr, hpp, hAp, hz⟩ := ih
    have hden : E.h (crSeq A M E b x0 k).Ap (crSeq A M E b x0 k).Ap =
        (E.aForm A hs hp).h (A (CPCG.seq A M (E.aForm A hs hp) b x0 k).p)
          (CPCG.seq A M (E.aForm A hs hp) b x0 k).p := by
      rw [hAp, HForm.aForm_h]; exact (hs _ _).symm
    have hr' : (crSeq A M E b x0 (k+1)).r =
        (CPCG.seq A M (E.aForm A hs hp) b x0 (k+1)).r := by
      show (crStep _ _ _ _).r = (CPCG.step _ _ _ _).r
      simp only [CPCG.step, crStep]
      rw [hden, hr, hAp, hz]
    have hz' : (crSeq A M E b x0 (k+1)).rAz =
        (CPCG.seq A M (E.aForm A hs hp) b x0 (k+1)).rz := by
      have h1 : (CPCG.seq A M (E.aForm A hs hp) b x0 (k+1)).rz =
          (E.aForm A hs hp).h (CPCG.seq A M (E.aForm A hs hp) b x0 (k+1)).r
            (M (CPCG.seq A M (E.aForm A hs hp) b x0 (k+1)).r) := rfl
      have h2 : (crSeq A M E b x0 (k+1)).rAz =
          E.h (crSeq A M E b x0 (k+1)).r
            (A (M (crSeq A M E b x0 (k+1)).r)) := rfl
      rw [h1, h2, hr', HForm.aForm_h, hs]
    have hp1 : (CPCG.seq A M (E.aForm A hs hp) b x0 (k+1)).p =
        M (CPCG.seq A M (E.aForm A hs hp) b x0 (k+1)).r +
          ((CPCG.seq A M (E.aForm A hs hp) b x0 (k+1)).rz /
            (CPCG.seq A M (E.aForm A hs hp) b x0 k).rz) •
            (CPCG.seq A M (E.aForm A hs hp) b x0 k).p := rfl
    refine ⟨?_, hr', ?_, ?_, hz'⟩
    · show (crStep _ _ _ _).x = (CPCG.step _ _ _ _).x
      simp only [CPCG.step, crStep]
      rw [hden, hx, hpp, hz]
    · have h2 : (crSeq A M E b x0 (k+1)).p =
          M (crSeq A M E b x0 (k+1)).r +
            ((crSeq A M E b x0 (k+1)).rAz / (crSeq A M E b x0 k).rAz) •
              (crSeq A M E b x0 k).p := rfl
      rw [hp1, h2, hr', hz', hz, hpp]
    · have h2 : (crSeq A M E b x0 (k+1)).Ap =
          A (M (crSeq A M E b x0 (k+1)).r) +
            ((crSeq A M E b x0 (k+1)).rAz / (crSeq A M E b x0 k).rAz) •
              (crSeq A M E b x0 k).Ap := rfl
      rw [hp1, h2, hr', hz', hz, hAp, map_add, map_smul]

/-- a Hermitian preconditioner that commutes with `A` is Hermitian for the inner product `⟨A·,·⟩` -/
theorem cr_hyp {A M : V →ₗ[K] V} {E : HForm K F V} (hs : ∀ u v, E.h (A u) v = E.h u (A v))
    (hp : ∀ v, 0 ≤ E.re (E.h (A v) v)) (hM : ∀ u v, E.h (M u) v = E.h u (M v))
    (hcomm : ∀ v, M (A v) = A (M v))
    (hdef : ∀ v, E.h v v = 0 → v = 0) (hinj : ∀ v, A v = 0 → v = 0) :
    CPCG.Hyp A M (E.aForm A hs hp) := by
  refine ⟨?_, ?_, ?_, ?_⟩
  · intro u v; simp only [HForm.aForm_h]; rw [hs]
  · intro u v; simp only [HForm.aForm_h]
    rw [hs, hM, hcomm, ← hs]
  · intro v h
    simp only [HForm.aForm_h] at h
    rw [hs] at h
    exact hinj v (hdef _ h)
  · intro v; simp only [HForm.aForm_h, HForm.aForm_re]; rw [hs]; exact E.nonneg _

/-- **preconditioned CR minimises the residual norm** over `x₀ + K_k(MA, M r₀)`: `A` Hermitian positive definite,
`M` Hermitian **commuting with `A`** (Hermitian setting; `K = F` with the trivial involution is the real case) -/
theorem cr_optimal {A M : V →ₗ[K] V} {E : HForm K F V} (hs : ∀ u v, E.h (A u) v = E.h u (A v))
    (hp : ∀ v, 0 ≤ E.re (E.h (A v) v)) (hM : ∀ u v, E.h (M u) v = E.h u (M v))
    (hcomm : ∀ v, M (A v) = A (M v))
    (hdef : ∀ v, E.h v v = 0 → v = 0) (hinj : ∀ v, A v = 0 → v = 0)
    (b x0 xs : V) (hxs : A xs = b) (k : Nat)
    (hnb : ∀ j, j < k → (crSeq A M E b x0 j).rAz ≠ 0) :
    (crSeq A M E b x0 k).x - x0 ∈ CPCG.kry A M (E.aForm A hs hp) b x0 k ∧
    ∀ y, y - x0 ∈ CPCG.kry A M (E.aForm A hs hp) b x0 k →
      E.en (b - A (crSeq A M E b x0 k).x) ≤ E.en (b - A y) := by
  have hH := cr_hyp hs hp hM hcomm hdef hinj
  have hnb' : ∀ j, j < k → (CPCG.seq A M (E.aForm A hs hp) b x0 j).rz ≠ 0 := by
    intro j hj; rw [← (cr_sim hs hp b x0 j).2.2.2.2]; exact hnb j hj
  obtain ⟨h1, h2⟩ := CPCG.cpcg_optimal_krylov hH xs hxs k hnb'
  rw [← (cr_sim hs hp b x0 k).1] at h1 h2
  refine ⟨h1, ?_⟩
  intro y hy
  have key : ∀ w, CPCG.enA A (E.aForm A hs hp) (xs - w) = E.en (b - A w) := by
    intro w
    unfold CPCG.enA HForm.en
    rw [HForm.aForm_h, HForm.aForm_re, hs, map_sub, hxs]
  have := h2 y hy
  rw [key, key] at this
  exact this

/-- the Krylov space does not depend on the form used to generate it -/
theorem kry_form_irrel (A M : V →ₗ[K] V) (E E' : HForm K F V) (b x0 : V) (k : Nat) :
    CPCG.kry A M E b x0 k = CPCG.kry A M E' b x0 k := rfl

#print axioms cgnr_optimal
#print axioms cgne_optimal
#print axioms cr_optimal
end CKSim
end PyamgV.CHerm
