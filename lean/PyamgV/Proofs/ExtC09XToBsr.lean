import PyamgV.Proofs.ExtC09Block
import PyamgV.Model.ExtC09XIndexed

/-! PyamgV (extension E33, property C09): MEANING of the conversion model `Csr.toBsr` of Model/ExtC09Block.lean
(SciPy `csr_tobsr`).  For every weight `w`, block row `I`, local row `l`:
`Σ_{stored blocks jj of block row I} Σ_m B_jj[l, m] · w (bj jj) m = Σ_{stored entries jj of CSR row I·bs+l} ax jj · w (aj jj / bs) (aj jj % bs)`.
Specialising `w` gives: block row times vector = CSR row times vector, off-diagonal part, the entries of every
block (duplicates summed, padding zero), the diagonal blocks. -/
namespace PyamgV.ExtC09X
open PyamgV PyamgV.K PyamgV.ExtC09 Finset

set_option linter.unusedSectionVars false
set_option linter.unusedVariables false

variable {R : Type} [Field R] [DecidableEq R]

/-! ### the loops of `Csr.toBsr`, named -/

/-- one stored CSR entry `jj` of local row `r` merged into the block row that starts at block position `base` -/
def tbStep (A : Csr R) (bs base r : Nat) (st : Array Nat × Array R) (jj : Nat) : Array Nat × Array R :=
  let j := rdN A.aj jj
  let cb := j / bs
  let c := j % bs
  let pos := findFrom st.1 base cb
  let st' : Array Nat × Array R :=
    if pos = st.1.size then (st.1.push cb, st.2 ++ Array.replicate (bs * bs) 0) else st
  let k := pos * (bs * bs) + bs * r + c
  (st'.1, wr st'.2 k (rd st'.2 k + rd A.ax jj))

/-- one block row -/
def tbBlockRow (A : Csr R) (bs : Nat) (st : Array Nat × Array Nat × Array R) (bi : Nat) :
    Array Nat × Array Nat × Array R :=
  let base := st.2.1.size
  let st2 := (List.range bs).foldl (fun (st : Array Nat × Array R) r =>
    (A.jjs (bs * bi + r)).foldl (tbStep A bs base r) st) (st.2.1, st.2.2)
  (st.1.push st2.1.size, st2.1, st2.2)

theorem toBsr_eq (A : Csr R) (bs : Nat) (h0 : bs ≠ 0) (h1 : bs ≠ 1) (hd : A.n % bs = 0) :
    A.toBsr bs = some ⟨A.n / bs, bs,
      ((List.range (A.n / bs)).foldl (tbBlockRow A bs) ((#[0] : Array Nat), (#[] : Array Nat), (#[] : Array R))).1,
      ((List.range (A.n / bs)).foldl (tbBlockRow A bs) ((#[0] : Array Nat), (#[] : Array Nat), (#[] : Array R))).2.1,
      ((List.range (A.n / bs)).foldl (tbBlockRow A bs) ((#[0] : Array Nat), (#[] : Array Nat), (#[] : Array R))).2.2⟩ := by
  unfold Csr.toBsr
  rw [if_neg h0, if_neg (not_not.2 hd), if_neg h1]
  rfl

/-! ### the weighted block-row sum -/

/-- `Σ_{p ∈ js} Σ_m bx[p, l, m] · w (bj p) m` -/
def blkSum (bs : Nat) (bj : Array Nat) (bx : Array R) (js : List Nat) (l : Nat) (w : Nat → Nat → R) : R :=
  (js.map (fun p => ∑ m ∈ range bs, rd bx (p * (bs * bs) + l * bs + m) * w (rdN bj p) m)).sum

/-- `Σ_{jj ∈ row i} ax jj · w (aj jj / bs) (aj jj % bs)` -/
def csrW (A : Csr R) (bs i : Nat) (w : Nat → Nat → R) : R :=
  ((A.jjs i).map (fun jj => rd A.ax jj * w (rdN A.aj jj / bs) (rdN A.aj jj % bs))).sum

theorem blkSum_congr (bs : Nat) (bj bj' : Array Nat) (bx bx' : Array R) (js : List Nat) (l : Nat) (w : Nat → Nat → R)
    (hj : ∀ p ∈ js, rdN bj' p = rdN bj p)
    (hx : ∀ p ∈ js, ∀ m < bs, rd bx' (p * (bs * bs) + l * bs + m) = rd bx (p * (bs * bs) + l * bs + m)) :
    blkSum bs bj' bx' js l w = blkSum bs bj bx js l w := by
  unfold blkSum
  congr 1
  apply List.map_congr_left
  intro p hp
  apply Finset.sum_congr rfl
  intro m hm
  rw [hj p hp, hx p hp m (mem_range.1 hm)]

theorem blkSum_append (bs : Nat) (bj : Array Nat) (bx : Array R) (js js' : List Nat) (l : Nat) (w : Nat → Nat → R) :
    blkSum bs bj bx (js ++ js') l w = blkSum bs bj bx js l w + blkSum bs bj bx js' l w := by
  unfold blkSum
  rw [List.map_append, List.sum_append]

theorem range'_sum (s n : Nat) (f : Nat → R) : ((List.range' s n).map f).sum = ∑ i ∈ range n, f (s + i) := by
  induction n with
  | zero => simp
  | succ n ih =>
    rw [List.range'_concat, List.map_append, List.sum_append, ih, Finset.sum_range_succ]
    simp

/-! ### index arithmetic -/

theorem lm_lt {bs l m : Nat} (hl : l < bs) (hm : m < bs) : l * bs + m < bs * bs := by
  calc l * bs + m < l * bs + bs := by omega
    _ = (l + 1) * bs := by rw [Nat.succ_mul]
    _ ≤ bs * bs := Nat.mul_le_mul_right bs hl

theorem blk_idx_lt {bs p n l m : Nat} (hp : p < n) (hl : l < bs) (hm : m < bs) :
    p * (bs * bs) + l * bs + m < n * (bs * bs) := by
  have h1 := lm_lt hl hm
  calc p * (bs * bs) + l * bs + m < p * (bs * bs) + bs * bs := by omega
    _ = (p + 1) * (bs * bs) := by rw [Nat.succ_mul]
    _ ≤ n * (bs * bs) := Nat.mul_le_mul_right _ hp

theorem idx_inj {bs : Nat} (hbs : 0 < bs) {a a' m m' : Nat} (hm : m < bs) (hm' : m' < bs)
    (h : a * bs + m = a' * bs + m') : a = a' ∧ m = m' := by
  have h1 : (a * bs + m) / bs = (a' * bs + m') / bs := by rw [h]
  have h2 : (a * bs + m) % bs = (a' * bs + m') % bs := by rw [h]
  rw [blk_div hbs _ _ hm, blk_div hbs _ _ hm'] at h1
  rw [blk_mod _ _ hm, blk_mod _ _ hm'] at h2
  exact ⟨h1, h2⟩

theorem idx3_eq_iff {bs : Nat} (hbs : 0 < bs) {p l m pos r c : Nat} (hl : l < bs) (hm : m < bs) (hr : r < bs) (hc : c < bs) :
    p * (bs * bs) + l * bs + m = pos * (bs * bs) + bs * r + c ↔ p = pos ∧ l = r ∧ m = c := by
  constructor
  · intro h
    have e1 : p * (bs * bs) + l * bs + m = (p * bs + l) * bs + m := by ring
    have e2 : pos * (bs * bs) + bs * r + c = (pos * bs + r) * bs + c := by ring
    rw [e1, e2] at h
    obtain ⟨h1, h2⟩ := idx_inj hbs hm hc h
    obtain ⟨h3, h4⟩ := idx_inj hbs hl hr h1
    exact ⟨h3, h4, h2⟩
  · rintro ⟨rfl, rfl, rfl⟩; ring

/-! ### array facts -/

theorem rdN_push (bj : Array Nat) (v p : Nat) : rdN (bj.push v) p = if p = bj.size then v else rdN bj p := by
  unfold K.rdN
  simp only [Array.getD_eq_getD_getElem?, Array.getElem?_push]
  by_cases h : p = bj.size
  · simp [h]
  · simp [h]

theorem rd_append_zeros (bx : Array R) (n q : Nat) : rd (bx ++ Array.replicate n (0 : R)) q = rd bx q := by
  unfold K.rd
  simp only [Array.getD_eq_getD_getElem?, Array.getElem?_append]
  by_cases h : q < bx.size
  · simp [h]
  · simp only [h, if_false]
    have : (bx[q]?).getD 0 = 0 := by simp [h]
    rw [this]
    by_cases h2 : q - bx.size < n
    · simp [h2]
    · simp [h2]

theorem findFrom_spec (bj : Array Nat) (base cb : Nat) :
    findFrom bj base cb = bj.size ∨
      (base ≤ findFrom bj base cb ∧ findFrom bj base cb < bj.size ∧ rdN bj (findFrom bj base cb) = cb) := by
  unfold K.findFrom
  cases h : (List.range' base (bj.size - base)).find? (fun p => decide (rdN bj p = cb)) with
  | none => left; rfl
  | some p =>
    right
    have h1 := List.find?_some h
    have h2 := List.mem_of_find?_eq_some h
    rw [List.mem_range'_1] at h2
    simp only [Option.getD_some]
    exact ⟨h2.1, by omega, by simpa using h1⟩

/-! ### the invariant of the inner loops -/

/-- `s'` extends the block row under construction in `s` (started at block position `base`): blocks before `base`
are untouched, and the weighted sum over the blocks from `base` on grows by `d` -/
structure Ext (bs base : Nat) (s s' : Array Nat × Array R) (d : Nat → (Nat → Nat → R) → R) : Prop where
  wf : s'.2.size = s'.1.size * (bs * bs)
  mono : s.1.size ≤ s'.1.size
  keepj : ∀ p < s.1.size, rdN s'.1 p = rdN s.1 p
  keepx : ∀ q < base * (bs * bs), rd s'.2 q = rd s.2 q
  sum : ∀ l < bs, ∀ w, blkSum bs s'.1 s'.2 (List.range' base (s'.1.size - base)) l w =
    blkSum bs s.1 s.2 (List.range' base (s.1.size - base)) l w + d l w

theorem Ext.refl (bs base : Nat) (s : Array Nat × Array R) (hwf : s.2.size = s.1.size * (bs * bs)) :
    Ext bs base s s (fun _ _ => 0) :=
  ⟨hwf, le_refl _, fun _ _ => rfl, fun _ _ => rfl, fun _ _ _ => by simp⟩

theorem Ext.trans {bs base : Nat} {s s' s'' : Array Nat × Array R} {d d' : Nat → (Nat → Nat → R) → R}
    (h : Ext bs base s s' d) (h' : Ext bs base s' s'' d') : Ext bs base s s'' (fun l w => d l w + d' l w) where
  wf := h'.wf
  mono := le_trans h.mono h'.mono
  keepj := fun p hp => by rw [h'.keepj p (lt_of_lt_of_le hp h.mono), h.keepj p hp]
  keepx := fun q hq => by rw [h'.keepx q hq, h.keepx q hq]
  sum := fun l hl w => by rw [h'.sum l hl w, h.sum l hl w]; ring

theorem Ext.congr {bs base : Nat} {s s' : Array Nat × Array R} {d d' : Nat → (Nat → Nat → R) → R}
    (h : Ext bs base s s' d) (hd : ∀ l < bs, ∀ w, d l w = d' l w) : Ext bs base s s' d' :=
  ⟨h.wf, h.mono, h.keepj, h.keepx, fun l hl w => by rw [h.sum l hl w, hd l hl w]⟩

/-- folding a step that extends -/
theorem Ext.foldl {ι : Type} {bs base : Nat} (f : Array Nat × Array R → ι → Array Nat × Array R)
    (dd : ι → Nat → (Nat → Nat → R) → R) (L : List ι)
    (hstep : ∀ a ∈ L, ∀ s : Array Nat × Array R, s.2.size = s.1.size * (bs * bs) → base ≤ s.1.size →
      Ext bs base s (f s a) (dd a))
    (s : Array Nat × Array R) (hwf : s.2.size = s.1.size * (bs * bs)) (hbase : base ≤ s.1.size) :
    Ext bs base s (L.foldl f s) (fun l w => (L.map (fun a => dd a l w)).sum) := by
  induction L generalizing s with
  | nil => simpa using Ext.refl bs base s hwf
  | cons a L ih =>
    simp only [List.foldl_cons, List.map_cons, List.sum_cons]
    have h1 := hstep a (by simp) s hwf hbase
    have h2 := ih (fun a' ha' => hstep a' (by simp [ha'])) (f s a) h1.wf (le_trans hbase h1.mono)
    exact h1.trans h2

/-! ### one entry -/

/-- making sure the block column `cb` is present: position, and nothing changes semantically -/
theorem ensure_spec (bs base cb : Nat) (bj : Array Nat) (bx : Array R)
    (hwf : bx.size = bj.size * (bs * bs)) (hbase : base ≤ bj.size) :
    let pos := findFrom bj base cb
    let st' : Array Nat × Array R :=
      if pos = bj.size then (bj.push cb, bx ++ Array.replicate (bs * bs) 0) else (bj, bx)
    Ext bs base (bj, bx) st' (fun _ _ => 0) ∧ base ≤ pos ∧ pos < st'.1.size ∧ rdN st'.1 pos = cb := by
  intro pos st'
  by_cases hpos : pos = bj.size
  · have hst : st' = (bj.push cb, bx ++ Array.replicate (bs * bs) 0) := if_pos hpos
    rw [hst]
    refine ⟨⟨?_, ?_, ?_, ?_, ?_⟩, by omega, by simp; omega, by rw [rdN_push, hpos, if_pos rfl]⟩
    · simp [hwf, Nat.succ_mul]
    · simp
    · intro p hp; simp only at hp ⊢; rw [rdN_push, if_neg (by omega)]
    · intro q _; exact rd_append_zeros _ _ _
    · intro l hl w
      simp only [Array.size_push]
      have e : bj.size + 1 - base = (bj.size - base) + 1 := by omega
      rw [e, List.range'_concat, blkSum_append]
      have e2 : base + 1 * (bj.size - base) = bj.size := by omega
      rw [e2]
      have h1 : blkSum bs (bj.push cb) (bx ++ Array.replicate (bs * bs) 0) (List.range' base (bj.size - base)) l w =
          blkSum bs bj bx (List.range' base (bj.size - base)) l w := by
        apply blkSum_congr
        · intro p hp
          rw [List.mem_range'_1] at hp
          rw [rdN_push, if_neg (by omega)]
        · intro p _ m _; exact rd_append_zeros _ _ _
      have h2 : blkSum bs (bj.push cb) (bx ++ Array.replicate (bs * bs) 0) [bj.size] l w = 0 := by
        unfold blkSum
        simp only [List.map_cons, List.map_nil, List.sum_cons, List.sum_nil, add_zero]
        apply Finset.sum_eq_zero
        intro m _
        rw [rd_append_zeros, rd_of_le _ _ (by rw [hwf]; omega)]
        ring
      rw [h1, h2]
  · have hst : st' = (bj, bx) := if_neg hpos
    rw [hst]
    rcases findFrom_spec bj base cb with h | ⟨h1, h2, h3⟩
    · exact absurd h hpos
    · exact ⟨Ext.refl bs base _ hwf, h1, h2, h3⟩

/-- adding `a` to entry `(r, c)` of the stored block at position `pos` -/
theorem write_spec (bs base pos r c : Nat) (a : R) (bj : Array Nat) (bx : Array R) (hbs : 0 < bs)
    (hwf : bx.size = bj.size * (bs * bs)) (h1 : base ≤ pos) (h2 : pos < bj.size) (hr : r < bs) (hc : c < bs) :
    Ext bs base (bj, bx) (bj, wr bx (pos * (bs * bs) + bs * r + c) (rd bx (pos * (bs * bs) + bs * r + c) + a))
      (fun l w => if l = r then a * w (rdN bj pos) c else 0) := by
  have hk : pos * (bs * bs) + bs * r + c < bx.size := by
    have := blk_idx_lt (bs := bs) h2 hr hc
    rw [hwf]; rw [Nat.mul_comm bs r]; omega
  refine ⟨by simpa using hwf, le_refl _, fun _ _ => rfl, ?_, ?_⟩
  · intro q hq
    simp only
    rw [rd_wr, if_neg]
    rintro ⟨e, _⟩
    have : base * (bs * bs) ≤ pos * (bs * bs) := Nat.mul_le_mul_right _ h1
    omega
  · intro l hl w
    simp only
    unfold blkSum
    rw [range'_sum, range'_sum]
    have hterm : ∀ i ∈ range (bj.size - base),
        (∑ m ∈ range bs, rd (wr bx (pos * (bs * bs) + bs * r + c) (rd bx (pos * (bs * bs) + bs * r + c) + a))
          ((base + i) * (bs * bs) + l * bs + m) * w (rdN bj (base + i)) m) =
        (∑ m ∈ range bs, rd bx ((base + i) * (bs * bs) + l * bs + m) * w (rdN bj (base + i)) m) +
          (if base + i = pos ∧ l = r then a * w (rdN bj pos) c else 0) := by
      intro i _
      by_cases hip : base + i = pos ∧ l = r
      · obtain ⟨hi, hlr⟩ := hip
        rw [if_pos ⟨hi, hlr⟩]
        have hsplit : ∀ m ∈ range bs,
            rd (wr bx (pos * (bs * bs) + bs * r + c) (rd bx (pos * (bs * bs) + bs * r + c) + a))
              ((base + i) * (bs * bs) + l * bs + m) * w (rdN bj (base + i)) m =
            rd bx ((base + i) * (bs * bs) + l * bs + m) * w (rdN bj (base + i)) m +
              (if m = c then a * w (rdN bj pos) c else 0) := by
          intro m hm
          rw [rd_wr]
          by_cases hmc : m = c
          · have : pos * (bs * bs) + bs * r + c = (base + i) * (bs * bs) + l * bs + m :=
              ((idx3_eq_iff hbs hl (mem_range.1 hm) hr hc).2 ⟨hi, hlr, hmc⟩).symm
            rw [if_pos ⟨this, hk⟩, if_pos hmc, ← this, hi, hmc]
            ring
          · have : ¬ pos * (bs * bs) + bs * r + c = (base + i) * (bs * bs) + l * bs + m := by
              intro e
              exact hmc ((idx3_eq_iff hbs hl (mem_range.1 hm) hr hc).1 e.symm).2.2
            rw [if_neg (fun hh => this hh.1), if_neg hmc, add_zero]
        rw [Finset.sum_congr rfl hsplit, Finset.sum_add_distrib, Finset.sum_ite_eq' (range bs) c, if_pos (mem_range.2 hc)]
      · rw [if_neg hip, add_zero]
        apply Finset.sum_congr rfl
        intro m hm
        rw [rd_wr, if_neg]
        rintro ⟨e, _⟩
        have := (idx3_eq_iff hbs hl (mem_range.1 hm) hr hc).1 e.symm
        exact hip ⟨this.1, this.2.1⟩
    rw [Finset.sum_congr rfl hterm, Finset.sum_add_distrib]
    congr 1
    by_cases hlr : l = r
    · rw [if_pos hlr]
      have : ∀ i ∈ range (bj.size - base),
          (if base + i = pos ∧ l = r then a * w (rdN bj pos) c else 0) =
          (if i = pos - base then a * w (rdN bj pos) c else 0) := by
        intro i _
        by_cases hi : i = pos - base
        · rw [if_pos hi, if_pos ⟨by omega, hlr⟩]
        · rw [if_neg hi, if_neg (fun hh => hi (by omega))]
      rw [Finset.sum_congr rfl this, Finset.sum_ite_eq' (range (bj.size - base)) (pos - base),
        if_pos (mem_range.2 (by omega))]
    · rw [if_neg hlr]
      apply Finset.sum_eq_zero
      intro i _
      rw [if_neg (fun hh => hlr hh.2)]

theorem tbStep_spec (A : Csr R) (bs base r : Nat) (hbs : 0 < bs) (hr : r < bs) (jj : Nat) (s : Array Nat × Array R)
    (hwf : s.2.size = s.1.size * (bs * bs)) (hbase : base ≤ s.1.size) :
    Ext bs base s (tbStep A bs base r s jj)
      (fun l w => if l = r then rd A.ax jj * w (rdN A.aj jj / bs) (rdN A.aj jj % bs) else 0) := by
  obtain ⟨bj, bx⟩ := s
  simp only at hwf hbase
  obtain ⟨hE, hp1, hp2, hp3⟩ := ensure_spec bs base (rdN A.aj jj / bs) bj bx hwf hbase
  have hW := write_spec bs base (findFrom bj base (rdN A.aj jj / bs)) r (rdN A.aj jj % bs) (rd A.ax jj) _ _ hbs
    hE.wf hp1 hp2 hr (Nat.mod_lt _ hbs)
  rw [hp3] at hW
  have := hE.trans hW
  refine Ext.congr ?_ (fun l _ w => zero_add _)
  exact this

/-! ### one block row -/

theorem tbMid_spec (A : Csr R) (bs bi : Nat) (hbs : 0 < bs) (s : Array Nat × Array R)
    (hwf : s.2.size = s.1.size * (bs * bs)) :
    Ext bs s.1.size s ((List.range bs).foldl (fun (st : Array Nat × Array R) r =>
        (A.jjs (bs * bi + r)).foldl (tbStep A bs s.1.size r) st) s)
      (fun l w => csrW A bs (bs * bi + l) w) := by
  have h := Ext.foldl (bs := bs) (base := s.1.size)
    (fun (st : Array Nat × Array R) r => (A.jjs (bs * bi + r)).foldl (tbStep A bs s.1.size r) st)
    (fun r l w => if l = r then csrW A bs (bs * bi + r) w else 0) (List.range bs)
    (by
      intro r hr st hst hb
      have hr' : r < bs := List.mem_range.1 hr
      have h1 := Ext.foldl (bs := bs) (base := s.1.size) (tbStep A bs s.1.size r)
        (fun jj l w => if l = r then rd A.ax jj * w (rdN A.aj jj / bs) (rdN A.aj jj % bs) else 0) (A.jjs (bs * bi + r))
        (fun jj _ st' hst' hb' => tbStep_spec A bs s.1.size r hbs hr' jj st' hst' hb') st hst hb
      refine Ext.congr h1 ?_
      intro l _ w
      by_cases hlr : l = r
      · simp only [hlr, if_true]; rfl
      · simp only [hlr, if_false]
        simp)
    s hwf (le_refl _)
  refine Ext.congr h ?_
  intro l hl w
  rw [range_sum, Finset.sum_ite_eq (range bs) l, if_pos (mem_range.2 hl)]

/-! ### all block rows -/

/-- state after `k` block rows -/
structure Outer (A : Csr R) (bs k : Nat) (st : Array Nat × Array Nat × Array R) : Prop where
  szp : st.1.size = k + 1
  last : rdN st.1 k = st.2.1.size
  wf : st.2.2.size = st.2.1.size * (bs * bs)
  ord : ∀ I < k, rdN st.1 I ≤ rdN st.1 (I + 1) ∧ rdN st.1 (I + 1) ≤ st.2.1.size
  sem : ∀ I < k, ∀ l < bs, ∀ w, blkSum bs st.2.1 st.2.2
    (List.range' (rdN st.1 I) (rdN st.1 (I + 1) - rdN st.1 I)) l w = csrW A bs (bs * I + l) w

theorem outer_spec (A : Csr R) (bs : Nat) (hbs : 0 < bs) (k : Nat) :
    Outer A bs k ((List.range k).foldl (tbBlockRow A bs) ((#[0] : Array Nat), (#[] : Array Nat), (#[] : Array R))) := by
  induction k with
  | zero =>
    refine ⟨by simp, by simp [K.rdN], by simp, ?_, ?_⟩
    · intro I hI; omega
    · intro I hI; omega
  | succ k ih =>
    rw [List.range_succ, List.foldl_append]
    simp only [List.foldl_cons, List.foldl_nil]
    generalize (List.range k).foldl (tbBlockRow A bs) ((#[0] : Array Nat), (#[] : Array Nat), (#[] : Array R)) = st at ih
    obtain ⟨bp, bj, bx⟩ := st
    obtain ⟨szp, last, wf, ord, sem⟩ := ih
    simp only at szp last wf ord sem
    have hM := tbMid_spec A bs k hbs (bj, bx) wf
    simp only at hM
    unfold tbBlockRow
    simp only
    generalize (List.range bs).foldl (fun (st : Array Nat × Array R) r =>
        (A.jjs (bs * k + r)).foldl (tbStep A bs bj.size r) st) (bj, bx) = st2 at hM
    obtain ⟨bj2, bx2⟩ := st2
    have hold : ∀ I, I ≤ k → rdN (bp.push bj2.size) I = rdN bp I := by
      intro I hI; rw [rdN_push, if_neg (by omega)]
    have hnew : rdN (bp.push bj2.size) (k + 1) = bj2.size := by rw [rdN_push, if_pos szp.symm]
    refine ⟨by simp [szp], hnew, hM.wf, ?_, ?_⟩
    · intro I hI
      simp only
      by_cases hIk : I = k
      · subst hIk
        rw [hold I (le_refl _), hnew, last]
        exact ⟨hM.mono, le_refl _⟩
      · have hI' : I < k := by omega
        rw [hold I (by omega), hold (I + 1) (by omega)]
        exact ⟨(ord I hI').1, le_trans (ord I hI').2 hM.mono⟩
    · intro I hI l hl w
      simp only
      by_cases hIk : I = k
      · subst hIk
        rw [hold I (le_refl _), hnew, last]
        have := hM.sum l hl w
        simp only at this
        rw [this]
        simp [blkSum]
      · have hI' : I < k := by omega
        rw [hold I (by omega), hold (I + 1) (by omega), ← sem I hI' l hl w]
        apply blkSum_congr
        · intro p hp
          rw [List.mem_range'_1] at hp
          have := ord I hI'
          exact hM.keepj p (by simp only; omega)
        · intro p hp m hm
          rw [List.mem_range'_1] at hp
          have := ord I hI'
          apply hM.keepx
          exact blk_idx_lt (by omega) hl hm

/-! ### the meaning of `Csr.toBsr` -/

/-- **meaning of `A.tobsr(blocksize=(bs, bs))`**: for every block row `I`, local row `l` and weight `w`, the weighted
sum over the stored blocks equals the weighted sum over the stored CSR entries of row `I·bs + l` -/
theorem toBsr_sem (A : Csr R) (bs : Nat) (B : Bsr R) (h : A.toBsr bs = some B) :
    0 < bs ∧ B.bs = bs ∧ B.nb * bs = A.n ∧
      ∀ I < B.nb, ∀ l < bs, ∀ w : Nat → Nat → R, blkSum bs B.bj B.bx (B.jjs I) l w = csrW A bs (I * bs + l) w := by
  by_cases h0 : bs = 0
  · unfold Csr.toBsr at h; rw [if_pos h0] at h; exact absurd h (by simp)
  by_cases hd : A.n % bs = 0
  swap
  · unfold Csr.toBsr at h; rw [if_neg h0, if_pos hd] at h; exact absurd h (by simp)
  have hbs : 0 < bs := Nat.pos_of_ne_zero h0
  by_cases h1 : bs = 1
  · unfold Csr.toBsr at h
    rw [if_neg h0, if_neg (not_not.2 hd), if_pos h1] at h
    have hB : B = ⟨A.n, 1, A.ap, A.aj, A.ax⟩ := (Option.some.inj h).symm
    subst h1
    rw [hB]
    refine ⟨hbs, rfl, by simp, ?_⟩
    intro I _ l hl w
    have hl0 : l = 0 := by omega
    subst hl0
    unfold blkSum csrW
    have : (⟨A.n, 1, A.ap, A.aj, A.ax⟩ : Bsr R).jjs I = A.jjs (I * 1 + 0) := by
      simp [Bsr.jjs, Csr.jjs]
    rw [this]
    congr 1
    apply List.map_congr_left
    intro jj _
    simp [Nat.mod_one]
  · rw [toBsr_eq A bs h0 h1 hd] at h
    have hB := (Option.some.inj h).symm
    have hO := outer_spec A bs hbs (A.n / bs)
    rw [hB]
    refine ⟨hbs, rfl, Nat.div_mul_cancel (Nat.dvd_of_mod_eq_zero hd), ?_⟩
    intro I hI l hl w
    simp only at hI
    have := hO.sem I hI l hl w
    rw [Nat.mul_comm I bs]
    exact this

end PyamgV.ExtC09X
