import PyamgV.Proofs.Mis

/-! PyamgV (architecture): the `check` side of the driver protocol — a Boolean checker that the
harness applies to outputs of the *real* code, with a proved equivalence to the `Prop`-level
specification the theorems are about. Example: "x marks a maximal independent set". -/
namespace PyamgV.Chk
open PyamgV

/-- the specification used by `misSerial_correct` / `misParallel_total` (C = 1, F = 0) -/
def IsMIS (G : Graph) (x : Array Int) : Prop :=
  (∀ i, i < G.n → ∀ j ∈ G.adj i, j ≠ i → rd x i = 1 → rd x j ≠ 1) ∧
  (∀ i, i < G.n → rd x i = 1 ∨ (rd x i = 0 ∧ ∃ j ∈ G.adj i, j ≠ i ∧ rd x j = 1))

/-- executable checker; on failure the driver reports the first offending node -/
def checkMIS (G : Graph) (x : Array Int) : Bool :=
  (List.range G.n).all (fun i =>
    ((G.adj i).all (fun j => decide (j = i) || decide (rd x i ≠ 1) || decide (rd x j ≠ 1))) &&
    (decide (rd x i = 1) ||
      (decide (rd x i = 0) && (G.adj i).any (fun j => decide (j ≠ i) && decide (rd x j = 1)))))

theorem checkMIS_iff (G : Graph) (x : Array Int) : checkMIS G x = true ↔ IsMIS G x := by
  unfold checkMIS IsMIS
  simp only [List.all_eq_true, List.mem_range, Bool.and_eq_true, Bool.or_eq_true,
    decide_eq_true_eq, List.any_eq_true]
  constructor
  · intro h
    refine ⟨?_, ?_⟩
    · intro i hi j hj hji hxi
      rcases (h i hi).1 j hj with (h1 | h1) | h1
      · exact absurd h1 hji
      · exact absurd hxi h1
      · exact h1
    · intro i hi
      rcases (h i hi).2 with h1 | ⟨h1, j, hj, hji, hxj⟩
      · exact Or.inl h1
      · exact Or.inr ⟨h1, j, hj, hji, hxj⟩
  · rintro ⟨h1, h2⟩ i hi
    refine ⟨?_, ?_⟩
    · intro j hj
      by_cases hji : j = i
      · exact Or.inl (Or.inl hji)
      · by_cases hxi : rd x i = 1
        · exact Or.inr (h1 i hi j hj hji hxi)
        · exact Or.inl (Or.inr hxi)
    · rcases h2 i hi with h | ⟨h, j, hj, hji, hxj⟩
      · exact Or.inl h
      · exact Or.inr ⟨h, j, hj, hji, hxj⟩

/-- so the kernel theorem can be phrased through the checker: the model's output passes it -/
theorem misSerial_passes (G : Graph) (hG : GraphOK G) (x0 : Array Int) (hsz : x0.size = G.n)
    (hact : ∀ i, i < G.n → rd x0 i = -1) :
    checkMIS G (misSerial G (-1) 1 0 x0) = true := by
  rw [checkMIS_iff]
  have h := misSerial_correct G hG (-1) 1 0 (by decide) (by decide) (by decide) x0 hsz hact
  exact ⟨fun i hi j hj hji hxi => h.1 i j hi hj hji hxi, h.2⟩

#eval checkMIS ⟨4, fun i => [[1],[0,2],[1,3],[2]].getD i []⟩ #[1,0,1,0]   -- true
#eval checkMIS ⟨4, fun i => [[1],[0,2],[1,3],[2]].getD i []⟩ #[1,0,0,0]   -- false: node 3 uncovered
#print axioms checkMIS_iff
end PyamgV.Chk
