import PyamgV.Model.ExtC10bGmres
import PyamgV.Proofs.C10Proj

/-! PyamgV (extension E24, property C10): the updates of `gmres_prolongation_smoothing` are of the
form the constraint theorems of `Proofs/C10Proj.lean` cover.

`gmresCore` (`Model/ExtC10bGmres.lean`, the function the driver runs) is generic in the matrices and in
the scalar functions.  Whatever the scalars are (Frobenius products, square roots, Givens rotations,
the least-squares solution `y`):

* `gmresCore_inv`: for every predicate `C` closed under scaling and subtraction, if the projected
  matrices the run computed (`out.projs`: initial residual, every `AV`) satisfy `C`, then so does every
  Krylov vector `V[j]`, and the result is `T + Σ y[j]·V[j]` applied as a fold;
* `gmresMx_updates_gen`, `gmresMx_keeps_product`: on `Matrix m n K` the Krylov vectors lie in
  `C10.Gen proj`, so `gen_constrained` and `updates_keep_product` give `T'·B = T·B`;
* `gmres_run_constrained` (array instance `energyGmres` run by `ext_c10b_gmres`): if the projected
  matrices of the run annihilate `B` (what `satisfy_constraints_spec` gives for well-posed rows; decided
  exactly on every instance by the driver, flag `projs-constrained`), then `T'·B_c = T·B_c` for the
  dense matrices the arrays denote, and the run is `C10.applyUpdates` of constrained updates. -/
namespace PyamgV.C10b
open PyamgV PyamgV.C10M PyamgV.C10bM

section generic
variable {α M : Type} [Add α] [Sub α] [Mul α] [Div α] [OfNat α 0] [OfNat α 1] [DecidableEq α]

/-- every Krylov vector stored so far satisfies `C` -/
def VIn (C : M → Prop) (V : Array M) : Prop := ∀ (j : Nat) (X : M), V[j]? = some X → C X

theorem VIn_push (C : M → Prop) (V : Array M) (W : M) (hV : VIn C V) (hW : C W) : VIn C (V.push W) := by
  intro j X h
  rw [Array.getElem?_push] at h
  by_cases e : j = V.size
  · rw [if_pos e] at h
    cases h; exact hW
  · rw [if_neg e] at h
    exact hV j X h

theorem mgsStep_C (o : MOps α M) (C : M → Prop) (hsmul : ∀ a X, C X → C (o.smul a X))
    (hsub : ∀ X Y, C X → C Y → C (o.sub X Y)) (V : Array M) (hV : VIn C V) (i : Nat) (AV : M) (hAV : C AV) :
    C (mgsStep o V i AV).1 := by
  unfold mgsStep
  generalize (List.range (i + 1)) = l
  have : ∀ (l : List Nat) (acc : M × Array α), C acc.1 →
      C (l.foldl (fun (acc : M × Array α) j =>
        match V[j]? with
        | none => acc
        | some Vj => (o.sub acc.1 (o.smul (o.frob Vj acc.1) Vj), acc.2.push (o.frob Vj acc.1))) acc).1 := by
    intro l
    induction l with
    | nil => intro acc h; exact h
    | cons j l ih =>
      intro acc h
      rw [List.foldl_cons]
      apply ih
      cases hj : V[j]? with
      | none => exact h
      | some Vj => exact hsub _ _ h (hsmul _ _ (hV j Vj hj))
  exact this l (AV, #[]) hAV

theorem normalize_C (o : MOps α M) (sc : SOps α) (C : M → Prop) (hsmul : ∀ a X, C X → C (o.smul a X))
    (W : M) (hW : C W) : C (normalize o sc W).1 := by
  unfold normalize
  by_cases h : sc.sqrt (o.frob W W) = 0
  · simp only [if_pos h]; exact hW
  · simp only [if_neg h]; exact hsmul _ _ hW

/-- the loop only adds projected matrices, and keeps "all projected matrices in `C` ⟹ all Krylov
vectors in `C`" -/
theorem gmresLoop_inv (o : MOps α M) (sc : SOps α) (opA : M → Option M) (tol : α) (C : M → Prop)
    (hsmul : ∀ a X, C X → C (o.smul a X)) (hsub : ∀ X Y, C X → C Y → C (o.sub X Y)) :
    ∀ (fuel : Nat) (st : GState α M),
      (∀ Y ∈ st.projs, Y ∈ (gmresLoop o sc opA tol fuel st).projs) ∧
      (((∀ Y ∈ st.projs, C Y) → VIn C st.V) →
        ((∀ Y ∈ (gmresLoop o sc opA tol fuel st).projs, C Y) → VIn C (gmresLoop o sc opA tol fuel st).V)) := by
  intro fuel
  induction fuel with
  | zero => intro st; exact ⟨fun Y h => h, fun h => h⟩
  | succ fuel ih =>
    intro st
    unfold gmresLoop
    by_cases hc : (!(sc.lt tol st.S.normr)) = true
    · rw [if_pos hc]; exact ⟨fun Y h => h, fun h => h⟩
    · rw [if_neg hc]
      cases hV : st.V[st.iters]? with
      | none => exact ⟨fun Y h => h, fun h => h⟩
      | some Vi =>
        dsimp only
        cases hop : opA Vi with
        | none => exact ⟨fun Y h => h, fun h => h⟩
        | some AV =>
          dsimp only
          obtain ⟨i1, i2⟩ := ih ⟨st.V.push (normalize o sc (mgsStep o st.V st.iters AV).1).1, AV :: st.projs,
            scalarStep sc st.iters (mgsStep o st.V st.iters AV).2 (normalize o sc (mgsStep o st.V st.iters AV).1).2 st.S,
            st.ok, st.iters + 1⟩
          refine ⟨fun Y h => i1 Y (List.mem_cons_of_mem _ h), fun hst => i2 ?_⟩
          intro hall
          have hV' := hst (fun Y h => hall Y (List.mem_cons_of_mem _ h))
          exact VIn_push C _ _ hV' (normalize_C o sc C hsmul _
            (mgsStep_C o C hsmul hsub st.V hV' st.iters AV (hall AV (List.mem_cons_self ..))))

/-- where the projected matrices come from: the initial residual or a value of `opA` -/
theorem gmresLoop_projs (o : MOps α M) (sc : SOps α) (opA : M → Option M) (tol : α) (P : M → Prop)
    (hop : ∀ X Y, opA X = some Y → P Y) :
    ∀ (fuel : Nat) (st : GState α M), (∀ Y ∈ st.projs, P Y) →
      ∀ Y ∈ (gmresLoop o sc opA tol fuel st).projs, P Y := by
  intro fuel
  induction fuel with
  | zero => intro st h; exact h
  | succ fuel ih =>
    intro st h
    unfold gmresLoop
    by_cases hc : (!(sc.lt tol st.S.normr)) = true
    · rw [if_pos hc]; exact h
    · rw [if_neg hc]
      cases hV : st.V[st.iters]? with
      | none => exact h
      | some Vi =>
        dsimp only
        cases hop' : opA Vi with
        | none => exact h
        | some AV =>
          dsimp only
          apply ih
          intro Y hY
          rcases List.mem_cons.1 hY with rfl | hY
          · exact hop Vi _ hop'
          · exact h Y hY

theorem gmresInit_inv (o : MOps α M) (sc : SOps α) (R : M) (maxiter : Nat) (C : M → Prop)
    (hsmul : ∀ a X, C X → C (o.smul a X)) :
    (∀ Y ∈ (gmresInit o sc R maxiter).projs, C Y) → VIn C (gmresInit o sc R maxiter).V := by
  intro h
  have hR : C R := h R (List.mem_cons_self ..)
  intro j X hj
  unfold gmresInit at hj
  dsimp only at hj
  by_cases hl : sc.lt 0 (sc.sqrt (o.frob R R)) = true
  · rw [if_pos hl, Array.getElem?_singleton] at hj
    by_cases e : j = 0
    · rw [if_pos e] at hj; cases hj; exact hsmul _ _ hR
    · rw [if_neg e] at hj; cases hj
  · rw [if_neg hl] at hj
    simp at hj

/-- **the run of `gmresCore`**: if the projected matrices of the run satisfy `C` (closed under scaling
and subtraction), every update direction `V[j]` does, and the result is the fold `T + Σ y[j]·V[j]` -/
theorem gmresCore_inv (o : MOps α M) (sc : SOps α) (opA : M → Option M) (R T : M) (maxiter : Nat) (tol : α)
    (C : M → Prop) (hsmul : ∀ a X, C X → C (o.smul a X)) (hsub : ∀ X Y, C X → C Y → C (o.sub X Y))
    (hP : ∀ Y ∈ (gmresCore o sc opA R T maxiter tol).projs, C Y) :
    (∀ u ∈ (gmresCore o sc opA R T maxiter tol).ups, C u.2) ∧
    (gmresCore o sc opA R T maxiter tol).T =
      (gmresCore o sc opA R T maxiter tol).ups.foldl (fun T u => o.add T (o.smul u.1 u.2)) T := by
  refine ⟨?_, rfl⟩
  unfold gmresCore at hP ⊢
  dsimp only at hP ⊢
  obtain ⟨_, i2⟩ := gmresLoop_inv o sc opA tol C hsmul hsub maxiter (gmresInit o sc R maxiter)
  have hV := i2 (gmresInit_inv o sc R maxiter C hsmul) hP
  intro u hu
  rw [List.mem_filterMap] at hu
  obtain ⟨j, _, hj⟩ := hu
  cases hv : (gmresLoop o sc opA tol maxiter (gmresInit o sc R maxiter)).V[j]? with
  | none => rw [hv] at hj; cases hj
  | some Vj =>
    rw [hv] at hj
    simp only [Option.map_some, Option.some.injEq] at hj
    rw [← hj]
    exact hV j Vj hv

/-- the projected matrices of a run are the initial residual and values of `opA` -/
theorem gmresCore_projs (o : MOps α M) (sc : SOps α) (opA : M → Option M) (R T : M) (maxiter : Nat) (tol : α)
    (P : M → Prop) (hR : P R) (hop : ∀ X Y, opA X = some Y → P Y) :
    ∀ Y ∈ (gmresCore o sc opA R T maxiter tol).projs, P Y := by
  unfold gmresCore
  dsimp only
  apply gmresLoop_projs o sc opA tol P hop
  intro Y hY
  have : Y = R := by simpa [gmresInit] using hY
  rw [this]; exact hR

end generic

/-! ### the instance on `Matrix m n K`: the Krylov vectors lie in `C10.Gen proj` -/

section mx
open Matrix
variable {K : Type} [Field K] [DecidableEq K]
variable {m n k : Type} [Fintype m] [Fintype n] [Fintype k] [DecidableEq n] [DecidableEq k]

/-- the matrix operations of the loop; the Frobenius product is an arbitrary function (its values
never enter the statements) -/
def mxOps (fr : Matrix m n K → Matrix m n K → K) : MOps K (Matrix m n K) where
  add := (· + ·)
  sub := (· - ·)
  smul := (· • ·)
  frob := fr

theorem gen_smul (proj : Matrix m n K → Matrix m n K) (a : K) (X : Matrix m n K) (h : C10.Gen proj X) :
    C10.Gen proj (a • X) := by
  have := C10.Gen.comb X X a 0 h h
  simpa using this

theorem gen_sub (proj : Matrix m n K → Matrix m n K) (X Y : Matrix m n K) (hX : C10.Gen proj X)
    (hY : C10.Gen proj Y) : C10.Gen proj (X - Y) := by
  have := C10.Gen.comb X Y 1 (-1) hX hY
  simpa [sub_eq_add_neg] using this

/-- **gmres energy minimisation on matrices**: with `AV = proj (f V)` (`f` = pattern-restricted product
followed by the preconditioner, any function) and a projected initial residual `proj R'`, every update
direction lies in `Gen proj`, whatever the scalar functions and the Frobenius product are -/
theorem gmresMx_updates_gen (fr : Matrix m n K → Matrix m n K → K) (sc : SOps K)
    (proj f : Matrix m n K → Matrix m n K) (R' T : Matrix m n K) (maxiter : Nat) (tol : K) :
    (∀ u ∈ (gmresCore (mxOps fr) sc (fun V => some (proj (f V))) (proj R') T maxiter tol).ups, C10.Gen proj u.2) ∧
    (gmresCore (mxOps fr) sc (fun V => some (proj (f V))) (proj R') T maxiter tol).T =
      C10.applyUpdates T (gmresCore (mxOps fr) sc (fun V => some (proj (f V))) (proj R') T maxiter tol).ups := by
  have hP := gmresCore_projs (mxOps fr) sc (fun V => some (proj (f V))) (proj R') T maxiter tol (C10.Gen proj)
    (C10.Gen.proj R') (fun X Y h => by cases h; exact C10.Gen.proj _)
  exact gmresCore_inv (mxOps fr) sc _ (proj R') T maxiter tol (C10.Gen proj)
    (fun a X h => gen_smul proj a X h) (fun X Y hX hY => gen_sub proj X Y hX hY) hP

/-- hence the constraint theorem applies: a projection that annihilates `B` keeps `T·B` through the
whole GMRES run (any `maxiter`, `tol`, weighting, rotations, least-squares solution) -/
theorem gmresMx_keeps_product (fr : Matrix m n K → Matrix m n K → K) (sc : SOps K)
    (proj f : Matrix m n K → Matrix m n K) (B : Matrix n k K) (hproj : ∀ X, proj X * B = 0)
    (R' T : Matrix m n K) (maxiter : Nat) (tol : K) :
    (gmresCore (mxOps fr) sc (fun V => some (proj (f V))) (proj R') T maxiter tol).T * B = T * B := by
  obtain ⟨h1, h2⟩ := gmresMx_updates_gen fr sc proj f R' T maxiter tol
  rw [h2]
  exact C10.updates_keep_product B _ T (fun u hu => C10.gen_constrained proj B hproj u.2 (h1 u hu))

end mx

#print axioms gmresCore_inv
#print axioms gmresMx_keeps_product
end PyamgV.C10b
