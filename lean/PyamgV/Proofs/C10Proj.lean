import Mathlib.Data.Matrix.Mul
import Mathlib.Data.Matrix.Diagonal
import Mathlib.Algebra.BigOperators.Ring.Finset
import Mathlib.Tactic.Ring
import Mathlib.Tactic.Abel
import Mathlib.Logic.Function.Iterate

/-! PyamgV (C10): the row-wise constraint projection of `satisfy_constraints_helper`
(`smoothed_aggregation.h`), used by `smooth.satisfy_constraints` and `utils.filter_operator`, in
matrix form; what any sequence of projected, pattern-restricted updates does to `P·B_c` and to the
sparsity pattern (one statement for cg, cgnr, gmres and every `maxiter`/`degree`/`weighting`,
because the Krylov coefficients never enter); the root-node reset `I_F·P + P_I`; the polynomial
form of the unconstrained Jacobi/Richardson smoothers.  Any commutative ring (ℚ, ℝ, ℂ); the
conjugate transpose is an arbitrary matrix `Bh` (the kernel receives `conj(B)` as its own array). -/
set_option linter.unusedSectionVars false
namespace PyamgV.C10
open Matrix

variable {K : Type*} [CommRing K]
variable {m n k : Type*} [Fintype n] [Fintype k] [DecidableEq n] [DecidableEq k]

/-- local Gram matrix of row `i`: `Σ_{j ∈ J i} Bh[:, j] B[j, :]` (`= B_Jᴴ B_J` when `Bh = Bᴴ`) -/
def gram (J : m → Finset n) (Bh : Matrix k n K) (B : Matrix n k K) (i : m) : Matrix k k K :=
  fun a b => ∑ j ∈ J i, Bh a j * B j b

/-- `Sx[i, j] -= (y_i · Z_i · Bh)[j]` on the stored columns `j ∈ J i` of every row `i`, other entries
untouched: the update of `satisfy_constraints_helper` (`y = U·B` in `satisfy_constraints`,
`y = A·B − Bf` in `filter_operator`; `Z i = BtBinv[i]`) -/
def project (J : m → Finset n) (Z : m → Matrix k k K) (Bh : Matrix k n K) (y : Matrix m k K)
    (U : Matrix m n K) : Matrix m n K :=
  fun i j => U i j - if j ∈ J i then (((y i) ᵥ* (Z i)) ᵥ* Bh) j else 0

/-- entries outside the pattern are not touched -/
theorem project_off (J : m → Finset n) (Z : m → Matrix k k K) (Bh : Matrix k n K) (y : Matrix m k K)
    (U : Matrix m n K) (i : m) (j : n) (h : j ∉ J i) : project J Z Bh y U i j = U i j := by
  simp [project, h]

theorem sum_vecMul_gram (J : m → Finset n) (Bh : Matrix k n K) (B : Matrix n k K) (i : m) (c : k)
    (w : k → K) : ∑ j ∈ J i, (w ᵥ* Bh) j * B j c = (w ᵥ* gram J Bh B i) c := by
  simp only [vecMul, dotProduct, gram, Finset.sum_mul, Finset.mul_sum]
  rw [Finset.sum_comm]
  apply Finset.sum_congr rfl
  intro a _
  apply Finset.sum_congr rfl
  intro j _
  ring

/-- row `i`: the projection removes exactly `y i` from the product with `B` whenever `Z i` acts as
an inverse of the local Gram matrix on `y i` (exact inverse: `Z i * gram = 1`; pseudo-inverse:
`y i` in the row space of `B_J`) -/
theorem project_mul_row (J : m → Finset n) (Z : m → Matrix k k K) (Bh : Matrix k n K) (B : Matrix n k K)
    (y : Matrix m k K) (U : Matrix m n K) (i : m)
    (h : (y i) ᵥ* (Z i * gram J Bh B i) = y i) :
    (project J Z Bh y U * B) i = (U * B) i - y i := by
  ext c
  have key : ∑ j, (if j ∈ J i then (((y i) ᵥ* (Z i)) ᵥ* Bh) j else 0) * B j c = y i c := by
    have h1 : ∑ j, (if j ∈ J i then (((y i) ᵥ* (Z i)) ᵥ* Bh) j else 0) * B j c
        = ∑ j ∈ J i, (((y i) ᵥ* (Z i)) ᵥ* Bh) j * B j c := by
      rw [← Finset.sum_filter_add_sum_filter_not Finset.univ (fun j => j ∈ J i)]
      have hz : ∑ j ∈ Finset.univ.filter (fun j => ¬ j ∈ J i),
          (if j ∈ J i then (((y i) ᵥ* (Z i)) ᵥ* Bh) j else 0) * B j c = 0 := by
        apply Finset.sum_eq_zero
        intro j hj
        rw [Finset.mem_filter] at hj
        simp [hj.2]
      rw [hz, add_zero]
      have : Finset.univ.filter (fun j => j ∈ J i) = J i := by ext j; simp
      rw [this]
      apply Finset.sum_congr rfl
      intro j hj
      simp [hj]
    rw [h1, sum_vecMul_gram, vecMul_vecMul, h]
  simp only [Matrix.mul_apply, Pi.sub_apply, project, sub_mul, Finset.sum_sub_distrib]
  rw [key]

theorem project_mul (J : m → Finset n) (Z : m → Matrix k k K) (Bh : Matrix k n K) (B : Matrix n k K)
    (y : Matrix m k K) (U : Matrix m n K)
    (h : ∀ i, (y i) ᵥ* (Z i * gram J Bh B i) = y i) :
    project J Z Bh y U * B = U * B - y := by
  funext i
  rw [project_mul_row J Z Bh B y U i (h i)]
  rfl

/-- `smooth.satisfy_constraints`: with `y = U·B` the projected update annihilates `B` -/
theorem satisfy_constraints_spec (J : m → Finset n) (Z : m → Matrix k k K) (Bh : Matrix k n K)
    (B : Matrix n k K) (U : Matrix m n K)
    (h : ∀ i, ((U * B) i) ᵥ* (Z i * gram J Bh B i) = (U * B) i) :
    project J Z Bh (U * B) U * B = 0 := by
  rw [project_mul J Z Bh B (U * B) U h, sub_self]

/-- `utils.filter_operator`, row-wise: with `y = A·B − Bf` the corrected operator reproduces `Bf`
on every row whose local Gram matrix is inverted by `Z i` (only those rows are claimed) -/
theorem filter_operator_row (J : m → Finset n) (Z : m → Matrix k k K) (Bh : Matrix k n K)
    (B : Matrix n k K) (Bf : Matrix m k K) (A : Matrix m n K) (i : m)
    (h : Z i * gram J Bh B i = 1) :
    (project J Z Bh (A * B - Bf) A * B) i = Bf i := by
  rw [project_mul_row J Z Bh B (A * B - Bf) A i (by rw [h, vecMul_one])]
  ext c
  simp

theorem filter_operator_spec (J : m → Finset n) (Z : m → Matrix k k K) (Bh : Matrix k n K)
    (B : Matrix n k K) (Bf : Matrix m k K) (A : Matrix m n K)
    (h : ∀ i, Z i * gram J Bh B i = 1) :
    project J Z Bh (A * B - Bf) A * B = Bf := by
  funext i
  exact filter_operator_row J Z Bh B Bf A i (h i)

/-! ### sequences of constrained updates (energy minimisation, filtered Jacobi) -/

/-- one smoothing step: `P ← P + α·U` -/
def applyUpdates {m n : Type*} (P : Matrix m n K) (us : List (K × Matrix m n K)) : Matrix m n K :=
  us.foldl (fun P u => P + u.1 • u.2) P

/-- any number of updates that annihilate `B`, with any coefficients, leave `P·B` unchanged -/
theorem updates_keep_product {m : Type*} (B : Matrix n k K) :
    ∀ (us : List (K × Matrix m n K)) (P : Matrix m n K), (∀ u ∈ us, u.2 * B = 0) →
      applyUpdates P us * B = P * B := by
  intro us
  induction us with
  | nil => intro P _; rfl
  | cons u us ih =>
    intro P h
    have h1 := ih (P + u.1 • u.2) (fun v hv => h v (List.mem_cons_of_mem _ hv))
    have h2 : u.2 * B = 0 := h u (List.mem_cons_self ..)
    simp only [applyUpdates, List.foldl_cons] at h1 ⊢
    rw [h1, Matrix.add_mul, Matrix.smul_mul, h2, smul_zero, add_zero]

/-- … and leave every entry outside the pattern as it was -/
theorem updates_keep_pattern {m n : Type*} (J : m → n → Prop) :
    ∀ (us : List (K × Matrix m n K)) (P : Matrix m n K),
      (∀ u ∈ us, ∀ i j, ¬ J i j → u.2 i j = 0) →
      ∀ i j, ¬ J i j → applyUpdates P us i j = P i j := by
  intro us
  induction us with
  | nil => intro P _ i j _; rfl
  | cons u us ih =>
    intro P h i j hij
    have h1 := ih (P + u.1 • u.2) (fun v hv => h v (List.mem_cons_of_mem _ hv)) i j hij
    simp only [applyUpdates, List.foldl_cons] at h1 ⊢
    rw [h1, Matrix.add_apply, Matrix.smul_apply, h u (List.mem_cons_self ..) i j hij, smul_zero, add_zero]

/-- left scaling (the row / block-diagonal preconditioner of the Krylov loops) keeps `R·B = 0` -/
theorem scaling_keeps_zero {m : Type*} [Fintype m] (D : Matrix m m K) (R : Matrix m n K) (B : Matrix n k K)
    (h : R * B = 0) : (D * R) * B = 0 := by
  rw [Matrix.mul_assoc, h, Matrix.mul_zero]

/-- linear combinations of constrained directions are constrained (`P = Z + β·P`, Arnoldi sums) -/
theorem combination_keeps_zero {m : Type*} (U V : Matrix m n K) (B : Matrix n k K) (β : K)
    (hU : U * B = 0) (hV : V * B = 0) : (U + β • V) * B = 0 := by
  rw [Matrix.add_mul, Matrix.smul_mul, hU, hV, smul_zero, add_zero]

/-! ### the Krylov recurrences of `cg_/cgnr_/gmres_prolongation_smoothing`

Every search direction the three loops form is built from projected matrices by left scaling (the
diagonal / block-diagonal preconditioner, the root-node `I_F`) and linear combinations with the
Krylov coefficients (`beta`, `alpha`, the Arnoldi `H[j, i]`, the least-squares solution `y`).
`Gen` is the closure under exactly these operations; whatever the coefficients are, every generated
matrix annihilates `B`. -/

/-- matrices obtainable from projected ones by left multiplication and linear combination -/
inductive Gen {m : Type*} [Fintype m] (proj : Matrix m n K → Matrix m n K) : Matrix m n K → Prop
  | zero : Gen proj 0
  | proj (X : Matrix m n K) : Gen proj (proj X)
  | scale (D : Matrix m m K) (X : Matrix m n K) : Gen proj X → Gen proj (D * X)
  | comb (X Y : Matrix m n K) (a b : K) : Gen proj X → Gen proj Y → Gen proj (a • X + b • Y)

theorem gen_constrained {m : Type*} [Fintype m] (proj : Matrix m n K → Matrix m n K) (B : Matrix n k K)
    (hproj : ∀ X, proj X * B = 0) : ∀ X, Gen proj X → X * B = 0 := by
  intro X h
  induction h with
  | zero => simp
  | proj X => exact hproj X
  | scale D X _ ih => rw [Matrix.mul_assoc, ih, Matrix.mul_zero]
  | comb X Y a b _ _ ihX ihY =>
    rw [Matrix.add_mul, Matrix.smul_mul, Matrix.smul_mul, ihX, ihY, smul_zero, smul_zero, add_zero]

/-- state of the CG-type loops: prolongator, residual, search direction -/
structure CGState (m n : Type*) (K : Type*) where
  T : Matrix m n K
  R : Matrix m n K
  P : Matrix m n K

/-- one pass of the loop body of `cg_prolongation_smoothing` / `cgnr_prolongation_smoothing` with
arbitrary coefficients: `Z = D·R`, `P = Z + β·P`, `AP = proj(op P)`, `T += α·P`, `R −= α·AP` -/
def cgStep {m : Type*} [Fintype m] (D : Matrix m m K) (op proj : Matrix m n K → Matrix m n K)
    (s : CGState m n K) (c : K × K) : CGState m n K :=
  let P := D * s.R + c.2 • s.P
  ⟨s.T + c.1 • P, s.R - c.1 • proj (op P), P⟩

/-- with a projected initial residual, any number of passes with any `(α, β)` leaves `T·B` unchanged
(and keeps the residual and the direction constrained) -/
theorem cg_steps_keep_product {m : Type*} [Fintype m] (D : Matrix m m K) (op proj : Matrix m n K → Matrix m n K)
    (B : Matrix n k K) (hproj : ∀ X, proj X * B = 0) :
    ∀ (cs : List (K × K)) (s : CGState m n K), s.R * B = 0 → s.P * B = 0 →
      (cs.foldl (cgStep D op proj) s).T * B = s.T * B ∧ (cs.foldl (cgStep D op proj) s).R * B = 0 ∧
      (cs.foldl (cgStep D op proj) s).P * B = 0 := by
  intro cs
  induction cs with
  | nil => intro s hR hP; exact ⟨rfl, hR, hP⟩
  | cons c cs ih =>
    intro s hR hP
    have hP' : (D * s.R + c.2 • s.P) * B = 0 := by
      rw [Matrix.add_mul, Matrix.smul_mul, Matrix.mul_assoc, hR, hP, Matrix.mul_zero, smul_zero, add_zero]
    have hR' : (s.R - c.1 • proj (op (D * s.R + c.2 • s.P))) * B = 0 := by
      rw [Matrix.sub_mul, Matrix.smul_mul, hR, hproj, smul_zero, sub_zero]
    obtain ⟨h1, h2, h3⟩ := ih (cgStep D op proj s c) hR' hP'
    simp only [List.foldl_cons]
    refine ⟨?_, h2, h3⟩
    rw [h1]
    simp only [cgStep]
    rw [Matrix.add_mul, Matrix.smul_mul, hP', smul_zero, add_zero]

/-! ### root nodes: `P ← I_F·P + P_I` -/

section root
variable {c : Type*} [Fintype m] [DecidableEq m] [Fintype c] [DecidableEq c]

/-- `I_F`: identity on the non-root dofs -/
def IF (isRoot : m → Prop) [DecidablePred isRoot] : Matrix m m K :=
  Matrix.diagonal (fun i => if isRoot i then 0 else 1)

/-- `P_I`: injection of the coarse unknown `κ` at its root dof `root κ` -/
def PI (root : c → m) : Matrix m c K := fun i κ => if i = root κ then 1 else 0

/-- after the reset the root rows are identity rows, whatever `X` is -/
theorem reset_identity_rows (isRoot : m → Prop) [DecidablePred isRoot] (root : c → m)
    (hinj : Function.Injective root) (hroot : ∀ κ, isRoot (root κ)) (X : Matrix m c K) (κ κ' : c) :
    ((IF isRoot : Matrix m m K) * X + (PI root : Matrix m c K)) (root κ) κ' = if κ = κ' then 1 else 0 := by
  simp only [Matrix.add_apply, IF, Matrix.diagonal_mul, PI, hroot κ, if_true, zero_mul, zero_add]
  by_cases h : κ = κ'
  · simp [h]
  · have : root κ ≠ root κ' := fun e => h (hinj e)
    simp [h, this]

/-- non-root rows are those of `X` -/
theorem reset_other_rows (isRoot : m → Prop) [DecidablePred isRoot] (root : c → m)
    (hroot : ∀ i, (∃ κ, i = root κ) → isRoot i) (X : Matrix m c K) (i : m) (hi : ¬ isRoot i) (κ : c) :
    ((IF isRoot : Matrix m m K) * X + (PI root : Matrix m c K)) i κ = X i κ := by
  have : i ≠ root κ := fun e => hi (hroot i ⟨κ, e⟩)
  simp [Matrix.add_apply, IF, Matrix.diagonal_mul, PI, hi, this]

/-- the coarse candidates `P_Iᵀ·B` are the fine candidates at the root dofs (injection) -/
theorem injection_spec (root : c → m) (B : Matrix m k K) (κ : c) (b : k) :
    ((PI root : Matrix m c K)ᵀ * B) κ b = B (root κ) b := by
  simp [Matrix.mul_apply, PI, Matrix.transpose_apply]

/-- a prolongator with identity root rows is a fixed point of the reset, hence the reset of an updated
prolongator is the prolongator updated by the `I_F`-part of the update -/
theorem reset_update (IFm : Matrix m m K) (PIm P U : Matrix m c K) (α : K) (hP : IFm * P + PIm = P) :
    IFm * (P + α • U) + PIm = P + α • (IFm * U) := by
  rw [Matrix.mul_add, Matrix.mul_smul]
  calc IFm * P + α • (IFm * U) + PIm = (IFm * P + PIm) + α • (IFm * U) := by abel
    _ = P + α • (IFm * U) := by rw [hP]

end root

/-! ### unconstrained Jacobi / Richardson smoothing -/

/-- `degree` passes of `P ← P − M·P` (`M = ω/ρ·D⁻¹A`, `ω·D⁻¹A` or `ω/ρ·A`) are the polynomial
`(I − M)^degree` applied to `T` -/
theorem smoothing_polynomial {m c : Type*} [Fintype m] [DecidableEq m] (M : Matrix m m K) (T : Matrix m c K) (d : ℕ) :
    (fun P : Matrix m c K => P - M * P)^[d] T = (1 - M) ^ d * T := by
  induction d with
  | zero => simp
  | succ d ih =>
    rw [Function.iterate_succ_apply', ih, pow_succ', Matrix.mul_assoc, Matrix.sub_mul, Matrix.one_mul]

end PyamgV.C10
