import PyamgV.Proofs.ExtC11RefineBase
import PyamgV.Proofs.C11Air
import Mathlib.Data.List.Induction

/-! PyamgV (C11, extension E6): the array models of `approx_ideal_restriction_pass1/2`
(`C11M.airPass1`, `C11M.airPass2`) against the row operator `C11M.airRow` the AIR theorems are
about: pass 2 returns exactly the rows `airRow` of the C-points in the order of `Cpts`, and the
row pointer of pass 1 is the prefix sum of the lengths of these rows. -/
namespace PyamgV.C11X
open PyamgV.N PyamgV.C11 PyamgV.C11M

/-- entries pass 1 reserves for the C-point `c`: the neighbourhood and the identity entry -/
def airLen (S : Csr) (split : Array Int) (distance c : Nat) : Nat := (nbrF S split distance c).length + 1

def airStep (S : Csr) (split : Array Int) (distance : Nat) (acc : Array Nat × Nat) (c : Nat) : Array Nat × Nat :=
  (acc.1.push (acc.2 + airLen S split distance c), acc.2 + airLen S split distance c)

theorem airPass1_eq (S : Csr) (cpts : Array Nat) (split : Array Int) (distance : Nat) :
    airPass1 S cpts split distance = (cpts.toList.foldl (airStep S split distance) (#[0], 0)).1 := rfl

theorem airPass1_state (S : Csr) (split : Array Int) (distance : Nat) (l : List Nat) :
    let r := l.foldl (airStep S split distance) ((#[0] : Array Nat), 0)
    r.1.size = l.length + 1 ∧ r.2 = (l.map (airLen S split distance)).sum ∧
    ∀ j ≤ l.length, rdN r.1 j = ((l.take j).map (airLen S split distance)).sum := by
  induction l using List.reverseRecOn with
  | nil =>
    refine ⟨by simp, by simp, ?_⟩
    intro j hj
    have : j = 0 := by simpa using hj
    subst this; simp [rdN]
  | append_singleton l c ih =>
    obtain ⟨h1, h2, h3⟩ := ih
    simp only [List.foldl_append, List.foldl_cons, List.foldl_nil, List.length_append, List.length_cons,
      List.length_nil, List.map_append, List.map_cons, List.map_nil, List.sum_append, List.sum_cons,
      List.sum_nil, Nat.add_zero, Nat.zero_add]
    generalize l.foldl (airStep S split distance) ((#[0] : Array Nat), 0) = r at h1 h2 h3 ⊢
    refine ⟨by simp [airStep, h1], by simp [airStep, h2], ?_⟩
    intro j hj
    simp only [airStep, rdN]
    rw [Array.getD_eq_getD_getElem?, Array.getElem?_push]
    rcases Nat.lt_succ_iff_lt_or_eq.1 (Nat.lt_succ_of_le hj) with hlt | heq
    · have h := h3 j (by omega)
      simp only [rdN] at h
      rw [Array.getD_eq_getD_getElem?] at h
      have hne : j ≠ r.1.size := by omega
      simp only [hne, if_false]
      rw [h, List.take_append_of_le_length (by omega)]
    · have he : j = r.1.size := by omega
      simp only [he, if_true, Option.getD_some]
      rw [h2, h1, List.take_of_length_le (by simp)]
      simp

/-- **`approx_ideal_restriction_pass1`**: `Rp` has `|Cpts|+1` entries, `Rp[j] = Σ_{t<j} (|N(c_t)| + 1)` -/
theorem airPass1_spec (S : Csr) (cpts : Array Nat) (split : Array Int) (distance : Nat) :
    (airPass1 S cpts split distance).size = cpts.size + 1 ∧
    ∀ j ≤ cpts.size, rdN (airPass1 S cpts split distance) j =
      ((cpts.toList.take j).map (airLen S split distance)).sum := by
  rw [airPass1_eq]
  have := airPass1_state S split distance cpts.toList
  simp only [Array.length_toList] at this
  exact ⟨this.1, this.2.2⟩

theorem mapM_some {α β : Type} (f : α → Option β) (l : List α) (rows : List β) (h : l.mapM f = some rows) :
    List.Forall₂ (fun a b => f a = some b) l rows := by
  induction l generalizing rows with
  | nil =>
    simp only [List.mapM_nil] at h
    have : rows = [] := by
      have := Option.some.inj h
      exact this.symm
    subst this; exact List.Forall₂.nil
  | cons a rest ih =>
    rw [List.mapM_cons] at h
    cases ha : f a with
    | none => rw [ha] at h; simp at h
    | some b =>
      rw [ha] at h
      cases hr : rest.mapM f with
      | none => rw [hr] at h; simp at h
      | some bs =>
        rw [hr] at h
        have : rows = b :: bs := by
          have := Option.some.inj h
          exact this.symm
        subst this
        exact List.Forall₂.cons ha (ih bs hr)

/-- **`approx_ideal_restriction_pass2`** (array model): whenever it returns, its rows are the rows
`airRow` of the C-points in the order of `Cpts` (to which `air_row_spec` applies), and each has the
length pass 1 reserved for it -/
theorem airPass2_rows (A S : Csr) (cpts : Array Nat) (split : Array Int) (distance : Nat)
    (rows : List (List (Nat × Rat))) (h : airPass2 A S cpts split distance = some rows) :
    List.Forall₂ (fun c r => airRow A S split distance c = some r ∧ r.length = airLen S split distance c)
      cpts.toList rows := by
  unfold airPass2 at h
  refine (mapM_some _ _ _ h).imp ?_
  intro c r hr
  refine ⟨hr, ?_⟩
  obtain ⟨⟨x, hx, rfl⟩, _⟩ := airRow_spec A S split distance c r hr
  simp [airLen, hx]

end PyamgV.C11X
