import PyamgV.Proofs.ExtC07Refl
import PyamgV.Proofs.ExtC07Giv

/-! PyamgV (C07, extension E11): the Householder--Arnoldi process of `_fgmres.py` / `_gmres_householder.py`
(`hhDir`, `hhCol`, `hhArnoldi`, `hhInit` of `Model/ExtC07Hh.lean`) over a `K`-module with a Euclidean form, an
orthonormal family `E_0 … E_{n-1}` (the coordinate vectors) and an exact square root.

Invariant `HhInv`: the stored Householder vectors are unit vectors or zero, `w_j ⟂ E_l` for `l < j` (leading
zeros), and with `v_l = P_0 ⋯ P_k E_l` (`hhL e ws.reverse (E l)`, orthonormal because every `P_j` is an isometry)
the directions satisfy the Arnoldi relation `B z_j = Σ_l H_{l j} v_l`; the start residual is `β v_0`.
`hhInv_init`, `hhInv_step`. -/
namespace PyamgV.C07
open Finset

variable {K : Type} [Field K] [LinearOrder K] [IsStrictOrderedRing K]
variable {V : Type} [AddCommGroup V] [Module K V]
variable (A AH M : V →ₗ[K] V) (e : EForm K V) (E : Nat → V)

/-- the operations of `HOps` over a module: coordinates with respect to the family `E` -/
def HOps.ofModule : HOps K V :=
  { o := Ops.ofModule A AH M e
    get := fun v i => e.a (E i) v
    basis := E
    tail := fun i v => v - ∑ l ∈ range i, e.a (E l) v • E l }

/-- `E_0 … E_{n-1}` orthonormal -/
def OrthoFam (n : Nat) : Prop := ∀ i j, i < n → j < n → e.a (E i) (E j) = if i = j then 1 else 0

variable {e E}

theorem coef_head {n : Nat} (hE : OrthoFam e E n) (i : Nat) (hi : i ≤ n) (c : Nat → K) (l : Nat) (hl : l < n) :
    e.a (E l) (∑ l' ∈ range i, c l' • E l') = if l < i then c l else 0 := by
  rw [map_sum]
  simp only [map_smul, smul_eq_mul]
  by_cases hli : l < i
  · rw [if_pos hli, Finset.sum_eq_single l]
    · rw [hE l l hl hl, if_pos rfl, mul_one]
    · intro l' hl' hne
      rw [hE l l' hl (by have := Finset.mem_range.mp hl'; omega), if_neg (fun h => hne h.symm), mul_zero]
    · intro h; exact absurd (Finset.mem_range.mpr hli) h
  · rw [if_neg hli]
    apply Finset.sum_eq_zero
    intro l' hl'
    have : l' < i := Finset.mem_range.mp hl'
    rw [hE l l' hl (by omega), if_neg (by omega), mul_zero]

/-- the part of `v` beyond the first `i` coordinates is orthogonal to `E_0 … E_{i-1}` -/
theorem coef_tail {n : Nat} (hE : OrthoFam e E n) (i : Nat) (hi : i ≤ n) (v : V) (l : Nat) (hl : l < i) :
    e.a (E l) (v - ∑ l' ∈ range i, e.a (E l') v • E l') = 0 := by
  rw [map_sub, coef_head hE i hi _ l (by omega), if_pos hl, sub_self]

theorem F_map_range (g : Nat → K) (N : Nat) (x : K) (l : Nat) (hl : l < N) :
    F ((List.range N).map g ++ [x]) l = g l := by
  rw [F_append_lt _ _ _ (by simp [hl])]
  simp [F, List.getD_eq_getElem?_getD, hl]

theorem F_map_range_last (g : Nat → K) (N : Nat) (x : K) :
    F ((List.range N).map g ++ [x]) N = x := by
  have := F_append_len ((List.range N).map g) x
  simpa using this

variable (sqrt : K → K)

/-- **the new reflector and column**: from `v` the model builds a Householder vector `w'` (unit or zero,
orthogonal to `E_0 … E_k`) and a column `h` of `k+2` entries with `Σ_l h_l E_l = P_{w'} v` -/
theorem hhCol_spec (hdef : ∀ v, e.a v v = 0 → v = 0) (hsq : ∀ a, 0 ≤ a → sqrt a * sqrt a = a)
    (hsq0 : ∀ a, 0 ≤ sqrt a) {n : Nat} (hE : OrthoFam e E n) (k : Nat) (hk : k + 1 < n) (v : V) :
    UZ e (hhCol (HOps.ofModule A AH M e E) sqrt sgnK nzK n k v).1 ∧
    (∀ l, l ≤ k → e.a (E l) (hhCol (HOps.ofModule A AH M e E) sqrt sgnK nzK n k v).1 = 0) ∧
    (hhCol (HOps.ofModule A AH M e E) sqrt sgnK nzK n k v).2.length = k + 2 ∧
    ∑ l ∈ range (k + 2), F (hhCol (HOps.ofModule A AH M e E) sqrt sgnK nzK n k v).2 l • E l =
      reflL e (hhCol (HOps.ofModule A AH M e E) sqrt sgnK nzK n k v).1 v := by
  have hb : (k + 1 == n) = false := by
    have : k + 1 ≠ n := by omega
    simpa using this
  set head := ∑ l ∈ range (k + 1), e.a (E l) v • E l with hhead
  set t := v - head with ht
  have htl : ∀ l, l ≤ k → e.a (E l) t = 0 := fun l hl => coef_tail hE (k + 1) (by omega) v l (by omega)
  have hEh : e.a (E (k + 1)) head = 0 := by
    rw [hhead, coef_head hE (k + 1) (by omega) _ (k + 1) hk, if_neg (by omega)]
  have hth : e.a t head = 0 := by
    rw [hhead, map_sum]
    apply Finset.sum_eq_zero
    intro l hl
    rw [map_smul, smul_eq_mul, e.symm t (E l), htl l (by have := Finset.mem_range.mp hl; omega), mul_zero]
  have hvt : v = head + t := by rw [ht]; abel
  have hsumhead : ∀ x : K, ∑ l ∈ range (k + 2),
      F ((List.range (k + 1)).map (fun i => e.a (E i) v) ++ [x]) l • E l = head + x • E (k + 1) := by
    intro x
    rw [Finset.sum_range_succ, F_map_range_last, hhead]
    congr 1
    refine Finset.sum_congr rfl (fun l hl => ?_)
    rw [F_map_range _ _ _ _ (Finset.mem_range.mp hl)]
  by_cases hnz : nzK (sqrt (e.a t t)) = true
  · -- a reflector is built
    set α := sgnK (e.a (E (k + 1)) t) * sqrt (e.a t t) with hα
    set q := t + α • E (k + 1) with hq
    have hr : hhCol (HOps.ofModule A AH M e E) sqrt sgnK nzK n k v =
        ((1 / sqrt (e.a q q)) • q, (List.range (k + 1)).map (fun i => e.a (E i) v) ++ [-α]) := by
      simp only [hhCol, hb, HOps.ofModule, Ops.ofModule, newReflO]
      rw [← hhead, ← ht, hnz]
      simp only [Bool.not_false, Bool.and_self, if_true]
      rfl
    rw [hr]
    obtain ⟨h1, h2⟩ := househ e sqrt hsq t (E (k + 1)) (by rw [hE _ _ hk hk, if_pos rfl])
      (sgnK (e.a (E (k + 1)) t)) (sgnK_unit _) (sgnK_mul_nonneg _) (sqrt (e.a t t))
      (hsq _ (e.nonneg t)) (hsq0 _) (nzK_true _ hnz)
    rw [← hα, ← hq] at h1 h2
    have hqE : ∀ l, l ≤ k → e.a (E l) q = 0 := by
      intro l hl
      rw [hq, map_add, map_smul, htl l hl, hE l (k + 1) (by omega) hk, if_neg (by omega)]
      simp
    have hqh : e.a q head = 0 := by
      rw [hq, map_add, LinearMap.add_apply, map_smul, LinearMap.smul_apply, hth, hEh]; simp
    refine ⟨Or.inr h1, ?_, by simp, ?_⟩
    · intro l hl
      rw [map_smul, hqE l hl, smul_zero]
    · rw [hsumhead]
      conv_rhs => rw [hvt, map_add, h2]
      rw [refl_fix e _ head (by rw [map_smul, LinearMap.smul_apply, hqh, smul_zero])]
  · -- exact breakdown: the remainder vanishes
    have hnz' : nzK (sqrt (e.a t t)) = false := by simpa using hnz
    have hs0 : sqrt (e.a t t) = 0 := nzK_false _ hnz'
    have ht0 : t = 0 := by
      apply hdef
      have := hsq _ (e.nonneg t)
      rw [hs0, mul_zero] at this; exact this.symm
    have hr : hhCol (HOps.ofModule A AH M e E) sqrt sgnK nzK n k v =
        ((0 : K) • t, (List.range (k + 1)).map (fun i => e.a (E i) v) ++ [e.a (E (k + 1)) v]) := by
      simp only [hhCol, hb, HOps.ofModule, Ops.ofModule, newReflO]
      rw [← hhead, ← ht, hnz']
      simp only [Bool.not_false, Bool.and_false, Bool.false_eq_true, if_false]
    rw [hr]
    have hlast : e.a (E (k + 1)) v = 0 := by
      conv_lhs => rw [hvt]
      rw [map_add, hEh, ht0]; simp
    refine ⟨Or.inl (by simp), fun l _ => by simp, by simp, ?_⟩
    rw [hsumhead, hlast, zero_smul, zero_smul, refl_zero, add_zero]
    rw [hvt, ht0, add_zero]

/-- the direction: `z = pre (P_0 ⋯ P_k E_k)` -/
theorem hhDir_eq (pre : V → V) (ws : List V) (k : Nat) (x0 : V) (hl : ws.length = k + 1) :
    hhDir (HOps.ofModule A AH M e E) pre ws k x0 = pre (hhL e ws.reverse (E k)) := by
  have hw : ws.getLast?.getD x0 = ws.getD k 0 := getLast_getD ws k hl.symm x0
  have hsplit : ws = ws.take k ++ [ws.getD k 0] := by
    have h1 : ws.take k = ws.dropLast := by rw [List.dropLast_eq_take, hl]; rfl
    rw [h1, ← hw]
    cases hlast : ws.getLast? with
    | none => rw [List.getLast?_eq_none_iff] at hlast; rw [hlast] at hl; simp at hl
    | some a => exact (List.dropLast_append_getLast? a (by rw [hlast]; rfl)).symm
  unfold hhDir
  simp only []
  rw [hw]
  congr 1
  conv_rhs => rw [hsplit, List.reverse_append, List.reverse_singleton, List.singleton_append]
  simp only [hhL, LinearMap.comp_apply]
  have ho : (HOps.ofModule A AH M e E).o = Ops.ofModule A AH M e := rfl
  rw [ho, applyHH_eq]
  congr 1
  rw [reflL_apply]
  simp only [HOps.ofModule, Ops.ofModule]
  rw [e.symm (ws.getD k 0) (E k)]
  module

/-! ### the invariant -/

variable (e E) in
structure HhInv (B : V →ₗ[K] V) (k : Nat) (β : K) (r : V) (ws zs : List V) (cols : List (List K)) : Prop where
  lws : ws.length = k + 1
  lzs : zs.length = k
  lcols : cols.length = k
  uz : ∀ w ∈ ws, UZ e w
  lead : ∀ j l, j ≤ k → l < j → e.a (E l) (ws.getD j 0) = 0
  collen : ∀ j, j < k → (cols.getD j []).length = j + 2
  rel : ∀ j, j < k → B (zs.getD j 0) = ∑ l ∈ range (k + 1), F (cols.getD j []) l • hhL e ws.reverse (E l)
  hr0 : r = β • hhL e ws.reverse (E 0)

/-- a new reflector with leading zeros does not move the vectors `v_l`, `l` below its index -/
theorem hhL_snoc_fix (ws : List V) (w : V) (x : V) (h : e.a w x = 0) :
    hhL e (ws ++ [w]).reverse x = hhL e ws.reverse x := by
  rw [List.reverse_append, List.reverse_singleton, List.singleton_append]
  simp only [hhL, LinearMap.comp_apply]
  rw [refl_fix e w x h]

/-- the vectors `v_0 … v_k` of a state are orthonormal -/
theorem HhInv.orth {B : V →ₗ[K] V} {k : Nat} {β : K} {r : V} {ws zs : List V} {cols : List (List K)}
    (h : HhInv e E B k β r ws zs cols) {n : Nat} (hE : OrthoFam e E n) (hk : k < n) (i j : Nat)
    (hi : i ≤ k) (hj : j ≤ k) :
    e.a (hhL e ws.reverse (E i)) (hhL e ws.reverse (E j)) = if i = j then 1 else 0 := by
  rw [hhL_iso e ws.reverse (fun w hw => h.uz w (List.mem_reverse.mp hw)), hE i j (by omega) (by omega)]

theorem hhInv_init (hsq : ∀ a, 0 ≤ a → sqrt a * sqrt a = a) (hsq0 : ∀ a, 0 ≤ sqrt a)
    {n : Nat} (hE : OrthoFam e E n) (hn : 0 < n) (B : V →ₗ[K] V) (r : V) (hr : sqrt (e.a r r) ≠ 0) :
    HhInv e E B 0 (-(sgnK (e.a (E 0) r) * sqrt (e.a r r))) r
      (hhInit (HOps.ofModule A AH M e E) sqrt sgnK r).ws [] [] ∧
    (hhInit (HOps.ofModule A AH M e E) sqrt sgnK r).g = [-(sgnK (e.a (E 0) r) * sqrt (e.a r r))] := by
  obtain ⟨h1, h2⟩ := househ e sqrt hsq r (E 0) (by rw [hE _ _ hn hn, if_pos rfl])
    (sgnK (e.a (E 0) r)) (sgnK_unit _) (sgnK_mul_nonneg _) (sqrt (e.a r r))
    (hsq _ (e.nonneg r)) (hsq0 _) hr
  set α := sgnK (e.a (E 0) r) * sqrt (e.a r r) with hα
  set q := r + α • E 0 with hq
  have hws : (hhInit (HOps.ofModule A AH M e E) sqrt sgnK r).ws = [(1 / sqrt (e.a q q)) • q] := rfl
  refine ⟨⟨by rw [hws]; rfl, rfl, rfl, ?_, ?_, by simp, by simp, ?_⟩, rfl⟩
  · intro w hw
    rw [hws] at hw
    rw [List.mem_singleton.mp hw]
    exact Or.inr h1
  · intro j l hj hl; omega
  · rw [hws]
    simp only [List.reverse_singleton, hhL, LinearMap.comp_apply, LinearMap.id_apply]
    rw [← map_smul, ← h2, refl_invol e _ (Or.inr h1)]

/-- **one Householder--Arnoldi step keeps the invariant** (`k + 1 < n`; `pre` arbitrary) -/
theorem hhInv_step (hdef : ∀ v, e.a v v = 0 → v = 0) (hsq : ∀ a, 0 ≤ a → sqrt a * sqrt a = a)
    (hsq0 : ∀ a, 0 ≤ sqrt a) {n : Nat} (hE : OrthoFam e E n) (B : V →ₗ[K] V) (k : Nat) (hk : k + 1 < n)
    (β : K) (r : V) (ws zs : List V) (cols : List (List K)) (ih : HhInv e E B k β r ws zs cols)
    (pre : V → V) (x0 : V) :
    HhInv e E B (k + 1) β r
      (ws ++ [(hhArnoldi (HOps.ofModule A AH M e E) sqrt sgnK nzK n pre (fun v => B v) ws k x0).w])
      (zs ++ [(hhArnoldi (HOps.ofModule A AH M e E) sqrt sgnK nzK n pre (fun v => B v) ws k x0).z])
      (cols ++ [(hhArnoldi (HOps.ofModule A AH M e E) sqrt sgnK nzK n pre (fun v => B v) ws k x0).col]) ∧
    (hhArnoldi (HOps.ofModule A AH M e E) sqrt sgnK nzK n pre (fun v => B v) ws k x0).z =
      pre (hhL e ws.reverse (E k)) ∧
    (hhArnoldi (HOps.ofModule A AH M e E) sqrt sgnK nzK n pre (fun v => B v) ws k x0).col.length = k + 2 ∧
    (∀ l, l ≤ k → hhL e (ws ++
      [(hhArnoldi (HOps.ofModule A AH M e E) sqrt sgnK nzK n pre (fun v => B v) ws k x0).w]).reverse (E l) =
        hhL e ws.reverse (E l)) := by
  have hz : (hhArnoldi (HOps.ofModule A AH M e E) sqrt sgnK nzK n pre (fun v => B v) ws k x0).z =
      pre (hhL e ws.reverse (E k)) := hhDir_eq A AH M pre ws k x0 ih.lws
  set z := (hhArnoldi (HOps.ofModule A AH M e E) sqrt sgnK nzK n pre (fun v => B v) ws k x0).z with hzdef
  have hv3 : applyHH (HOps.ofModule A AH M e E).o ws (B z) = hhL e ws (B z) := applyHH_eq e A AH M ws (B z)
  have hwc : (hhArnoldi (HOps.ofModule A AH M e E) sqrt sgnK nzK n pre (fun v => B v) ws k x0).w =
      (hhCol (HOps.ofModule A AH M e E) sqrt sgnK nzK n k (hhL e ws (B z))).1 := by
    rw [← hv3]; rfl
  have hcc : (hhArnoldi (HOps.ofModule A AH M e E) sqrt sgnK nzK n pre (fun v => B v) ws k x0).col =
      (hhCol (HOps.ofModule A AH M e E) sqrt sgnK nzK n k (hhL e ws (B z))).2 := by
    rw [← hv3]; rfl
  obtain ⟨s1, s2, s3, s4⟩ := hhCol_spec A AH M sqrt hdef hsq hsq0 hE k hk (hhL e ws (B z))
  rw [← hwc] at s1 s2 s4
  rw [← hcc] at s3 s4
  set w' := (hhArnoldi (HOps.ofModule A AH M e E) sqrt sgnK nzK n pre (fun v => B v) ws k x0).w with hw'
  set col := (hhArnoldi (HOps.ofModule A AH M e E) sqrt sgnK nzK n pre (fun v => B v) ws k x0).col with hcol
  have hstab : ∀ l, l ≤ k → hhL e (ws ++ [w']).reverse (E l) = hhL e ws.reverse (E l) := fun l hl =>
    hhL_snoc_fix ws w' (E l) (by rw [e.symm]; exact s2 l hl)
  refine ⟨⟨by simp [ih.lws], by simp [ih.lzs], by simp [ih.lcols], ?_, ?_, ?_, ?_, ?_⟩, hz, s3, hstab⟩
  · intro w hw
    rcases List.mem_append.mp hw with h | h
    · exact ih.uz w h
    · rw [List.mem_singleton.mp h]; exact s1
  · intro j l hj hl
    by_cases hjk : j ≤ k
    · rw [getD_append_lt _ _ _ _ (by rw [ih.lws]; omega)]; exact ih.lead j l hjk hl
    · have : j = k + 1 := by omega
      subst this
      rw [← ih.lws, getD_append_len]
      exact s2 l (by omega)
  · intro j hj
    by_cases hjk : j < k
    · rw [getD_append_lt _ _ _ _ (by rw [ih.lcols]; exact hjk)]; exact ih.collen j hjk
    · have : j = k := by omega
      subst this
      rw [← ih.lcols, getD_append_len, ih.lcols]; exact s3
  · intro j hj
    by_cases hjk : j < k
    · rw [getD_append_lt _ _ _ _ (by rw [ih.lzs]; exact hjk),
        getD_append_lt _ _ _ _ (by rw [ih.lcols]; exact hjk), ih.rel j hjk]
      conv_rhs => rw [Finset.sum_range_succ]
      have hz0 : F (cols.getD j []) (k + 1) = 0 := by
        simp only [F]
        rw [List.getD_eq_getElem?_getD, List.getElem?_eq_none (by rw [ih.collen j hjk]; omega)]; rfl
      rw [hz0, zero_smul, add_zero]
      refine Finset.sum_congr rfl (fun l hl => ?_)
      rw [hstab l (by have := Finset.mem_range.mp hl; omega)]
    · have : j = k := by omega
      subst this
      have e1 : (zs ++ [z]).getD j 0 = z := by rw [← ih.lzs]; exact getD_append_len _ _ _
      have e2 : (cols ++ [col]).getD j [] = col := by rw [← ih.lcols]; exact getD_append_len _ _ _
      rw [e1, e2]
      have hsum : ∑ l ∈ range (j + 1 + 1), F col l • hhL e (ws ++ [w']).reverse (E l) =
          hhL e (ws ++ [w']).reverse (∑ l ∈ range (j + 2), F col l • E l) := by
        rw [map_sum]
        refine Finset.sum_congr rfl (fun l _ => ?_)
        rw [map_smul]
      rw [hsum, s4, List.reverse_append, List.reverse_singleton, List.singleton_append]
      simp only [hhL, LinearMap.comp_apply]
      rw [refl_invol e w' s1, hhL_rev_cancel e ws ih.uz]
  · rw [hstab 0 (by omega)]; exact ih.hr0

#print axioms hhInv_step
end PyamgV.C07
