import PyamgV.Proofs.ExtC17R4Color

/-! PyamgV (C17, extension E32, round 4): termination of the outer loops of the `Ck` models of `vertex_coloring_jones_plassmann`
and `vertex_coloring_LDF` (`Model/ExtC17R4Graph.lean`): every round colours at least one node as long as one is left, so `n` rounds
of fuel suffice -- on ANY structurally valid pattern, for weights whose comparisons `>` / `==` behave like a strict order with ties
(`WOrd`; true for IEEE doubles, NaN included, and for exact arithmetic).

Progress of one pass of the parallel independent set from a vector without entries `C`: as long as no node has been marked `C` the
vector is unchanged (a node is marked `F` only next to a `C`), so the active node that is maximal for (weight, index) finds every
active neighbour smaller when its row is visited and is marked `C`.  Core Lean only. -/
namespace PyamgV.C17R4
open PyamgV.Ck PyamgV.C17

set_option linter.unusedSectionVars false
set_option linter.unusedVariables false

variable {ρ : Type} [Inhabited ρ]

/-! ### a maximal element -/

theorem exists_maximal (R : Nat → Nat → Prop) (hirr : ∀ i, ¬ R i i) (htr : ∀ i j k, R i j → R j k → R i k) (P : Nat → Prop) :
    ∀ n, (∃ i, i < n ∧ P i) → ∃ i, i < n ∧ P i ∧ ∀ j, j < n → P j → ¬ R j i := by
  intro n
  induction n with
  | zero => rintro ⟨i, hi, _⟩; omega
  | succ m ih =>
    rintro ⟨i, hi, hP⟩
    by_cases hPm : P m
    · by_cases hex : ∃ i, i < m ∧ P i
      · obtain ⟨i0, h0, hP0, hmax⟩ := ih hex
        by_cases hR : R m i0
        · refine ⟨m, by omega, hPm, fun j hj hPj hRj => ?_⟩
          by_cases hjm : j = m
          · subst hjm; exact hirr j hRj
          · exact hmax j (by omega) hPj (htr j m i0 hRj hR)
        · refine ⟨i0, by omega, hP0, fun j hj hPj hRj => ?_⟩
          by_cases hjm : j = m
          · subst hjm; exact hR hRj
          · exact hmax j (by omega) hPj hRj
      · refine ⟨m, by omega, hPm, fun j hj hPj hRj => ?_⟩
        by_cases hjm : j = m
        · subst hjm; exact hirr j hRj
        · exact hex ⟨j, by omega, hPj⟩
    · have him : i < m := by
        rcases Nat.lt_or_ge i m with h | h
        · exact h
        · exfalso
          have : i = m := by omega
          subst this; exact hPm hP
      obtain ⟨i0, h0, hP0, hmax⟩ := ih ⟨i, him, hP⟩
      refine ⟨i0, by omega, hP0, fun j hj hPj hRj => ?_⟩
      by_cases hjm : j = m
      · subst hjm; exact hPm hPj
      · exact hmax j (by omega) hPj hRj

/-- what termination needs of the comparisons of the weights -/
structure WOrd (w : WOps ρ) : Prop where
  gt_irrefl : ∀ a, w.gt a a = false
  gt_trans : ∀ a b c, w.gt a b = true → w.gt b c = true → w.gt a c = true
  gt_eq : ∀ a b c, w.gt a b = true → w.eq b c = true → w.gt a c = true
  eq_gt : ∀ a b c, w.eq a b = true → w.gt b c = true → w.gt a c = true
  eq_trans : ∀ a b c, w.eq a b = true → w.eq b c = true → w.eq a c = true

/-- node `j` beats node `i`: larger weight, or equal weight and larger index -/
def Beats (w : WOps ρ) (y : Array ρ) (j i : Nat) : Prop :=
  w.gt (y.getD j default) (y.getD i default) = true ∨ (w.eq (y.getD j default) (y.getD i default) = true ∧ i < j)

theorem beats_irrefl {w : WOps ρ} (h : WOrd w) (y : Array ρ) (i : Nat) : ¬ Beats w y i i := by
  rintro (e | ⟨_, e⟩)
  · rw [h.gt_irrefl] at e; cases e
  · omega

theorem beats_trans {w : WOps ρ} (h : WOrd w) (y : Array ρ) (i j k : Nat) (h1 : Beats w y i j) (h2 : Beats w y j k) : Beats w y i k := by
  rcases h1 with a | ⟨a, a'⟩ <;> rcases h2 with b | ⟨b, b'⟩
  · exact Or.inl (h.gt_trans _ _ _ a b)
  · exact Or.inl (h.gt_eq _ _ _ a b)
  · exact Or.inl (h.eq_gt _ _ _ a b)
  · exact Or.inr ⟨h.eq_trans _ _ _ a b, by omega⟩

/-! ### counting through `active → F` updates -/

theorem cntNeg_upd {n : Nat} {active F : Int} (ha : active < 0) (hF : F < 0) {x x' : Array Int} (hu : Upd active F x x') :
    cntNeg n x' = cntNeg n x := by
  apply nzc_congr
  intro k hk
  show nonneg (x'.getD k 0) = nonneg (x.getD k 0)
  rcases hu.2 k with e | ⟨e1, e2⟩
  · rw [e]
  · rw [e1, e2]; unfold nonneg; rw [decide_eq_false (by omega), decide_eq_false (by omega)]

/-! ### the scan loop once more -/

/-- without a neighbour marked `C` the scan does not write -/
theorem mpScan_noC (w : WOps ρ) {n : Nat} {ap aj : Array Int} (hA : WFm (patS n ap aj) n) (y : Array ρ) (hy : y.size = n)
    (active C F : Int) (i : Int) (i0 : 0 ≤ i) (i1 : i < (n : Int)) (yi : ρ) (x : Array Int) (hx : x.size = n)
    (hnoC : ∀ k, k < n → x.getD k 0 ≠ C) :
    Safe (mpScan w aj y active C F i yi (ap.getD i.toNat 0) (ap.getD (i.toNat + 1) 0) x) (fun st => st.1 = x) := by
  obtain ⟨_, _, hrow⟩ := row_facts hA i i0 i1
  unfold mpScan
  apply forRange_safe (fun st : Array Int × Bool => st.1 = x) _ _ _ _ rfl
  intro jj j1 j2 st hst
  by_cases hb : st.2 = true
  · rw [if_pos hb]; exact Safe.pure hst
  · rw [if_neg hb]
    refine Safe.bind (hrow jj j1 j2) (fun j hj => ?_)
    obtain ⟨_, hj0, hj1⟩ := hj
    refine Safe.bind (rd_safe st.1 j hj0 (by rw [hst, hx]; omega)) (fun xj hxj => ?_)
    have hxj' : xj = x.getD j.toNat 0 := by rw [← hst]; exact hxj
    have hC : xj ≠ C := by rw [hxj']; exact hnoC j.toNat (by omega)
    rw [if_neg hC]
    by_cases hact : xj = active
    · rw [if_pos hact]
      refine Safe.bind (rd_safe y j hj0 (by rw [hy]; omega)) (fun yj _ => ?_)
      split
      · exact Safe.pure hst
      · split
        · exact Safe.pure hst
        · exact Safe.pure hst
    · rw [if_neg hact]; exact Safe.pure hst

/-- when no neighbour is marked `C` and no active neighbour beats node `i`, the scan runs to the end -/
theorem mpScan_noBreak (w : WOps ρ) {n : Nat} {ap aj : Array Int} (hA : WFm (patS n ap aj) n) (y : Array ρ) (hy : y.size = n)
    (active C F : Int) (i : Int) (i0 : 0 ≤ i) (i1 : i < (n : Int)) (x : Array Int) (hx : x.size = n)
    (hnoC : ∀ k, k < n → x.getD k 0 ≠ C)
    (hmax : ∀ k, k < n → x.getD k 0 = active → ¬ Beats w y k i.toNat) :
    Safe (mpScan w aj y active C F i (y.getD i.toNat default) (ap.getD i.toNat 0) (ap.getD (i.toNat + 1) 0) x)
      (fun st => st.1 = x ∧ st.2 = false) := by
  obtain ⟨_, _, hrow⟩ := row_facts hA i i0 i1
  unfold mpScan
  apply forRange_safe (fun st : Array Int × Bool => st.1 = x ∧ st.2 = false) _ _ _ _ ⟨rfl, rfl⟩
  intro jj j1 j2 st hst
  rw [if_neg (by rw [hst.2]; exact Bool.false_ne_true)]
  refine Safe.bind (hrow jj j1 j2) (fun j hj => ?_)
  obtain ⟨_, hj0, hj1⟩ := hj
  refine Safe.bind (rd_safe st.1 j hj0 (by rw [hst.1, hx]; omega)) (fun xj hxj => ?_)
  have hxj' : xj = x.getD j.toNat 0 := by rw [← hst.1]; exact hxj
  have hC : xj ≠ C := by rw [hxj']; exact hnoC j.toNat (by omega)
  rw [if_neg hC]
  by_cases hact : xj = active
  · rw [if_pos hact]
    refine Safe.bind (rd_safe y j hj0 (by rw [hy]; omega)) (fun yj hyj => ?_)
    have hnb := hmax j.toNat (by omega) (by rw [← hxj']; exact hact)
    have hyj' : yj = y.getD j.toNat default := hyj
    have hg : ¬ (w.gt yj (y.getD i.toNat default) = true) := fun h => hnb (Or.inl (by rw [← hyj']; exact h))
    rw [if_neg hg]
    have he : ¬ (w.eq yj (y.getD i.toNat default) = true ∧ j > i) := by
      rintro ⟨h, hji⟩
      exact hnb (Or.inr ⟨by rw [← hyj']; exact h, by omega⟩)
    rw [if_neg he]
    exact Safe.pure hst
  · rw [if_neg hact]; exact Safe.pure hst

/-! ### one row, with the bookkeeping termination needs -/

/-- the marks of a colouring round: `active, F < 0 ≤ C` -/
structure Marks (active C F : Int) : Prop where
  a : active < 0
  f : F < 0
  c : 0 ≤ C

/-- bookkeeping of a pass relative to the vector `x0` it started from (with `N = 0`) -/
def CInv (n : Nat) (active C F : Int) (x0 : Array Int) (st : MPP) : Prop :=
  st.1.size = n ∧ 0 ≤ st.2.1 ∧ (cntNeg n x0 : Int) ≤ st.2.1 + (cntNeg n st.1 : Int) ∧
  ((∀ k, k < n → x0.getD k 0 ≠ C) → st.2.1 = 0 → st.1 = x0)

theorem mpRow_count (w : WOps ρ) {n : Nat} {ap aj : Array Int} (hA : WFm (patS n ap aj) n) (y : Array ρ) (hy : y.size = n)
    {active C F : Int} (hm : Marks active C F) (x0 : Array Int) (i : Int) (i0 : 0 ≤ i) (i1 : i < (n : Int)) (st : MPP)
    (hst : CInv n active C F x0 st) :
    Safe (mpRow w ap aj y active C F i st) (fun st' => CInv n active C F x0 st' ∧ st.2.1 ≤ st'.2.1) := by
  obtain ⟨h1, h2, h3, h4⟩ := hst
  have his : i.toNat < st.1.size := by rw [h1]; omega
  unfold mpRow
  refine Safe.bind (rd_safe y i i0 (by rw [hy]; omega)) (fun yi _ => ?_)
  refine Safe.bind (rd_safe st.1 i i0 his) (fun xi hxi => ?_)
  have hxi' : xi = st.1.getD i.toNat 0 := hxi
  by_cases hact : xi ≠ active
  · rw [if_pos hact]; exact Safe.pure ⟨⟨h1, h2, h3, h4⟩, Int.le_refl _⟩
  · rw [if_neg hact]
    have hxa : st.1.getD i.toNat 0 = active := by rw [← hxi']; exact Classical.not_not.mp hact
    obtain ⟨q1, q2, _⟩ := row_facts hA i i0 i1
    refine Safe.bind q1 (fun s hs => ?_)
    refine Safe.bind q2 (fun e he => ?_)
    subst hs; subst he
    -- the scan, with both descriptions of its result
    have hsc := mpScan_safe w hA y hy active C F i i0 i1 yi st.1 h1 hxa
    have hsc2 : (∀ k, k < n → st.1.getD k 0 ≠ C) →
        (mpScan w aj y active C F i yi (ap.getD i.toNat 0) (ap.getD (i.toNat + 1) 0) st.1).val.1 = st.1 :=
      fun hno => (mpScan_noC w hA y hy active C F i i0 i1 yi st.1 h1 hno).2
    refine Safe.bind (Safe.and_val hsc) (fun r hr => ?_)
    obtain ⟨⟨hu1, hend⟩, hrv⟩ := hr
    have hr1 : r.1.size = n := by rw [hu1.1, h1]
    by_cases hb : r.2 = true
    · rw [if_pos hb]
      refine Safe.pure ⟨⟨hr1, h2, ?_, fun hno hz => ?_⟩, Int.le_refl _⟩
      · show (cntNeg n x0 : Int) ≤ st.2.1 + (cntNeg n r.1 : Int)
        rw [cntNeg_upd hm.a hm.f hu1]; exact h3
      · show r.1 = x0
        have hx := h4 hno hz
        rw [hrv]
        rw [hsc2 (by rw [hx]; exact hno)]
        exact hx
    · rw [if_neg hb]
      have hb' : r.2 = false := by
        cases hh : r.2 with
        | true => exact absurd hh hb
        | false => rfl
      obtain ⟨hrx, _⟩ := hend hb'
      refine Safe.bind (markRow_safe hA active F i i0 i1 r.1 hr1) (fun x2 hx2 => ?_)
      obtain ⟨hu2, _⟩ := hx2
      rw [hrx] at hu2
      have hx2s : x2.size = n := by rw [hu2.1, h1]
      refine Safe.bind (wr_val x2 i C i0 (by rw [hx2s]; omega)) (fun x3 hx3 => ?_)
      have hc1 : cntNeg n x2 = cntNeg n st.1 := cntNeg_upd hm.a hm.f hu2
      have hc2 : cntNeg n x2 ≤ cntNeg n x3 + 1 := by
        have := nzc_set_ge nonneg x2 i.toNat C n
        rw [hx3]; exact this
      refine Safe.pure ⟨⟨by show x3.size = n; rw [hx3]; simp [hx2s], by show 0 ≤ st.2.1 + 1; omega, ?_, fun _ hz => ?_⟩,
        by show st.2.1 ≤ st.2.1 + 1; omega⟩
      · show (cntNeg n x0 : Int) ≤ st.2.1 + 1 + (cntNeg n x3 : Int)
        omega
      · exfalso
        have : st.2.1 + 1 = 0 := hz
        omega

/-- the row of the maximal active node, visited while the vector is still the one the pass started from: the node is marked `C` -/
theorem mpRow_progress (w : WOps ρ) {n : Nat} {ap aj : Array Int} (hA : WFm (patS n ap aj) n) (y : Array ρ) (hy : y.size = n)
    (active C F : Int) (i : Int) (i0 : 0 ≤ i) (i1 : i < (n : Int)) (st : MPP) (h1 : st.1.size = n)
    (hxa : st.1.getD i.toNat 0 = active) (hnoC : ∀ k, k < n → st.1.getD k 0 ≠ C)
    (hmax : ∀ k, k < n → st.1.getD k 0 = active → ¬ Beats w y k i.toNat) :
    Safe (mpRow w ap aj y active C F i st) (fun st' => st'.2.1 = st.2.1 + 1) := by
  unfold mpRow
  refine Safe.bind (rd_safe y i i0 (by rw [hy]; omega)) (fun yi hyi => ?_)
  refine Safe.bind (rd_safe st.1 i i0 (by rw [h1]; omega)) (fun xi hxi => ?_)
  have hxi' : xi = st.1.getD i.toNat 0 := hxi
  have hact : ¬ xi ≠ active := by rw [hxi', hxa]; exact fun h => h rfl
  rw [if_neg hact]
  obtain ⟨q1, q2, _⟩ := row_facts hA i i0 i1
  refine Safe.bind q1 (fun s hs => ?_)
  refine Safe.bind q2 (fun e he => ?_)
  subst hs; subst he; subst hyi
  refine Safe.bind (mpScan_noBreak w hA y hy active C F i i0 i1 st.1 h1 hnoC hmax) (fun r hr => ?_)
  rw [if_neg (by rw [hr.2]; exact Bool.false_ne_true)]
  refine Safe.bind (markRow_safe hA active F i i0 i1 r.1 (by rw [hr.1]; exact h1)) (fun x2 hx2 => ?_)
  have hx2s : x2.size = n := by rw [hx2.1.1, hr.1, h1]
  refine Safe.bind (wr_safe x2 i C i0 (by rw [hx2s]; omega)) (fun x3 _ => ?_)
  exact Safe.pure rfl

/-! ### one pass from a vector without entries `C` marks a node -/

/-- **progress of a pass**: from a vector with an `active` node and no entry `C`, with `N = 0`: afterwards `N ≥ 1`, and the number of
negative entries dropped by at most `N` -/
theorem mpPass_progress (w : WOps ρ) (hw : WOrd w) {n : Nat} {ap aj : Array Int} (hA : WFm (patS n ap aj) n) (y : Array ρ)
    (hy : y.size = n) {active C F : Int} (hm : Marks active C F) (x0 : Array Int) (hx0 : x0.size = n)
    (hnoC : ∀ k, k < n → x0.getD k 0 ≠ C) (hex : ∃ k, k < n ∧ x0.getD k 0 = active) (flag : Bool) :
    Safe (forRange 0 (n : Int) ((x0, 0, flag) : MPP) (mpRow w ap aj y active C F))
      (fun r => 1 ≤ r.2.1 ∧ (cntNeg n x0 : Int) ≤ r.2.1 + (cntNeg n r.1 : Int)) := by
  obtain ⟨is, his, hPs, hmaxs⟩ := exists_maximal (Beats w y) (beats_irrefl hw y) (beats_trans hw y)
    (fun k => x0.getD k 0 = active) n hex
  refine Safe.mono (forRange_safe_idx
    (fun (i : Int) (st : MPP) => CInv n active C F x0 st ∧ (st.2.1 = 0 → i ≤ (is : Int)))
    0 (n : Int) (by omega) _ _ ⟨⟨hx0, Int.le_refl 0, by show (cntNeg n x0 : Int) ≤ 0 + (cntNeg n x0 : Int); omega, fun _ _ => rfl⟩, fun _ => by omega⟩ ?_)
    (fun r h => ?_)
  · intro i i0 i1 st hst
    obtain ⟨hc, hle⟩ := hst
    have hrow := mpRow_count w hA y hy hm x0 i i0 i1 st hc
    refine Safe.mono (Safe.and_val hrow) (fun st' h => ?_)
    obtain ⟨⟨hc', hmono⟩, hval⟩ := h
    refine ⟨hc', fun hz => ?_⟩
    have hz0 : st.2.1 = 0 := by have := hc.2.1; omega
    have hxeq : st.1 = x0 := hc.2.2.2 hnoC hz0
    have hi := hle hz0
    by_cases hiis : i = (is : Int)
    · -- the row of the maximal node: `N` grows
      exfalso
      have hp := mpRow_progress w hA y hy active C F i i0 i1 st hc.1
        (by rw [hxeq, hiis]; simpa using hPs) (by rw [hxeq]; exact hnoC)
        (fun k hk hka => by rw [hiis]; simpa using hmaxs k hk (by rw [← hxeq]; exact hka))
      rw [hval, hp.2] at hz
      omega
    · omega
  · obtain ⟨hc, hle⟩ := h
    refine ⟨?_, hc.2.2.1⟩
    by_cases hh : 1 ≤ r.2.1
    · exact hh
    · exfalso
      have hz : r.2.1 = 0 := by have := hc.2.1; omega
      have := hle hz
      omega

/-- the count part alone (no assumption on the weights) -/
theorem mpPass_count (w : WOps ρ) {n : Nat} {ap aj : Array Int} (hA : WFm (patS n ap aj) n) (y : Array ρ) (hy : y.size = n)
    {active C F : Int} (hm : Marks active C F) (x0 : Array Int) (hx0 : x0.size = n) (flag : Bool) :
    Safe (forRange 0 (n : Int) ((x0, 0, flag) : MPP) (mpRow w ap aj y active C F))
      (fun r => 0 ≤ r.2.1 ∧ (cntNeg n x0 : Int) ≤ r.2.1 + (cntNeg n r.1 : Int)) := by
  refine Safe.mono (forRange_safe (CInv n active C F x0) 0 (n : Int) _ _
    ⟨hx0, Int.le_refl 0, by show (cntNeg n x0 : Int) ≤ 0 + (cntNeg n x0 : Int); omega, fun _ _ => rfl⟩
    (fun i i0 i1 st hst => Safe.mono (mpRow_count w hA y hy hm x0 i i0 i1 st hst) (fun _ h => h.1))) (fun r h => ⟨h.2.1, h.2.2.1⟩)

/-- the call with `max_iters = 1` is exactly one pass -/
theorem misParallel_one (w : WOps ρ) (n : Nat) (ap aj : Array Int) (active C F : Int) (x : Array Int) (y : Array ρ) :
    misParallel w n ap aj active C F x y 1 1 =
      some ((pure ((x, 0, 0, true) : MP) >>= mpPass w n ap aj y active C F) >>= fun st => pure (st.1, st.2.1)) := by
  unfold misParallel mpWhile
  rw [if_pos ⟨rfl, Or.inr (by show (0 : Int) < 1; omega)⟩]
  unfold mpWhile
  have : ¬ ((pure ((x, 0, 0, true) : MP) >>= mpPass w n ap aj y active C F).val.2.2.2 = true ∧
      ((1 : Int) = -1 ∨ (pure ((x, 0, 0, true) : MP) >>= mpPass w n ap aj y active C F).val.2.2.1 < 1)) := by
    rintro ⟨_, h | h⟩
    · omega
    · have e : (pure ((x, 0, 0, true) : MP) >>= mpPass w n ap aj y active C F).val.2.2.1 = 0 + 1 := rfl
      rw [e] at h
      omega
  rw [if_neg this]
  rfl

/-- what the call of a colouring round delivers: the facts used for safety, the count, and progress -/
def RoundE (w : WOps ρ) (n : Nat) (K : Int) (x : Array Int) (out : Array Int × Int) : Prop :=
  0 ≤ out.2 ∧ (cntNeg n x : Int) ≤ out.2 + (cntNeg n out.1 : Int) ∧ (WOrd w → (∃ k, k < n ∧ x.getD k 0 = -1) → 1 ≤ out.2)

theorem misParallel_round (w : WOps ρ) {n : Nat} {ap aj : Array Int} (hA : WFm (patS n ap aj) n) (y : Array ρ) (hy : y.size = n)
    (st : VC) (hst : RInv n st) :
    Safe (orFault (misParallel w n ap aj (-1) st.2.2 (-2) st.1 y 1 1)) (fun out =>
      (out.1.size = n ∧ Upd2 (-1) (-2) st.2.2 st.1 out.1 ∧ Sep n ap aj (-1) st.2.2 out.1) ∧ RoundE w n st.2.2 st.1 out) := by
  obtain ⟨h1, h2, h3⟩ := hst
  have hm : Marks (-1) st.2.2 (-2) := ⟨by omega, by omega, h2⟩
  have hnoC : ∀ k, k < n → st.1.getD k 0 ≠ st.2.2 := by
    intro k hk
    rcases h3 k hk with e | ⟨_, e⟩ <;> omega
  have hsep0 : Sep n ap aj (-1) st.2.2 st.1 := fun k hk hkK => absurd hkK (hnoC k hk)
  -- the part used for safety
  obtain ⟨r, e, hr⟩ := misParallel_bounded w hA (-1) st.2.2 (-2) st.1 h1 y hy 1 (by omega)
  have e1 : (1 : Int).toNat = 1 := rfl
  rw [e1] at e
  rw [e]
  show Safe r _
  have hval := misParallel_one w n ap aj (-1) st.2.2 (-2) st.1 y
  rw [e] at hval
  have hrv : r = ((pure ((st.1, 0, 0, true) : MP) >>= mpPass w n ap aj y (-1) st.2.2 (-2)) >>= fun s => pure (s.1, s.2.1)) :=
    Option.some.inj hval
  -- the count and progress part, about the same computation
  have hcount : Safe r (fun out => RoundE w n st.2.2 st.1 out) := by
    rw [hrv]
    refine Safe.bind (P := fun s : MP => RoundE w n st.2.2 st.1 (s.1, s.2.1)) ?_ (fun s hs => Safe.pure hs)
    refine Safe.bind (Safe.pure (P := fun s : MP => s = (st.1, 0, 0, true)) rfl) (fun s hs => ?_)
    subst hs
    unfold mpPass
    by_cases hprog : WOrd w ∧ ∃ k, k < n ∧ st.1.getD k 0 = -1
    · refine Safe.bind (mpPass_progress w hprog.1 hA y hy hm st.1 h1 hnoC hprog.2 false) (fun r0 hr0 => ?_)
      exact Safe.pure ⟨by show 0 ≤ r0.2.1; omega, hr0.2, fun _ _ => hr0.1⟩
    · refine Safe.bind (mpPass_count w hA y hy hm st.1 h1 false) (fun r0 hr0 => ?_)
      exact Safe.pure ⟨hr0.1, hr0.2, fun hw hex => absurd ⟨hw, hex⟩ hprog⟩
  exact ⟨hr.1, ⟨hr.2.1, hr.2.2.1, hr.2.2.2 (by omega) (by omega) hsep0⟩, hcount.2⟩

/-- the state of a colouring between two rounds, with the bookkeeping of `N` -/
def RInvN (n : Nat) (st : VC) : Prop := RInv n st ∧ (n : Int) ≤ st.2.1 + (cntNeg n st.1 : Int)

/-- **one round makes progress**: the invariant is kept, and with order-like weights `N` grows as long as a node is uncoloured -/
theorem parRound_progress (w : WOps ρ) {n : Nat} {ap aj : Array Int} (hA : WFm (patS n ap aj) n) (y : Array ρ) (hy : y.size = n)
    (st : VC) (hst : RInvN n st) :
    Safe (parRound w n ap aj y st) (fun st' => RInvN n st' ∧ (WOrd w → st.2.1 < (n : Int) → st.2.1 + 1 ≤ st'.2.1)) := by
  refine Safe.mono (parRound_gen w hA y hy st hst.1 (RoundE w n st.2.2 st.1) (misParallel_round w hA y hy st hst.1)) (fun st' h => ?_)
  obtain ⟨hR, out, ⟨e0, e1, e2⟩, e3, e4⟩ := h
  have hc : cntNeg n st'.1 = cntNeg n out.1 := nzc_congr nonneg st'.1 out.1 n e4
  refine ⟨⟨hR, by rw [e3, hc]; have := hst.2; omega⟩, fun hw hlt => ?_⟩
  have hpos : 0 < cntNeg n st.1 := by have := hst.2; omega
  obtain ⟨k, hk, hneg⟩ := cntNeg_pos hpos
  have hk1 : st.1.getD k 0 = -1 := by
    rcases hst.1.2.2 k hk with e | ⟨e, _⟩
    · exact e
    · omega
  have := e2 hw ⟨k, hk, hk1⟩
  omega

/-! ### `vertex_coloring_jones_plassmann`, `vertex_coloring_LDF`: the outer loops terminate -/

theorem jpWhile_total (w : WOps ρ) (hw : WOrd w) {n : Nat} {ap aj : Array Int} (hA : WFm (patS n ap aj) n) (z : Array ρ) (hz : z.size = n) :
    ∀ (fuel : Nat) (st : Ck VC), Safe st (RInvN n) → ((n : Int) - st.val.2.1).toNat ≤ fuel →
      ∃ r, jpWhile w n ap aj z fuel st = some r ∧ Safe r (RInvN n) := by
  intro fuel
  induction fuel with
  | zero =>
    intro st hst hf
    have : ¬ st.val.2.1 < (n : Int) := by omega
    exact ⟨st, by unfold jpWhile; rw [if_neg this], hst⟩
  | succ f ih =>
    intro st hst hf
    unfold jpWhile
    by_cases hlt : st.val.2.1 < (n : Int)
    · rw [if_pos hlt]
      have hb := Safe.bind_val hst.1 (parRound_progress w hA z hz st.val hst.2)
      refine ih _ (Safe.mono hb (fun _ h => h.1)) ?_
      have := hb.2.2 hw hlt
      omega
    · rw [if_neg hlt]; exact ⟨st, rfl, hst⟩

theorem cntNeg_all_neg {n : Nat} {x : Array Int} (h : ∀ k, k < n → x.getD k 0 = -1) : cntNeg n x = n := by
  apply nzc_all
  intro k hk
  show nonneg (x.getD k 0) = false
  rw [h k hk]; rfl

/-- **`vertex_coloring_jones_plassmann` terminates**: with order-like weight comparisons (`WOrd`) the outer loop ends within `n`
rounds on any structurally valid pattern, and the whole run is in range -/
theorem vertexColoringJP_total (w : WOps ρ) (hw : WOrd w) {n : Nat} {ap aj : Array Int} (hA : WFm (patS n ap aj) n)
    (x : Array Int) (hx : x.size = n) (z : Array ρ) (hz : z.size = n) :
    ∃ r, vertexColoringJP w n ap aj x z n = some r ∧ Safe r (fun out => out.1.size = n ∧ out.2.1.size = n) := by
  have hpre : Safe (do
      let x ← fillN n (-1) x
      let z ← jpWeights w n ap z
      pure (x, z) : Ck (Array Int × Array ρ)) (fun p => (p.1.size = n ∧ ∀ k, k < n → p.1.getD k 0 = -1) ∧ p.2.size = n) :=
    Safe.bind (fillN_safe n (-1) x hx) (fun x0 hx0 => Safe.bind (jpWeights_safe w hA z hz) (fun z0 hz0 => Safe.pure ⟨hx0, hz0⟩))
  have hex : ∃ r, vertexColoringJP w n ap aj x z n = some r := by
    unfold vertexColoringJP
    simp only
    generalize hp : (do
        let x ← fillN n (-1) x
        let z ← jpWeights w n ap z
        pure (x, z) : Ck (Array Int × Array ρ)) = pre at hpre
    have h0 : Safe (pre >>= fun p => pure ((p.1, 0, 0) : VC)) (RInvN n) :=
      Safe.bind hpre (fun p hp' => Safe.pure ⟨⟨hp'.1.1, Int.le_refl 0, fun k hk => Or.inl (hp'.1.2 k hk)⟩,
        by show (n : Int) ≤ 0 + (cntNeg n p.1 : Int); rw [cntNeg_all_neg hp'.1.2]; omega⟩)
    obtain ⟨r0, e0, _⟩ := jpWhile_total w hw hA pre.val.2 hpre.2.2 n _ h0 (by show ((n : Int) - 0).toNat ≤ n; omega)
    rw [e0]; exact ⟨_, rfl⟩
  obtain ⟨r, e⟩ := hex
  exact ⟨r, e, vertexColoringJP_safe w hA x hx z hz n r e⟩

theorem ldfWhile_total (w : WOps ρ) (hw : WOrd w) {n : Nat} {ap aj : Array Int} (hA : WFm (patS n ap aj) n) (y : Array ρ) (hy : y.size = n) :
    ∀ (fuel : Nat) (st : Ck (LDF ρ)), Safe st (fun s => RInvN n s.1 ∧ s.2.size = n) → ((n : Int) - st.val.1.2.1).toNat ≤ fuel →
      ∃ r, ldfWhile w n ap aj y fuel st = some r ∧ Safe r (fun s => RInvN n s.1 ∧ s.2.size = n) := by
  intro fuel
  induction fuel with
  | zero =>
    intro st hst hf
    have : ¬ st.val.1.2.1 < (n : Int) := by omega
    exact ⟨st, by unfold ldfWhile; rw [if_neg this], hst⟩
  | succ f ih =>
    intro st hst hf
    unfold ldfWhile
    by_cases hlt : st.val.1.2.1 < (n : Int)
    · rw [if_pos hlt]
      have hb : Safe (st >>= ldfRound w n ap aj y)
          (fun s' => (RInvN n s'.1 ∧ s'.2.size = n) ∧ st.val.1.2.1 + 1 ≤ s'.1.2.1) := by
        refine Safe.bind_val hst.1 ?_
        unfold ldfRound
        refine Safe.bind (ldfWeights_safe w hA y hy st.val.1.1 hst.2.1.1.1 st.val.2 hst.2.2) (fun wt hwt => ?_)
        refine Safe.bind (parRound_progress w hA wt hwt st.val.1 hst.2.1) (fun v hv => ?_)
        exact Safe.pure ⟨⟨hv.1, hwt⟩, hv.2 hw hlt⟩
      refine ih _ (Safe.mono hb (fun _ h => h.1)) ?_
      have := hb.2.2
      omega
    · rw [if_neg hlt]; exact ⟨st, rfl, hst⟩

/-- **`vertex_coloring_LDF` terminates** within `n` rounds, in range -/
theorem vertexColoringLDF_total (w : WOps ρ) (hw : WOrd w) {n : Nat} {ap aj : Array Int} (hA : WFm (patS n ap aj) n)
    (x : Array Int) (hx : x.size = n) (y : Array ρ) (hy : y.size = n) :
    ∃ r, vertexColoringLDF w n ap aj x y n = some r ∧ Safe r (fun out => out.1.size = n) := by
  have hex : ∃ r, vertexColoringLDF w n ap aj x y n = some r := by
    unfold vertexColoringLDF
    have h0 : Safe (fillN n (-1) x >>= fun x => pure (((x, 0, 0), Array.replicate n (w.ofInt 0)) : LDF ρ))
        (fun s => RInvN n s.1 ∧ s.2.size = n) :=
      Safe.bind (fillN_safe n (-1) x hx) (fun x0 hx0 =>
        Safe.pure ⟨⟨⟨hx0.1, Int.le_refl 0, fun k hk => Or.inl (hx0.2 k hk)⟩,
          by show (n : Int) ≤ 0 + (cntNeg n x0 : Int); rw [cntNeg_all_neg hx0.2]; omega⟩, by simp⟩)
    obtain ⟨r0, e0, _⟩ := ldfWhile_total w hw hA y hy n _ h0 (by show ((n : Int) - 0).toNat ≤ n; omega)
    rw [e0]; exact ⟨_, rfl⟩
  obtain ⟨r, e⟩ := hex
  exact ⟨r, e, vertexColoringLDF_safe w hA x hx y hy n r e⟩

end PyamgV.C17R4
