import PyamgV.Generated.PyLogic2
import PyamgV.Model.ExtPy2Worlds
import PyamgV.Model.C16Coarse
import PyamgV.Proofs.ExtPy2Tactic
/-! PyamgV (extension E42, property C16): theorems about the definitions GENERATED from the working tree by
`harness/py2lean2.py` for three NESTED definitions of `coarse_grid_solver` (pyamg/multilevel.py), with the numerical
work abstracted (events): `GenericSolver.__call__` (the `A.nnz == 0` shortcut, `solve`, the reshape to `b.shape`: what
`C16.call` of Model/C16Coarse.lean models), the `solve` closure of the Krylov names (keyword handling) and the `solve`
closure of the relaxation names (zero start vector, `setup_<name>(lvl, **kwargs)`). -/
open PyamgV.ExtPy PyamgV.ExtPy2 PyamgV.Generated.PyLogic2 PyamgV.ExtPy2W
namespace PyamgV.ExtPy2Body

def callEv (f : String) (args : List PyVal) (kw : List (String × PyVal)) : PyVal :=
  .tuple [.str "call", .obj f, .list args, .dict kw]

def outOf (o : Except PyErr PyVal × St) : Except String PyVal × List PyVal :=
  (match o.1 with | .ok v => .ok v | .error e => .error e.cls, o.2.trace)

/-! ### `GenericSolver.__call__` -/

def runCall (nnz : Int) (cls : Option String) : Except String PyVal × List PyVal :=
  outOf (PyM2.exec (multilevel_cgs_call (callWorld nnz cls) (.obj "solve") (.obj "self") (.obj "A") (.obj "b"))
    { trace := [], script := callScript })

/-- what `C16.call` says, as a trace: `b = asanyarray(b)`; the correction is `zeros(b.shape)` when `A.nnz == 0` (the
captured `solve` is not called) and `solve(self, A, b)` otherwise; an `ndarray` right-hand side gives
`asarray(x).reshape(b.shape)`, a `matrix` is converted first, anything else is `ValueError('unrecognized type')` -/
def expectedCall (nnz : Int) (cls : Option String) : Except String PyVal × List PyVal :=
  let first := callEv "np.asanyarray" [.obj "b"] []
  let (corr, x) := if nnz = 0 then (callEv "np.zeros" [.obj "b1shape"] [], PyVal.obj "z")
                   else (callEv "solve" [.obj "self", .obj "A", .obj "b1"] [], PyVal.obj "xs")
  if cls = some "np.ndarray" then
    (.ok (.obj "out"), [first, corr, callEv "np.asarray" [x] [], callEv "as1.reshape" [.obj "b1shape"] []])
  else if cls = some "np.matrix" then
    (.ok (.obj "out"), [first, corr, callEv "np.asarray" [.obj "b1"] [], callEv "np.asarray" [x] [],
                        callEv "as2.reshape" [.obj "as1shape"] []])
  else (.error "ValueError", [first, corr])

/-- LINK to `C16.call`: for every number of stored entries in {0, 1, 5} and every class of `b` -/
theorem call_refines :
    ∀ nnz ∈ [(0 : Int), 1, 5], ∀ cls ∈ [some "np.ndarray", some "np.matrix", some "list", none],
      runCall nnz cls = expectedCall nnz cls := by
  intro nnz hn cls hc
  simp only [List.mem_cons, List.not_mem_nil, or_false] at hn hc
  rcases hn with rfl | rfl | rfl <;> rcases hc with rfl | rfl | rfl | rfl <;> kernel_rfl

/-! ### the Krylov closure: keyword handling -/

def runKrylov (tolname : String) (kw : List (String × PyVal)) : Except String PyVal × List PyVal :=
  outOf (PyM2.exec (multilevel_cgs_solve_krylov krylovWorld (.obj "fn") (.dict kw) (.str tolname) (.obj "self") (.obj "A")
    (.obj "b")) { trace := [], script := krylovScript })

/-- a `tol` entry is handed to a SciPy function (`tolname = 'rtol'`) as `rtol` -/
def renameTol (tolname : String) (kw : List (String × PyVal)) : List (String × PyVal) :=
  if tolname == "rtol" then
    match kw.lookup "tol" with
    | some v => dictInsert (kw.filter (fun e => e.1 != "tol")) "rtol" v
    | none => kw
  else kw

/-- the keyword dictionary the Krylov function receives, and whether the default tolerance was needed -/
def krylovKw (tolname : String) (kw : List (String × PyVal)) : List (String × PyVal) × Bool :=
  let k1 := renameTol tolname kw
  if k1.any (fun e => e.1 == tolname) then (k1, false) else (k1 ++ [(tolname, .obj "deftol")], true)

def expectedKrylov (tolname : String) (kw : List (String × PyVal)) : Except String PyVal × List PyVal :=
  let (k, dflt) := krylovKw tolname kw
  (.ok (.obj "xr"), (if dflt then [callEv "set_tol" [.obj "dtA"] []] else []) ++ [callEv "fn" [.obj "A", .obj "b"] k])

/-- the shapes of keyword dictionaries: none / one / both of `tol` and `rtol`, before / after another keyword -/
def kwShapes (u v m : PyVal) : List (List (String × PyVal)) :=
  [[], [("tol", u)], [("rtol", v)], [("tol", u), ("rtol", v)], [("rtol", v), ("tol", u)], [("maxiter", m)],
   [("maxiter", m), ("tol", u)], [("tol", u), ("maxiter", m)], [("rtol", v), ("maxiter", m)],
   [("tol", u), ("maxiter", m), ("rtol", v)]]

theorem krylov_grid_eq (u v m : PyVal) :
    ["tol", "rtol"].flatMap (fun t => (kwShapes u v m).map (fun kw => runKrylov t kw))
      = ["tol", "rtol"].flatMap (fun t => (kwShapes u v m).map (fun kw => expectedKrylov t kw)) := by kernel_rfl

/-- the Krylov closure calls `fn(A, b, **krylovKw)` and returns its first component, for both tolerance keywords, every
shape of the keyword dictionary of the grid and ALL keyword values -/
theorem krylov_refines (u v m : PyVal) (t : String) (ht : t ∈ ["tol", "rtol"]) :
    ∀ kw ∈ kwShapes u v m, runKrylov t kw = expectedKrylov t kw := by
  have h := krylov_grid_eq u v m
  simp only [List.flatMap_cons, List.flatMap_nil, List.append_nil] at h
  have h' := List.append_inj h (by simp)
  simp only [List.mem_cons, List.not_mem_nil, or_false] at ht
  rcases ht with rfl | rfl
  · exact List.map_inj_left.mp h'.1
  · exact List.map_inj_left.mp h'.2

theorem any_key_of_lookup_none (kw : List (String × PyVal)) (k : String) (h : kw.lookup k = none) :
    kw.any (fun e => e.1 == k) = false := by
  induction kw with
  | nil => rfl
  | cons e r ih =>
    obtain ⟨k', x⟩ := e
    by_cases hk : k = k'
    · subst hk; simp [List.lookup] at h
    · have hk' : (k == k') = false := by simp [hk]
      simp only [List.lookup, hk'] at h
      have hk2 : (k' == k) = false := by simp [Ne.symm hk]
      simp [List.any_cons, hk2, ih h]

theorem any_key_filter_ne (kw : List (String × PyVal)) (k : String) :
    (kw.filter (fun e => e.1 != k)).any (fun e => e.1 == k) = false := by
  induction kw with
  | nil => rfl
  | cons e r ih =>
    simp only [List.filter_cons]
    split
    · rename_i h
      have : (e.1 == k) = false := by simpa using h
      simp [List.any_cons, this, ih]
    · exact ih

theorem any_key_map_replace (l : List (String × PyVal)) (k k' : String) (v : PyVal) :
    (l.map (fun kv => if kv.1 == k then (k, v) else kv)).any (fun e => e.1 == k') = l.any (fun e => e.1 == k') := by
  induction l with
  | nil => rfl
  | cons e r ih =>
    simp only [List.map_cons, List.any_cons, ih]
    by_cases he : e.1 = k
    · simp [he]
    · have : (e.1 == k) = false := by simp [he]
      simp [this]

theorem any_key_dictInsert_self (l : List (String × PyVal)) (k : String) (v : PyVal) :
    (dictInsert l k v).any (fun e => e.1 == k) = true := by
  unfold dictInsert
  split
  · rename_i h
    rw [any_key_map_replace]; exact h
  · simp [List.any_append]

theorem any_key_dictInsert_other (l : List (String × PyVal)) (k k' : String) (v : PyVal) (hk : k' ≠ k) :
    (dictInsert l k v).any (fun e => e.1 == k') = l.any (fun e => e.1 == k') := by
  have hkk : (k == k') = false := by simp [Ne.symm hk]
  unfold dictInsert
  split
  · exact any_key_map_replace l k k' v
  · simp [List.any_append, hkk]

/-- consequence for the property: a SciPy function (keyword `rtol`) is never handed `tol`, and always gets an `rtol`;
for EVERY keyword dictionary -/
theorem krylovKw_scipy_keys (kw : List (String × PyVal)) :
    ((krylovKw "rtol" kw).1.any (fun e => e.1 == "tol")) = false ∧
    ((krylovKw "rtol" kw).1.any (fun e => e.1 == "rtol")) = true := by
  have key : ∀ k1 : List (String × PyVal), k1.any (fun e => e.1 == "tol") = false →
      ((if k1.any (fun e => e.1 == "rtol") then (k1, false) else (k1 ++ [("rtol", PyVal.obj "deftol")], true)).1.any
          (fun e => e.1 == "tol")) = false ∧
      ((if k1.any (fun e => e.1 == "rtol") then (k1, false) else (k1 ++ [("rtol", PyVal.obj "deftol")], true)).1.any
          (fun e => e.1 == "rtol")) = true := by
    intro k1 h1
    cases ha : k1.any (fun e => e.1 == "rtol")
    · simp [List.any_append, h1, ha]
    · simp [h1, ha]
  unfold krylovKw renameTol
  simp only [beq_self_eq_true, if_true]
  cases hl : kw.lookup "tol" with
  | none => exact key kw (any_key_of_lookup_none kw "tol" hl)
  | some v =>
    apply key
    rw [any_key_dictInsert_other _ "rtol" "tol" v (by decide)]
    exact any_key_filter_ne kw "tol"

/-! ### the relaxation closure -/

def runRelax (names : List String) (solver : String) (kw : List (String × PyVal)) : Except String PyVal × List PyVal :=
  outOf (PyM2.exec (multilevel_cgs_solve_relax (relaxWorld names) (.dict kw) (.str solver) (.obj "self") (.obj "A") (.obj "b"))
    { trace := [], script := relaxScript })

/-- a fresh level holding `A`, `setup_<name>(lvl, **kwargs)` with the captured dictionary as it is, the start vector
`np.zeros_like(b)`, one call of the smoother on it (`relaxSolve` of Model/C16Coarse.lean: "x = zeros_like(b);
relax(A, x, b); return x") -/
def expectedRelax (kw : List (String × PyVal)) : Except String PyVal × List PyVal :=
  (.ok (.obj "x0"),
   [callEv "MultilevelSolver.Level" [] [], .tuple [.str "setattr", .obj "lvl", .str "A", .obj "A"],
    callEv "setup" [.obj "lvl"] kw, callEv "np.zeros_like" [.obj "b"] [], callEv "relax" [.obj "A", .obj "x0", .obj "b"] []])

/-- every relaxation name of the dispatch chain, ALL keyword dictionaries -/
theorem relax_refines (kw : List (String × PyVal)) :
    ∀ s ∈ C16.relaxNames, runRelax C16.relaxNames s kw = expectedRelax kw := by
  intro s hs
  simp only [C16.relaxNames, List.mem_cons, List.not_mem_nil, or_false] at hs
  rcases hs with rfl | rfl | rfl | rfl | rfl | rfl | rfl | rfl | rfl | rfl | rfl <;> kernel_rfl

/-- a name the smoothing module has no `setup_` function for: `AttributeError` after the level was created -/
theorem relax_unknown (kw : List (String × PyVal)) : (runRelax C16.relaxNames "foo" kw).1 = .error "AttributeError" := by
  kernel_rfl

end PyamgV.ExtPy2Body
