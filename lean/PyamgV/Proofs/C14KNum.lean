import PyamgV.Proofs.C14Out

/-! PyamgV (C14): the array-level kernel models of `Model/KNum.lean` (`N.classicalAbs`,
`N.classicalMin`: output cursor, `Sp/Sj/Sx` pushes — driver ops `soc_abs`, `soc_min`) compute exactly
the CSR arrays of the row-level model `C14.classical` the theorems are stated about. -/
namespace PyamgV.C14
open PyamgV PyamgV.N

theorem maxOff_rowOf (nrm : Rat → Rat) (tiny : Rat) (A : Csr) (i : Nat) :
    (A.jjs i).foldl (fun m jj => if rdN A.aj jj ≠ i then max m (nrm (rdQ A.ax jj)) else m) tiny
      = maxOff nrm tiny i (rowOf A i) := by
  unfold maxOff rowOf
  rw [List.foldl_map]

/-- the inner loop of the array model pushes exactly `socRow` of the row, in order -/
theorem inner_push (nrm : Rat → Rat) (thr : Rat) (A : Csr) (i : Nat) (jjs : List Nat) (o : Out) :
    jjs.foldl (fun (o : Out) jj =>
      let j := rdN A.aj jj
      let v := rdQ A.ax jj
      let o := if nrm v ≥ thr ∧ j ≠ i then { o with sj := o.sj.push j, sx := o.sx.push v } else o
      if j = i then { o with sj := o.sj.push j, sx := o.sx.push v } else o) o
    = { o with
        sj := o.sj ++ (((jjs.map fun jj => (rdN A.aj jj, rdQ A.ax jj)).filter
                (fun cv => decide (cv.1 = i ∨ nrm cv.2 ≥ thr))).map Prod.fst).toArray,
        sx := o.sx ++ (((jjs.map fun jj => (rdN A.aj jj, rdQ A.ax jj)).filter
                (fun cv => decide (cv.1 = i ∨ nrm cv.2 ≥ thr))).map Prod.snd).toArray } := by
  induction jjs generalizing o with
  | nil => simp
  | cons jj t ih =>
    simp only [List.foldl_cons, List.map_cons]
    rw [ih]
    by_cases h1 : rdN A.aj jj = i
    · by_cases h2 : nrm (rdQ A.ax jj) ≥ thr
      · simp only [h1, h2, ne_eq, not_true_eq_false, and_false, if_false, if_true, true_or, decide_true,
          List.filter_cons_of_pos, List.map_cons]
        congr 1 <;> apply Array.ext' <;> simp
      · simp only [h1, h2, ne_eq, not_true_eq_false, and_false, if_false, if_true, true_or, decide_true,
          List.filter_cons_of_pos, List.map_cons]
        congr 1 <;> apply Array.ext' <;> simp
    · by_cases h2 : nrm (rdQ A.ax jj) ≥ thr
      · simp only [h1, h2, ne_eq, not_false_eq_true, and_self, if_true, if_false, or_true, decide_true,
          List.filter_cons_of_pos, List.map_cons]
        congr 1 <;> apply Array.ext' <;> simp
      · have : decide (rdN A.aj jj = i ∨ nrm (rdQ A.ax jj) ≥ thr) = false := by simp [h1, h2]
        simp only [h1, h2, ne_eq, not_false_eq_true, and_true, if_false, false_and]
        rw [List.filter_cons_of_neg (by simp [h1, h2])]

end PyamgV.C14

namespace PyamgV.C14
open PyamgV PyamgV.N

/-- one outer iteration of the array model (`nrm`, start value `tiny` as parameters) -/
def kstep (nrm : Rat → Rat) (tiny θ : Rat) (A : Csr) (o : Out) (i : Nat) : Out :=
  let mx := (A.jjs i).foldl (fun m jj => if rdN A.aj jj ≠ i then max m (nrm (rdQ A.ax jj)) else m) tiny
  let thr := θ * mx
  let o := (A.jjs i).foldl (fun (o : Out) jj =>
    let j := rdN A.aj jj
    let v := rdQ A.ax jj
    let o := if nrm v ≥ thr ∧ j ≠ i then { o with sj := o.sj.push j, sx := o.sx.push v } else o
    if j = i then { o with sj := o.sj.push j, sx := o.sx.push v } else o) o
  { o with sp := o.sp.push o.sj.size }

theorem kstep_eq (nrm : Rat → Rat) (tiny θ : Rat) (A : Csr) (o : Out) (i : Nat) :
    kstep nrm tiny θ A o i =
      { sp := o.sp.push (o.sj.size + (socRow nrm tiny θ i (rowOf A i)).length),
        sj := o.sj ++ ((socRow nrm tiny θ i (rowOf A i)).map Prod.fst).toArray,
        sx := o.sx ++ ((socRow nrm tiny θ i (rowOf A i)).map Prod.snd).toArray } := by
  unfold kstep
  simp only
  rw [inner_push, maxOff_rowOf, socRow_eq_filter]
  simp [rowOf]

theorem kfold (nrm : Rat → Rat) (tiny θ : Rat) (A : Csr) (is : List Nat) (o : Out) :
    is.foldl (kstep nrm tiny θ A) o =
      { sp := o.sp ++ (ptrs o.sj.size (is.map fun i => socRow nrm tiny θ i (rowOf A i))).toArray,
        sj := o.sj ++ (((is.map fun i => socRow nrm tiny θ i (rowOf A i)).flatten).map Prod.fst).toArray,
        sx := o.sx ++ (((is.map fun i => socRow nrm tiny θ i (rowOf A i)).flatten).map Prod.snd).toArray } := by
  induction is generalizing o with
  | nil => simp [ptrs]
  | cons i t ih =>
    simp only [List.foldl_cons, List.map_cons]
    rw [ih, kstep_eq]
    simp only [ptrs, Out.mk.injEq]
    refine ⟨?_, ?_, ?_⟩ <;> apply Array.ext' <;> simp

theorem mapRows_range {β : Type} (f : Nat → Row → RowOf β) (g : Nat → Row) (n : Nat) :
    mapRows f ((List.range n).map g) = (List.range n).map fun i => f i (g i) := by
  apply List.ext_getElem?
  intro i
  rw [mapRows_getElem?]
  simp only [List.getElem?_map]
  by_cases h : i < n
  · simp [List.getElem?_range h]
  · have : (List.range n)[i]? = none := by simp; omega
    simp [this]

/-- **the array model is the row model**: `N.classicalAbs` (op `soc_abs`) returns the CSR arrays of
`classical |·| tiny θ` -/
theorem knum_classicalAbs (tiny θ : Rat) (A : Csr) :
    (N.classicalAbs tiny θ A).sp = (rowsToOut (classical absQ tiny θ (rowsOf A))).1 ∧
    (N.classicalAbs tiny θ A).sj = (rowsToOut (classical absQ tiny θ (rowsOf A))).2.1 ∧
    (N.classicalAbs tiny θ A).sx = (rowsToOut (classical absQ tiny θ (rowsOf A))).2.2 := by
  have h : N.classicalAbs tiny θ A = (List.range A.n).foldl (kstep absQ tiny θ A) {} := rfl
  rw [h, kfold, rowsToOut_spec]
  unfold classical rowsOf
  rw [mapRows_range]
  refine ⟨?_, ?_, ?_⟩ <;> apply Array.ext' <;> simp

/-- likewise `N.classicalMin` (op `soc_min`) and `classical (x ↦ -x) 0 θ` -/
theorem knum_classicalMin (θ : Rat) (A : Csr) :
    (N.classicalMin θ A).sp = (rowsToOut (classical negQ 0 θ (rowsOf A))).1 ∧
    (N.classicalMin θ A).sj = (rowsToOut (classical negQ 0 θ (rowsOf A))).2.1 ∧
    (N.classicalMin θ A).sx = (rowsToOut (classical negQ 0 θ (rowsOf A))).2.2 := by
  have h : N.classicalMin θ A = (List.range A.n).foldl (kstep negQ 0 θ A) {} := rfl
  rw [h, kfold, rowsToOut_spec]
  unfold classical rowsOf
  rw [mapRows_range]
  refine ⟨?_, ?_, ?_⟩ <;> apply Array.ext' <;> simp

end PyamgV.C14

namespace PyamgV.C14
open PyamgV PyamgV.N

theorem sym_inner_push (d : Nat → Rat) (θ : Rat) (A : Csr) (i : Nat) (jjs : List Nat) (o : Out) :
    jjs.foldl (fun (o : Out) jj =>
      let j := rdN A.aj jj
      let v := rdQ A.ax jj
      if i = j then { o with sj := o.sj.push j, sx := o.sx.push v }
      else if v * v ≥ θ * θ * d i * d j then { o with sj := o.sj.push j, sx := o.sx.push v }
      else o) o
    = { o with
        sj := o.sj ++ (((jjs.map fun jj => (rdN A.aj jj, rdQ A.ax jj)).filter
                (fun cv => decide (i = cv.1 ∨ cv.2 * cv.2 ≥ θ * θ * d i * d cv.1))).map Prod.fst).toArray,
        sx := o.sx ++ (((jjs.map fun jj => (rdN A.aj jj, rdQ A.ax jj)).filter
                (fun cv => decide (i = cv.1 ∨ cv.2 * cv.2 ≥ θ * θ * d i * d cv.1))).map Prod.snd).toArray } := by
  induction jjs generalizing o with
  | nil => simp
  | cons jj t ih =>
    simp only [List.foldl_cons, List.map_cons]
    rw [ih]
    by_cases h1 : i = rdN A.aj jj
    · rw [List.filter_cons_of_pos (by simp [← h1])]
      simp only [← h1, if_true, List.map_cons]
      congr 1 <;> apply Array.ext' <;> simp
    · by_cases h2 : rdQ A.ax jj * rdQ A.ax jj ≥ θ * θ * d i * d (rdN A.aj jj)
      · rw [List.filter_cons_of_pos (by simp [h2])]
        simp only [h1, h2, if_true, if_false, List.map_cons]
        congr 1 <;> apply Array.ext' <;> simp
      · rw [List.filter_cons_of_neg (by simp [h1, h2])]
        simp only [h1, h2, if_false]

/-- one outer iteration of `N.symmetricSoc` with the diagonal norms as a function -/
def sstep (d : Nat → Rat) (θ : Rat) (A : Csr) (o : Out) (i : Nat) : Out :=
  let o := (A.jjs i).foldl (fun (o : Out) jj =>
    let j := rdN A.aj jj
    let v := rdQ A.ax jj
    if i = j then { o with sj := o.sj.push j, sx := o.sx.push v }
    else if v * v ≥ θ * θ * d i * d j then { o with sj := o.sj.push j, sx := o.sx.push v }
    else o) o
  { o with sp := o.sp.push o.sj.size }

theorem sstep_eq (d : Nat → Rat) (θ : Rat) (A : Csr) (o : Out) (i : Nat) :
    sstep d θ A o i =
      { sp := o.sp.push (o.sj.size + (symRow (fun v : Rat => v * v) θ d i (rowOf A i)).length),
        sj := o.sj ++ ((symRow (fun v : Rat => v * v) θ d i (rowOf A i)).map Prod.fst).toArray,
        sx := o.sx ++ ((symRow (fun v : Rat => v * v) θ d i (rowOf A i)).map Prod.snd).toArray } := by
  unfold sstep
  simp only
  rw [sym_inner_push, symRow_eq_filter]
  simp [rowOf]

theorem sfold (d : Nat → Rat) (θ : Rat) (A : Csr) (is : List Nat) (o : Out) :
    is.foldl (sstep d θ A) o =
      { sp := o.sp ++ (ptrs o.sj.size (is.map fun i => symRow (fun v : Rat => v * v) θ d i (rowOf A i))).toArray,
        sj := o.sj ++ (((is.map fun i => symRow (fun v : Rat => v * v) θ d i (rowOf A i)).flatten).map Prod.fst).toArray,
        sx := o.sx ++ (((is.map fun i => symRow (fun v : Rat => v * v) θ d i (rowOf A i)).flatten).map Prod.snd).toArray } := by
  induction is generalizing o with
  | nil => simp [ptrs]
  | cons i t ih =>
    simp only [List.foldl_cons, List.map_cons]
    rw [ih, sstep_eq]
    simp only [ptrs, Out.mk.injEq]
    refine ⟨?_, ?_, ?_⟩ <;> apply Array.ext' <;> simp

/-- the diagonal norms of the array model, as a function of the row index -/
def kdiag (A : Csr) (j : Nat) : Rat :=
  rdQ ((Array.range A.n).map (fun i =>
    absQ ((A.jjs i).foldl (fun d jj => if rdN A.aj jj = i then d + rdQ A.ax jj else d) 0))) j

theorem kdiag_eq (A : Csr) (j : Nat) :
    kdiag A j = (((rowsOf A)[j]?).map (diagNorm absQ (· + ·) 0 j)).getD 0 := by
  unfold kdiag rowsOf diagNorm rowOf
  by_cases h : j < A.n
  · simp [rdQ, Array.getD_eq_getD_getElem?, h, List.foldl_map]
  · have : (List.range A.n)[j]? = none := by simp; omega
    simp [rdQ, Array.getD_eq_getD_getElem?, h, this]

end PyamgV.C14

namespace PyamgV.C14
open PyamgV PyamgV.N

theorem symmetric_diag_fun (θ : Rat) (A : Csr) :
    symmetric absQ (fun v : Rat => v * v) (· + ·) 0 θ (rowsOf A) =
      mapRows (symRow (fun v : Rat => v * v) θ (kdiag A)) (rowsOf A) := by
  apply List.ext_getElem?
  intro i
  rw [symmetric_row, mapRows_getElem?]
  congr 1
  funext r
  congr 1
  funext j
  exact (kdiag_eq A j).symm

/-- `N.symmetricSoc` (op `soc_sym`) returns the CSR arrays of the row model `symmetric` -/
theorem knum_symmetric (θ : Rat) (A : Csr) :
    (N.symmetricSoc θ A).sp = (rowsToOut (symmetric absQ (fun v : Rat => v * v) (· + ·) 0 θ (rowsOf A))).1 ∧
    (N.symmetricSoc θ A).sj = (rowsToOut (symmetric absQ (fun v : Rat => v * v) (· + ·) 0 θ (rowsOf A))).2.1 ∧
    (N.symmetricSoc θ A).sx = (rowsToOut (symmetric absQ (fun v : Rat => v * v) (· + ·) 0 θ (rowsOf A))).2.2 := by
  have h : N.symmetricSoc θ A = (List.range A.n).foldl (sstep (kdiag A) θ A) {} := rfl
  rw [h, sfold, symmetric_diag_fun, rowsToOut_spec]
  unfold rowsOf
  rw [mapRows_range]
  refine ⟨?_, ?_, ?_⟩ <;> apply Array.ext' <;> simp

end PyamgV.C14
