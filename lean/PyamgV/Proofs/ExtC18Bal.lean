import PyamgV.Model.ExtC18Bal
import PyamgV.Proofs.BellmanFord
import Mathlib.Algebra.Order.Field.Rat
import Mathlib.Algebra.BigOperators.Group.Finset.Basic
import Mathlib.Algebra.Order.BigOperators.Group.Finset
import Mathlib.Tactic.Linarith
import Mathlib.Tactic.Ring

/-! PyamgV (C18, extension E20): `bellman_ford_balanced` (graph.h) — the balanced variant keeps the
guarantees of Bellman–Ford.

The statements are about the validated executable model `Model/ExtC18Bal.lean` itself (`Bal.step`,
`Bal.pass`, `Bal.loop`, `Bal.kernel`, `Bal.wrapper`: the definitions run by the driver ops
`ext_c18_bfbal`, `ext_c18_bfbal_w`).

Setting: non-negative weights on a grid `h·ℕ` with `0 < tol`, `2·tol < h` (the kernel compares floats
with the tolerance `tol = 1e-14`; on a grid coarser than the tolerance its two tests are the exact
tests `d[i] + A_ij < d[j]` and `d[i] + A_ij = d[j]` — lemma `grid_cmp`).  For every run of the model
that returns (no out-of-bounds access, no `too many iterations`):
* `d[j]` is the length of a shortest walk from a centre to `j`, `∞` iff no centre reaches `j`;
* `m[j]` is the label of a centre at that distance (a nearest centre);
* every assigned non-centre `j` has a predecessor `p[j]` with a stored entry `(p[j], j, a)`,
  `d[j] = d[p[j]] + a` (the chain is a shortest path) and `m[p[j]] = m[j]` (it stays in the cluster);
* the bookkeeping `pc[v] = #{j : p[j] = v}` is exact.
The invariant `Inv` admits the wrapper's initialisation (`p = -1` at the centres; `initSt_inv`) as
well as the one of `balanced_lloyd_cluster` (`p[c] = c`, `pc[c] = 1`: the centre clause allows both)
and every final state of an earlier call.  With positive weights additionally: the model never makes
an out-of-bounds access (`wrapper_no_fault`) and the predecessor chain of every assigned node ends at
the centre it is assigned to (`chain_to_centre`).  Not proved: termination within `n*n` sweeps. -/
namespace PyamgV.Bal
open PyamgV.BF (Walk)

/-! ### arrays -/

theorem getD_set {α : Type} (a : Array α) (i j : Nat) (v dflt : α) :
    (a.setIfInBounds i v).getD j dflt = if i = j ∧ i < a.size then v else a.getD j dflt := by
  simp only [Array.getD_eq_getD_getElem?, Array.getElem?_setIfInBounds]
  by_cases h : i = j
  · subst h
    by_cases h2 : i < a.size <;> simp [h2]
  · simp [h]

theorem rdI_wrI (a : Array Int) (i j : Nat) (v : Int) :
    rdI (wrI a i v) j = if i = j ∧ i < a.size then v else rdI a j := getD_set a i j v 0

theorem rdO_wrO (a : Array (Option Rat)) (i j : Nat) (v : Option Rat) :
    rdO (wrO a i v) j = if i = j ∧ i < a.size then v else rdO a j := getD_set a i j v none

@[simp] theorem size_wrI (a : Array Int) (i : Nat) (v : Int) : (wrI a i v).size = a.size := by
  simp [wrI]

@[simp] theorem size_wrO (a : Array (Option Rat)) (i : Nat) (v : Option Rat) :
    (wrO a i v).size = a.size := by simp [wrO]

/-! ### predecessor counts -/

/-- `#{j < n : p[j] = v}` -/
def cnt (n : Nat) (p : Array Int) (v : Nat) : Int :=
  ∑ j ∈ Finset.range n, if rdI p j = (v : Int) then 1 else 0

theorem cnt_wr (n : Nat) (p : Array Int) (j : Nat) (i : Int) (hj : j < n) (hjs : j < p.size) (v : Nat) :
    cnt n (wrI p j i) v =
      cnt n p v - (if rdI p j = (v : Int) then 1 else 0) + (if i = (v : Int) then 1 else 0) := by
  unfold cnt
  rw [← Finset.add_sum_erase _ _ (Finset.mem_range.2 hj),
    ← Finset.add_sum_erase (Finset.range n) (fun k => if rdI p k = (v : Int) then (1 : Int) else 0)
      (Finset.mem_range.2 hj)]
  have h1 : ∑ x ∈ (Finset.range n).erase j, (if rdI (wrI p j i) x = (v : Int) then (1 : Int) else 0) =
      ∑ x ∈ (Finset.range n).erase j, (if rdI p x = (v : Int) then (1 : Int) else 0) := by
    apply Finset.sum_congr rfl
    intro x hx
    have hxj : x ≠ j := (Finset.mem_erase.1 hx).1
    have h2 : rdI (wrI p j i) x = rdI p x := by
      rw [rdI_wrI]; exact if_neg (fun hh => hxj hh.1.symm)
    rw [h2]
  have h3 : rdI (wrI p j i) j = i := by
    rw [rdI_wrI]; exact if_pos ⟨rfl, hjs⟩
  rw [h1, h3]
  omega

theorem cnt_zero {n : Nat} {p : Array Int} {v : Nat} (h : cnt n p v = 0) :
    ∀ j, j < n → rdI p j ≠ (v : Int) := by
  intro j hj he
  unfold cnt at h
  have := (Finset.sum_eq_zero_iff_of_nonneg (fun k _ => by split <;> omega)).1 h j (Finset.mem_range.2 hj)
  rw [if_pos he] at this
  omega

theorem cnt_pos {n : Nat} {p : Array Int} {v j : Nat} (hj : j < n) (he : rdI p j = (v : Int)) :
    cnt n p v ≠ 0 := fun h => cnt_zero h j hj he

/-! ### the float tests on a grid coarser than the tolerance -/

theorem absQ_eq (q : Rat) : absQ q = |q| := by
  unfold absQ
  split
  · rw [abs_of_neg (by assumption)]
  · rw [abs_of_nonneg (by linarith)]

theorem grid_cmp {h tol : Rat} (h0 : 0 < tol) (h1 : 2 * tol < h) (z : Int) :
    ((z : Rat) * h > 2 * tol ↔ 0 < z) ∧ (absQ ((z : Rat) * h) < tol ↔ z = 0) := by
  have hh : 0 < h := by linarith
  rcases lt_trichotomy z 0 with hz | hz | hz
  · have : (z : Rat) ≤ -1 := by exact_mod_cast (show z ≤ -1 by omega)
    have h2 : (z : Rat) * h ≤ -h := by nlinarith
    refine ⟨⟨fun h3 => by linarith, fun h3 => by omega⟩, ⟨fun h3 => ?_, fun h3 => by omega⟩⟩
    rw [absQ_eq, abs_of_neg (by linarith)] at h3
    linarith
  · subst hz
    refine ⟨⟨fun h3 => ?_, fun h3 => by omega⟩, ⟨fun _ => rfl, fun _ => ?_⟩⟩
    · simp at h3; linarith
    · simp [absQ_eq]; exact h0
  · have : (1 : Rat) ≤ z := by exact_mod_cast (show 1 ≤ z by omega)
    have h2 : h ≤ (z : Rat) * h := by nlinarith
    refine ⟨⟨fun _ => hz, fun _ => by linarith⟩, ⟨fun h3 => ?_, fun h3 => by omega⟩⟩
    rw [absQ_eq, abs_of_pos (by linarith)] at h3
    linarith

/-! ### invariant -/

/-- standing assumptions: tolerance below the grid, entries inside the graph, weights on the grid
(hence non-negative), centre labels non-negative -/
structure Hyp (n : Nat) (E : List Edge) (isC : Nat → Prop) (lab : Nat → Int) (h tol : Rat) : Prop where
  tol0 : 0 < tol
  tolh : 2 * tol < h
  bound : ∀ e ∈ E, e.1 < n ∧ e.2.1 < n
  wgrid : ∀ e ∈ E, ∃ k : Nat, e.2.2 = (k : Rat) * h
  lab0 : ∀ c, isC c → 0 ≤ lab c

structure Inv (n : Nat) (E : List Edge) (isC : Nat → Prop) (lab : Nat → Int) (h : Rat) (st : St) : Prop where
  sd : st.d.size = n
  sm : st.m.size = n
  sp : st.p.size = n
  spc : st.pc.size = n
  grid : ∀ j x, rdO st.d j = some x → ∃ k : Nat, x = (k : Rat) * h
  walk : ∀ j x, rdO st.d j = some x → ∃ c, isC c ∧ Walk E c j x ∧ rdI st.m j = lab c
  centre : ∀ c, isC c → c < n ∧ rdO st.d c = some 0 ∧ rdI st.m c = lab c ∧
    (rdI st.p c = -1 ∨ rdI st.p c = (c : Int))
  unas : ∀ j, j < n → rdO st.d j = none → rdI st.m j < 0 ∧ rdI st.p j = -1
  pred : ∀ j x, j < n → rdO st.d j = some x → ¬ isC j →
    ∃ i, i < n ∧ rdI st.p j = (i : Int) ∧ ∃ a y, (i, j, a) ∈ E ∧ rdO st.d i = some y ∧ y + a ≤ x ∧
      (y + a = x → rdI st.m j = rdI st.m i)
  count : ∀ v, v < n → rdI st.pc v = cnt n st.p v

variable {n : Nat} {E : List Edge} {isC : Nat → Prop} {lab : Nat → Int} {h tol : Rat}

theorem Inv.m_nonneg (H : Hyp n E isC lab h tol) {st : St} (hI : Inv n E isC lab h st) {j : Nat} {x : Rat}
    (hd : rdO st.d j = some x) : 0 ≤ rdI st.m j := by
  obtain ⟨c, hc, _, hm⟩ := hI.walk j x hd
  rw [hm]; exact H.lab0 c hc

theorem idx_some {k : Int} {size r : Nat} (hk : idx k size = some r) : k = (r : Int) ∧ r < size := by
  unfold idx at hk
  split at hk
  · rename_i h0
    injection hk with hk
    subst hk
    exact ⟨(Int.toNat_of_nonneg h0.1).symm, h0.2⟩
  · cases hk

theorem release_spec {st st1 : St} {j : Nat} (hr : release st j = some st1) :
    st1.d = st.d ∧ st1.m = st.m ∧ st1.p = st.p ∧
    ((rdI st.m j < 0 ∧ st1.pc = st.pc) ∨
     (0 ≤ rdI st.m j ∧ ∃ kp : Nat, rdI st.p j = (kp : Int) ∧ kp < st.pc.size ∧
        st1.pc = wrI st.pc kp (rdI st.pc kp - 1))) := by
  unfold release at hr
  by_cases hm : rdI st.m j ≥ 0
  · rw [if_pos hm] at hr
    cases h1 : idx (rdI st.m j) st.s.size with
    | none => rw [h1] at hr; cases hr
    | some kj =>
      cases h2 : idx (rdI st.p j) st.pc.size with
      | none => rw [h1, h2] at hr; cases hr
      | some kp =>
        rw [h1, h2] at hr
        injection hr with hr
        subst hr
        obtain ⟨h3, h4⟩ := idx_some h2
        exact ⟨rfl, rfl, rfl, Or.inr ⟨hm, kp, h3, h4, rfl⟩⟩
  · rw [if_neg hm] at hr
    injection hr with hr
    subst hr
    exact ⟨rfl, rfl, rfl, Or.inl ⟨by omega, rfl⟩⟩

theorem assign_spec {st1 st2 : St} {i j : Nat} {a : Rat} (ha : assign st1 i j a = some st2) :
    st2.d = wrO st1.d j ((rdO st1.d i).map (· + a)) ∧ st2.m = wrI st1.m j (rdI st1.m i) ∧
    st2.p = wrI st1.p j (i : Int) ∧ st2.pc = wrI st1.pc i (rdI st1.pc i + 1) := by
  unfold assign at ha
  cases h1 : idx (rdI st1.m i) st1.s.size with
  | none => rw [h1] at ha; cases ha
  | some ki =>
    rw [h1] at ha
    injection ha with ha
    subst ha
    exact ⟨rfl, rfl, rfl, rfl⟩

/-- a re-assignment of `j` through the entry `(i, j, a)` keeps the invariant, in each of the three
situations in which the kernel makes one: `j` unassigned, strictly shorter, or an exact tie at a node
without dependants -/
theorem swap_inv (H : Hyp n E isC lab h tol) {st st1 st2 : St} (hI : Inv n E isC lab h st)
    {i j : Nat} {a y : Rat} (he : (i, j, a) ∈ E) (hdi : rdO st.d i = some y)
    (hcase : rdO st.d j = none ∨ (∃ z, rdO st.d j = some z ∧ y + a < z) ∨
      (∃ z, rdO st.d j = some z ∧ y + a = z ∧ rdI st.pc j = 0 ∧ i ≠ j))
    (hr : release st j = some st1) (ha : assign st1 i j a = some st2) :
    Inv n E isC lab h st2 := by
  obtain ⟨hi, hj⟩ := H.bound _ he
  simp only at hi hj
  have hh : 0 < h := by have := H.tol0; have := H.tolh; linarith
  obtain ⟨ky, hky⟩ := hI.grid i y hdi
  obtain ⟨ka, hka⟩ := H.wgrid _ he
  simp only at hka
  have hy0 : 0 ≤ y := by rw [hky]; positivity
  have ha0 : 0 ≤ a := by rw [hka]; positivity
  obtain ⟨e1, e2, e3, hpc1⟩ := release_spec hr
  obtain ⟨f1, f2, f3, f4⟩ := assign_spec ha
  rw [e1] at f1; rw [e2] at f2; rw [e3] at f3
  rw [hdi] at f1
  simp only [Option.map_some] at f1
  -- `i ≠ j`
  have hij : i ≠ j := by
    rcases hcase with hc | ⟨z, hz, hlt⟩ | ⟨z, hz, _, _, hne⟩
    · intro hh2; subst hh2; rw [hdi] at hc; cases hc
    · intro hh2; subst hh2; rw [hdi] at hz; injection hz with hz; subst hz; linarith
    · exact hne
  -- `j` is not a centre
  have hnc : ¬ isC j := by
    intro hc
    obtain ⟨_, hd0, _, hp⟩ := hI.centre j hc
    rcases hcase with hcn | ⟨z, hz, hlt⟩ | ⟨z, hz, _, hpc0, _⟩
    · rw [hd0] at hcn; cases hcn
    · rw [hd0] at hz; injection hz with hz; subst hz; linarith
    · have hm0 : 0 ≤ rdI st.m j := hI.m_nonneg H hz
      rcases hpc1 with ⟨hneg, _⟩ | ⟨_, kp, hkp, _, _⟩
      · omega
      · rcases hp with hp | hp
        · rw [hp] at hkp; omega
        · have := hI.count j hj
          rw [hpc0] at this
          exact cnt_pos hj hp this.symm
  have hdj' : rdO st2.d j = some (y + a) := by
    rw [f1, rdO_wrO]; exact if_pos ⟨rfl, by rw [hI.sd]; exact hj⟩
  have hd_ne : ∀ v, v ≠ j → rdO st2.d v = rdO st.d v := by
    intro v hv; rw [f1, rdO_wrO]; exact if_neg (fun hh2 => hv hh2.1.symm)
  have hm_j : rdI st2.m j = rdI st.m i := by
    rw [f2, rdI_wrI]; exact if_pos ⟨rfl, by rw [hI.sm]; exact hj⟩
  have hm_ne : ∀ v, v ≠ j → rdI st2.m v = rdI st.m v := by
    intro v hv; rw [f2, rdI_wrI]; exact if_neg (fun hh2 => hv hh2.1.symm)
  have hp_j : rdI st2.p j = (i : Int) := by
    rw [f3, rdI_wrI]; exact if_pos ⟨rfl, by rw [hI.sp]; exact hj⟩
  have hp_ne : ∀ v, v ≠ j → rdI st2.p v = rdI st.p v := by
    intro v hv; rw [f3, rdI_wrI]; exact if_neg (fun hh2 => hv hh2.1.symm)
  -- nobody whose recorded distance is still tight hangs below `j`
  have hdep : ∀ v x, v < n → v ≠ j → rdO st.d v = some x → ¬ isC v → rdI st.p v = (j : Int) →
      ∃ a' z, (j, v, a') ∈ E ∧ rdO st.d j = some z ∧ z + a' ≤ x ∧ y + a < z := by
    intro v x hv hvj hdv hcv hpv
    obtain ⟨i', _, hpi', a', z, hmem, hdz, hle, _⟩ := hI.pred v x hv hdv hcv
    have hi'j : i' = j := by rw [hpv] at hpi'; exact_mod_cast hpi'.symm
    subst hi'j
    rcases hcase with hcn | ⟨z', hz', hlt⟩ | ⟨z', hz', _, hpc0, _⟩
    · rw [hcn] at hdz; cases hdz
    · rw [hdz] at hz'; injection hz' with hz'; subst hz'
      exact ⟨a', z, hmem, hdz, hle, hlt⟩
    · have := hI.count i' hj
      rw [hpc0] at this
      exact absurd hpv (cnt_zero this.symm v hv)
  refine ⟨by rw [f1, size_wrO]; exact hI.sd, by rw [f2, size_wrI]; exact hI.sm,
    by rw [f3, size_wrI]; exact hI.sp, ?_, ?_, ?_, ?_, ?_, ?_, ?_⟩
  · -- pc size
    rw [f4, size_wrI]
    rcases hpc1 with ⟨_, hq⟩ | ⟨_, kp, _, _, hq⟩
    · rw [hq]; exact hI.spc
    · rw [hq, size_wrI]; exact hI.spc
  · -- grid
    intro v x hx
    by_cases hv : v = j
    · subst hv
      rw [hdj'] at hx; injection hx with hx
      exact ⟨ky + ka, by rw [← hx, hky, hka]; push_cast; ring⟩
    · rw [hd_ne v hv] at hx; exact hI.grid v x hx
  · -- walk
    intro v x hx
    by_cases hv : v = j
    · subst hv
      rw [hdj'] at hx; injection hx with hx
      obtain ⟨c, hc, hw, hm⟩ := hI.walk i y hdi
      exact ⟨c, hc, by rw [← hx]; exact Walk.step hw he, by rw [hm_j, hm]⟩
    · rw [hd_ne v hv] at hx; rw [hm_ne v hv]; exact hI.walk v x hx
  · -- centres
    intro c hc
    have hcj : c ≠ j := fun hh2 => hnc (hh2 ▸ hc)
    rw [hd_ne c hcj, hm_ne c hcj, hp_ne c hcj]
    exact hI.centre c hc
  · -- unassigned
    intro v hv hx
    by_cases hvj : v = j
    · subst hvj; rw [hdj'] at hx; cases hx
    · rw [hd_ne v hvj] at hx; rw [hm_ne v hvj, hp_ne v hvj]; exact hI.unas v hv hx
  · -- predecessors
    intro v x hv hx hcv
    by_cases hvj : v = j
    · subst hvj
      rw [hdj'] at hx; injection hx with hx
      refine ⟨i, hi, hp_j, a, y, he, by rw [hd_ne i hij]; exact hdi, by rw [hx], fun _ => ?_⟩
      rw [hm_j, hm_ne i hij]
    · rw [hd_ne v hvj] at hx
      rw [hp_ne v hvj, hm_ne v hvj]
      obtain ⟨i', hi', hpi', a', z, hmem, hdz, hle, heq⟩ := hI.pred v x hv hx hcv
      by_cases hi'j : i' = j
      · subst hi'j
        obtain ⟨a'', z', hmem', hdz', hle', hlt'⟩ := hdep v x hv hvj hx hcv hpi'
        refine ⟨i', hi', hpi', a'', y + a, hmem', hdj', by linarith, fun hh2 => ?_⟩
        linarith
      · exact ⟨i', hi', hpi', a', z, hmem, by rw [hd_ne i' hi'j]; exact hdz, hle,
          fun hh2 => by rw [hm_ne i' hi'j]; exact heq hh2⟩
  · -- predecessor counts
    intro v hv
    rw [f3, cnt_wr n st.p j (i : Int) hj (by rw [hI.sp]; exact hj) v, f4, rdI_wrI]
    have hsz1 : st1.pc.size = n := by
      rcases hpc1 with ⟨_, hq⟩ | ⟨_, kp, _, _, hq⟩
      · rw [hq]; exact hI.spc
      · rw [hq, size_wrI]; exact hI.spc
    have hcv := hI.count v hv
    rcases hpc1 with ⟨hneg, hq⟩ | ⟨hpos, kp, hkp, hkps, hq⟩
    · -- `j` was unassigned: `p[j] = -1` is not counted anywhere
      have hdn : rdO st.d j = none := by
        cases hdj : rdO st.d j with
        | none => rfl
        | some z => have := hI.m_nonneg H hdj; omega
      have hpj : rdI st.p j = -1 := (hI.unas j hj hdn).2
      rw [hq, hpj]
      by_cases hiv : i = v
      · subst hiv
        rw [if_pos ⟨rfl, by rw [hI.spc]; exact hi⟩, if_neg (by omega), if_pos rfl, hcv]; omega
      · rw [if_neg (fun hh2 => hiv hh2.1), if_neg (by omega), if_neg (by exact_mod_cast hiv), hcv]; omega
    · rw [hq, hkp]
      have hkpn : kp < n := by rw [hI.spc] at hkps; exact hkps
      have hread : ∀ w, w < n → rdI (wrI st.pc kp (rdI st.pc kp - 1)) w =
          rdI st.pc w - (if (kp : Int) = (w : Int) then 1 else 0) := by
        intro w hw
        rw [rdI_wrI]
        by_cases hkw : kp = w
        · subst hkw; rw [if_pos ⟨rfl, hkps⟩, if_pos rfl]
        · rw [if_neg (fun hh2 => hkw hh2.1), if_neg (by exact_mod_cast hkw)]; omega
      by_cases hiv : i = v
      · subst hiv
        rw [if_pos ⟨rfl, by rw [size_wrI, hI.spc]; exact hi⟩, hread i hi, if_pos rfl, hcv]
      · have h0 : (if (i : Int) = (v : Int) then (1 : Int) else 0) = 0 := if_neg (by exact_mod_cast hiv)
        rw [if_neg (fun hh2 => hiv hh2.1), hread v hv, h0, hcv]; omega

/-! ### one inner-loop step -/

theorem grid_tests (H : Hyp n E isC lab h tol) {y a z : Rat} {ky ka kz : Nat}
    (hy : y = (ky : Rat) * h) (ha : a = (ka : Rat) * h) (hz : z = (kz : Rat) * h) :
    (z - (y + a) > 2 * tol ↔ y + a < z) ∧ (absQ (y + a - z) < tol ↔ y + a = z) := by
  have ht0 := H.tol0
  have hh : 0 < h := by have := H.tolh; linarith
  have e1 : z - (y + a) = (((kz : Int) - ky - ka : Int) : Rat) * h := by
    rw [hy, ha, hz]; push_cast; ring
  have e2 : y + a - z = ((-((kz : Int) - ky - ka) : Int) : Rat) * h := by
    rw [hy, ha, hz]; push_cast; ring
  obtain ⟨g1, _⟩ := grid_cmp H.tol0 H.tolh ((kz : Int) - ky - ka)
  obtain ⟨_, g2⟩ := grid_cmp H.tol0 H.tolh (-((kz : Int) - ky - ka))
  refine ⟨⟨fun h1 => by linarith, fun h1 => ?_⟩, ⟨fun h1 => ?_, fun h1 => ?_⟩⟩
  · rw [e1]
    apply g1.2
    by_contra hw
    have hw' : ((((kz : Int) - ky - ka : Int)) : Rat) ≤ 0 := by exact_mod_cast (show (kz : Int) - ky - ka ≤ 0 by omega)
    have : (((kz : Int) - ky - ka : Int) : Rat) * h ≤ 0 := mul_nonpos_of_nonpos_of_nonneg hw' hh.le
    rw [← e1] at this
    linarith
  · rw [e2] at h1
    have hw := g2.1 h1
    have : y + a - z = 0 := by rw [e2, hw]; simp
    linarith
  · rw [e2]
    apply g2.2
    have h3 : y + a - z = 0 := by linarith
    rw [e2] at h3
    rcases mul_eq_zero.1 h3 with h4 | h4
    · exact_mod_cast h4
    · linarith

/-- the stored entry `e` cannot be relaxed in `st` (the Bellman–Ford fixed-point condition) -/
def NoRelax (st : St) (e : Edge) : Prop :=
  ∀ y, rdO st.d e.1 = some y → ∃ z, rdO st.d e.2.1 = some z ∧ z ≤ y + e.2.2

theorem tie_true (H : Hyp n E isC lab h tol) {st : St} (hI : Inv n E isC lab h st) {tb : Bool}
    {i j : Nat} {a y : Rat} (he : (i, j, a) ∈ E) (hdi : rdO st.d i = some y)
    (ht : tieTest tol tb st i j a = some true) :
    ∃ z, rdO st.d j = some z ∧ y + a = z ∧ rdI st.pc j = 0 ∧ i ≠ j := by
  unfold tieTest at ht
  split at ht
  · split at ht
    · rename_i hcl
      unfold close at hcl
      rw [hdi] at hcl
      cases hdj : rdO st.d j with
      | none => rw [hdj] at hcl; simp at hcl
      | some z =>
        rw [hdj] at hcl
        simp only [decide_eq_true_eq] at hcl
        obtain ⟨ky, hky⟩ := hI.grid i y hdi
        obtain ⟨kz, hkz⟩ := hI.grid j z hdj
        obtain ⟨ka, hka⟩ := H.wgrid _ he
        have heq := ((grid_tests H hky hka hkz).2).1 hcl
        split at ht
        · rename_i ki kj hki hkj
          injection ht with ht
          simp only [Bool.and_eq_true, decide_eq_true_eq] at ht
          refine ⟨z, rfl, heq, ht.2, ?_⟩
          intro hij
          subst hij
          rw [hki] at hkj
          injection hkj with hkj
          subst hkj
          omega
        · cases ht
    · injection ht with ht; cases ht
  · injection ht with ht; cases ht

theorem step_spec (H : Hyp n E isC lab h tol) {tb : Bool} (acc : St × Bool) (e : Edge) (he : e ∈ E)
    (hI : Inv n E isC lab h acc.1) {r : St × Bool} (hs : step tol tb acc e = some r) :
    Inv n E isC lab h r.1 ∧ (r.2 = true → r = acc ∧ NoRelax acc.1 e) := by
  obtain ⟨i, j, a⟩ := e
  obtain ⟨hi, hj⟩ := H.bound _ he
  simp only at hi hj
  unfold step at hs
  simp only at hs
  by_cases hm : rdI acc.1.m i < 0
  · rw [if_pos hm] at hs
    injection hs with hs
    subst hs
    refine ⟨hI, fun _ => ⟨rfl, ?_⟩⟩
    intro y hy
    have := hI.m_nonneg H hy
    simp only at this
    omega
  · rw [if_neg hm] at hs
    cases hdi : rdO acc.1.d i with
    | none => exact absurd (hI.unas i hi hdi).1 hm
    | some y =>
      obtain ⟨ky, hky⟩ := hI.grid i y hdi
      obtain ⟨ka, hka⟩ := H.wgrid _ he
      simp only at hka
      cases htie : tieTest tol tb acc.1 i j a with
      | none => rw [htie] at hs; cases hs
      | some tie =>
        rw [htie] at hs
        simp only at hs
        by_cases hsw : (test1 tol (rdO acc.1.d i) (rdO acc.1.d j) a || tie) = true
        · rw [if_pos hsw] at hs
          cases hr : release acc.1 j with
          | none => rw [hr] at hs; cases hs
          | some st1 =>
            rw [hr] at hs
            simp only at hs
            cases ha : assign st1 i j a with
            | none => rw [ha] at hs; cases hs
            | some st2 =>
              rw [ha] at hs
              injection hs with hs
              subst hs
              refine ⟨?_, fun hh2 => by cases hh2⟩
              apply swap_inv H hI he hdi ?_ hr ha
              rcases Bool.or_eq_true_iff.1 hsw with h1 | h1
              · unfold test1 at h1
                rw [hdi] at h1
                cases hdj : rdO acc.1.d j with
                | none => exact Or.inl rfl
                | some z =>
                  rw [hdj] at h1
                  simp only [decide_eq_true_eq] at h1
                  obtain ⟨kz, hkz⟩ := hI.grid j z hdj
                  exact Or.inr (Or.inl ⟨z, rfl, ((grid_tests H hky hka hkz).1).1 h1⟩)
              · subst h1
                exact Or.inr (Or.inr (tie_true H hI he hdi htie))
        · rw [if_neg hsw] at hs
          injection hs with hs
          subst hs
          refine ⟨hI, fun _ => ⟨rfl, ?_⟩⟩
          intro y' hy'
          simp only at hy'
          rw [hdi] at hy'
          injection hy' with hy'
          subst hy'
          have h1 : test1 tol (rdO acc.1.d i) (rdO acc.1.d j) a = false := by
            cases ht1 : test1 tol (rdO acc.1.d i) (rdO acc.1.d j) a with
            | false => rfl
            | true => rw [ht1] at hsw; simp at hsw
          unfold test1 at h1
          rw [hdi] at h1
          cases hdj : rdO acc.1.d j with
          | none => rw [hdj] at h1; simp at h1
          | some z =>
            rw [hdj] at h1
            simp only [decide_eq_false_iff_not] at h1
            obtain ⟨kz, hkz⟩ := hI.grid j z hdj
            have := mt ((grid_tests H hky hka hkz).1).2 h1
            exact ⟨z, rfl, by simp only; linarith⟩

/-! ### sweeps and the outer loop -/

theorem fold_spec (H : Hyp n E isC lab h tol) {tb : Bool} :
    ∀ (l : List Edge), (∀ e ∈ l, e ∈ E) → ∀ (acc r : St × Bool), Inv n E isC lab h acc.1 →
      l.foldlM (step tol tb) acc = some r →
      Inv n E isC lab h r.1 ∧ (r.2 = true → r = acc ∧ ∀ e ∈ l, NoRelax acc.1 e) := by
  intro l
  induction l with
  | nil =>
    intro _ acc r hI hf
    simp only [List.foldlM_nil] at hf
    injection hf with hf
    subst hf
    exact ⟨hI, fun _ => ⟨rfl, fun e he => by cases he⟩⟩
  | cons e es ih =>
    intro hl acc r hI hf
    rw [List.foldlM_cons] at hf
    cases hs : step tol tb acc e with
    | none => rw [hs] at hf; cases hf
    | some r1 =>
      rw [hs] at hf
      obtain ⟨hI1, hd1⟩ := step_spec H acc e (hl e (by simp)) hI hs
      obtain ⟨hI2, hd2⟩ := ih (fun x hx => hl x (by simp [hx])) r1 r hI1 hf
      refine ⟨hI2, fun hr => ?_⟩
      obtain ⟨hr1, hn⟩ := hd2 hr
      obtain ⟨hr2, hn2⟩ := hd1 (hr1 ▸ hr)
      refine ⟨hr1.trans hr2, ?_⟩
      intro e' he'
      rcases List.mem_cons.1 he' with rfl | he'
      · exact hn2
      · rw [← hr2]; exact hn e' he'

theorem loop_spec (H : Hyp n E isC lab h tol) {tb : Bool} :
    ∀ (fuel : Nat) (st : St) (ch : Bool) (st' : St) (ch' : Bool), Inv n E isC lab h st →
      loop tol tb E fuel st ch = .ok st' ch' →
      Inv n E isC lab h st' ∧ ∀ e ∈ E, NoRelax st' e := by
  intro fuel
  induction fuel with
  | zero =>
    intro st ch st' ch' _ hl
    unfold loop at hl
    cases hp : pass tol tb E st <;> rw [hp] at hl <;> cases hl
  | succ f ih =>
    intro st ch st' ch' hI hl
    unfold loop at hl
    cases hp : pass tol tb E st with
    | none => rw [hp] at hl; cases hl
    | some r =>
      rw [hp] at hl
      simp only at hl
      obtain ⟨hI1, hd1⟩ := fold_spec H E (fun _ he => he) (st, true) r hI hp
      by_cases hr : r.2 = true
      · rw [if_pos hr] at hl
        injection hl with hl1 hl2
        obtain ⟨hr1, hn⟩ := hd1 hr
        have : st' = st := by rw [← hl1, hr1]
        rw [this]
        exact ⟨hI, hn⟩
      · rw [if_neg hr] at hl
        exact ih r.1 true st' ch' hI1 hl

/-! ### what a finished run has computed -/

/-- the guarantees of a finished run, for the final arrays `d, m, p, pc` -/
structure Final (n : Nat) (E : List Edge) (isC : Nat → Prop) (lab : Nat → Int) (st : St) : Prop where
  /-- a finite `d[j]` is the length of a walk from a centre whose label is `m[j]` … -/
  realised : ∀ j x, rdO st.d j = some x → ∃ c, isC c ∧ Walk E c j x ∧ rdI st.m j = lab c
  /-- … and no walk from any centre is shorter: `d[j]` is the distance to the nearest centre, `m[j]` a nearest centre -/
  shortest : ∀ j x, rdO st.d j = some x → ∀ c L, isC c → Walk E c j L → x ≤ L
  /-- `d[j] = ∞` exactly when no centre reaches `j` -/
  unreachable : ∀ j, rdO st.d j = none → ∀ c L, isC c → ¬ Walk E c j L
  /-- centres keep distance 0 and their own label -/
  centres : ∀ c, isC c → rdO st.d c = some 0 ∧ rdI st.m c = lab c
  /-- an assigned non-centre has a predecessor in the same cluster, joined by a stored entry that is
  tight: following `p` walks along a shortest path inside the cluster -/
  chain : ∀ j x, j < n → rdO st.d j = some x → ¬ isC j →
    ∃ i, i < n ∧ rdI st.p j = (i : Int) ∧ rdI st.m i = rdI st.m j ∧
      ∃ a y, (i, j, a) ∈ E ∧ rdO st.d i = some y ∧ x = y + a
  /-- unassigned nodes are left untouched -/
  untouched : ∀ j, j < n → rdO st.d j = none → rdI st.m j < 0 ∧ rdI st.p j = -1
  /-- the predecessor counts are exact -/
  counts : ∀ v, v < n → rdI st.pc v = cnt n st.p v

theorem final_of_fixed (H : Hyp n E isC lab h tol) {st : St} (hI : Inv n E isC lab h st)
    (hfix : ∀ e ∈ E, NoRelax st e) : Final n E isC lab st := by
  have hS : BF.Sound E isC lab (⟨fun j => rdO st.d j, fun j => rdI st.m j, fun j => rdI st.p j⟩ : BF.St Rat) := by
    refine ⟨fun j x hx => hI.walk j x hx, fun c hc => ⟨0, (hI.centre c hc).2.1, le_refl 0⟩⟩
  have hF : ∀ e ∈ E, ¬ BF.ltE (BF.addE ((⟨fun j => rdO st.d j, fun j => rdI st.m j,
      fun j => rdI st.p j⟩ : BF.St Rat).d e.1) e.2.2)
      ((⟨fun j => rdO st.d j, fun j => rdI st.m j, fun j => rdI st.p j⟩ : BF.St Rat).d e.2.1) := by
    intro e he
    simp only
    cases hd : rdO st.d e.1 with
    | none => simp [BF.addE, BF.ltE]
    | some y =>
      obtain ⟨z, hz, hle⟩ := hfix e he y hd
      rw [hz]
      simp only [BF.addE, Option.map_some, BF.ltE, not_lt]
      exact hle
  refine ⟨hI.walk, ?_, ?_, fun c hc => ⟨(hI.centre c hc).2.1, (hI.centre c hc).2.2.1⟩, ?_, hI.unas, hI.count⟩
  · intro j x hx c L hc hw
    obtain ⟨y, hy, hyL⟩ := BF.fixed_opt hS hF hc hw
    simp only at hy
    rw [hx] at hy
    injection hy with hy
    rw [hy]; exact hyL
  · intro j hj c L hc hw
    obtain ⟨y, hy, _⟩ := BF.fixed_opt hS hF hc hw
    simp only at hy
    rw [hj] at hy
    cases hy
  · intro j x hj hx hc
    obtain ⟨i, hi, hp, a, y, hmem, hdy, hle, heq⟩ := hI.pred j x hj hx hc
    obtain ⟨z, hz, hzle⟩ := hfix _ hmem y hdy
    simp only at hz hzle
    rw [hx] at hz
    injection hz with hz
    subst hz
    have hxy : y + a = x := le_antisymm hle hzle
    exact ⟨i, hi, hp, (heq hxy).symm, a, y, hmem, hdy, hxy.symm⟩

/-- **balanced Bellman–Ford, kernel level**: from any state satisfying the invariant (the wrapper's
or the Lloyd loop's initialisation, or the final state of an earlier call) every run that returns
delivers shortest distances, nearest-centre labels, an in-cluster shortest-path predecessor chain and
exact predecessor counts -/
theorem loop_final (H : Hyp n E isC lab h tol) {tb : Bool} (fuel : Nat) (st0 : St) (ch : Bool)
    (st : St) (ch' : Bool) (hI : Inv n E isC lab h st0)
    (hl : loop tol tb E fuel st0 ch = .ok st ch') :
    Final n E isC lab st ∧ Inv n E isC lab h st := by
  obtain ⟨hI', hfix⟩ := loop_spec H fuel st0 ch st ch' hI hl
  exact ⟨final_of_fixed H hI' hfix, hI'⟩

/-! ### the validated CSR input and the wrapper's initial state -/

theorem entries_bound (A : Csr) (hwf : A.wf = true) : ∀ e ∈ A.entries, e.1 < A.n ∧ e.2.1 < A.n := by
  intro e he
  unfold Csr.entries at he
  obtain ⟨i, hi, he⟩ := List.mem_flatMap.1 he
  obtain ⟨jj, hjj, rfl⟩ := List.mem_map.1 he
  unfold Csr.wf at hwf
  simp only [Bool.and_eq_true, decide_eq_true_eq, List.all_eq_true] at hwf
  have := hwf.2 i hi jj hjj
  exact ⟨List.mem_range.1 hi, this.2⟩

theorem initD_fold (cs : List Nat) : ∀ (d0 : Array (Option Rat)) (j : Nat),
    (cs.foldl (fun d c => wrO d c (some 0)) d0).size = d0.size ∧
    rdO (cs.foldl (fun d c => wrO d c (some 0)) d0) j =
      if j ∈ cs ∧ j < d0.size then some 0 else rdO d0 j := by
  induction cs with
  | nil => intro d0 j; simp
  | cons c cs ih =>
    intro d0 j
    rw [List.foldl_cons]
    obtain ⟨h1, h2⟩ := ih (wrO d0 c (some 0)) j
    rw [size_wrO] at h1 h2
    refine ⟨h1, ?_⟩
    rw [h2, rdO_wrO]
    by_cases hjc : j ∈ cs ∧ j < d0.size
    · rw [if_pos hjc, if_pos ⟨List.mem_cons_of_mem _ hjc.1, hjc.2⟩]
    · rw [if_neg hjc]
      by_cases hcj : c = j ∧ c < d0.size
      · rw [if_pos hcj, if_pos ⟨by rw [hcj.1]; exact List.mem_cons_self, hcj.1 ▸ hcj.2⟩]
      · rw [if_neg hcj, if_neg]
        rintro ⟨h3, h4⟩
        rcases List.mem_cons.1 h3 with h5 | h5
        · exact hcj ⟨h5.symm, h5 ▸ h4⟩
        · exact hjc ⟨h5, h4⟩

theorem initM_fold : ∀ (l : List (Nat × Nat)) (m0 : Array Int) (j : Nat),
    (l.foldl (fun m ck => wrI m ck.1 (Int.ofNat ck.2)) m0).size = m0.size ∧
    (j ∈ l.map Prod.fst → j < m0.size → ∃ ck ∈ l, ck.1 = j ∧
      rdI (l.foldl (fun m ck => wrI m ck.1 (Int.ofNat ck.2)) m0) j = (ck.2 : Int)) ∧
    (j ∉ l.map Prod.fst → rdI (l.foldl (fun m ck => wrI m ck.1 (Int.ofNat ck.2)) m0) j = rdI m0 j) := by
  intro l
  induction l with
  | nil => intro m0 j; simp
  | cons ck l ih =>
    intro m0 j
    rw [List.foldl_cons]
    obtain ⟨h1, h2, h3⟩ := ih (wrI m0 ck.1 (Int.ofNat ck.2)) j
    rw [size_wrI] at h1 h2
    refine ⟨h1, ?_, ?_⟩
    · intro hj hjs
      by_cases hjl : j ∈ l.map Prod.fst
      · obtain ⟨ck', hck', e1, e2⟩ := h2 hjl hjs
        exact ⟨ck', List.mem_cons_of_mem _ hck', e1, e2⟩
      · have hck : ck.1 = j := by
          rw [List.map_cons] at hj
          rcases List.mem_cons.1 hj with h5 | h5
          · exact h5.symm
          · exact absurd h5 hjl
        refine ⟨ck, List.mem_cons_self, hck, ?_⟩
        rw [h3 hjl, rdI_wrI, if_pos ⟨hck, hck ▸ hjs⟩]
        rfl
    · intro hj
      rw [List.map_cons] at hj
      have hjl : j ∉ l.map Prod.fst := fun hh2 => hj (List.mem_cons_of_mem _ hh2)
      rw [h3 hjl, rdI_wrI, if_neg]
      rintro ⟨h5, _⟩
      exact hj (by rw [← h5]; exact List.mem_cons_self)

theorem rdI_replicate (n : Nat) (v : Int) (j : Nat) (hj : j < n) : rdI (Array.replicate n v) j = v := by
  simp [rdI, hj]

/-- the label the wrapper gives centre `c`: an index `k` with `centers[k] = c` -/
theorem initM_label (n : Nat) (cs : List Nat) (c : Nat) (hc : c ∈ cs) (hcn : c < n) :
    ∃ k : Nat, cs[k]? = some c ∧ rdI (initM n cs) c = (k : Int) := by
  obtain ⟨_, h2, _⟩ := initM_fold cs.zipIdx (Array.replicate n (-1)) c
  have hmem : c ∈ cs.zipIdx.map Prod.fst := by
    rw [List.zipIdx_map_fst]; exact hc
  obtain ⟨ck, hck, e1, e2⟩ := h2 hmem (by simpa using hcn)
  have := List.mem_zipIdx_iff_getElem?.1 (show (ck.1, ck.2) ∈ cs.zipIdx from hck)
  exact ⟨ck.2, by rw [this, e1], e2⟩

theorem initSt_inv (n : Nat) (E : List Edge) (h : Rat) (cs : List Nat) (hcs : ∀ c ∈ cs, c < n) :
    Inv n E (fun c => c ∈ cs) (fun c => rdI (initM n cs) c) h (initSt n cs) := by
  have hD : ∀ j, rdO (initD n cs) j = if j ∈ cs ∧ j < n then some 0 else none := by
    intro j
    have := (initD_fold cs (Array.replicate n none) j).2
    unfold initD
    rw [this]
    simp only [Array.size_replicate]
    by_cases hj : j ∈ cs ∧ j < n
    · rw [if_pos hj, if_pos hj]
    · rw [if_neg hj, if_neg hj]
      simp only [rdO, Array.getD_eq_getD_getElem?, Array.getElem?_replicate]
      split <;> rfl
  have hsome : ∀ j x, rdO (initD n cs) j = some x → j ∈ cs ∧ x = 0 := by
    intro j x hx
    rw [hD j] at hx
    by_cases hj : j ∈ cs ∧ j < n
    · rw [if_pos hj] at hx; injection hx with hx; exact ⟨hj.1, hx.symm⟩
    · rw [if_neg hj] at hx; cases hx
  refine ⟨?_, ?_, by simp [initSt], by simp [initSt], ?_, ?_, ?_, ?_, ?_, ?_⟩
  · show (initD n cs).size = n
    unfold initD
    rw [(initD_fold cs _ 0).1]; simp
  · show (initM n cs).size = n
    unfold initM
    rw [(initM_fold cs.zipIdx _ 0).1]; simp
  · intro j x hx
    obtain ⟨_, hx0⟩ := hsome j x hx
    exact ⟨0, by rw [hx0]; simp⟩
  · intro j x hx
    obtain ⟨hj, hx0⟩ := hsome j x hx
    exact ⟨j, hj, by rw [hx0]; exact Walk.refl j, rfl⟩
  · intro c hc
    refine ⟨hcs c hc, ?_, rfl, Or.inl ?_⟩
    · show rdO (initD n cs) c = some 0
      rw [hD c, if_pos ⟨hc, hcs c hc⟩]
    · show rdI (Array.replicate n (-1)) c = -1
      exact rdI_replicate n (-1) c (hcs c hc)
  · intro j hj hx
    have hx' : rdO (initD n cs) j = none := hx
    rw [hD j] at hx'
    have hjc : j ∉ cs := by
      intro hjc
      rw [if_pos ⟨hjc, hj⟩] at hx'
      cases hx'
    refine ⟨?_, rdI_replicate n (-1) j hj⟩
    show rdI (initM n cs) j < 0
    have := (initM_fold cs.zipIdx (Array.replicate n (-1)) j).2.2 (by rw [List.zipIdx_map_fst]; exact hjc)
    unfold initM
    rw [this, rdI_replicate n (-1) j hj]
    omega
  · intro j x _ hx hc
    exact absurd (hsome j x hx).1 hc
  · intro v hv
    show rdI (Array.replicate n 0) v = cnt n (Array.replicate n (-1)) v
    rw [rdI_replicate n 0 v hv]
    unfold cnt
    symm
    apply Finset.sum_eq_zero
    intro j hj
    rw [rdI_replicate n (-1) j (Finset.mem_range.1 hj), if_neg (by omega)]

/-! ### the kernel and the public wrapper -/

/-- **`bellman_ford_balanced` (model `Bal.kernel`)**: a CSR graph with weights on a grid `h·ℕ`
coarser than the tolerance, any start state satisfying the invariant, any setting of `tiebreaking`:
if the kernel returns, its arrays satisfy `Final`. -/
theorem kernel_spec {h tol : Rat} (h0 : 0 < tol) (h1 : 2 * tol < h) (A : Csr) (tb : Bool)
    {isC : Nat → Prop} {lab : Nat → Int} (hlab : ∀ c, isC c → 0 ≤ lab c)
    (hW : ∀ e ∈ A.entries, ∃ k : Nat, e.2.2 = (k : Rat) * h)
    (st0 st : St) (ch : Bool) (hI : Inv A.n A.entries isC lab h st0)
    (hk : kernel tol tb A st0 = .ok st ch) :
    Final A.n A.entries isC lab st ∧ Inv A.n A.entries isC lab h st := by
  unfold kernel at hk
  split at hk
  · rename_i hc
    have H : Hyp A.n A.entries isC lab h tol := ⟨h0, h1, entries_bound A hc.1, hW, hlab⟩
    exact loop_final H _ st0 false st ch hI hk
  · cases hk

theorem mapM_norm {n : Nat} : ∀ (centers : List Int) (cs : List Nat),
    centers.mapM (normIdx n) = some cs → ∀ c ∈ cs, c < n := by
  intro centers
  induction centers with
  | nil =>
    intro cs hm c hc
    simp at hm
    subst hm
    cases hc
  | cons z zs ih =>
    intro cs hm c hc
    rw [List.mapM_cons] at hm
    cases hz : normIdx n z with
    | none => rw [hz] at hm; cases hm
    | some r =>
      cases hzs : zs.mapM (normIdx n) with
      | none => rw [hz, hzs] at hm; cases hm
      | some rs =>
        rw [hz, hzs] at hm
        injection hm with hm
        subst hm
        rcases List.mem_cons.1 hc with rfl | hc
        · unfold normIdx at hz
          split at hz
          · split at hz
            · injection hz with hz; omega
            · cases hz
          · split at hz
            · injection hz with hz; omega
            · cases hz
        · exact ih rs hzs c hc

/-- **`pyamg.graph.bellman_ford(G, centers, method='balanced', tiebreaking=tb)` (model
`Bal.wrapper`)**: whenever the call returns, with `cs` the NumPy-normalised centre nodes and
`lab c` the index the wrapper wrote into `nearest[c]` (an index `k` with `centers[k] = c`):
shortest distances, nearest-centre labels, in-cluster shortest-path predecessors. -/
theorem wrapper_spec {h tol : Rat} (h0 : 0 < tol) (h1 : 2 * tol < h) (A : Csr) (tb : Bool)
    (centers : List Int) (hW : ∀ e ∈ A.entries, ∃ k : Nat, e.2.2 = (k : Rat) * h)
    (st : St) (hw : wrapper tol tb A centers = .ok st) :
    ∃ cs : List Nat, centers.mapM (normIdx A.n) = some cs ∧
      (∀ c ∈ cs, c < A.n ∧ ∃ k : Nat, cs[k]? = some c ∧ rdI (initM A.n cs) c = (k : Int)) ∧
      Final A.n A.entries (fun c => c ∈ cs) (fun c => rdI (initM A.n cs) c) st := by
  unfold wrapper at hw
  split at hw
  · cases hw
  · cases hm : centers.mapM (normIdx A.n) with
    | none => rw [hm] at hw; cases hw
    | some cs =>
      rw [hm] at hw
      simp only at hw
      have hcs := mapM_norm centers cs hm
      have hlabel : ∀ c ∈ cs, c < A.n ∧ ∃ k : Nat, cs[k]? = some c ∧ rdI (initM A.n cs) c = (k : Int) :=
        fun c hc => ⟨hcs c hc, initM_label A.n cs c hc (hcs c hc)⟩
      refine ⟨cs, rfl, hlabel, ?_⟩
      cases hk : kernel tol tb A (initSt A.n cs) with
      | fault => rw [hk] at hw; cases hw
      | tooMany => rw [hk] at hw; cases hw
      | ok st' ch =>
        rw [hk] at hw
        injection hw with hw
        subst hw
        refine (kernel_spec h0 h1 A tb ?_ hW _ _ ch (initSt_inv A.n A.entries h cs hcs) hk).1
        intro c hc
        obtain ⟨_, k, _, hk2⟩ := hlabel c hc
        rw [hk2]; omega

/-! ### positive weights: no out-of-bounds access, and the predecessor chain ends at the centre -/

theorem idx_ok {k : Int} {size : Nat} (h0 : 0 ≤ k) (h1 : k < (size : Int)) : ∃ r, idx k size = some r := by
  unfold idx
  exact ⟨k.toNat, if_pos ⟨h0, by omega⟩⟩

/-- with positive weights and labels inside `s` a step never leaves the arrays -/
theorem step_no_fault (H : Hyp n E isC lab h tol) (hpos : ∀ e ∈ E, 0 < e.2.2) {tb : Bool}
    (acc : St × Bool) (e : Edge) (he : e ∈ E) (hI : Inv n E isC lab h acc.1)
    (hS : ∀ c, isC c → lab c < (acc.1.s.size : Int)) :
    ∃ r, step tol tb acc e = some r ∧ r.1.s.size = acc.1.s.size := by
  obtain ⟨i, j, a⟩ := e
  obtain ⟨hi, hj⟩ := H.bound _ he
  have ha : 0 < a := hpos _ he
  simp only at hi hj
  have hlabel : ∀ v x, rdO acc.1.d v = some x → 0 ≤ rdI acc.1.m v ∧ rdI acc.1.m v < (acc.1.s.size : Int) := by
    intro v x hx
    obtain ⟨c, hc, _, hm⟩ := hI.walk v x hx
    rw [hm]; exact ⟨H.lab0 c hc, hS c hc⟩
  unfold step
  simp only
  by_cases hm : rdI acc.1.m i < 0
  · rw [if_pos hm]; exact ⟨acc, rfl, rfl⟩
  · rw [if_neg hm]
    cases hdi : rdO acc.1.d i with
    | none => exact absurd (hI.unas i hi hdi).1 hm
    | some y =>
      obtain ⟨ky, hky⟩ := hI.grid i y hdi
      have hh : 0 < h := by have := H.tol0; have := H.tolh; linarith
      have hy0 : 0 ≤ y := by rw [hky]; positivity
      obtain ⟨ki, hki⟩ := idx_ok (hlabel i y hdi).1 (hlabel i y hdi).2
      -- the tie test does not fault
      have htie : ∃ tie, tieTest tol tb acc.1 i j a = some tie := by
        unfold tieTest
        split
        · split
          · rename_i hcl
            unfold close at hcl
            rw [hdi] at hcl
            cases hdj : rdO acc.1.d j with
            | none => rw [hdj] at hcl; simp at hcl
            | some z =>
              obtain ⟨kj, hkj⟩ := idx_ok (hlabel j z hdj).1 (hlabel j z hdj).2
              rw [hki, hkj]
              exact ⟨_, rfl⟩
          · exact ⟨_, rfl⟩
        · exact ⟨_, rfl⟩
      obtain ⟨tie, htie⟩ := htie
      rw [htie]
      simp only
      by_cases hsw : (test1 tol (some y) (rdO acc.1.d j) a || tie) = true
      · rw [if_pos hsw]
        -- `j` is not a centre
        have hnc : ¬ isC j := by
          intro hc
          have hd0 := (hI.centre j hc).2.1
          rcases Bool.or_eq_true_iff.1 hsw with h1 | h1
          · unfold test1 at h1
            rw [hd0] at h1
            simp only [decide_eq_true_eq] at h1
            have := H.tol0
            linarith
          · subst h1
            obtain ⟨z, hz, heq, _, _⟩ := tie_true H hI he hdi htie
            rw [hd0] at hz
            injection hz with hz
            linarith
        have hrel : ∃ st1, release acc.1 j = some st1 ∧ st1.m = acc.1.m ∧ st1.s.size = acc.1.s.size := by
          unfold release
          by_cases hmj : rdI acc.1.m j ≥ 0
          · rw [if_pos hmj]
            cases hdj : rdO acc.1.d j with
            | none => have := (hI.unas j hj hdj).1; omega
            | some z =>
              obtain ⟨kj, hkj⟩ := idx_ok (hlabel j z hdj).1 (hlabel j z hdj).2
              obtain ⟨i0, hi0, hp0, _⟩ := hI.pred j z hj hdj hnc
              obtain ⟨kp, hkp⟩ := idx_ok (k := rdI acc.1.p j) (size := acc.1.pc.size)
                (by rw [hp0]; omega) (by rw [hp0, hI.spc]; exact_mod_cast hi0)
              rw [hkj, hkp]
              exact ⟨_, rfl, rfl, by simp⟩
          · rw [if_neg hmj]; exact ⟨_, rfl, rfl, rfl⟩
        obtain ⟨st1, hr, hm1, hs1⟩ := hrel
        rw [hr]
        simp only
        have hki1 : idx (rdI st1.m i) st1.s.size = some ki := by rw [hm1, hs1]; exact hki
        unfold assign
        rw [hki1]
        exact ⟨_, rfl, by simp [hs1]⟩
      · rw [if_neg hsw]; exact ⟨acc, rfl, rfl⟩

theorem fold_no_fault (H : Hyp n E isC lab h tol) (hpos : ∀ e ∈ E, 0 < e.2.2) {tb : Bool} :
    ∀ (l : List Edge), (∀ e ∈ l, e ∈ E) → ∀ (acc : St × Bool), Inv n E isC lab h acc.1 →
      (∀ c, isC c → lab c < (acc.1.s.size : Int)) →
      ∃ r, l.foldlM (step tol tb) acc = some r ∧ r.1.s.size = acc.1.s.size := by
  intro l
  induction l with
  | nil => intro _ acc _ _; exact ⟨acc, rfl, rfl⟩
  | cons e es ih =>
    intro hl acc hI hS
    obtain ⟨r1, hr1, hs1⟩ := step_no_fault H hpos acc e (hl e (by simp)) hI hS
    have hI1 := (step_spec H acc e (hl e (by simp)) hI hr1).1
    obtain ⟨r, hr, hs⟩ := ih (fun x hx => hl x (by simp [hx])) r1 hI1 (by rw [hs1]; exact hS)
    exact ⟨r, by rw [List.foldlM_cons, hr1]; exact hr, hs.trans hs1⟩

theorem loop_no_fault (H : Hyp n E isC lab h tol) (hpos : ∀ e ∈ E, 0 < e.2.2) {tb : Bool} :
    ∀ (fuel : Nat) (st : St) (ch : Bool), Inv n E isC lab h st →
      (∀ c, isC c → lab c < (st.s.size : Int)) → loop tol tb E fuel st ch ≠ .fault := by
  intro fuel
  induction fuel with
  | zero =>
    intro st ch hI hS
    obtain ⟨r, hr, _⟩ := fold_no_fault H hpos E (fun _ he => he) (st, true) hI hS
    unfold loop
    have : pass tol tb E st = some r := hr
    rw [this]
    intro hh; cases hh
  | succ f ih =>
    intro st ch hI hS
    obtain ⟨r, hr, hs⟩ := fold_no_fault H hpos E (fun _ he => he) (st, true) hI hS
    have hI1 := (fold_spec H E (fun _ he => he) (st, true) r hI hr).1
    unfold loop
    have : pass tol tb E st = some r := hr
    rw [this]
    simp only
    split
    · intro hh; cases hh
    · exact ih r.1 true hI1 (by rw [hs]; exact hS)

/-- **no undefined behaviour on positive weights**: the public call on a well-formed CSR graph with
positive weights (on the grid) never makes an out-of-bounds access — it returns, raises one of the
wrapper's two Python errors, or gives up with the kernel's "too many iterations" -/
theorem wrapper_no_fault {h tol : Rat} (h0 : 0 < tol) (h1 : 2 * tol < h) (A : Csr) (tb : Bool)
    (centers : List Int) (hwf : A.wf = true) (hW : ∀ e ∈ A.entries, ∃ k : Nat, e.2.2 = (k : Rat) * h)
    (hpos : ∀ e ∈ A.entries, 0 < e.2.2) : wrapper tol tb A centers ≠ .fault := by
  unfold wrapper
  split
  · intro hh; cases hh
  · cases hm : centers.mapM (normIdx A.n) with
    | none => intro hh; cases hh
    | some cs =>
      simp only
      have hcs := mapM_norm centers cs hm
      have hlab : ∀ c ∈ cs, 0 ≤ rdI (initM A.n cs) c ∧ rdI (initM A.n cs) c < (cs.length : Int) := by
        intro c hc
        obtain ⟨k, hk1, hk2⟩ := initM_label A.n cs c hc (hcs c hc)
        have : k < cs.length := by
          by_contra hge
          rw [List.getElem?_eq_none (by omega)] at hk1
          cases hk1
        rw [hk2]; omega
      have H : Hyp A.n A.entries (fun c => c ∈ cs) (fun c => rdI (initM A.n cs) c) h tol :=
        ⟨h0, h1, entries_bound A hwf, hW, fun c hc => (hlab c hc).1⟩
      have hI := initSt_inv A.n A.entries h cs hcs
      have hk : kernel tol tb A (initSt A.n cs) ≠ .fault := by
        unfold kernel
        rw [if_pos ⟨hwf, hI.sd, hI.sm, hI.sp, hI.spc⟩]
        apply loop_no_fault H hpos _ _ _ hI
        intro c hc
        have : (initSt A.n cs).s.size = cs.length := by simp [initSt]
        rw [this]; exact (hlab c hc).2
      cases hk2 : kernel tol tb A (initSt A.n cs) with
      | fault => exact absurd hk2 hk
      | tooMany => intro hh; cases hh
      | ok st ch => intro hh; cases hh

/-- follow the predecessor array `k` times -/
def follow (p : Array Int) : Nat → Nat → Nat
  | 0, j => j
  | k+1, j => follow p k (rdI p j).toNat

/-- **the predecessor chain leads to the centre the node is assigned to** (positive weights): from
every assigned node, following `p` reaches after finitely many steps a centre `c`, every node on the
way carries the label `m[j]`, and `m[j]` is the label of `c` -/
theorem chain_to_centre (H : Hyp n E isC lab h tol) (hpos : ∀ e ∈ E, 0 < e.2.2) {st : St}
    (hI : Inv n E isC lab h st) (hF : Final n E isC lab st) :
    ∀ j x, j < n → rdO st.d j = some x →
      ∃ k c, isC c ∧ follow st.p k j = c ∧ rdI st.m j = lab c ∧
        ∀ t, t ≤ k → rdI st.m (follow st.p t j) = rdI st.m j := by
  have hh : 0 < h := by have := H.tol0; have := H.tolh; linarith
  suffices hmain : ∀ (kx : Nat) j x, j < n → rdO st.d j = some x → x = (kx : Rat) * h →
      ∃ k c, isC c ∧ follow st.p k j = c ∧ rdI st.m j = lab c ∧
        ∀ t, t ≤ k → rdI st.m (follow st.p t j) = rdI st.m j by
    intro j x hj hx
    obtain ⟨kx, hkx⟩ := hI.grid j x hx
    exact hmain kx j x hj hx hkx
  intro kx
  induction kx using Nat.strong_induction_on with
  | _ kx ih =>
    intro j x hj hx hkx
    by_cases hc : isC j
    · exact ⟨0, j, hc, rfl, (hF.centres j hc).2, fun t ht => by
        have : t = 0 := by omega
        subst this; rfl⟩
    · obtain ⟨i, hi, hp, hmi, a, y, hmem, hdy, hxy⟩ := hF.chain j x hj hx hc
      obtain ⟨ky, hky⟩ := hI.grid i y hdy
      have ha : 0 < a := hpos _ hmem
      have hlt : ky < kx := by
        have h3 : (ky : Rat) * h < (kx : Rat) * h := by rw [← hky, ← hkx]; linarith
        have h4 := lt_of_mul_lt_mul_right h3 hh.le
        exact_mod_cast h4
      obtain ⟨k, c, hcc, hfol, hlabc, hall⟩ := ih ky hlt i y hi hdy hky
      have hstep : ∀ t, follow st.p (t+1) j = follow st.p t i := by
        intro t
        show follow st.p t (rdI st.p j).toNat = follow st.p t i
        rw [hp]; rfl
      refine ⟨k+1, c, hcc, by rw [hstep]; exact hfol, by rw [← hmi]; exact hlabc, ?_⟩
      intro t ht
      cases t with
      | zero => rfl
      | succ t => rw [hstep, hall t (by omega)]; exact hmi

end PyamgV.Bal
