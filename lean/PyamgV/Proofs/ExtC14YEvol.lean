import PyamgV.Proofs.C14Evol
import PyamgV.Proofs.C14Dist
import PyamgV.Model.ExtC14YEvol
import Mathlib.Tactic.Linarith
import Mathlib.Tactic.Ring

/-! PyamgV (C14, extension E44): theorems about the model `Model/ExtC14YEvol.lean` of the whole of
`evolution_strength_of_connection` (several candidates, every `k`, `epsilon = inf`, BSR input, complex input).

* the strength values of both paths (`NullDim == 1` shortcut, `evolution_strength_helper`) are non-negative and live on the
  pattern of `Atilde` (`shortcutRow_spec`, `helperRow_spec`, `measureOf_spec`), for EVERY candidate matrix `B`, every scalar
  type read through a non-negative modulus;
* the entry-by-entry rule of the helper (`helperRow_rule`);
* `Atilde` lives on the mask (`atildeRows_cols`, `maskRow_mem`);
* the tail with an optional drop tolerance (`tailO_contract`) and the nodal tail of BSR input (`tailBsr_contract`);
* the contract of the returned matrix: `evolFullG_contract` (CSR), `evolFullBsr_contract` (BSR). -/
namespace PyamgV.C14Y
open PyamgV PyamgV.N PyamgV.C14

set_option linter.unusedSectionVars false

section meas
variable {α : Type} [Add α] [Sub α] [Mul α] [Div α] [OfNat α 0] [OfNat α 1] [DecidableEq α]

theorem elimZeros_cols_sub' (row : Row) : ∀ j ∈ (elimZeros row).map Prod.fst, j ∈ row.map Prod.fst := by
  intro j hj
  obtain ⟨cv, hcv, rfl⟩ := List.mem_map.1 hj
  exact List.mem_map.2 ⟨cv, elimZeros_sub row cv hcv, rfl⟩

/-- the `NullDim == 1` shortcut: columns inside the row of `Atilde`, values non-negative -/
theorem shortcutRow_spec (S : Scal α) (hmd : ∀ a, 0 ≤ S.md a) (P : Par) (hperf : 0 ≤ P.perf) (B : DMat α) (i : Nat)
    (p : RowOf α) :
    (∀ j ∈ (shortcutRow S P B i p).map Prod.fst, j ∈ p.map Prod.fst) ∧ ∀ cv ∈ shortcutRow S P B i p, 0 ≤ cv.2 := by
  unfold shortcutRow
  simp only
  constructor
  · intro j hj
    rw [List.map_map] at hj
    have h1 : j ∈ (elimZeros (p.map fun cv =>
        (cv.1, if S.nsq (1 * (entOf p i / bScalG B i) * bScalG B cv.1 / cv.2) < P.wk * P.wk ∨
            S.re (1 * (entOf p i / bScalG B i) * bScalG B cv.1) * S.re cv.2 +
              S.im (1 * (entOf p i / bScalG B i) * bScalG B cv.1) * S.im cv.2 < 0 then (0 : Rat)
          else S.md (1 - 1 * (entOf p i / bScalG B i) * bScalG B cv.1 / cv.2)))).map Prod.fst := by
      obtain ⟨cv, hcv, rfl⟩ := List.mem_map.1 hj
      exact List.mem_map.2 ⟨cv, hcv, rfl⟩
    have h2 := elimZeros_cols_sub' _ j h1
    rw [List.map_map] at h2
    obtain ⟨cv, hcv, rfl⟩ := List.mem_map.1 h2
    exact List.mem_map.2 ⟨cv, hcv, rfl⟩
  · intro cv hcv
    obtain ⟨c, hc, rfl⟩ := List.mem_map.1 hcv
    have hc' := elimZeros_sub _ c hc
    have hc2 : 0 ≤ c.2 := by
      obtain ⟨c0, _, rfl⟩ := List.mem_map.1 hc'
      show 0 ≤ (if _ then (0 : Rat) else _)
      split
      · exact le_refl _
      · exact hmd _
    show 0 ≤ (if c.2 < P.sqe then P.perf else c.2)
    split
    · exact hperf
    · exact hc2

/-- a strength value of the helper is `1`, `0`, the near-perfect constant or a modulus: non-negative -/
theorem helperVal_nonneg (S : Scal α) (hmd : ∀ a, 0 ≤ S.md a) (P : Par) (hperf : 0 ≤ P.perf) (i j : Nat) (zv zh : α) :
    0 ≤ helperVal S P i j zv zh := by
  unfold helperVal
  split
  · exact zero_le_one
  · simp only
    split
    · exact le_refl 0
    · split
      · exact le_refl 0
      · split
        · exact hperf
        · exact hmd _

/-- **the entry-by-entry rule of `evolution_strength_helper`** on an off-diagonal entry `z_j`, given the (filtered)
approximation `zhat_j`: weak (0) when `|zhat_j / z_j|² ≤ 1e-8` or the angle between them exceeds 90 degrees; otherwise the
approximation error `|1 - zhat_j / z_j|`, replaced by `1e-4` when it is below `sqrt(eps)` -/
theorem helperVal_rule (S : Scal α) (P : Par) (i j : Nat) (hji : j ≠ i) (zv zh : α) :
    (S.nsq (zh / zv) ≤ P.wk8 → helperVal S P i j zv zh = 0) ∧
    (¬ S.nsq (zh / zv) ≤ P.wk8 → S.re zh * S.re zv + S.im zh * S.im zv < 0 → helperVal S P i j zv zh = 0) ∧
    (¬ S.nsq (zh / zv) ≤ P.wk8 → ¬ S.re zh * S.re zv + S.im zh * S.im zv < 0 →
      helperVal S P i j zv zh = if S.md (1 - zh / zv) < P.sqe then P.perf else S.md (1 - zh / zv)) ∧
    helperVal S P i i zv zh = 1 := by
  unfold helperVal
  refine ⟨fun h => ?_, fun h1 h2 => ?_, fun h1 h2 => ?_, by simp⟩
  · simp [hji, h]
  · simp [hji, h1, h2]
  · simp [hji, h1, h2]

theorem zhatFilter_length (S : Scal α) (tolz : Rat) (zh : List α) : (zhatFilter S tolz zh).length = zh.length := by
  unfold zhatFilter; simp

/-- one row of the helper: columns inside the row of `Atilde`, values non-negative; a row with at most `NullDim`
entries is all ones -/
theorem helperRow_spec (S : Scal α) (hmd : ∀ a, 0 ≤ S.md a) (P : Par) (hperf : 0 ≤ P.perf) (dA : Nat → α) (B : DMat α)
    (K i : Nat) (p : RowOf α) (r : Row) (h : helperRow S P dA B K i p = some r) :
    (∀ j ∈ r.map Prod.fst, j ∈ p.map Prod.fst) ∧ (∀ cv ∈ r, 0 ≤ cv.2) ∧
    (p.length ≤ K → r = p.map fun cv => (cv.1, (1 : Rat))) := by
  unfold helperRow at h
  by_cases hl : p.length ≤ K
  · rw [if_pos hl] at h
    simp only [Option.some.injEq] at h
    subst h
    refine ⟨?_, ?_, fun _ => rfl⟩
    · intro j hj
      rw [List.map_map] at hj
      exact hj
    · intro cv hcv
      obtain ⟨c, _, rfl⟩ := List.mem_map.1 hcv
      exact zero_le_one
  · rw [if_neg hl] at h
    cases hx : solveOf S (lhsOf S dA B K i (p.map (·.1))) (rhsOf S dA B K i p) with
    | none => rw [hx] at h; simp at h
    | some x =>
      rw [hx] at h
      simp only [Option.map_some, Option.some.injEq] at h
      subst h
      refine ⟨?_, ?_, fun h' => absurd h' hl⟩
      · intro j hj
        have h2 := elimZeros_cols_sub' _ j hj
        rw [List.map_map] at h2
        obtain ⟨c, hc, rfl⟩ := List.mem_map.1 h2
        have := (List.of_mem_zip hc).1
        exact List.mem_map.2 ⟨c.1, this, rfl⟩
      · intro cv hcv
        have h2 := elimZeros_sub _ cv hcv
        obtain ⟨c, _, rfl⟩ := List.mem_map.1 h2
        exact helperVal_nonneg S hmd P hperf _ _ _ _

theorem allRows_spec : ∀ (l : List (Option Row)) (m : List Row), allRows l = some m →
    m.length = l.length ∧ ∀ k : Nat, (l[k]?).bind id = m[k]?
  | [], m, h => by
    simp only [allRows, Option.some.injEq] at h
    subst h
    simp
  | none :: t, m, h => by simp [allRows] at h
  | some r :: t, m, h => by
    simp only [allRows] at h
    cases ht : allRows t with
    | none => rw [ht] at h; simp at h
    | some mt =>
      rw [ht] at h
      simp only [Option.map_some, Option.some.injEq] at h
      subst h
      obtain ⟨h1, h2⟩ := allRows_spec t mt ht
      refine ⟨by simp [h1], ?_⟩
      intro k
      cases k with
      | zero => simp
      | succ k => simpa using h2 k

/-- **the strength values handed to the drop-tolerance filter** (both paths, every `B`, every `K`): one row per row of
`Atilde`, columns inside that row, values non-negative -/
theorem measureOf_spec (S : Scal α) (hmd : ∀ a, 0 ≤ S.md a) (P : Par) (hperf : 0 ≤ P.perf) (A B : DMat α) (K : Nat)
    (atl : List (RowOf α)) (m : List Row) (h : measureOf S P A B K atl = some m) :
    m.length = atl.length ∧
    (∀ i, ∀ j ∈ (m.getD i []).map Prod.fst, j ∈ (atl.getD i []).map Prod.fst) ∧
    (∀ r ∈ m, ∀ cv ∈ r, 0 ≤ cv.2) := by
  unfold measureOf at h
  by_cases hK : K = 1
  · rw [if_pos hK] at h
    simp only [Option.some.injEq] at h
    subst h
    refine ⟨by simp, ?_, ?_⟩
    · intro i j hj
      rw [List.getD_eq_getElem?_getD, List.getElem?_map, List.getElem?_zipIdx] at hj
      rw [List.getD_eq_getElem?_getD]
      cases hp : atl[i]? with
      | none => rw [hp] at hj; simp at hj
      | some p =>
        rw [hp] at hj
        simp only [Option.map_some, Option.getD_some, Nat.zero_add] at hj ⊢
        exact (shortcutRow_spec S hmd P hperf B i p).1 j hj
    · intro r hr cv hcv
      obtain ⟨pi, _, rfl⟩ := List.mem_map.1 hr
      exact (shortcutRow_spec S hmd P hperf B pi.2 pi.1).2 cv hcv
  · rw [if_neg hK] at h
    obtain ⟨h1, h2⟩ := allRows_spec _ m h
    have hrow : ∀ i r, m[i]? = some r → ∃ p, atl[i]? = some p ∧ helperRow S P (dAOf P A) B K i p = some r := by
      intro i r hr
      have := h2 i
      rw [hr, List.getElem?_map, List.getElem?_zipIdx] at this
      cases hp : atl[i]? with
      | none => rw [hp] at this; simp at this
      | some p =>
        rw [hp] at this
        simp only [Option.map_some, Nat.zero_add, Option.bind_some, id] at this
        exact ⟨p, rfl, this⟩
    refine ⟨by rw [h1]; simp, ?_, ?_⟩
    · intro i j hj
      rw [List.getD_eq_getElem?_getD] at hj
      cases hr : m[i]? with
      | none => rw [hr] at hj; simp at hj
      | some r =>
        rw [hr] at hj
        obtain ⟨p, hp, hh⟩ := hrow i r hr
        rw [List.getD_eq_getElem?_getD, hp]
        exact (helperRow_spec S hmd P hperf _ B K i p r hh).1 j hj
    · intro r hr cv hcv
      obtain ⟨i, hi, hget⟩ := List.getElem_of_mem hr
      have hr' : m[i]? = some r := by rw [List.getElem?_eq_getElem hi, hget]
      obtain ⟨p, _, hh⟩ := hrow i r hr'
      exact (helperRow_spec S hmd P hperf _ B K i p r hh).2.1 cv hcv

/-! ### `Atilde` lives on the mask -/

theorem spRowOn_cols (M : DMat α) (i : Nat) (cols : List Nat) :
    ∀ j ∈ (spRowOn M i cols).map Prod.fst, j ∈ cols ∧ M.get i j ≠ 0 := by
  intro j hj
  obtain ⟨cv, hcv, rfl⟩ := List.mem_map.1 hj
  unfold spRowOn at hcv
  obtain ⟨k, hk, hk2⟩ := List.mem_filterMap.1 hcv
  by_cases h0 : M.get i k ≠ 0
  · rw [if_pos h0] at hk2
    simp only [Option.some.injEq] at hk2
    subst hk2
    exact ⟨hk, h0⟩
  · rw [if_neg h0] at hk2
    simp at hk2

/-- a column of the mask of row `i`: a stored non-zero entry of `A`, on BSR input of the same PDE -/
theorem maskRow_mem (bs i : Nat) (row : RowOf α) (j : Nat) (h : j ∈ maskRow bs i row) :
    ∃ v, (j, v) ∈ row ∧ v ≠ 0 ∧ (bs ≤ 1 ∨ j % bs = i % bs) := by
  unfold maskRow at h
  obtain ⟨cv, hcv, rfl⟩ := List.mem_map.1 h
  have := List.mem_filter.1 hcv
  simp only [decide_eq_true_eq] at this
  exact ⟨cv.2, this.1, this.2.1, this.2.2⟩

/-- the pattern the code restricts `Atilde` to (`k = 1` on CSR input: none) -/
def atPat (P : Par) (rows : List (RowOf α)) (i j : Nat) : Prop :=
  j ∈ (if masked P then maskRow P.bs i (rows.getD i []) else List.range rows.length)

theorem atildeRows_length (P : Par) (n : Nat) (M : DMat α) (rows : List (RowOf α)) :
    (atildeRows P n M rows).length = rows.length := by
  unfold atildeRows; simp

theorem atildeRows_cols (P : Par) (M : DMat α) (rows : List (RowOf α)) (i : Nat) :
    ∀ j ∈ ((atildeRows P rows.length M rows).getD i []).map Prod.fst, atPat P rows i j ∧ M.get i j ≠ 0 := by
  intro j hj
  unfold atildeRows at hj
  rw [List.getD_eq_getElem?_getD, List.getElem?_map, List.getElem?_zipIdx] at hj
  unfold atPat
  rw [List.getD_eq_getElem?_getD]
  cases hp : rows[i]? with
  | none => rw [hp] at hj; simp at hj
  | some r =>
    rw [hp] at hj
    simp only [Option.map_some, Option.getD_some, Nat.zero_add] at hj ⊢
    exact spRowOn_cols M i _ j hj

theorem atPat_masked (P : Par) (hm : masked P = true) (rows : List (RowOf α)) (i j : Nat) (h : atPat P rows i j) :
    ∃ v, (j, v) ∈ rows.getD i [] ∧ v ≠ 0 ∧ (P.bs ≤ 1 ∨ j % P.bs = i % P.bs) := by
  unfold atPat at h
  rw [if_pos hm] at h
  exact maskRow_mem _ _ _ _ h

/-- the code applies the mask unless `k = 1` and the input is CSR (or BSR with `1 x 1` blocks) -/
theorem masked_iff (P : Par) : masked P = true ↔ P.k ≠ 1 ∨ 1 < P.bs := by
  unfold masked; simp

end meas

/-! ### after the strength values -/

theorem filterO_spec (big : Rat) (eps : Option Rat) (rows : List Row) (hnn : ∀ r ∈ rows, ∀ cv ∈ r, 0 ≤ cv.2) :
    (∀ k, ∀ j ∈ ((mapRows (filterO big eps) rows).getD k []).map Prod.fst, j ∈ (rows.getD k []).map Prod.fst) ∧
    (∀ r ∈ mapRows (filterO big eps) rows, ∀ cv ∈ r, 0 ≤ cv.2) := by
  cases eps with
  | some ε => exact filtered_spec big ε rows hnn
  | none =>
    constructor
    · intro k j hj
      by_cases hk : k < rows.length
      · rw [mapRows_getD _ _ _ hk] at hj; exact hj
      · have : (mapRows (filterO big none) rows).getD k [] = [] := by
          rw [List.getD_eq_getElem?_getD, List.getElem?_eq_none (by rw [mapRows_length]; omega)]; rfl
        rw [this] at hj; simp at hj
    · intro r hr cv hcv
      obtain ⟨k, hk, hrk⟩ := List.getElem_of_mem hr
      rw [mapRows_length] at hk
      have h1 : (mapRows (filterO big none) rows)[k]? = some r := by
        rw [List.getElem?_eq_getElem (by rw [mapRows_length]; exact hk)]; simp [hrk]
      rw [mapRows_getElem?, List.getElem?_eq_getElem hk] at h1
      simp only [Option.map_some, Option.some.injEq] at h1
      subst h1
      exact hnn _ (List.getElem_mem hk) cv hcv

theorem preTail_length (big : Rat) (eps : Option Rat) (symm : Bool) (rows : List Row) :
    (preTail big eps symm rows).length = rows.length := by
  unfold preTail
  simp only
  rw [mapRows_length]
  cases symm <;> simp [mapRows_length]

/-- the scalar matrix before the inversion: row `i` is `unitDiag i r0` with `r0 ≥ 0` inside the measure's row `i`, or
(with `symmetrize_measure`) its transposed pattern -/
theorem preTail_spec (big : Rat) (eps : Option Rat) (symm : Bool) (rows : List Row)
    (hnn : ∀ r ∈ rows, ∀ cv ∈ r, 0 ≤ cv.2) (i : Nat) (hi : i < rows.length) :
    ∃ r0, (∀ cv ∈ r0, 0 ≤ cv.2) ∧ (preTail big eps symm rows)[i]? = some (unitDiag i r0) ∧
      ∀ j ∈ r0.map Prod.fst, j ∈ (rows.getD i []).map Prod.fst ∨ (symm = true ∧ i ∈ (rows.getD j []).map Prod.fst) := by
  obtain ⟨hcols, hnn1⟩ := filterO_spec big eps rows hnn
  have hlen : (mapRows (filterO big eps) rows).length = rows.length := mapRows_length _ _
  have hi1 : i < (mapRows (filterO big eps) rows).length := by rw [hlen]; exact hi
  unfold preTail
  simp only
  cases symm with
  | false =>
    simp only [Bool.false_eq_true, if_false, false_and, or_false]
    refine ⟨(mapRows (filterO big eps) rows)[i]'hi1, hnn1 _ (List.getElem_mem _), ?_, ?_⟩
    · rw [mapRows_getElem?, List.getElem?_eq_getElem hi1]; rfl
    · intro j hj
      apply hcols i j
      rw [List.getD_eq_getElem?_getD, List.getElem?_eq_getElem hi1]; exact hj
  | true =>
    simp only [if_true, true_and]
    have hspec := symmetrizeRow_spec _ hnn1 i
    refine ⟨symmetrizeRow (mapRows (filterO big eps) rows) i, fun cv hcv => le_of_lt (hspec cv hcv).2, ?_, ?_⟩
    · rw [mapRows_getElem?, List.getElem?_map, List.getElem?_range hi1]; rfl
    · intro j hj
      obtain ⟨cv, hcv, rfl⟩ := List.mem_map.1 hj
      rcases (hspec cv hcv).1 with h | h
      · exact Or.inl (hcols i _ h)
      · exact Or.inr (hcols _ i h)

/-- **contract of the CSR tail for finite and infinite `epsilon`** relative to the non-negative strength values `rows`:
columns of row `i` in {diagonal} ∪ columns of `rows[i]` ∪ (only with `symmetrize_measure`) the transposed pattern; the
diagonal is always present; entries in `[0,1]`; the row attains `1` -/
theorem tailO_contract (big tiny : Rat) (eps : Option Rat) (ht : 0 < tiny) (ht1 : tiny ≤ 1) (symm : Bool) (rows : List Row)
    (hnn : ∀ r ∈ rows, ∀ cv ∈ r, 0 ≤ cv.2) (i : Nat) (hi : i < rows.length) :
    ∃ out, (tailO big tiny eps symm rows)[i]? = some out ∧
      (∀ j ∈ out.map Prod.fst, j = i ∨ j ∈ (rows.getD i []).map Prod.fst ∨
          (symm = true ∧ i ∈ (rows.getD j []).map Prod.fst)) ∧
      i ∈ out.map Prod.fst ∧ (∀ cv ∈ out, 0 ≤ cv.2 ∧ cv.2 ≤ 1) ∧ ∃ cv ∈ out, cv.2 = 1 := by
  obtain ⟨r0, h0, hget, hc⟩ := preTail_spec big eps symm rows hnn i hi
  obtain ⟨h1, h2, h3⟩ := evolFinalRow_contract tiny ht ht1 i r0 h0
  refine ⟨scaleRow tiny (invRow (unitDiag i r0)), ?_, ?_, (h1 i).2 (Or.inl rfl), h2, h3⟩
  · unfold tailO; rw [List.getElem?_map, hget]; rfl
  · intro j hj
    rcases (h1 j).1 hj with h | h
    · exact Or.inl h
    · exact Or.inr (hc j h)

/-! ### BSR input: `tobsr` + `min_blocks` -/

theorem minBlock_le_acc (l : List Rat) (big : Rat) : minBlock big l ≤ big := by
  unfold minBlock
  induction l generalizing big with
  | nil => exact le_refl _
  | cons v t ih =>
    simp only [List.foldl_cons]
    split
    · exact le_trans (ih _) (min_le_left _ _)
    · exact ih _

/-- `min_blocks` is a lower bound of the non-zero entries of the block … -/
theorem minBlock_le (l : List Rat) (big v : Rat) (hv : v ∈ l) (h0 : v ≠ 0) : minBlock big l ≤ v := by
  induction l generalizing big with
  | nil => simp at hv
  | cons w t ih =>
    rcases List.mem_cons.1 hv with h | h
    · subst h
      have := minBlock_le_acc t (min big v)
      unfold minBlock at this ⊢
      simp only [List.foldl_cons, h0, ne_eq, not_false_eq_true, if_true]
      exact le_trans this (min_le_right _ _)
    · have := ih (if w ≠ 0 then min big w else big) h
      unfold minBlock at this ⊢
      simpa only [List.foldl_cons] using this

/-- … and positive on non-negative blocks -/
theorem minBlock_pos (l : List Rat) (big : Rat) (hb : 0 < big) (hl : ∀ v ∈ l, 0 ≤ v) : 0 < minBlock big l := by
  unfold minBlock
  induction l generalizing big with
  | nil => exact hb
  | cons v t ih =>
    simp only [List.foldl_cons]
    have ht : ∀ w ∈ t, 0 ≤ w := fun w hw => hl w (List.mem_cons_of_mem _ hw)
    by_cases h0 : v ≠ 0
    · rw [if_pos h0]
      have hv : 0 < v := lt_of_le_of_ne (hl v List.mem_cons_self) (Ne.symm h0)
      exact ih _ (lt_min hb hv) ht
    · rw [if_neg h0]
      exact ih _ hb ht

theorem blk_mem {β : Type} (l : List β) (bs I : Nat) (hbs : 0 < bs) (r : β) (hr : r ∈ (l.drop (I * bs)).take bs) :
    ∃ i, i / bs = I ∧ i < l.length ∧ l[i]? = some r := by
  obtain ⟨t, ht, hget⟩ := List.getElem_of_mem hr
  rw [List.length_take, List.length_drop] at ht
  rw [List.getElem_take, List.getElem_drop] at hget
  have ht1 : t < bs := lt_of_lt_of_le ht (min_le_left _ _)
  have ht2 : t < l.length - I * bs := lt_of_lt_of_le ht (min_le_right _ _)
  refine ⟨I * bs + t, ?_, by omega, ?_⟩
  · rw [Nat.add_comm, Nat.add_mul_div_right _ _ hbs, Nat.div_eq_of_lt ht1]; simp
  · rw [List.getElem?_eq_getElem (by omega), hget]

theorem blk_first {β : Type} (l : List β) (bs I : Nat) (hI : I < l.length / bs) :
    ∃ r, l[I * bs]? = some r ∧ r ∈ (l.drop (I * bs)).take bs := by
  have hbs : 0 < bs := by
    rcases Nat.eq_zero_or_pos bs with h | h
    · subst h; simp at hI
    · exact h
  have h1 : (I + 1) * bs ≤ l.length := le_trans (Nat.mul_le_mul_right bs hI) (Nat.div_mul_le_self _ _)
  have h2 : I * bs < l.length := by
    have : I * bs + bs ≤ l.length := by rw [← Nat.succ_mul]; exact h1
    omega
  refine ⟨l[I * bs], List.getElem?_eq_getElem h2, ?_⟩
  have hlen : 0 < ((l.drop (I * bs)).take bs).length := by
    rw [List.length_take, List.length_drop]; exact lt_min hbs (by omega)
  have : ((l.drop (I * bs)).take bs)[0] = l[I * bs] := by
    rw [List.getElem_take, List.getElem_drop]; simp
  rw [← this]
  exact List.getElem_mem hlen

/-- **contract of the nodal result for BSR input** relative to the non-negative scalar strength values `rows`: nodal column
`J` of nodal row `I` comes from a scalar entry `(i, j)` of block `(I, J)` that is the diagonal, or lies in the measure's
pattern (or, with `symmetrize_measure`, its transpose); the nodal diagonal is always present; entries in `[0,1]`; every
nodal row attains `1` -/
theorem tailBsr_contract (big tiny : Rat) (eps : Option Rat) (ht : 0 < tiny) (ht1 : tiny ≤ 1) (hb : 1 ≤ big) (symm : Bool)
    (bs : Nat) (rows : List Row) (hnn : ∀ r ∈ rows, ∀ cv ∈ r, 0 ≤ cv.2) (I : Nat) (hI : I < rows.length / bs) :
    ∃ out, (tailBsr big tiny eps symm bs rows)[I]? = some out ∧
      (∀ J ∈ out.map Prod.fst, ∃ i j, i / bs = I ∧ j / bs = J ∧ i < rows.length ∧
          (j = i ∨ j ∈ (rows.getD i []).map Prod.fst ∨ (symm = true ∧ i ∈ (rows.getD j []).map Prod.fst))) ∧
      I ∈ out.map Prod.fst ∧ (∀ cv ∈ out, 0 ≤ cv.2 ∧ cv.2 ≤ 1) ∧ ∃ cv ∈ out, cv.2 = 1 := by
  have hbs : 0 < bs := by
    rcases Nat.eq_zero_or_pos bs with h | h
    · subst h; simp at hI
    · exact h
  have hspec := preTail_spec big eps symm rows hnn
  have hlen := preTail_length big eps symm rows
  unfold tailBsr nodalMin
  generalize preTail big eps symm rows = pt at hspec hlen
  simp only [Nat.ne_of_gt hbs, if_false]
  rw [List.getElem?_map, List.getElem?_map, List.getElem?_range (by rw [hlen]; exact hI)]
  simp only [Option.map_some]
  refine ⟨_, rfl, ?_⟩
  -- facts about the rows of the block row
  have hrow : ∀ r ∈ (pt.drop (I * bs)).take bs, ∃ i r0, i / bs = I ∧ i < rows.length ∧ r = unitDiag i r0 ∧
      (∀ cv ∈ r0, 0 ≤ cv.2) ∧ ∀ j ∈ r0.map Prod.fst,
        j ∈ (rows.getD i []).map Prod.fst ∨ (symm = true ∧ i ∈ (rows.getD j []).map Prod.fst) := by
    intro r hr
    obtain ⟨i, hi1, hi2, hi3⟩ := blk_mem pt bs I hbs r hr
    rw [hlen] at hi2
    obtain ⟨r0, h0, hget, hc⟩ := hspec i hi2
    rw [hi3] at hget
    exact ⟨i, r0, hi1, hi2, Option.some.inj hget, h0, hc⟩
  have hnnr : ∀ r ∈ (pt.drop (I * bs)).take bs, ∀ cv ∈ r, 0 ≤ cv.2 := by
    intro r hr cv hcv
    obtain ⟨i, r0, _, _, rfl, h0, _⟩ := hrow r hr
    rcases unitDiag_mem i r0 cv hcv with h | h
    · rw [h]; exact zero_le_one
    · exact h0 cv h
  have hvals : ∀ J, ∀ v ∈ ((pt.drop (I * bs)).take bs).flatMap
      (fun r => (r.filter fun cv => cv.1 / bs = J).map (·.2)), 0 ≤ v := by
    intro J v hv
    obtain ⟨r, hr, hv2⟩ := List.mem_flatMap.1 hv
    obtain ⟨cv, hcv, rfl⟩ := List.mem_map.1 hv2
    exact hnnr r hr cv (List.mem_filter.1 hcv).1
  have hbig : (0 : Rat) < big := lt_of_lt_of_le zero_lt_one hb
  -- the nodal row before the inversion has positive values
  have hpos : ∀ cv ∈ (((pt.drop (I * bs)).take bs).foldl
      (fun acc r => r.foldl (fun acc cv => insSorted (cv.1 / bs) acc) acc) []).map
      (fun J => (J, minBlock big (((pt.drop (I * bs)).take bs).flatMap
        fun r => (r.filter fun cv => cv.1 / bs = J).map (·.2)))), 0 < cv.2 := by
    intro cv hcv
    obtain ⟨J, _, rfl⟩ := List.mem_map.1 hcv
    exact minBlock_pos _ big hbig (hvals J)
  have hnn2 := invRow_nonneg _ (fun cv hcv => le_of_lt (hpos cv hcv))
  have hsc := scaleRow_contract tiny ht _ hnn2
  -- the diagonal block
  obtain ⟨rI, hrI, hrIm⟩ := blk_first pt bs I (by rw [hlen]; exact hI)
  obtain ⟨i0, r0, hi0, _, hr0, _, _⟩ := hrow rI hrIm
  have hdiag : (i0, (1 : Rat)) ∈ rI := by rw [hr0]; exact unitDiag_has_one i0 r0
  have hIcol : I ∈ ((pt.drop (I * bs)).take bs).foldl
      (fun acc r => r.foldl (fun acc cv => insSorted (cv.1 / bs) acc) acc) [] :=
    (mem_fold_rows bs _ [] I).2 (Or.inr ⟨rI, hrIm, (i0, 1), hdiag, hi0⟩)
  refine ⟨?_, ?_, hsc.1, hsc.2 ?_⟩
  · intro J hJ
    rw [scaleRow_cols, invRow_cols, List.map_map] at hJ
    obtain ⟨J', hJ', rfl⟩ := List.mem_map.1 hJ
    rcases (mem_fold_rows bs _ [] J').1 hJ' with h | ⟨r, hr, cv, hcv, hJ2⟩
    · simp at h
    · obtain ⟨i, r0, hi1, hi2, rfl, _, hc⟩ := hrow r hr
      refine ⟨i, cv.1, hi1, hJ2, hi2, ?_⟩
      rcases (unitDiag_cols i r0 cv.1).1 (List.mem_map.2 ⟨cv, hcv, rfl⟩) with h | h
      · exact Or.inl h
      · exact Or.inr (hc _ h)
  · rw [scaleRow_cols, invRow_cols, List.map_map]
    exact List.mem_map.2 ⟨I, hIcol, rfl⟩
  · -- the nodal diagonal: its block holds the scalar diagonal `1`, so the minimum is `≤ 1` and its inverse `≥ 1 ≥ tiny`
    have hle : minBlock big (((pt.drop (I * bs)).take bs).flatMap
        fun r => (r.filter fun cv => cv.1 / bs = I).map (·.2)) ≤ 1 := by
      apply minBlock_le _ big 1 _ one_ne_zero
      refine List.mem_flatMap.2 ⟨rI, hrIm, List.mem_map.2 ⟨(i0, 1), List.mem_filter.2 ⟨hdiag, ?_⟩, rfl⟩⟩
      simp [hi0]
    have hp := minBlock_pos (((pt.drop (I * bs)).take bs).flatMap
        fun r => (r.filter fun cv => cv.1 / bs = I).map (·.2)) big hbig (hvals I)
    refine ⟨(I, 1 / minBlock big (((pt.drop (I * bs)).take bs).flatMap
        fun r => (r.filter fun cv => cv.1 / bs = I).map (·.2))), ?_, ?_⟩
    · unfold invRow
      exact List.mem_map.2 ⟨(I, _), List.mem_map.2 ⟨I, hIcol, rfl⟩, rfl⟩
    · show tiny ≤ 1 / _
      rw [le_div_iff₀ hp]
      nlinarith

/-! ### the whole call -/
section full
variable {α : Type} [Add α] [Sub α] [Mul α] [Div α] [OfNat α 0] [OfNat α 1] [DecidableEq α]

theorem atildeOf_spec (S : Scal α) (P : Par) (rows atl : List (RowOf α)) (h : atildeOf S P rows = some atl) :
    atl.length = rows.length ∧ ∀ i, ∀ j ∈ (atl.getD i []).map Prod.fst, atPat P rows i j := by
  unfold atildeOf at h
  simp only at h
  cases hd : dinvAOf S P rows.length (denseG rows.length rows) with
  | none => rw [hd] at h; simp at h
  | some DA =>
    rw [hd] at h
    simp only [Option.map_some, Option.some.injEq] at h
    subst h
    exact ⟨atildeRows_length _ _ _ _, fun i j hj => (atildeRows_cols P _ rows i j hj).1⟩

/-- **the strength values of the whole call** (every `B`, `K`, `k`, `proj_type`, `block_flag`, real or complex): one row per
row of `A`, non-negative, inside the pattern the code restricts `Atilde` to -/
theorem evMeasureG_spec (S : Scal α) (hmd : ∀ a, 0 ≤ S.md a) (P : Par) (hperf : 0 ≤ P.perf) (B : DMat α) (K : Nat)
    (rows : List (RowOf α)) (m : List Row) (h : evMeasureG S P B K rows = some m) :
    m.length = rows.length ∧ (∀ i, ∀ j ∈ (m.getD i []).map Prod.fst, atPat P rows i j) ∧
    (∀ r ∈ m, ∀ cv ∈ r, 0 ≤ cv.2) := by
  unfold evMeasureG at h
  cases ha : atildeOf S P rows with
  | none => rw [ha] at h; simp at h
  | some atl =>
    rw [ha] at h
    simp only [Option.bind_some] at h
    obtain ⟨h1, h2⟩ := atildeOf_spec S P rows atl ha
    obtain ⟨h3, h4, h5⟩ := measureOf_spec S hmd P hperf _ B K atl m h
    exact ⟨by rw [h3, h1], fun i j hj => h2 i j (h4 i j hj), h5⟩

/-- **contract of `evolution_strength_of_connection` on CSR input** for every candidate matrix `B` (any `NullDim`), every
`k ≥ 1`, finite or infinite `epsilon`, both `proj_type`s, real or complex scalars: columns of row `i` in {diagonal} ∪ mask of
row `i` ∪ (only with `symmetrize_measure`) the transposed mask; the diagonal is always stored; entries in `[0,1]`; the row
maximum is `1` -/
theorem evolFullG_contract (S : Scal α) (hmd : ∀ a, 0 ≤ S.md a) (P : Par) (ht : 0 < P.tiny) (ht1 : P.tiny ≤ 1)
    (hperf : 0 ≤ P.perf) (B : DMat α) (K : Nat) (rows : List (RowOf α)) (out : List Row)
    (h : evolFullG S P B K rows = some out) (i : Nat) (hi : i < rows.length) :
    ∃ r, out[i]? = some r ∧
      (∀ j ∈ r.map Prod.fst, j = i ∨ atPat P rows i j ∨ (P.symm = true ∧ atPat P rows j i)) ∧
      i ∈ r.map Prod.fst ∧ (∀ cv ∈ r, 0 ≤ cv.2 ∧ cv.2 ≤ 1) ∧ ∃ cv ∈ r, cv.2 = 1 := by
  unfold evolFullG at h
  cases hm : evMeasureG S P B K rows with
  | none => rw [hm] at h; simp at h
  | some m =>
    rw [hm] at h
    simp only [Option.map_some, Option.some.injEq] at h
    subst h
    obtain ⟨h1, h2, h3⟩ := evMeasureG_spec S hmd P hperf B K rows m hm
    obtain ⟨r, hr, hc, hrest⟩ := tailO_contract P.big P.tiny P.eps ht ht1 P.symm m h3 i (by rw [h1]; exact hi)
    refine ⟨r, hr, ?_, hrest⟩
    intro j hj
    rcases hc j hj with h | h | ⟨h4, h5⟩
    · exact Or.inl h
    · exact Or.inr (Or.inl (h2 i j h))
    · exact Or.inr (Or.inr ⟨h4, h2 j i h5⟩)

/-- the common form of the contract when the code applies its mask (`k ≠ 1`): pattern inside the stored pattern of `A` plus
the diagonal (plus the transposed pattern with `symmetrize_measure`) -/
theorem evolFullG_contract_in_pattern (S : Scal α) (hmd : ∀ a, 0 ≤ S.md a) (P : Par) (ht : 0 < P.tiny) (ht1 : P.tiny ≤ 1)
    (hperf : 0 ≤ P.perf) (hk : P.k ≠ 1 ∨ 1 < P.bs) (B : DMat α) (K : Nat) (rows : List (RowOf α)) (out : List Row)
    (h : evolFullG S P B K rows = some out) (i : Nat) (hi : i < rows.length) :
    ∃ r, out[i]? = some r ∧
      (∀ j ∈ r.map Prod.fst, j = i ∨ j ∈ (rows.getD i []).map Prod.fst ∨
        (P.symm = true ∧ i ∈ (rows.getD j []).map Prod.fst)) ∧
      i ∈ r.map Prod.fst ∧ (∀ cv ∈ r, 0 ≤ cv.2 ∧ cv.2 ≤ 1) ∧ ∃ cv ∈ r, cv.2 = 1 := by
  obtain ⟨r, hr, hc, hrest⟩ := evolFullG_contract S hmd P ht ht1 hperf B K rows out h i hi
  have hm := (masked_iff P).2 hk
  refine ⟨r, hr, ?_, hrest⟩
  intro j hj
  rcases hc j hj with h | h | ⟨h4, h5⟩
  · exact Or.inl h
  · obtain ⟨v, hv, _⟩ := atPat_masked P hm rows i j h
    exact Or.inr (Or.inl (List.mem_map.2 ⟨(j, v), hv, rfl⟩))
  · obtain ⟨v, hv, _⟩ := atPat_masked P hm rows j i h5
    exact Or.inr (Or.inr ⟨h4, List.mem_map.2 ⟨(i, v), hv, rfl⟩⟩)

/-- **contract on BSR input** (`A.tocsr()`, mask of the same PDE, optional `block_flag`, `tobsr` + `min_blocks`): nodal
column `J` of nodal row `I` comes from a scalar position `(i, j)` of block `(I, J)` that is the diagonal or lies in the mask
(with `symmetrize_measure`: or in its transpose); the nodal diagonal is always stored; entries in `[0,1]`; row maximum `1` -/
theorem evolFullBsr_contract (S : Scal α) (hmd : ∀ a, 0 ≤ S.md a) (P : Par) (ht : 0 < P.tiny) (ht1 : P.tiny ≤ 1)
    (hb : 1 ≤ P.big) (hperf : 0 ≤ P.perf) (B : DMat α) (K : Nat) (X : Spmm.Bsr α) (out : List Row)
    (h : evolFullBsr S P B K X = some out) (I : Nat) (hI : I < (C14X.scalarRows X).length / P.bs) :
    ∃ r, out[I]? = some r ∧
      (∀ J ∈ r.map Prod.fst, ∃ i j, i / P.bs = I ∧ j / P.bs = J ∧ i < (C14X.scalarRows X).length ∧
        (j = i ∨ atPat P (C14X.scalarRows X) i j ∨ (P.symm = true ∧ atPat P (C14X.scalarRows X) j i))) ∧
      I ∈ r.map Prod.fst ∧ (∀ cv ∈ r, 0 ≤ cv.2 ∧ cv.2 ≤ 1) ∧ ∃ cv ∈ r, cv.2 = 1 := by
  unfold evolFullBsr at h
  cases hm : evMeasureG S P B K (C14X.scalarRows X) with
  | none => rw [hm] at h; simp at h
  | some m =>
    rw [hm] at h
    simp only [Option.map_some, Option.some.injEq] at h
    subst h
    obtain ⟨h1, h2, h3⟩ := evMeasureG_spec S hmd P hperf B K _ m hm
    obtain ⟨r, hr, hc, hrest⟩ := tailBsr_contract P.big P.tiny P.eps ht ht1 hb P.symm P.bs m h3 I (by rw [h1]; exact hI)
    refine ⟨r, hr, ?_, hrest⟩
    intro J hJ
    obtain ⟨i, j, hi, hj, hlt, hcl⟩ := hc J hJ
    refine ⟨i, j, hi, hj, by rw [← h1]; exact hlt, ?_⟩
    rcases hcl with h | h | ⟨h4, h5⟩
    · exact Or.inl h
    · exact Or.inr (Or.inl (h2 i j h))
    · exact Or.inr (Or.inr ⟨h4, h2 j i h5⟩)

end full

end PyamgV.C14Y
