import PyamgV.Proofs.ExtC10bCGS
import PyamgV.Proofs.C10Fit

/-! PyamgV (extension E24, property C10): the tentative prolongator of `fit_candidates` for **complex**
candidates: the complex versions of `fit_support`, `fit_cross_orthogonal`, `fit_local`,
`fit_reproduces` (`Proofs/C10Fit.lean`).

Scalars are pairs `(re, im)` over an ordered field `K` with a square-root function, a vector of
unknowns is a pair of real vectors `(ι → K) × (ι → K)`; the inner product is the conjugated dot product
of the kernel, `cip dotForm u v = Σᵢ conj(uᵢ)·vᵢ` (`dot(a, b) = conj(b)·a` in
`smoothed_aggregation.h`), norms are those of the realified Euclidean form.  `cfitAgg` is what the
kernel does for one aggregate (driver op `ext_c10b_p_cfit`, compared with the complex kernel through
`tentative.fit_candidates` on every Gaussian-rational instance of the check). -/
namespace PyamgV.C10
open PyamgV PyamgV.GS PyamgV.CGS

variable {K : Type*} [Field K] [LinearOrder K] [IsStrictOrderedRing K]
variable {ι : Type*} [Fintype ι]
variable {α : Type*} [DecidableEq α]

/-- complex candidate column `c` restricted to aggregate `a`; `B i c = (re, im)` -/
def cmasked (agg : ι → Option α) (B : ι → Nat → K × K) (a : α) (c : Nat) : (ι → K) × (ι → K) :=
  (fun i => if agg i = some a then (B i c).1 else 0, fun i => if agg i = some a then (B i c).2 else 0)

/-- what the kernel does for aggregate `a` with `K2` complex candidates -/
def cfitAgg (sqrt : K → K) (tol : K) (agg : ι → Option α) (B : ι → Nat → K × K) (K2 : Nat) (a : α) :
    CGS.COut K (ι → K) :=
  CGS.cmgs dotForm sqrt tol ((List.range K2).map (cmasked agg B a)) []

/-- vanishing (real and imaginary part) outside aggregate `a` -/
def CSuppIn (agg : ι → Option α) (a : α) (w : (ι → K) × (ι → K)) : Prop :=
  ∀ i, agg i ≠ some a → w.1 i = 0 ∧ w.2 i = 0

theorem csuppIn_masked (agg : ι → Option α) (B : ι → Nat → K × K) (a : α) (c : Nat) :
    CSuppIn agg a (cmasked agg B a c) := by
  intro i hi; simp [cmasked, hi]

theorem csuppIn_zero (agg : ι → Option α) (a : α) : CSuppIn agg a (0 : (ι → K) × (ι → K)) := by
  intro i _; exact ⟨rfl, rfl⟩

theorem csuppIn_csmul (agg : ι → Option α) (a : α) (v : (ι → K) × (ι → K)) (d : K × K)
    (hv : CSuppIn agg a v) : CSuppIn agg a (csmul d v) := by
  intro i hi
  obtain ⟨h1, h2⟩ := hv i hi
  rw [csmul_fst, csmul_snd]
  simp [h1, h2]

theorem csuppIn_add (agg : ι → Option α) (a : α) (u v : (ι → K) × (ι → K))
    (hu : CSuppIn agg a u) (hv : CSuppIn agg a v) : CSuppIn agg a (u + v) := by
  intro i hi
  obtain ⟨h1, h2⟩ := hu i hi
  obtain ⟨h3, h4⟩ := hv i hi
  simp [h1, h2, h3, h4]

theorem csuppIn_sub (agg : ι → Option α) (a : α) (u v : (ι → K) × (ι → K))
    (hu : CSuppIn agg a u) (hv : CSuppIn agg a v) : CSuppIn agg a (u - v) := by
  intro i hi
  obtain ⟨h1, h2⟩ := hu i hi
  obtain ⟨h3, h4⟩ := hv i hi
  simp [h1, h2, h3, h4]

theorem csuppIn_smul (agg : ι → Option α) (a : α) (u : (ι → K) × (ι → K)) (s : K)
    (hu : CSuppIn agg a u) : CSuppIn agg a (s • u) := by
  intro i hi
  obtain ⟨h1, h2⟩ := hu i hi
  simp [h1, h2]

theorem corth_csupp (agg : ι → Option α) (a : α) (e : EForm K (ι → K)) :
    ∀ (qs : List ((ι → K) × (ι → K))) (v : (ι → K) × (ι → K)), (∀ q ∈ qs, CSuppIn agg a q) →
      CSuppIn agg a v → CSuppIn agg a (corth e qs v).1 := by
  intro qs
  induction qs with
  | nil => intro v _ hv; simpa [corth] using hv
  | cons q qs ih =>
    intro v hq hv
    simp only [corth]
    exact ih _ (fun p hp => hq p (List.mem_cons_of_mem _ hp))
      (csuppIn_sub agg a v _ hv (csuppIn_csmul agg a q _ (hq q (List.mem_cons_self ..))))

theorem newCol_csupp (agg : ι → Option α) (a : α) (e : EForm K ((ι → K) × (ι → K))) (sqrt : K → K) (thr : K)
    (rem : (ι → K) × (ι → K)) (h : CSuppIn agg a rem) : CSuppIn agg a (newCol e sqrt thr rem).1 := by
  unfold newCol
  by_cases hn : sqrt (e.a rem rem) > thr
  · simp only [if_pos hn]; exact csuppIn_smul agg a rem _ h
  · simp only [if_neg hn]; exact csuppIn_zero agg a

theorem cmgs_csupp (agg : ι → Option α) (a : α) (e : EForm K (ι → K)) (sqrt : K → K) (tol : K) :
    ∀ (bs qs : List ((ι → K) × (ι → K))), (∀ b ∈ bs, CSuppIn agg a b) → (∀ q ∈ qs, CSuppIn agg a q) →
      ∀ q ∈ (cmgs e sqrt tol bs qs).q, CSuppIn agg a q := by
  intro bs
  induction bs with
  | nil => intro qs _ _ q hq; simp [cmgs] at hq
  | cons b bs ih =>
    intro qs hb hq q hmem
    have hrem := corth_csupp agg a e qs b hq (hb b (List.mem_cons_self ..))
    have hc := newCol_csupp agg a e.realify sqrt (tol * sqrt (e.realify.a b b)) _ hrem
    simp only [cmgs, List.mem_cons] at hmem
    rcases hmem with rfl | hmem
    · exact hc
    · refine ih (qs ++ [_]) (fun b' hb' => hb b' (List.mem_cons_of_mem _ hb')) ?_ q hmem
      intro p hp
      rcases List.mem_append.1 hp with hp | hp
      · exact hq p hp
      · have : p = (newCol e.realify sqrt (tol * sqrt (e.realify.a b b)) (corth e qs b).1).1 := by simpa using hp
        rw [this]; exact hc

/-- **pattern(T) = AggOp ⊗ block, unaggregated rows zero** (complex): real and imaginary part of a
column of aggregate `a` vanish on every unknown outside `a` -/
theorem cfit_support (sqrt : K → K) (tol : K) (agg : ι → Option α) (B : ι → Nat → K × K) (K2 : Nat) (a : α) :
    ∀ q ∈ (cfitAgg sqrt tol agg B K2 a).q, ∀ i, agg i ≠ some a → q.1 i = 0 ∧ q.2 i = 0 := by
  intro q hq
  refine cmgs_csupp agg a dotForm sqrt tol _ [] ?_ (by simp) q hq
  intro b hb
  obtain ⟨c, _, rfl⟩ := List.mem_map.1 hb
  exact csuppIn_masked agg B a c

/-- columns of different aggregates are orthogonal for the complex inner product -/
theorem cfit_cross_orthogonal (sqrt : K → K) (tol : K) (agg : ι → Option α) (B : ι → Nat → K × K) (K2 : Nat)
    (a a' : α) (h : a ≠ a') (q : (ι → K) × (ι → K)) (hq : q ∈ (cfitAgg sqrt tol agg B K2 a).q)
    (q' : (ι → K) × (ι → K)) (hq' : q' ∈ (cfitAgg sqrt tol agg B K2 a').q) :
    cip (dotForm (K := K)) q q' = 0 := by
  have key : ∀ (u v : ι → K), (∀ i, u i = 0 ∨ v i = 0) → (dotForm (K := K)).a u v = 0 := by
    intro u v huv
    rw [dotForm_apply]
    apply Finset.sum_eq_zero
    intro i _
    rcases huv i with h0 | h0 <;> simp [h0]
  have hz : ∀ i, (q.1 i = 0 ∧ q.2 i = 0) ∨ (q'.1 i = 0 ∧ q'.2 i = 0) := by
    intro i
    by_cases hi : agg i = some a
    · right
      have : agg i ≠ some a' := by rw [hi]; intro e; exact h (Option.some.inj e)
      exact cfit_support sqrt tol agg B K2 a' q' hq' i this
    · left; exact cfit_support sqrt tol agg B K2 a q hq i hi
  ext
  · rw [cip_re, key q.1 q'.1 (fun i => (hz i).imp And.left And.left),
      key q.2 q'.2 (fun i => (hz i).imp And.right And.right)]
    simp
  · rw [cip_im, key q.1 q'.2 (fun i => (hz i).imp And.left And.right),
      key q.2 q'.1 (fun i => (hz i).imp And.right And.left)]
    simp

theorem dotForm_realify_definite (w : (ι → K) × (ι → K)) (h : (dotForm (K := K)).realify.a w w = 0) : w = 0 := by
  rw [EForm.realify_apply] at h
  have h1 := (dotForm (K := K) (ι := ι)).nonneg w.1
  have h2 := (dotForm (K := K) (ι := ι)).nonneg w.2
  have e1 : (dotForm (K := K)).a w.1 w.1 = 0 := by linarith
  have e2 : (dotForm (K := K)).a w.2 w.2 = 0 := by linarith
  ext1
  · exact dotForm_definite w.1 e1
  · exact dotForm_definite w.2 e2

/-- columns of one aggregate (complex): pairwise orthogonal for the complex inner product, squared norm
`1` or `0`; exactly `K2` of them; `B` restricted to the aggregate is reproduced column by column up to
the discarded remainders, each zero or of norm at most `tol` times the norm of its candidate -/
theorem cfit_local (sqrt : K → K) (hsq : ∀ x, 0 ≤ x → sqrt x * sqrt x = x) (hsq0 : ∀ x, 0 ≤ sqrt x)
    (tol : K) (htol : 0 ≤ tol) (agg : ι → Option α) (B : ι → Nat → K × K) (K2 : Nat) (a : α) :
    let o := cfitAgg sqrt tol agg B K2 a
    CONZ dotForm o.q ∧ o.q.length = K2 ∧
    crecon [] o.q o.r o.drop = (List.range K2).map (cmasked agg B a) ∧
    (∀ d ∈ o.drop, d = 0 ∨ ∃ c < K2, sqrt ((dotForm (K := K)).realify.a d d) ≤
      tol * sqrt ((dotForm (K := K)).realify.a (cmasked agg B a c) (cmasked agg B a c))) := by
  have h := cmgs_spec (dotForm (K := K) (ι := ι)) dotForm_realify_definite sqrt hsq hsq0 tol htol
    ((List.range K2).map (cmasked agg B a)) [] trivial
  obtain ⟨h1, h2, h3, h4⟩ := h
  refine ⟨by simpa [cfitAgg] using h1, by simpa [cfitAgg] using h2, h3, ?_⟩
  intro d hd
  rcases h4 d hd with h0 | ⟨b, hb, hle⟩
  · exact Or.inl h0
  · obtain ⟨c, hc, rfl⟩ := List.mem_map.1 hb
    exact Or.inr ⟨c, List.mem_range.1 hc, hle⟩

/-! ### the product `T·B_c` as a sum over all coarse unknowns -/

theorem ccomb_csupp (agg : ι → Option α) (a : α) : ∀ (cs : List (K × K)) (qs : List ((ι → K) × (ι → K))),
    (∀ q ∈ qs, CSuppIn agg a q) → CSuppIn agg a (ccomb cs qs) := by
  intro cs
  induction cs with
  | nil => intro qs _; cases qs <;> exact csuppIn_zero agg a
  | cons c cs ih =>
    intro qs hq
    cases qs with
    | nil => exact csuppIn_zero agg a
    | cons q qs =>
      simp only [ccomb]
      exact csuppIn_add agg a _ _ (csuppIn_csmul agg a q c (hq q (List.mem_cons_self ..)))
        (ih qs (fun p hp => hq p (List.mem_cons_of_mem _ hp)))

/-- column `c` of `T_a · R_a` (complex) -/
def ccolTR (o : CGS.COut K (ι → K)) (c : Nat) : (ι → K) × (ι → K) :=
  ccomb (o.r.getD c ([], 0)).1 (o.q.take c) + (o.r.getD c ([], 0)).2 • o.q.getD c 0

theorem ccolTR_supp (sqrt : K → K) (tol : K) (agg : ι → Option α) (B : ι → Nat → K × K) (K2 : Nat) (a : α)
    (c : Nat) : CSuppIn agg a (ccolTR (cfitAgg sqrt tol agg B K2 a) c) := by
  have hs : ∀ q ∈ (cfitAgg sqrt tol agg B K2 a).q, CSuppIn agg a q := cfit_support sqrt tol agg B K2 a
  have h1 : CSuppIn agg a (ccomb ((cfitAgg sqrt tol agg B K2 a).r.getD c ([], 0)).1 ((cfitAgg sqrt tol agg B K2 a).q.take c)) :=
    ccomb_csupp agg a _ _ (fun q hq => hs q (List.mem_of_mem_take hq))
  have h2 : CSuppIn agg a ((cfitAgg sqrt tol agg B K2 a).q.getD c 0) := by
    by_cases hc : c < (cfitAgg sqrt tol agg B K2 a).q.length
    · have e : (cfitAgg sqrt tol agg B K2 a).q.getD c 0 = (cfitAgg sqrt tol agg B K2 a).q[c] := by
        simp [List.getD_eq_getElem?_getD, hc]
      rw [e]; exact hs _ (List.getElem_mem hc)
    · have e : (cfitAgg sqrt tol agg B K2 a).q.getD c 0 = 0 := by
        simp [List.getD_eq_getElem?_getD, Nat.le_of_not_lt hc]
      rw [e]; exact csuppIn_zero agg a
  exact csuppIn_add agg a _ _ h1 (csuppIn_smul agg a _ _ h2)

/-- **`T · B_c = B` on every aggregated unknown, complex candidates** (up to the remainders the drop
rule discarded): real and imaginary part of the sum of the contributions of all aggregates at an unknown
`i` of aggregate `a` are those of `B i c − drop_{a,c} i` -/
theorem cfit_reproduces [Fintype α] (sqrt : K → K) (hsq : ∀ x, 0 ≤ x → sqrt x * sqrt x = x)
    (hsq0 : ∀ x, 0 ≤ sqrt x) (tol : K) (htol : 0 ≤ tol) (agg : ι → Option α) (B : ι → Nat → K × K)
    (K2 : Nat) (a : α) (i : ι) (hi : agg i = some a) (c : Nat) (hc : c < K2) :
    (∑ a' : α, (ccolTR (cfitAgg sqrt tol agg B K2 a') c).1 i =
      (B i c).1 - ((cfitAgg sqrt tol agg B K2 a).drop.getD c 0).1 i) ∧
    (∑ a' : α, (ccolTR (cfitAgg sqrt tol agg B K2 a') c).2 i =
      (B i c).2 - ((cfitAgg sqrt tol agg B K2 a).drop.getD c 0).2 i) := by
  obtain ⟨_, hlen, hrec, _⟩ := cfit_local sqrt hsq hsq0 tol htol agg B K2 a
  obtain ⟨hr, hd, _⟩ := cmgs_lengths (dotForm (K := K) (ι := ι)) sqrt tol ((List.range K2).map (cmasked agg B a)) []
  have hq : (cfitAgg sqrt tol agg B K2 a).q.length = K2 := hlen
  have hr' : (cfitAgg sqrt tol agg B K2 a).r.length = (cfitAgg sqrt tol agg B K2 a).q.length := by
    rw [hq]; simpa [cfitAgg] using hr
  have hd' : (cfitAgg sqrt tol agg B K2 a).drop.length = (cfitAgg sqrt tol agg B K2 a).q.length := by
    rw [hq]; simpa [cfitAgg] using hd
  have key := crecon_getD (cfitAgg sqrt tol agg B K2 a).q [] (cfitAgg sqrt tol agg B K2 a).r
    (cfitAgg sqrt tol agg B K2 a).drop hr' hd' c (by rw [hq]; exact hc)
  rw [hrec] at key
  have hb : ((List.range K2).map (cmasked agg B a)).getD c 0 = cmasked agg B a c := by
    simp [List.getD_eq_getElem?_getD, hc]
  rw [hb, List.nil_append] at key
  have hne : ∀ a' : α, a' ≠ a → agg i ≠ some a' := by
    intro a' hne; rw [hi]; intro e; exact hne (Option.some.inj e).symm
  constructor
  · rw [Finset.sum_eq_single a]
    · have h1 := congrFun (congrArg Prod.fst key) i
      simp only [cmasked, hi, if_true, Prod.fst_add, Pi.add_apply] at h1
      simp only [ccolTR, Prod.fst_add, Pi.add_apply]
      rw [h1]; ring
    · intro a' _ hne'
      exact (ccolTR_supp sqrt tol agg B K2 a' c i (hne a' hne')).1
    · intro h; exact absurd (Finset.mem_univ a) h
  · rw [Finset.sum_eq_single a]
    · have h1 := congrFun (congrArg Prod.snd key) i
      simp only [cmasked, hi, if_true, Prod.snd_add, Pi.add_apply] at h1
      simp only [ccolTR, Prod.snd_add, Pi.add_apply]
      rw [h1]; ring
    · intro a' _ hne'
      exact (ccolTR_supp sqrt tol agg B K2 a' c i (hne a' hne')).2
    · intro h; exact absurd (Finset.mem_univ a) h

#print axioms cfit_support
#print axioms cfit_cross_orthogonal
#print axioms cfit_local
#print axioms cfit_reproduces
end PyamgV.C10
