import PyamgV.Model.C05Flag

/-! PyamgV (C05, decision table of the code as it is now): if `change_smoothers` reports
`symmetric_smoothing = True`, the per-level test `levelOk` holds for the smoother pair *installed on
every level* -- including the levels beyond the examined ones, which the code fills with the last
entries without testing them again (`flag_sound`); and `levelOk` accepts exactly four shapes of
pairs (`levelOk_shape`), all with equal iteration counts and -- for equal names -- equal remaining
options (`sameParameters_lookup`). Core Lean only. -/
namespace PyamgV.C05

theorem flag_some (pre post : List Cfg) (nl : Nat) (b : Bool) (h : flag pre post nl = some b) :
    b = (List.range (testedLevels pre post nl)).all (fun i => levelOk (preAt pre i) (postAt post i)) := by
  unfold flag at h
  split at h
  · exact (Option.some.inj h).symm
  · exact absurd h (by simp)

/-- every installed specification is accepted by its setup function when `change_smoothers` returns -/
theorem flag_valid (pre post : List Cfg) (nl : Nat) (b : Bool) (h : flag pre post nl = some b) :
    ∀ i, i < nl → valid (preAt pre i) = true ∧ valid (postAt post i) = true := by
  unfold flag at h
  split at h
  · rename_i hv
    intro i hi
    have := (List.all_eq_true.1 hv) i (List.mem_range.2 hi)
    simpa using this
  · exact absurd h (by simp)

/-- **flag ⇒ the per-level test holds on every level** (also on those filled in without a test) -/
theorem flag_sound (pre post : List Cfg) (nl : Nat) (hp : 1 ≤ pre.length) (hq : 1 ≤ post.length)
    (h : flag pre post nl = some true) :
    ∀ i, i < nl → levelOk (preAt pre i) (postAt post i) = true := by
  have h := (flag_some pre post nl true h).symm
  simp only [List.all_eq_true, List.mem_range] at h
  unfold testedLevels at h
  intro i hi
  by_cases heq : pre.length = post.length
  · simp only [if_pos heq] at h
    by_cases hlt : i < min (min pre.length post.length) nl
    · exact h i hlt
    · have := h (pre.length - 1) (by omega)
      unfold preAt postAt at this ⊢
      have e1 : min i (pre.length - 1) = min (pre.length - 1) (pre.length - 1) := by omega
      have e2 : min i (post.length - 1) = min (pre.length - 1) (post.length - 1) := by omega
      rw [e1, e2]; exact this
  · simp only [if_neg heq] at h
    by_cases hlt : i < min (max pre.length post.length) nl
    · exact h i hlt
    · have := h (max pre.length post.length - 1) (by omega)
      unfold preAt postAt at this ⊢
      have e1 : min i (pre.length - 1) = min (max pre.length post.length - 1) (pre.length - 1) := by
        omega
      have e2 : min i (post.length - 1) = min (max pre.length post.length - 1) (post.length - 1) := by
        omega
      rw [e1, e2]; exact this

/-- conversely the flag is `False` as soon as one *examined* level fails the test -/
theorem flag_false_of_level (pre post : List Cfg) (nl : Nat) (b : Bool) (h : flag pre post nl = some b)
    (i : Nat) (hi : i < testedLevels pre post nl)
    (hbad : levelOk (preAt pre i) (postAt post i) = false) : b = false := by
  rw [flag_some pre post nl b h]
  apply List.all_eq_false.2
  exact ⟨i, List.mem_range.2 hi, by simp [hbad]⟩

/-- `_same_parameters` gives equal values (or absence on both sides) for every key but `'sweep'` -/
theorem sameParameters_lookup (a b : Cfg) (h : sameParameters a b = true) (k : String)
    (hk : k ≠ "sweep") : a.kw.lookup k = b.kw.lookup k := by
  unfold sameParameters at h
  rw [List.all_eq_true] at h
  by_cases hm : k ∈ a.kw.map (·.1) ++ b.kw.map (·.1)
  · have := h k hm
    simpa [hk] using this
  · have ha : k ∉ a.kw.map (·.1) := fun hh => hm (List.mem_append.2 (Or.inl hh))
    have hb : k ∉ b.kw.map (·.1) := fun hh => hm (List.mem_append.2 (Or.inr hh))
    have none_of : ∀ (l : List (String × Val)), k ∉ l.map (·.1) → l.lookup k = none := by
      intro l hl
      induction l with
      | nil => rfl
      | cons kv rest ih =>
        have h1 : k ≠ kv.1 := fun e => hl (by simp [e])
        have h2 : k ∉ rest.map (·.1) := fun hh => hl (by simp only [List.map_cons, List.mem_cons]; exact Or.inr hh)
        obtain ⟨k', v'⟩ := kv
        have h1' : (k == k') = false := by simpa using h1
        rw [List.lookup_cons, h1']
        exact ih h2
    rw [none_of _ ha, none_of _ hb]

theorem sameParameters_get (a b : Cfg) (h : sameParameters a b = true) (k : String)
    (hk : k ≠ "sweep") (d : Val) : get a k d = get b k d := by
  unfold get; rw [sameParameters_lookup a b h k hk]

/-- what `levelOk` accepts: equal iteration counts and one of three shapes (cf/fc pairs also need equal
remaining options since commit 47b225a) -/
theorem levelOk_shape (a b : Cfg) (h : levelOk a b = true) :
    get a "iterations" defaultNiter = get b "iterations" defaultNiter ∧
    (((a.name, b.name) ∈ cfPairs ∧
        get a "f_iterations" defaultNiter = get b "f_iterations" defaultNiter ∧
        get a "c_iterations" defaultNiter = get b "c_iterations" defaultNiter ∧
        sameParameters a b = true) ∨
     ((a.name, b.name) ∉ cfPairs ∧ a.name = b.name ∧ sameParameters a b = true ∧
        a.name ∉ krylovRelaxation ∧
        (a.name ∈ symmetricRelaxation ∨
         (a.name ∉ cfFcNames ∧ (get a "sweep" defaultSweep, get b "sweep" defaultSweep) ∈ sweepPairs)))) := by
  unfold levelOk at h
  by_cases h1 : get a "iterations" defaultNiter ≠ get b "iterations" defaultNiter
  · rw [if_pos h1] at h; exact absurd h (by decide)
  · rw [if_neg h1] at h
    refine ⟨by simpa using h1, ?_⟩
    by_cases h2 : (a.name, b.name) ∈ cfPairs
    · rw [if_pos h2] at h
      simp only [Bool.and_eq_true, beq_iff_eq] at h
      exact Or.inl ⟨h2, h.1.1, h.1.2, h.2⟩
    · rw [if_neg h2] at h
      by_cases h3 : a.name ≠ b.name ∨ sameParameters a b = false
      · rw [if_pos h3] at h; exact absurd h (by decide)
      · rw [if_neg h3] at h
        have h3a : a.name = b.name := by
          by_cases e : a.name = b.name
          · exact e
          · exact absurd (Or.inl e) h3
        have h3b : sameParameters a b = true := by
          cases hs : sameParameters a b
          · exact absurd (Or.inr hs) h3
          · rfl
        by_cases h4 : a.name ∈ krylovRelaxation ∨ b.name ∈ krylovRelaxation
        · rw [if_pos h4] at h; exact absurd h (by decide)
        · rw [if_neg h4] at h
          refine Or.inr ⟨h2, h3a, h3b, fun hk => h4 (Or.inl hk), ?_⟩
          by_cases h5 : a.name ∉ symmetricRelaxation
          · rw [if_pos h5] at h
            by_cases h6 : a.name ∈ cfFcNames
            · rw [if_pos h6] at h; exact absurd h (by decide)
            · rw [if_neg h6] at h
              exact Or.inr ⟨h6, by simpa using h⟩
          · exact Or.inl (by simpa using h5)

end PyamgV.C05
