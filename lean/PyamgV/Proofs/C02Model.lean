import PyamgV.Proofs.C02Jacobi

/-! PyamgV (C02 glue, continued): the executable cycle model `PyamgV.C02.cycle` read as functions is
the abstract recursion `cyc`, and the energy theorem for the model. -/
namespace PyamgV

variable {R : Type} [Field R] [LinearOrder R] [IsStrictOrderedRing R] [DecidableEq R]

/-! Part 3: smoothers, levels, and the cycle. -/

theorem kiter_refines (f : Array R → Array R) (g : (Nat → R) → (Nat → R) → (Nat → R)) (b : Nat → R) (n : Nat)
    (h : ∀ x : Array R, x.size = n → (f x).size = n ∧ fn (f x) = g (fn x) b) :
    ∀ (k : Nat) (x : Array R), x.size = n →
      (K.iter f k x).size = n ∧ fn (K.iter f k x) = iter g b k (fn x) := by
  intro k
  induction k with
  | zero => intro x hx; exact ⟨hx, rfl⟩
  | succ k ih =>
    intro x hx
    obtain ⟨h1, h2⟩ := h x hx
    have := ih (f x) h1
    simp only [K.iter, PyamgV.iter]
    rw [← h2]; exact this


/-- the smoother of the model as a map on functions `(x, b) ↦ x'` -/
def smF : C02.Sm R → K.Csr R → (Nat → R) → (Nat → R) → (Nat → R)
  | .none, _ => fun x _ => x
  | .gs ω sw it, A => fun x b =>
      if ω = 1 then gsSweepFn (rowOf A) b (pyOrder A.n it sw) x
      else sorSweepFn ω (rowOf A) b (pyOrder A.n it sw) x
  | .jac ω it, A => fun x b =>
      iter (fun x b => jacSweepFn ω (rowOf A) b x (List.range A.n) x) b it x

theorem sm_refines (s : C02.Sm R) (A : K.Csr R) (b x : Array R) (hx : x.size = A.n) :
    (s.run A b x).size = x.size ∧ fn (s.run A b x) = smF s A (fn x) (fn b) := by
  cases s with
  | none => exact ⟨rfl, rfl⟩
  | jac ω it =>
    simp only [C02.Sm.run, smF, K.pyJacobi]
    have := kiter_refines (fun x => K.jacobi ω A b (List.range A.n) (Array.replicate x.size 0) x)
      (fun x b => jacSweepFn ω (rowOf A) b x (List.range A.n) x) (fn b) A.n
      (fun x hx => jacobi_refines ω A b x A.n hx) it x hx
    exact ⟨by rw [this.1, hx], this.2⟩
  | gs ω sw it =>
    have hrows : ∀ i ∈ pyOrder A.n it sw, i < x.size := fun i hi => by
      rw [hx]; exact pyOrder_lt _ _ _ i hi
    simp only [C02.Sm.run, smF]
    rw [pyGaussSeidel_eq]
    by_cases hω : ω = 1
    · rw [if_pos hω, if_pos hω]; exact gaussSeidel_refines A b _ x hrows
    · rw [if_neg hω, if_neg hω]; exact sorGaussSeidel_refines ω A b _ x hrows

/-- a level of the model as a level of the abstract recursion -/
def toLevel (L : C02.Lvl R) : Level R (Nat → R) :=
  ⟨csrOp L.A.n (rowOf L.A), csrOp L.P.n (rowOf L.P), csrOp L.R.n (rowOf L.R), smF L.pre L.A, smF L.post L.A⟩

def ctype : C02.Cyc → Nat → CType
  | .V, _ => .V
  | .W, _ => .W
  | .F, k => .F k

/-- shapes: the level sizes chain down to the size `nc` of the coarsest problem -/
def Shaped (nc : Nat) : Nat → List (C02.Lvl R) → Prop
  | n, [] => n = nc
  | n, L :: rest => L.A.n = n ∧ L.P.n = n ∧ Shaped nc L.R.n rest

theorem iterN_refines (f : Array R → Array R) (g : (Nat → R) → (Nat → R)) (m : Nat)
    (h : ∀ cx : Array R, cx.size = m → (f cx).size = m ∧ fn (f cx) = g (fn cx)) :
    ∀ (k : Nat) (cx : Array R), cx.size = m →
      (C02.iterN f k cx).size = m ∧ fn (C02.iterN f k cx) = iter (fun x _ => g x) (0 : Nat → R) k (fn cx) := by
  intro k
  induction k with
  | zero => intro cx hcx; exact ⟨hcx, rfl⟩
  | succ k ih =>
    intro cx hcx
    obtain ⟨h1, h2⟩ := h cx hcx
    have := ih (f cx) h1
    simp only [C02.iterN, PyamgV.iter]
    rw [← h2]; exact this

theorem iter_congr_b (f : (Nat → R) → (Nat → R) → (Nat → R)) (b : Nat → R) :
    ∀ (k : Nat) (x : Nat → R), iter (fun x _ => f x b) (0 : Nat → R) k x = iter f b k x := by
  intro k
  induction k with
  | zero => intro x; rfl
  | succ k ih => intro x; simp only [PyamgV.iter]; exact ih _

/-- **the executable cycle model, read as functions, is the abstract recursion `cyc`** (and keeps
the vector sizes) -/
theorem cycle_refines (solve : Array R → Array R) (solveF : (Nat → R) → (Nat → R)) (nc : Nat)
    (hsolve : ∀ b : Array R, b.size = nc → (solve b).size = nc ∧ fn (solve b) = solveF (fn b)) :
    ∀ (ls : List (C02.Lvl R)) (c : C02.Cyc) (cpl n : Nat) (x b : Array R),
      Shaped nc n ls → x.size = n → b.size = n →
      (C02.cycle solve c cpl ls x b).size = n ∧
      fn (C02.cycle solve c cpl ls x b) =
        cyc solveF (ctype c cpl) (ls.map toLevel) (fn x) (fn b) := by
  intro ls
  induction ls with
  | nil =>
    intro c cpl n x b hs hx hb
    have hn : n = nc := hs
    subst hn
    obtain ⟨h1, h2⟩ := hsolve b hb
    simp only [C02.cycle, List.map_nil, cyc]
    exact ⟨h1, h2⟩
  | cons L rest ih =>
    intro c cpl n x b hs hx hb
    obtain ⟨hAn, hPn, hrest⟩ := hs
    -- pre-smoothing
    obtain ⟨hx1s, hx1⟩ := sm_refines L.pre L.A b x (by rw [hx, hAn])
    set x1 := L.pre.run L.A b x with hx1def
    have hx1n : x1.size = n := by rw [hx1s, hx]
    -- residual and coarse right-hand side
    set residual := C02.vsub b (C02.spmv L.A x1) with hres
    have hresf : fn residual = fn b - csrOp L.A.n (rowOf L.A) (fn x1) := by
      rw [hres, vsub_refines _ _ (by rw [spmv_size, hb, hAn]), spmv_refines]
    set cb := C02.spmv L.R residual with hcb
    have hcbs : cb.size = L.R.n := spmv_size _ _
    have hcbf : fn cb = csrOp L.R.n (rowOf L.R) (fn residual) := spmv_refines _ _
    have hz : (C02.zeros cb.size : Array R).size = L.R.n := by rw [zeros_size, hcbs]
    have hzf : fn (C02.zeros cb.size : Array R) = 0 := zeros_refines _
    -- the coarse iterate
    have hcoarse : ∃ cx : Array R, cx.size = L.R.n ∧
        C02.cycle solve c cpl (L :: rest) x b = L.post.run L.A b (C02.vadd x1 (C02.spmv L.P cx)) ∧
        fn cx = (match ctype c cpl with
          | .V => cyc solveF .V (rest.map toLevel) 0 (fn cb)
          | .W => cyc solveF .W (rest.map toLevel) (cyc solveF .W (rest.map toLevel) 0 (fn cb)) (fn cb)
          | .F k => iter (cyc solveF .V (rest.map toLevel)) (fn cb) k
                      (cyc solveF (.F k) (rest.map toLevel) 0 (fn cb))) := by
      cases rest with
      | nil =>
        have hm : L.R.n = nc := hrest
        obtain ⟨h1, h2⟩ := hsolve cb (by rw [hcbs, hm])
        refine ⟨solve cb, by rw [h1, hm], rfl, ?_⟩
        rw [h2]
        cases c <;> simp only [ctype, List.map_nil, cyc]
        exact (iter_ignore solveF (fn cb) cpl).symm
      | cons L' rest' =>
        cases c with
        | V =>
          obtain ⟨h1, h2⟩ := ih .V 1 L.R.n _ cb hrest hz hcbs
          refine ⟨_, h1, rfl, ?_⟩
          rw [h2, hzf]; rfl
        | W =>
          obtain ⟨h1, h2⟩ := ih .W 1 L.R.n _ cb hrest hz hcbs
          obtain ⟨h3, h4⟩ := ih .W 1 L.R.n _ cb hrest h1 hcbs
          refine ⟨_, h3, rfl, ?_⟩
          rw [h4, h2, hzf]; rfl
        | F =>
          obtain ⟨h1, h2⟩ := ih .F cpl L.R.n _ cb hrest hz hcbs
          have hstep : ∀ cx : Array R, cx.size = L.R.n →
              (C02.cycle solve .V 1 (L' :: rest') cx cb).size = L.R.n ∧
              fn (C02.cycle solve .V 1 (L' :: rest') cx cb) =
                cyc solveF .V ((L' :: rest').map toLevel) (fn cx) (fn cb) := by
            intro cx hcx
            exact ih .V 1 L.R.n cx cb hrest hcx hcbs
          obtain ⟨h3, h4⟩ := iterN_refines _ (fun g => cyc solveF .V ((L' :: rest').map toLevel) g (fn cb))
            L.R.n hstep cpl _ h1
          refine ⟨_, h3, rfl, ?_⟩
          rw [h4, iter_congr_b, h2, hzf]; rfl
    obtain ⟨cx, hcxs, hcyc, hcxf⟩ := hcoarse
    rw [hcyc]
    set x2 := C02.vadd x1 (C02.spmv L.P cx) with hx2
    have hx2s : x2.size = n := by rw [hx2, vadd_size, hx1n]
    have hx2f : fn x2 = fn x1 + csrOp L.P.n (rowOf L.P) (fn cx) := by
      rw [hx2, vadd_refines _ _ (by rw [spmv_size, hx1n, hPn]), spmv_refines]
    obtain ⟨hps, hpf⟩ := sm_refines L.post L.A b x2 (by rw [hx2s, hAn])
    refine ⟨by rw [hps, hx2s], ?_⟩
    rw [hpf, hx2f, hcxf, hx1, hcbf, hresf, hx1]
    cases c <;> simp only [ctype, List.map_cons, cyc, toLevel]

/-! Part 4: the energy theorem for the executable model. -/

/-- admissible smoothers: none; Gauss-Seidel / SOR with `0 ≤ ω ≤ 2`; Jacobi with the `ω` actually
used, non-zero diagonal and the damping bound `ω·A ≤ 2·D` in the form
`ω‖D⁻¹r‖²_A ≤ 2⟨D⁻¹r, r⟩` (i.e. `ω·λ_max(D⁻¹A) ≤ 2`) -/
def smOK : C02.Sm R → K.Csr R → (Nat → R) → Prop
  | .none, _, _ => True
  | .gs ω _ _, _, _ => 0 ≤ ω ∧ ω ≤ 2
  | .jac ω _, A, diag => 0 ≤ ω ∧ (∀ i, i < A.n → diag i ≠ 0) ∧
      ∀ r, ω * (euc R A.n).a (csrOp A.n (rowOf A) (jacDinv A.n diag r)) (jacDinv A.n diag r) ≤
        2 * (euc R A.n).a (jacDinv A.n diag r) r

theorem smF_nonexp (s : C02.Sm R) (A : K.Csr R) (hs hp)
    (diag : Nat → R) (hdiag : ∀ i, i < A.n → HasDiag i (rowOf A i) (diag i)) (hok : smOK s A diag) :
    NonExp ((euc R A.n).ofOp (csrOp A.n (rowOf A)) hs hp) (csrOp A.n (rowOf A)) (smF s A) := by
  cases s with
  | none => exact NonExp.id _ _
  | jac ω it =>
    obtain ⟨h0, hnz, hD⟩ := hok
    have hop : (fun x b => jacSweepFn ω (rowOf A) b x (List.range A.n) x) =
        (fun x b => x + ω • jacDinv A.n diag (b - csrOp A.n (rowOf A) x)) := by
      funext x b
      exact jacSweep_eq_operator ω A.n (rowOf A) diag (fun i hi => ⟨hdiag i hi, hnz i hi⟩) b x
    have h1 := jacobi_nonexp (euc R A.n) (csrOp A.n (rowOf A)) (jacDinv A.n diag) hs hp ω h0 hD
    simp only [smF]
    rw [hop]
    exact h1.iter it
  | gs ω sw it =>
    simp only [smF]
    by_cases hω : ω = 1
    · have := gsSweep_nonexp A.n (rowOf A) hs hp diag hdiag (pyOrder A.n it sw) (pyOrder_lt _ _ _)
      simp only [hω, if_true]
      exact NonExp.congr (fun _ => rfl) this
    · have := sorSweep_nonexp ω hok.1 hok.2 A.n (rowOf A) hs hp diag hdiag (pyOrder A.n it sw)
        (pyOrder_lt _ _ _)
      simp only [hω, if_false]
      exact NonExp.congr (fun _ => rfl) this

/-- the matrix of the level below: the next level's `A`, or the coarsest matrix -/
def nextA (Ac : K.Csr R) : List (C02.Lvl R) → K.Csr R
  | [] => Ac
  | L :: _ => L.A

/-- what the data of a model hierarchy has to satisfy (in the semantics of the arrays): per level
`R` is the transpose of `P`, the next matrix is the Galerkin product and has the matching size, every
row of `A` stores exactly one diagonal entry, the smoothers are admissible, the coarse problems are
solvable; the coarsest solve is exact in the energy norm. -/
def WFModel (solveF : (Nat → R) → (Nat → R)) (Ac : K.Csr R) : List (C02.Lvl R) → Prop
  | [] => ∀ b xs, csrOp Ac.n (rowOf Ac) xs = b →
      (euc R Ac.n).a (csrOp Ac.n (rowOf Ac) (xs - solveF b)) (xs - solveF b) = 0
  | L :: rest =>
      IsAdj (euc R L.A.n) (euc R L.R.n) (csrOp L.P.n (rowOf L.P)) (csrOp L.R.n (rowOf L.R)) ∧
      (nextA Ac rest).n = L.R.n ∧
      csrOp L.R.n (rowOf (nextA Ac rest)) =
        csrOp L.R.n (rowOf L.R) ∘ₗ csrOp L.A.n (rowOf L.A) ∘ₗ csrOp L.P.n (rowOf L.P) ∧
      (∃ diag : Nat → R, (∀ i, i < L.A.n → HasDiag i (rowOf L.A i) (diag i)) ∧
        smOK L.pre L.A diag ∧ smOK L.post L.A diag) ∧
      (∀ r, ∃ w, (csrOp L.R.n (rowOf L.R) ∘ₗ csrOp L.A.n (rowOf L.A) ∘ₗ csrOp L.P.n (rowOf L.P)) w =
        csrOp L.R.n (rowOf L.R) r) ∧
      WFModel solveF Ac rest

theorem WFModel.toWFG (solveF : (Nat → R) → (Nat → R)) (Ac : K.Csr R) :
    ∀ (ls : List (C02.Lvl R)), WFModel solveF Ac ls →
      WFG solveF (euc R (nextA Ac ls).n) (csrOp (nextA Ac ls).n (rowOf (nextA Ac ls)))
        (ls.map (fun L => (euc R L.R.n, toLevel L))) := by
  intro ls
  induction ls with
  | nil => intro h; exact h
  | cons L rest ih =>
    intro h
    obtain ⟨hadj, hn, hgal, ⟨diag, hdiag, hpre, hpost⟩, hsolv, hrest⟩ := h
    have := ih hrest
    rw [hn, hgal] at this
    exact ⟨rfl, hadj, fun hs hp => smF_nonexp L.pre L.A hs hp diag hdiag hpre,
      fun hs hp => smF_nonexp L.post L.A hs hp diag hdiag hpost, hsolv, this⟩

/-- **C02 for the executable model**: on a model hierarchy whose data satisfy `WFModel` (Galerkin,
`R = Pᵀ`, Gauss-Seidel/SOR smoothing with `0 ≤ ω ≤ 2` in any sweep mode, Jacobi smoothing under its
damping bound, exact coarsest solve) and a
symmetric positive semidefinite finest matrix, one V-, W- or F(k)-cycle *of the arrays-and-kernels
model the driver runs against the code* does not increase the energy of the error, for every `x`,
`b` of the right size and every solution `x*` of `A x* = b`. -/
theorem model_cycle_nonexp (solve : Array R → Array R) (solveF : (Nat → R) → (Nat → R))
    (Ac : K.Csr R) (ls : List (C02.Lvl R))
    (hsolve : ∀ b : Array R, b.size = Ac.n → (solve b).size = Ac.n ∧ fn (solve b) = solveF (fn b))
    (hshape : Shaped Ac.n (nextA Ac ls).n ls) (hwf : WFModel solveF Ac ls)
    (hsym : IsAdj (euc R (nextA Ac ls).n) (euc R (nextA Ac ls).n)
      (csrOp (nextA Ac ls).n (rowOf (nextA Ac ls))) (csrOp (nextA Ac ls).n (rowOf (nextA Ac ls))))
    (hpsd : ∀ v, 0 ≤ (euc R (nextA Ac ls).n).a (csrOp (nextA Ac ls).n (rowOf (nextA Ac ls)) v) v)
    (c : C02.Cyc) (cpl : Nat) (x b : Array R) (hx : x.size = (nextA Ac ls).n)
    (hb : b.size = (nextA Ac ls).n) (xs : Nat → R)
    (hxs : csrOp (nextA Ac ls).n (rowOf (nextA Ac ls)) xs = fn b) :
    ((euc R (nextA Ac ls).n).ofOp _ hsym hpsd).en (xs - fn (C02.cycle solve c cpl ls x b)) ≤
    ((euc R (nextA Ac ls).n).ofOp _ hsym hpsd).en (xs - fn x) := by
  obtain ⟨_, href⟩ := cycle_refines solve solveF Ac.n hsolve ls c cpl _ x b hshape hx hb
  rw [href]
  have hg := cycle_nonexp_of_galerkin solveF (ctype c cpl) _ _ _ hsym hpsd (WFModel.toWFG solveF Ac ls hwf)
  have hmap : (ls.map (fun L => (euc R L.R.n, toLevel L))).map Prod.snd = ls.map toLevel := by
    rw [List.map_map]; rfl
  rw [hmap] at hg
  exact hg (fn x) (fn b) xs hxs

end PyamgV
