import PyamgV.Proofs.ExtC07Hh

/-! PyamgV (C07, extension E11): **flexible GMRES** -- the executable model `fgStep` of one cycle of
`pyamg/krylov/_fgmres.py` (`Model/ExtC07Hh.lean`: Householder--Arnoldi, Givens rotations, back substitution,
`x = x₀ + Z y`), over a `K`-module with an orthonormal coordinate family and an exact square root.

`fgmres_hh_optimal`: after `m + 1 < n` inner iterations (start residual non-zero, triangular factor non-singular)
the recorded iterate minimises the 2-norm of the *true* residual `b − A x` over `x₀ + span{z_0 … z_m}`, where
`z_j = pre j (v_j)` are the preconditioned directions (`fgmres_hh_directions`: `v_0 … v_m` orthonormal) -- for
*any* maps `pre j : V → V` (a preconditioner that changes from step to step, linear or not). -/
namespace PyamgV.C07
open Finset

variable {K : Type} [Field K] [LinearOrder K] [IsStrictOrderedRing K]
variable {V : Type} [AddCommGroup V] [Module K V]
variable (A AH M : V →ₗ[K] V) (e : EForm K V) (E : Nat → V) (sqrt : K → K) (n : Nat) (pre : Nat → V → V) (b x0 : V)

/-- the states of the FGMRES model over the module -/
def fgSeq (k : Nat) : HhSt K V :=
  iter (fgStep (HOps.ofModule A AH M e E) sqrt sgnK nzK n pre x0) k
    (hhInit (HOps.ofModule A AH M e E) sqrt sgnK (b - A x0))

/-- the iterates of the model are the `xs` of these states -/
theorem fgmresHh_eq (k : Nat) :
    fgmresHh (HOps.ofModule A AH M e E) sqrt sgnK nzK n pre b x0 k = (fgSeq A AH M e E sqrt n pre b x0 k).xs := rfl

local notation "St" => fgSeq A AH M e E sqrt n pre b x0

/-- `−beta` of the code: `g[0]`, the coefficient of the start residual with respect to `v_0` -/
def fgBeta : K := -(sgnK (e.a (E 0) (b - A x0)) * sqrt (e.a (b - A x0) (b - A x0)))

/-- the directions are the preconditioned Arnoldi vectors -/
def FgDir (k : Nat) (ws zs : List V) : Prop := ∀ j, j < k → zs.getD j 0 = pre j (hhL e ws.reverse (E j))

variable (hdef : ∀ v, e.a v v = 0 → v = 0) (hsq : ∀ a, 0 ≤ a → sqrt a * sqrt a = a) (hsq0 : ∀ a, 0 ≤ sqrt a)
variable (hE : OrthoFam e E n)

include hdef hsq hsq0 hE in
/-- **every state `k < n` of the FGMRES model carries the Householder--Arnoldi and the Givens invariant** -/
theorem fgSeq_inv (hbeta : sqrt (e.a (b - A x0) (b - A x0)) ≠ 0) : ∀ k, k < n →
    HhInv e E A k (fgBeta A e E sqrt b x0) (b - A x0) (St k).ws (St k).zs (St k).cols ∧
    GivL n k (fgBeta A e E sqrt b x0) (St k).cols (St k).rcols (St k).cs (St k).sn (St k).g ∧
    FgDir e E pre k (St k).ws (St k).zs := by
  intro k
  induction k with
  | zero =>
    intro hn
    obtain ⟨h1, h2⟩ := hhInv_init A AH M sqrt hsq hsq0 hE hn A (b - A x0) hbeta
    refine ⟨h1, ?_, fun j hj => by omega⟩
    have hg : (St 0).g = [fgBeta A e E sqrt b x0] := h2
    have h0 : (St 0).cols = [] ∧ (St 0).rcols = [] ∧ (St 0).cs = [] ∧ (St 0).sn = [] := ⟨rfl, rfl, rfl, rfl⟩
    rw [hg, h0.1, h0.2.1, h0.2.2.1, h0.2.2.2]
    exact givL_init n _
  | succ k ih =>
    intro hk
    obtain ⟨iH, iG, iD⟩ := ih (by omega)
    have hstep : St (k+1) = fgStep (HOps.ofModule A AH M e E) sqrt sgnK nzK n pre x0 (St k) := rfl
    rw [hstep]
    generalize St k = s at iH iG iD
    have hA : (HOps.ofModule A AH M e E).o.A = fun v => A v := rfl
    simp only [fgStep, hA]
    rw [iH.lcols]
    obtain ⟨sH, sz, sl, sstab⟩ := hhInv_step A AH M sqrt hdef hsq hsq0 hE A k hk _ _ s.ws s.zs s.cols iH (pre k) x0
    refine ⟨sH, givL_step sqrt hsq n k _ s.cols s.rcols s.cs s.sn s.g iG _ sl, ?_⟩
    intro j hj
    by_cases hjk : j < k
    · rw [getD_append_lt _ _ _ _ (by rw [iH.lzs]; exact hjk), sstab j (by omega)]
      exact iD j hjk
    · have : j = k := by omega
      subst this
      have := getD_append_len s.zs
        (hhArnoldi (HOps.ofModule A AH M e E) sqrt sgnK nzK n (pre j) (fun v => A v) s.ws j x0).z (0 : V)
      rw [iH.lzs] at this
      rw [sstab j (le_refl j)]
      exact this.trans sz

include hdef hsq hsq0 hE in
/-- the directions of FGMRES: `z_j = pre j (v_j)` with `v_0 … v_k` orthonormal (Householder: unconditionally,
also through a breakdown) -/
theorem fgmres_hh_directions (hbeta : sqrt (e.a (b - A x0) (b - A x0)) ≠ 0) (k : Nat) (hk : k < n) :
    ∃ v : Nat → V, (∀ i j, i ≤ k → j ≤ k → e.a (v i) (v j) = if i = j then 1 else 0) ∧
      (∀ j, j < k → (St k).zs.getD j 0 = pre j (v j)) ∧
      b - A x0 = fgBeta A e E sqrt b x0 • v 0 := by
  obtain ⟨iH, _, iD⟩ := fgSeq_inv A AH M e E sqrt n pre b x0 hdef hsq hsq0 hE hbeta k hk
  exact ⟨fun l => hhL e (St k).ws.reverse (E l), fun i j hi hj => iH.orth hE hk i j hi hj, iD, iH.hr0⟩

theorem fgSeq_xs_succ (m : Nat) (hl : (St m).cols.length = m) :
    (St (m+1)).xs = (St m).xs ++ [combO (Ops.ofModule A AH M e) x0
      (backSub (St (m+1)).rcols (St (m+1)).g (m+1) []) (St (m+1)).zs] := by
  have hstep : St (m+1) = fgStep (HOps.ofModule A AH M e E) sqrt sgnK nzK n pre x0 (St m) := rfl
  rw [hstep]
  simp only [fgStep, hl]
  rfl

include hdef hsq hsq0 hE in
/-- **FGMRES, executable model of `_fgmres.py`, end to end**: after `m + 1 < n` inner iterations the recorded
iterate lies in `x₀ + span{z_0 … z_m}` and minimises `‖b − A x‖₂` over it -/
theorem fgmres_hh_optimal (m : Nat) (hmn : m + 1 < n)
    (hbeta : sqrt (e.a (b - A x0) (b - A x0)) ≠ 0)
    (hnbr : ∀ i, i < m + 1 → Rent (St (m+1)).rcols i i ≠ 0) :
    ∃ xk, (St (m+1)).xs.getLast? = some xk ∧
      xk - x0 ∈ Submodule.span K (Set.range (fun j : Fin (m+1) => (St (m+1)).zs.getD j 0)) ∧
      ∀ x', x' - x0 ∈ Submodule.span K (Set.range (fun j : Fin (m+1) => (St (m+1)).zs.getD j 0)) →
        e.en (b - A xk) ≤ e.en (b - A x') := by
  obtain ⟨iH, iG, _⟩ := fgSeq_inv A AH M e E sqrt n pre b x0 hdef hsq hsq0 hE hbeta (m+1) hmn
  obtain ⟨iHm, _, _⟩ := fgSeq_inv A AH M e E sqrt n pre b x0 hdef hsq hsq0 hE hbeta m (by omega)
  have hxs := fgSeq_xs_succ A AH M e E sqrt n pre b x0 m iHm.lcols
  set s := St (m+1) with hs
  set y := backSub s.rcols s.g (m+1) [] with hy
  have hylen : y.length = m + 1 := by
    obtain ⟨p, hl, he⟩ := backSub_suffix s.rcols s.g (m+1) []
    rw [hy, he]; simp [hl]
  have hopt := givL_optimal e A n (m+1) hmn _ s.cols s.rcols s.cs s.sn s.g iG
    (fun l => hhL e s.ws.reverse (E l)) s.zs (fun i j hi hj => iH.orth hE hmn i j hi hj) iH.rel
    b x0 iH.hr0 hnbr
  rw [← hy] at hopt
  have hcomb : combO (Ops.ofModule A AH M e) x0 y s.zs = x0 + ∑ j ∈ range (m+1), F y j • s.zs.getD j 0 := by
    rw [combO_eq A AH M e y s.zs x0 (by rw [hylen, iH.lzs]), hylen]
  refine ⟨combO (Ops.ofModule A AH M e) x0 y s.zs, by rw [hxs, List.getLast?_append]; rfl, ?_, ?_⟩
  · rw [hcomb, add_sub_cancel_left]
    refine Submodule.sum_mem _ (fun j hj => Submodule.smul_mem _ _ (Submodule.subset_span ?_))
    exact ⟨⟨j, Finset.mem_range.mp hj⟩, rfl⟩
  · rw [hcomb]; exact hopt

theorem fgSeq_zs_succ (m : Nat) : ∃ z, (St (m+1)).zs = (St m).zs ++ [z] := ⟨_, rfl⟩

include hdef hsq hsq0 hE in
/-- … hence the residual norm does not increase from one inner iteration to the next (the spans are nested) -/
theorem fgmres_hh_monotone (m : Nat) (hmn : m + 2 < n)
    (hbeta : sqrt (e.a (b - A x0) (b - A x0)) ≠ 0)
    (hnbr : ∀ i, i < m + 1 → Rent (St (m+1)).rcols i i ≠ 0)
    (hnbr' : ∀ i, i < m + 2 → Rent (St (m+2)).rcols i i ≠ 0) :
    ∃ xk xk', (St (m+1)).xs.getLast? = some xk ∧ (St (m+2)).xs.getLast? = some xk' ∧
      e.en (b - A xk') ≤ e.en (b - A xk) := by
  obtain ⟨xk, h1, h2, _⟩ := fgmres_hh_optimal A AH M e E sqrt n pre b x0 hdef hsq hsq0 hE m (by omega) hbeta hnbr
  obtain ⟨xk', h1', _, h3'⟩ := fgmres_hh_optimal A AH M e E sqrt n pre b x0 hdef hsq hsq0 hE (m+1) hmn hbeta hnbr'
  refine ⟨xk, xk', h1, h1', h3' xk ?_⟩
  obtain ⟨iH, _, _⟩ := fgSeq_inv A AH M e E sqrt n pre b x0 hdef hsq hsq0 hE hbeta (m+1) (by omega)
  obtain ⟨z, hz⟩ := fgSeq_zs_succ A AH M e E sqrt n pre b x0 (m+1)
  refine Submodule.span_mono ?_ h2
  rintro v ⟨j, rfl⟩
  refine ⟨⟨j, by have := j.2; omega⟩, ?_⟩
  show (St (m+1+1)).zs.getD j 0 = (St (m+1)).zs.getD j 0
  rw [hz, getD_append_lt _ _ _ _ (by rw [iH.lzs]; exact j.2)]

#print axioms fgmres_hh_optimal
#print axioms fgmres_hh_directions
end PyamgV.C07
