import PyamgV.Proofs.ExtC07CVec

/-! PyamgV (C07, extension E37): the Hermitian theory specialised back to an **ordered field with the trivial
involution** (`star = id`, `re = id`) settles the clause that was search-only in the real case:
`cr_vec_optimal_commuting` -- the executable model of `_cr.py` on `Vector K n` (`crVec`, the definition op `c07_iter cr r`
runs) **with a symmetric preconditioner that commutes with `A`** (`M = c I + d A`, any polynomial in `A`) yields the
minimiser of `‖b − A x‖₂` over `x₀ + K_k(MA, M r₀)`.  (`cr_vec_optimal` of `Proofs/C07Vec.lean` is the case `M = I`.) -/
set_option linter.unusedSectionVars false
namespace PyamgV.C07.CH
open PyamgV.CHerm PyamgV.C07

variable {K : Type} [Field K] [LinearOrder K] [IsStrictOrderedRing K] {n : Nat}

section
attribute [local instance] starRingOfComm

/-- the identity as "real part" of an ordered field with the trivial involution -/
def realRe (K : Type) [Field K] [LinearOrder K] [IsStrictOrderedRing K] : ReMap K K where
  re := AddMonoidHom.id K
  re_star _ := rfl
  sq_nonneg z := mul_self_nonneg z
  sq_def _ h := mul_self_eq_zero.mp h

theorem isHerm_of_isSymm {A : Vector (Vector K n) n} (h : IsSymm A) : IsHerm A := fun i j => h i j

theorem dotH_real (u v : Fin n → K) : (dotH (realRe K) n).h u v = (dotForm K n).a u v := rfl

theorem isHPD_of_isPD {A : Vector (Vector K n) n} (h : IsPD A) : IsHPD (realRe K) A := fun v hv => h v hv

/-- **preconditioned CR, real executable model, `M A = A M`**: `A` symmetric positive definite, `M` symmetric
commuting with `A` ⇒ the `k`-th iterate of the model of `_cr.py` lies in `x₀ + K_k(MA, M r₀)` and minimises the 2-norm
of the residual over it -/
theorem cr_vec_optimal_commuting (A M : Vector (Vector K n) n) (b x0 : Vector K n)
    (hA : IsSymm A) (hM : IsSymm M) (hpd : IsPD A)
    (hcomm : ∀ v : Fin n → K, linOf M (linOf A v) = linOf A (linOf M v))
    (xs : Vector K n) (hxs : vmv A xs = b) (k : Nat)
    (hnb : ∀ j, j < k → (crVec A M b x0 j).rAz ≠ 0) :
    toFn (crVec A M b x0 k).x - toFn x0 ∈ PCG.kry (linOf A) (linOf M) (dotForm K n) (toFn b) (toFn x0) k ∧
    ∀ y : Vector K n, toFn y - toFn x0 ∈ PCG.kry (linOf A) (linOf M) (dotForm K n) (toFn b) (toFn x0) k →
      normSqV (subV b (vmv A (crVec A M b x0 k).x)) ≤ normSqV (subV b (vmv A y)) :=
  cr_hvec_optimal (realRe K) A M b x0 (isHerm_of_isSymm hA) (isHerm_of_isSymm hM) (isHPD_of_isPD hpd) hcomm
    xs hxs k hnb

end

#print axioms cr_vec_optimal_commuting
end PyamgV.C07.CH
