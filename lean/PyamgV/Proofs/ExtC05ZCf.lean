import PyamgV.Proofs.ExtC05YPd

/-! PyamgV (C05, extension E47): **damped Jacobi over a subset of the rows (`jacobi_indexed`: the C- or the F-points of
`cf_jacobi` / `fc_jacobi`) is non-expansive under the same bound `ω A < 2 D`**, so cf / fc Jacobi join the smoothers whose
non-expansiveness follows from the parameters and the certificate `jacB` (E36 stops at `jacobi` over all rows).

* `jacIdx_nonexp`: `0 < ω`, `JacBound` ⇒ a Jacobi step over pairwise distinct rows `idx` never increases the energy;
* `NonExpSmZ`: `NonExpSm` of E36 plus `cf_jacobi` / `fc_jacobi` with `0 < ω` under `JacBound`;
* `smFn_nonexpZ`: the smoothers of the cycle model with `NonExpSmZ` parameters are non-expansive. -/
namespace PyamgV.C05Z
open PyamgV PyamgV.C05 Finset

section
variable {K : Type*} [Field K] [LinearOrder K] [IsStrictOrderedRing K] [DecidableEq K]

/-- **a damped Jacobi step over a subset of the rows is non-expansive under `ω A < 2 D`** -/
theorem jacIdx_nonexp (n : Nat) (rows : Nat → Row K) (hsym) (hpsd) (diag : Nat → K)
    (hdiag : ∀ i, i < n → HasDiag i (rows i) (diag i) ∧ diag i ≠ 0) (ω : K) (h0 : 0 < ω)
    (hb : C05Y.JacBound n rows diag ω) (idx : List Nat) (hidx : ∀ i ∈ idx, i < n) (hnd : idx.Nodup) :
    NonExp (energy n rows hsym hpsd) (csrOp n rows) (fun x b => jacSweepFn ω rows b idx x) := by
  have hlin := jac_isLinIter ω n rows diag hdiag idx hidx hnd
  rw [linIter_nonexp_iff _ hlin]
  intro v
  set z := jacOp diag ω idx (csrOp n rows v) with hz
  have hzj : ∀ j, z j = if j ∈ idx then ω * (csrOp n rows v j / diag j) else 0 := by
    intro j; rw [hz, jacOp_apply diag ω idx hnd]
  -- ω a(z, v) = Σ d_j z_j²
  have hq : ω * (energy n rows hsym hpsd).a z v = ∑ j ∈ range n, diag j * (z j * z j) := by
    show ω * (euc K n).a (csrOp n rows z) v = _
    rw [hsym z v, euc_apply, Finset.mul_sum]
    apply Finset.sum_congr rfl
    intro j hj
    have hjn := mem_range.1 hj
    rw [hzj j]
    by_cases hji : j ∈ idx
    · rw [if_pos hji]
      have := (hdiag j hjn).2
      field_simp
    · rw [if_neg hji]; ring
  have hen : (energy n rows hsym hpsd).en z = (euc K n).a (csrOp n rows z) z := rfl
  by_cases hex : ∃ j, j < n ∧ z j ≠ 0
  · have hbz := hb z hex
    rw [← hq] at hbz
    rw [hen]
    by_contra hcon
    have hcon := not_le.1 hcon
    have := mul_lt_mul_of_pos_left hcon h0
    linarith
  · have hz0 : ∀ j, j < n → z j = 0 := by
      intro j hj
      by_contra hne
      exact hex ⟨j, hj, hne⟩
    have e1 : (energy n rows hsym hpsd).en z = 0 := by
      rw [hen, euc_apply]
      apply Finset.sum_eq_zero
      intro j hj
      rw [hz0 j (mem_range.1 hj), mul_zero]
    have e2 : ω * (energy n rows hsym hpsd).a z v = 0 := by
      rw [hq]
      apply Finset.sum_eq_zero
      intro j hj
      rw [hz0 j (mem_range.1 hj)]; ring
    have e3 : (energy n rows hsym hpsd).a z v = 0 := by
      rcases mul_eq_zero.1 e2 with h | h
      · exact absurd h (ne_of_gt h0)
      · exact h
    rw [e1, e3]; simp

/-- parameters from which non-expansiveness follows, cf / fc Jacobi included -/
def NonExpSmZ (n : Nat) (rows : Nat → Row K) (diag : Nat → K) : Sm → Prop
  | .cfjac _ ω _ _ _ => 0 < (ω : K) ∧ C05Y.JacBound n rows diag (ω : K)
  | s => C05Y.NonExpSm n rows diag s

/-- **the smoothers of the cycle model with `NonExpSmZ` parameters never increase the energy of the error**
(`C`, `F`: pairwise distinct rows) -/
theorem smFn_nonexpZ (n : Nat) (rows : Nat → Row K) (hsym) (hpsd) (diag : Nat → K)
    (hdiag : ∀ i, i < n → HasDiag i (rows i) (diag i) ∧ diag i ≠ 0)
    (C F : List Nat) (hC : ∀ i ∈ C, i < n) (hF : ∀ i ∈ F, i < n) (hCn : C.Nodup) (hFn : F.Nodup)
    (s : Sm) (hs : NonExpSmZ n rows diag s) :
    NonExp (energy n rows hsym hpsd) (csrOp n rows) (smFn rows n C F s) := by
  cases s with
  | none => exact C05Y.smFn_nonexp n rows hsym hpsd diag hdiag C F .none hs
  | gs ω sw k => exact C05Y.smFn_nonexp n rows hsym hpsd diag hdiag C F (.gs ω sw k) hs
  | jac ω k => exact C05Y.smFn_nonexp n rows hsym hpsd diag hdiag C F (.jac ω k) hs
  | cfjac c ω it fi ci =>
    obtain ⟨h0, hb⟩ : 0 < (ω : K) ∧ C05Y.JacBound n rows diag (ω : K) := hs
    have hjC := C05Y.nonexp_iter (jacIdx_nonexp n rows hsym hpsd diag hdiag (ω : K) h0 hb C hC hCn) ci
    have hjF := C05Y.nonexp_iter (jacIdx_nonexp n rows hsym hpsd diag hdiag (ω : K) h0 hb F hF hFn) fi
    cases c with
    | true => exact C05Y.nonexp_iter (NonExp.comp hjC hjF) it
    | false => exact C05Y.nonexp_iter (NonExp.comp hjF hjC) it

/-! ### strictness of cf / fc Jacobi -/

/-- a Jacobi step over rows with zero residual changes nothing -/
theorem jacIdx_fixed (n : Nat) (rows : Nat → Row K) (diag : Nat → K)
    (hdiag : ∀ i, i < n → HasDiag i (rows i) (diag i) ∧ diag i ≠ 0) (ω : K) (idx : List Nat)
    (hidx : ∀ i ∈ idx, i < n) (b x : Nat → K) (h : ∀ i ∈ idx, resid rows b x i = 0) :
    jacSweepFn ω rows b idx x = x := by
  funext j
  unfold jacSweepFn
  rw [jacSweepFn_apply ω n rows diag hdiag b x idx hidx x j]
  by_cases hj : j ∈ idx
  · rw [if_pos hj]
    have := h j hj
    unfold resid at this
    rw [this]; simp
  · rw [if_neg hj]

/-- a Jacobi step over rows one of which has a non-zero residual strictly reduces the energy of the error -/
theorem jacIdx_strict_step (n : Nat) (rows : Nat → Row K) (hsym) (hpsd) (diag : Nat → K)
    (hdiag : ∀ i, i < n → HasDiag i (rows i) (diag i) ∧ diag i ≠ 0) (ω : K) (h0 : 0 < ω)
    (hb : C05Y.JacBound n rows diag ω) (idx : List Nat) (hidx : ∀ i ∈ idx, i < n) (hnd : idx.Nodup)
    (x b xs : Nat → K) (hxs : csrOp n rows xs = b) (hex : ∃ i ∈ idx, resid rows b x i ≠ 0) :
    (energy n rows hsym hpsd).en (xs - jacSweepFn ω rows b idx x) < (energy n rows hsym hpsd).en (xs - x) := by
  have hlin := jac_isLinIter ω n rows diag hdiag idx hidx hnd
  rw [hlin.error x xs b hxs, en_sub_expand]
  set v := xs - x with hv
  set z := jacOp diag ω idx (csrOp n rows v) with hz
  have hzj : ∀ j, z j = if j ∈ idx then ω * (csrOp n rows v j / diag j) else 0 := by
    intro j; rw [hz, jacOp_apply diag ω idx hnd]
  have hq : ω * (energy n rows hsym hpsd).a z v = ∑ j ∈ range n, diag j * (z j * z j) := by
    show ω * (euc K n).a (csrOp n rows z) v = _
    rw [hsym z v, euc_apply, Finset.mul_sum]
    apply Finset.sum_congr rfl
    intro j hj
    have hjn := mem_range.1 hj
    rw [hzj j]
    by_cases hji : j ∈ idx
    · rw [if_pos hji]
      have := (hdiag j hjn).2
      field_simp
    · rw [if_neg hji]; ring
  obtain ⟨i, hi, hri⟩ := hex
  have hin := hidx i hi
  have hzi : z i ≠ 0 := by
    rw [hzj i, if_pos hi]
    have hAv : csrOp n rows v i = resid rows b x i := by
      rw [hv, map_sub, hxs]
      simp only [Pi.sub_apply, csrOp_apply n rows x i hin]
      rfl
    rw [hAv]
    exact mul_ne_zero (ne_of_gt h0) (div_ne_zero hri (hdiag i hin).2)
  have hbz := hb z ⟨i, hin, hzi⟩
  rw [← hq] at hbz
  have hen : (energy n rows hsym hpsd).en z = (euc K n).a (csrOp n rows z) z := rfl
  have hlt : (energy n rows hsym hpsd).en z < 2 * (energy n rows hsym hpsd).a z v := by
    rw [hen]
    by_contra hcon
    have hcon := not_lt.1 hcon
    have := mul_le_mul_of_nonneg_left hcon (le_of_lt h0)
    linarith
  linarith

/-- `k ≥ 1` Jacobi steps over `idx`: identity when the residual vanishes on `idx`, strict otherwise -/
theorem jacIdx_iter (n : Nat) (rows : Nat → Row K) (hsym) (hpsd) (diag : Nat → K)
    (hdiag : ∀ i, i < n → HasDiag i (rows i) (diag i) ∧ diag i ≠ 0) (ω : K) (h0 : 0 < ω)
    (hb : C05Y.JacBound n rows diag ω) (idx : List Nat) (hidx : ∀ i ∈ idx, i < n) (hnd : idx.Nodup)
    (k : Nat) (hk : 1 ≤ k) (x b xs : Nat → K) (hxs : csrOp n rows xs = b) :
    ((∀ i ∈ idx, resid rows b x i = 0) ∧
        PyamgV.iter (fun x b => jacSweepFn ω rows b idx x) b k x = x) ∨
      (energy n rows hsym hpsd).en (xs - PyamgV.iter (fun x b => jacSweepFn ω rows b idx x) b k x) <
        (energy n rows hsym hpsd).en (xs - x) := by
  by_cases hall : ∀ i ∈ idx, resid rows b x i = 0
  · left
    refine ⟨hall, ?_⟩
    have hfix := jacIdx_fixed n rows diag hdiag ω idx hidx b x hall
    clear hk
    induction k with
    | zero => rfl
    | succ k ih =>
      show PyamgV.iter _ b k (jacSweepFn ω rows b idx x) = x
      rw [hfix]; exact ih
  · right
    have hex : ∃ i ∈ idx, resid rows b x i ≠ 0 := by
      by_contra hne
      apply hall
      intro i hi
      by_contra hr
      exact hne ⟨i, hi, hr⟩
    obtain ⟨k', rfl⟩ : ∃ k', k = k' + 1 := ⟨k - 1, by omega⟩
    have hne := jacIdx_nonexp n rows hsym hpsd diag hdiag ω h0 hb idx hidx hnd
    have hst := jacIdx_strict_step n rows hsym hpsd diag hdiag ω h0 hb idx hidx hnd x b xs hxs hex
    show (energy n rows hsym hpsd).en (xs - PyamgV.iter _ b k' (jacSweepFn ω rows b idx x)) < _
    exact lt_of_le_of_lt (hne.iter k' _ b xs hxs) hst

/-- **one pass of cf / fc Jacobi (first the rows `I₁`, then the rows `I₂`, each at least once, together all rows) strictly
reduces every error of non-zero energy** -/
theorem cfPass_strict (n : Nat) (rows : Nat → Row K) (hsym) (hpsd) (diag : Nat → K)
    (hdiag : ∀ i, i < n → HasDiag i (rows i) (diag i) ∧ diag i ≠ 0) (ω : K) (h0 : 0 < ω)
    (hb : C05Y.JacBound n rows diag ω) (I₁ I₂ : List Nat) (h1 : ∀ i ∈ I₁, i < n) (h2 : ∀ i ∈ I₂, i < n)
    (hn1 : I₁.Nodup) (hn2 : I₂.Nodup) (hcover : ∀ i, i < n → i ∈ I₁ ∨ i ∈ I₂) (k1 k2 : Nat) (hk1 : 1 ≤ k1) (hk2 : 1 ≤ k2) :
    C05Y.StrictOn (energy n rows hsym hpsd) (csrOp n rows)
      (fun x b => PyamgV.iter (fun x b => jacSweepFn ω rows b I₂ x) b k2
        (PyamgV.iter (fun x b => jacSweepFn ω rows b I₁ x) b k1 x)) := by
  intro x b xs hxs hne
  have hne2 := C05Y.nonexp_iter (jacIdx_nonexp n rows hsym hpsd diag hdiag ω h0 hb I₂ h2 hn2) k2
  rcases jacIdx_iter n rows hsym hpsd diag hdiag ω h0 hb I₁ h1 hn1 k1 hk1 x b xs hxs with ⟨hz, hfix⟩ | hlt
  · -- nothing to do on I₁: some row of I₂ has a non-zero residual
    show (energy n rows hsym hpsd).en (xs - PyamgV.iter _ b k2 (PyamgV.iter _ b k1 x)) < _
    rw [hfix]
    rcases jacIdx_iter n rows hsym hpsd diag hdiag ω h0 hb I₂ h2 hn2 k2 hk2 x b xs hxs with ⟨hz2, _⟩ | hlt2
    · exfalso
      obtain ⟨i, hi, hri⟩ := C05Y.exists_resid_ne n rows hsym hpsd b xs x hxs hne
      rcases hcover i hi with hc | hc
      · exact hri (hz i hc)
      · exact hri (hz2 i hc)
    · exact hlt2
  · exact lt_of_le_of_lt (hne2 _ b xs hxs) hlt

/-- parameters from which strict reduction follows, cf / fc Jacobi included (every inner count at least one) -/
def StrictSmZ (n : Nat) (rows : Nat → Row K) (diag : Nat → K) : Sm → Prop
  | .cfjac _ ω it fi ci => 0 < (ω : K) ∧ 1 ≤ it ∧ 1 ≤ fi ∧ 1 ≤ ci ∧ C05Y.JacBound n rows diag (ω : K)
  | s => C05Y.StrictSm n rows diag s

theorem StrictSmZ.nonExpSmZ (n : Nat) (rows : Nat → Row K) (diag : Nat → K) (s : Sm) (h : StrictSmZ n rows diag s) :
    NonExpSmZ n rows diag s := by
  cases s with
  | none => exact C05Y.StrictSm.nonExpSm n rows diag .none h
  | gs ω sw k => exact C05Y.StrictSm.nonExpSm n rows diag (.gs ω sw k) h
  | jac ω k => exact C05Y.StrictSm.nonExpSm n rows diag (.jac ω k) h
  | cfjac c ω it fi ci =>
    obtain ⟨h0, _, _, _, hb⟩ : 0 < (ω : K) ∧ 1 ≤ it ∧ 1 ≤ fi ∧ 1 ≤ ci ∧ C05Y.JacBound n rows diag (ω : K) := h
    exact ⟨h0, hb⟩

/-- **the smoothers of the cycle model with `StrictSmZ` parameters strictly reduce the energy of every error of non-zero
energy** (`C`, `F` pairwise distinct rows that together are all rows) -/
theorem smFn_strictZ (n : Nat) (rows : Nat → Row K) (hsym) (hpsd) (diag : Nat → K)
    (hdiag : ∀ i, i < n → HasDiag i (rows i) (diag i)) (hpos : ∀ i, i < n → 0 < diag i)
    (C F : List Nat) (hC : ∀ i ∈ C, i < n) (hF : ∀ i ∈ F, i < n) (hCn : C.Nodup) (hFn : F.Nodup)
    (hcover : ∀ i, i < n → i ∈ C ∨ i ∈ F) (s : Sm) (hs : StrictSmZ n rows diag s) :
    C05Y.StrictOn (energy n rows hsym hpsd) (csrOp n rows) (smFn rows n C F s) := by
  have hdiag' : ∀ i, i < n → HasDiag i (rows i) (diag i) ∧ diag i ≠ 0 :=
    fun i hi => ⟨hdiag i hi, ne_of_gt (hpos i hi)⟩
  cases s with
  | none => exact C05Y.smFn_strict n rows hsym hpsd diag hdiag hpos C F .none hs
  | gs ω sw k => exact C05Y.smFn_strict n rows hsym hpsd diag hdiag hpos C F (.gs ω sw k) hs
  | jac ω k => exact C05Y.smFn_strict n rows hsym hpsd diag hdiag hpos C F (.jac ω k) hs
  | cfjac c ω it fi ci =>
    obtain ⟨h0, hit, hfi, hci, hb⟩ :
      0 < (ω : K) ∧ 1 ≤ it ∧ 1 ≤ fi ∧ 1 ≤ ci ∧ C05Y.JacBound n rows diag (ω : K) := hs
    have hjC := C05Y.nonexp_iter (jacIdx_nonexp n rows hsym hpsd diag hdiag' (ω : K) h0 hb C hC hCn) ci
    have hjF := C05Y.nonexp_iter (jacIdx_nonexp n rows hsym hpsd diag hdiag' (ω : K) h0 hb F hF hFn) fi
    cases c with
    | true =>
      have hp := cfPass_strict n rows hsym hpsd diag hdiag' (ω : K) h0 hb C F hC hF hCn hFn hcover ci fi hci hfi
      have hn := NonExp.comp hjC hjF
      show C05Y.StrictOn _ _ (fun x b => PyamgV.iter (fun x b =>
        PyamgV.iter (fun x b => jacSweepFn (ω : K) rows b F x) b fi
          (PyamgV.iter (fun x b => jacSweepFn (ω : K) rows b C x) b ci x)) b it x)
      exact C05Y.StrictOn.iter hp hn it hit
    | false =>
      have hp := cfPass_strict n rows hsym hpsd diag hdiag' (ω : K) h0 hb F C hF hC hFn hCn
        (fun i hi => (hcover i hi).symm) fi ci hfi hci
      have hn := NonExp.comp hjF hjC
      show C05Y.StrictOn _ _ (fun x b => PyamgV.iter (fun x b =>
        PyamgV.iter (fun x b => jacSweepFn (ω : K) rows b C x) b ci
          (PyamgV.iter (fun x b => jacSweepFn (ω : K) rows b F x) b fi x)) b it x)
      exact C05Y.StrictOn.iter hp hn it hit

end

#print axioms jacIdx_nonexp
#print axioms cfPass_strict
#print axioms smFn_strictZ
#print axioms smFn_nonexpZ
end PyamgV.C05Z
