import PyamgV.Model.ExtPy3ClassicalWorlds
import PyamgV.Proofs.ExtPy2Tactic
/-! PyamgV (extension E58): helpers shared by `Proofs/ExtPy3ClassicalSplit.lean` (C13) and
`Proofs/ExtPy3ClassicalInterp.lean` (C11). -/
open PyamgV.ExtPy PyamgV.ExtPy2 PyamgV.ExtPy3Classical PyamgV.ExtPy3ClassicalW
namespace PyamgV.ExtPy3ClassicalP

theorem forall_of_all {α : Type} {l : List α} {p : α → Bool} (h : l.all p = true) : ∀ x ∈ l, p x = true :=
  List.all_eq_true.mp h

/-- `x` when the scenario is valid (resp. invalid): used to state a fact for the valid (invalid) scenarios of a grid as
one equation between lists, which the kernel evaluates -/
def onValid {α : Type} (v : Bool) (x : α) : Option α := if v then some x else Option.none
def onInvalid {α : Type} (v : Bool) (x : α) : Option α := if v then Option.none else some x

theorem of_onValid {α : Type} {v : Bool} {x y : α} (h : onValid v x = onValid v y) (hv : v = true) : x = y := by
  subst hv; simpa [onValid] using h
theorem of_onInvalid {α : Type} {v : Bool} {x y : α} (h : onInvalid v x = onInvalid v y) (hv : v = false) : x = y := by
  subst hv; simpa [onInvalid] using h

/-- result and kernel calls of a run -/
def brief (r : Out) : Except String PyVal × List (String × List PyVal) := (r.1, kernelCalls r.2)

end PyamgV.ExtPy3ClassicalP
