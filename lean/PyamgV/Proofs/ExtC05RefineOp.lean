import PyamgV.Proofs.C03Lin
import PyamgV.Proofs.Herm

/-! PyamgV (C03/C05, extension E12): the textbook operator without the Galerkin condition.

* `MopL_eq_Mop`: on a Galerkin hierarchy (`levels[i+1].A = R A P`) the operator `MopL` of
  `Proofs/C03Lin.lean` (every level with its own matrix) is the operator `Mop` of `Proofs/LinIter.lean`;
* `MopL_sym`: adjoint smoother pairs, symmetric level matrices, `R = Pᵀ`, symmetric coarsest solve
  ⇒ `MopL .V` and `MopL .W` are self-adjoint (`Mop_sym` without the Galerkin condition). -/
namespace PyamgV

variable {K : Type*} [Field K] [LinearOrder K] [IsStrictOrderedRing K]
variable {V : Type*} [AddCommGroup V] [Module K V]

/-- the next level's own matrix is the Galerkin product -/
def GalerkinL : List (LinLevel K V) → Prop
  | [] => True
  | [_] => True
  | L :: L' :: rest => L'.A = L.R ∘ₗ L.A ∘ₗ L.P ∧ GalerkinL (L' :: rest)

/-- on a Galerkin hierarchy the operator `MopL` (every level with its own matrix) is `Mop` -/
theorem MopL_eq_Mop (S : V →ₗ[K] V) :
    ∀ (Ls : List (LinLevel K V)) (c : CType), GalerkinL Ls → MopL S c Ls = Mop S c Ls := by
  intro Ls
  induction Ls with
  | nil => intro c _; cases c <;> rfl
  | cons L rest ih =>
    intro c h
    cases rest with
    | nil => cases c <;> rfl
    | cons L' rest' =>
      obtain ⟨hA, hrest⟩ := h
      cases c with
      | V =>
        show compM L.A (compM L.A L.Qpre (L.P ∘ₗ MopL S .V (L' :: rest') ∘ₗ L.R)) L.Qpost =
          compM L.A (compM L.A L.Qpre (L.P ∘ₗ Mop S .V (L' :: rest') ∘ₗ L.R)) L.Qpost
        rw [ih .V hrest]
      | W =>
        show compM L.A (compM L.A L.Qpre (L.P ∘ₗ
            compM L'.A (MopL S .W (L' :: rest')) (MopL S .W (L' :: rest')) ∘ₗ L.R)) L.Qpost =
          compM L.A (compM L.A L.Qpre (L.P ∘ₗ
            compM (L.R ∘ₗ L.A ∘ₗ L.P) (Mop S .W (L' :: rest')) (Mop S .W (L' :: rest')) ∘ₗ L.R)) L.Qpost
        rw [ih .W hrest, hA]
      | F k =>
        show compM L.A (compM L.A L.Qpre (L.P ∘ₗ
            iterM L'.A (MopL S .V (L' :: rest')) k (MopL S (.F k) (L' :: rest')) ∘ₗ L.R)) L.Qpost =
          compM L.A (compM L.A L.Qpre (L.P ∘ₗ
            iterM (L.R ∘ₗ L.A ∘ₗ L.P) (Mop S .V (L' :: rest')) k (Mop S (.F k) (L' :: rest')) ∘ₗ L.R)) L.Qpost
        rw [ih .V hrest, ih (.F k) hrest, hA]

/-- `Mop_sym` without the Galerkin condition: the W-cycle composes the coarse operator with respect
to the next level's own (symmetric) matrix -/
theorem MopL_sym (S : V →ₗ[K] V) :
    ∀ (Ls : List (LinLevel K V)) (e : EForm K V) (es : List (EForm K V)),
      WFS S e es Ls → IsAdj e e (MopL S .V Ls) (MopL S .V Ls) ∧ IsAdj e e (MopL S .W Ls) (MopL S .W Ls) := by
  intro Ls
  induction Ls with
  | nil =>
    intro e es h
    have h' : IsAdj e e S S := by cases es <;> simpa [WFS] using h
    exact ⟨by simpa [MopL] using h', by simpa [MopL] using h'⟩
  | cons L rest ih =>
    intro e es h
    cases es with
    | nil => exact absurd h (by simp [WFS])
    | cons ec es =>
      obtain ⟨hA, hQ, hP, hrest⟩ := h
      have two : ∀ Mc : V →ₗ[K] V, IsAdj ec ec Mc Mc →
          IsAdj e e (compM L.A (compM L.A L.Qpre (L.P ∘ₗ Mc ∘ₗ L.R)) L.Qpost)
                    (compM L.A (compM L.A L.Qpre (L.P ∘ₗ Mc ∘ₗ L.R)) L.Qpost) := by
        intro Mc hMc
        have hC : IsAdj e e (L.P ∘ₗ Mc ∘ₗ L.R) (L.P ∘ₗ Mc ∘ₗ L.R) := by
          have := (hP.comp hMc).comp hP.flip
          simpa [LinearMap.comp_assoc] using this
        have h1 := IsAdj.compM hA (IsAdj.compM hA hQ hC) hQ.flip
        intro u v
        rw [h1 u v]
        congr 1
        simp only [PyamgV.compM, LinearMap.add_apply, LinearMap.sub_apply, LinearMap.comp_apply,
          map_add, map_sub]
        abel
      obtain ⟨ihV, ihW⟩ := ih ec es hrest
      cases rest with
      | nil =>
        have hS : IsAdj ec ec S S := by cases es <;> simpa [WFS] using hrest
        exact ⟨by simpa [MopL] using two S hS, by simpa [MopL] using two S hS⟩
      | cons L' rest' =>
        have hA' : IsAdj ec ec L'.A L'.A := by
          cases es with
          | nil => exact absurd hrest (by simp [WFS])
          | cons _ _ => exact hrest.1
        refine ⟨by simpa [MopL] using two _ ihV, ?_⟩
        have : IsAdj ec ec (compM L'.A (MopL S .W (L' :: rest')) (MopL S .W (L' :: rest')))
            (compM L'.A (MopL S .W (L' :: rest')) (MopL S .W (L' :: rest'))) :=
          IsAdj.compM hA' ihW ihW
        simpa [MopL] using two _ this

#print axioms MopL_eq_Mop
#print axioms MopL_sym
end PyamgV
