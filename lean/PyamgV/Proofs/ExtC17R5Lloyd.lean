import PyamgV.Proofs.ExtC17R5Centre
import PyamgV.Proofs.ExtC12BalFirst

/-! PyamgV (C17, extension E46, round 5): the hypotheses of `centerNodes_no_fault` hold at every call site of the Lloyd loop of
`balanced_lloyd_cluster`, and so **the whole loop `while (changed1 or changed2) and it < maxiter` (`BalLloyd.innerLoop`:
`bellman_ford_balanced`, the three `ValueError` checks, `center_nodes`) never makes an out-of-bounds access**, in any pass, for any
number of iterations, on any structurally valid pattern with weights `≥ tol`.

The loop invariant is E34's bookkeeping invariant `KInv` together with `PW`: every assigned node has a node as predecessor.
`bellman_ford_balanced` keeps it from ANY such state (`kernel_ok`: its data dependent accesses are `s[m[i]]`, `s[m[j]]`, `pc[p[j]]` for
assigned `j`); after the `disconnected` check every node is assigned, so `PW` is the hypothesis `PRange` of `center_nodes`, which
re-establishes it (`centerNodes_no_fault`).  The state every rebalance round starts from (`BalLloyd.reinit`) satisfies it. -/
namespace PyamgV.C17R5
open PyamgV.Bal PyamgV.BalLloyd

/-- every assigned node has a node as predecessor -/
def PW (n : Nat) (st : St) : Prop := ∀ j, j < n → 0 ≤ rdI st.m j → 0 ≤ rdI st.p j ∧ rdI st.p j < (n : Int)

variable {n k : Nat} {c : Array Nat} {tol : Rat}

/-- one stored entry: no out-of-bounds access, `PW` kept -/
theorem step_ok {tb : Bool} (acc : St × Bool) (e : Edge) (hi : e.1 < n) (hj : e.2.1 < n)
    (hI : KInv n k c acc.1) (hP : PW n acc.1) :
    ∃ r, step tol tb acc e = some r ∧ PW n r.1 := by
  obtain ⟨i, j, a⟩ := e
  simp only at hi hj
  unfold step
  simp only
  by_cases hmi : rdI acc.1.m i < 0
  · rw [if_pos hmi]; exact ⟨acc, rfl, hP⟩
  · rw [if_neg hmi]
    have hmi0 : 0 ≤ rdI acc.1.m i := by omega
    obtain ⟨ki, hki⟩ := idx_ok hmi0 (show rdI acc.1.m i < (acc.1.s.size : Int) by rw [hI.ss]; exact (hI.ids i hi).2)
    have htie : ∃ tie, tieTest tol tb acc.1 i j a = some tie := by
      unfold tieTest
      by_cases h1 : rdI acc.1.m j > -1 ∧ tb = true
      · rw [if_pos h1]
        by_cases h2 : close tol (rdO acc.1.d i) (rdO acc.1.d j) a = true
        · rw [if_pos h2]
          obtain ⟨kj, hkj⟩ := idx_ok (show 0 ≤ rdI acc.1.m j by omega)
            (show rdI acc.1.m j < (acc.1.s.size : Int) by rw [hI.ss]; exact (hI.ids j hj).2)
          rw [hki, hkj]; exact ⟨_, rfl⟩
        · rw [if_neg h2]; exact ⟨_, rfl⟩
      · rw [if_neg h1]; exact ⟨_, rfl⟩
    obtain ⟨tie, htie⟩ := htie
    rw [htie]
    simp only
    by_cases hsw : (test1 tol (rdO acc.1.d i) (rdO acc.1.d j) a || tie) = true
    · rw [if_pos hsw]
      -- release
      have hrel : ∃ st1, release acc.1 j = some st1 ∧ st1.m = acc.1.m ∧ st1.p = acc.1.p ∧ st1.s.size = acc.1.s.size := by
        unfold release
        by_cases hmj : rdI acc.1.m j ≥ 0
        · rw [if_pos hmj]
          obtain ⟨kj, hkj⟩ := idx_ok (show 0 ≤ rdI acc.1.m j by omega)
            (show rdI acc.1.m j < (acc.1.s.size : Int) by rw [hI.ss]; exact (hI.ids j hj).2)
          obtain ⟨p1, p2⟩ := hP j hj (by omega)
          obtain ⟨kp, hkp⟩ := idx_ok p1 (show rdI acc.1.p j < (acc.1.pc.size : Int) by rw [hI.spc]; exact p2)
          rw [hkj, hkp]
          exact ⟨_, rfl, rfl, rfl, by simp⟩
        · rw [if_neg hmj]; exact ⟨_, rfl, rfl, rfl, rfl⟩
      obtain ⟨st1, hrel, r1, r2, r3⟩ := hrel
      rw [hrel]
      simp only
      unfold assign
      rw [r1, r3, hki]
      simp only
      refine ⟨_, rfl, ?_⟩
      intro j' hj' hm'
      show 0 ≤ rdI (wrI st1.p j (Int.ofNat i)) j' ∧ rdI (wrI st1.p j (Int.ofNat i)) j' < (n : Int)
      have hm'' : 0 ≤ rdI (wrI acc.1.m j (rdI acc.1.m i)) j' := hm'
      rw [rdI_wrI] at hm'' ⊢
      rw [r2]
      by_cases hjj : j = j'
      · rw [if_pos ⟨hjj, by rw [hI.sp]; exact hj⟩]
        exact ⟨Int.natCast_nonneg i, by show (i : Int) < (n : Int); omega⟩
      · rw [if_neg (fun hh => hjj hh.1)] at hm'' ⊢
        exact hP j' hj' hm''
    · rw [if_neg hsw]; exact ⟨acc, rfl, hP⟩

/-- one sweep -/
theorem pass_ok (h0 : 0 < tol) {tb : Bool} {E : List Edge} (hE : ∀ e ∈ E, e.1 < n ∧ e.2.1 < n ∧ tol ≤ e.2.2)
    {st : St} (hI : KInv n k c st) (hP : PW n st) :
    ∃ r, pass tol tb E st = some r ∧ KInv n k c r.1 ∧ PW n r.1 := by
  unfold pass
  refine foldlM_list_some (step tol tb) (fun b => KInv n k c b.1 ∧ PW n b.1) E (st, true) ⟨hI, hP⟩ ?_
  intro e he b hb
  obtain ⟨e1, e2, e3⟩ := hE e he
  obtain ⟨r, hr, hPr⟩ := step_ok (tol := tol) (tb := tb) b e e1 e2 hb.1 hb.2
  exact ⟨r, hr, step_kinv h0 b e e1 e2 e3 hb.1 hr, hPr⟩

/-- the `do { .. } while(!done)` loop never faults, and a run that returns keeps `KInv` and `PW` -/
theorem loop_ok (h0 : 0 < tol) {tb : Bool} {E : List Edge} (hE : ∀ e ∈ E, e.1 < n ∧ e.2.1 < n ∧ tol ≤ e.2.2) :
    ∀ (fuel : Nat) (st : St) (ch : Bool), KInv n k c st → PW n st →
      loop tol tb E fuel st ch ≠ .fault ∧
      ∀ st' ch', loop tol tb E fuel st ch = .ok st' ch' → KInv n k c st' ∧ PW n st' := by
  intro fuel
  induction fuel with
  | zero =>
    intro st ch hI hP
    obtain ⟨r, hr, _⟩ := pass_ok h0 hE hI hP
    unfold loop
    rw [hr]
    exact ⟨fun h => (by cases h), fun _ _ h => (by cases h)⟩
  | succ f ih =>
    intro st ch hI hP
    obtain ⟨r, hr, hI1, hP1⟩ := pass_ok h0 hE hI hP
    unfold loop
    rw [hr]
    simp only
    by_cases hd : r.2 = true
    · rw [if_pos hd]
      refine ⟨fun h => (by cases h), fun st' ch' h => ?_⟩
      injection h with h1 h2
      rw [← h1]; exact ⟨hI1, hP1⟩
    · rw [if_neg hd]; exact ih r.1 true hI1 hP1

/-- **`bellman_ford_balanced` from any state of the Lloyd loop**: no out-of-bounds access; `KInv`, `PW` kept -/
theorem kernel_ok (h0 : 0 < tol) (A : Csr) (hwf : A.wf = true) (tb : Bool) (hW : ∀ e ∈ A.entries, tol ≤ e.2.2)
    {st : St} (hI : KInv A.n k c st) (hP : PW A.n st) :
    kernel tol tb A st ≠ .fault ∧ ∀ st' ch', kernel tol tb A st = .ok st' ch' → KInv A.n k c st' ∧ PW A.n st' := by
  unfold kernel
  rw [if_pos ⟨hwf, hI.sd, hI.sm, hI.sp, hI.spc⟩]
  have hb := entries_bound A hwf
  exact loop_ok h0 (fun e he => ⟨(hb e he).1, (hb e he).2, hW e he⟩) _ st false hI hP

theorem err_ne {α : Type} {s : String} (h : s ≠ "fault") : (Except.error s : Except String α) ≠ .error "fault" := by
  intro e
  injection e with e
  exact h e

theorem any_gt_false {s : Array Int} {M : Nat} (h : s.any (fun v => decide ((M : Int) < v)) = false) (a : Nat) :
    rdI s a ≤ (M : Int) := by
  by_cases ha : a < s.size
  · have := Array.any_eq_false.1 h a ha
    simp only [decide_eq_true_eq, not_lt] at this
    simpa [rdI, Array.getD_eq_getD_getElem?, ha] using this
  · simp [rdI, Array.getD_eq_getD_getElem?, Array.getElem?_eq_none (Nat.le_of_not_lt ha)]

/-- **the Lloyd loop never leaves its arrays**: no call of `bellman_ford_balanced` or `center_nodes` inside
`while (changed1 or changed2) and it < maxiter` makes an out-of-bounds access or reads an uninitialised work-array entry; the loop
ends with a Python `ValueError`, the kernel's "too many iterations" exception, or normally -/
theorem innerLoop_no_fault (h0 : 0 < tol) {A : Csr} (hwf : A.wf = true) (hW : ∀ e ∈ A.entries, tol ≤ e.2.2)
    {tb : Bool} {maxsize : Nat} :
    ∀ (f : Nat) (x : LSt) (ch : Bool), KInv A.n k x.c x.st → PW A.n x.st → x.cc.size = A.n → x.l.size = A.n →
      innerLoop tol tb A maxsize f x ch ≠ .error "fault" := by
  intro f
  induction f with
  | zero =>
    intro x ch _ _ _ _
    unfold innerLoop
    exact fun h => by cases h
  | succ f ih =>
    intro x ch hK hP hcc hl
    unfold innerLoop
    by_cases hch : (!ch) = true
    · rw [if_pos hch]; exact fun h => by cases h
    · rw [if_neg hch]
      obtain ⟨hnf, hok⟩ := kernel_ok h0 A hwf tb hW hK hP
      cases hk : kernel tol tb A x.st with
      | fault => exact absurd hk hnf
      | tooMany => exact err_ne (by decide)
      | ok st1 ch1 =>
        simp only
        obtain ⟨hK1, hP1⟩ := hok st1 ch1 hk
        split
        · exact err_ne (by decide)
        · rename_i hsz
          split
          · exact err_ne (by decide)
          · rename_i hdis
            have hneg : st1.m.any (fun v => decide (v < 0)) = false := by
              cases hb : st1.m.any (fun v => decide (v < 0)) with
              | false => rfl
              | true => rw [hb] at hdis; simp at hdis
            have hsz' : st1.s.any (fun v => decide ((maxsize : Int) < v)) = false := by
              cases hb : st1.s.any (fun v => decide ((maxsize : Int) < v)) with
              | false => rfl
              | true => exact absurd hb hsz
            have hasg : ∀ j, j < A.n → 0 ≤ rdI st1.m j := fun j _ => any_neg_false hneg j
            have hW0 : ∀ e ∈ A.entries, 0 ≤ e.2.2 := fun e he => le_trans (le_of_lt h0) (hW e he)
            obtain ⟨y, ch2, e, yK, ym, _, ycc, yl, ypr⟩ := centerNodes_no_fault (x := { x with st := st1 }) h0 hwf hW0 hK1
              hcc hl hasg (fun a _ => any_gt_false hsz' a) (fun j hj => hP1 j hj (hasg j hj))
            rw [e]
            simp only
            exact ih y (ch1 || ch2) yK (fun j hj _ => ypr j hj) ycc yl

/-- the state every rebalance round starts from satisfies the loop invariant -/
theorem reinit_PW {c : Array Nat} (hc : Cen n k c) : PW n (reinit n c.toList) := by
  intro j hj hm
  have hm' : 0 ≤ rdI (initM n c.toList) j := hm
  have hjc : j ∈ c.toList := by
    by_contra hn
    have := (initM_fold c.toList.zipIdx (Array.replicate n (-1)) j).2.2 (by rw [List.zipIdx_map_fst]; exact hn)
    unfold initM at hm'
    rw [this, rdI_replicate n (-1) j hj] at hm'
    omega
  show 0 ≤ rdI (initP n c.toList) j ∧ rdI (initP n c.toList) j < (n : Int)
  unfold initP
  rw [fold_wr_val (fun c => Int.ofNat c)]
  simp only [Array.size_replicate]
  rw [if_pos ⟨hjc, hj⟩]
  exact ⟨Int.natCast_nonneg j, by show (j : Int) < (n : Int); omega⟩

/-- **every rebalance round of `balanced_lloyd_cluster`**: from distinct centres inside the graph, with the work arrays the wrapper
allocates, the Lloyd loop never makes an out-of-bounds access (any `maxiter`, any pattern, weights `≥ tol`) -/
theorem round_no_fault (h0 : 0 < tol) {A : Csr} (hwf : A.wf = true) (hW : ∀ e ∈ A.entries, tol ≤ e.2.2) {tb : Bool}
    {maxsize maxiter : Nat} {x : LSt} (hc : Cen A.n k x.c) (hcc : x.cc.size = A.n) (hl : x.l.size = A.n) :
    innerLoop tol tb A maxsize maxiter { x with st := reinit A.n x.c.toList } true ≠ .error "fault" :=
  innerLoop_no_fault h0 hwf hW maxiter _ true (reinit_kinv hc) (reinit_PW hc) hcc hl

end PyamgV.C17R5
