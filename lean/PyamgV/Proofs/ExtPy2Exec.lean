import PyamgV.Proofs.ExtPy2RtLemmas
/-! PyamgV (extension E42): symbolic execution lemmas for the event monad `PyM2` of `Model/ExtPy2Rt.lean`: how
`PyM2.exec` distributes over `pure`, `bind`, `throw`, `try ... catch`, lifted pure actions, and what the event
primitives do to the state.  With these as simp lemmas, `simp` runs a generated definition on a concrete script. -/
namespace PyamgV.ExtPy2
open PyamgV.ExtPy

@[simp] theorem exec_pure {α} (a : α) (s : St) : PyM2.exec (pure a) s = (.ok a, s) := rfl
@[simp] theorem exec_throw {α} (e : PyErr) (s : St) : PyM2.exec (throw e : PyM2 α) s = (.error e, s) := rfl
@[simp] theorem exec_lift {α} (p : PyM α) (s : St) : PyM2.exec (monadLift p : PyM2 α) s = (p, s) := by
  cases p <;> rfl
@[simp] theorem exec_liftM {α} (p : PyM α) (s : St) : PyM2.exec (liftM p : PyM2 α) s = (p, s) := by
  cases p <;> rfl
@[simp] theorem exec_bind {α β} (x : PyM2 α) (f : α → PyM2 β) (s : St) :
    PyM2.exec (x >>= f) s = match PyM2.exec x s with
      | (.ok a, s') => PyM2.exec (f a) s'
      | (.error e, s') => (.error e, s') := by
  simp only [PyM2.exec, bind, ExceptT.bind, ExceptT.run, ExceptT.mk, StateT.bind, StateT.run, Id.run, ExceptT.bindCont]
  cases h : x s with
  | mk r s' => cases r <;> rfl
@[simp] theorem exec_map {α β} (x : PyM2 α) (f : α → β) (s : St) :
    PyM2.exec (f <$> x) s = match PyM2.exec x s with
      | (.ok a, s') => (.ok (f a), s')
      | (.error e, s') => (.error e, s') := by
  simp only [PyM2.exec, Functor.map, ExceptT.map, ExceptT.run, ExceptT.mk, StateT.map, StateT.bind, StateT.run, Id.run, bind, pure, StateT.pure]
  cases h : x s with
  | mk r s' => cases r <;> rfl
@[simp] theorem exec_tryCatch {α} (x : PyM2 α) (h : PyErr → PyM2 α) (s : St) :
    PyM2.exec (tryCatch x h) s = match PyM2.exec x s with
      | (.ok a, s') => (.ok a, s')
      | (.error e, s') => PyM2.exec (h e) s' := by
  simp only [PyM2.exec, tryCatch, tryCatchThe, MonadExceptOf.tryCatch, ExceptT.tryCatch, ExceptT.run, ExceptT.mk, bind,
    StateT.bind, StateT.run, Id.run]
  cases h : x s with
  | mk r s' => cases r <;> rfl

@[simp] theorem exec_ite {α} (c : Prop) [Decidable c] (a b : PyM2 α) (s : St) :
    PyM2.exec (if c then a else b) s = if c then PyM2.exec a s else PyM2.exec b s := by
  split <;> rfl

/-- the early `return` of the `do` notation inside `try` -/
@[simp] theorem exec_earlyReturn {α} (v : PyVal) (s : St) :
    PyM2.exec (EarlyReturnT.return v : EarlyReturnT PyVal PyM2 α) s = (.ok (Except.error v), s) := rfl

/-! the same for the monad `EarlyReturnT ρ PyM2 = ExceptT ρ PyM2` the `do` notation uses inside `try` blocks that
contain `return`: a computation of that type IS a `PyM2 (Except ρ α)` -/

@[simp] theorem exec_pureE {ρ α} (a : α) (s : St) :
    PyM2.exec (α := Except ρ α) (pure a : ExceptT ρ PyM2 α) s = (.ok (.ok a), s) := rfl
@[simp] theorem exec_iteE {ρ α} (c : Prop) [Decidable c] (a b : ExceptT ρ PyM2 α) (s : St) :
    PyM2.exec (α := Except ρ α) (if c then a else b : ExceptT ρ PyM2 α) s
      = if c then PyM2.exec (α := Except ρ α) a s else PyM2.exec (α := Except ρ α) b s := by
  split <;> rfl
@[simp] theorem exec_bindE {ρ α β} (x : ExceptT ρ PyM2 α) (f : α → ExceptT ρ PyM2 β) (s : St) :
    PyM2.exec (α := Except ρ β) (x >>= f : ExceptT ρ PyM2 β) s = match PyM2.exec (α := Except ρ α) x s with
      | (.ok (.ok a), s') => PyM2.exec (α := Except ρ β) (f a) s'
      | (.ok (.error r), s') => (.ok (.error r), s')
      | (.error e, s') => (.error e, s') := by
  simp only [PyM2.exec, bind, ExceptT.bind, ExceptT.run, ExceptT.mk, StateT.bind, StateT.run, Id.run, ExceptT.bindCont]
  cases h : x s with
  | mk r s' =>
    cases r with
    | error e => rfl
    | ok v => cases v <;> rfl
@[simp] theorem exec_liftE {ρ α} (x : PyM2 α) (s : St) :
    PyM2.exec (α := Except ρ α) (monadLift x : ExceptT ρ PyM2 α) s = match PyM2.exec x s with
      | (.ok a, s') => (.ok (.ok a), s')
      | (.error e, s') => (.error e, s') := by
  simp only [PyM2.exec, monadLift, MonadLift.monadLift, ExceptT.lift, ExceptT.run, ExceptT.mk, Functor.map, ExceptT.map,
    StateT.map, StateT.bind, StateT.run, Id.run, bind, pure, StateT.pure]
  cases h : x s with
  | mk r s' => cases r <;> rfl
@[simp] theorem exec_liftME {ρ α} (x : PyM2 α) (s : St) :
    PyM2.exec (α := Except ρ α) (liftM x : ExceptT ρ PyM2 α) s = match PyM2.exec x s with
      | (.ok a, s') => (.ok (.ok a), s')
      | (.error e, s') => (.error e, s') := exec_liftE x s
@[simp] theorem exec_liftPE {ρ α} (p : PyM α) (s : St) :
    PyM2.exec (α := Except ρ α) (liftM p : ExceptT ρ PyM2 α) s = (match p with | .ok a => .ok (.ok a) | .error e => .error e, s) := by
  cases p <;> rfl
@[simp] theorem exec_liftPE' {ρ α} (p : PyM α) (s : St) :
    PyM2.exec (α := Except ρ α) (monadLift p : ExceptT ρ PyM2 α) s = (match p with | .ok a => .ok (.ok a) | .error e => .error e, s) := by
  cases p <;> rfl

/-- an event: a call of a callable opaque object -/
theorem exec_symCall_obj (w : World) (p : String) (args : List PyVal) (kw : List (String × PyVal)) (s : St)
    (hc : w.noncallable.contains p = false) :
    PyM2.exec (symCall w (.obj p) args kw) s =
      PyM2.exec (nextResult p s.trace.length)
        { s with trace := s.trace ++ [.tuple [.str "call", .obj p, .list args, .dict kw]] } := by
  simp only [symCall, hc]
  rfl

/-- a method of a built-in value (`str.upper()`): no event -/
@[simp] theorem exec_symCall_bound (w : World) (recv : PyVal) (m : String) (args : List PyVal)
    (kw : List (String × PyVal)) (s : St) :
    PyM2.exec (symCall w (.tuple [.obj "<bound>", recv, .str m]) args kw) s = (builtinMethod recv m args kw, s) := by
  simp only [symCall]
  cases h : builtinMethod recv m args kw <;> simp [h] <;> rfl

/-- the script answers with a value -/
theorem exec_nextResult_val (label : String) (k : Nat) (s : St) (r : PyVal) (rest : List PyVal)
    (h : s.script.lookup label = some (r :: rest)) (hr : raiseCls r = Option.none) :
    PyM2.exec (nextResult label k) s = (.ok r, { s with script := scriptSet s.script label rest }) := by
  simp only [nextResult, PyM2.exec, bind, ExceptT.bind, ExceptT.run, ExceptT.mk, StateT.bind, StateT.run, Id.run,
    ExceptT.bindCont, get, getThe, MonadStateOf.get, liftM, monadLift, MonadLift.monadLift, ExceptT.lift, StateT.get,
    Functor.map, StateT.map, pure, StateT.pure, h, set, StateT.set, hr]
  rfl

/-- the script makes the call raise -/
theorem exec_nextResult_raise (label : String) (k : Nat) (s : St) (r : PyVal) (rest : List PyVal) (c : String)
    (h : s.script.lookup label = some (r :: rest)) (hr : raiseCls r = some c) :
    PyM2.exec (nextResult label k) s = (.error ⟨c, "scripted"⟩, { s with script := scriptSet s.script label rest }) := by
  simp only [nextResult, PyM2.exec, bind, ExceptT.bind, ExceptT.run, ExceptT.mk, StateT.bind, StateT.run, Id.run,
    ExceptT.bindCont, get, getThe, MonadStateOf.get, liftM, monadLift, MonadLift.monadLift, ExceptT.lift, StateT.get,
    Functor.map, StateT.map, pure, StateT.pure, h, set, StateT.set, hr]
  rfl

/-- the script has nothing (left) for this callee: the fresh object of the event -/
theorem exec_nextResult_fresh (label : String) (k : Nat) (s : St)
    (h : s.script.lookup label = Option.none ∨ s.script.lookup label = some []) :
    PyM2.exec (nextResult label k) s = (.ok (.obj ("#" ++ toString k)), s) := by
  rcases h with h | h <;>
  · simp only [nextResult, PyM2.exec, bind, ExceptT.bind, ExceptT.run, ExceptT.mk, StateT.bind, StateT.run, Id.run,
      ExceptT.bindCont, get, getThe, MonadStateOf.get, liftM, monadLift, MonadLift.monadLift, ExceptT.lift, StateT.get,
      Functor.map, StateT.map, pure, StateT.pure, h]
    rfl

/-- what an event does: the answer and the new state -/
def answer (label : String) (ev : PyVal) (s : St) : Except PyErr PyVal × St :=
  match s.script.lookup label with
  | some (r :: rest) =>
    (match raiseCls r with
     | some c => .error ⟨c, "scripted"⟩
     | Option.none => .ok r, { trace := s.trace ++ [ev], script := scriptSet s.script label rest })
  | _ => (.ok (.obj ("#" ++ toString s.trace.length)), { s with trace := s.trace ++ [ev] })

theorem exec_event (label : String) (ev : PyVal) (s : St) :
    PyM2.exec (nextResult label s.trace.length) { s with trace := s.trace ++ [ev] } = answer label ev s := by
  unfold answer
  have hs : ({ s with trace := s.trace ++ [ev] } : St).script = s.script := rfl
  cases h : s.script.lookup label with
  | none => exact exec_nextResult_fresh _ _ _ (Or.inl (hs ▸ h))
  | some l =>
    cases l with
    | nil => exact exec_nextResult_fresh _ _ _ (Or.inr (hs ▸ h))
    | cons r rest =>
      cases hr : raiseCls r with
      | none => simpa [hr] using exec_nextResult_val label s.trace.length { s with trace := s.trace ++ [ev] } r rest h hr
      | some c => simpa [hr] using exec_nextResult_raise label s.trace.length { s with trace := s.trace ++ [ev] } r rest c h hr

theorem exec_symCall (w : World) (p : String) (args : List PyVal) (kw : List (String × PyVal)) (s : St)
    (hc : w.noncallable.contains p = false) :
    PyM2.exec (symCall w (.obj p) args kw) s = answer p (.tuple [.str "call", .obj p, .list args, .dict kw]) s := by
  rw [exec_symCall_obj w p args kw s hc, exec_event]

theorem exec_symBin_obj_l (op : String) (p : String) (b : PyVal) (s : St) :
    PyM2.exec (symBin op (.obj p) b) s = answer ("<" ++ op ++ ">") (.tuple [.str "binop", .str op, .obj p, b]) s := by
  simp only [symBin, isObj, Bool.true_or, if_true]
  exact exec_event _ _ _

theorem exec_symBin_obj_r (op : String) (a : PyVal) (p : String) (s : St) :
    PyM2.exec (symBin op a (.obj p)) s = answer ("<" ++ op ++ ">") (.tuple [.str "binop", .str op, a, .obj p]) s := by
  simp only [symBin, isObj, Bool.or_true, if_true]
  exact exec_event _ _ _

@[simp] theorem exec_symSetItem_obj (p : String) (key v : PyVal) (s : St) :
    PyM2.exec (symSetItem (.obj p) key v) s =
      (.ok (.obj p), { s with trace := s.trace ++ [.tuple [.str "setitem", .obj p, key, v]] }) := rfl

@[simp] theorem exec_symSetItem_dict (kw : List (String × PyVal)) (k : String) (v : PyVal) (s : St) :
    PyM2.exec (symSetItem (.dict kw) (.str k) v) s = (.ok (.dict (dictInsert kw k v)), s) := by
  simp only [symSetItem, pySetItem_dict]
  rfl

@[simp] theorem raiseCls_obj (t : String) : raiseCls (.obj t) = Option.none := rfl
@[simp] theorem raiseCls_float (q : Rat) : raiseCls (.float q) = Option.none := rfl
@[simp] theorem raiseCls_int (q : Int) : raiseCls (.int q) = Option.none := rfl
@[simp] theorem raiseCls_bool (q : Bool) : raiseCls (.bool q) = Option.none := rfl
@[simp] theorem raiseCls_list (q : List PyVal) : raiseCls (.list q) = Option.none := rfl
@[simp] theorem raiseCls_mkRaise (c : String) : raiseCls (mkRaise c) = some c := rfl

end PyamgV.ExtPy2
