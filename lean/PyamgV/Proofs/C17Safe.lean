import PyamgV.Model.C17Ck

/-! PyamgV (C17): bounds-safety + termination theorems for the `Ck` models of `Model/C17Ck.lean`
(relaxation.h: `sor_gauss_seidel`, `jacobi`, `jacobi_indexed`, `gauss_seidel_indexed`,
`gauss_seidel_ne`, `gauss_seidel_nr`).  Each proof is the script "this index is in range because ..."
over the Hoare rules of `Proofs/Ck.lean`.  Core Lean only. -/
namespace PyamgV.C17
open PyamgV.Ck

set_option linter.unusedSectionVars false
variable {α : Type} [Inhabited α]

/-! ### CSR facts -/

theorem ap_nonneg_m {m : Nat} (G : Csr α) (h : WFm G m) : ∀ i, i ≤ G.n → 0 ≤ G.ap.getD i 0 := by
  intro i
  induction i with
  | zero => intro _; exact h.ap0
  | succ i ih => intro hi; exact Int.le_trans (ih (by omega)) (h.mono i (by omega))

theorem ap_le_last_m {m : Nat} (G : Csr α) (h : WFm G m) :
    ∀ i, i ≤ G.n → G.ap.getD i 0 ≤ G.ap.getD G.n 0 := by
  intro i hi
  induction hd : G.n - i generalizing i with
  | zero => have : i = G.n := by omega
            subst this; exact Int.le_refl _
  | succ d ih =>
    have hlt : i < G.n := by omega
    exact Int.le_trans (h.mono i hlt) (ih (i+1) (by omega) (by omega))

/-- the entries `jj` of row `i` are inside `Aj` and `Ax` -/
theorem row_range_m {m : Nat} (G : Csr α) (h : WFm G m) (i : Nat) (hi : i < G.n) (jj : Int)
    (h1 : G.ap.getD i 0 ≤ jj) (h2 : jj < G.ap.getD (i+1) 0) :
    0 ≤ jj ∧ jj.toNat < G.aj.size ∧ jj.toNat < G.ax.size := by
  have a1 := ap_nonneg_m G h i (by omega)
  have a2 := ap_le_last_m G h (i+1) (by omega)
  have a3 := h.last_j
  have a4 := h.last_x
  omega

/-- a square well-formed matrix in the sense of `Ck.WF` is `WFm G G.n` -/
theorem wfm_of_wf (G : Csr α) (h : WF G) : WFm G G.n :=
  ⟨h.ap_size, h.ap0, h.mono, h.last_j, h.last_x, h.cols⟩

/-- an admissible strided range visits at most `n` rows: the sweep needs no more fuel than that -/
theorem adm_le {n : Nat} {start stop step : Int} {k : Nat} (h : Adm n start stop step k) : k ≤ n := by
  cases k with
  | zero => omega
  | succ k =>
    have r0 := h.rows 0 (by omega)
    have rk := h.rows k (by omega)
    have z0 : start + ((0 : Nat) : Int) * step = start := by simp
    rw [z0] at r0
    rcases Int.lt_or_gt_of_ne h.step_ne with hs | hs
    · have : (k : Int) * step ≤ (k : Int) * (-1) :=
        Int.mul_le_mul_of_nonneg_left (by omega) (by omega)
      omega
    · have : (k : Int) * 1 ≤ (k : Int) * step :=
        Int.mul_le_mul_of_nonneg_left (by omega) (by omega)
      omega

/-- a loop rule with an index-dependent invariant -/
theorem forRange_safe_idx {σ : Type} (Inv : Int → σ → Prop) (s e : Int) (hse : s ≤ e) (init : σ)
    (body : Int → σ → Ck σ) (h0 : Inv s init)
    (hstep : ∀ jj, s ≤ jj → jj < e → ∀ st, Inv jj st → Safe (body jj st) (Inv (jj + 1))) :
    Safe (forRange s e init body) (Inv e) := by
  unfold forRange
  have key : ∀ (m : Nat), m ≤ (e - s).toNat →
      Safe ((List.range m).foldl (fun (acc : Ck σ) (k : Nat) => acc >>= body (s + (k : Int)))
        (pure init)) (Inv (s + (m : Int))) := by
    intro m
    induction m with
    | zero => intro _; simp; exact Safe.pure h0
    | succ m ih =>
      intro hm
      rw [List.range_succ, List.foldl_append]
      simp only [List.foldl_cons, List.foldl_nil]
      have e1 : s + ((m + 1 : Nat) : Int) = s + (m : Int) + 1 := by omega
      rw [e1]
      exact Safe.bind (ih (by omega)) (fun st hst => hstep _ (by omega) (by omega) st hst)
  have := key _ (Nat.le_refl _)
  have e2 : s + (((e - s).toNat : Nat) : Int) = e := by omega
  rw [e2] at this
  exact this

/-! ### the shared row scan -/

theorem rowScan_safe (o : KOps α) (G : Csr α) {m : Nat} (hG : WFm G m) (r : Int) (h0 : 0 ≤ r)
    (h1 : r < (G.n : Int)) (v : Array α) (hv : v.size = m) :
    Safe (rowScan o G r v) (fun _ => True) := by
  have hin : r.toNat < G.n := by omega
  have hs1 : (r+1).toNat = r.toNat + 1 := by omega
  unfold rowScan
  refine Safe.bind (rd_safe G.ap r h0 (by rw [hG.ap_size]; omega)) (fun s hs => ?_)
  refine Safe.bind (rd_safe G.ap (r+1) (by omega) (by rw [hG.ap_size]; omega)) (fun e he => ?_)
  rw [hs1] at he
  apply forRange_safe (fun _ => True) s e _ _ trivial
  intro jj j1 j2 st _
  have hr := row_range_m G hG r.toNat hin jj (by rw [hs] at j1; exact j1) (by rw [he] at j2; exact j2)
  refine Safe.bind (rd_safe G.aj jj hr.1 hr.2.1) (fun j hj => ?_)
  refine Safe.bind (rd_safe G.ax jj hr.1 hr.2.2) (fun a _ => ?_)
  by_cases hij : r = j
  · rw [if_pos hij]; exact Safe.pure trivial
  · rw [if_neg hij]
    have hc := hG.cols jj.toNat hr.2.1
    have hj' : j = G.aj.getD jj.toNat 0 := hj
    refine Safe.bind (rd_safe v j (by rw [hj']; exact hc.1) (by rw [hj', hv]; omega))
      (fun _ _ => Safe.pure trivial)

/-! ### `sor_gauss_seidel` -/

theorem sorRow_safe (o : KOps α) (om : α) (G : Csr α) (hG : WFm G G.n) (b : Array α)
    (hb : b.size = G.n) (i : Int) (hi0 : 0 ≤ i) (hi1 : i < (G.n : Int)) (x : Array α)
    (hx : x.size = G.n) : Safe (sorRow o om G b i x) (fun x' => x'.size = G.n) := by
  have hin : i.toNat < G.n := by omega
  unfold sorRow
  refine Safe.bind (rowScan_safe o G hG i hi0 hi1 x hx) (fun acc _ => ?_)
  by_cases hz : o.isZero acc.2 = true
  · rw [if_pos hz]; exact Safe.pure hx
  · rw [if_neg hz]
    refine Safe.bind (rd_safe b i hi0 (by rw [hb]; exact hin)) (fun bi _ => ?_)
    refine Safe.bind (rd_safe x i hi0 (by rw [hx]; exact hin)) (fun xi _ => ?_)
    exact Safe.mono (wr_safe x i _ hi0 (by rw [hx]; exact hin)) (fun a' h => by rw [h, hx])

/-- **`sor_gauss_seidel`**: for every well-formed square CSR matrix, `b`, `x` of length `n` and every
admissible `(start, stop, step)` the sweep terminates (within `k ≤ n` row visits) and no access
leaves its array -/
theorem sorSweep_safe (o : KOps α) (om : α) (G : Csr α) (hG : WFm G G.n) (b : Array α)
    (hb : b.size = G.n) (start stop step : Int) (k : Nat) (hadm : Adm G.n start stop step k)
    (fuel : Nat) (hf : k ≤ fuel) (x : Array α) (hx : x.size = G.n) :
    ∃ r, sorSweep o om G b start stop step fuel x = some r ∧ Safe r (fun x' => x'.size = G.n) := by
  unfold sorSweep
  exact forStride_safe (fun x' : Array α => x'.size = G.n) G.n stop step (sorRow o om G b)
    (fun i h0 h1 st hst => sorRow_safe o om G hG b hb i h0 h1 st hst) k start hadm fuel hf
    (pure x) (Safe.pure hx)

/-! ### `jacobi` -/

theorem jacCopy_safe (n : Nat) (i : Int) (hi0 : 0 ≤ i) (hi1 : i < (n : Int)) (st : XT α)
    (hst : st.1.size = n ∧ st.2.size = n) :
    Safe (jacCopy i st) (fun st' => st'.1.size = n ∧ st'.2.size = n) := by
  unfold jacCopy
  refine Safe.bind (rd_safe st.1 i hi0 (by rw [hst.1]; omega)) (fun xi _ => ?_)
  refine Safe.bind (wr_safe st.2 i xi hi0 (by rw [hst.2]; omega)) (fun t ht => ?_)
  exact Safe.pure ⟨hst.1, by rw [ht, hst.2]⟩

theorem jacRow_safe (o : KOps α) (om : α) (G : Csr α) (hG : WFm G G.n) (b : Array α)
    (hb : b.size = G.n) (i : Int) (hi0 : 0 ≤ i) (hi1 : i < (G.n : Int)) (st : XT α)
    (hst : st.1.size = G.n ∧ st.2.size = G.n) :
    Safe (jacRow o om G b i st) (fun st' => st'.1.size = G.n ∧ st'.2.size = G.n) := by
  have hin : i.toNat < G.n := by omega
  unfold jacRow
  refine Safe.bind (rowScan_safe o G hG i hi0 hi1 st.2 hst.2) (fun acc _ => ?_)
  by_cases hz : o.isZero acc.2 = true
  · rw [if_pos hz]; exact Safe.pure hst
  · rw [if_neg hz]
    refine Safe.bind (rd_safe st.2 i hi0 (by rw [hst.2]; exact hin)) (fun ti _ => ?_)
    refine Safe.bind (rd_safe b i hi0 (by rw [hb]; exact hin)) (fun bi _ => ?_)
    refine Safe.bind (wr_safe st.1 i _ hi0 (by rw [hst.1]; exact hin)) (fun x' hx' => ?_)
    exact Safe.pure ⟨by rw [hx', hst.1], hst.2⟩

/-- **`jacobi`**: both strided loops terminate and stay inside `x`, `temp`, `b`, `omega` and the CSR arrays -/
theorem jacobi_safe (o : KOps α) (omv : Array α) (hom : 0 < omv.size) (G : Csr α) (hG : WFm G G.n)
    (b : Array α) (hb : b.size = G.n) (start stop step : Int) (k : Nat)
    (hadm : Adm G.n start stop step k) (fuel : Nat) (hf : k ≤ fuel) (x temp : Array α)
    (hx : x.size = G.n) (ht : temp.size = G.n) :
    ∃ r, jacobi o omv G b start stop step fuel x temp = some r ∧
      Safe r (fun st => st.1.size = G.n ∧ st.2.size = G.n) := by
  have h0 : Safe (rd omv 0 >>= fun _ => (pure (x, temp) : Ck (XT α)))
      (fun st => st.1.size = G.n ∧ st.2.size = G.n) :=
    Safe.bind (rd_safe omv 0 (Int.le_refl 0) (by simpa using hom)) (fun _ _ => Safe.pure ⟨hx, ht⟩)
  obtain ⟨r1, e1, s1⟩ := forStride_safe (fun st : XT α => st.1.size = G.n ∧ st.2.size = G.n) G.n stop
    step jacCopy (fun i i0 i1 st hst => jacCopy_safe G.n i i0 i1 st hst) k start hadm fuel hf _ h0
  unfold jacobi
  simp only [e1]
  exact forStride_safe (fun st : XT α => st.1.size = G.n ∧ st.2.size = G.n) G.n stop step
    (jacRow o (rd omv 0).val G b) (fun i i0 i1 st hst => jacRow_safe o _ G hG b hb i i0 i1 st hst)
    k start hadm fuel hf r1 s1

/-! ### `jacobi_indexed`, `gauss_seidel_indexed` -/

/-- all entries of an index array are row numbers -/
def IdxIn (idx : Array Int) (n : Nat) : Prop :=
  ∀ p, p < idx.size → 0 ≤ idx.getD p 0 ∧ idx.getD p 0 < (n : Int)

/-- **`jacobi_indexed`** -/
theorem jacobiIndexed_safe (o : KOps α) (omv : Array α) (hom : 0 < omv.size) (G : Csr α)
    (hG : WFm G G.n) (b : Array α) (hb : b.size = G.n) (indices : Array Int)
    (hidx : IdxIn indices G.n) (x : Array α) (hx : x.size = G.n) :
    Safe (jacobiIndexed o omv G b indices x) (fun x' => x'.size = G.n) := by
  unfold jacobiIndexed
  refine Safe.bind (rd_safe omv 0 (Int.le_refl 0) (by simpa using hom)) (fun om _ => ?_)
  refine Safe.bind (P := fun t => t.size = G.n) ?_ (fun temp htemp => ?_)
  · apply forRange_safe (fun t : Array α => t.size = G.n) 0 (x.size : Int) _ _ (by simp [hx])
    intro i i0 i1 t ht
    refine Safe.bind (rd_safe x i i0 (by omega)) (fun xi _ => ?_)
    exact Safe.mono (wr_safe t i xi i0 (by rw [ht, ← hx]; omega)) (fun a' h => by rw [h, ht])
  · apply forRange_safe (fun x' : Array α => x'.size = G.n) 0 (indices.size : Int) _ _ hx
    intro i i0 i1 x' hx'
    refine Safe.bind (rd_safe indices i i0 (by omega)) (fun row hrow => ?_)
    have hr := hidx i.toNat (by omega)
    have hrow' : row = indices.getD i.toNat 0 := hrow
    rw [← hrow'] at hr
    have hin : row.toNat < G.n := by omega
    refine Safe.bind (rowScan_safe o G hG row hr.1 hr.2 temp htemp) (fun acc _ => ?_)
    by_cases hz : o.isZero acc.2 = true
    · rw [if_pos hz]; exact Safe.pure hx'
    · rw [if_neg hz]
      refine Safe.bind (rd_safe temp row hr.1 (by rw [htemp]; exact hin)) (fun ti _ => ?_)
      refine Safe.bind (rd_safe b row hr.1 (by rw [hb]; exact hin)) (fun bi _ => ?_)
      exact Safe.mono (wr_safe x' row _ hr.1 (by rw [hx']; exact hin)) (fun a' h => by rw [h, hx'])

theorem gsIdxRow_safe (o : KOps α) (G : Csr α) (hG : WFm G G.n) (b : Array α) (hb : b.size = G.n)
    (Id : Array Int) (hid : IdxIn Id G.n) (i : Int) (hi0 : 0 ≤ i) (hi1 : i < (Id.size : Int))
    (x : Array α) (hx : x.size = G.n) :
    Safe (gsIdxRow o G b Id i x) (fun x' => x'.size = G.n) := by
  unfold gsIdxRow
  refine Safe.bind (rd_safe Id i hi0 (by omega)) (fun row hrow => ?_)
  have hr := hid i.toNat (by omega)
  have hrow' : row = Id.getD i.toNat 0 := hrow
  rw [← hrow'] at hr
  have hin : row.toNat < G.n := by omega
  refine Safe.bind (rowScan_safe o G hG row hr.1 hr.2 x hx) (fun acc _ => ?_)
  by_cases hz : o.isZero acc.2 = true
  · rw [if_pos hz]; exact Safe.pure hx
  · rw [if_neg hz]
    refine Safe.bind (rd_safe b row hr.1 (by rw [hb]; exact hin)) (fun bi _ => ?_)
    exact Safe.mono (wr_safe x row _ hr.1 (by rw [hx]; exact hin)) (fun a' h => by rw [h, hx])

/-- **`gauss_seidel_indexed`**: the strided loop runs over positions of `Id` (admissible w.r.t.
`Id.size`), the rows are `Id[i]` -/
theorem gsIndexed_safe (o : KOps α) (G : Csr α) (hG : WFm G G.n) (b : Array α) (hb : b.size = G.n)
    (Id : Array Int) (hid : IdxIn Id G.n) (start stop step : Int) (k : Nat)
    (hadm : Adm Id.size start stop step k) (fuel : Nat) (hf : k ≤ fuel) (x : Array α)
    (hx : x.size = G.n) :
    ∃ r, gsIndexed o G b Id start stop step fuel x = some r ∧ Safe r (fun x' => x'.size = G.n) := by
  unfold gsIndexed
  exact forStride_safe (fun x' : Array α => x'.size = G.n) Id.size stop step (gsIdxRow o G b Id)
    (fun i h0 h1 st hst => gsIdxRow_safe o G hG b hb Id hid i h0 h1 st hst) k start hadm fuel hf
    (pure x) (Safe.pure hx)

/-! ### `gauss_seidel_ne`, `gauss_seidel_nr` (rectangular: `G.n` rows, `m` columns) -/

theorem gsNeRow_safe (o : KOps α) (om : α) (G : Csr α) {m : Nat} (hG : WFm G m) (b dinv : Array α)
    (hb : b.size = G.n) (hd : dinv.size = G.n) (i : Int) (hi0 : 0 ≤ i) (hi1 : i < (G.n : Int))
    (x : Array α) (hx : x.size = m) :
    Safe (gsNeRow o om G b dinv i x) (fun x' => x'.size = m) := by
  have hin : i.toNat < G.n := by omega
  have hs1 : (i+1).toNat = i.toNat + 1 := by omega
  unfold gsNeRow
  refine Safe.bind (rd_safe G.ap i hi0 (by rw [hG.ap_size]; omega)) (fun s hs => ?_)
  refine Safe.bind (rd_safe G.ap (i+1) (by omega) (by rw [hG.ap_size]; omega)) (fun e he => ?_)
  rw [hs1] at he
  refine Safe.bind (P := fun _ => True) ?_ (fun d _ => ?_)
  · apply forRange_safe (fun _ => True) s e _ _ trivial
    intro jj j1 j2 st _
    have hr := row_range_m G hG i.toNat hin jj (by rw [hs] at j1; exact j1) (by rw [he] at j2; exact j2)
    refine Safe.bind (rd_safe G.ax jj hr.1 hr.2.2) (fun a _ => ?_)
    refine Safe.bind (rd_safe G.aj jj hr.1 hr.2.1) (fun c hc => ?_)
    have hcc := hG.cols jj.toNat hr.2.1
    have hc' : c = G.aj.getD jj.toNat 0 := hc
    exact Safe.bind (rd_safe x c (by rw [hc']; exact hcc.1) (by rw [hc', hx]; omega))
      (fun _ _ => Safe.pure trivial)
  · refine Safe.bind (rd_safe b i hi0 (by rw [hb]; exact hin)) (fun bi _ => ?_)
    refine Safe.bind (rd_safe dinv i hi0 (by rw [hd]; exact hin)) (fun di _ => ?_)
    apply forRange_safe (fun x' : Array α => x'.size = m) s e _ _ hx
    intro jj j1 j2 x' hx'
    have hr := row_range_m G hG i.toNat hin jj (by rw [hs] at j1; exact j1) (by rw [he] at j2; exact j2)
    refine Safe.bind (rd_safe G.aj jj hr.1 hr.2.1) (fun c hc => ?_)
    have hcc := hG.cols jj.toNat hr.2.1
    have hc' : c = G.aj.getD jj.toNat 0 := hc
    refine Safe.bind (rd_safe x' c (by rw [hc']; exact hcc.1) (by rw [hc', hx']; omega)) (fun xc _ => ?_)
    refine Safe.bind (rd_safe G.ax jj hr.1 hr.2.2) (fun a _ => ?_)
    exact Safe.mono (wr_safe x' c _ (by rw [hc']; exact hcc.1) (by rw [hc', hx']; omega))
      (fun a' h => by rw [h, hx'])

/-- **`gauss_seidel_ne`** -/
theorem gsNe_safe (o : KOps α) (om : α) (G : Csr α) {m : Nat} (hG : WFm G m) (b dinv : Array α)
    (hb : b.size = G.n) (hd : dinv.size = G.n) (start stop step : Int) (k : Nat)
    (hadm : Adm G.n start stop step k) (fuel : Nat) (hf : k ≤ fuel) (x : Array α) (hx : x.size = m) :
    ∃ r, gsNe o om G b dinv start stop step fuel x = some r ∧ Safe r (fun x' => x'.size = m) := by
  unfold gsNe
  exact forStride_safe (fun x' : Array α => x'.size = m) G.n stop step (gsNeRow o om G b dinv)
    (fun i h0 h1 st hst => gsNeRow_safe o om G hG b dinv hb hd i h0 h1 st hst) k start hadm fuel hf
    (pure x) (Safe.pure hx)

theorem gsNrCol_safe (o : KOps α) (om : α) (G : Csr α) {m : Nat} (hG : WFm G m) (dinv : Array α)
    (hd : dinv.size = G.n) (i : Int) (hi0 : 0 ≤ i) (hi1 : i < (G.n : Int)) (st : XT α)
    (hst : st.1.size = G.n ∧ st.2.size = m) :
    Safe (gsNrCol o om G dinv i st) (fun st' => st'.1.size = G.n ∧ st'.2.size = m) := by
  have hin : i.toNat < G.n := by omega
  have hs1 : (i+1).toNat = i.toNat + 1 := by omega
  unfold gsNrCol
  refine Safe.bind (rd_safe G.ap i hi0 (by rw [hG.ap_size]; omega)) (fun s hs => ?_)
  refine Safe.bind (rd_safe G.ap (i+1) (by omega) (by rw [hG.ap_size]; omega)) (fun e he => ?_)
  rw [hs1] at he
  refine Safe.bind (P := fun _ => True) ?_ (fun d _ => ?_)
  · apply forRange_safe (fun _ => True) s e _ _ trivial
    intro jj j1 j2 acc _
    have hr := row_range_m G hG i.toNat hin jj (by rw [hs] at j1; exact j1) (by rw [he] at j2; exact j2)
    refine Safe.bind (rd_safe G.ax jj hr.1 hr.2.2) (fun a _ => ?_)
    refine Safe.bind (rd_safe G.aj jj hr.1 hr.2.1) (fun c hc => ?_)
    have hcc := hG.cols jj.toNat hr.2.1
    have hc' : c = G.aj.getD jj.toNat 0 := hc
    exact Safe.bind (rd_safe st.2 c (by rw [hc']; exact hcc.1) (by rw [hc', hst.2]; omega))
      (fun _ _ => Safe.pure trivial)
  · refine Safe.bind (rd_safe dinv i hi0 (by rw [hd]; exact hin)) (fun di _ => ?_)
    refine Safe.bind (rd_safe st.1 i hi0 (by rw [hst.1]; exact hin)) (fun xi _ => ?_)
    refine Safe.bind (wr_safe st.1 i _ hi0 (by rw [hst.1]; exact hin)) (fun x' hx' => ?_)
    refine Safe.bind (P := fun r : Array α => r.size = m) ?_ (fun r hr' => ?_)
    · apply forRange_safe (fun r : Array α => r.size = m) s e _ _ hst.2
      intro jj j1 j2 r hr'
      have hr := row_range_m G hG i.toNat hin jj (by rw [hs] at j1; exact j1) (by rw [he] at j2; exact j2)
      refine Safe.bind (rd_safe G.aj jj hr.1 hr.2.1) (fun c hc => ?_)
      have hcc := hG.cols jj.toNat hr.2.1
      have hc' : c = G.aj.getD jj.toNat 0 := hc
      refine Safe.bind (rd_safe r c (by rw [hc']; exact hcc.1) (by rw [hc', hr']; omega)) (fun rc _ => ?_)
      refine Safe.bind (rd_safe G.ax jj hr.1 hr.2.2) (fun a _ => ?_)
      exact Safe.mono (wr_safe r c _ (by rw [hc']; exact hcc.1) (by rw [hc', hr']; omega))
        (fun a' h => by rw [h, hr'])
    · exact Safe.pure ⟨by rw [hx', hst.1], hr'⟩

/-- **`gauss_seidel_nr`** (`G` = CSC arrays with `G.n` columns and `m` rows; `x` per column, `r` per row) -/
theorem gsNr_safe (o : KOps α) (om : α) (G : Csr α) {m : Nat} (hG : WFm G m) (dinv : Array α)
    (hd : dinv.size = G.n) (start stop step : Int) (k : Nat) (hadm : Adm G.n start stop step k)
    (fuel : Nat) (hf : k ≤ fuel) (x r : Array α) (hx : x.size = G.n) (hr : r.size = m) :
    ∃ q, gsNr o om G dinv start stop step fuel x r = some q ∧
      Safe q (fun st => st.1.size = G.n ∧ st.2.size = m) := by
  unfold gsNr
  exact forStride_safe (fun st : XT α => st.1.size = G.n ∧ st.2.size = m) G.n stop step (gsNrCol o om G dinv)
    (fun i h0 h1 st hst => gsNrCol_safe o om G hG dinv hd i h0 h1 st hst) k start hadm fuel hf
    (pure (x, r)) (Safe.pure ⟨hx, hr⟩)

end PyamgV.C17
