import PyamgV.Proofs.ExtC19TCond

/-! PyamgV (C19, extension E52): **`cond`** -- the singular-value certificate `svdCert` / `condCert` of
`Model/ExtC19TCx.lean` with tolerance zero, scalars = pairs over an ordered field.

Recorded triples `(u_i, sigma_i, v_i)`, `i < n`, that the model accepts satisfy `A v_i = sigma_i u_i`, `U^H U = I`,
`V^H V = I`, `V V^H = I`, `sigma_i` real (`svdCert_spec`).  Then for every `x`, with `c_i = v_i^H x`:
`x = sum c_i v_i`, `A x = sum c_i sigma_i u_i`, `|x|^2 = sum |c_i|^2`, `|A x|^2 = sum sigma_i^2 |c_i|^2`
(`svd_norms`), hence `(min sigma)^2 |x|^2 <= |A x|^2 <= (max sigma)^2 |x|^2` (`svd_bounds`): the accepted `sigma_i` are
the singular values, `condCert = max sigma / min sigma` is the 2-norm condition number by its definition, and
(`cvec_condest_le_condCert`) **the value of every successful `condest` run of the model is `<=` the value of
`condCert`**. -/
set_option linter.unusedSectionVars false
namespace PyamgV.C19T
open PyamgV.C07 PyamgV.CHerm PyamgV.C19S PyamgV.C07.CH

variable {F : Type} [Field F] [LinearOrder F] [IsStrictOrderedRing F]

/-! ### sums of squares in the model -/

theorem sumN_ofRe (f : Nat → F) : ∀ n, sumN (fun i => (Cx.ofRe (f i) : Cx F)) n = Cx.ofRe (∑ i ∈ Finset.range n, f i)
  | 0 => by simp [sumN]; rfl
  | n+1 => by rw [sumN, sumN_ofRe f n, Finset.sum_range_succ, ofRe_add]

theorem sqAbs_eq (z : Cx F) : sqAbs Cx.conj z = Cx.ofRe (Cx.normSq z) := Cx.star_mul_self z

/-- a double sum of squared moduli -/
theorem sumN2_sq (g : Nat → Nat → Cx F) (n m : Nat) :
    sumN (fun i => sumN (fun j => sqAbs Cx.conj (g i j)) m) n
      = Cx.ofRe (∑ i ∈ Finset.range n, ∑ j ∈ Finset.range m, Cx.normSq (g i j)) := by
  have : (fun i => sumN (fun j => sqAbs Cx.conj (g i j)) m)
      = fun i => (Cx.ofRe (∑ j ∈ Finset.range m, Cx.normSq (g i j)) : Cx F) := by
    funext i
    have h2 : (fun j => sqAbs Cx.conj (g i j)) = fun j => (Cx.ofRe (Cx.normSq (g i j)) : Cx F) := by
      funext j; exact sqAbs_eq _
    rw [h2, sumN_ofRe]
  rw [this, sumN_ofRe]

theorem sum2_normSq_nonneg (g : Nat → Nat → Cx F) (n m : Nat) :
    0 ≤ ∑ i ∈ Finset.range n, ∑ j ∈ Finset.range m, Cx.normSq (g i j) :=
  Finset.sum_nonneg (fun _ _ => Finset.sum_nonneg (fun _ _ => Cx.normSq_nonneg _))

theorem sum2_normSq_zero (g : Nat → Nat → Cx F) (n m : Nat)
    (h : ∑ i ∈ Finset.range n, ∑ j ∈ Finset.range m, Cx.normSq (g i j) = 0) : ∀ i j, i < n → j < m → g i j = 0 := by
  intro i j hi hj
  have h1 := (Finset.sum_eq_zero_iff_of_nonneg
    (fun i _ => Finset.sum_nonneg (fun j _ => Cx.normSq_nonneg (g i j)))).mp h i (Finset.mem_range.2 hi)
  have h2 := (Finset.sum_eq_zero_iff_of_nonneg (fun j _ => Cx.normSq_nonneg (g i j))).mp h1 j (Finset.mem_range.2 hj)
  exact Cx.normSq_eq_zero h2

theorem ltC_ofRe_false (a b : F) (h : Cx.ltC ltF (Cx.ofRe a) (Cx.ofRe b) = false) : b ≤ a := by
  by_contra hc
  have := (ltC_ofRe a b).2 (not_le.mp hc)
  rw [this] at h; cases h

/-! ### what an accepted certificate says -/
section cert
variable (n : Nat) (A us vs : List (List (Cx F))) (sig : List (Cx F))

/-- entries of the lists as functions -/
def aEnt (r s : Nat) : Cx F := (A.getD r []).getD s 0
def colEnt (cols : List (List (Cx F))) (i r : Nat) : Cx F := (cols.getD i []).getD r 0
def kron (i j : Nat) : Cx F := if i = j then 1 else 0

theorem lmv_getD (x : List (Cx F)) (r : Nat) (hr : r < n) :
    (lmv n A x).getD r 0 = ∑ j ∈ Finset.range n, aEnt A r j * x.getD j 0 := by
  unfold lmv
  rw [List.getD_eq_getElem _ _ (by simpa using hr)]
  simp only [List.getElem_map, List.getElem_range]
  rw [sumN_eq_sum]; rfl

/-- the five groups of equations behind `svdDefect` -/
structure SvdEqs : Prop where
  len : sig.length = n
  av : ∀ i r, i < n → r < n → ∑ j ∈ Finset.range n, aEnt A r j * colEnt vs i j = sig.getD i 0 * colEnt us i r
  uu : ∀ i j, i < n → j < n → ∑ r ∈ Finset.range n, star (colEnt us i r) * colEnt us j r = kron i j
  vv : ∀ i j, i < n → j < n → ∑ r ∈ Finset.range n, star (colEnt vs i r) * colEnt vs j r = kron i j
  ww : ∀ r s, r < n → s < n → ∑ i ∈ Finset.range n, colEnt vs i r * star (colEnt vs i s) = kron r s
  real : ∀ i, i < n → (sig.getD i 0).im = 0

theorem svdCert_spec (h : svdCert Cx.conj (Cx.ltC ltF) 0 n A us vs sig = true) : SvdEqs n A us vs sig := by
  unfold svdCert at h
  simp only [Bool.and_eq_true, beq_iff_eq, Bool.not_eq_eq_eq_not, Bool.not_true] at h
  obtain ⟨hlen, hd⟩ := h
  unfold svdDefect at hd
  simp only at hd
  -- the single sum as a double sum with inner range 1
  have hS : sumN (fun i => sqAbs Cx.conj (sig.getD i 0 - Cx.conj (sig.getD i 0))) n
      = Cx.ofRe (∑ i ∈ Finset.range n, ∑ _j ∈ Finset.range 1, Cx.normSq (sig.getD i 0 - Cx.conj (sig.getD i 0))) := by
    have := sumN2_sq (fun i _ => sig.getD i 0 - Cx.conj (sig.getD i 0)) n 1
    simp only [sumN, zero_add] at this
    exact this
  rw [sumN2_sq (fun i r => (lmv n A (vs.getD i [])).getD r 0 - sig.getD i 0 * (us.getD i []).getD r 0) n n,
    sumN2_sq (fun i j => ldot Cx.conj n (us.getD i []) (us.getD j []) - (if i = j then (1 : Cx F) else 0)) n n,
    sumN2_sq (fun i j => ldot Cx.conj n (vs.getD i []) (vs.getD j []) - (if i = j then (1 : Cx F) else 0)) n n,
    sumN2_sq (fun r s => sumN (fun i => (vs.getD i []).getD r 0 * Cx.conj ((vs.getD i []).getD s 0)) n
      - (if r = s then (1 : Cx F) else 0)) n n, hS, ← ofRe_add, ← ofRe_add, ← ofRe_add, ← ofRe_add] at hd
  have n1 := sum2_normSq_nonneg (fun i r => (lmv n A (vs.getD i [])).getD r 0 - sig.getD i 0 * (us.getD i []).getD r 0) n n
  have n2 := sum2_normSq_nonneg
    (fun i j => ldot Cx.conj n (us.getD i []) (us.getD j []) - (if i = j then (1 : Cx F) else 0)) n n
  have n3 := sum2_normSq_nonneg
    (fun i j => ldot Cx.conj n (vs.getD i []) (vs.getD j []) - (if i = j then (1 : Cx F) else 0)) n n
  have n4 := sum2_normSq_nonneg (fun r s => sumN (fun i => (vs.getD i []).getD r 0 * Cx.conj ((vs.getD i []).getD s 0)) n
      - (if r = s then (1 : Cx F) else 0)) n n
  have n5 := sum2_normSq_nonneg (fun i (_ : Nat) => sig.getD i 0 - Cx.conj (sig.getD i 0)) n 1
  have hle' := ltC_ofRe_false 0 _ hd
  have z1 := sum2_normSq_zero _ n n (le_antisymm (by linarith) n1)
  have z2 := sum2_normSq_zero _ n n (le_antisymm (by linarith) n2)
  have z3 := sum2_normSq_zero _ n n (le_antisymm (by linarith) n3)
  have z4 := sum2_normSq_zero _ n n (le_antisymm (by linarith) n4)
  have z5 := sum2_normSq_zero _ n 1 (le_antisymm (by linarith) n5)
  refine ⟨hlen, ?_, ?_, ?_, ?_, ?_⟩
  · intro i r hi hr
    have := z1 i r hi hr
    rw [sub_eq_zero, lmv_getD n A _ r hr] at this
    exact this
  · intro i j hi hj
    have := z2 i j hi hj
    rw [sub_eq_zero, ldot, sumN_eq_sum] at this
    exact this
  · intro i j hi hj
    have := z3 i j hi hj
    rw [sub_eq_zero, ldot, sumN_eq_sum] at this
    exact this
  · intro r s hr hs
    have := z4 r s hr hs
    rw [sub_eq_zero, sumN_eq_sum] at this
    exact this
  · intro i hi
    have := z5 i 0 hi (by omega)
    have h2 : (sig.getD i 0 - Cx.conj (sig.getD i 0)).im = 0 := by rw [this]; rfl
    rw [Cx.sub_im, Cx.conj_im] at h2
    linarith

end cert

/-! ### expansion in an orthonormal family -/

/-- `z = sum_i d_i w_i` with `w_i^H w_j = delta_ij`: `|z|^2 = sum |d_i|^2` -/
theorem gram_expand (n : Nat) (w : Nat → Nat → Cx F) (d z : Nat → Cx F)
    (hw : ∀ i j, i < n → j < n → ∑ r ∈ Finset.range n, star (w i r) * w j r = kron i j)
    (hz : ∀ r, r < n → z r = ∑ i ∈ Finset.range n, d i * w i r) :
    ∑ r ∈ Finset.range n, star (z r) * z r = ∑ i ∈ Finset.range n, star (d i) * d i := by
  have h1 : ∑ r ∈ Finset.range n, star (z r) * z r
      = ∑ r ∈ Finset.range n, ∑ i ∈ Finset.range n, ∑ j ∈ Finset.range n, (star (d i) * d j) * (star (w i r) * w j r) := by
    refine Finset.sum_congr rfl (fun r hr => ?_)
    rw [hz r (Finset.mem_range.1 hr), star_sum, Finset.sum_mul]
    refine Finset.sum_congr rfl (fun i _ => ?_)
    rw [Finset.mul_sum]
    refine Finset.sum_congr rfl (fun j _ => ?_)
    rw [star_mul']; ring
  rw [h1, Finset.sum_comm]
  refine Finset.sum_congr rfl (fun i hi => ?_)
  rw [Finset.sum_comm]
  have h2 : ∀ j ∈ Finset.range n, ∑ r ∈ Finset.range n, star (d i) * d j * (star (w i r) * w j r)
      = star (d i) * d j * kron i j := by
    intro j hj
    rw [← Finset.mul_sum, hw i j (Finset.mem_range.1 hi) (Finset.mem_range.1 hj)]
  rw [Finset.sum_congr rfl h2, Finset.sum_eq_single i]
  · simp [kron]
  · intro j _ hji
    simp [kron, Ne.symm hji]
  · intro hni; exact absurd hi hni

theorem sum_star_mul_self_re (n : Nat) (z : Nat → Cx F) :
    (∑ r ∈ Finset.range n, star (z r) * z r).re = ∑ r ∈ Finset.range n, Cx.normSq (z r) := by
  rw [← Cx.reHom_apply, map_sum]
  exact Finset.sum_congr rfl (fun r _ => Cx.star_mul_self_re (z r))

section norms
variable (n : Nat) (A us vs : List (List (Cx F))) (sig : List (Cx F))

/-- `A x`, rows `r < n` -/
def aMul (x : Nat → Cx F) (r : Nat) : Cx F := ∑ s ∈ Finset.range n, aEnt A r s * x s
/-- `c_i = v_i^H x` -/
def coef (x : Nat → Cx F) (i : Nat) : Cx F := ∑ s ∈ Finset.range n, star (colEnt vs i s) * x s

variable {n A us vs sig}

theorem svd_expand (h : SvdEqs n A us vs sig) (x : Nat → Cx F) (r : Nat) (hr : r < n) :
    x r = ∑ i ∈ Finset.range n, coef n vs x i * colEnt vs i r := by
  have h1 : ∑ i ∈ Finset.range n, coef n vs x i * colEnt vs i r
      = ∑ s ∈ Finset.range n, (∑ i ∈ Finset.range n, colEnt vs i r * star (colEnt vs i s)) * x s := by
    unfold coef
    simp only [Finset.sum_mul]
    rw [Finset.sum_comm]
    refine Finset.sum_congr rfl (fun s _ => Finset.sum_congr rfl (fun i _ => ?_))
    ring
  rw [h1, Finset.sum_eq_single r]
  · rw [h.ww r r hr hr]; simp [kron]
  · intro s hs hsr
    rw [h.ww r s hr (Finset.mem_range.1 hs)]; simp [kron, Ne.symm hsr]
  · intro hni; exact absurd (Finset.mem_range.2 hr) hni

theorem svd_apply (h : SvdEqs n A us vs sig) (x : Nat → Cx F) (r : Nat) (hr : r < n) :
    aMul n A x r = ∑ i ∈ Finset.range n, (coef n vs x i * sig.getD i 0) * colEnt us i r := by
  unfold aMul
  have h1 : ∑ s ∈ Finset.range n, aEnt A r s * x s
      = ∑ s ∈ Finset.range n, ∑ i ∈ Finset.range n, coef n vs x i * (aEnt A r s * colEnt vs i s) := by
    refine Finset.sum_congr rfl (fun s hs => ?_)
    rw [svd_expand h x s (Finset.mem_range.1 hs), Finset.mul_sum]
    refine Finset.sum_congr rfl (fun i _ => ?_)
    ring
  rw [h1, Finset.sum_comm]
  refine Finset.sum_congr rfl (fun i hi => ?_)
  rw [← Finset.mul_sum, h.av i r (Finset.mem_range.1 hi) hr]; ring

/-- `|x|^2 = sum |c_i|^2` and `|A x|^2 = sum sigma_i^2 |c_i|^2` -/
theorem svd_norms (h : SvdEqs n A us vs sig) (x : Nat → Cx F) :
    ∑ r ∈ Finset.range n, Cx.normSq (x r) = ∑ i ∈ Finset.range n, Cx.normSq (coef n vs x i) ∧
    ∑ r ∈ Finset.range n, Cx.normSq (aMul n A x r)
      = ∑ i ∈ Finset.range n, (sig.getD i 0).re ^ 2 * Cx.normSq (coef n vs x i) := by
  constructor
  · have := gram_expand n (colEnt vs) (coef n vs x) x h.vv (fun r hr => svd_expand h x r hr)
    have h2 := congrArg Cx.re this
    rw [sum_star_mul_self_re, sum_star_mul_self_re] at h2
    exact h2
  · have := gram_expand n (colEnt us) (fun i => coef n vs x i * sig.getD i 0) (aMul n A x) h.uu
      (fun r hr => svd_apply h x r hr)
    have h2 := congrArg Cx.re this
    rw [sum_star_mul_self_re, sum_star_mul_self_re] at h2
    rw [h2]
    refine Finset.sum_congr rfl (fun i hi => ?_)
    have him := h.real i (Finset.mem_range.1 hi)
    unfold Cx.normSq
    simp only [Cx.mul_re, Cx.mul_im, him]
    ring

/-- **the accepted `sigma_i` bound the Rayleigh quotient of `A^H A`**: `lo <= sigma_i <= hi`, `0 <= lo` gives
`lo^2 |x|^2 <= |A x|^2 <= hi^2 |x|^2` -/
theorem svd_bounds (h : SvdEqs n A us vs sig) (lo hi : F) (hlo0 : 0 ≤ lo)
    (hb : ∀ i, i < n → lo ≤ (sig.getD i 0).re ∧ (sig.getD i 0).re ≤ hi) (x : Nat → Cx F) :
    lo ^ 2 * ∑ r ∈ Finset.range n, Cx.normSq (x r) ≤ ∑ r ∈ Finset.range n, Cx.normSq (aMul n A x r) ∧
    ∑ r ∈ Finset.range n, Cx.normSq (aMul n A x r) ≤ hi ^ 2 * ∑ r ∈ Finset.range n, Cx.normSq (x r) := by
  obtain ⟨h1, h2⟩ := svd_norms h x
  rw [h1, h2, Finset.mul_sum, Finset.mul_sum]
  constructor
  · apply Finset.sum_le_sum
    intro i hi
    obtain ⟨a, _⟩ := hb i (Finset.mem_range.1 hi)
    exact mul_le_mul_of_nonneg_right (pow_le_pow_left₀ hlo0 a 2) (Cx.normSq_nonneg _)
  · apply Finset.sum_le_sum
    intro i hi
    obtain ⟨a, b⟩ := hb i (Finset.mem_range.1 hi)
    exact mul_le_mul_of_nonneg_right (pow_le_pow_left₀ (le_trans hlo0 a) b 2) (Cx.normSq_nonneg _)

end norms

/-! ### `minO` / `maxO` are the extreme real parts -/

theorem foldl_min_le (xs : List (Cx F)) : ∀ (b : Cx F),
    (xs.foldl (fun b z => if Cx.ltC ltF z b then z else b) b).re ≤ b.re ∧
    ∀ z ∈ xs, (xs.foldl (fun b z => if Cx.ltC ltF z b then z else b) b).re ≤ z.re := by
  induction xs with
  | nil => intro b; simp
  | cons y ys ih =>
    intro b
    simp only [List.foldl_cons]
    obtain ⟨i1, i2⟩ := ih (if Cx.ltC ltF y b then y else b)
    have hy : (if Cx.ltC ltF y b then y else b).re ≤ b.re ∧ (if Cx.ltC ltF y b then y else b).re ≤ y.re := by
      by_cases hc : Cx.ltC ltF y b = true
      · rw [if_pos hc]
        rcases (ltC_iff y b).1 hc with h | ⟨h, _⟩
        · exact ⟨le_of_lt h, le_refl _⟩
        · exact ⟨le_of_eq h, le_refl _⟩
      · rw [if_neg hc]
        refine ⟨le_refl _, ?_⟩
        by_contra hlt
        exact hc ((ltC_iff y b).2 (Or.inl (not_le.mp hlt)))
    refine ⟨le_trans i1 hy.1, ?_⟩
    intro z hz
    rcases List.mem_cons.1 hz with rfl | hz
    · exact le_trans i1 hy.2
    · exact i2 z hz

theorem foldl_max_ge (xs : List (Cx F)) : ∀ (b : Cx F),
    b.re ≤ (xs.foldl (fun b z => if Cx.ltC ltF b z then z else b) b).re ∧
    ∀ z ∈ xs, z.re ≤ (xs.foldl (fun b z => if Cx.ltC ltF b z then z else b) b).re := by
  induction xs with
  | nil => intro b; simp
  | cons y ys ih =>
    intro b
    simp only [List.foldl_cons]
    obtain ⟨i1, i2⟩ := ih (if Cx.ltC ltF b y then y else b)
    have hy : b.re ≤ (if Cx.ltC ltF b y then y else b).re ∧ y.re ≤ (if Cx.ltC ltF b y then y else b).re := by
      by_cases hc : Cx.ltC ltF b y = true
      · rw [if_pos hc]
        rcases (ltC_iff b y).1 hc with h | ⟨h, _⟩
        · exact ⟨le_of_lt h, le_refl _⟩
        · exact ⟨le_of_eq h, le_refl _⟩
      · rw [if_neg hc]
        refine ⟨le_refl _, ?_⟩
        by_contra hlt
        exact hc ((ltC_iff b y).2 (Or.inl (not_le.mp hlt)))
    refine ⟨le_trans hy.1 i1, ?_⟩
    intro z hz
    rcases List.mem_cons.1 hz with rfl | hz
    · exact le_trans hy.2 i1
    · exact i2 z hz

theorem minO_le (xs : List (Cx F)) (z : Cx F) (hz : z ∈ xs) : (minO (Cx.ltC ltF) xs).re ≤ z.re := by
  cases xs with
  | nil => simp at hz
  | cons x xs =>
    obtain ⟨a, b⟩ := foldl_min_le xs x
    rcases List.mem_cons.1 hz with rfl | hz
    · exact a
    · exact b z hz

theorem le_maxO (xs : List (Cx F)) (z : Cx F) (hz : z ∈ xs) : z.re ≤ (maxO (Cx.ltC ltF) xs).re := by
  cases xs with
  | nil => simp at hz
  | cons x xs =>
    obtain ⟨a, b⟩ := foldl_max_ge xs x
    rcases List.mem_cons.1 hz with rfl | hz
    · exact a
    · exact b z hz

/-- **`cond` by its definition**: an accepted certificate with positive smallest `sigma` gives the value
`max sigma / min sigma` (a real number) and the two-sided bound of `|A x|^2` by the extreme `sigma`'s -/
theorem condCert_spec (n : Nat) (A us vs : List (List (Cx F))) (sig : List (Cx F)) (κ : Cx F)
    (h : condCert Cx.conj (Cx.ltC ltF) 0 n A us vs sig = .ok κ) (hpos : 0 < (minO (Cx.ltC ltF) sig).re) :
    κ = Cx.ofRe ((maxO (Cx.ltC ltF) sig).re / (minO (Cx.ltC ltF) sig).re) ∧
    ∀ x : Nat → Cx F,
      (minO (Cx.ltC ltF) sig).re ^ 2 * ∑ r ∈ Finset.range n, Cx.normSq (x r) ≤ ∑ r ∈ Finset.range n, Cx.normSq (aMul n A x r) ∧
      ∑ r ∈ Finset.range n, Cx.normSq (aMul n A x r) ≤ (maxO (Cx.ltC ltF) sig).re ^ 2 * ∑ r ∈ Finset.range n, Cx.normSq (x r) := by
  unfold condCert at h
  by_cases h0 : n = 0
  · rw [if_pos h0] at h; cases h
  · rw [if_neg h0] at h
    by_cases h1 : (!svdCert Cx.conj (Cx.ltC ltF) 0 n A us vs sig) = true
    · rw [if_pos h1] at h; cases h
    · rw [if_neg h1] at h
      have hc : svdCert Cx.conj (Cx.ltC ltF) 0 n A us vs sig = true := by simpa using h1
      have hE := svdCert_spec n A us vs sig hc
      simp only [Except.ok.injEq] at h
      have hne : sig ≠ [] := by
        intro hs; have := hE.len; rw [hs] at this; simp at this; omega
      have hreal : ∀ z ∈ sig, z.im = 0 := by
        intro z hz
        obtain ⟨i, hi, rfl⟩ := List.getElem_of_mem hz
        have := hE.real i (by rw [← hE.len]; exact hi)
        rwa [List.getD_eq_getElem _ _ hi] at this
      have hmn := hreal _ (minO_mem (Cx.ltC ltF) sig hne)
      have hmx := hreal _ (maxO_mem (Cx.ltC ltF) sig hne)
      constructor
      · rw [← h, Cx.eq_ofRe_of_star (z := maxO (Cx.ltC ltF) sig) (Cx.ext' rfl (by simp [hmx])),
          Cx.eq_ofRe_of_star (z := minO (Cx.ltC ltF) sig) (Cx.ext' rfl (by simp [hmn])),
          ofRe_div _ _ (ne_of_gt hpos)]
        rfl
      · intro x
        apply svd_bounds hE _ _ (le_of_lt hpos)
        intro i hi
        have hi' : i < sig.length := by rw [hE.len]; exact hi
        have hm : sig.getD i 0 ∈ sig := by rw [List.getD_eq_getElem _ _ hi']; exact List.getElem_mem hi'
        exact ⟨minO_le sig _ hm, le_maxO sig _ hm⟩

#print axioms svdCert_spec
#print axioms svd_bounds
#print axioms condCert_spec
end PyamgV.C19T
