import PyamgV.Proofs.ExtGlue

/-! PyamgV (extension E30, C11): the **public API paths** of `pyamg/classical/interpolate.py`
(theta = None) as one model each (`Glue.apiClassical`, `Glue.apiDirect`: SciPy glue + kernels) against
the proof-side operators.

`strengthRows A C i` — the stored non-zeros of row `i` of `C` carrying the entries of `A` — is the
strength matrix the wrapper means; `strengthCsr A C` the same as a CSR matrix.  Hypotheses (all part of
the correspondence generator): `A`, `C` canonical (sorted, duplicate free), columns of `C` below `n`, a
valid 0/1 splitting, and every stored non-zero of `C` lies on a stored non-zero of `A` (`hpat`: the
strength matrix is inside the pattern of `A`, so `multiply` drops nothing).

* `apiStrength_row`: the matrix handed to pass 1 / pass 2 has the rows `removeFFRow … strengthRows`
  (modified, F-rows) resp. `strengthRows`;
* `apiStrength_discharges_hS'`: it is literally the hypothesis `hS'` of
  `C11X.classicalMod_kernels_refine` for `S = strengthCsr A C`;
* `apiClassical_modified_refines`, `apiClassical_unmodified_refines`, `apiDirect_refines`: the rows of
  the returned `(Pp, Pj, Px)` have the coarse columns of `classicalModP` / `classicalP` / `directP` on
  `strengthCsr A C` and their weights wherever the kernel does not divide by zero. -/
namespace PyamgV.Glue
open PyamgV.N PyamgV.C11 PyamgV.C11M PyamgV.C11X

/-- the strength matrix the wrapper means, row `i`: stored non-zeros of `C` with the entries of `A` -/
def strengthRows (A C : Csr) (i : Nat) : List (Nat × Rat) :=
  ((row C i).filter nz).map (fun cv => (cv.1, entry A i cv.1))

/-- … as a CSR matrix -/
def strengthCsr (A C : Csr) : Csr := ofRows C.n (strengthRows A C)

theorem strengthCsr_row (A C : Csr) {i : Nat} (hi : i < C.n) : rowOf (strengthCsr A C) i = strengthRows A C i :=
  ofRows_row _ _ hi

/-! ### `remove_strong_FF_connections` only looks at the pattern -/

theorem commonC_cols (isC : Nat → Bool) (si si' sk sk' : List (Nat × Rat))
    (h1 : si.map Prod.fst = si'.map Prod.fst) (h2 : sk.map Prod.fst = sk'.map Prod.fst) :
    commonC isC si sk = commonC isC si' sk' := by
  have key : ∀ (a b : List (Nat × Rat)), commonC isC a b =
      (a.map Prod.fst).any (fun c => isC c && (b.map Prod.fst).any (fun d => d == c)) := by
    intro a b
    simp only [commonC, List.any_map, Function.comp_def]
  rw [key, key, h1, h2]

theorem removeFFRow_map (isC : Nat → Bool) (S T : Nat → List (Nat × Rat)) (g : Nat × Rat → Nat × Rat)
    (hg : ∀ cv, (g cv).1 = cv.1) (i : Nat) (hi : T i = (S i).map g)
    (hk : ∀ ck ∈ S i, (T ck.1).map Prod.fst = (S ck.1).map Prod.fst) :
    removeFFRow isC T i = (removeFFRow isC S i).map g := by
  unfold removeFFRow
  rw [hi, List.filter_map]
  congr 1
  apply List.filter_congr
  intro ck hck
  simp only [Function.comp_def, hg]
  congr 1
  apply commonC_cols
  · simp [List.map_map, Function.comp_def, hg]
  · exact hk ck hck

/-- rows of a matrix after `remove_strong_FF_connections` + `eliminate_zeros` (no stored zeros before):
C-rows untouched, F-rows `removeFFRow` -/
theorem removeFF_elim_row (S : Csr) (split : Array Int) (hv : Valid split S.n)
    (hap : ∀ i < S.n, rdN S.ap i ≤ rdN S.ap (i + 1))
    (hcols : ∀ i < S.n, ∀ jj ∈ S.jjs i, rdN S.aj jj < S.n)
    (hnz : ∀ i < S.n, ∀ jj ∈ S.jjs i, rdQ S.ax jj ≠ 0) {i : Nat} (hi : i < S.n) :
    (rowOf (removeFFCsr S split) i).filter nz =
      if isC split i = true then rowOf S i else removeFFRow (isC split) (rowOf S) i := by
  by_cases hC : isC split i = true
  · rw [if_pos hC]
    have hF : isF split i = false := by rw [isF_eq_not_isC split S.n hv hi, hC]; rfl
    have hrow : rowOf (removeFFCsr S split) i = rowOf S i := by
      show (S.jjs i).map (fun jj => (rdN S.aj jj, rdQ (removeFF S split) jj)) = _
      unfold rowOf
      apply List.map_congr_left
      intro jj hjj
      rw [removeFF_entry S split hap hi hjj]
      simp [ffZero, hF]
    rw [hrow]
    apply List.filter_eq_self.2
    intro cv hcv
    simp only [rowOf, List.mem_map] at hcv
    obtain ⟨jj, hjj, rfl⟩ := hcv
    simpa [nz] using hnz i hi jj hjj
  · have hF : isC split i = false := by simpa using hC
    rw [if_neg hC]
    exact removeFF_row_nz S split hv hap hcols hi hF (hnz i hi)

/-! ### facts about `eliminateZeros C` as the input of the kernel -/

theorem elim_cols (C : Csr) (hcols : ∀ i < C.n, ∀ cv ∈ row C i, cv.1 < C.n) :
    ∀ i < (eliminateZeros C).n, ∀ jj ∈ (eliminateZeros C).jjs i, rdN (eliminateZeros C).aj jj < (eliminateZeros C).n := by
  intro i hi jj hjj
  have hi' : i < C.n := hi
  have hm := mem_row_of_jj (eliminateZeros C) hjj
  rw [eliminateZeros_row C hi'] at hm
  exact hcols i hi' _ (List.mem_filter.1 hm).1

theorem elim_nz (C : Csr) :
    ∀ i < (eliminateZeros C).n, ∀ jj ∈ (eliminateZeros C).jjs i, rdQ (eliminateZeros C).ax jj ≠ 0 := by
  intro i hi jj hjj
  exact eliminateZeros_nz C hi _ (mem_row_of_jj (eliminateZeros C) hjj)

theorem mulSpec_ones (r rb : List (Nat × Rat)) (h : ∀ cv ∈ r, Classical.lookup rb cv.1 ≠ 0) :
    mulSpec (r.map (fun cv => (cv.1, (1 : Rat)))) rb = r.map (fun cv => (cv.1, Classical.lookup rb cv.1)) := by
  unfold mulSpec
  induction r with
  | nil => rfl
  | cons a r ih =>
    rw [List.map_cons, List.flatMap_cons, ih (fun cv hcv => h cv (List.mem_cons_of_mem _ hcv)), List.map_cons]
    have := h a List.mem_cons_self
    simp [emit, this]

/-- `C3.data[:] = 1; C3.multiply(A)` on canonical operands with the entries of `C3` on stored non-zeros
of `A`: the pattern of `C3` with the entries of `A` -/
theorem onesMul_row (A C3 : Csr) (hn : C3.n = A.n) (hA : isCanonical A = true)
    (hsorted : ∀ i < C3.n, ((row C3 i).map Prod.fst).Pairwise (· < ·))
    {i : Nat} (hi : i < C3.n) (hin : ∀ cv ∈ row C3 i, entry A i cv.1 ≠ 0) :
    row (multiply (setOnes C3) A) i = (row C3 i).map (fun cv => (cv.1, entry A i cv.1)) := by
  have hcan : isCanonical (setOnes C3) = true := by
    apply isCanonical_ofRows
    intro k hk
    simpa [List.map_map, Function.comp_def] using hsorted k hk
  rw [multiply_row_canonical (setOnes C3) A (by simpa using hn) hcan hA (by simpa using hi), setOnes_row C3 hi,
    mulSpec_ones]
  · apply List.map_congr_left
    intro cv _
    rw [entry_eq_lookup]; rfl
  · intro cv hcv
    have := hin cv hcv
    rwa [entry_eq_lookup] at this

theorem filter_cols_sorted (r : List (Nat × Rat)) (p : Nat × Rat → Bool)
    (h : (r.map Prod.fst).Pairwise (· < ·)) : ((r.filter p).map Prod.fst).Pairwise (· < ·) :=
  h.sublist (List.filter_sublist.map Prod.fst)

/-! ### the strength matrix handed to pass 1 / pass 2 -/

section api
variable (A C : Csr) (split : Array Int) (hn : C.n = A.n) (hv : Valid split A.n)
  (hcanA : isCanonical A = true) (hcanC : isCanonical C = true)
  (hcols : ∀ i < C.n, ∀ cv ∈ row C i, cv.1 < C.n)
  (hpat : ∀ i < C.n, ∀ cv ∈ row C i, cv.2 ≠ 0 → entry A i cv.1 ≠ 0)
include hn hv hcanA hcanC hcols hpat

/-- **the glue of `classical_interpolation` produces the strength matrix the kernels' theorems assume**:
row `i` of `copy; eliminate_zeros; [remove_strong_FF_connections]; eliminate_zeros; data = 1; multiply(A)` -/
theorem apiStrength_row (modified : Bool) {i : Nat} (hi : i < A.n) :
    row (apiStrength modified A C split) i =
      if modified = true ∧ isC split i = false then removeFFRow (isC split) (strengthRows A C) i
      else strengthRows A C i := by
  have hiC : i < C.n := by omega
  have hsC : ((row C i).map Prod.fst).Pairwise (· < ·) := ((isCanonical_iff C).1 hcanC i hiC).2
  have hv1 : Valid split (eliminateZeros C).n := by rw [eliminateZeros_n, hn]; exact hv
  -- the matrix before `data = 1; multiply`: rows and their columns
  obtain ⟨C3, hC3, hn3, hrow3⟩ : ∃ C3 : Csr, apiStrength modified A C split = multiply (setOnes C3) A ∧
      C3.n = C.n ∧ ∀ k < C.n, row C3 k =
        if modified = true ∧ isC split k = false then removeFFRow (isC split) (rowOf (eliminateZeros C)) k
        else (row C k).filter nz := by
    cases modified with
    | false =>
      refine ⟨eliminateZeros (eliminateZeros C), rfl, rfl, ?_⟩
      intro k hk
      simp only [Bool.false_eq_true, false_and, if_false]
      rw [eliminateZeros_idem_row C hk, eliminateZeros_row C hk]
    | true =>
      refine ⟨eliminateZeros (removeFFCsr (eliminateZeros C) split), rfl, rfl, ?_⟩
      intro k hk
      rw [eliminateZeros_row _ (show k < (removeFFCsr (eliminateZeros C) split).n from hk), row_eq_rowOf,
        removeFF_elim_row (eliminateZeros C) split hv1 (fun i hi => eliminateZeros_ap_mono C hi)
          (elim_cols C hcols) (elim_nz C) (show k < (eliminateZeros C).n from hk)]
      by_cases hCk : isC split k = true
      · simp only [hCk, if_true, Bool.true_eq_false, and_false, if_false]
        rw [← row_eq_rowOf, eliminateZeros_row C hk]
      · have : isC split k = false := by simpa using hCk
        simp [this]
  -- every row of `C3` is a sublist of the stored non-zeros of `C`
  have hsub : ∀ k < C.n, (row C3 k).Sublist ((row C k).filter nz) := by
    intro k hk
    rw [hrow3 k hk]
    split
    · unfold removeFFRow
      rw [← row_eq_rowOf, eliminateZeros_row C hk]
      exact List.filter_sublist
    · exact List.Sublist.refl _
  have hsorted : ∀ k < C3.n, ((row C3 k).map Prod.fst).Pairwise (· < ·) := by
    intro k hk
    have hk' : k < C.n := by omega
    exact (filter_cols_sorted _ nz ((isCanonical_iff C).1 hcanC k hk').2).sublist ((hsub k hk').map Prod.fst)
  have hin : ∀ cv ∈ row C3 i, entry A i cv.1 ≠ 0 := by
    intro cv hcv
    have hm := (hsub i hiC).subset hcv
    obtain ⟨h1, h2⟩ := List.mem_filter.1 hm
    exact hpat i hiC cv h1 (by simpa [nz] using h2)
  rw [hC3, onesMul_row A C3 (by omega) hcanA hsorted (by omega) hin, hrow3 i hiC]
  split
  · rename_i hmF
    symm
    apply removeFFRow_map (isC split) (rowOf (eliminateZeros C)) (strengthRows A C)
      (fun cv => (cv.1, entry A i cv.1)) (fun _ => rfl) i
    · unfold strengthRows
      rw [← row_eq_rowOf, eliminateZeros_row C hiC]
    · intro ck hck
      have hck' : ck.1 < C.n := by
        rw [← row_eq_rowOf, eliminateZeros_row C hiC] at hck
        exact hcols i hiC ck (List.mem_filter.1 hck).1
      unfold strengthRows
      rw [← row_eq_rowOf, eliminateZeros_row C hck']
      simp [List.map_map, Function.comp_def]
  · rfl

theorem apiStrength_cols {modified : Bool} :
    ∀ i < A.n, ∀ jj ∈ (apiStrength modified A C split).jjs i, rdN (apiStrength modified A C split).aj jj < A.n := by
  intro i hi jj hjj
  have hiC : i < C.n := by omega
  have hm := mem_row_of_jj _ hjj
  rw [apiStrength_row A C split hn hv hcanA hcanC hcols hpat modified hi] at hm
  have hmem : ∀ cv ∈ strengthRows A C i, cv.1 < A.n := by
    intro cv hcv
    unfold strengthRows at hcv
    obtain ⟨cv', h1, rfl⟩ := List.mem_map.1 hcv
    have := hcols i hiC cv' (List.mem_filter.1 h1).1
    show cv'.1 < A.n
    omega
  split at hm
  · exact hmem _ (mem_removeFFRow hm)
  · exact hmem _ hm

omit hv hcanA hcanC in
/-- the strength matrix the wrapper means, as CSR: monotone row pointer, columns below `n`, no stored zero -/
theorem strengthCsr_wf :
    (strengthCsr A C).n = A.n ∧
    (∀ i < (strengthCsr A C).n, rdN (strengthCsr A C).ap i ≤ rdN (strengthCsr A C).ap (i + 1)) ∧
    (∀ i < (strengthCsr A C).n, ∀ jj ∈ (strengthCsr A C).jjs i, rdN (strengthCsr A C).aj jj < (strengthCsr A C).n) ∧
    (∀ i < (strengthCsr A C).n, ∀ jj ∈ (strengthCsr A C).jjs i, rdQ (strengthCsr A C).ax jj ≠ 0) := by
  have hmem : ∀ i < C.n, ∀ cv ∈ strengthRows A C i, cv.1 < C.n ∧ cv.2 ≠ 0 := by
    intro i hi cv hcv
    unfold strengthRows at hcv
    obtain ⟨cv', h1, rfl⟩ := List.mem_map.1 hcv
    obtain ⟨h2, h3⟩ := List.mem_filter.1 h1
    exact ⟨hcols i hi cv' h2, hpat i hi cv' h2 (by simpa [nz] using h3)⟩
  refine ⟨hn, fun i hi => ofRows_ap_mono _ _ hi, ?_, ?_⟩
  · intro i hi jj hjj
    have hm := mem_row_of_jj (strengthCsr A C) hjj
    rw [row_eq_rowOf, strengthCsr_row A C hi] at hm
    exact (hmem i hi _ hm).1
  · intro i hi jj hjj
    have hm := mem_row_of_jj (strengthCsr A C) hjj
    rw [row_eq_rowOf, strengthCsr_row A C hi] at hm
    exact (hmem i hi _ hm).2

/-- **`hS'` of `C11X.classicalMod_kernels_refine` holds for the wrapper's glue**: the matrix the public
function hands to pass 1 / pass 2 is `remove_strong_FF_connections` + `eliminate_zeros` of the strength
matrix `strengthCsr A C` -/
theorem apiStrength_discharges_hS' :
    ∀ i < A.n, rowOf (apiStrength true A C split) i =
      (rowOf (removeFFCsr (strengthCsr A C) split) i).filter (fun cv => decide (cv.2 ≠ 0)) := by
  intro i hi
  have hiC : i < C.n := by omega
  obtain ⟨h1, h2, h3, h4⟩ := strengthCsr_wf A C hn hcols hpat
  have := removeFF_elim_row (strengthCsr A C) split (by rw [h1]; exact hv) h2 h3 h4 (i := i) (by rw [h1]; exact hi)
  rw [show (fun cv : Nat × Rat => decide (cv.2 ≠ 0)) = nz from rfl, this, ← row_eq_rowOf,
    apiStrength_row A C split hn hv hcanA hcanC hcols hpat true hi]
  by_cases hCi : isC split i = true
  · simp only [hCi, if_true, Bool.true_eq_false, and_false, if_false]
    rw [strengthCsr_row A C hiC]
  · have hF : isC split i = false := by simpa using hCi
    simp only [hF, and_self, if_true, Bool.false_eq_true, if_false]
    -- `removeFFRow` reads the rows `i` and `k` for the columns `k < n` of row `i` only
    unfold removeFFRow
    rw [strengthCsr_row A C hiC]
    apply List.filter_congr
    intro ck hck
    have hck' : ck.1 < C.n := by
      unfold strengthRows at hck
      obtain ⟨cv', h1', rfl⟩ := List.mem_map.1 hck
      exact hcols i hiC cv' (List.mem_filter.1 h1').1
    rw [strengthCsr_row A C hck']

/-- **`classical_interpolation(A, C, splitting, modified=True)` end to end** (model `apiClassical`, the
driver op `ext_c11_api_classical`): row `i` of the returned `(Pp, Pj, Px)` has the coarse columns of row
`i` of `classicalModP` on the strength matrix `strengthCsr A C`, and its weights wherever the kernel
does not divide by zero -/
theorem apiClassical_modified_refines (eps : Rat) {i : Nat} (hi : i < A.n) :
    List.Forall₂ (fun (m : Int × Option Rat) (p : Nat × Rat) => m.1 = (p.1 : Int) ∧ ∀ x, m.2 = some x → x = p.2)
      (rowAt (-1 : Int) (none : Option Rat) (apiClassical eps true A C split).1
        (apiClassical eps true A C split).2.1 (apiClassical eps true A C split).2.2 i)
      ((classicalModP eps (isC split) A.n (rowOf A) (rowOf (strengthCsr A C))).getD i []) := by
  obtain ⟨h1, h2, h3, h4⟩ := strengthCsr_wf A C hn hcols hpat
  exact classicalMod_kernels_refine eps A (strengthCsr A C) (apiStrength true A C split) split h1 hv h2 h3 h4
    (apiStrength_discharges_hS' A C split hn hv hcanA hcanC hcols hpat) hi

/-- **`classical_interpolation(A, C, splitting, modified=False)` end to end** -/
theorem apiClassical_unmodified_refines (eps : Rat) {i : Nat} (hi : i < A.n) :
    List.Forall₂ (fun (m : Int × Option Rat) (p : Nat × Rat) => m.1 = (p.1 : Int) ∧ ∀ x, m.2 = some x → x = p.2)
      (rowAt (-1 : Int) (none : Option Rat) (apiClassical eps false A C split).1
        (apiClassical eps false A C split).2.1 (apiClassical eps false A C split).2.2 i)
      ((classicalP eps (isC split) A.n (rowOf A) (rowOf (strengthCsr A C))).getD i []) := by
  have hiC : i < C.n := by omega
  show List.Forall₂ _ (rowAt (-1 : Int) (none : Option Rat) (classicalPass1 A.n (apiStrength false A C split) split)
    (classicalPass2 eps false A (apiStrength false A C split) split
      (classicalPass1 A.n (apiStrength false A C split) split)).1
    (classicalPass2 eps false A (apiStrength false A C split) split
      (classicalPass1 A.n (apiStrength false A C split) split)).2 i) _
  rw [classicalPass2_refines eps A _ split hv (apiStrength_cols A C split hn hv hcanA hcanC hcols hpat) hi]
  have hrow : rowOf (apiStrength false A C split) i = rowOf (strengthCsr A C) i := by
    rw [← row_eq_rowOf, apiStrength_row A C split hn hv hcanA hcanC hcols hpat false hi, strengthCsr_row A C hiC]
    simp
  have : classicalPOptRow eps (isC split) (rowOf A) (rowOf (apiStrength false A C split)) i =
      classicalPOptRow eps (isC split) (rowOf A) (rowOf (strengthCsr A C)) i := by
    unfold classicalPOptRow
    rw [hrow]
  rw [this]
  exact classicalPOptRow_forall₂ eps (isC split) A.n (rowOf A) (rowOf (strengthCsr A C)) hi

omit hv hcols in
/-- the glue of `direct_interpolation`: `copy; eliminate_zeros; data = 1; multiply(A)` -/
theorem apiDirect_strength_row {i : Nat} (hi : i < A.n) :
    row (multiply (setOnes (eliminateZeros C)) A) i = strengthRows A C i := by
  have hiC : i < C.n := by omega
  have hsorted : ∀ k < (eliminateZeros C).n, ((row (eliminateZeros C) k).map Prod.fst).Pairwise (· < ·) := by
    intro k hk
    rw [eliminateZeros_row C hk]
    exact filter_cols_sorted _ nz ((isCanonical_iff C).1 hcanC k hk).2
  rw [onesMul_row A (eliminateZeros C) hn hcanA hsorted hiC, eliminateZeros_row C hiC]
  · rfl
  · intro cv hcv
    rw [eliminateZeros_row C hiC] at hcv
    obtain ⟨h1, h2⟩ := List.mem_filter.1 hcv
    exact hpat i hiC cv h1 (by simpa [nz] using h2)

/-- **`direct_interpolation(A, C, splitting)` end to end** (model `apiDirect`, op `ext_c11_api_direct`) -/
theorem apiDirect_refines {i : Nat} (hi : i < A.n) :
    List.Forall₂ (fun (m : Nat × Option Rat) (p : Nat × Rat) => m.1 = p.1 ∧ ∀ x, m.2 = some x → x = p.2)
      (rowAt (0 : Nat) (none : Option Rat) (apiDirect A C split).1 (apiDirect A C split).2.1
        (apiDirect A C split).2.2 i)
      ((directP (isC split) A.n (rowOf A) (rowOf (strengthCsr A C))).getD i []) := by
  have hiC : i < C.n := by omega
  have hcolsS : ∀ k < A.n, ∀ jj ∈ (multiply (setOnes (eliminateZeros C)) A).jjs k,
      rdN (multiply (setOnes (eliminateZeros C)) A).aj jj < A.n := by
    intro k hk jj hjj
    have hm := mem_row_of_jj _ hjj
    rw [apiDirect_strength_row A C hn hcanA hcanC hpat hk] at hm
    unfold strengthRows at hm
    obtain ⟨cv', h1, e⟩ := List.mem_map.1 hm
    have := hcols k (by omega) cv' (List.mem_filter.1 h1).1
    have e1 : cv'.1 = rdN (multiply (setOnes (eliminateZeros C)) A).aj jj := congrArg Prod.fst e
    omega
  have h := (directInterp_refines A (multiply (setOnes (eliminateZeros C)) A) split hv hcolsS).2.2 i hi
  show List.Forall₂ _ (rowAt (0 : Nat) (none : Option Rat)
    (directInterp A (multiply (setOnes (eliminateZeros C)) A) split).1
    (directInterp A (multiply (setOnes (eliminateZeros C)) A) split).2.1
    (directInterp A (multiply (setOnes (eliminateZeros C)) A) split).2.2 i) _
  rw [h]
  have hrow : rowOf (multiply (setOnes (eliminateZeros C)) A) i = rowOf (strengthCsr A C) i := by
    rw [← row_eq_rowOf, apiDirect_strength_row A C hn hcanA hcanC hpat hi, strengthCsr_row A C hiC]
  have : directPOptRow (isC split) (rowOf A) (rowOf (multiply (setOnes (eliminateZeros C)) A)) i =
      directPOptRow (isC split) (rowOf A) (rowOf (strengthCsr A C)) i := by
    unfold directPOptRow
    rw [hrow]
  rw [this]
  exact directPOptRow_forall₂ (isC split) A.n (rowOf A) (rowOf (strengthCsr A C)) hi

end api

end PyamgV.Glue
