import PyamgV.Proofs.GsEnergy
import PyamgV.Proofs.Cycle

/-! PyamgV: a Gauss–Seidel sweep in ANY order (forward, backward, symmetric, indexed, repeated)
is a non-expansive smoother in the sense required by `cyc_nonexp`. -/
namespace PyamgV

variable {K : Type*} [Field K] [LinearOrder K] [IsStrictOrderedRing K] [DecidableEq K]

/-- the kernel's outer loop over an explicit row order -/
def gsSweepFn (rows : Nat → Row K) (b : Nat → K) (order : List Nat) (x : Nat → K) : Nat → K :=
  order.foldl (fun x i => gsRowFn i (rows i) b x) x

theorem gsSweep_nonexp (n : Nat) (rows : Nat → Row K) (hsym) (hpsd)
    (diag : Nat → K) (hdiag : ∀ i, i < n → HasDiag i (rows i) (diag i))
    (order : List Nat) (horder : ∀ i ∈ order, i < n) :
    NonExp (energy n rows hsym hpsd) (csrOp n rows) (fun x b => gsSweepFn rows b order x) := by
  intro x b xs hb
  have hxs : ∀ j, j < n → csrOp n rows xs j = b j := fun j _ => by rw [hb]
  induction order generalizing x with
  | nil => simp [gsSweepFn]
  | cons i rest ih =>
    have hi : i < n := horder i (by simp)
    have h1 := gsRow_energy n rows hsym hpsd i hi (diag i) (hdiag i hi) b x xs hxs
    have h2 := ih (fun j hj => horder j (by simp [hj])) (gsRowFn i (rows i) b x)
    simp only [gsSweepFn, List.foldl_cons] at h2 ⊢
    exact le_trans h2 h1

/-- forward sweep then backward sweep (`sweep='symmetric'`), `iterations` times: still one `order` -/
example (n iters : Nat) : List Nat :=
  (List.replicate iters (List.range n ++ (List.range n).reverse)).flatten

#print axioms gsSweep_nonexp
end PyamgV
