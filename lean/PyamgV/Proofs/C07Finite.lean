import PyamgV.Proofs.C07Refine
import Mathlib.LinearAlgebra.BilinearForm.Orthogonal
import Mathlib.LinearAlgebra.Dimension.Finrank
import Mathlib.LinearAlgebra.FiniteDimensional.Basic

/-! PyamgV (C07): finite termination of *preconditioned* CG — "an n-by-n system is solved in at most
n steps" — and, through the simulations, of CGNR; stated for the abstract sequence (`pcg_solves`)
and for the executable recurrence model (`cg_model_solves`, `cgnr_model_solves`).
The argument: as long as `rz ≠ 0` the residuals `r_0 … r_k` are pairwise `M`-orthogonal and
`⟨r_j, M r_j⟩ ≠ 0`, hence linearly independent; there are at most `dim V` of them. -/
namespace PyamgV
namespace PCG

variable {K : Type*} [Field K] [LinearOrder K] [IsStrictOrderedRing K]
variable {V : Type*} [AddCommGroup V] [Module K V]
variable (A M : V →ₗ[K] V) (e : EForm K V) (b x0 : V)

local notation "S" => seq A M e b x0

theorem pcg_finite [FiniteDimensional K V] (hA : Hyp A M e) :
    ∃ j, j ≤ Module.finrank K V ∧ (S j).rz = 0 := by
  by_contra hcon
  have hnb : ∀ j, j ≤ Module.finrank K V → (S j).rz ≠ 0 := by
    intro j hj h; exact hcon ⟨j, hj, h⟩
  set n := Module.finrank K V with hn
  have hI : PInv A M e b x0 (n+1) := pInv_all hA n hnb
  let v : Fin (n+1) → V := fun i => (S i.1).r
  have hli : LinearIndependent K v := by
    refine LinearMap.BilinForm.linearIndependent_of_iIsOrtho (B := e.a.compl₂ M) ?_ ?_
    · intro i j hij
      show e.a (S i.1).r (M (S j.1).r) = 0
      rcases Nat.lt_or_gt_of_ne (fun h => hij (Fin.ext h)) with h | h
      · rw [← hA.symM, e.symm]; exact hI.rr j.1 i.1 h (by have := j.2; omega)
      · exact hI.rr i.1 j.1 h (by have := i.2; omega)
    · intro i hi
      have h1 : e.a (S i.1).r (M (S i.1).r) = 0 := hi
      have h2 := hI.rzdef i.1 (by have := i.2; omega)
      exact hnb i.1 (by have := i.2; omega) (h2.trans h1)
  have := hli.fintype_card_le_finrank
  simp at this
  omega

/-- **preconditioned CG solves an `n`-dimensional system in at most `n` steps** (`M` definite) -/
theorem pcg_solves [FiniteDimensional K V] (hA : Hyp A M e)
    (hMdef : ∀ v, e.a v (M v) = 0 → v = 0) :
    ∃ j, j ≤ Module.finrank K V ∧ A (S j).x = b := by
  classical
  obtain ⟨j, hj, hz⟩ := pcg_finite (b := b) (x0 := x0) A M e hA
  have hex : ∃ j, (S j).rz = 0 := ⟨j, hz⟩
  let m := Nat.find hex
  have hm : (S m).rz = 0 := Nat.find_spec hex
  have hmin : ∀ i, i < m → (S i).rz ≠ 0 := fun i hi => Nat.find_min hex hi
  have hmj : m ≤ j := Nat.find_min' hex hz
  have hI : PInv A M e b x0 m := pInv_of hA m hmin
  have hr : (S m).r = 0 := hMdef _ ((hI.rzdef m (le_refl m)).symm.trans hm)
  refine ⟨m, by omega, ?_⟩
  have := hI.res m (le_refl m)
  rw [hr] at this
  exact (sub_eq_zero.mp this.symm).symm

end PCG

namespace C07
variable {K : Type} [Field K] [LinearOrder K] [IsStrictOrderedRing K]
variable {V : Type} [AddCommGroup V] [Module K V]
variable (A AH M : V →ₗ[K] V) (e : EForm K V) (b x0 : V)

/-- the recurrence model of `_cg.py` reaches the exact solution within `dim V` steps -/
theorem cg_model_solves [FiniteDimensional K V] (hA : PCG.Hyp A M e)
    (hMdef : ∀ v, e.a v (M v) = 0 → v = 0) :
    ∃ j, j ≤ Module.finrank K V ∧ A (cgSeq A AH M e b x0 j).x = b := by
  obtain ⟨j, hj, h⟩ := PCG.pcg_solves A M e b x0 hA hMdef
  exact ⟨j, hj, by rw [(cg_refines A AH M e b x0 j).1]; exact h⟩

/-- the recurrence model of `_cgnr.py` reaches the exact solution within `dim V` steps -/
theorem cgnr_model_solves [FiniteDimensional K V] (hadj : KSim.Adj e A AH)
    (hM : ∀ u v, e.a (M u) v = e.a u (M v)) (hdef : ∀ v, e.a v v = 0 → v = 0)
    (hinj : ∀ v, A v = 0 → v = 0) (hinjH : ∀ v, AH v = 0 → v = 0)
    (hMdef : ∀ v, e.a v (M v) = 0 → v = 0) :
    ∃ j, j ≤ Module.finrank K V ∧ A (cgnrSeq A AH M e b x0 j).x = b := by
  obtain ⟨j, hj, h⟩ := PCG.pcg_solves (AH ∘ₗ A) M e (AH b) x0 (KSim.nr_hyp hadj hM hdef hinj) hMdef
  refine ⟨j, hj, ?_⟩
  rw [(cgnr_refines A AH M e b x0 j).1, ← (KSim.nr_sim hadj b x0 j).1]
  have : AH (A (PCG.seq (AH ∘ₗ A) M e (AH b) x0 j).x - b) = 0 := by
    rw [map_sub]; simpa [sub_eq_zero] using h
  exact sub_eq_zero.mp (hinjH _ this)

#print axioms cg_model_solves
#print axioms cgnr_model_solves
end C07
end PyamgV
