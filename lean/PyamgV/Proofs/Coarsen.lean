/-! PyamgV (C04): the coarsening loop shared by the five constructors
  `while len(levels) < max_levels and size(levels[-1]) > max_coarse: extend …`
with `extend` returning `none` when it bails out (degenerate splitting). Core only. -/
namespace PyamgV.Coarsen

variable {L : Type}

/-- `levels` is kept in reverse order (last level first). -/
def build (size : L → Nat) (extend : L → Option L) (maxLevels maxCoarse : Nat) :
    Nat → List L → List L
  | 0, lv => lv
  | fuel+1, lv =>
    match lv with
    | [] => []
    | last :: rest =>
      if (last :: rest).length < maxLevels ∧ size last > maxCoarse then
        match extend last with
        | none => last :: rest
        | some nxt => build size extend maxLevels maxCoarse fuel (nxt :: last :: rest)
      else last :: rest

/-- why the loop stopped -/
inductive Stop | maxLevels | smallEnough | stalled
deriving Repr

theorem build_spec (size : L → Nat) (extend : L → Option L) (maxLevels maxCoarse : Nat) :
    ∀ (fuel : Nat) (lv : List L), lv ≠ [] → lv.length ≤ maxLevels → fuel + lv.length ≥ maxLevels →
      (∀ l ∈ lv.tail, size l > maxCoarse) →
      let r := build size extend maxLevels maxCoarse fuel lv
      r ≠ [] ∧ r.length ≤ maxLevels ∧ lv.length ≤ r.length ∧
      (∀ l ∈ r.tail, size l > maxCoarse) ∧
      (∃ last, r.head? = some last ∧
        (r.length = maxLevels ∨ size last ≤ maxCoarse ∨ extend last = none)) := by
  intro fuel
  induction fuel with
  | zero =>
    intro lv hne hlen hfuel htail
    have : lv.length = maxLevels := by omega
    cases lv with
    | nil => exact absurd rfl hne
    | cons a as => exact ⟨by simp [build], by simpa [build] using hlen, by simp [build], by simpa [build] using htail,
        a, by simp [build], Or.inl (by simpa [build] using this)⟩
  | succ fuel ih =>
    intro lv hne hlen hfuel htail
    cases lv with
    | nil => exact absurd rfl hne
    | cons last rest =>
      simp only [build]
      by_cases hc : (last :: rest).length < maxLevels ∧ size last > maxCoarse
      · simp only [hc, and_self, if_true]
        cases he : extend last with
        | none =>
          exact ⟨by simp, hlen, Nat.le_refl _, htail, last, by simp, Or.inr (Or.inr he)⟩
        | some nxt =>
          have := ih (nxt :: last :: rest) (by simp) (by simp at hc ⊢; omega) (by simp at hfuel ⊢; omega)
            (by intro l hl; simp at hl; rcases hl with rfl | hl
                · exact hc.2
                · exact htail l (by simpa using hl))
          obtain ⟨h1, h2, h3, h4, h5⟩ := this
          exact ⟨h1, h2, by simp at h3 ⊢; omega, h4, h5⟩
      · simp only [hc, if_false]
        refine ⟨by simp, hlen, Nat.le_refl _, htail, last, by simp, ?_⟩
        have : ¬ ((last :: rest).length < maxLevels) ∨ ¬ (size last > maxCoarse) := by
          by_cases h1 : (last :: rest).length < maxLevels
          · right; intro h2; exact hc ⟨h1, h2⟩
          · left; exact h1
        rcases this with h | h
        · left; simp at h hlen ⊢; omega
        · right; left; omega

/-- strict decrease of sizes, given that `extend` strictly shrinks -/
theorem build_decreasing (size : L → Nat) (extend : L → Option L) (maxLevels maxCoarse : Nat)
    (hshrink : ∀ l l', extend l = some l' → size l' < size l) :
    ∀ (fuel : Nat) (lv : List L), lv.Pairwise (fun a b => size a < size b) →
      (build size extend maxLevels maxCoarse fuel lv).Pairwise (fun a b => size a < size b) := by
  intro fuel
  induction fuel with
  | zero => intro lv h; simpa [build] using h
  | succ fuel ih =>
    intro lv h
    cases lv with
    | nil => simp [build]
    | cons last rest =>
      simp only [build]
      split
      · cases he : extend last with
        | none => simpa using h
        | some nxt =>
          simp only
          apply ih
          rw [List.pairwise_cons]
          refine ⟨?_, h⟩
          intro b hb
          have h1 := hshrink last nxt he
          rcases List.mem_cons.1 hb with rfl | hb'
          · exact h1
          · exact Nat.lt_trans h1 ((List.pairwise_cons.1 h).1 b hb')
      · exact h

#print axioms build_spec
#print axioms build_decreasing
end PyamgV.Coarsen
